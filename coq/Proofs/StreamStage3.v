(* The streaming properties (C05, C06, C07), UNCONDITIONALLY, for
     (A) the whole type universe of stage 3 (OPTIONAL / DEFAULT, SET, CHOICE, ANY, ...; definite lengths;
         encoders BER and DER; decoders BER, CER and DER), and
     (B) the indefinite-length / segmented / CER modes of the stage-2 fragment (any encoder whose options
         are stable; decoders BER and CER), where the decoder looks ahead for the end-of-octets marker
         00 00 before every component and every fragment.
   Method: StreamClean.v shows that EVERY consuming run of the item decoder is a clean run
   ([consumes_clean_dec_call]); the round-trip theorems of RoundTrip3*.v and RoundTripModes*.v provide the
   consuming runs; the generic theorems [c06_of_clean], [c05_of_clean], [c07_of_clean] do the rest. *)
From Coq Require Import Lia Permutation.
From PV Require Import Base.Bytes Model.Tag Model.TableTypes Model.Types Model.Proc Model.Enc Model.Dec Gen.Tables
     Proofs.ProcBind Proofs.RunLemmas Proofs.TagOctets Proofs.DecHeader Proofs.DecFrame Proofs.TagsetShape
     Proofs.RoundTrip1 Proofs.RoundTrip2
     Proofs.RoundTrip3 Proofs.RoundTrip3a Proofs.RoundTrip3b Proofs.RoundTrip3c Proofs.RoundTrip3d Proofs.RoundTrip3e
     Proofs.RoundTripModesA Proofs.RoundTripModesB Proofs.RoundTripModesC Proofs.RoundTripModesBag Proofs.RoundTripModes
     Proofs.ProcSim Proofs.ProcSched Proofs.DecStream Proofs.StreamStage2 Proofs.StreamClean.
Local Open Scope N_scope.

(* the decoded object is a value of the type whose abstract contents are R-related to those written *)
Definition same_rel (R: aval -> aval -> Prop) (T: ty) (v: val) (d: dval) : Prop :=
  exists v', d = DV T v' /\ R (abs T v') (abs T v).

(* what C07 says of encodings bs laid end to end, decoded into ds *)
Definition c07_concl (c: codec) (fuel: nat) (sp: option ty) (bs: list bytes) (ds: list dval) : Prop :=
  length ds = length bs
  /\ (forall i, (i < length bs)%nat -> nth i (ends 0 bs) 0%nat = length (concat (firstn (S i) bs)))
  /\ (exists sF, run_complete (streaming c fuel sp) (concat bs) = inr (Ok (combine ds (ends 0 bs)), sF)
                 /\ pos sF = length (concat bs))
  /\ forall sched, wf_sched false sched -> has_close sched = true -> arrivals sched = concat bs ->
     exists j, drive sched (streaming c fuel sp) (mkStream [] 0 false 0)
               = repeat OUnder j ++ [ODone (Ok (combine ds (ends 0 bs))) (length (concat bs))].

Lemma Forall2_and_in_r {X Y} (P: X -> Y -> Prop) (Q: Y -> Prop) l1 l2 :
  Forall2 P l1 l2 -> (forall y, In y l2 -> Q y) -> Forall2 (fun x y => P x y /\ Q y) l1 l2.
Proof.
  induction 1 as [|x y l1 l2 Hxy _ IH]; intros HQ; constructor.
  - split; [exact Hxy|]. apply HQ. left. reflexivity.
  - apply IH. intros z Hz. apply HQ. right. exact Hz.
Qed.

Lemma c07_wrap {V} (P: V -> bytes -> Prop) (S: V -> dval -> Prop) c fuel sp (depth: nat) :
  (forall v b, P v b -> (length b + depth <= fuel)%nat ->
     exists d, S v d /\ consumes_clean (dec_item c fuel sp) b d /\ (0 < length b)%nat) ->
  forall vs bs, Forall2 P vs bs -> bs <> [] -> (length bs <= fuel)%nat ->
  (forall b, In b bs -> (length b + depth <= fuel)%nat) ->
  exists ds, Forall2 S vs ds /\ c07_concl c fuel sp bs ds.
Proof.
  intros H vs bs HF Hne Hn Hfuel.
  pose proof (Forall2_and_in_r _ _ _ _ HF Hfuel) as HF'.
  destruct (items_of_vals (fun v b => P v b /\ (length b + depth <= fuel)%nat) S c fuel sp
              (fun v b Hq => H v b (proj1 Hq) (proj2 Hq)) vs bs HF') as (ds & HS & Hit).
  exists ds. split; [exact HS|]. exact (c07_of_clean c fuel sp bs ds Hit Hne Hn).
Qed.

(* ====================================================================================== *)
(* (A) stage 3: the whole type universe, definite lengths                                  *)
(* ====================================================================================== *)

(* the consuming run of the stage-3 round trip (cf. RoundTrip3c.stage3_decode) is a clean run *)
Theorem stage3_consumes_clean : forall ce cd R srt, enc_ok ce -> rel_ok R srt -> forall T v b,
  stage3_ty srt ce T = true -> stage3_val ce cd T v = true ->
  encode ce true 0 T v = Ok b -> N.of_nat (length b) <= index_max ->
  (0 < length b)%nat /\ exists v', R (abs T v') (abs T v) /\
    forall fuel, (length b + ty_depth T <= fuel)%nat -> consumes_clean (dec_item cd fuel (Some T)) b (DV T v').
Proof.
  intros ce cd R srt Hce HR T v b Hty Hv He Hmax.
  pose proof (frag_all T) as Hfr.
  assert (Hany_item: true = true -> forall x, stage3_val ce cd TAny x = true -> item_sty ce cd R TAny x)
    by (intros _ x Hx; exact (any_item ce cd Hce R srt HR x Hx)).
  assert (Hdir: direct_ok T = true).
  { unfold direct_ok. destruct T; try (rewrite (top_keys ce srt); [reflexivity|exact Hty|discriminate]). apply Bool.orb_true_r. }
  assert (Hval: T <> TAny -> forall y, Pv3 ce cd T y -> val_ok ce cd R T y).
  { intros Hn y Hy.
    apply (stage3_val_ok ce cd Hce R srt HR true true
             (fun _ T' fs => set_val ce cd Hce R srt HR (Pv3 ce cd) T' fs) Hany_item
             (fun _ T' Hb Hwr Hty' x Hx => any_val_tagged ce cd Hce R srt HR srt T' Hb Hwr Hty' x Hx)
             T T eq_refl Hty Hfr Hn y Hy). }
  pose proof (direct_item ce cd R true true Hany_item T Hval Hfr Hdir v Hv) as Hit.
  destruct (Hit b He Hmax) as (v' & HRv & Hl & Hc).
  split; [exact Hl|]. exists v'. split; [exact HRv|]. intros fuel Hf.
  apply (consumes_clean_dec_item cd fuel (Some T) b (DV T v') Hl). exact (Hc fuel Hf).
Qed.

Print Assumptions stage3_consumes_clean.

(* C06: EVERY strict prefix of a stage-3 encoding is insufficient data *)
Theorem c06_stage3 : forall ce cd srt T v b fuel k,
  enc_ok ce -> stage3_ty srt ce T = true -> stage3_val ce cd T v = true ->
  encode ce true 0 T v = Ok b -> N.of_nat (length b) <= index_max ->
  (length b + ty_depth T <= fuel)%nat -> (k < length b)%nat ->
  decode_with cd fuel (Some T) (firstn k b) = Err EEndOfStream
  /\ exists n kont s1, resume (dec_item cd fuel (Some T)) (mkStream (firstn k b) 0 false 0) = inl (ReadN n kont, s1)
                       /\ (length (avail s1) < n)%nat.
Proof.
  intros ce cd srt T v b fuel k Hce Hty Hv He Hmax Hf Hk.
  assert (H: exists v', forall fuel, (length b + ty_depth T <= fuel)%nat -> consumes_clean (dec_item cd fuel (Some T)) b (DV T v')).
  { destruct srt.
    - destruct (stage3_consumes_clean ce cd aeq true Hce rel_ok_aeq T v b Hty Hv He Hmax) as (_ & v' & _ & Hc). eauto.
    - destruct (stage3_consumes_clean ce cd eq false Hce rel_ok_eq T v b Hty Hv He Hmax) as (_ & v' & _ & Hc). eauto. }
  destruct H as (v' & Hc). exact (c06_of_clean cd fuel (Some T) b (DV T v') k (Hc fuel Hf) Hk).
Qed.

(* the same through [decode], which chooses its fuel from the (shorter) input: for the prefixes long
   enough for that fuel to cover the whole encoding *)
Corollary c06_stage3_decode_partial : forall ce cd srt T v b k,
  enc_ok ce -> stage3_ty srt ce T = true -> stage3_val ce cd T v = true ->
  encode ce true 0 T v = Ok b -> N.of_nat (length b) <= index_max ->
  (k < length b)%nat -> (length b <= 2 * k + ty_depth T + 6)%nat ->
  decode cd (Some T) (firstn k b) = Err EEndOfStream.
Proof.
  intros ce cd srt T v b k Hce Hty Hv He Hmax Hk Hlong.
  assert (Hf: (length b + ty_depth T <= dec_fuel (Some T) (firstn k b))%nat).
  { unfold dec_fuel. rewrite firstn_length, Nat.min_l by lia. lia. }
  destruct (c06_stage3 ce cd srt T v b _ k Hce Hty Hv He Hmax Hf Hk) as [H _].
  unfold decode_with in H. unfold decode. exact H.
Qed.

(* C05: any arrival schedule gives the one-shot result *)
Theorem c05_stage3_gen : forall ce cd R srt, enc_ok ce -> rel_ok R srt -> forall T v b,
  stage3_ty srt ce T = true -> stage3_val ce cd T v = true ->
  encode ce true 0 T v = Ok b -> N.of_nat (length b) <= index_max ->
  exists v', R (abs T v') (abs T v) /\
    forall fuel tl sched, (length b + ty_depth T <= fuel)%nat ->
    wf_sched false sched -> arrivals sched = b ++ tl ->
    decode_with cd fuel (Some T) (b ++ tl) = Ok (DV T v', tl)
    /\ exists j, drive sched (dec_item cd fuel (Some T)) (mkStream [] 0 false 0)
                 = repeat OUnder j ++ [ODone (Ok (DV T v')) (length b)].
Proof.
  intros ce cd R srt Hce HR T v b Hty Hv He Hmax.
  destruct (stage3_consumes_clean ce cd R srt Hce HR T v b Hty Hv He Hmax) as (_ & v' & HRv & Hc).
  exists v'. split; [exact HRv|]. intros fuel tl sched Hf Hw Harr.
  exact (c05_of_clean cd fuel (Some T) b (DV T v') (Hc fuel Hf) tl sched Hw Harr).
Qed.

Theorem c05_stage3_sched : forall ce cd T v b,
  enc_ok ce -> stage3_ty false ce T = true -> stage3_val ce cd T v = true ->
  encode ce true 0 T v = Ok b -> N.of_nat (length b) <= index_max ->
  exists v', abs T v' = abs T v /\
    forall fuel tl sched, (length b + ty_depth T <= fuel)%nat ->
    wf_sched false sched -> arrivals sched = b ++ tl ->
    decode_with cd fuel (Some T) (b ++ tl) = Ok (DV T v', tl)
    /\ exists j, drive sched (dec_item cd fuel (Some T)) (mkStream [] 0 false 0)
                 = repeat OUnder j ++ [ODone (Ok (DV T v')) (length b)].
Proof. intros ce cd T v b Hce. exact (c05_stage3_gen ce cd eq false Hce rel_ok_eq T v b). Qed.

(* with SET OF under the DER encoder, which sorts the elements: contents equal up to their order *)
Theorem c05_stage3_sched_bag : forall ce cd T v b,
  enc_ok ce -> stage3_ty true ce T = true -> stage3_val ce cd T v = true ->
  encode ce true 0 T v = Ok b -> N.of_nat (length b) <= index_max ->
  exists v', aeq (abs T v') (abs T v) /\
    forall fuel tl sched, (length b + ty_depth T <= fuel)%nat ->
    wf_sched false sched -> arrivals sched = b ++ tl ->
    decode_with cd fuel (Some T) (b ++ tl) = Ok (DV T v', tl)
    /\ exists j, drive sched (dec_item cd fuel (Some T)) (mkStream [] 0 false 0)
                 = repeat OUnder j ++ [ODone (Ok (DV T v')) (length b)].
Proof. intros ce cd T v b Hce. exact (c05_stage3_gen ce cd aeq true Hce rel_ok_aeq T v b). Qed.

(* C07: n >= 1 values written one after the other *)
Definition enc3_all (ce cd: codec) (T: ty) (vs: list val) (bs: list bytes) : Prop :=
  Forall2 (fun v b => stage3_val ce cd T v = true /\ encode ce true 0 T v = Ok b /\ N.of_nat (length b) <= index_max) vs bs.

Theorem c07_stage3_gen : forall ce cd R srt, enc_ok ce -> rel_ok R srt -> forall T vs bs fuel,
  stage3_ty srt ce T = true -> enc3_all ce cd T vs bs -> bs <> [] ->
  (length bs <= fuel)%nat -> (forall b, In b bs -> (length b + ty_depth T <= fuel)%nat) ->
  exists ds, Forall2 (same_rel R T) vs ds /\ c07_concl cd fuel (Some T) bs ds.
Proof.
  intros ce cd R srt Hce HR T vs bs fuel Hty HF Hne Hn Hfuel.
  apply (c07_wrap _ (same_rel R T) cd fuel (Some T) (ty_depth T)
           (fun v b Hq Hf =>
              match stage3_consumes_clean ce cd R srt Hce HR T v b Hty (proj1 Hq) (proj1 (proj2 Hq)) (proj2 (proj2 Hq)) with
              | conj Hl (ex_intro _ v' (conj HRv Hc)) =>
                  ex_intro _ (DV T v') (conj (ex_intro _ v' (conj eq_refl HRv)) (conj (Hc fuel Hf) Hl))
              end) vs bs HF Hne Hn Hfuel).
Qed.

Theorem c07_stage3_stream : forall ce cd T vs bs fuel,
  enc_ok ce -> stage3_ty false ce T = true -> enc3_all ce cd T vs bs -> bs <> [] ->
  (length bs <= fuel)%nat -> (forall b, In b bs -> (length b + ty_depth T <= fuel)%nat) ->
  exists ds, Forall2 (same_rel eq T) vs ds /\ c07_concl cd fuel (Some T) bs ds.
Proof. intros ce cd T vs bs fuel Hce. exact (c07_stage3_gen ce cd eq false Hce rel_ok_eq T vs bs fuel). Qed.

Theorem c07_stage3_stream_bag : forall ce cd T vs bs fuel,
  enc_ok ce -> stage3_ty true ce T = true -> enc3_all ce cd T vs bs -> bs <> [] ->
  (length bs <= fuel)%nat -> (forall b, In b bs -> (length b + ty_depth T <= fuel)%nat) ->
  exists ds, Forall2 (same_rel aeq T) vs ds /\ c07_concl cd fuel (Some T) bs ds.
Proof. intros ce cd T vs bs fuel Hce. exact (c07_stage3_gen ce cd aeq true Hce rel_ok_aeq T vs bs fuel). Qed.

Print Assumptions c06_stage3.
Print Assumptions c06_stage3_decode_partial.
Print Assumptions c05_stage3_sched.
Print Assumptions c05_stage3_sched_bag.
Print Assumptions c07_stage3_stream.
Print Assumptions c07_stage3_stream_bag.

(* ====================================================================================== *)
(* (B) the encoder modes of the stage-2 fragment: indefinite lengths, segments, CER         *)
(* ====================================================================================== *)

(* the consuming run of the round trip under any encoder mode (cf. RoundTripModes.modes_item) is a clean run *)
Theorem modes_consumes_clean_gen (R: aval -> aval -> Prop) (G: aval -> Prop) (so: bool) :
  (forall a, G a -> R a a) ->
  (forall l1 l2, Forall2 R l1 l2 -> R (AList l1) (AList l2)) ->
  (forall l1 l2, Forall2 (RoundTripModes.opt_rel R) l1 l2 -> R (ARec l1) (ARec l2)) ->
  (forall l1 l1' l2, Forall2 R l1 l2 -> (if so then Permutation l1 l1' else l1' = l1) -> R (ABag l1') (ABag l2)) ->
  forall ce cd d k T v b,
  stable ce d k -> dec_ok cd -> (forall T v, prim_base T = true -> stage1_val ce cd T v = true -> G (abs T v)) ->
  dom ce d so T = true -> modes_val ce cd T v = true ->
  encode ce d k T v = Ok b -> N.of_nat (length b) <= index_max ->
  (2 <= length b)%nat /\ exists v', R (abs T v') (abs T v) /\
    forall fuel, (length b + ty_depth T <= fuel)%nat -> consumes_clean (dec_item cd fuel (Some T)) b (DV T v').
Proof.
  intros R1 R2 R3 R4 ce cd d k T v b Hst Hcd HG Hty Hv He Hmax.
  destruct (modes_item R G so R1 R2 R3 R4 ce cd d k Hst Hcd HG T T eq_refl Hty v Hv b He Hmax) as (Hl & _ & v' & Habs & Hc).
  split; [exact Hl|]. exists v'. split; [exact Habs|]. intros fuel Hf.
  apply (consumes_clean_dec_item cd fuel (Some T) b (DV T v') ltac:(lia)). exact (Hc fuel false Hf).
Qed.

(* equality of abstract values; SET OF only where the encoder keeps the order of the elements *)
Theorem modes_consumes_clean : forall ce cd d k T v b,
  stable ce d k -> dec_ok cd -> dom ce d false T = true -> modes_val ce cd T v = true ->
  encode ce d k T v = Ok b -> N.of_nat (length b) <= index_max ->
  (2 <= length b)%nat /\ exists v', abs T v' = abs T v /\
    forall fuel, (length b + ty_depth T <= fuel)%nat -> consumes_clean (dec_item cd fuel (Some T)) b (DV T v').
Proof.
  intros ce cd d k T v b Hst Hcd. apply (modes_consumes_clean_gen eq (fun _ => True) false); try assumption.
  - reflexivity.
  - intros l1 l2 H. rewrite (eq_list_cong _ _ H). reflexivity.
  - intros l1 l2 H. rewrite (eq_rec_cong _ _ H). reflexivity.
  - intros l1 l1' l2 H ->. rewrite (eq_list_cong _ _ H). reflexivity.
  - intros; exact I.
Qed.

(* SET OF under the sorting encoders (CER, DER): the model's comparison, which takes SET OF contents as multisets *)
Theorem modes_consumes_clean_setof : forall ce cd d k T v b,
  stable ce d k -> dec_ok cd -> dom ce d true T = true -> modes_val ce cd T v = true ->
  encode ce d k T v = Ok b -> N.of_nat (length b) <= index_max ->
  (2 <= length b)%nat /\ exists v', aval_eqb (abs T v') (abs T v) = true /\
    forall fuel, (length b + ty_depth T <= fuel)%nat -> consumes_clean (dec_item cd fuel (Some T)) b (DV T v').
Proof.
  intros ce cd d k T v b Hst Hcd.
  apply (modes_consumes_clean_gen (fun a b => aval_eqb a b = true) (fun a => aval_eqb a a = true) true); try assumption.
  - intros a H. exact H.
  - intros l1 l2 H. cbn [aval_eqb]. apply list_eqb_F2. exact H.
  - intros l1 l2 H. cbn [aval_eqb]. apply list_eqb_F2.
    induction H as [|a b0 l1 l2 Hab _ IH]; constructor; [|exact IH].
    destruct a, b0; cbn [RoundTripModes.opt_rel opt_eqb] in *; try contradiction; [exact Hab|reflexivity].
  - intros l1 l1' l2 H Hp. exact (aval_eqb_bag_perm l1 l1' l2 H Hp).
  - intros T0 v0. apply leaf_abs_refl.
Qed.

Print Assumptions modes_consumes_clean.
Print Assumptions modes_consumes_clean_setof.

(* C06 in every mode: for EVERY cut point k < length b - in particular between and inside the end-of-octets
   markers 00 00, and inside the two octets the decoder looks ahead for one - decoding the prefix on a
   closed stream fails with the end-of-stream error, on an open stream it suspends on an unsatisfied read *)
Theorem c06_modes : forall ce cd d chunk T v b fuel k,
  stable ce d chunk -> dec_ok cd -> dom ce d true T = true -> modes_val ce cd T v = true ->
  encode ce d chunk T v = Ok b -> N.of_nat (length b) <= index_max ->
  (length b + ty_depth T <= fuel)%nat -> (k < length b)%nat ->
  decode_with cd fuel (Some T) (firstn k b) = Err EEndOfStream
  /\ exists n kont s1, resume (dec_item cd fuel (Some T)) (mkStream (firstn k b) 0 false 0) = inl (ReadN n kont, s1)
                       /\ (length (avail s1) < n)%nat.
Proof.
  intros ce cd d chunk T v b fuel k Hst Hcd Hty Hv He Hmax Hf Hk.
  destruct (modes_consumes_clean_setof ce cd d chunk T v b Hst Hcd Hty Hv He Hmax) as (_ & v' & _ & Hc).
  exact (c06_of_clean cd fuel (Some T) b (DV T v') k (Hc fuel Hf) Hk).
Qed.

Corollary c06_modes_decode_partial : forall ce cd d chunk T v b k,
  stable ce d chunk -> dec_ok cd -> dom ce d true T = true -> modes_val ce cd T v = true ->
  encode ce d chunk T v = Ok b -> N.of_nat (length b) <= index_max ->
  (k < length b)%nat -> (length b <= 2 * k + ty_depth T + 6)%nat ->
  decode cd (Some T) (firstn k b) = Err EEndOfStream.
Proof.
  intros ce cd d chunk T v b k Hst Hcd Hty Hv He Hmax Hk Hlong.
  assert (Hf: (length b + ty_depth T <= dec_fuel (Some T) (firstn k b))%nat).
  { unfold dec_fuel. rewrite firstn_length, Nat.min_l by lia. lia. }
  destruct (c06_modes ce cd d chunk T v b _ k Hst Hcd Hty Hv He Hmax Hf Hk) as [H _].
  unfold decode_with in H. unfold decode. exact H.
Qed.

(* C05 in every mode: every arrival schedule delivering b (and any tail) gives the one-shot result *)
Theorem c05_modes : forall ce cd d chunk T v b,
  stable ce d chunk -> dec_ok cd -> dom ce d false T = true -> modes_val ce cd T v = true ->
  encode ce d chunk T v = Ok b -> N.of_nat (length b) <= index_max ->
  exists v', abs T v' = abs T v /\
    forall fuel tl sched, (length b + ty_depth T <= fuel)%nat ->
    wf_sched false sched -> arrivals sched = b ++ tl ->
    decode_with cd fuel (Some T) (b ++ tl) = Ok (DV T v', tl)
    /\ exists j, drive sched (dec_item cd fuel (Some T)) (mkStream [] 0 false 0)
                 = repeat OUnder j ++ [ODone (Ok (DV T v')) (length b)].
Proof.
  intros ce cd d chunk T v b Hst Hcd Hty Hv He Hmax.
  destruct (modes_consumes_clean ce cd d chunk T v b Hst Hcd Hty Hv He Hmax) as (_ & v' & Habs & Hc).
  exists v'. split; [exact Habs|]. intros fuel tl sched Hf Hw Harr.
  exact (c05_of_clean cd fuel (Some T) b (DV T v') (Hc fuel Hf) tl sched Hw Harr).
Qed.

Theorem c05_modes_setof : forall ce cd d chunk T v b,
  stable ce d chunk -> dec_ok cd -> dom ce d true T = true -> modes_val ce cd T v = true ->
  encode ce d chunk T v = Ok b -> N.of_nat (length b) <= index_max ->
  exists v', aval_eqb (abs T v') (abs T v) = true /\
    forall fuel tl sched, (length b + ty_depth T <= fuel)%nat ->
    wf_sched false sched -> arrivals sched = b ++ tl ->
    decode_with cd fuel (Some T) (b ++ tl) = Ok (DV T v', tl)
    /\ exists j, drive sched (dec_item cd fuel (Some T)) (mkStream [] 0 false 0)
                 = repeat OUnder j ++ [ODone (Ok (DV T v')) (length b)].
Proof.
  intros ce cd d chunk T v b Hst Hcd Hty Hv He Hmax.
  destruct (modes_consumes_clean_setof ce cd d chunk T v b Hst Hcd Hty Hv He Hmax) as (_ & v' & Habs & Hc).
  exists v'. split; [exact Habs|]. intros fuel tl sched Hf Hw Harr.
  exact (c05_of_clean cd fuel (Some T) b (DV T v') (Hc fuel Hf) tl sched Hw Harr).
Qed.

(* C07 in every mode: b1 ++ ... ++ bn yields n objects, the i-th reported at the end of bi *)
Definition encm_all (ce cd: codec) (d: bool) (chunk: N) (T: ty) (vs: list val) (bs: list bytes) : Prop :=
  Forall2 (fun v b => modes_val ce cd T v = true /\ encode ce d chunk T v = Ok b /\ N.of_nat (length b) <= index_max) vs bs.

Theorem c07_modes : forall ce cd d chunk T vs bs fuel,
  stable ce d chunk -> dec_ok cd -> dom ce d false T = true -> encm_all ce cd d chunk T vs bs -> bs <> [] ->
  (length bs <= fuel)%nat -> (forall b, In b bs -> (length b + ty_depth T <= fuel)%nat) ->
  exists ds, Forall2 (same_rel eq T) vs ds /\ c07_concl cd fuel (Some T) bs ds.
Proof.
  intros ce cd d chunk T vs bs fuel Hst Hcd Hty HF Hne Hn Hfuel.
  apply (c07_wrap _ (same_rel eq T) cd fuel (Some T) (ty_depth T)
           (fun v b Hq Hf =>
              match modes_consumes_clean ce cd d chunk T v b Hst Hcd Hty (proj1 Hq) (proj1 (proj2 Hq)) (proj2 (proj2 Hq)) with
              | conj Hl (ex_intro _ v' (conj HRv Hc)) =>
                  ex_intro _ (DV T v') (conj (ex_intro _ v' (conj eq_refl HRv))
                                             (conj (Hc fuel Hf) (Nat.lt_le_trans 0 2 _ Nat.lt_0_2 Hl)))
              end) vs bs HF Hne Hn Hfuel).
Qed.

Theorem c07_modes_setof : forall ce cd d chunk T vs bs fuel,
  stable ce d chunk -> dec_ok cd -> dom ce d true T = true -> encm_all ce cd d chunk T vs bs -> bs <> [] ->
  (length bs <= fuel)%nat -> (forall b, In b bs -> (length b + ty_depth T <= fuel)%nat) ->
  exists ds, Forall2 (same_rel (fun a b => aval_eqb a b = true) T) vs ds /\ c07_concl cd fuel (Some T) bs ds.
Proof.
  intros ce cd d chunk T vs bs fuel Hst Hcd Hty HF Hne Hn Hfuel.
  apply (c07_wrap _ (same_rel (fun a b => aval_eqb a b = true) T) cd fuel (Some T) (ty_depth T)
           (fun v b Hq Hf =>
              match modes_consumes_clean_setof ce cd d chunk T v b Hst Hcd Hty (proj1 Hq) (proj1 (proj2 Hq)) (proj2 (proj2 Hq)) with
              | conj Hl (ex_intro _ v' (conj HRv Hc)) =>
                  ex_intro _ (DV T v') (conj (ex_intro _ v' (conj eq_refl HRv))
                                             (conj (Hc fuel Hf) (Nat.lt_le_trans 0 2 _ Nat.lt_0_2 Hl)))
              end) vs bs HF Hne Hn Hfuel).
Qed.

Print Assumptions c06_modes.
Print Assumptions c06_modes_decode_partial.
Print Assumptions c05_modes.
Print Assumptions c05_modes_setof.
Print Assumptions c07_modes.
Print Assumptions c07_modes_setof.

(* ---------- the named modes (cf. roundtrip_indefinite, roundtrip_cer_encoder) ---------- *)

Lemma dom_indefinite so T : stage2_ty T = true -> no_f01 T = true -> dom BER false so T = true.
Proof. intros H1 H2. unfold dom. rewrite H1, H2. cbn [sorts negb andb orb]. rewrite Bool.orb_true_r. reflexivity. Qed.

Lemma dom_cer T : stage2_ty T = true -> no_f01 T = true -> dom CER false true T = true.
Proof. intros H1 H2. unfold dom. rewrite H1, H2. reflexivity. Qed.

Lemma dom_cer_nosetof T : stage2_ty T = true -> no_f01 T = true -> no_setof T = true -> dom CER false false T = true.
Proof. intros H1 H2 H3. unfold dom. rewrite H1, H2, H3. reflexivity. Qed.

(* indefinite-length mode of the BER encoder, any maxChunkSize, without the class of finding F01 *)
Theorem c06_indefinite : forall cd chunk T v b fuel k,
  dec_ok cd -> stage2_ty T = true -> no_f01 T = true -> modes_val BER cd T v = true ->
  encode BER false chunk T v = Ok b -> N.of_nat (length b) <= index_max ->
  (length b + ty_depth T <= fuel)%nat -> (k < length b)%nat ->
  decode_with cd fuel (Some T) (firstn k b) = Err EEndOfStream
  /\ exists n kont s1, resume (dec_item cd fuel (Some T)) (mkStream (firstn k b) 0 false 0) = inl (ReadN n kont, s1)
                       /\ (length (avail s1) < n)%nat.
Proof.
  intros cd chunk T v b fuel k Hcd Hty Hf01.
  exact (c06_modes BER cd false chunk T v b fuel k (stable_ber false chunk) Hcd (dom_indefinite true T Hty Hf01)).
Qed.

Theorem c05_indefinite : forall cd chunk T v b,
  dec_ok cd -> stage2_ty T = true -> no_f01 T = true -> modes_val BER cd T v = true ->
  encode BER false chunk T v = Ok b -> N.of_nat (length b) <= index_max ->
  exists v', abs T v' = abs T v /\
    forall fuel tl sched, (length b + ty_depth T <= fuel)%nat ->
    wf_sched false sched -> arrivals sched = b ++ tl ->
    decode_with cd fuel (Some T) (b ++ tl) = Ok (DV T v', tl)
    /\ exists j, drive sched (dec_item cd fuel (Some T)) (mkStream [] 0 false 0)
                 = repeat OUnder j ++ [ODone (Ok (DV T v')) (length b)].
Proof.
  intros cd chunk T v b Hcd Hty Hf01.
  exact (c05_modes BER cd false chunk T v b (stable_ber false chunk) Hcd (dom_indefinite false T Hty Hf01)).
Qed.

Theorem c07_indefinite : forall cd chunk T vs bs fuel,
  dec_ok cd -> stage2_ty T = true -> no_f01 T = true -> encm_all BER cd false chunk T vs bs -> bs <> [] ->
  (length bs <= fuel)%nat -> (forall b, In b bs -> (length b + ty_depth T <= fuel)%nat) ->
  exists ds, Forall2 (same_rel eq T) vs ds /\ c07_concl cd fuel (Some T) bs ds.
Proof.
  intros cd chunk T vs bs fuel Hcd Hty Hf01.
  exact (c07_modes BER cd false chunk T vs bs fuel (stable_ber false chunk) Hcd (dom_indefinite false T Hty Hf01)).
Qed.

(* segmented strings with definite lengths (BER encoder, maxChunkSize > 0), the whole stage-2 fragment *)
Theorem c06_segmented : forall cd chunk T v b fuel k,
  dec_ok cd -> stage2_ty T = true -> modes_val BER cd T v = true ->
  encode BER true chunk T v = Ok b -> N.of_nat (length b) <= index_max ->
  (length b + ty_depth T <= fuel)%nat -> (k < length b)%nat ->
  decode_with cd fuel (Some T) (firstn k b) = Err EEndOfStream
  /\ exists n kont s1, resume (dec_item cd fuel (Some T)) (mkStream (firstn k b) 0 false 0) = inl (ReadN n kont, s1)
                       /\ (length (avail s1) < n)%nat.
Proof.
  intros cd chunk T v b fuel k Hcd Hty.
  apply (c06_modes BER cd true chunk T v b fuel k (stable_ber true chunk) Hcd). unfold dom. rewrite Hty. reflexivity.
Qed.

(* the CER encoder (indefinite lengths, segments of 1000 octets, whatever the caller asks for) *)
Theorem c06_cer_encoder : forall cd d k0 T v b fuel k,
  dec_ok cd -> stage2_ty T = true -> no_f01 T = true -> modes_val CER cd T v = true ->
  encode CER d k0 T v = Ok b -> N.of_nat (length b) <= index_max ->
  (length b + ty_depth T <= fuel)%nat -> (k < length b)%nat ->
  decode_with cd fuel (Some T) (firstn k b) = Err EEndOfStream
  /\ exists n kont s1, resume (dec_item cd fuel (Some T)) (mkStream (firstn k b) 0 false 0) = inl (ReadN n kont, s1)
                       /\ (length (avail s1) < n)%nat.
Proof.
  intros cd d k0 T v b fuel k Hcd Hty Hf01 Hv He. rewrite encode_cer_fixed in He.
  exact (c06_modes CER cd false 1000 T v b fuel k stable_cer Hcd (dom_cer T Hty Hf01) Hv He).
Qed.

Theorem c05_cer_encoder : forall cd d k0 T v b,
  dec_ok cd -> stage2_ty T = true -> no_f01 T = true -> no_setof T = true -> modes_val CER cd T v = true ->
  encode CER d k0 T v = Ok b -> N.of_nat (length b) <= index_max ->
  exists v', abs T v' = abs T v /\
    forall fuel tl sched, (length b + ty_depth T <= fuel)%nat ->
    wf_sched false sched -> arrivals sched = b ++ tl ->
    decode_with cd fuel (Some T) (b ++ tl) = Ok (DV T v', tl)
    /\ exists j, drive sched (dec_item cd fuel (Some T)) (mkStream [] 0 false 0)
                 = repeat OUnder j ++ [ODone (Ok (DV T v')) (length b)].
Proof.
  intros cd d k0 T v b Hcd Hty Hf01 Hns Hv He. rewrite encode_cer_fixed in He.
  exact (c05_modes CER cd false 1000 T v b stable_cer Hcd (dom_cer_nosetof T Hty Hf01 Hns) Hv He).
Qed.

Theorem c05_cer_encoder_setof : forall cd d k0 T v b,
  dec_ok cd -> stage2_ty T = true -> no_f01 T = true -> modes_val CER cd T v = true ->
  encode CER d k0 T v = Ok b -> N.of_nat (length b) <= index_max ->
  exists v', aval_eqb (abs T v') (abs T v) = true /\
    forall fuel tl sched, (length b + ty_depth T <= fuel)%nat ->
    wf_sched false sched -> arrivals sched = b ++ tl ->
    decode_with cd fuel (Some T) (b ++ tl) = Ok (DV T v', tl)
    /\ exists j, drive sched (dec_item cd fuel (Some T)) (mkStream [] 0 false 0)
                 = repeat OUnder j ++ [ODone (Ok (DV T v')) (length b)].
Proof.
  intros cd d k0 T v b Hcd Hty Hf01 Hv He. rewrite encode_cer_fixed in He.
  exact (c05_modes_setof CER cd false 1000 T v b stable_cer Hcd (dom_cer T Hty Hf01) Hv He).
Qed.

Theorem c07_cer_encoder : forall cd T vs bs fuel,
  dec_ok cd -> stage2_ty T = true -> no_f01 T = true -> no_setof T = true ->
  encm_all CER cd false 1000 T vs bs -> bs <> [] ->
  (length bs <= fuel)%nat -> (forall b, In b bs -> (length b + ty_depth T <= fuel)%nat) ->
  exists ds, Forall2 (same_rel eq T) vs ds /\ c07_concl cd fuel (Some T) bs ds.
Proof.
  intros cd T vs bs fuel Hcd Hty Hf01 Hns.
  exact (c07_modes CER cd false 1000 T vs bs fuel stable_cer Hcd (dom_cer_nosetof T Hty Hf01 Hns)).
Qed.

Print Assumptions c06_indefinite.
Print Assumptions c05_indefinite.
Print Assumptions c07_indefinite.
Print Assumptions c06_segmented.
Print Assumptions c06_cer_encoder.
Print Assumptions c05_cer_encoder.
Print Assumptions c05_cer_encoder_setof.
Print Assumptions c07_cer_encoder.

(* ====================================================================================== *)
(* Non-vacuity                                                                              *)
(* ====================================================================================== *)

Definition ok_bytes (r: res bytes) : bytes := match r with Ok b => b | Err _ => [] end.

(* every cut point k < length b: end-of-stream error on the closed prefix, a suspended read on the open one *)
Definition all_cuts (cd: codec) (fuel: nat) (T: ty) (b: bytes) : bool :=
  forallb (fun k => match decode_with cd fuel (Some T) (firstn k b) with Err EEndOfStream => true | _ => false end
                    && match resume (dec_item cd fuel (Some T)) (mkStream (firstn k b) 0 false 0) with
                       | inl (ReadN _ _, _) => true | _ => false end) (seq 0 (length b)).

(* every chunk boundary: the input in two chunks cut at k, for every k: an underrun on the empty stream, one after
   the first chunk, then the object at the end position *)
Definition two_chunks (cd: codec) (fuel: nat) (T: ty) (b: bytes) : list (list (out dval)) :=
  map (fun k => drive [Arrive (firstn k b); Arrive (skipn k b)] (dec_item cd fuel (Some T)) (mkStream [] 0 false 0))
      (seq 0 (length b)).
Definition all_two_chunks (cd: codec) (fuel: nat) (T: ty) (b: bytes) (d: dval) : Prop :=
  two_chunks cd fuel T b = repeat [OUnder; OUnder; ODone (Ok d) (length b)] (length b).

(* one octet per arrival *)
Definition bytewise (b: bytes) : list envev := map (fun x => Arrive [x]) b.

(* ---------- (B): indefinite lengths ---------- *)

(* the nested example of RoundTripModes.v: SEQUENCE OF SEQUENCE { INTEGER, [1] EXPLICIT SET OF IA5String,
   [PRIVATE 40] IMPLICIT SEQUENCE {} }, defMode=False, maxChunkSize=2: 62 octets, indefinite containers three
   deep, an indefinite EXPLICIT tag, a segmented string closed by 00 00, eleven end-of-octets markers *)
Definition indef_example_enc : bytes :=
  [48; 128; 48; 128; 2; 2; 1; 44; 161; 128; 49; 128; 54; 128; 4; 2;
   97; 98; 4; 2; 99; 100; 4; 1; 101; 0; 0; 22; 0; 0; 0; 0; 0; 255; 40;
   128; 0; 0; 0; 0; 48; 128; 2; 1; 255; 161; 128; 49; 128; 0; 0; 0; 0;
   255; 40; 128; 0; 0; 0; 0; 0; 0].

Example indefinite_stream_hyps :
  stage2_ty modes_ex_nested_ty = true /\ no_f01 modes_ex_nested_ty = true
  /\ modes_val BER BER modes_ex_nested_ty modes_ex_nested_val = true
  /\ modes_val BER CER modes_ex_nested_ty modes_ex_nested_val = true
  /\ encode BER false 2 modes_ex_nested_ty modes_ex_nested_val = Ok indef_example_enc
  /\ N.of_nat (length indef_example_enc) <= index_max
  /\ (length indef_example_enc + ty_depth modes_ex_nested_ty <= 80)%nat
  /\ dec_ok BER /\ dec_ok CER
  /\ clean_run (dec_item BER 80 (Some modes_ex_nested_ty)) (mkStream indef_example_enc 0 true 0) = true
  /\ clean_run (dec_item CER 80 (Some modes_ex_nested_ty)) (mkStream indef_example_enc 0 true 0) = true.
Proof.
  do 5 (split; [vm_compute; reflexivity|]). split; [vm_compute; discriminate|]. split; [vm_compute; lia|].
  split; [left; reflexivity|]. split; [right; reflexivity|]. split; vm_compute; reflexivity.
Qed.

(* C06: each of the 62 cut points, under the BER and the CER decoder *)
Example c06_indefinite_example :
  all_cuts BER 80 modes_ex_nested_ty indef_example_enc = true
  /\ all_cuts CER 80 modes_ex_nested_ty indef_example_enc = true.
Proof. vm_compute. split; reflexivity. Qed.

(* C05: every single chunk boundary (62 two-chunk schedules), and one octet per arrival with trailing octets *)
Example c05_indefinite_example :
  all_two_chunks BER 80 modes_ex_nested_ty indef_example_enc (DV modes_ex_nested_ty modes_ex_nested_val)
  /\ all_two_chunks CER 80 modes_ex_nested_ty indef_example_enc (DV modes_ex_nested_ty modes_ex_nested_val)
  /\ wf_sched false (bytewise (indef_example_enc ++ [7; 7]))
  /\ arrivals (bytewise (indef_example_enc ++ [7; 7])) = indef_example_enc ++ [7; 7]
  /\ drive (bytewise (indef_example_enc ++ [7; 7])) (dec_item CER 80 (Some modes_ex_nested_ty)) (mkStream [] 0 false 0)
     = repeat OUnder 62 ++ [ODone (Ok (DV modes_ex_nested_ty modes_ex_nested_val)) 62].
Proof. vm_compute. repeat split; reflexivity. Qed.

(* C07: three values of SEQUENCE OF [0] EXPLICIT OCTET STRING in indefinite form, segments of one octet, one of
   them empty, arriving one octet at a time *)
Definition c07_indef_ty : ty := TSeqOf (TExp (mkTag Ctx false 0) TOcts).
Definition c07_indef_vals : list val := [VList [VOcts [1; 2]; VOcts []]; VList []; VList [VOcts [9]]].
Definition c07_indef_encs : list bytes :=
  [[48; 128; 160; 128; 36; 128; 4; 1; 1; 4; 1; 2; 0; 0; 0; 0; 160; 128; 4; 0; 0; 0; 0; 0];
   [48; 128; 0; 0];
   [48; 128; 160; 128; 4; 1; 9; 0; 0; 0; 0]].

Example c07_indefinite_example :
  let T := c07_indef_ty in let vs := c07_indef_vals in let bs := c07_indef_encs in
  let sched := bytewise (concat bs) ++ [Close] in
  stage2_ty T = true /\ no_f01 T = true
  /\ map (encode BER false 1 T) vs = map Ok bs /\ forallb (modes_val BER BER T) vs = true
  /\ (length bs <= 30)%nat /\ forallb (fun b => Nat.leb (length b + ty_depth T) 30) bs = true
  /\ wf_sched false sched /\ has_close sched = true /\ arrivals sched = concat bs
  /\ drive sched (streaming BER 30 (Some T)) (mkStream [] 0 false 0)
     = repeat OUnder 40 ++ [ODone (Ok (combine (map (DV T) vs) (ends 0 bs))) (length (concat bs))]
  /\ ends 0 bs = [24; 28; 39]%nat.
Proof.
  cbv zeta. split; [reflexivity|]. split; [reflexivity|]. split; [vm_compute; reflexivity|]. split; [vm_compute; reflexivity|].
  split; [vm_compute; lia|]. repeat split; vm_compute; reflexivity.
Qed.

(* ---------- (B): the CER encoder ---------- *)

(* the example of RoundTripModes.v: BOOLEAN TRUE as FF, a 1001-octet OCTET STRING in segments of 1000 under an
   indefinite EXPLICIT tag, indefinite containers: 1033 octets; every cut point, read by the BER decoder *)
Definition cer_example_enc : bytes := ok_bytes (encode CER true 0 modes_ex_cer_ty modes_ex_cer_val).

Example c06_cer_example :
  stage2_ty modes_ex_cer_ty = true /\ no_f01 modes_ex_cer_ty = true /\ modes_val CER BER modes_ex_cer_ty modes_ex_cer_val = true
  /\ encode CER true 0 modes_ex_cer_ty modes_ex_cer_val = Ok cer_example_enc
  /\ length cer_example_enc = 1033%nat /\ (length cer_example_enc + ty_depth modes_ex_cer_ty <= 1100)%nat
  /\ all_cuts BER 1100 modes_ex_cer_ty cer_example_enc = true.
Proof. vm_compute. repeat split; try reflexivity; lia. Qed.

(* ---------- (A): stage 3 ---------- *)

(* the example of RoundTrip3e.v: [APPLICATION 9] EXPLICIT SEQUENCE { ANY, [0] EXPLICIT ANY OPTIONAL,
   SET { [1] IMPLICIT [2] EXPLICIT ANY OPTIONAL, BOOLEAN DEFAULT FALSE, CHOICE { INTEGER, [3] EXPLICIT SEQUENCE OF ANY } },
   SET OF ANY, UTF8String OPTIONAL }: 42 octets under the BER and under the DER encoder *)
Definition stage3_example_ber : bytes :=
  [105; 40; 48; 38; 4; 2; 7; 8; 160; 3; 255; 255; 255; 49; 19; 161; 3; 1; 2; 3; 1; 1; 1; 163; 9; 48; 7; 5; 0;
   160; 3; 2; 1; 5; 49; 6; 2; 1; 9; 1; 1; 0].
Definition stage3_example_der : bytes :=
  [105; 40; 48; 38; 4; 2; 7; 8; 160; 3; 255; 255; 255; 49; 19; 1; 1; 255; 161; 3; 1; 2; 3; 163; 9; 48; 7; 5; 0;
   160; 3; 2; 1; 5; 49; 6; 1; 1; 0; 2; 1; 9].

Example stage3_stream_hyps :
  stage3_ty false BER stage3_example_ty = true /\ stage3_val BER BER stage3_example_ty stage3_example_val = true
  /\ encode BER true 0 stage3_example_ty stage3_example_val = Ok stage3_example_ber
  /\ stage3_ty true DER stage3_example_ty = true /\ stage3_val DER DER stage3_example_ty stage3_example_val = true
  /\ stage3_val DER CER stage3_example_ty stage3_example_val = true
  /\ encode DER true 0 stage3_example_ty stage3_example_val = Ok stage3_example_der
  /\ N.of_nat (length stage3_example_ber) <= index_max /\ N.of_nat (length stage3_example_der) <= index_max
  /\ (length stage3_example_ber + ty_depth stage3_example_ty <= 60)%nat
  /\ (length stage3_example_der + ty_depth stage3_example_ty <= 60)%nat
  /\ clean_run (dec_item BER 60 (Some stage3_example_ty)) (mkStream stage3_example_ber 0 true 0) = true.
Proof.
  do 7 (split; [vm_compute; reflexivity|]). do 2 (split; [vm_compute; discriminate|]). do 2 (split; [vm_compute; lia|]).
  vm_compute. reflexivity.
Qed.

(* C06: each of the 42 cut points; BER encoding read by the BER decoder, DER encoding by the DER and CER decoders *)
Example c06_stage3_example :
  all_cuts BER 60 stage3_example_ty stage3_example_ber = true
  /\ all_cuts DER 60 stage3_example_ty stage3_example_der = true
  /\ all_cuts CER 60 stage3_example_ty stage3_example_der = true.
Proof. vm_compute. repeat split; reflexivity. Qed.

(* C05: every chunk boundary, and one octet per arrival (the decoded value differs from the one written in the
   representation of an ANY component, VAny for VOcts, and under DER in the order of the SET OF: same contents) *)
Definition dec_val (r: res (dval * bytes)) : val := match r with Ok (DV _ v', _) => v' | _ => VNull end.

Example c05_stage3_example :
  let vb := dec_val (decode BER (Some stage3_example_ty) stage3_example_ber) in
  let vd := dec_val (decode DER (Some stage3_example_ty) stage3_example_der) in
  abs stage3_example_ty vb = abs stage3_example_ty stage3_example_val
  /\ all_two_chunks BER 60 stage3_example_ty stage3_example_ber (DV stage3_example_ty vb)
  /\ aval_eqb (abs stage3_example_ty vd) (abs stage3_example_ty stage3_example_val) = true
  /\ all_two_chunks DER 60 stage3_example_ty stage3_example_der (DV stage3_example_ty vd)
  /\ drive (bytewise (stage3_example_ber ++ [0; 0])) (dec_item BER 60 (Some stage3_example_ty)) (mkStream [] 0 false 0)
     = repeat OUnder 42 ++ [ODone (Ok (DV stage3_example_ty vb)) 42].
Proof. vm_compute. repeat split; reflexivity. Qed.

(* C07: three values of SEQUENCE { INTEGER OPTIONAL, CHOICE { BOOLEAN, [0] EXPLICIT ANY }, SET OF NULL } *)
Definition c07_stage3_ty : ty :=
  TSeq [(Opt, TInt); (Req, TChoice [TBool; TExp (mkTag Ctx false 0) TAny]); (Req, TSetOf TNull)].
Definition c07_stage3_vals : list val :=
  [VRec [Some (VInt 5); Some (VChoice 0 (VBool true)); Some (VList [VNull; VNull])];
   VRec [None; Some (VChoice 1 (VAny [4; 1; 7])); Some (VList [])];
   VRec [Some (VInt (-129)); Some (VChoice 0 (VBool false)); Some (VList [VNull])]].

Example c07_stage3_example :
  let T := c07_stage3_ty in let vs := c07_stage3_vals in
  let bs := map (fun v => ok_bytes (encode BER true 0 T v)) vs in
  let sched := bytewise (concat bs) ++ [Close] in
  stage3_ty false BER T = true
  /\ map (encode BER true 0 T) vs = map Ok bs /\ forallb (stage3_val BER BER T) vs = true
  /\ (length bs <= 30)%nat /\ forallb (fun b => Nat.leb (length b + ty_depth T) 30) bs = true
  /\ wf_sched false sched /\ has_close sched = true /\ arrivals sched = concat bs
  /\ drive sched (streaming BER 30 (Some T)) (mkStream [] 0 false 0)
     = repeat OUnder (length (concat bs) + 1) ++ [ODone (Ok (combine (map (DV T) vs) (ends 0 bs))) (length (concat bs))]
  /\ ends 0 bs = [14; 23; 36]%nat.
Proof.
  cbv zeta. split; [vm_compute; reflexivity|]. split; [vm_compute; reflexivity|]. split; [vm_compute; reflexivity|].
  split; [vm_compute; lia|]. repeat split; vm_compute; reflexivity.
Qed.

(* ---------- the ANY decoders ---------- *)

(* an untagged ANY holding a TLV of indefinite length goes through dec_any_indef, which collects the nested
   items one by one through the item decoder: no ReadAll, the run is clean (no round-trip theorem covers it:
   stage3_val wants definite TLVs, and none is needed here) *)
Example any_indefinite_is_clean :
  decode_with BER 30 (Some (TSeqOf TAny)) ([48; 128; 48; 128; 2; 1; 5; 0; 0; 36; 128; 4; 1; 7; 0; 0; 0; 0] ++ [9])
    = Ok (DV (TSeqOf TAny) (VList [VAny [48; 128; 2; 1; 5; 0; 0]; VAny [36; 128; 4; 1; 7; 0; 0]]), [9])
  /\ clean_run (dec_item BER 30 (Some (TSeqOf TAny)))
               (mkStream [48; 128; 48; 128; 2; 1; 5; 0; 0; 36; 128; 4; 1; 7; 0; 0; 0; 0; 9] 0 true 0) = true
  /\ all_cuts BER 30 (TSeqOf TAny) [48; 128; 48; 128; 2; 1; 5; 0; 0; 36; 128; 4; 1; 7; 0; 0; 0; 0] = true.
Proof. vm_compute. repeat split; reflexivity. Qed.

(* the theorem of StreamClean.v is not vacuous in the other direction either: the unclean run of StreamStage2.v
   (a constructed OCTET STRING whose fragment is an indefinite-length item under a context tag, collected with
   ReadAll) succeeds on the bare input but is NOT a consuming run - with one more octet behind it, it fails *)
Example unclean_run_not_consuming :
  decode_with BER 20 (Some TOcts) [36; 4; 160; 128; 1; 2] = Ok (DV TOcts (VOcts [1; 2]), [])
  /\ clean_run (dec_item BER 20 (Some TOcts)) (mkStream [36; 4; 160; 128; 1; 2] 0 true 0) = false
  /\ ~ consumes (dec_item BER 20 (Some TOcts)) [36; 4; 160; 128; 1; 2] (DV TOcts (VOcts [1; 2])).
Proof.
  split; [vm_compute; reflexivity|]. split; [vm_compute; reflexivity|].
  intros H. destruct (H (mkStream ([36; 4; 160; 128; 1; 2] ++ [3]) 0 true 0) [3] eq_refl) as (s' & Hr & _).
  vm_compute in Hr. discriminate Hr.
Qed.

(* an untagged ANY as alternative of an untagged CHOICE (the entry point is re-entered past the header, without
   resetting the marked position): the ANY comes back with its identifier and length octets, the run is clean,
   every strict prefix is insufficient *)
Example any_choice_alternative_streams :
  let T := TSeqOf (TChoice [TInt; TAny]) in
  let v := VList [VChoice 1 (VAny [4; 1; 9]); VChoice 0 (VInt 5)] in
  encode BER true 0 T v = Ok [48; 6; 4; 1; 9; 2; 1; 5]
  /\ decode_with BER 20 (Some T) ([48; 6; 4; 1; 9; 2; 1; 5] ++ [7]) = Ok (DV T v, [7])
  /\ clean_run (dec_item BER 20 (Some T)) (mkStream [48; 6; 4; 1; 9; 2; 1; 5; 7] 0 true 0) = true
  /\ all_cuts BER 20 T [48; 6; 4; 1; 9; 2; 1; 5] = true.
Proof. vm_compute. repeat split; reflexivity. Qed.

(* Text-level lemmas shared by the time proofs: membership, partition, digits written by
   the '%.2d' family and read back by int(). *)
From Coq Require Import Lia.
From PV Require Import Base.Bytes Spec.X680Time Model.Time.
Local Open Scope N_scope.

Ltac dlia := zify; Z.to_euclidean_division_equations; lia.

(* ---------- membership and partition ---------- *)

Lemma has_app c a b : has c (a ++ b) = has c a || has c b.
Proof. apply existsb_app. Qed.

Lemma has_cons c x l : has c (x :: l) = N.eqb c x || has c l.
Proof. reflexivity. Qed.

Lemma is_digit_bounds c : is_digit c = true <-> 48 <= c <= 57.
Proof. unfold is_digit. rewrite andb_true_iff, !N.leb_le. tauto. Qed.

Lemma has_digits c l : is_digit c = false -> all_digits l = true -> has c l = false.
Proof.
  intros Hc. induction l as [|x l IH]; intros Hl; [reflexivity|].
  cbn [all_digits forallb] in Hl. apply andb_true_iff in Hl. destruct Hl as [Hx Hl].
  rewrite has_cons, (IH Hl), orb_false_r.
  destruct (N.eqb_spec c x) as [->|]; [congruence|reflexivity].
Qed.

Lemma all_digits_app a b : all_digits (a ++ b) = all_digits a && all_digits b.
Proof. apply forallb_app. Qed.

Lemma split_at_app c a b : has c a = false -> split_at c (a ++ c :: b) = (a, b).
Proof.
  induction a as [|x a IH]; intros H.
  - cbn. rewrite N.eqb_refl. reflexivity.
  - rewrite has_cons in H. apply orb_false_iff in H. destruct H as [H1 H2].
    cbn [app split_at]. rewrite N.eqb_sym, H1, (IH H2). reflexivity.
Qed.

Lemma last_app_ne {A} (a b: list A) d : b <> [] -> last (a ++ b) d = last b d.
Proof.
  intros Hb. induction a as [|x a IH]; [reflexivity|].
  cbn [app]. destruct (a ++ b) eqn:E.
  - destruct a; [cbn in E; congruence|discriminate].
  - rewrite <- IH. reflexivity.
Qed.

Lemma length_split_at_fst c a b : has c a = false -> length (fst (split_at c (a ++ c :: b))) = length a.
Proof. intros H. rewrite split_at_app by assumption. reflexivity. Qed.

(* ---------- digits ---------- *)

Lemma dg_digit n : is_digit (dg n) = true.
Proof. apply is_digit_bounds. unfold dg. dlia. Qed.

Lemma dg_val n : dg n - 48 = n mod 10.
Proof. unfold dg. dlia. Qed.

Lemma all_digits_d2 n : all_digits (d2 n) = true.
Proof. unfold d2. cbn [all_digits forallb]. rewrite !dg_digit. reflexivity. Qed.
Lemma all_digits_d4 n : all_digits (d4 n) = true.
Proof. unfold d4. cbn [all_digits forallb]. rewrite !dg_digit. reflexivity. Qed.
Lemma all_digits_dec3 n : all_digits (dec3 n) = true.
Proof. unfold dec3, d2. destruct (n <? 10); [|destruct (n <? 100)]; cbn [all_digits forallb]; rewrite !dg_digit; reflexivity. Qed.

Lemma num_d2 n : n < 100 -> num (d2 n) = n.
Proof. intros H. unfold num, d2. cbn [fold_left]. rewrite !dg_val. dlia. Qed.
Lemma num_d4 n : n < 10000 -> num (d4 n) = n.
Proof. intros H. unfold num, d4. cbn [fold_left]. rewrite !dg_val. dlia. Qed.
Lemma num_dec3 n : n < 1000 -> num (dec3 n) = n.
Proof.
  intros H. unfold dec3. destruct (N.ltb_spec n 10); [|destruct (N.ltb_spec n 100)].
  - unfold num. cbn [fold_left]. rewrite dg_val. dlia.
  - apply num_d2. assumption.
  - unfold num. cbn [fold_left]. rewrite !dg_val. dlia.
Qed.
Lemma dec3_nonempty n : dec3 n <> [].
Proof. unfold dec3, d2. destruct (n <? 10); [|destruct (n <? 100)]; discriminate. Qed.

Lemma pyint_digits l : l <> [] -> all_digits l = true -> pyint l = IntOk (num l).
Proof. intros Hn Hd. destruct l; [congruence|]. unfold pyint. rewrite Hd. reflexivity. Qed.

Lemma digit_ne c x : is_digit c = true -> is_digit x = false -> N.eqb c x = false.
Proof. intros H1 H2. destruct (N.eqb_spec c x) as [->|]; [congruence|reflexivity]. Qed.

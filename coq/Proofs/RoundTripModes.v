(* Round trip under every encoder mode (C01/C02): segmented strings (maxChunkSize), indefinite
   length mode (defMode=False) and the CER encoder's fixed options, for the recursive fragment of
   RoundTrip2.v (simple types, SEQUENCE OF, SET OF, SEQUENCE with mandatory components, IMPLICIT /
   EXPLICIT tagging at any depth), read back by the BER and the CER decoder.
   Parts A-C (RoundTripModesA/B/C.v) hold the framing, loop and leaf lemmas. *)
From Coq Require Import Lia Sorting.Permutation.
From PV Require Import Base.Bytes Model.Tag Model.TableTypes Model.Types Model.Proc Model.Enc Model.Dec Gen.Tables
     Proofs.ProcBind Proofs.RunLemmas Proofs.TagOctets Proofs.TagAlgebra Proofs.DecHeader Proofs.DecFrame Proofs.DecPrim
     Proofs.TagsetShape Proofs.Schemaless Proofs.RoundTrip1 Proofs.RoundTrip2
     Proofs.RoundTripModesA Proofs.RoundTripModesB Proofs.RoundTripModesC Proofs.RoundTripModesBag.
Local Open Scope N_scope.

(* ---------- the domain ---------- *)

(* number of EXPLICIT tags over the base type *)
Fixpoint n_explicit (T: ty) : nat :=
  match T with TExp _ x => S (n_explicit x) | TImp _ x => n_explicit x | _ => O end.

(* finding F01: in indefinite-length mode an EXPLICIT tag over BOOLEAN / INTEGER / ENUMERATED / NULL /
   OBJECT IDENTIFIER / REAL (with any IMPLICIT tags in between) is written with a definite length
   AND a trailing 00 00 *)
Definition f01_class (T: ty) : bool := six T && negb (Nat.eqb (n_explicit T) 0).

Fixpoint no_f01 (T: ty) : bool :=
  match T with
  | TSeqOf t | TSetOf t => no_f01 t
  | TSeq fs | TSet fs => forallb (fun f => no_f01 (snd f)) fs
  | TChoice alts => forallb no_f01 alts
  | TImp _ x | TExp _ x => negb (f01_class T) && no_f01 x
  | _ => true
  end.

Fixpoint no_setof (T: ty) : bool :=
  match T with
  | TSetOf _ => false
  | TSeqOf t => no_setof t
  | TSeq fs | TSet fs => forallb (fun f => no_setof (snd f)) fs
  | TChoice alts => forallb no_setof alts
  | TImp _ x | TExp _ x => no_setof x
  | _ => true
  end.

(* the CER and DER encoders sort the element encodings of a SET OF *)
Definition sorts (ce: codec) : bool := match ce with BER => false | _ => true end.

(* stage-2 types; without the F01 class when lengths are indefinite (d = false); without SET OF
   under a sorting encoder unless the comparison is up to the order of SET OF elements (so) *)
Definition dom (ce: codec) (d so: bool) (T: ty) : bool :=
  stage2_ty T && (d || no_f01 T) && (so || negb (sorts ce) || no_setof T).

Fixpoint modes_val (ce cd: codec) (T: ty) (v: val) {struct T} : bool :=
  match T with
  | TImp _ x | TExp _ x => modes_val ce cd x v
  | TSeqOf t | TSetOf t => match v with VList xs => forallb (modes_val ce cd t) xs | _ => false end
  | TSeq fs =>
      match v with
      | VRec vs =>
          (fix go (fs: list (presence * ty)) (vs: list (option val)) : bool :=
             match fs, vs with
             | [], [] => true
             | f :: fs', Some x :: vs' => modes_val ce cd (snd f) x && go fs' vs'
             | _, _ => false
             end) fs vs
      | _ => false
      end
  | TSet _ | TChoice _ | TAny => false
  | _ => stage1_val ce cd T v
  end.

Definition mv_fields (ce cd: codec) : list (presence * ty) -> list (option val) -> bool :=
  fix go (fs: list (presence * ty)) (vs: list (option val)) : bool :=
    match fs, vs with
    | [], [] => true
    | f :: fs', Some x :: vs' => modes_val ce cd (snd f) x && go fs' vs'
    | _, _ => false
    end.

Lemma modes_val_seq ce cd fs vs : modes_val ce cd (TSeq fs) (VRec vs) = mv_fields ce cd fs vs.
Proof. reflexivity. Qed.

Lemma modes_val_base ce cd : forall T v, modes_val ce cd T v = modes_val ce cd (base_of T) v.
Proof.
  induction T as [| | | | | | | | n|fs IH|fs IH|t IH|t IH|alts IH| |tg x IH|tg x IH] using ty_ind'; intros v; try reflexivity.
  - cbn [base_of modes_val]. apply IH.
  - cbn [base_of modes_val]. apply IH.
Qed.

Lemma modes_val_prim ce cd T v : prim_base T = true -> modes_val ce cd T v = stage1_val ce cd T v.
Proof.
  intros Hp. rewrite modes_val_base, (stage1_val_base ce cd T). unfold prim_base in Hp.
  destruct (base_of T); try discriminate Hp; reflexivity.
Qed.

Lemma six_base T : six T = six (base_of T).
Proof. unfold six. rewrite base_of_idem. reflexivity. Qed.

Lemma base_of_plain : forall T, match base_of T with TImp _ _ | TExp _ _ => False | _ => True end.
Proof.
  induction T as [| | | | | | | | n|fs IH|fs IH|t IH|t IH|alts IH| |tg x IH|tg x IH] using ty_ind'; try exact I; exact IH.
Qed.

Lemma n_explicit_base T : n_explicit (base_of T) = O.
Proof. pose proof (base_of_plain T) as H. destruct (base_of T); try reflexivity; contradiction. Qed.

Lemma no_f01_base : forall T, no_f01 T = true -> no_f01 (base_of T) = true /\ f01_class T = false.
Proof.
  induction T as [| | | | | | | | n|fs IH|fs IH|t IH|t IH|alts IH| |tg x IH|tg x IH] using ty_ind'; intros H;
    try (split; [exact H|unfold f01_class; cbn [n_explicit Nat.eqb negb]; apply Bool.andb_false_r]).
  - cbn [no_f01] in H. apply Bool.andb_true_iff in H. destruct H as [H1 H2]. cbn [base_of].
    split; [exact (proj1 (IH H2))|]. apply Bool.negb_true_iff. exact H1.
  - cbn [no_f01] in H. apply Bool.andb_true_iff in H. destruct H as [H1 H2]. cbn [base_of].
    split; [exact (proj1 (IH H2))|]. apply Bool.negb_true_iff. exact H1.
Qed.

Lemma no_setof_base : forall T, no_setof T = true -> no_setof (base_of T) = true.
Proof.
  induction T as [| | | | | | | | n|fs IH|fs IH|t IH|t IH|alts IH| |tg x IH|tg x IH] using ty_ind'; intros H; try exact H.
  - cbn [no_setof] in H. cbn [base_of]. exact (IH H).
  - cbn [no_setof] in H. cbn [base_of]. exact (IH H).
Qed.

Lemma dom_base ce d so T : dom ce d so T = true ->
  wf_tags T = true /\ dom ce d so (base_of T) = true /\ (d = false -> f01_class T = false).
Proof.
  unfold dom. intros H. apply Bool.andb_true_iff in H. destruct H as [H H3].
  apply Bool.andb_true_iff in H. destruct H as [H1 H2].
  destruct (stage2_ty_base T H1) as [Hw Hb]. split; [exact Hw|]. rewrite Hb. cbn [andb].
  split.
  - apply Bool.andb_true_iff. split.
    + destruct d; [reflexivity|]. cbn [orb] in *. exact (proj1 (no_f01_base T H2)).
    + destruct so; [reflexivity|]. destruct (sorts ce); [|reflexivity]. cbn [orb negb] in *. exact (no_setof_base T H3).
  - intros ->. cbn [orb] in H2. exact (proj2 (no_f01_base T H2)).
Qed.

(* ---------- shape of the tag set, with what the end-of-octets test needs ---------- *)

Lemma tagset_shape_nz : forall T, tagged_base T = true -> wf_tags T = true ->
  exists t0 r b0, tagset_of (base_of T) = Ok [b0] /\ tagset_of T = Ok (t0 :: r) /\ tcon t0 = tcon b0
    /\ Forall explicit_like r /\ (length r + ty_depth (base_of T) <= ty_depth T)%nat
    /\ (t0 = b0 \/ tcls t0 <> Univ) /\ length r = n_explicit T.
Proof.
  induction T as [| | | | | | | | n|fs IH|fs IH|t IH|t IH|alts IH| |tg x IH|tg x IH] using ty_ind';
    intros Hp Hw; try discriminate Hp;
    try (eexists; exists []; eexists; split; [reflexivity|split; [reflexivity|split; [reflexivity|split; [constructor|
           split; [cbn [length base_of]; lia|split; [left; reflexivity|reflexivity]]]]]]).
  - (* TImp *)
    cbn [wf_tags] in Hw. apply Bool.andb_true_iff in Hw. destruct Hw as [Hcl Hw].
    destruct (IH Hp Hw) as (t0 & r & b0 & Hb0 & Hts & Hc0 & Hex & Hd & Hnz & Hne).
    assert (Hnu: tcls tg <> Univ) by (destruct (tcls tg); try discriminate; cbn in Hcl; congruence).
    cbn [tagset_of base_of n_explicit]. rewrite Hts. cbn [bind].
    destruct r as [|r1 r'].
    + exists (mkTag (tcls tg) (tcon t0) (tnum tg)), [], b0.
      split; [exact Hb0|]. split; [reflexivity|]. split; [exact Hc0|]. split; [constructor|].
      split; [cbn [ty_depth length] in *; lia|]. split; [right; exact Hnu|exact Hne].
    + destruct (tag_implicitly_cons t0 (r1 :: r') tg) as (r2 & E & Hl & Hf); [discriminate|].
      exists t0, r2, b0. rewrite E. split; [exact Hb0|]. split; [reflexivity|]. split; [exact Hc0|]. split.
      * apply Hf; [exact Hex|exact Hnu].
      * split; [cbn [ty_depth]; lia|]. split; [exact Hnz|congruence].
  - (* TExp *)
    cbn [wf_tags] in Hw. apply Bool.andb_true_iff in Hw. destruct Hw as [Hcl Hw].
    destruct (IH Hp Hw) as (t0 & r & b0 & Hb0 & Hts & Hc0 & Hex & Hd & Hnz & Hne).
    cbn [tagset_of base_of n_explicit]. rewrite Hts. cbn [bind]. unfold tag_explicitly.
    assert (Hnu: tcls tg <> Univ) by (destruct (tcls tg); try discriminate; cbn in Hcl; congruence).
    exists t0, (r ++ [mkTag (tcls tg) true (tnum tg)]), b0.
    split; [exact Hb0|].
    split; [destruct (tcls tg); try reflexivity; congruence|].
    split; [exact Hc0|]. split.
    + apply Forall_app. split; [exact Hex|]. constructor; [|constructor]. split; [reflexivity|exact Hnu].
    + split; [rewrite app_length; cbn [length ty_depth]; lia|]. split; [exact Hnz|].
      rewrite app_length. cbn [length]. lia.
Qed.

Lemma base_tag_nz T b0 : tagset_of (base_of T) = Ok [b0] -> (forall n, base_of T = TStr n -> n <> 0) -> tnum b0 <> 0.
Proof.
  intros H Hn. pose proof (base_of_plain T) as Hp.
  destruct (base_of T) eqn:Hb; try contradiction; cbn [tagset_of] in H; inversion H; subst; cbn [utag tnum]; try discriminate.
  exact (Hn n eq_refl).
Qed.

Lemma frame_modes_len t0 r content cns d k si b : Forall explicit_like r ->
  frame (t0 :: r) content cns (mo d k) si = Ok b -> (length content + 2 <= length b)%nat.
Proof.
  intros Hex He. cbn [frame] in He. unfold mo in He. rewrite Bool.andb_false_r in He. cbn [o_def] in He.
  destruct (frame_one t0 cns (if cns then d else true) si content) as [s0|e] eqn:E0; cbn [bind] in He; [|discriminate].
  destruct (frame_outer_facts _ _ _ _ _ _ He Hex) as (Hlen0 & _ & _).
  destruct (frame_one_shape _ _ _ _ _ _ E0) as (l & e & -> & Hl). pose proof (enc_tag_nonempty t0 cns).
  rewrite !app_length in Hlen0. lia.
Qed.

(* ---------- named versions of the encoder's local loops, for any codec ---------- *)

Definition enc_elems_g (c: codec) (t: ty) (o: eopts) : list val -> res (list bytes) :=
  fix go (xs: list val) : res (list bytes) :=
  match xs with
  | [] => Ok []
  | x :: r => do p <- enc_with c (enc_content c) t o x; do ps <- go r; Ok (p :: ps)
  end.

Definition listof_finish (cd: enc_codec) (parts: list bytes) : res (bytes * bool) :=
  match cd with
  | EcSeqOfBer | EcSeqOfCer => Ok (concat parts, true)
  | EcSetOfCer => Ok (concat (sort_setof parts), true)
  | _ => Err EMalformed
  end.

Lemma enc_content_seqof_g c t cd fl o xs :
  enc_content c (TSeqOf t) cd fl o (VList xs) = (do parts <- enc_elems_g c t o xs; listof_finish cd parts).
Proof. reflexivity. Qed.

Lemma enc_content_setof_g c t cd fl o xs :
  enc_content c (TSetOf t) cd fl o (VList xs) = (do parts <- enc_elems_g c t o xs; listof_finish cd parts).
Proof. reflexivity. Qed.

Lemma enc_elems_g_cons c t o x r :
  enc_elems_g c t o (x :: r) = (do p <- enc_with c (enc_content c) t o x; do ps <- enc_elems_g c t o r; Ok (p :: ps)).
Proof. reflexivity. Qed.

Definition enc_rec_fields_g (c: codec) (cd: enc_codec) (omit: bool) (o: eopts) : list (presence * ty) -> list (option val) -> res (list (tagset * bytes)) :=
  fix go (fs: list (presence * ty)) (vs: list (option val)) : res (list (tagset * bytes)) :=
    match fs with
    | [] => Ok []
    | (p, ft) :: fs' =>
        let ov := match vs with x :: _ => x | [] => None end in
        let vs' := match vs with _ :: r => r | [] => [] end in
        let o' := if omit then mkOpts (o_def o) (o_chunk o) (match p with Opt => true | _ => false end) else o in
        let emit (x: val) := do b <- enc_with c (enc_content c) ft o' x; do rest <- go fs' vs';
                             Ok ((set_sort_key (match cd with EcSetDer => true | _ => false end) ft x, b) :: rest) in
        match p, ov with
        | Opt, None => go fs' vs'
        | Def d, None => go fs' vs'
        | Def d, Some x => match val_py_eq x d with
                           | Some true => go fs' vs'
                           | Some false => emit x
                           | None => Err EUnmodelled end
        | Req, None => if all_optional_container ft then emit (VRec []) else Err EMalformed
        | _, Some x => emit x
        end
    end.

Lemma enc_content_seq_g c fs cd fl o vs :
  enc_content c (TSeq fs) cd fl o (VRec vs) =
  (do parts <- enc_rec_fields_g c cd (match cd with EcSeq => ef_omit_empty fl | EcSetCer | EcSetDer => true | _ => false end) o fs vs;
   match cd with
   | EcSeq => Ok (concat (map snd parts), true)
   | EcSetCer | EcSetDer => Ok (concat (map snd (sort_by tagset_ltb fst parts)), true)
   | _ => Err EMalformed
   end).
Proof. reflexivity. Qed.

Lemma enc_rec_fields_g_req c omit d k ft fs' x vs' :
  enc_rec_fields_g c EcSeq omit (mo d k) ((Req, ft) :: fs') (Some x :: vs') =
  (do b <- enc_with c (enc_content c) ft (mo d k) x; do rest <- enc_rec_fields_g c EcSeq omit (mo d k) fs' vs';
   Ok ((set_sort_key false ft x, b) :: rest)).
Proof. destruct omit; reflexivity. Qed.

Definition opt_rel (R: aval -> aval -> Prop) (a b: option aval) : Prop :=
  match a, b with Some x, Some y => R x y | None, None => True | _, _ => False end.

Lemma perm_concat_length {A} (l1 l2: list (list A)) : Permutation l1 l2 -> length (concat l1) = length (concat l2).
Proof.
  induction 1 as [|x l l' _ IH|x y l|l l' l'' _ IH1 _ IH2]; cbn [concat]; rewrite ?app_length; lia.
Qed.

Lemma sort_by_perm {A K} (ltb: K -> K -> bool) (key: A -> K) (l: list A) : Permutation l (sort_by ltb key l).
Proof.
  unfold sort_by. induction l as [|x l IH]; cbn [fold_right]; [constructor|].
  eapply perm_trans; [apply perm_skip; exact IH|].
  generalize (fold_right (fun x acc => insert_by ltb key x acc) [] l) as m. clear.
  induction m as [|z m IH]; cbn [insert_by]; [apply Permutation_refl|].
  destruct (ltb (key z) (key x)); [|apply Permutation_refl].
  eapply perm_trans; [apply perm_swap|]. apply perm_skip. exact IH.
Qed.

Lemma sort_setof_perm_self l : Permutation l (sort_setof l).
Proof.
  unfold sort_setof. destruct l as [|a [|b l]]; try apply Permutation_refl. apply sort_by_perm.
Qed.

(* ---------- the induction, for any comparison of abstract values that is a congruence ---------- *)

Section Induction.
  Variable R : aval -> aval -> Prop.
  Variable G : aval -> Prop.      (* where the comparison is reflexive: the abstract values of the simple types *)
  Variable so : bool.
  Hypothesis R_refl : forall a, G a -> R a a.
  Hypothesis R_list : forall l1 l2, Forall2 R l1 l2 -> R (AList l1) (AList l2).
  Hypothesis R_rec : forall l1 l2, Forall2 (opt_rel R) l1 l2 -> R (ARec l1) (ARec l2).
  Hypothesis R_bag : forall l1 l1' l2, Forall2 R l1 l2 -> (if so then Permutation l1 l1' else l1' = l1) ->
                                       R (ABag l1') (ABag l2).
  Variables ce cd : codec.
  Variable d : bool.
  Variable k : N.
  Hypothesis Hst : stable ce d k.
  Hypothesis Hcd : dec_ok cd.
  Hypothesis G_leaf : forall T v, prim_base T = true -> stage1_val ce cd T v = true -> G (abs T v).

  Definition item_ok_m (T: ty) (v: val) : Prop :=
    forall b, enc_with ce (enc_content ce) T (mo d k) v = Ok b -> N.of_nat (length b) <= index_max ->
    (2 <= length b)%nat /\ hd 0 b <> 0 /\
    exists v', R (abs T v') (abs T v) /\
      forall f ae, fuel_ok T b f -> consumes (dec_call cd f (STy T) [] None ae false) b (DV T v').

  (* the simple types *)
  Lemma prim_item_m T v : prim_base T = true -> wf_tags T = true -> (d = false -> f01_class T = false) ->
    stage1_val ce cd T v = true -> item_ok_m T v.
  Proof.
    intros Hp Hw Hf01 Hs b He Hmax.
    destruct (enc_with_inv_g ce T d k v b Hst He) as (ec & fl & ts & content & cns & Hce & Hts' & Hcont & Hfr).
    assert (Htb: tagged_base T = true) by (unfold tagged_base, prim_base in *; destruct (base_of T); try discriminate Hp; reflexivity).
    destruct (tagset_shape_nz T Htb Hw) as (t0 & r & b0 & Hb0 & Hts & Hc0 & Hex & Hd & Hnz & Hne).
    rewrite Hts in Hts'. inversion Hts'; subst ts; clear Hts'.
    destruct (leaf_modes ce cd d k T v ec fl content cns Hcd Hs Hce Hcont) as (Hsix & Hnsix & dcd & dfl & vdec & Hby & Habs & Hval).
    assert (Hb0p: tcon b0 = false /\ tnum b0 <> 0).
    { split.
      - unfold prim_base in Hp. destruct (base_of T); try discriminate Hp; cbn [tagset_of] in Hb0; inversion Hb0; reflexivity.
      - apply (base_tag_nz T b0 Hb0). intros n Hbn. unfold stage1_val in Hs. rewrite Hbn in Hs.
        destruct v; try discriminate Hs. apply Bool.andb_true_iff in Hs. destruct Hs as [Hk _].
        unfold known_string in Hk. apply Bool.andb_true_iff in Hk. destruct Hk as [Hk _].
        destruct (lookup3 (KStr n) (enc_type_map ce)) as [[ec' ef]|] eqn:Ele; [|discriminate].
        destruct ec'; try discriminate. exact (proj2 (enc_str_flag ce n ef Ele)). }
    destruct Hb0p as [Hb0c Hb0n].
    assert (Hc0': tcon t0 = false) by congruence.
    assert (Hnz': tcls t0 <> Univ \/ tnum t0 <> 0) by (destruct Hnz as [-> | H]; [right; exact Hb0n|left; exact H]).
    pose proof (frame_modes_len _ _ _ _ _ _ _ _ Hex Hfr) as Hlen.
    assert (Hpm: plain_map T).
    { apply plain_map_tagged. unfold prim_base in Hp. destruct T; try exact I; discriminate Hp. }
    assert (Hmode: d = false -> cns = true \/ r <> [] -> ef_indef fl = true).
    { intros Hd0 Hor. destruct (six T) eqn:E6; [|exact (Hnsix eq_refl)].
      exfalso. specialize (Hsix eq_refl). destruct Hor as [Hc|Hr]; [congruence|].
      specialize (Hf01 Hd0). unfold f01_class in Hf01. rewrite E6 in Hf01. cbn [andb] in Hf01.
      apply Bool.negb_false_iff in Hf01. apply Nat.eqb_eq in Hf01. destruct r; [congruence|]. cbn [length] in Hne. lia. }
    assert (Hgen: forall f, fuel_ok T b f ->
              (length content + 2 <= length b)%nat /\ hd 0 b <> 0 /\
              forall ae, consumes (dec_call cd f (STy T) [] None ae false) b (DV T vdec)).
    { intros f Hf. unfold fuel_ok in Hf.
      assert (Hd': (length r + 1 <= ty_depth T)%nat).
      { assert (1 <= ty_depth (base_of T))%nat by (destruct (base_of T); cbn [ty_depth]; lia). lia. }
      replace f with (S (f - 1 - length r) + length r)%nat by lia.
      apply (framed_modes cd T t0 r cns (ef_indef fl) d k content b (f - 1 - length r) dcd dfl T vdec
               (dec_ok_indef cd Hcd) Hts Hnz' Hex Hpm Hby Hmode Hfr); [lia|].
      apply (Hval (f - 1 - length r)%nat t0 r Hc0'); lia. }
    destruct (Hgen (length b + ty_depth T)%nat ltac:(unfold fuel_ok; lia)) as (G1 & G2 & _).
    split; [lia|]. split; [exact G2|].
    exists vdec. split; [rewrite Habs; apply R_refl; apply G_leaf; assumption|].
    intros f ae Hf. exact (proj2 (proj2 (Hgen f Hf)) ae).
  Qed.

  (* the elements of a SEQUENCE OF / SET OF *)
  Lemma elems_item_m t : (forall x, modes_val ce cd t x = true -> item_ok_m t x) ->
    forall xs parts, enc_elems_g ce t (mo d k) xs = Ok parts -> forallb (modes_val ce cd t) xs = true ->
    N.of_nat (length (concat parts)) <= index_max ->
    exists xs', Forall2 R (map (abs t) xs') (map (abs t) xs) /\
      forall f, (length (concat parts) + ty_depth t <= f)%nat -> Forall2 (elem_ok_ae (dec_call cd f) t) parts xs'.
  Proof.
    intros IHt. induction xs as [|x xs IH]; intros parts He Hs Hmax.
    - inversion He; subst. exists []. split; [constructor|]. intros f _. constructor.
    - rewrite enc_elems_g_cons in He.
      destruct (enc_with ce (enc_content ce) t (mo d k) x) as [p|e] eqn:Ep; cbn [bind] in He; [|discriminate].
      destruct (enc_elems_g ce t (mo d k) xs) as [ps|e] eqn:Eps; cbn [bind] in He; [|discriminate].
      inversion He; subst parts; clear He.
      cbn [forallb] in Hs. apply Bool.andb_true_iff in Hs. destruct Hs as [Hx Hxs].
      cbn [concat] in Hmax. rewrite app_length in Hmax.
      destruct (IHt x Hx p Ep ltac:(lia)) as (Hpl & _ & x' & Hax & Hcx).
      destruct (IH ps eq_refl Hxs ltac:(lia)) as (xs' & Haxs & Hcxs).
      exists (x' :: xs'). split; [cbn [map]; constructor; assumption|].
      intros f Hf. cbn [concat] in Hf. rewrite app_length in Hf. constructor.
      + split; [|lia]. intros ae. apply Hcx. unfold fuel_ok. lia.
      + apply Hcxs. lia.
  Qed.

  Lemma Forall2_elem_ae_count rec t parts xs' : Forall2 (elem_ok_ae rec t) parts xs' -> (length parts <= length (concat parts))%nat.
  Proof.
    induction 1 as [|p x' parts xs' [_ Hpl] _ IH]; [cbn; lia|]. cbn [length concat]. rewrite app_length. lia.
  Qed.

  (* SEQUENCE OF / SET OF under any tagging *)
  Lemma listof_item_m T' t : (base_of T' = TSeqOf t \/ base_of T' = TSetOf t) -> wf_tags T' = true ->
    (base_of T' = TSetOf t -> sorts ce = true -> so = true) ->
    (forall x, modes_val ce cd t x = true -> item_ok_m t x) ->
    forall xs, forallb (modes_val ce cd t) xs = true -> item_ok_m T' (VList xs).
  Proof.
    intros Hb Hw Hso IHt xs Hs b He Hmax.
    assert (Htb: tagged_base T' = true) by (unfold tagged_base; destruct Hb as [-> | ->]; reflexivity).
    destruct (tagset_shape_nz T' Htb Hw) as (t0 & r & b0 & Hb0 & Hts & Hc0 & Hex & Hd & Hnz & Hne).
    assert (Hb0p: tcon b0 = true /\ tnum b0 <> 0).
    { destruct Hb as [Hb|Hb]; rewrite Hb in Hb0; inversion Hb0; split; try reflexivity; discriminate. }
    destruct Hb0p as [Hb0c Hb0n].
    assert (Hcon: tcon t0 = true) by congruence.
    assert (Hnz': tcls t0 <> Univ \/ tnum t0 <> 0) by (destruct Hnz as [-> | H]; [right; exact Hb0n|left; exact H]).
    assert (Hdep: ty_depth (base_of T') = S (ty_depth t)) by (destruct Hb as [-> | ->]; reflexivity).
    destruct (enc_with_inv_g ce T' d k _ b Hst He) as (ec & fl & ts & content & cns & Hce & Hts' & Hcont & Hfr).
    rewrite Hts in Hts'. inversion Hts'; subst ts; clear Hts'.
    rewrite concrete_encoder_base in Hce. rewrite enc_content_base in Hcont.
    assert (Hparts: exists parts parts', enc_elems_g ce t (mo d k) xs = Ok parts /\ content = concat parts' /\ cns = true
                      /\ ef_indef fl = true
                      /\ (parts' = parts \/ (so = true /\ base_of T' = TSetOf t /\ Permutation parts parts'))).
    { destruct Hb as [Hb|Hb]; rewrite Hb in Hce, Hcont.
      - rewrite enc_content_seqof_g in Hcont.
        destruct (enc_elems_g ce t (mo d k) xs) as [parts|e]; cbn [bind] in Hcont; [|discriminate].
        exists parts, parts.
        destruct ce; vm_compute in Hce; inversion Hce; subst ec fl; cbn [listof_finish] in Hcont; inversion Hcont; subst;
          repeat split; try reflexivity; left; reflexivity.
      - rewrite enc_content_setof_g in Hcont.
        destruct (enc_elems_g ce t (mo d k) xs) as [parts|e]; cbn [bind] in Hcont; [|discriminate].
        destruct ce; vm_compute in Hce; inversion Hce; subst ec fl; cbn [listof_finish] in Hcont; inversion Hcont; subst.
        + exists parts, parts. repeat split; try reflexivity. left; reflexivity.
        + exists parts, (sort_setof parts). repeat split; try reflexivity.
          right. split; [exact (Hso Hb eq_refl)|]. split; [exact Hb|apply sort_setof_perm_self].
        + exists parts, (sort_setof parts). repeat split; try reflexivity.
          right. split; [exact (Hso Hb eq_refl)|]. split; [exact Hb|apply sort_setof_perm_self]. }
    destruct Hparts as (parts & parts' & Hel & -> & -> & Hsi & Hord0). rewrite Hsi in Hfr.
    pose proof (frame_modes_len _ _ _ _ _ _ _ _ Hex Hfr) as Hlen.
    assert (Hpl: length (concat parts') = length (concat parts)).
    { destruct Hord0 as [-> | (_ & _ & Hperm)]; [reflexivity|symmetry; apply perm_concat_length; exact Hperm]. }
    destruct (elems_item_m t IHt xs parts Hel Hs ltac:(lia)) as (xs' & Habs & Helems).
    (* the decoder meets the element encodings in the order the encoder wrote them *)
    assert (Hord: exists xs'',
              (forall f, (length (concat parts') + ty_depth t <= f)%nat -> Forall2 (elem_ok_ae (dec_call cd f) t) parts' xs'')
              /\ (xs'' = xs' \/ (so = true /\ base_of T' = TSetOf t /\ Permutation xs' xs''))).
    { destruct Hord0 as [-> | (Hso1 & Hb1 & Hperm)].
      - exists xs'. split; [exact Helems|left; reflexivity].
      - assert (Hlen': length xs' = length parts).
        { symmetry. eapply F2_len. apply (Helems (length (concat parts) + ty_depth t)%nat). lia. }
        destruct (perm_positional' parts parts' Hperm xs' Hlen') as (ys' & Hpy & HP).
        exists ys'. split; [|right; split; [exact Hso1|split; [exact Hb1|exact Hpy]]].
        intros f Hf. apply HP. apply Helems. lia. }
    destruct Hord as (xs'' & Helems' & Hrel).
    split; [lia|].
    assert (Hhd: hd 0 b <> 0 /\ forall f ae, fuel_ok T' b f -> consumes (dec_call cd f (STy T') [] None ae false) b (DV T' (VList xs''))).
    { assert (Hby: exists dcd dfl, by_type cd T' = Some (dcd, dfl) /\ (dcd = DcSeqOf \/ dcd = DcSetOf)).
      { rewrite by_type_base. destruct Hcd as [-> | ->]; destruct Hb as [-> | ->]; eexists; eexists;
          (split; [vm_compute; reflexivity|]); (left; reflexivity) || (right; reflexivity). }
      destruct Hby as (dcd & dfl & Hby & Hdcd).
      assert (Hpm: plain_map T').
      { apply plain_map_tagged. destruct T'; try exact I; destruct Hb; discriminate. }
      assert (Hgen: forall f, fuel_ok T' b f -> hd 0 b <> 0 /\
                forall ae, consumes (dec_call cd f (STy T') [] None ae false) b (DV T' (VList xs''))).
      { intros f Hf. unfold fuel_ok in Hf.
        replace f with (S (f - 1 - length r) + length r)%nat by lia.
        refine (proj2 (framed_modes cd T' t0 r true true d k (concat parts') b (f - 1 - length r) dcd dfl T' (VList xs'')
                 (dec_ok_indef cd Hcd) Hts Hnz' Hex Hpm Hby (fun _ _ => eq_refl) Hfr ltac:(lia) _)).
        assert (Hw1: wire t0 true = t0) by (apply wire_con; exact Hcon). rewrite Hw1.
        assert (HF: Forall2 (elem_ok_ae (dec_call cd (f - 1 - length r)) t) parts' xs'') by (apply Helems'; lia).
        pose proof (Forall2_elem_ae_count _ _ _ _ HF) as Hcnt.
        destruct d; cbn [andb negb].
        - assert (Hdv: dec_value (dec_call cd (f - 1 - length r)) (f - 1 - length r) dcd dfl (Some T') (t0 :: r)
                               (Some (N.of_nat (length (concat parts')))) false
                     = dec_listof (dec_call cd (f - 1 - length r)) (f - 1 - length r) T' t (Some (N.of_nat (length (concat parts'))))).
          { destruct Hdcd as [-> | ->]; cbn [dec_value tag0_cons]; rewrite Hcon; cbn [negb]; destruct Hb as [-> | ->]; reflexivity. }
          rewrite Hdv. apply dec_listof_consumes; [apply Forall2_elem_ok_of_ae; exact HF|lia].
        - assert (Hdv: dec_value (dec_call cd (f - 1 - length r)) (f - 1 - length r) dcd dfl (Some T') (t0 :: r) None false
                     = dec_listof (dec_call cd (f - 1 - length r)) (f - 1 - length r) T' t None).
          { destruct Hdcd as [-> | ->]; cbn [dec_value tag0_cons]; rewrite Hcon; cbn [negb]; destruct Hb as [-> | ->]; reflexivity. }
          rewrite Hdv. destruct (f - 1 - length r)%nat as [|f'] eqn:Ef; [lia|].
          apply (dec_listof_indef_consumes (dec_call cd (S f')) (eoo_ok_call cd f' Hcd)); [exact HF|lia]. }
      split; [exact (proj1 (Hgen (length b + ty_depth T')%nat ltac:(unfold fuel_ok; lia)))|].
      intros f ae Hf. exact (proj2 (Hgen f Hf) ae). }
    destruct Hhd as [Hhd Hcons]. split; [exact Hhd|].
    exists (VList xs''). split; [|exact Hcons].
    rewrite (abs_wrappers T' (VList xs'')), (abs_wrappers T' (VList xs)).
    destruct Hb as [Hb|Hb]; rewrite Hb; cbn [abs].
    - destruct Hrel as [-> | (_ & Hb1 & _)]; [|rewrite Hb in Hb1; discriminate]. apply R_list. exact Habs.
    - apply (R_bag (map (abs t) xs')); [exact Habs|].
      destruct Hrel as [-> | (Hso1 & _ & Hpx)].
      + destruct so; [apply Permutation_refl|reflexivity].
      + rewrite Hso1. apply Permutation_map. exact Hpx.
  Qed.
  (* the components of a SEQUENCE *)
  Lemma fields_item_m : forall fs,
    Forall (fun f => forall x, modes_val ce cd (snd f) x = true -> item_ok_m (snd f) x) fs ->
    forallb (fun f => is_req (fst f)) fs = true ->
    forall omit vs parts, mv_fields ce cd fs vs = true -> enc_rec_fields_g ce EcSeq omit (mo d k) fs vs = Ok parts ->
    N.of_nat (length (concat (map snd parts))) <= index_max ->
    exists xs', Forall2 (opt_rel R) (abs_fields fs (map Some xs')) (abs_fields fs vs) /\
      forall f, (length (concat (map snd parts)) + max_depth fs <= f)%nat ->
                fields_ok_ae (dec_call cd f) fs (map snd parts) xs'.
  Proof.
    intros fs HF. induction HF as [|[p ft] fs IHf HF IH]; intros Hreq omit vs parts Hs He Hmax.
    - destruct vs; [|discriminate Hs]. inversion He; subst. exists []. split; [constructor|]. intros f _. constructor.
    - cbn [forallb fst] in Hreq. apply Bool.andb_true_iff in Hreq. destruct Hreq as [Hp Hreq].
      destruct p; try discriminate Hp. cbn [snd] in IHf.
      destruct vs as [|[x|] vs']; try discriminate Hs.
      change (mv_fields ce cd ((Req, ft) :: fs) (Some x :: vs')) with (modes_val ce cd ft x && mv_fields ce cd fs vs')%bool in Hs.
      apply Bool.andb_true_iff in Hs. destruct Hs as [Hx Hxs].
      rewrite enc_rec_fields_g_req in He.
      destruct (enc_with ce (enc_content ce) ft (mo d k) x) as [pb|e] eqn:Ep; cbn [bind] in He; [|discriminate].
      destruct (enc_rec_fields_g ce EcSeq omit (mo d k) fs vs') as [ps|e] eqn:Eps; cbn [bind] in He; [|discriminate].
      inversion He; subst parts; clear He.
      cbn [map snd concat] in Hmax. rewrite app_length in Hmax.
      destruct (IHf x Hx pb Ep ltac:(lia)) as (Hpl & _ & x' & Hax & Hcx).
      destruct (IH Hreq omit vs' ps Hxs Eps ltac:(lia)) as (xs' & Haxs & Hcxs).
      exists (x' :: xs'). split.
      { change (abs_fields ((Req, ft) :: fs) (map Some (x' :: xs'))) with (Some (abs ft x') :: abs_fields fs (map Some xs')).
        change (abs_fields ((Req, ft) :: fs) (Some x :: vs')) with (Some (abs ft x) :: abs_fields fs vs').
        constructor; [exact Hax|exact Haxs]. }
      intros f Hf. cbn [map snd concat max_depth fold_right] in Hf. rewrite app_length in Hf.
      cbn [map snd]. constructor.
      + cbn [snd]. split; [|lia]. intros ae. apply Hcx. unfold fuel_ok. lia.
      + apply Hcxs. unfold max_depth. lia.
  Qed.

  Lemma fields_ok_ae_count rec fs parts xs' : fields_ok_ae rec fs parts xs' ->
    (length fs <= length (concat parts))%nat.
  Proof.
    induction 1 as [|f p x' fs ps xs [_ Hpl] _ IH]; [cbn; lia|]. cbn [length concat]. rewrite app_length. lia.
  Qed.

  (* SEQUENCE with mandatory components, under any tagging *)
  Lemma record_item_m T' fs : base_of T' = TSeq fs -> wf_tags T' = true ->
    forallb (fun f => is_req (fst f)) fs = true ->
    Forall (fun f => forall x, modes_val ce cd (snd f) x = true -> item_ok_m (snd f) x) fs ->
    forall vs, mv_fields ce cd fs vs = true -> item_ok_m T' (VRec vs).
  Proof.
    intros Hb Hw Hreq IHfs vs Hs b He Hmax.
    assert (Htb: tagged_base T' = true) by (unfold tagged_base; rewrite Hb; reflexivity).
    destruct (tagset_shape_nz T' Htb Hw) as (t0 & r & b0 & Hb0 & Hts & Hc0 & Hex & Hd & Hnz & Hne).
    assert (Hb0p: tcon b0 = true /\ tnum b0 <> 0).
    { rewrite Hb in Hb0; inversion Hb0; split; try reflexivity; discriminate. }
    destruct Hb0p as [Hb0c Hb0n].
    assert (Hcon: tcon t0 = true) by congruence.
    assert (Hnz': tcls t0 <> Univ \/ tnum t0 <> 0) by (destruct Hnz as [-> | H]; [right; exact Hb0n|left; exact H]).
    assert (Hdep: ty_depth (base_of T') = S (max_depth fs)) by (rewrite Hb; reflexivity).
    destruct (enc_with_inv_g ce T' d k _ b Hst He) as (ec & fl & ts & content & cns & Hce & Hts' & Hcont & Hfr).
    rewrite Hts in Hts'. inversion Hts'; subst ts; clear Hts'.
    rewrite concrete_encoder_base in Hce. rewrite enc_content_base in Hcont.
    rewrite Hb in Hce, Hcont.
    assert (Hparts: exists omit parts, enc_rec_fields_g ce EcSeq omit (mo d k) fs vs = Ok parts
                      /\ content = concat (map snd parts) /\ cns = true /\ ef_indef fl = true).
    { rewrite enc_content_seq_g in Hcont.
      destruct ce; vm_compute in Hce; inversion Hce; subst ec fl; cbn [ef_omit_empty] in Hcont;
        (destruct (enc_rec_fields_g _ EcSeq _ (mo d k) fs vs) as [parts|e] eqn:Eparts; cbn [bind] in Hcont; [|discriminate]);
        inversion Hcont; subst; eexists; exists parts; (split; [exact Eparts|]); repeat split. }
    destruct Hparts as (omit & parts & Eparts & -> & -> & Hsi). rewrite Hsi in Hfr.
    pose proof (frame_modes_len _ _ _ _ _ _ _ _ Hex Hfr) as Hlen.
    destruct (fields_item_m fs IHfs Hreq omit vs parts Hs Eparts ltac:(lia)) as (xs' & Habs & Hfields).
    split; [lia|].
    assert (Hby: by_type cd T' = Some (DcSeq, mkDecFlags true (Some KSeq))).
    { rewrite by_type_base, Hb. destruct Hcd as [-> | ->]; vm_compute; reflexivity. }
    assert (Hpm: plain_map T').
    { apply plain_map_tagged. destruct T'; try exact I; discriminate. }
    assert (Hgen: forall f, fuel_ok T' b f -> hd 0 b <> 0 /\
              forall ae, consumes (dec_call cd f (STy T') [] None ae false) b (DV T' (VRec (map Some xs')))).
    { intros f Hf. unfold fuel_ok in Hf.
      replace f with (S (f - 1 - length r) + length r)%nat by lia.
      refine (proj2 (framed_modes cd T' t0 r true true d k (concat (map snd parts)) b (f - 1 - length r) _ _ T' (VRec (map Some xs'))
               (dec_ok_indef cd Hcd) Hts Hnz' Hex Hpm Hby (fun _ _ => eq_refl) Hfr ltac:(lia) _)).
      assert (Hw1: wire t0 true = t0) by (apply wire_con; exact Hcon). rewrite Hw1.
      assert (HF: fields_ok_ae (dec_call cd (f - 1 - length r)) fs (map snd parts) xs') by (apply Hfields; lia).
      pose proof (fields_ok_ae_count _ _ _ _ HF) as Hcnt.
      destruct d; cbn [andb negb]; cbn [dec_value tag0_cons]; rewrite Hcon; cbn [negb]; rewrite Hb.
      - apply dec_record_consumes; [exact Hreq|apply fields_ok_of_ae; exact HF|lia].
      - destruct (f - 1 - length r)%nat as [|f'] eqn:Ef; [lia|].
        apply (dec_record_indef_consumes (dec_call cd (S f')) (eoo_ok_call cd f' Hcd)); [exact Hreq|exact HF|lia]. }
    split; [exact (proj1 (Hgen (length b + ty_depth T')%nat ltac:(unfold fuel_ok; lia)))|].
    exists (VRec (map Some xs')). split.
    { rewrite (abs_wrappers T' (VRec (map Some xs'))), (abs_wrappers T' (VRec vs)), Hb.
      rewrite !abs_seq. apply R_rec. exact Habs. }
    intros f ae Hf. exact (proj2 (Hgen f Hf) ae).
  Qed.

  (* ---------- the induction over the type ---------- *)

  Lemma dom_seqof t : dom ce d so (TSeqOf t) = dom ce d so t.
  Proof. reflexivity. Qed.

  Lemma dom_setof t : dom ce d so (TSetOf t) = true -> dom ce d so t = true /\ (sorts ce = true -> so = true).
  Proof.
    unfold dom. cbn [stage2_ty no_f01 no_setof]. rewrite Bool.orb_false_r. intros H.
    apply Bool.andb_true_iff in H. destruct H as [H H3]. rewrite H. cbn [andb].
    split.
    - destruct so; [reflexivity|]. destruct (sorts ce); [discriminate H3|reflexivity].
    - intros Hs. rewrite Hs in H3. destruct so; [reflexivity|discriminate H3].
  Qed.

  Lemma dom_seq fs : dom ce d so (TSeq fs) = true ->
    forall f, In f fs -> is_req (fst f) = true /\ dom ce d so (snd f) = true.
  Proof.
    unfold dom. cbn [stage2_ty no_f01 no_setof]. intros H f Hin.
    apply Bool.andb_true_iff in H. destruct H as [H H3].
    apply Bool.andb_true_iff in H. destruct H as [H1 H2].
    rewrite forallb_forall in H1. specialize (H1 f Hin). apply Bool.andb_true_iff in H1. destruct H1 as [Hr H1].
    split; [exact Hr|]. rewrite H1. cbn [andb]. apply Bool.andb_true_iff. split.
    - destruct d; [reflexivity|]. cbn [orb] in *. rewrite forallb_forall in H2. exact (H2 f Hin).
    - destruct so; [reflexivity|]. destruct (sorts ce); [|reflexivity]. cbn [orb negb] in *.
      rewrite forallb_forall in H3. exact (H3 f Hin).
  Qed.

  Theorem modes_item : forall T T', base_of T' = base_of T -> dom ce d so T' = true ->
    forall v, modes_val ce cd T' v = true -> item_ok_m T' v.
  Proof.
    induction T as [| | | | | | | | n|fs IH|fs IH|t IH|t IH|alts IH| |tg x IH|tg x IH] using ty_ind';
      intros T' Hb Hty v Hv; cbn [base_of] in Hb;
      destruct (dom_base ce d so T' Hty) as (Hw & Htb & Hf01);
      try (assert (Hp: prim_base T' = true) by (unfold prim_base; rewrite Hb; reflexivity);
           rewrite (modes_val_prim ce cd T' v Hp) in Hv; exact (prim_item_m T' v Hp Hw Hf01 Hv));
      try (rewrite Hb in Htb; discriminate Htb).
    - (* SEQUENCE *)
      rewrite Hb in Htb. pose proof (dom_seq fs Htb) as Hfs.
      rewrite modes_val_base, Hb in Hv. destruct v; try discriminate Hv. rewrite modes_val_seq in Hv.
      assert (Hreq: forallb (fun f => is_req (fst f)) fs = true).
      { apply forallb_forall. intros f Hin. exact (proj1 (Hfs f Hin)). }
      apply (record_item_m T' fs Hb Hw Hreq); [|exact Hv].
      apply Forall_forall. intros f Hin x Hx. rewrite Forall_forall in IH.
      exact (IH f Hin (snd f) eq_refl (proj2 (Hfs f Hin)) x Hx).
    - (* SEQUENCE OF *)
      rewrite Hb in Htb. rewrite dom_seqof in Htb.
      rewrite modes_val_base, Hb in Hv. destruct v; try discriminate Hv. cbn [modes_val] in Hv.
      apply (listof_item_m T' t (or_introl Hb) Hw); [intros Hc; rewrite Hb in Hc; discriminate| |exact Hv].
      intros x Hx. exact (IH t eq_refl Htb x Hx).
    - (* SET OF *)
      rewrite Hb in Htb. destruct (dom_setof t Htb) as [Htb' Hso].
      rewrite modes_val_base, Hb in Hv. destruct v; try discriminate Hv. cbn [modes_val] in Hv.
      apply (listof_item_m T' t (or_intror Hb) Hw); [intros _; exact Hso| |exact Hv].
      intros x Hx. exact (IH t eq_refl Htb' x Hx).
    - exact (IH T' Hb Hty v Hv).
    - exact (IH T' Hb Hty v Hv).
  Qed.
End Induction.

(* ---------- from items to the one-shot decode function ---------- *)

Theorem roundtrip_modes_gen (R: aval -> aval -> Prop) (G: aval -> Prop) (so: bool) :
  (forall a, G a -> R a a) ->
  (forall l1 l2, Forall2 R l1 l2 -> R (AList l1) (AList l2)) ->
  (forall l1 l2, Forall2 (opt_rel R) l1 l2 -> R (ARec l1) (ARec l2)) ->
  (forall l1 l1' l2, Forall2 R l1 l2 -> (if so then Permutation l1 l1' else l1' = l1) -> R (ABag l1') (ABag l2)) ->
  forall ce cd d k T v b tl,
  stable ce d k -> dec_ok cd -> (forall T v, prim_base T = true -> stage1_val ce cd T v = true -> G (abs T v)) ->
  dom ce d so T = true -> modes_val ce cd T v = true ->
  encode ce d k T v = Ok b -> N.of_nat (length b) <= index_max ->
  exists v', decode cd (Some T) (b ++ tl) = Ok (DV T v', tl) /\ R (abs T v') (abs T v).
Proof.
  intros R1 R2 R3 R4 ce cd d k T v b tl Hst Hcd HG Hty Hv He Hmax.
  destruct (modes_item R G so R1 R2 R3 R4 ce cd d k Hst Hcd HG T T eq_refl Hty v Hv b He Hmax) as (_ & _ & v' & Habs & Hc).
  exists v'. split; [|exact Habs]. unfold decode.
  assert (Hf: fuel_ok T b (dec_fuel (Some T) (b ++ tl))).
  { unfold fuel_ok, dec_fuel. rewrite app_length. lia. }
  pose proof (consumes_decode_with cd _ (Some T) b tl (DV T v') (Hc _ false Hf)) as Hdw.
  unfold decode_with in Hdw. exact Hdw.
Qed.

Lemma eq_list_cong (l1 l2: list aval) : Forall2 eq l1 l2 -> l1 = l2.
Proof. induction 1; congruence. Qed.

Lemma eq_rec_cong (l1 l2: list (option aval)) : Forall2 (opt_rel eq) l1 l2 -> l1 = l2.
Proof.
  induction 1 as [|a b l1 l2 Hab _ IH]; [reflexivity|]. subst.
  destruct a, b; cbn in Hab; try contradiction; congruence.
Qed.

(* equality of abstract values: every mode, SET OF only where the encoder keeps the order *)
Theorem roundtrip_modes : forall ce cd d k T v b tl,
  stable ce d k -> dec_ok cd -> dom ce d false T = true -> modes_val ce cd T v = true ->
  encode ce d k T v = Ok b -> N.of_nat (length b) <= index_max ->
  exists v', decode cd (Some T) (b ++ tl) = Ok (DV T v', tl) /\ abs T v' = abs T v.
Proof.
  intros ce cd d k T v b tl Hst Hcd. apply (roundtrip_modes_gen eq (fun _ => True) false); try assumption.
  - reflexivity.
  - intros l1 l2 H. rewrite (eq_list_cong _ _ H). reflexivity.
  - intros l1 l2 H. rewrite (eq_rec_cong _ _ H). reflexivity.
  - intros l1 l1' l2 H ->. rewrite (eq_list_cong _ _ H). reflexivity.
  - intros; exact I.
Qed.

(* ---------- the three goals ---------- *)

Definition string_ty (T: ty) : bool := match base_of T with TOcts | TBits | TStr _ => true | _ => false end.

Lemma prim_stage2 : forall T, prim_base T = true -> wf_tags T = true -> stage2_ty T = true /\ no_setof T = true.
Proof.
  induction T as [| | | | | | | | n|fs IH|fs IH|t IH|t IH|alts IH| |tg x IH|tg x IH] using ty_ind'; intros Hp Hw;
    try discriminate Hp; try (split; reflexivity).
  - cbn [wf_tags] in Hw. apply Bool.andb_true_iff in Hw. destruct Hw as [H1 H2].
    destruct (IH Hp H2) as [I1 I2]. cbn [stage2_ty no_setof]. unfold non_univ. rewrite H1, I1, I2. split; reflexivity.
  - cbn [wf_tags] in Hw. apply Bool.andb_true_iff in Hw. destruct Hw as [H1 H2].
    destruct (IH Hp H2) as [I1 I2]. cbn [stage2_ty no_setof]. unfold non_univ. rewrite H1, I1, I2. split; reflexivity.
Qed.

Lemma string_no_f01 : forall T, string_ty T = true -> no_f01 T = true.
Proof.
  induction T as [| | | | | | | | n|fs IH|fs IH|t IH|t IH|alts IH| |tg x IH|tg x IH] using ty_ind'; intros Hs;
    try discriminate Hs; try reflexivity.
  - cbn [no_f01]. rewrite (IH Hs). unfold f01_class, six, string_ty in *. cbn [base_of] in *.
    destruct (base_of x); try discriminate Hs; reflexivity.
  - cbn [no_f01]. rewrite (IH Hs). unfold f01_class, six, string_ty in *. cbn [base_of] in *.
    destruct (base_of x); try discriminate Hs; reflexivity.
Qed.

Lemma string_prim T : string_ty T = true -> prim_base T = true.
Proof. unfold string_ty, prim_base. destruct (base_of T); try discriminate; reflexivity. Qed.

(* (1) segmented strings: OCTET STRING, BIT STRING and the character / useful strings under any tag
   stack, any maxChunkSize, definite or indefinite lengths, BER encoder, BER or CER decoder *)
Theorem roundtrip_segmented_strings : forall cd d chunk T v b tl,
  dec_ok cd -> wf_tags T = true -> string_ty T = true -> stage1_val BER cd T v = true ->
  encode BER d chunk T v = Ok b -> N.of_nat (length b) <= index_max ->
  exists v', decode cd (Some T) (b ++ tl) = Ok (DV T v', tl) /\ abs T v' = abs T v.
Proof.
  intros cd d chunk T v b tl Hcd Hw Hs Hv He Hmax.
  pose proof (string_prim T Hs) as Hp. destruct (prim_stage2 T Hp Hw) as [H2 _].
  apply (roundtrip_modes BER cd d chunk T v b tl (stable_ber d chunk) Hcd); try assumption.
  - unfold dom. rewrite H2, (string_no_f01 T Hs). cbn [sorts negb]. rewrite !Bool.orb_true_r. reflexivity.
  - rewrite (modes_val_prim BER cd T v Hp). exact Hv.
Qed.

(* the whole stage-2 fragment, segmented, definite lengths *)
Theorem roundtrip_segmented_stage2 : forall cd chunk T v b tl,
  dec_ok cd -> stage2_ty T = true -> modes_val BER cd T v = true ->
  encode BER true chunk T v = Ok b -> N.of_nat (length b) <= index_max ->
  exists v', decode cd (Some T) (b ++ tl) = Ok (DV T v', tl) /\ abs T v' = abs T v.
Proof.
  intros cd chunk T v b tl Hcd Hty Hv He Hmax.
  apply (roundtrip_modes BER cd true chunk T v b tl (stable_ber true chunk) Hcd); try assumption.
  unfold dom. rewrite Hty. reflexivity.
Qed.

(* (2) indefinite-length mode, any maxChunkSize, for the stage-2 fragment minus the F01 class *)
Theorem roundtrip_indefinite : forall cd chunk T v b tl,
  dec_ok cd -> stage2_ty T = true -> no_f01 T = true -> modes_val BER cd T v = true ->
  encode BER false chunk T v = Ok b -> N.of_nat (length b) <= index_max ->
  exists v', decode cd (Some T) (b ++ tl) = Ok (DV T v', tl) /\ abs T v' = abs T v.
Proof.
  intros cd chunk T v b tl Hcd Hty Hf Hv He Hmax.
  apply (roundtrip_modes BER cd false chunk T v b tl (stable_ber false chunk) Hcd); try assumption.
  unfold dom. rewrite Hty, Hf. reflexivity.
Qed.

(* the options of the caller do not reach the CER encoder *)
Lemma encode_cer_fixed d k T v : encode CER d k T v = encode CER false 1000 T v.
Proof. reflexivity. Qed.

(* (3) the CER encoder (indefinite lengths, segments of 1000 octets, whatever the caller asks for),
   read by the CER or the BER decoder; no SET OF, whose elements the encoder sorts *)
Theorem roundtrip_cer_encoder : forall cd d k T v b tl,
  dec_ok cd -> stage2_ty T = true -> no_f01 T = true -> no_setof T = true -> modes_val CER cd T v = true ->
  encode CER d k T v = Ok b -> N.of_nat (length b) <= index_max ->
  exists v', decode cd (Some T) (b ++ tl) = Ok (DV T v', tl) /\ abs T v' = abs T v.
Proof.
  intros cd d k T v b tl Hcd Hty Hf Hns Hv He Hmax. rewrite encode_cer_fixed in He.
  apply (roundtrip_modes CER cd false 1000 T v b tl stable_cer Hcd); try assumption.
  unfold dom. rewrite Hty, Hf, Hns. reflexivity.
Qed.

(* the DER encoder, for completeness: definite, unsegmented whatever the caller asks for *)
Lemma encode_der_fixed d k T v : encode DER d k T v = encode DER true 0 T v.
Proof. reflexivity. Qed.

Theorem roundtrip_der_encoder : forall cd d k T v b tl,
  dec_ok cd -> stage2_ty T = true -> no_setof T = true -> modes_val DER cd T v = true ->
  encode DER d k T v = Ok b -> N.of_nat (length b) <= index_max ->
  exists v', decode cd (Some T) (b ++ tl) = Ok (DV T v', tl) /\ abs T v' = abs T v.
Proof.
  intros cd d k T v b tl Hcd Hty Hns Hv He Hmax. rewrite encode_der_fixed in He.
  apply (roundtrip_modes DER cd true 0 T v b tl stable_der Hcd); try assumption.
  unfold dom. rewrite Hty, Hns. reflexivity.
Qed.

Print Assumptions roundtrip_modes_gen.
Print Assumptions roundtrip_modes.
Print Assumptions roundtrip_segmented_strings.
Print Assumptions roundtrip_segmented_stage2.
Print Assumptions roundtrip_indefinite.
Print Assumptions roundtrip_cer_encoder.
Print Assumptions roundtrip_der_encoder.

(* ---------- SET OF under the sorting encoders: comparison up to the order of the elements ---------- *)

Lemma leaf_abs_refl ce cd T v : prim_base T = true -> stage1_val ce cd T v = true -> aval_eqb (abs T v) (abs T v) = true.
Proof.
  intros _ Hs. rewrite abs_wrappers. unfold stage1_val in Hs.
  destruct (base_of T); destruct v as [bb|z|bs|bo|cs| |arcs|r|vfs|xs|i x|ab]; try discriminate Hs; cbn [abs aval_eqb].
  - destruct bb; reflexivity.
  - apply Z.eqb_refl.
  - apply Z.eqb_refl.
  - apply (list_eqb_eq Bool.eqb bool_eqb_eq). reflexivity.
  - apply (list_eqb_eq N.eqb N.eqb_eq). reflexivity.
  - reflexivity.
  - apply (list_eqb_eq N.eqb N.eqb_eq). reflexivity.
  - destruct r as [| |m e|m e|]; try discriminate Hs; try reflexivity.
    cbn [abs_real]. destruct (Z.eqb m 0); [reflexivity|].
    destruct (strip_factor _ 2 m e) as [m' e']. cbn [areal_eqb]. rewrite !Z.eqb_refl. reflexivity.
  - apply (list_eqb_eq N.eqb N.eqb_eq). reflexivity.
Qed.

Theorem roundtrip_modes_setof : forall ce cd d k T v b tl,
  stable ce d k -> dec_ok cd -> dom ce d true T = true -> modes_val ce cd T v = true ->
  encode ce d k T v = Ok b -> N.of_nat (length b) <= index_max ->
  exists v', decode cd (Some T) (b ++ tl) = Ok (DV T v', tl) /\ aval_eqb (abs T v') (abs T v) = true.
Proof.
  intros ce cd d k T v b tl Hst Hcd.
  apply (roundtrip_modes_gen (fun a b => aval_eqb a b = true) (fun a => aval_eqb a a = true) true); try assumption.
  - intros a H. exact H.
  - intros l1 l2 H. cbn [aval_eqb]. apply list_eqb_F2. exact H.
  - intros l1 l2 H. cbn [aval_eqb]. apply list_eqb_F2.
    induction H as [|a b0 l1 l2 Hab _ IH]; constructor; [|exact IH].
    destruct a, b0; cbn [opt_rel opt_eqb] in *; try contradiction; [exact Hab|reflexivity].
  - intros l1 l1' l2 H Hp. exact (aval_eqb_bag_perm l1 l1' l2 H Hp).
  - intros T0 v0. apply leaf_abs_refl.
Qed.

(* (3) with SET OF: the CER encoder sorts the element encodings; the decoded SET OF holds the same
   elements as a multiset (aval_eqb compares ABag contents with bag_eqb, at any depth) *)
Theorem roundtrip_cer_encoder_setof : forall cd d k T v b tl,
  dec_ok cd -> stage2_ty T = true -> no_f01 T = true -> modes_val CER cd T v = true ->
  encode CER d k T v = Ok b -> N.of_nat (length b) <= index_max ->
  exists v', decode cd (Some T) (b ++ tl) = Ok (DV T v', tl) /\ aval_eqb (abs T v') (abs T v) = true.
Proof.
  intros cd d k T v b tl Hcd Hty Hf Hv He Hmax. rewrite encode_cer_fixed in He.
  apply (roundtrip_modes_setof CER cd false 1000 T v b tl stable_cer Hcd); try assumption.
  unfold dom. rewrite Hty, Hf. reflexivity.
Qed.

Theorem roundtrip_der_encoder_setof : forall cd d k T v b tl,
  dec_ok cd -> stage2_ty T = true -> modes_val DER cd T v = true ->
  encode DER d k T v = Ok b -> N.of_nat (length b) <= index_max ->
  exists v', decode cd (Some T) (b ++ tl) = Ok (DV T v', tl) /\ aval_eqb (abs T v') (abs T v) = true.
Proof.
  intros cd d k T v b tl Hcd Hty Hv He Hmax. rewrite encode_der_fixed in He.
  apply (roundtrip_modes_setof DER cd true 0 T v b tl stable_der Hcd); try assumption.
  unfold dom. rewrite Hty. reflexivity.
Qed.

Print Assumptions roundtrip_modes_setof.
Print Assumptions roundtrip_cer_encoder_setof.
Print Assumptions roundtrip_der_encoder_setof.

(* ---------- the hypotheses are satisfiable; the excluded class is really excluded ---------- *)

(* [0] EXPLICIT [APPLICATION 5] IMPLICIT BIT STRING, 11 bits, maxChunkSize = 1: two segments, the
   last one (03 02 05 C0) with 5 unused bits; definite and indefinite lengths; BER and CER decoders *)
Definition modes_ex_bits_ty : ty := TExp (mkTag Ctx false 0) (TImp (mkTag Appl false 5) TBits).
Definition modes_ex_bits_val : val := VBits [true;false;true;true;false;false;true;false; true;true;false].

Example roundtrip_segmented_bits_nonvacuous :
  wf_tags modes_ex_bits_ty = true /\ string_ty modes_ex_bits_ty = true
  /\ stage1_val BER BER modes_ex_bits_ty modes_ex_bits_val = true
  /\ stage1_val BER CER modes_ex_bits_ty modes_ex_bits_val = true
  /\ encode BER true 1 modes_ex_bits_ty modes_ex_bits_val = Ok [160; 10; 101; 8; 3; 2; 0; 178; 3; 2; 5; 192]
  /\ encode BER false 1 modes_ex_bits_ty modes_ex_bits_val
     = Ok [160; 128; 101; 128; 3; 2; 0; 178; 3; 2; 5; 192; 0; 0; 0; 0]
  /\ decode BER (Some modes_ex_bits_ty) ([160; 10; 101; 8; 3; 2; 0; 178; 3; 2; 5; 192] ++ [7; 7])
     = Ok (DV modes_ex_bits_ty modes_ex_bits_val, [7; 7])
  /\ decode CER (Some modes_ex_bits_ty) ([160; 128; 101; 128; 3; 2; 0; 178; 3; 2; 5; 192; 0; 0; 0; 0] ++ [7; 7])
     = Ok (DV modes_ex_bits_ty modes_ex_bits_val, [7; 7])
  /\ N.of_nat 16 <= index_max.
Proof. vm_compute. repeat split; try reflexivity; discriminate. Qed.

(* the DER decoder refuses the same octets: indefinite lengths are not DER *)
Example der_decoder_refuses_indefinite :
  decode DER (Some modes_ex_bits_ty) [160; 128; 101; 128; 3; 2; 0; 178; 3; 2; 5; 192; 0; 0; 0; 0] = Err EMalformed
  /\ decode DER (Some modes_ex_bits_ty) [160; 10; 101; 8; 3; 2; 0; 178; 3; 2; 5; 192] = Err EMalformed.
Proof. vm_compute. split; reflexivity. Qed.

(* SEQUENCE OF SEQUENCE { INTEGER, [1] EXPLICIT SET OF IA5String, [PRIVATE 40] IMPLICIT SEQUENCE {} }:
   indefinite containers nested three deep, an indefinite EXPLICIT tag over a container, a segmented
   string (maxChunkSize = 2) inside, empty containers *)
Definition modes_ex_nested_ty : ty :=
  TSeqOf (TSeq [(Req, TInt); (Req, TExp (mkTag Ctx false 1) (TSetOf (TStr 22))); (Req, TImp (mkTag Priv false 40) (TSeq []))]).
Definition modes_ex_nested_val : val :=
  VList [VRec [Some (VInt 300); Some (VList [VOcts [97;98;99;100;101]; VOcts []]); Some (VRec [])];
         VRec [Some (VInt (-1)); Some (VList []); Some (VRec [])]].

Example roundtrip_indefinite_nonvacuous :
  stage2_ty modes_ex_nested_ty = true /\ no_f01 modes_ex_nested_ty = true
  /\ modes_val BER BER modes_ex_nested_ty modes_ex_nested_val = true
  /\ modes_val BER CER modes_ex_nested_ty modes_ex_nested_val = true
  /\ encode BER false 2 modes_ex_nested_ty modes_ex_nested_val
     = Ok [48; 128; 48; 128; 2; 2; 1; 44; 161; 128; 49; 128; 54; 128; 4; 2;
           97; 98; 4; 2; 99; 100; 4; 1; 101; 0; 0; 22; 0; 0; 0; 0; 0; 255; 40;
           128; 0; 0; 0; 0; 48; 128; 2; 1; 255; 161; 128; 49; 128; 0; 0; 0; 0;
           255; 40; 128; 0; 0; 0; 0; 0; 0]
  /\ N.of_nat 62 <= index_max.
Proof. vm_compute. repeat split; try reflexivity; discriminate. Qed.

(* the CER encoder: BOOLEAN TRUE as FF, a 1001-octet OCTET STRING in segments of 1000 under an
   indefinite EXPLICIT tag, indefinite containers; read by the BER decoder *)
Definition modes_ex_cer_ty : ty :=
  TSeq [(Req, TBool); (Req, TExp (mkTag Ctx false 0) TOcts); (Req, TSeqOf TBits); (Req, TInt)].
Definition modes_ex_cer_val : val :=
  VRec [Some (VBool true); Some (VOcts (repeat 7 (N.to_nat 1001))); Some (VList [VBits [true; false; true]]); Some (VInt 5)].

Example roundtrip_cer_encoder_nonvacuous :
  stage2_ty modes_ex_cer_ty = true /\ no_f01 modes_ex_cer_ty = true /\ no_setof modes_ex_cer_ty = true
  /\ modes_val CER CER modes_ex_cer_ty modes_ex_cer_val = true
  /\ modes_val CER BER modes_ex_cer_ty modes_ex_cer_val = true
  /\ exists b, encode CER true 0 modes_ex_cer_ty modes_ex_cer_val = Ok b /\ length b = 1033%nat
       /\ firstn 12 b = [48; 128; 1; 1; 255; 160; 128; 36; 128; 4; 130; 3]
       /\ skipn 1013 b = [4; 1; 7; 0; 0; 0; 0; 48; 128; 3; 2; 5; 160; 0; 0; 2; 1; 5; 0; 0]
       /\ decode BER (Some modes_ex_cer_ty) (b ++ [1; 2]) = Ok (DV modes_ex_cer_ty modes_ex_cer_val, [1; 2])
       /\ N.of_nat (length b) <= index_max.
Proof.
  do 5 (split; [vm_compute; reflexivity|]).
  exists (match encode CER true 0 modes_ex_cer_ty modes_ex_cer_val with Ok b => b | Err _ => [] end).
  vm_compute. repeat split; try reflexivity; discriminate.
Qed.

(* BIT STRING under CER: 7993 bits do not fit 999 content octets after the initial octet, so there are
   two segments - 03 82 03 E8 00 (999 octets) and 03 02 07 80, the last with 7 unused bits *)
Example roundtrip_cer_bits_nonvacuous :
  let T := TSeqOf TBits in
  let v := VList [VBits (repeat true (N.to_nat 7993))] in
  match encode CER true 0 T v with
  | Ok b => (stage2_ty T && no_f01 T && no_setof T && modes_val CER BER T v && N.leb (N.of_nat (length b)) index_max
             && bytes_eqb (firstn 9 b) [48; 128; 35; 128; 3; 130; 3; 232; 0]
             && bytes_eqb (skipn 1008 b) [3; 2; 7; 128; 0; 0; 0; 0]
             && match decode BER (Some T) (b ++ [1; 2]) with
                | Ok (DV _ v', tl) => aval_eqb (abs T v') (abs T v) && bytes_eqb tl [1; 2]
                | _ => false
                end)%bool
  | Err _ => false
  end = true.
Proof. vm_compute. reflexivity. Qed.

(* SET OF under the CER encoder: the elements come back sorted by their encodings, at both levels;
   equal as multisets, not as lists *)
Definition modes_ex_setof_ty : ty := TSeq [(Req, TSetOf (TSetOf TInt)); (Req, TImp (mkTag Ctx false 3) (TSetOf TOcts))].
Definition modes_ex_setof_val : val :=
  VRec [Some (VList [VList [VInt 5; VInt 1; VInt 3]; VList [VInt 2; VInt 1]]); Some (VList [VOcts [9;9]; VOcts [1]; VOcts []])].
Definition modes_ex_setof_back : val :=
  VRec [Some (VList [VList [VInt 1; VInt 2]; VList [VInt 1; VInt 3; VInt 5]]); Some (VList [VOcts []; VOcts [1]; VOcts [9; 9]])].

Example roundtrip_cer_setof_nonvacuous :
  stage2_ty modes_ex_setof_ty = true /\ no_f01 modes_ex_setof_ty = true
  /\ modes_val CER CER modes_ex_setof_ty modes_ex_setof_val = true
  /\ encode CER true 0 modes_ex_setof_ty modes_ex_setof_val
     = Ok [48; 128; 49; 128; 49; 128; 2; 1; 1; 2; 1; 2; 0; 0; 49; 128; 2; 1;
           1; 2; 1; 3; 2; 1; 5; 0; 0; 0; 0; 163; 128; 4; 0; 4; 1; 1; 4; 2; 9;
           9; 0; 0; 0; 0]
  /\ decode CER (Some modes_ex_setof_ty)
       [48; 128; 49; 128; 49; 128; 2; 1; 1; 2; 1; 2; 0; 0; 49; 128; 2; 1;
        1; 2; 1; 3; 2; 1; 5; 0; 0; 0; 0; 163; 128; 4; 0; 4; 1; 1; 4; 2; 9; 9; 0; 0; 0; 0]
     = Ok (DV modes_ex_setof_ty modes_ex_setof_back, [])
  /\ aval_eqb (abs modes_ex_setof_ty modes_ex_setof_back) (abs modes_ex_setof_ty modes_ex_setof_val) = true
  /\ abs modes_ex_setof_ty modes_ex_setof_back <> abs modes_ex_setof_ty modes_ex_setof_val
  /\ N.of_nat 44 <= index_max.
Proof. vm_compute. repeat split; try reflexivity; discriminate. Qed.

(* the statement with equality of abstract values is false for SET OF under the CER encoder *)
Example roundtrip_cer_setof_eq_refuted :
  ~ (forall T v b, stage2_ty T = true -> no_f01 T = true -> modes_val CER CER T v = true ->
       encode CER true 0 T v = Ok b -> N.of_nat (length b) <= index_max ->
       exists v', decode CER (Some T) (b ++ []) = Ok (DV T v', []) /\ abs T v' = abs T v).
Proof.
  intros H.
  destruct (H modes_ex_setof_ty modes_ex_setof_val _ eq_refl eq_refl eq_refl eq_refl ltac:(vm_compute; discriminate)) as (v' & Hd & Ha).
  vm_compute in Hd. inversion Hd; subst v'. vm_compute in Ha. discriminate Ha.
Qed.

(* finding F01: [1] EXPLICIT INTEGER in indefinite-length mode is a1 03 02 01 05 00 00 - a definite
   length and a trailing end-of-octets - so the decoder returns the value and leaves 00 00 unread *)
Definition f01_witness_ty : ty := TExp (mkTag Ctx false 1) TInt.

Example f01_class_examples :
  f01_class f01_witness_ty = true
  /\ f01_class (TExp (mkTag Ctx false 1) (TImp (mkTag Ctx false 2) TNull)) = true      (* IMPLICIT tags in between *)
  /\ f01_class (TImp (mkTag Ctx false 1) (TExp (mkTag Ctx false 2) TReal)) = true      (* an IMPLICIT tag renaming the EXPLICIT one *)
  /\ f01_class (TExp (mkTag Appl false 1) (TExp (mkTag Ctx false 2) TBool)) = true
  /\ f01_class (TImp (mkTag Ctx false 1) TInt) = false                                  (* no EXPLICIT tag *)
  /\ f01_class (TExp (mkTag Ctx false 1) TBits) = false                                 (* the string types are written correctly *)
  /\ f01_class (TExp (mkTag Ctx false 1) TOcts) = false
  /\ f01_class (TExp (mkTag Ctx false 1) (TSeq [])) = false                             (* and so are the containers *)
  /\ no_f01 (TSeqOf (TSeq [(Req, f01_witness_ty)])) = false.                            (* hereditary *)
Proof. vm_compute. repeat split; reflexivity. Qed.

Example roundtrip_indefinite_f01_refuted :
  stage2_ty f01_witness_ty = true /\ f01_class f01_witness_ty = true
  /\ modes_val BER BER f01_witness_ty (VInt 5) = true
  /\ encode BER false 0 f01_witness_ty (VInt 5) = Ok [161; 3; 2; 1; 5; 0; 0]
  /\ decode BER (Some f01_witness_ty) ([161; 3; 2; 1; 5; 0; 0] ++ []) = Ok (DV f01_witness_ty (VInt 5), [0; 0])
  /\ ~ (exists v', decode BER (Some f01_witness_ty) ([161; 3; 2; 1; 5; 0; 0] ++ []) = Ok (DV f01_witness_ty v', [])).
Proof.
  vm_compute. repeat split; try reflexivity. intros (v' & H). discriminate H.
Qed.

(* each of the six base types of the class, under one EXPLICIT tag: encoding, then what the decoder
   returns and leaves; the string types under the same tag for comparison *)
Definition f01_probe (B: ty) (v: val) : bytes * option (val * bytes) :=
  let T := TExp (mkTag Ctx false 1) B in
  match encode BER false 0 T v with
  | Ok b => (b, match decode BER (Some T) b with Ok (DV _ v', tl) => Some (v', tl) | _ => None end)
  | Err _ => ([], None)
  end.

Example f01_all_six_bases :
  f01_probe TBool (VBool true) = ([161; 3; 1; 1; 1; 0; 0], Some (VBool true, [0; 0]))
  /\ f01_probe TInt (VInt 5) = ([161; 3; 2; 1; 5; 0; 0], Some (VInt 5, [0; 0]))
  /\ f01_probe TEnum (VInt 2) = ([161; 3; 10; 1; 2; 0; 0], Some (VInt 2, [0; 0]))
  /\ f01_probe TNull VNull = ([161; 2; 5; 0; 0; 0], Some (VNull, [0; 0]))
  /\ f01_probe TOid (VOid [1; 2; 3]) = ([161; 4; 6; 2; 42; 3; 0; 0], Some (VOid [1; 2; 3], [0; 0]))
  /\ f01_probe TReal (VReal RPInf) = ([161; 3; 9; 1; 64; 0; 0], Some (VReal RPInf, [0; 0]))
  /\ f01_probe TOcts (VOcts [1]) = ([161; 128; 4; 1; 1; 0; 0], Some (VOcts [1], []))
  /\ f01_probe TBits (VBits [true]) = ([161; 128; 3; 2; 7; 128; 0; 0], Some (VBits [true], [])).
Proof. vm_compute. repeat split; reflexivity. Qed.

(* Round trip under every encoder mode for the whole type universe (C01/C02): the stage-3 universe of
   Proofs/RoundTrip3*.v (simple types, SEQUENCE OF, SET OF, SEQUENCE and SET with mandatory, OPTIONAL and
   DEFAULT components, CHOICE, ANY, IMPLICIT/EXPLICIT tagging, to any depth) under the modes of
   Proofs/RoundTripModes*.v: the BER encoder with any defMode and maxChunkSize (indefinite lengths,
   segmented strings), the CER encoder (indefinite lengths, segments of 1000 octets, SET components and
   SET OF elements sorted) and the DER encoder, read by the BER and the CER decoder.
   Parts (a)-(f) are in RoundTripModes3a.v ... RoundTripModes3f.v. *)
From Coq Require Import Lia Permutation.
From PV Require Import Base.Bytes Model.Tag Model.TableTypes Model.Types Model.Proc Model.Enc Model.Dec Gen.Tables
     Proofs.ProcBind Proofs.RunLemmas Proofs.TagOctets Proofs.TagAlgebra Proofs.DecHeader Proofs.DecFrame Proofs.DecPrim
     Proofs.TagsetShape Proofs.Schemaless Proofs.RoundTrip1 Proofs.RoundTrip2 Proofs.TagReject Proofs.ContainerCodecSort
     Proofs.RoundTripModesA Proofs.RoundTripModesB Proofs.RoundTripModesC Proofs.RoundTripModesBag Proofs.RoundTripModes
     Proofs.RoundTrip3 Proofs.RoundTrip3a Proofs.RoundTrip3b Proofs.RoundTrip3c Proofs.RoundTrip3d Proofs.RoundTrip3e Proofs.RoundTrip3f
     Proofs.RoundTripModes3a Proofs.RoundTripModes3b Proofs.RoundTripModes3c Proofs.RoundTripModes3d Proofs.RoundTripModes3e
     Proofs.RoundTripModes3f.
Local Open Scope N_scope.

(* ---------- the extra condition on values in indefinite-length mode ---------- *)

Definition payload_ok (v: val) : bool := match v with VAny b | VOcts b => any_payload_ok b | _ => false end.

(* the octets of every TAGGED ANY are a sequence of complete TLVs ([any_payload_ok], RoundTripModes3f.v):
   the decoder reads them back TLV by TLV up to the end-of-octets marker *)
Fixpoint anys_ok (T: ty) (v: val) {struct T} : bool :=
  match T with
  | TImp _ x | TExp _ x =>
      match base_of x with
      | TAny => payload_ok v
      | _ => anys_ok x v
      end
  | TSeqOf t | TSetOf t => match v with VList xs => forallb (anys_ok t) xs | _ => true end
  | TSeq fs | TSet fs =>
      match v with
      | VRec vs =>
          (fix go (fs: list (presence * ty)) (vs: list (option val)) : bool :=
             match fs, vs with
             | (p, ft) :: fs', Some x :: vs' => anys_ok ft x && go fs' vs'
             | _ :: fs', None :: vs' => go fs' vs'
             | _, _ => true
             end) fs vs
      | _ => true
      end
  | TChoice alts =>
      match v with
      | VChoice i x =>
          (fix go (l: list ty) (k: nat) : bool :=
             match l, k with
             | a :: _, O => anys_ok a x
             | _ :: r, S k' => go r k'
             | [], _ => true
             end) alts i
      | _ => true
      end
  | _ => true
  end.

Definition anys_fields : list (presence * ty) -> list (option val) -> bool :=
  fix go (fs: list (presence * ty)) (vs: list (option val)) : bool :=
    match fs, vs with
    | (p, ft) :: fs', Some x :: vs' => anys_ok ft x && go fs' vs'
    | _ :: fs', None :: vs' => go fs' vs'
    | _, _ => true
    end.

Lemma anys_ok_rec T fs vs : T = TSeq fs \/ T = TSet fs -> anys_ok T (VRec vs) = anys_fields fs vs.
Proof. intros [-> | ->]; reflexivity. Qed.

Lemma anys_ok_list T t xs : T = TSeqOf t \/ T = TSetOf t -> anys_ok T (VList xs) = forallb (anys_ok t) xs.
Proof. intros [-> | ->]; reflexivity. Qed.

Lemma anys_ok_choice alts i x :
  anys_ok (TChoice alts) (VChoice i x) = match nth_error alts i with Some a => anys_ok a x | None => true end.
Proof.
  cbn [anys_ok]. revert i. induction alts as [|a r IH]; intros [|i]; try reflexivity. cbn [nth_error]. apply IH.
Qed.

Lemma anys_ok_base : forall T v, base_of T <> TAny -> anys_ok T v = anys_ok (base_of T) v.
Proof.
  induction T as [| | | | | | | | n|fs IH|fs IH|t IH|t IH|alts IH| |tg x IH|tg x IH] using ty_ind'; intros v Hb; try reflexivity.
  - cbn [base_of] in *. cbn [anys_ok]. destruct (base_of x) eqn:E; try (apply IH; exact Hb). congruence.
  - cbn [base_of] in *. cbn [anys_ok]. destruct (base_of x) eqn:E; try (apply IH; exact Hb). congruence.
Qed.

Lemma anys_ok_tagged_any : forall T v, base_of T = TAny -> is_wrapped T = true -> anys_ok T v = payload_ok v.
Proof.
  induction T as [| | | | | | | | n|fs IH|fs IH|t IH|t IH|alts IH| |tg x IH|tg x IH] using ty_ind'; intros v Hb Hwr;
    try discriminate Hwr; cbn [base_of] in Hb; cbn [anys_ok]; rewrite Hb; reflexivity.
Qed.

Lemma stage3_val_tagged_any ce cd : forall T v, base_of T = TAny -> is_wrapped T = true ->
  stage3_val ce cd T v = match v with VAny _ | VOcts _ => true | _ => false end.
Proof.
  induction T as [| | | | | | | | n|fs IH|fs IH|t IH|t IH|alts IH| |tg x IH|tg x IH] using ty_ind'; intros v Hb Hwr;
    try discriminate Hwr; cbn [base_of] in Hb; cbn [stage3_val]; rewrite Hb; reflexivity.
Qed.

Lemma comp_vals_anys ce (P: ty -> val -> Prop) (c: Prop) fs vs : comp_vals ce P fs vs -> (c -> anys_fields fs vs = true) ->
  comp_vals ce (fun t x => P t x /\ (c -> anys_ok t x = true)) fs vs.
Proof.
  induction 1 as [|ft x fs vs HPx HCV IH|ft fs vs HCV IH|ft x fs vs HPx Hne HCV IH|dv ft fs vs HCV IH|dv ft x fs vs HPx Hpy HCV IH];
    intros Ha.
  - constructor.
  - constructor; [split; [exact HPx|]|apply IH].
    + intros Hc. specialize (Ha Hc). cbn [anys_fields] in Ha. apply Bool.andb_true_iff in Ha. exact (proj1 Ha).
    + intros Hc. specialize (Ha Hc). cbn [anys_fields] in Ha. apply Bool.andb_true_iff in Ha. exact (proj2 Ha).
  - constructor. apply IH. intros Hc. exact (Ha Hc).
  - constructor; [split; [exact HPx|]|exact Hne|apply IH].
    + intros Hc. specialize (Ha Hc). cbn [anys_fields] in Ha. apply Bool.andb_true_iff in Ha. exact (proj1 Ha).
    + intros Hc. specialize (Ha Hc). cbn [anys_fields] in Ha. apply Bool.andb_true_iff in Ha. exact (proj2 Ha).
  - constructor. apply IH. intros Hc. exact (Ha Hc).
  - constructor; [split; [exact HPx|]|exact Hpy|apply IH].
    + intros Hc. specialize (Ha Hc). cbn [anys_fields] in Ha. apply Bool.andb_true_iff in Ha. exact (proj1 Ha).
    + intros Hc. specialize (Ha Hc). cbn [anys_fields] in Ha. apply Bool.andb_true_iff in Ha. exact (proj2 Ha).
Qed.

(* ---------- the induction over the type ---------- *)

Section Master3.
  Variables ce cd : codec.
  Variable d : bool.
  Variable k : N.
  Hypothesis Hst : stable ce d k.
  Hypothesis Hcd : dec_ok cd.
  Variable R : aval -> aval -> Prop.
  Variable srt : bool.
  Hypothesis HR : rel_ok R srt.

  Notation val_ok_m := (val_ok_m ce cd d k R).
  Notation item_sty_m := (item_sty_m ce cd d k R).

  Definition Pvm (t: ty) (x: val) : Prop := stage3_val ce cd t x = true /\ (d = false -> anys_ok t x = true).

  (* a type that guides the decoder directly: from the invariant, or the untagged ANY *)
  Lemma direct_item_m T' : (T' <> TAny -> forall v, Pvm T' v -> val_ok_m T' v) ->
    direct_ok T' = true -> forall v, Pvm T' v -> item_sty_m T' v.
  Proof.
    intros Hval Hdir v Hv. unfold direct_ok in Hdir. apply Bool.orb_true_iff in Hdir. destruct Hdir as [HK|Hany].
    - apply (item_sty_of_val_m ce cd d k Hcd R); [exact (Hval (keys_not_any T' HK) v Hv)|].
      apply resolves_sty; [exact HK|exact (wire_nonempty ce cd T' v HK (proj1 Hv))].
    - destruct T'; try discriminate Hany. exact (any_item_m ce cd d k Hst Hcd R srt HR v (proj1 Hv)).
  Qed.

  Theorem modes3_val_ok : forall T T', base_of T' = base_of T -> stage3_ty srt ce T' = true ->
    (d = false -> no_f01 T' = true) -> T' <> TAny -> forall v, Pvm T' v -> val_ok_m T' v.
  Proof.
    induction T as [| | | | | | | | n|fs IH|fs IH|t IH|t IH|alts IH| |tg x IH|tg x IH] using ty_ind';
      intros T' Hb Hty Hf01 Hnany v [Hv Ha]; cbn [base_of] in Hb;
      destruct (stage3_ty_base srt ce T' Hty) as [Hw Htb];
      assert (Hf01b: d = false -> no_f01 (base_of T') = true /\ f01_class T' = false)
        by (intros Hd0; exact (no_f01_base T' (Hf01 Hd0)));
      try (assert (Hna: base_of T' <> TAny) by (rewrite Hb; discriminate));
      try (assert (Hp: prim_base T' = true) by (unfold prim_base; rewrite Hb; reflexivity);
           apply (prim_val_m ce cd d k Hst Hcd R srt HR T' v Hp Hw (fun Hd0 => proj2 (Hf01b Hd0)));
           rewrite (stage1_val_base ce cd T' v), Hb;
           rewrite (stage3_val_base ce cd T' v Hna), Hb in Hv; exact Hv).
    - (* SEQUENCE *)
      rewrite Hb in Htb. cbn [stage3_ty] in Htb.
      apply Bool.andb_true_iff in Htb. destruct Htb as [Hfs Hwf].
      rewrite (stage3_val_base ce cd T' v Hna), Hb in Hv. destruct v; try discriminate Hv.
      rewrite (stage3_val_rec ce cd (TSeq fs) fs fs0 (or_introl eq_refl)) in Hv.
      assert (Ha': d = false -> anys_fields fs fs0 = true).
      { intros Hd0. specialize (Ha Hd0). rewrite (anys_ok_base T' _ Hna), Hb in Ha. exact Ha. }
      assert (Hnf: d = false -> forall f, In f fs -> no_f01 (snd f) = true).
      { intros Hd0 f Hin. destruct (Hf01b Hd0) as [H1 _]. rewrite Hb in H1. cbn [no_f01] in H1.
        rewrite forallb_forall in H1. exact (H1 f Hin). }
      rewrite forallb_forall in Hfs.
      apply (record_val_m ce cd d k Hst Hcd R srt HR Pvm T' fs Hb Hw Hwf).
      + apply Forall_forall. intros f Hin. rewrite Forall_forall in IH.
        pose proof (Hfs f Hin) as Hf1. apply Bool.andb_true_iff in Hf1. destruct Hf1 as [Hf1 _].
        apply Bool.andb_true_iff in Hf1. destruct Hf1 as [Hfty Hdir].
        split; [intros Hnr; exact (seq_wf_nonreq_keys fs Hwf f Hin Hnr)|].
        intros x Hx. split.
        * intros HKf. exact (IH f Hin (snd f) eq_refl Hfty (fun Hd0 => Hnf Hd0 f Hin) (keys_not_any _ HKf) x Hx).
        * intros Hreq. rewrite Hreq in Hdir. cbn [negb orb] in Hdir.
          apply (direct_item_m (snd f)); [|exact Hdir|exact Hx].
          intros Hn y Hy. exact (IH f Hin (snd f) eq_refl Hfty (fun Hd0 => Hnf Hd0 f Hin) Hn y Hy).
      + apply comp_vals_anys; [|exact Ha']. apply comp_vals_of_bool; [|exact Hv]. apply forallb_forall. intros f Hin.
        specialize (Hfs f Hin). apply Bool.andb_true_iff in Hfs. exact (proj2 Hfs).
    - (* SET *)
      rewrite Hb in Htb. cbn [stage3_ty] in Htb.
      apply Bool.andb_true_iff in Htb. destruct Htb as [Hfs HK].
      rewrite (stage3_val_base ce cd T' v Hna), Hb in Hv. destruct v; try discriminate Hv.
      rewrite (stage3_val_rec ce cd (TSet fs) fs fs0 (or_intror eq_refl)) in Hv.
      assert (Ha': d = false -> anys_fields fs fs0 = true).
      { intros Hd0. specialize (Ha Hd0). rewrite (anys_ok_base T' _ Hna), Hb in Ha. exact Ha. }
      assert (Hnf: d = false -> forall f, In f fs -> no_f01 (snd f) = true).
      { intros Hd0 f Hin. destruct (Hf01b Hd0) as [H1 _]. rewrite Hb in H1. cbn [no_f01] in H1.
        rewrite forallb_forall in H1. exact (H1 f Hin). }
      rewrite forallb_forall in Hfs.
      apply (set_val_m ce cd d k Hst Hcd R srt HR Pvm T' fs Hb Hw HK).
      + apply Forall_forall. intros f Hin. rewrite Forall_forall in IH.
        pose proof (Hfs f Hin) as Hf1. apply Bool.andb_true_iff in Hf1. destruct Hf1 as [Hfty _].
        assert (HKf: keys_ok (ckeys (snd f)) = true).
        { apply (keys_ok_sub (snd f) (map snd fs)); [apply in_map; exact Hin|exact HK]. }
        split; [intros _; exact HKf|]. intros x Hx.
        pose proof (IH f Hin (snd f) eq_refl Hfty (fun Hd0 => Hnf Hd0 f Hin) (keys_not_any _ HKf) x Hx) as Hval.
        split; [intros _; exact Hval|]. intros _.
        apply (item_sty_of_val_m ce cd d k Hcd R); [exact Hval|].
        apply resolves_sty; [exact HKf|exact (wire_nonempty ce cd (snd f) x HKf (proj1 Hx))].
      + apply comp_vals_anys; [|exact Ha']. apply comp_vals_of_bool; [|exact Hv]. apply forallb_forall. intros f Hin.
        specialize (Hfs f Hin). apply Bool.andb_true_iff in Hfs. exact (proj2 Hfs).
    - (* SEQUENCE OF *)
      rewrite Hb in Htb. cbn [stage3_ty] in Htb.
      apply Bool.andb_true_iff in Htb. destruct Htb as [Hty_t Hdir].
      rewrite (stage3_val_base ce cd T' v Hna), Hb in Hv. destruct v; try discriminate Hv. cbn [stage3_val] in Hv.
      assert (Ha': d = false -> forallb (anys_ok t) xs = true).
      { intros Hd0. specialize (Ha Hd0). rewrite (anys_ok_base T' _ Hna), Hb in Ha. exact Ha. }
      assert (Hnf: d = false -> no_f01 t = true).
      { intros Hd0. destruct (Hf01b Hd0) as [H1 _]. rewrite Hb in H1. exact H1. }
      apply (listof_val_m ce cd d k Hst Hcd R srt HR T' t (or_introl Hb) Hw); [intros E; rewrite Hb in E; discriminate|].
      apply Forall_forall. intros x Hin. rewrite forallb_forall in Hv.
      assert (Hx: Pvm t x).
      { split; [exact (Hv x Hin)|]. intros Hd0. specialize (Ha' Hd0). rewrite forallb_forall in Ha'. exact (Ha' x Hin). }
      apply (direct_item_m t); [|exact Hdir|exact Hx].
      intros Hn y Hy. exact (IH t eq_refl Hty_t Hnf Hn y Hy).
    - (* SET OF *)
      rewrite Hb in Htb. cbn [stage3_ty] in Htb.
      apply Bool.andb_true_iff in Htb. destruct Htb as [Htb Hsrt].
      apply Bool.andb_true_iff in Htb. destruct Htb as [Hty_t Hdir].
      rewrite (stage3_val_base ce cd T' v Hna), Hb in Hv. destruct v; try discriminate Hv. cbn [stage3_val] in Hv.
      assert (Ha': d = false -> forallb (anys_ok t) xs = true).
      { intros Hd0. specialize (Ha Hd0). rewrite (anys_ok_base T' _ Hna), Hb in Ha. exact Ha. }
      assert (Hnf: d = false -> no_f01 t = true).
      { intros Hd0. destruct (Hf01b Hd0) as [H1 _]. rewrite Hb in H1. exact H1. }
      apply (listof_val_m ce cd d k Hst Hcd R srt HR T' t (or_intror Hb) Hw).
      { intros _ Hs. rewrite Hs in Hsrt. cbn [negb] in Hsrt. rewrite Bool.orb_false_r in Hsrt. exact Hsrt. }
      apply Forall_forall. intros x Hin. rewrite forallb_forall in Hv.
      assert (Hx: Pvm t x).
      { split; [exact (Hv x Hin)|]. intros Hd0. specialize (Ha' Hd0). rewrite forallb_forall in Ha'. exact (Ha' x Hin). }
      apply (direct_item_m t); [|exact Hdir|exact Hx].
      intros Hn y Hy. exact (IH t eq_refl Hty_t Hnf Hn y Hy).
    - (* CHOICE *)
      rewrite Hb in Htb. cbn [stage3_ty] in Htb.
      apply Bool.andb_true_iff in Htb. destruct Htb as [Halts HK].
      rewrite (stage3_val_base ce cd T' v Hna), Hb in Hv. destruct v as [bb|z|bs|bo|cs| |arcs|r|vfs|xs|i x|ab]; try discriminate Hv.
      rewrite stage3_val_choice in Hv. destruct (nth_error alts i) as [a|] eqn:En; [|discriminate Hv].
      assert (Ha': d = false -> anys_ok a x = true).
      { intros Hd0. specialize (Ha Hd0). rewrite (anys_ok_base T' _ Hna), Hb, anys_ok_choice, En in Ha. exact Ha. }
      assert (Hnf: d = false -> forall a0, In a0 alts -> no_f01 a0 = true).
      { intros Hd0 a0 Hin. destruct (Hf01b Hd0) as [H1 _]. rewrite Hb in H1. cbn [no_f01] in H1.
        rewrite forallb_forall in H1. exact (H1 a0 Hin). }
      rewrite forallb_forall in Halts.
      assert (IHa: Forall (fun a => forall x, Pvm a x -> val_ok_m a x) alts).
      { apply Forall_forall. intros a0 Hin y Hy. rewrite Forall_forall in IH.
        exact (IH a0 Hin a0 eq_refl (Halts a0 Hin) (fun Hd0 => Hnf Hd0 a0 Hin) (keys_not_any _ (keys_ok_sub a0 alts Hin HK)) y Hy). }
      destruct (is_wrapped T') eqn:Hwr.
      + exact (choice_val_tagged_m ce cd d k Hst Hcd R srt HR Pvm srt T' alts Hb Hwr Hty HK IHa i x a En (conj Hv Ha')).
      + rewrite (unwrapped_base T' Hwr) in Hb. subst T'.
        exact (choice_val_untagged_m ce cd d k Hst Hcd R srt HR Pvm alts HK IHa i x a En (conj Hv Ha')).
    - (* ANY: tagged *)
      assert (Hwr: is_wrapped T' = true).
      { destruct T'; try reflexivity; try discriminate Hb. congruence. }
      rewrite (stage3_val_tagged_any ce cd T' v Hb Hwr) in Hv.
      destruct (any_octets v Hv) as (bs & Hoct & Habs).
      apply (any_val_tagged_m ce cd d k Hst Hcd R srt HR srt T' Hb Hwr Hty v bs Hoct Habs).
      intros Hd0. specialize (Ha Hd0). rewrite (anys_ok_tagged_any T' v Hb Hwr) in Ha.
      destruct v; try discriminate Hv; cbn [octets_of] in Hoct; inversion Hoct; subst; exact Ha.
    - exact (IH T' Hb Hty Hf01 Hnany v (conj Hv Ha)).
    - exact (IH T' Hb Hty Hf01 Hnany v (conj Hv Ha)).
  Qed.

  Theorem modes3_decode : forall T v b tl,
    stage3_ty srt ce T = true -> (d = false -> no_f01 T = true) ->
    stage3_val ce cd T v = true -> (d = false -> anys_ok T v = true) ->
    encode ce d k T v = Ok b -> N.of_nat (length b) <= index_max ->
    exists v', decode cd (Some T) (b ++ tl) = Ok (DV T v', tl) /\ R (abs T v') (abs T v).
  Proof.
    intros T v b tl Hty Hf Hv Ha He Hmax.
    assert (Hdir: direct_ok T = true).
    { unfold direct_ok. destruct T; try (rewrite (top_keys ce srt); [reflexivity|exact Hty|discriminate]). apply Bool.orb_true_r. }
    pose proof (direct_item_m T (fun Hn y Hy => modes3_val_ok T T eq_refl Hty Hf Hn y Hy) Hdir v (conj Hv Ha)) as Hit.
    destruct (Hit b He Hmax) as (v' & HRv & _ & _ & Hc).
    exists v'. split; [|exact HRv]. unfold decode.
    assert (Hfu: fuel_ok T b (dec_fuel (Some T) (b ++ tl))).
    { unfold fuel_ok, dec_fuel. rewrite app_length. lia. }
    pose proof (consumes_decode_with cd _ (Some T) b tl (DV T v') (Hc _ false Hfu)) as Hdw.
    unfold decode_with in Hdw. exact Hdw.
  Qed.
End Master3.

(* ---------- the theorems ---------- *)

(* Round trip under every encoder mode, for the whole type universe.
   [stable ce d k]: the options reach the encoder (any for BER; CER fixes defMode=False, maxChunkSize=1000; DER
   fixes defMode=True, maxChunkSize=0 - see the corollaries for arbitrary caller options).
   [stage3_ty false ce]: the well-formedness the decoder needs (RoundTrip3b.v); SET OF only under the BER encoder
   here, the CER/DER encoders sort its elements (see [roundtrip_modes3_bag]).
   [no_f01]: finding F01, hereditarily, where lengths are indefinite.
   [stage3_val ce cd]: as in definite mode; includes that a present OPTIONAL component is not emptied by the
   CER/DER encoder (finding F24, stated through [fix_opts] for the options CER/DER really use).
   [anys_ok]: where lengths are indefinite, the octets of a TAGGED ANY are a sequence of TLVs. *)
Theorem roundtrip_modes3 : forall ce cd d k T v b tl,
  stable ce d k -> dec_ok cd ->
  stage3_ty false ce T = true -> (d = false -> no_f01 T = true) ->
  stage3_val ce cd T v = true -> (d = false -> anys_ok T v = true) ->
  encode ce d k T v = Ok b -> N.of_nat (length b) <= index_max ->
  exists v', decode cd (Some T) (b ++ tl) = Ok (DV T v', tl) /\ abs T v' = abs T v.
Proof.
  intros ce cd d k T v b tl Hst Hcd Hty Hf Hv Ha He Hmax.
  exact (modes3_decode ce cd d k Hst Hcd eq false rel_ok_eq T v b tl Hty Hf Hv Ha He Hmax).
Qed.

(* with SET OF under the sorting encoders: abstract contents equal up to the order of SET OF elements, at any depth *)
Theorem roundtrip_modes3_bag : forall ce cd d k T v b tl,
  stable ce d k -> dec_ok cd ->
  stage3_ty true ce T = true -> (d = false -> no_f01 T = true) ->
  stage3_val ce cd T v = true -> (d = false -> anys_ok T v = true) ->
  encode ce d k T v = Ok b -> N.of_nat (length b) <= index_max ->
  exists v', decode cd (Some T) (b ++ tl) = Ok (DV T v', tl) /\ aeq (abs T v') (abs T v).
Proof.
  intros ce cd d k T v b tl Hst Hcd Hty Hf Hv Ha He Hmax.
  exact (modes3_decode ce cd d k Hst Hcd aeq true rel_ok_aeq T v b tl Hty Hf Hv Ha He Hmax).
Qed.

(* the same with the model's own comparison (SET OF contents as multisets) *)
Theorem roundtrip_modes3_eqb : forall ce cd d k T v b tl,
  stable ce d k -> dec_ok cd ->
  stage3_ty true ce T = true -> (d = false -> no_f01 T = true) ->
  stage3_val ce cd T v = true -> (d = false -> anys_ok T v = true) -> agoodb (abs T v) = true ->
  encode ce d k T v = Ok b -> N.of_nat (length b) <= index_max ->
  exists v', decode cd (Some T) (b ++ tl) = Ok (DV T v', tl) /\ aval_eqb (abs T v) (abs T v') = true.
Proof.
  intros ce cd d k T v b tl Hst Hcd Hty Hf Hv Ha Hg He Hmax.
  destruct (roundtrip_modes3_bag ce cd d k T v b tl Hst Hcd Hty Hf Hv Ha He Hmax) as (v' & Hd & Hq).
  exists v'. split; [exact Hd|]. apply (proj2 (aval_eqb_aeq (abs T v)) Hg). apply aeq_sym. exact Hq.
Qed.

(* (1) indefinite-length mode of the BER encoder, any maxChunkSize *)
Theorem roundtrip_indefinite_stage3 : forall cd chunk T v b tl,
  dec_ok cd -> stage3_ty false BER T = true -> no_f01 T = true ->
  stage3_val BER cd T v = true -> anys_ok T v = true ->
  encode BER false chunk T v = Ok b -> N.of_nat (length b) <= index_max ->
  exists v', decode cd (Some T) (b ++ tl) = Ok (DV T v', tl) /\ abs T v' = abs T v.
Proof.
  intros cd chunk T v b tl Hcd Hty Hf Hv Ha He Hmax.
  exact (roundtrip_modes3 BER cd false chunk T v b tl (stable_ber false chunk) Hcd Hty (fun _ => Hf) Hv (fun _ => Ha) He Hmax).
Qed.

(* (2) segmented mode of the BER encoder, definite lengths, any maxChunkSize *)
Theorem roundtrip_segmented_stage3 : forall cd chunk T v b tl,
  dec_ok cd -> stage3_ty false BER T = true -> stage3_val BER cd T v = true ->
  encode BER true chunk T v = Ok b -> N.of_nat (length b) <= index_max ->
  exists v', decode cd (Some T) (b ++ tl) = Ok (DV T v', tl) /\ abs T v' = abs T v.
Proof.
  intros cd chunk T v b tl Hcd Hty Hv He Hmax.
  apply (roundtrip_modes3 BER cd true chunk T v b tl (stable_ber true chunk) Hcd Hty); try assumption; intros E; discriminate E.
Qed.

(* (3) the CER encoder, whatever options the caller passes; decoders CER and BER; no SET OF (sorted: see below) *)
Theorem roundtrip_cer_encoder_stage3 : forall cd d k T v b tl,
  dec_ok cd -> stage3_ty false CER T = true -> no_f01 T = true ->
  stage3_val CER cd T v = true -> anys_ok T v = true ->
  encode CER d k T v = Ok b -> N.of_nat (length b) <= index_max ->
  exists v', decode cd (Some T) (b ++ tl) = Ok (DV T v', tl) /\ abs T v' = abs T v.
Proof.
  intros cd d k T v b tl Hcd Hty Hf Hv Ha He Hmax. rewrite encode_cer_fixed in He.
  exact (roundtrip_modes3 CER cd false 1000 T v b tl stable_cer Hcd Hty (fun _ => Hf) Hv (fun _ => Ha) He Hmax).
Qed.

(* (3') the CER encoder with SET OF: equal up to the order of SET OF elements; with the model's comparison *)
Theorem roundtrip_cer_encoder_stage3_setof : forall cd d k T v b tl,
  dec_ok cd -> stage3_ty true CER T = true -> no_f01 T = true ->
  stage3_val CER cd T v = true -> anys_ok T v = true ->
  encode CER d k T v = Ok b -> N.of_nat (length b) <= index_max ->
  exists v', decode cd (Some T) (b ++ tl) = Ok (DV T v', tl) /\ aeq (abs T v') (abs T v)
             /\ (agoodb (abs T v) = true -> aval_eqb (abs T v) (abs T v') = true).
Proof.
  intros cd d k T v b tl Hcd Hty Hf Hv Ha He Hmax. rewrite encode_cer_fixed in He.
  destruct (roundtrip_modes3_bag CER cd false 1000 T v b tl stable_cer Hcd Hty (fun _ => Hf) Hv (fun _ => Ha) He Hmax) as (v' & Hd & Hq).
  exists v'. split; [exact Hd|]. split; [exact Hq|].
  intros Hg. apply (proj2 (aval_eqb_aeq (abs T v)) Hg). apply aeq_sym. exact Hq.
Qed.

(* the DER encoder, whatever options the caller passes, read by the BER or the CER decoder *)
Theorem roundtrip_der_encoder_stage3 : forall cd d k T v b tl,
  dec_ok cd -> stage3_ty true DER T = true -> stage3_val DER cd T v = true ->
  encode DER d k T v = Ok b -> N.of_nat (length b) <= index_max ->
  exists v', decode cd (Some T) (b ++ tl) = Ok (DV T v', tl) /\ aeq (abs T v') (abs T v).
Proof.
  intros cd d k T v b tl Hcd Hty Hv He Hmax. rewrite encode_der_fixed in He.
  apply (roundtrip_modes3_bag DER cd true 0 T v b tl stable_der Hcd Hty); try assumption; intros E; discriminate E.
Qed.

Print Assumptions roundtrip_modes3.
Print Assumptions roundtrip_modes3_bag.
Print Assumptions roundtrip_modes3_eqb.
Print Assumptions roundtrip_indefinite_stage3.
Print Assumptions roundtrip_segmented_stage3.
Print Assumptions roundtrip_cer_encoder_stage3.
Print Assumptions roundtrip_cer_encoder_stage3_setof.
Print Assumptions roundtrip_der_encoder_stage3.

(* ---------- the hypotheses are satisfiable ---------- *)

(* [APPLICATION 9] EXPLICIT SEQUENCE { ANY, [0] EXPLICIT ANY OPTIONAL, INTEGER OPTIONAL, BOOLEAN DEFAULT FALSE,
     SET { [1] IMPLICIT [2] EXPLICIT ANY OPTIONAL, BOOLEAN DEFAULT FALSE, CHOICE { INTEGER, [3] EXPLICIT SEQUENCE OF ANY },
           OCTET STRING OPTIONAL },
     [7] EXPLICIT CHOICE { NULL, [5] IMPLICIT OCTET STRING } OPTIONAL, SET OF ANY, UTF8String OPTIONAL } *)
Definition modes3_example_ty : ty :=
  TExp (mkTag Appl false 9)
   (TSeq [ (Req, TAny);
           (Opt, TExp (mkTag Ctx false 0) TAny);
           (Opt, TInt);
           (Def (VBool false), TBool);
           (Req, TSet [ (Opt, TImp (mkTag Ctx false 1) (TExp (mkTag Ctx false 2) TAny));
                        (Def (VBool false), TBool);
                        (Req, TChoice [TInt; TExp (mkTag Ctx false 3) (TSeqOf TAny)]);
                        (Opt, TOcts) ]);
           (Opt, TExp (mkTag Ctx false 7) (TChoice [TNull; TImp (mkTag Ctx false 5) TOcts]));
           (Req, TSetOf TAny);
           (Opt, TStr 12) ]).
(* untagged ANY = one TLV; tagged ANY = two TLVs; an OPTIONAL absent in the middle of a run; both DEFAULTs overridden;
   the CHOICE under the EXPLICIT tag present *)
Definition modes3_example_val : val :=
  VRec [ Some (VAny [4; 2; 7; 8]);
         Some (VAny [2; 1; 5; 5; 0]);
         None;
         Some (VBool true);
         Some (VRec [ Some (VOcts [4; 1; 9]); Some (VBool true); Some (VChoice 1 (VList [VAny [5; 0]; VAny [160; 3; 2; 1; 5]]));
                      Some (VOcts [1; 2; 3; 4; 5]) ]);
         Some (VChoice 1 (VOcts [9; 8; 7]));
         Some (VList [VAny [2; 1; 9]; VAny [1; 1; 0]]);
         Some (VOcts [104; 105; 106]) ].

(* BER encoder, indefinite lengths, maxChunkSize = 2 (the three strings are segmented), BER decoder *)
Example roundtrip_indefinite_stage3_nonvacuous :
  stage3_ty false BER modes3_example_ty = true /\ no_f01 modes3_example_ty = true
  /\ stage3_val BER BER modes3_example_ty modes3_example_val = true /\ anys_ok modes3_example_ty modes3_example_val = true
  /\ encode BER false 2 modes3_example_ty modes3_example_val
     = Ok [105; 128; 48; 128; 4; 2; 7; 8; 160; 128; 2; 1; 5; 5; 0; 0; 0; 1; 1;
           1; 49; 128; 161; 128; 4; 1; 9; 0; 0; 1; 1; 1; 163; 128; 48; 128; 5;
           0; 160; 3; 2; 1; 5; 0; 0; 0; 0; 36; 128; 4; 2; 1; 2; 4; 2; 3; 4; 4;
           1; 5; 0; 0; 0; 0; 167; 128; 165; 128; 4; 2; 9; 8; 4; 1; 7; 0; 0; 0;
           0; 49; 128; 2; 1; 9; 1; 1; 0; 0; 0; 44; 128; 4; 2; 104; 105; 4; 1;
           106; 0; 0; 0; 0; 0; 0]
  /\ N.of_nat 104 <= index_max
  /\ (* segmented, definite lengths *)
     encode BER true 2 modes3_example_ty modes3_example_val
     = Ok [105; 78; 48; 76; 4; 2; 7; 8; 160; 5; 2; 1; 5; 5; 0; 1; 1; 1; 49;
           32; 161; 3; 4; 1; 9; 1; 1; 1; 163; 9; 48; 7; 5; 0; 160; 3; 2; 1; 5;
           36; 11; 4; 2; 1; 2; 4; 2; 3; 4; 4; 1; 5; 167; 9; 165; 7; 4; 2; 9;
           8; 4; 1; 7; 49; 6; 2; 1; 9; 1; 1; 0; 44; 7; 4; 2; 104; 105; 4; 1;
           106].
Proof. vm_compute. repeat split; try reflexivity; discriminate. Qed.

(* the CER encoder (BOOLEAN TRUE as FF; SET components sorted: BOOLEAN, the CHOICE - counted for INTEGER, its smallest
   alternative, though [3] is on the wire -, OCTET STRING, [1]; SET OF elements sorted), CER and BER decoders *)
Example roundtrip_cer_encoder_stage3_nonvacuous :
  stage3_ty true CER modes3_example_ty = true /\ no_f01 modes3_example_ty = true
  /\ stage3_val CER CER modes3_example_ty modes3_example_val = true
  /\ stage3_val CER BER modes3_example_ty modes3_example_val = true
  /\ anys_ok modes3_example_ty modes3_example_val = true
  /\ agoodb (abs modes3_example_ty modes3_example_val) = true
  /\ encode CER true 0 modes3_example_ty modes3_example_val
     = Ok [105; 128; 48; 128; 4; 2; 7; 8; 160; 128; 2; 1; 5; 5; 0; 0; 0; 1; 1;
           255; 49; 128; 1; 1; 255; 163; 128; 48; 128; 5; 0; 160; 3; 2; 1; 5;
           0; 0; 0; 0; 4; 5; 1; 2; 3; 4; 5; 161; 128; 4; 1; 9; 0; 0; 0; 0;
           167; 128; 133; 3; 9; 8; 7; 0; 0; 49; 128; 1; 1; 0; 2; 1; 9; 0; 0;
           12; 3; 104; 105; 106; 0; 0; 0; 0]
  /\ N.of_nat 84 <= index_max.
Proof. vm_compute. repeat split; try reflexivity; discriminate. Qed.

(* the same without the SET OF, for the statements with equality of abstract contents under CER *)
Definition modes3_example_cer_ty : ty :=
  TSeq [ (Opt, TExp (mkTag Ctx false 0) TAny);
         (Def (VInt 7), TInt);
         (Req, TSet [ (Opt, TBits); (Req, TChoice [TNull; TExp (mkTag Ctx false 3) (TSeqOf TAny)]); (Def (VOcts [1]), TOcts) ]);
         (Opt, TExp (mkTag Priv false 77) (TChoice [TBool; TImp (mkTag Ctx false 5) (TStr 22)])) ].
Definition modes3_example_cer_val : val :=
  VRec [ Some (VAny [48; 3; 2; 1; 1]); Some (VInt 7);
         Some (VRec [ None; Some (VChoice 1 (VList [VAny [5; 0]])); Some (VOcts [2]) ]);
         Some (VChoice 0 (VBool true)) ].

Example roundtrip_cer_encoder_stage3_eq_nonvacuous :
  stage3_ty false CER modes3_example_cer_ty = true /\ no_f01 modes3_example_cer_ty = true
  /\ stage3_val CER CER modes3_example_cer_ty modes3_example_cer_val = true
  /\ stage3_val CER BER modes3_example_cer_ty modes3_example_cer_val = true
  /\ anys_ok modes3_example_cer_ty modes3_example_cer_val = true
  /\ match encode CER false 5 modes3_example_cer_ty modes3_example_cer_val with
     | Ok b => N.leb (N.of_nat (length b)) index_max && Nat.ltb 20 (length b)
     | Err _ => false end = true.
Proof. vm_compute. repeat split; reflexivity. Qed.

(* ---------- what the conditions exclude is false of the model ---------- *)

Definition rt_probe (ce cd: codec) (d: bool) (k: N) (T: ty) (v: val) : res bytes * res (dval * bytes) :=
  match encode ce d k T v with Ok b => (Ok b, decode cd (Some T) b) | Err e => (Err e, Err e) end.

(* (1) [anys_ok]: a tagged ANY whose octets are not a sequence of TLVs.  With definite lengths any octets come back;
   with indefinite lengths the decoder reads them as TLVs up to an end-of-octets marker:
   FF FF FF is no TLV (the decoder runs off the end); 00 00 is taken for the marker and the real one is left unread;
   05 00 00 00 02 01 01 is cut at the embedded 00 00 *)
Example tagged_any_indefinite_needs_tlvs :
  let T := TExp (mkTag Ctx false 0) TAny in
  stage3_ty false BER T = true /\ no_f01 T = true /\ stage3_val BER BER T (VAny [255; 255; 255]) = true
  /\ anys_ok T (VAny [255; 255; 255]) = false
  /\ rt_probe BER BER true 0 T (VAny [255; 255; 255]) = (Ok [160; 3; 255; 255; 255], Ok (DV T (VAny [255; 255; 255]), []))
  /\ rt_probe BER BER false 0 T (VAny [255; 255; 255]) = (Ok [160; 128; 255; 255; 255; 0; 0], Err EEndOfStream)
  /\ anys_ok T (VAny [0; 0]) = false
  /\ rt_probe BER BER false 0 T (VAny [0; 0]) = (Ok [160; 128; 0; 0; 0; 0], Ok (DV T (VAny []), [0; 0]))
  /\ anys_ok T (VAny [5; 0; 0; 0; 2; 1; 1]) = false
  /\ rt_probe BER BER false 0 T (VAny [5; 0; 0; 0; 2; 1; 1])
     = (Ok [160; 128; 5; 0; 0; 0; 2; 1; 1; 0; 0], Ok (DV T (VAny [5; 0]), [2; 1; 1; 0; 0]))
  /\ (* no octets at all are a (void) sequence of TLVs *)
     anys_ok T (VAny []) = true
  /\ rt_probe BER BER false 0 T (VAny []) = (Ok [160; 128; 0; 0], Ok (DV T (VAny []), [])).
Proof. vm_compute. repeat split; reflexivity. Qed.

(* (2) [no_f01] inside an indefinite-length SEQUENCE with OPTIONAL components: the stray 00 00 that finding F01 puts
   after [0] EXPLICIT INTEGER is taken for the end of the SEQUENCE - the second component is silently lost (reported
   absent) and the rest of the encoding is left unread; with a mandatory component after it the input is refused *)
Example f01_truncates_indefinite_sequence :
  let T := TSeq [(Opt, TExp (mkTag Ctx false 0) TInt); (Opt, TExp (mkTag Ctx false 1) TInt)] in
  let v := VRec [Some (VInt 5); Some (VInt 6)] in
  stage3_ty false BER T = true /\ stage3_val BER BER T v = true /\ no_f01 T = false
  /\ rt_probe BER BER false 0 T v
     = (Ok [48; 128; 160; 3; 2; 1; 5; 0; 0; 161; 3; 2; 1; 6; 0; 0; 0; 0],
        Ok (DV T (VRec [Some (VInt 5); None]), [161; 3; 2; 1; 6; 0; 0; 0; 0]))
  /\ rt_probe BER BER false 0 (TSeq [(Opt, TExp (mkTag Ctx false 0) TInt); (Req, TNull)]) (VRec [Some (VInt 5); Some VNull])
     = (Ok [48; 128; 160; 3; 2; 1; 5; 0; 0; 5; 0; 0; 0], Err EMalformed).
Proof. vm_compute. repeat split; reflexivity. Qed.

(* (3) finding F24 under the CER encoder: a present but empty OPTIONAL SEQUENCE OF is dropped, the decoder reports the
   component absent; [stage3_val CER] excludes it (the non-emptiness condition is evaluated with the options the CER
   encoder really uses); the BER encoder in indefinite-length mode keeps the component *)
Example f24_under_cer :
  stage3_ty false CER f24_ty = true /\ no_f01 f24_ty = true /\ stage3_val CER CER f24_ty f24_val = false
  /\ rt_probe CER CER false 1000 f24_ty f24_val = (Ok [48; 128; 5; 0; 0; 0], Ok (DV f24_ty (VRec [None; Some VNull]), []))
  /\ abs f24_ty (VRec [None; Some VNull]) <> abs f24_ty f24_val
  /\ stage3_val BER BER f24_ty f24_val = true
  /\ rt_probe BER BER false 0 f24_ty f24_val = (Ok [48; 128; 48; 128; 0; 0; 5; 0; 0; 0], Ok (DV f24_ty f24_val, [])).
Proof. vm_compute. repeat split; try reflexivity; discriminate. Qed.

(* (4) the untagged ANY must not hold the end-of-octets marker itself: refused in every mode *)
Example any_holding_eoo_refused :
  let T := TSeq [(Req, TAny); (Req, TNull)] in
  let v := VRec [Some (VAny [0; 0]); Some VNull] in
  stage3_val BER BER T v = false
  /\ rt_probe BER BER false 0 T v = (Ok [48; 128; 0; 0; 5; 0; 0; 0], Err EMalformed)
  /\ rt_probe BER BER true 0 T v = (Ok [48; 4; 0; 0; 5; 0], Err EMalformed).
Proof. vm_compute. repeat split; reflexivity. Qed.

(* the non-emptiness condition of [stage3_val] on a present OPTIONAL component, spelt out for the CER encoder: it is
   evaluated with the options that encoder really uses (defMode=False, maxChunkSize=1000, ifNotEmpty=True) *)
Lemma nonempty_enc_cer_options T v :
  nonempty_enc CER T v = match enc_with CER (enc_content CER) T (mkOpts false 1000 true) v with Ok [] => false | _ => true end.
Proof. reflexivity. Qed.

(* C04: the canonical orderings of the CER/DER encoder model (Model/Enc.v) do not depend on the
   order in which the members were supplied.  Generic fact about its stable insertion sort, then
   the two instances: SET OF (zero-padded octet comparison) and SET (tag comparison). *)
From Coq Require Import Lia Sorting.Permutation Sorting.Sorted.
From PV Require Import Model.Enc Proofs.ContainerCodecDefs.
Local Open Scope nat_scope.

Section SortPerm.
  Context {A K: Type} (ltb: K -> K -> bool) (key: A -> K).
  Hypothesis ltb_irrefl: forall k, ltb k k = false.
  Hypothesis ltb_trans: forall a b c, ltb a b = true -> ltb b c = true -> ltb a c = true.
  (* keys that are not ordered either way behave alike (a strict weak order) *)
  Hypothesis ltb_negtrans: forall a b c, ltb a c = true -> ltb a b = true \/ ltb b c = true.

  Definition le_key (x y: A) : Prop := ltb (key y) (key x) = false.
  (* members with incomparable keys are the same member *)
  Definition ties_identical (l: list A) : Prop :=
    forall x y, In x l -> In y l -> le_key x y -> le_key y x -> x = y.

  Lemma ltb_asym a b : ltb a b = true -> ltb b a = false.
  Proof.
    intros H. destruct (ltb b a) eqn:E; [|reflexivity].
    pose proof (ltb_trans _ _ _ H E) as C. rewrite ltb_irrefl in C. discriminate.
  Qed.

  Lemma insert_by_in x y l : In y (Enc.insert_by ltb key x l) <-> y = x \/ In y l.
  Proof.
    induction l as [|z l IH]; cbn [Enc.insert_by].
    - cbn. intuition.
    - destruct (ltb (key z) (key x)); cbn [In]; [rewrite IH|]; intuition.
  Qed.

  Lemma insert_by_perm x l : Permutation (x :: l) (Enc.insert_by ltb key x l).
  Proof.
    induction l as [|z l IH]; cbn [Enc.insert_by]; [apply Permutation_refl|].
    destruct (ltb (key z) (key x)); [|apply Permutation_refl].
    eapply perm_trans; [apply perm_swap|]. apply perm_skip. exact IH.
  Qed.

  Lemma sort_by_perm_self l : Permutation l (Enc.sort_by ltb key l).
  Proof.
    induction l as [|x l IH]; [apply perm_nil|].
    change (Enc.sort_by ltb key (x :: l)) with (Enc.insert_by ltb key x (Enc.sort_by ltb key l)).
    eapply perm_trans; [apply perm_skip; exact IH|]. apply insert_by_perm.
  Qed.

  Lemma insert_by_sorted x l : StronglySorted le_key l -> StronglySorted le_key (Enc.insert_by ltb key x l).
  Proof.
    induction 1 as [|z l Hs IH Hz]; cbn [Enc.insert_by].
    - constructor; constructor.
    - destruct (ltb (key z) (key x)) eqn:E.
      + constructor; [exact IH|]. rewrite Forall_forall in *. intros w Hw.
        apply insert_by_in in Hw as [->|Hw]; [unfold le_key; apply ltb_asym; exact E|apply Hz; exact Hw].
      + constructor; [constructor; assumption|]. constructor; [exact E|].
        rewrite Forall_forall in *. intros w Hw. specialize (Hz w Hw). unfold le_key in *.
        destruct (ltb (key w) (key x)) eqn:E2; [|reflexivity].
        destruct (ltb_negtrans _ (key z) _ E2) as [C|C]; congruence.
  Qed.

  Lemma sort_by_sorted l : StronglySorted le_key (Enc.sort_by ltb key l).
  Proof.
    induction l as [|x l IH]; [constructor|].
    change (Enc.sort_by ltb key (x :: l)) with (Enc.insert_by ltb key x (Enc.sort_by ltb key l)).
    apply insert_by_sorted. exact IH.
  Qed.

  Lemma sorted_perm_unique : forall l1 l2, StronglySorted le_key l1 -> StronglySorted le_key l2 ->
    Permutation l1 l2 -> ties_identical l1 -> l1 = l2.
  Proof.
    induction l1 as [|a l1 IH]; intros l2 H1 H2 Hp Ht.
    - apply Permutation_nil in Hp. auto.
    - destruct l2 as [|b l2]; [apply Permutation_sym, Permutation_nil in Hp; discriminate|].
      inversion H1 as [|? ? Hs1 Hf1]; subst. inversion H2 as [|? ? Hs2 Hf2]; subst.
      assert (Hab: a = b).
      { assert (Ina: In a (b :: l2)) by (eapply Permutation_in; [exact Hp|left; reflexivity]).
        assert (Inb: In b (a :: l1)) by (eapply Permutation_in; [apply Permutation_sym; exact Hp|left; reflexivity]).
        destruct Ina as [E|Ina]; [auto|]. destruct Inb as [E|Inb]; [auto|].
        rewrite Forall_forall in Hf1, Hf2.
        apply Ht; [left; reflexivity|right; exact Inb|apply Hf1; exact Inb|apply Hf2; exact Ina]. }
      subst b. f_equal. apply IH; auto.
      + eapply Permutation_cons_inv. exact Hp.
      + intros x y Hx Hy. apply Ht; right; assumption.
  Qed.

  Theorem sort_by_perm l1 l2 : Permutation l1 l2 -> ties_identical l1 ->
    Enc.sort_by ltb key l1 = Enc.sort_by ltb key l2.
  Proof.
    intros Hp Ht. apply sorted_perm_unique; try apply sort_by_sorted.
    - eapply perm_trans; [apply Permutation_sym, sort_by_perm_self|].
      eapply perm_trans; [exact Hp|apply sort_by_perm_self].
    - intros x y Hx Hy. apply Ht; eapply Permutation_in; try apply Permutation_sym, sort_by_perm_self; assumption.
  Qed.
End SortPerm.

(* ---------- SET OF: zero-padded octet strings ---------- *)

Lemma bytes_ltb_irrefl : forall a, bytes_ltb a a = false.
Proof. induction a as [|x a IH]; cbn; auto. rewrite N.ltb_irrefl, N.eqb_refl, IH. reflexivity. Qed.

Lemma bytes_ltb_trans : forall a b c, bytes_ltb a b = true -> bytes_ltb b c = true -> bytes_ltb a c = true.
Proof.
  induction a as [|x a IH]; intros [|y b] [|z c]; cbn; try discriminate; auto.
  intros H1 H2. apply orb_prop in H1. apply orb_prop in H2. apply orb_true_iff.
  destruct H1 as [H1|H1], H2 as [H2|H2].
  - left. apply N.ltb_lt in H1, H2. apply N.ltb_lt. lia.
  - apply andb_prop in H2 as [E2 H2]. apply N.eqb_eq in E2. subst. left. exact H1.
  - apply andb_prop in H1 as [E1 H1]. apply N.eqb_eq in E1. subst. left. exact H2.
  - apply andb_prop in H1 as [E1 H1]. apply andb_prop in H2 as [E2 H2].
    apply N.eqb_eq in E1. apply N.eqb_eq in E2. subst. right. rewrite N.eqb_refl. cbn. eapply IH; eauto.
Qed.

Lemma bytes_ltb_tricho : forall a b, bytes_ltb a b = false -> bytes_ltb b a = false -> a = b.
Proof.
  induction a as [|x a IH]; intros [|y b]; cbn; try discriminate; auto.
  intros H1 H2. apply orb_false_iff in H1 as [L1 H1]. apply orb_false_iff in H2 as [L2 H2].
  apply N.ltb_ge in L1. apply N.ltb_ge in L2. assert (x = y) by lia. subst y.
  rewrite N.eqb_refl in H1, H2. cbn in H1, H2. f_equal. apply IH; auto.
Qed.

Lemma bytes_ltb_negtrans a b c : bytes_ltb a c = true -> bytes_ltb a b = true \/ bytes_ltb b c = true.
Proof.
  intros H. destruct (bytes_ltb a b) eqn:E1; [left; reflexivity|]. right.
  destruct (bytes_ltb b a) eqn:E2.
  - eapply bytes_ltb_trans; eauto.
  - rewrite <- (bytes_ltb_tricho a b E1 E2). exact H.
Qed.

Lemma max_len_perm l1 l2 : Permutation l1 l2 -> max_len l1 = max_len l2.
Proof. unfold max_len. induction 1; cbn [fold_right] in *; try lia; congruence. Qed.

Theorem sort_setof_perm l1 l2 : Permutation l1 l2 -> pad_distinct l1 -> sort_setof l1 = sort_setof l2.
Proof.
  intros Hp Hd. unfold sort_setof.
  destruct l1 as [|a [|b l1]].
  - apply Permutation_nil in Hp. subst. reflexivity.
  - apply Permutation_length_1_inv in Hp. subst. reflexivity.
  - destruct l2 as [|a2 [|b2 l2]].
    + apply Permutation_sym, Permutation_nil in Hp. discriminate.
    + apply Permutation_length in Hp. discriminate.
    + fold (max_len (a :: b :: l1)). fold (max_len (a2 :: b2 :: l2)).
      rewrite <- (max_len_perm _ _ Hp).
      apply sort_by_perm; [exact bytes_ltb_irrefl|exact bytes_ltb_trans|exact bytes_ltb_negtrans|exact Hp|].
      intros x y Hx Hy L1 L2. apply Hd; auto. unfold le_key in *. apply bytes_ltb_tricho; assumption.
Qed.

(* without the hypothesis the stable sort keeps the order the members came in *)
Theorem sort_setof_perm_refuted :
  exists l1 l2, Permutation l1 l2 /\ concat (sort_setof l1) <> concat (sort_setof l2).
Proof.
  exists [[4; 1; 0]; [4; 1; 0; 0]]%N, [[4; 1; 0; 0]; [4; 1; 0]]%N. split; [apply perm_swap|].
  vm_compute. discriminate.
Qed.

(* ---------- SET: tags ---------- *)

Lemma cls_eqb_bits a b : cls_eqb a b = N.eqb (cls_bits a) (cls_bits b).
Proof. destruct a, b; reflexivity. Qed.

Lemma tag_ltb_irrefl t : tag_ltb t t = false.
Proof. unfold tag_ltb. rewrite !N.ltb_irrefl, N.eqb_refl. reflexivity. Qed.

Ltac tagarith :=
  unfold tag_ltb, tag_eqb in *; rewrite ?cls_eqb_bits in *;
  repeat match goal with
         | |- context [N.ltb ?a ?b] => destruct (N.ltb_spec a b)
         | |- context [N.eqb ?a ?b] => destruct (N.eqb_spec a b)
         | H: context [N.ltb ?a ?b] |- _ => destruct (N.ltb_spec a b)
         | H: context [N.eqb ?a ?b] |- _ => destruct (N.eqb_spec a b)
         end; cbn in *; try discriminate; try reflexivity; try lia.

Lemma tag_ltb_trans a b c : tag_ltb a b = true -> tag_ltb b c = true -> tag_ltb a c = true.
Proof. intros H1 H2. tagarith. Qed.
Lemma tag_ltb_eqb_l a b c : tag_eqb a b = true -> tag_ltb b c = true -> tag_ltb a c = true.
Proof. intros H1 H2. tagarith. Qed.
Lemma tag_ltb_eqb_r a b c : tag_ltb a b = true -> tag_eqb b c = true -> tag_ltb a c = true.
Proof. intros H1 H2. tagarith. Qed.
Lemma tag_eqb_trans a b c : tag_eqb a b = true -> tag_eqb b c = true -> tag_eqb a c = true.
Proof. intros H1 H2. tagarith. Qed.
Lemma tag_eqb_refl a : tag_eqb a a = true.
Proof. tagarith. Qed.

Lemma tagset_ltb_irrefl : forall a, tagset_ltb a a = false.
Proof. induction a as [|x a IH]; cbn; auto. rewrite tag_ltb_irrefl, tag_eqb_refl, IH. reflexivity. Qed.

Lemma tagset_ltb_trans : forall a b c, tagset_ltb a b = true -> tagset_ltb b c = true -> tagset_ltb a c = true.
Proof.
  induction a as [|x a IH]; intros [|y b] [|z c]; cbn; try discriminate; auto.
  intros H1 H2. apply orb_prop in H1. apply orb_prop in H2. apply orb_true_iff.
  destruct H1 as [H1|H1], H2 as [H2|H2].
  - left. eapply tag_ltb_trans; eauto.
  - apply andb_prop in H2 as [E2 H2]. left. eapply tag_ltb_eqb_r; eauto.
  - apply andb_prop in H1 as [E1 H1]. left. eapply tag_ltb_eqb_l; eauto.
  - apply andb_prop in H1 as [E1 H1]. apply andb_prop in H2 as [E2 H2]. right.
    rewrite (tag_eqb_trans _ _ _ E1 E2). cbn. eapply IH; eauto.
Qed.

Lemma tag_tricho a b : tag_ltb a b = true \/ tag_eqb a b = true \/ tag_ltb b a = true.
Proof.
  unfold tag_ltb, tag_eqb. rewrite cls_eqb_bits.
  destruct (N.ltb_spec (cls_bits (tcls a)) (cls_bits (tcls b))); [left; reflexivity|].
  destruct (N.ltb_spec (cls_bits (tcls b)) (cls_bits (tcls a))); [right; right; reflexivity|].
  assert (E: cls_bits (tcls a) = cls_bits (tcls b)) by lia. rewrite E, !N.eqb_refl. cbn.
  destruct (N.ltb_spec (tnum a) (tnum b)); [left; reflexivity|].
  destruct (N.ltb_spec (tnum b) (tnum a)); [right; right; reflexivity|].
  right; left. apply N.eqb_eq. lia.
Qed.
Lemma tag_eqb_sym a b : tag_eqb a b = true -> tag_eqb b a = true.
Proof. intros H. tagarith. Qed.

Lemma tagset_ltb_negtrans : forall a b c, tagset_ltb a c = true -> tagset_ltb a b = true \/ tagset_ltb b c = true.
Proof.
  induction a as [|x a IH]; intros [|y b] [|z c]; cbn; try discriminate; auto.
  intros H. apply orb_prop in H.
  destruct (tag_tricho x y) as [L|[E|G]].
  - left. rewrite L. reflexivity.
  - destruct H as [H|H].
    + right. rewrite (tag_ltb_eqb_l _ _ _ (tag_eqb_sym _ _ E) H). reflexivity.
    + apply andb_prop in H as [Exz H]. destruct (IH b c H) as [Q|Q].
      * left. rewrite E, Q. apply orb_true_r.
      * right. rewrite (tag_eqb_trans _ _ _ (tag_eqb_sym _ _ E) Exz), Q. apply orb_true_r.
  - right. destruct H as [H|H].
    + rewrite (tag_ltb_trans _ _ _ G H). reflexivity.
    + apply andb_prop in H as [Exz H]. rewrite (tag_ltb_eqb_r _ _ _ G Exz). reflexivity.
Qed.

Theorem sort_set_perm (p1 p2: list (tagset * bytes)) : Permutation p1 p2 -> tags_distinct p1 ->
  Enc.sort_by tagset_ltb fst p1 = Enc.sort_by tagset_ltb fst p2.
Proof.
  intros Hp Hd. apply sort_by_perm; [exact tagset_ltb_irrefl|exact tagset_ltb_trans|exact tagset_ltb_negtrans|exact Hp|].
  intros x y Hx Hy L1 L2. apply Hd; assumption.
Qed.

Theorem sort_set_perm_refuted :
  exists p1 p2 : list (tagset * bytes), Permutation p1 p2 /\
    concat (map snd (Enc.sort_by tagset_ltb fst p1)) <> concat (map snd (Enc.sort_by tagset_ltb fst p2)).
Proof.
  exists [([mkTag Ctx false 0%N], [128; 0]%N); ([mkTag Ctx true 0%N], [160; 0]%N)],
         [([mkTag Ctx true 0%N], [160; 0]%N); ([mkTag Ctx false 0%N], [128; 0]%N)].
  split; [apply perm_swap|]. vm_compute. discriminate.
Qed.

(* ---------- the encoder model on SET OF values ---------- *)
Local Open Scope N_scope.

Lemma setof_content c t cd fl o xs ps : elems_encode c t o xs ps ->
  enc_content c (TSetOf t) cd fl o (VList xs) =
  match cd with
  | EcSeqOfBer | EcSeqOfCer => Ok (concat ps, true)
  | EcSetOfCer => Ok (concat (sort_setof ps), true)
  | _ => Err EMalformed
  end.
Proof.
  intros H. cbn [enc_content].
  match goal with |- bind (?g xs) _ = _ => assert (G: g xs = Ok ps) end.
  { induction H as [|x p xs ps Hx Hr IH]; [reflexivity|]. rewrite Hx. cbn [bind]. rewrite IH. reflexivity. }
  rewrite G. cbn [bind]. destruct cd; reflexivity.
Qed.

(* SET OF: the contents octets do not depend on the order the members were added in *)
Theorem setof_order c t fl o xs ys ps : Permutation xs ys -> elems_encode c t o xs ps -> pad_distinct ps ->
  enc_content c (TSetOf t) EcSetOfCer fl o (VList xs) = enc_content c (TSetOf t) EcSetOfCer fl o (VList ys).
Proof.
  intros Hp He Hd. destruct (Permutation_Forall2 Hp He) as (ps' & Hpp & He').
  rewrite (setof_content c t EcSetOfCer fl o xs ps He), (setof_content c t EcSetOfCer fl o ys ps' He').
  rewrite (sort_setof_perm ps ps' Hpp Hd). reflexivity.
Qed.

(* the same for complete encodings, for every codec whose table sends SET OF to the sorting encoder *)
Theorem setof_order_encode c d k t xs ys ps fl :
  concrete_encoder c (TSetOf t) = Ok (EcSetOfCer, fl) -> Permutation xs ys ->
  let o := fix_opts c (mkOpts d k false) in
  elems_encode c t (mkOpts (o_def o) (o_chunk o) false) xs ps -> pad_distinct ps ->
  encode c d k (TSetOf t) (VList xs) = encode c d k (TSetOf t) (VList ys).
Proof.
  intros Hc Hp o He Hd. unfold encode, enc, enc_with. rewrite Hc. cbn [bind].
  destruct (tagset_of (TSetOf t)) as [ts|e]; [|reflexivity]. cbn [bind]. fold o.
  rewrite (setof_order c t fl _ xs ys ps Hp He Hd). reflexivity.
Qed.

Lemma cer_der_setof_sorted t :
  (exists fl, concrete_encoder CER (TSetOf t) = Ok (EcSetOfCer, fl)) /\
  (exists fl, concrete_encoder DER (TSetOf t) = Ok (EcSetOfCer, fl)).
Proof. split; eexists; vm_compute; reflexivity. Qed.

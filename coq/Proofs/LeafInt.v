(* INTEGER content octets.
   - [be_bytes] / [be_num]: k big-endian octets of n read back as n;
   - [twos_bytes] (the model of int.to_bytes(..., signed=True) with pyasn1's length computation)
     followed by [from_bytes_signed] (int.from_bytes(..., signed=True)) is the identity on Z;
   - the octets are the minimal two's complement form of X.690 8.3.2;
   - the independent reference [Spec.X690.int_contents] coincides with [enc_integer false], and
     [Spec.X690.signed_value] with [from_bytes_signed] on octet strings. *)
From Coq Require Import Lia.
From PV Require Import Base.Bytes Model.Tag Model.Enc Model.Dec Spec.X690 Proofs.Bits Proofs.TagOctets.
Local Open Scope N_scope.

(* ---------- 1. be_bytes / be_num ---------- *)

Lemma pow256_succ k : 256 ^ N.of_nat (S k) = 256 * 256 ^ N.of_nat k.
Proof. rewrite Nat2N.inj_succ, N.pow_succ_r'. reflexivity. Qed.

Lemma pow256_pos k : 0 < 256 ^ N.of_nat k.
Proof. apply N.neq_0_lt_0. apply N.pow_nonzero. discriminate. Qed.

Theorem be_bytes_length : forall k n, length (be_bytes k n) = k.
Proof.
  induction k as [|k IH]; intros n; cbn [be_bytes]; [reflexivity|].
  rewrite app_length, IH. cbn [length]. lia.
Qed.

Theorem be_bytes_bound : forall k n, Forall (fun x => x < 256) (be_bytes k n).
Proof.
  induction k as [|k IH]; intros n; cbn [be_bytes]; [constructor|].
  apply Forall_app. split; [apply IH|].
  constructor; [apply N.mod_lt; discriminate|constructor].
Qed.

Theorem be_bytes_bound_b : forall k n, forallb (fun x => N.ltb x 256) (be_bytes k n) = true.
Proof.
  intros k n. apply forallb_forall. intros x Hx.
  pose proof (be_bytes_bound k n) as H. rewrite Forall_forall in H.
  apply N.ltb_lt. apply H. assumption.
Qed.

Theorem be_num_be_bytes : forall k n, n < 256 ^ N.of_nat k -> be_num 0 (be_bytes k n) = n.
Proof.
  induction k as [|k IH]; intros n H.
  - change (256 ^ N.of_nat 0) with 1 in H. cbn [be_bytes be_num]. lia.
  - rewrite pow256_succ in H. cbn [be_bytes]. rewrite be_num_app.
    rewrite IH by (apply N.div_lt_upper_bound; [discriminate|assumption]).
    cbn [be_num]. rewrite lor_shl8 by (apply N.mod_lt; discriminate).
    pose proof (N.div_mod n 256). lia.
Qed.

(* the leading octet *)
Lemma be_bytes_cons : forall k n,
  be_bytes (S k) n = (n / 256 ^ N.of_nat k) mod 256 :: be_bytes k (n mod 256 ^ N.of_nat k).
Proof.
  induction k as [|k IH]; intros n.
  - change (256 ^ N.of_nat 0) with 1. cbn [be_bytes app]. rewrite N.div_1_r. reflexivity.
  - change (be_bytes (S (S k)) n) with (be_bytes (S k) (n / 256) ++ [n mod 256]).
    rewrite IH. rewrite pow256_succ.
    set (P := 256 ^ N.of_nat k). assert (HP: P <> 0) by (apply N.pow_nonzero; discriminate).
    assert (H256: 256 <> 0) by discriminate.
    assert (E1: (n mod (256 * P)) / 256 = (n / 256) mod P).
    { rewrite N.mod_mul_r by assumption. rewrite N.mul_comm, N.div_add by assumption.
      rewrite (N.div_small (n mod 256)) by (apply N.mod_lt; assumption). reflexivity. }
    assert (E2: (n mod (256 * P)) mod 256 = n mod 256).
    { rewrite N.mod_mul_r by assumption. rewrite N.mul_comm, N.mod_add by assumption.
      apply N.mod_mod. assumption. }
    cbn [be_bytes app]. rewrite N.div_div by assumption. rewrite E1, E2. reflexivity.
Qed.

(* a (k+1)-octet string splits as leading octet * 256^k + the rest *)
Lemma be_bytes_split k n o r : n < 256 ^ N.of_nat (S k) -> be_bytes (S k) n = o :: r ->
  exists n', n = o * 256 ^ N.of_nat k + n' /\ n' < 256 ^ N.of_nat k /\ o < 256 /\ r = be_bytes k n'.
Proof.
  intros Hn E. rewrite be_bytes_cons in E. injection E as Ho Hr.
  rewrite pow256_succ in Hn.
  set (P := 256 ^ N.of_nat k) in *. assert (HP: P <> 0) by (apply N.pow_nonzero; discriminate).
  assert (Hq: n / P < 256) by (apply N.div_lt_upper_bound; [assumption|lia]).
  rewrite N.mod_small in Ho by assumption.
  exists (n mod P). repeat split.
  - subst o. pose proof (N.div_mod n P HP). lia.
  - apply N.mod_lt. assumption.
  - subst o. assumption.
  - symmetry. assumption.
Qed.

(* ---------- powers: N vs Z ---------- *)

Lemma pow256_Z j : Z.of_N (256 ^ N.of_nat j) = (2 ^ (8 * Z.of_nat j))%Z.
Proof.
  rewrite N2Z.inj_pow, nat_N_Z. change (Z.of_N 256) with (2 ^ 8)%Z.
  rewrite <- Z.pow_mul_r by lia. reflexivity.
Qed.

Lemma pow2_8succ j : (2 ^ (8 * Z.of_nat (S j)) = 256 * 2 ^ (8 * Z.of_nat j))%Z.
Proof.
  replace (8 * Z.of_nat (S j))%Z with (8 + 8 * Z.of_nat j)%Z by lia.
  rewrite Z.pow_add_r by lia. reflexivity.
Qed.

Lemma pow2_8pred j : (2 ^ (8 * Z.of_nat (S j) - 1) = 128 * 2 ^ (8 * Z.of_nat j))%Z.
Proof.
  replace (8 * Z.of_nat (S j) - 1)%Z with (7 + 8 * Z.of_nat j)%Z by lia.
  rewrite Z.pow_add_r by lia. reflexivity.
Qed.

(* ---------- from_bytes_signed on k+1 big-endian octets ---------- *)

Lemma from_bytes_signed_be_bytes j n : n < 256 ^ N.of_nat (S j) ->
  from_bytes_signed (be_bytes (S j) n) =
  if N.ltb n (128 * 256 ^ N.of_nat j) then Z.of_N n
  else (Z.of_N n - 2 ^ (8 * Z.of_nat (S j)))%Z.
Proof.
  intros Hn.
  remember (be_bytes (S j) n) as b eqn:Hb.
  destruct b as [|o r].
  { rewrite be_bytes_cons in Hb. discriminate. }
  symmetry in Hb. destruct (be_bytes_split j n o r Hn Hb) as (n' & En & Hn' & Ho & _).
  unfold from_bytes_signed. cbv zeta. rewrite <- Hb.
  rewrite be_num_be_bytes by assumption. rewrite be_bytes_length.
  set (P := 256 ^ N.of_nat j) in *.
  assert (Hlt: N.ltb o 128 = N.ltb n (128 * P)).
  { destruct (N.ltb_spec o 128) as [H|H]; destruct (N.ltb_spec n (128 * P)) as [H'|H'];
      try reflexivity; exfalso.
    - assert (o * P <= 127 * P) by (apply N.mul_le_mono_r; lia). lia.
    - assert (128 * P <= o * P) by (apply N.mul_le_mono_r; lia). lia. }
  rewrite Hlt. reflexivity.
Qed.

(* ---------- the length computed by twos_bytes ---------- *)

Definition mag (z: Z) : Z := if Z.ltb z 0 then (- z - 1)%Z else z.
Definition nbytes (z: Z) : Z := (bit_length (mag z) / 8 + 1)%Z.

Lemma mag_nonneg z : (0 <= mag z)%Z.
Proof. unfold mag. destruct (Z.ltb_spec z 0); lia. Qed.

Lemma nb_simpl bits :
  (let len := if Z.eqb (bits mod 8) 0 then (bits + 1)%Z else bits in
   len / 8 + (if Z.eqb (len mod 8) 0 then 0 else 1))%Z = (bits / 8 + 1)%Z.
Proof.
  cbv zeta. destruct (Z.eqb_spec (bits mod 8) 0) as [E|E].
  - assert (((bits + 1) mod 8 = 1)%Z /\ ((bits + 1) / 8 = bits / 8)%Z) as [E1 E2].
    { pose proof (Z.div_mod bits 8). pose proof (Z.div_mod (bits + 1) 8).
      pose proof (Z.mod_pos_bound (bits + 1) 8). lia. }
    rewrite E1, E2. reflexivity.
  - try (destruct (Z.eqb_spec (bits mod 8) 0); [contradiction|]). reflexivity.
Qed.

Lemma twos_bytes_eq z :
  twos_bytes z = be_bytes (Z.to_nat (nbytes z)) (Z.to_N (z mod 2 ^ (8 * nbytes z))).
Proof.
  unfold twos_bytes, nbytes, mag. cbv zeta.
  destruct (Z.ltb z 0).
  - pose proof (nb_simpl (bit_length (- z - 1))) as E. cbv zeta in E. rewrite E. reflexivity.
  - pose proof (nb_simpl (bit_length z)) as E. cbv zeta in E. rewrite E. reflexivity.
Qed.

Lemma bit_length_spec m : (0 <= m)%Z ->
  (0 <= bit_length m)%Z /\ (m < 2 ^ bit_length m)%Z /\
  (0 < bit_length m -> 2 ^ (bit_length m - 1) <= m)%Z.
Proof.
  intros Hm. unfold bit_length. destruct (Z.eqb_spec m 0) as [->|Hz].
  - repeat split; try lia; try reflexivity.
  - assert (Hp: (0 < m)%Z) by lia.
    pose proof (Z.log2_spec m Hp) as [H1 H2]. pose proof (Z.log2_nonneg m).
    repeat split; try lia.
    intros _. replace (Z.log2 m + 1 - 1)%Z with (Z.log2 m) by lia. assumption.
Qed.

(* nbytes z is the least k >= 1 with mag z < 2^(8k-1) *)
Lemma nbytes_spec z :
  (1 <= nbytes z)%Z /\ (mag z < 2 ^ (8 * nbytes z - 1))%Z /\
  (2 <= nbytes z -> 2 ^ (8 * nbytes z - 9) <= mag z)%Z.
Proof.
  pose proof (bit_length_spec (mag z) (mag_nonneg z)) as (Hb0 & Hb1 & Hb2).
  unfold nbytes. set (b := bit_length (mag z)) in *.
  pose proof (Z.div_mod b 8). pose proof (Z.mod_pos_bound b 8).
  assert (0 <= b / 8)%Z by (apply Z.div_pos; lia).
  repeat split.
  - lia.
  - apply Z.lt_le_trans with (2 ^ b)%Z; [assumption|].
    apply Z.pow_le_mono_r; lia.
  - intros Hk. apply Z.le_trans with (2 ^ (b - 1))%Z; [|apply Hb2; lia].
    apply Z.pow_le_mono_r; lia.
Qed.

(* the shape of twos_bytes z: j+1 octets of z (or z + 256^(j+1) when negative), j least *)
Lemma twos_shape z : exists j,
  twos_bytes z = be_bytes (S j) (Z.to_N (if Z.ltb z 0 then z + 256 * 2 ^ (8 * Z.of_nat j) else z)%Z) /\
  (mag z < 128 * 2 ^ (8 * Z.of_nat j))%Z /\
  (forall i, j = S i -> 128 * 2 ^ (8 * Z.of_nat i) <= mag z)%Z /\
  nbytes z = Z.of_nat (S j).
Proof.
  pose proof (nbytes_spec z) as (H1 & H2 & H3).
  exists (Z.to_nat (nbytes z - 1)).
  set (j := Z.to_nat (nbytes z - 1)).
  assert (Ek: nbytes z = Z.of_nat (S j)) by (unfold j; lia).
  rewrite twos_bytes_eq. rewrite Ek in *. rewrite Nat2Z.id.
  rewrite pow2_8pred in H2. rewrite pow2_8succ.
  set (Q := (2 ^ (8 * Z.of_nat j))%Z) in *.
  assert (HQ: (0 < Q)%Z) by (apply Z.pow_pos_nonneg; lia).
  repeat split; try assumption.
  - f_equal. f_equal. unfold mag in H2. destruct (Z.ltb_spec z 0) as [Hz|Hz].
    + symmetry. apply Z.mod_unique_pos with (q := (-1)%Z); lia.
    + apply Z.mod_small. lia.
  - intros i Ei. rewrite Ei in H3.
    replace (8 * Z.of_nat (S (S i)) - 9)%Z with (8 * Z.of_nat (S i) - 1)%Z in H3 by lia.
    rewrite pow2_8pred in H3. apply H3. lia.
Qed.

(* ---------- 2. round trip ---------- *)

Theorem twos_roundtrip : forall z, from_bytes_signed (twos_bytes z) = z.
Proof.
  intros z. destruct (twos_shape z) as (j & E & Hm & _ & _). rewrite E.
  pose proof (pow256_Z j) as HP.
  set (Q := (2 ^ (8 * Z.of_nat j))%Z) in *.
  assert (HQ: (0 < Q)%Z) by (apply Z.pow_pos_nonneg; lia).
  set (n := Z.to_N (if Z.ltb z 0 then z + 256 * Q else z)%Z).
  assert (Hn: n < 256 ^ N.of_nat (S j)).
  { rewrite pow256_succ. unfold n, mag in *. destruct (Z.ltb_spec z 0); lia. }
  rewrite from_bytes_signed_be_bytes by assumption.
  rewrite pow2_8succ. fold Q.
  unfold n, mag in *.
  destruct (Z.ltb_spec z 0) as [Hz|Hz];
    match goal with |- context [N.ltb ?a ?b] => destruct (N.ltb_spec a b) end; lia.
Qed.

Theorem twos_nonempty : forall z, twos_bytes z <> [].
Proof.
  intros z. destruct (twos_shape z) as (j & E & _). rewrite E, be_bytes_cons. discriminate.
Qed.

Lemma twos_bytes_0 : twos_bytes 0 = [0].
Proof. reflexivity. Qed.

(* ---------- 3. enc_integer ---------- *)

Theorem enc_integer_roundtrip : forall cz z, (cz = false \/ z <> 0%Z) ->
  from_bytes_signed (enc_integer cz z) = z.
Proof.
  intros cz z H. unfold enc_integer. destruct (Z.eqb_spec z 0) as [->|Hz].
  - destruct H as [->|H]; [reflexivity|contradiction].
  - apply twos_roundtrip.
Qed.

Theorem enc_integer_roundtrip_compact : from_bytes_signed (enc_integer true 0) = 0%Z.
Proof. reflexivity. Qed.

(* so the round trip holds for every flag and every z *)
Corollary enc_integer_roundtrip_all : forall cz z, from_bytes_signed (enc_integer cz z) = z.
Proof.
  intros cz z. destruct (Z.eq_dec z 0) as [->|Hz].
  - destruct cz; reflexivity.
  - apply enc_integer_roundtrip. right. assumption.
Qed.

Lemma enc_integer_false z : enc_integer false z = twos_bytes z.
Proof. unfold enc_integer. destruct (Z.eqb_spec z 0) as [->|_]; reflexivity. Qed.

(* ---------- 4. X.690 8.3.2: the first nine bits are neither all zero nor all one ---------- *)

Theorem twos_minimal : forall z o1 o2 r, twos_bytes z = o1 :: o2 :: r ->
  ~ (o1 = 0 /\ o2 < 128)%N /\ ~ (o1 = 255 /\ 128 <= o2)%N.
Proof.
  intros z o1 o2 r Ht. destruct (twos_shape z) as (j & E & Hm & Hmin & _).
  rewrite Ht in E. symmetry in E.
  assert (Hl: length (o1 :: o2 :: r) = S j) by (rewrite <- E; apply be_bytes_length).
  cbn [length] in Hl. destruct j as [|i]; [discriminate|].
  specialize (Hmin i eq_refl).
  rewrite pow2_8succ in *.
  pose proof (pow256_Z i) as HP.
  set (Q := (2 ^ (8 * Z.of_nat i))%Z) in *.
  assert (HQ: (0 < Q)%Z) by (apply Z.pow_pos_nonneg; lia).
  set (n := Z.to_N (if Z.ltb z 0 then z + 256 * (256 * Q) else z)%Z) in *.
  assert (Hn: n < 256 ^ N.of_nat (S (S i))).
  { rewrite !pow256_succ. unfold n, mag in *. destruct (Z.ltb_spec z 0); lia. }
  destruct (be_bytes_split _ _ _ _ Hn E) as (n1 & En & Hn1 & Ho1 & E1).
  symmetry in E1.
  destruct (be_bytes_split _ _ _ _ Hn1 E1) as (n2 & En1 & Hn2 & Ho2 & _).
  rewrite pow256_succ in *.
  set (P := 256 ^ N.of_nat i) in *.
  split; intros [H1 H2].
  - subst o1. assert (o2 * P <= 127 * P) by (apply N.mul_le_mono_r; lia).
    unfold n, mag in *. destruct (Z.ltb_spec z 0); lia.
  - subst o1. assert (128 * P <= o2 * P) by (apply N.mul_le_mono_r; lia).
    unfold n, mag in *. destruct (Z.ltb_spec z 0); lia.
Qed.

(* ---------- 5. the independent reference ---------- *)

Lemma octets_of_N_is_be_bytes : forall k n, octets_of_N k n = be_bytes k n.
Proof.
  induction k as [|k IH]; intros n; [reflexivity|].
  cbn [octets_of_N be_bytes]. rewrite IH. reflexivity.
Qed.

Definition fits (k: nat) (z: Z) : bool :=
  (Z.leb (- 2 ^ (8 * Z.of_nat k - 1)) z && Z.ltb z (2 ^ (8 * Z.of_nat k - 1)))%bool.

Lemma fits_mag k z : fits k z = Z.ltb (mag z) (2 ^ (8 * Z.of_nat k - 1)).
Proof.
  unfold fits, mag. set (h := (2 ^ (8 * Z.of_nat k - 1))%Z).
  assert (0 <= h)%Z by (apply Z.pow_nonneg; lia).
  apply eq_true_iff_eq. rewrite andb_true_iff, Z.leb_le, !Z.ltb_lt.
  destruct (Z.ltb_spec z 0); lia.
Qed.

Lemma count_least z nb : (forall j, (1 <= j < nb)%nat -> fits j z = false) -> fits nb z = true ->
  forall fuel k, (1 <= k <= nb)%nat -> (nb - k < fuel)%nat -> int_octets_count fuel k z = nb.
Proof.
  intros Hlo Hnb. induction fuel as [|f IH]; intros k Hk Hf; [lia|].
  cbn [int_octets_count]. cbv zeta. change ((if fits k z then k else int_octets_count f (S k) z) = nb).
  destruct (Nat.eq_dec k nb) as [->|Hne].
  - rewrite Hnb. reflexivity.
  - rewrite Hlo by lia. apply IH; lia.
Qed.

Lemma int_octets_count_nbytes z :
  int_octets_count (S (Z.to_nat (Z.log2 (Z.abs z + 1)))) 1 z = Z.to_nat (nbytes z).
Proof.
  pose proof (nbytes_spec z) as (H1 & H2 & H3).
  apply count_least.
  - intros j Hj. rewrite fits_mag. apply Z.ltb_ge.
    apply Z.le_trans with (2 ^ (8 * nbytes z - 9))%Z; [|apply H3; lia].
    apply Z.pow_le_mono_r; lia.
  - rewrite fits_mag. apply Z.ltb_lt. rewrite Z2Nat.id by lia. assumption.
  - lia.
  - (* fuel *)
    assert (nbytes z - 1 <= Z.log2 (Z.abs z + 1))%Z; [|pose proof (Z.log2_nonneg (Z.abs z + 1)); lia].
    unfold nbytes, bit_length. destruct (Z.eqb_spec (mag z) 0) as [E|E].
    + pose proof (Z.log2_nonneg (Z.abs z + 1)). change (0 / 8)%Z with 0%Z. lia.
    + pose proof (mag_nonneg z).
      assert (Z.log2 (mag z) <= Z.log2 (Z.abs z + 1))%Z.
      { apply Z.log2_le_mono. unfold mag. destruct (Z.ltb_spec z 0); lia. }
      pose proof (Z.log2_nonneg (mag z)).
      pose proof (Z.div_mod (Z.log2 (mag z) + 1) 8).
      pose proof (Z.mod_pos_bound (Z.log2 (mag z) + 1) 8). lia.
Qed.

Theorem int_contents_is_enc_integer : forall z, int_contents z = enc_integer false z.
Proof.
  intros z. rewrite enc_integer_false, twos_bytes_eq. unfold int_contents. cbv zeta.
  rewrite int_octets_count_nbytes, octets_of_N_is_be_bytes.
  pose proof (nbytes_spec z) as (H1 & _). rewrite Z2Nat.id by lia. reflexivity.
Qed.

Lemma octets_value_is_be_num : forall b acc, forallb (fun x => N.ltb x 256) b = true ->
  octets_value acc b = be_num acc b.
Proof.
  induction b as [|o r IH]; intros acc H; [reflexivity|].
  cbn [forallb] in H. apply andb_true_iff in H. destruct H as [Ho Hr]. apply N.ltb_lt in Ho.
  cbn [octets_value be_num]. rewrite lor_shl8 by assumption. apply IH. assumption.
Qed.

Theorem signed_value_is_from_bytes : forall b, forallb (fun x => N.ltb x 256) b = true ->
  signed_value b = from_bytes_signed b.
Proof.
  intros b H. unfold signed_value, from_bytes_signed. destruct b as [|o r]; [reflexivity|].
  cbv zeta. rewrite octets_value_is_be_num by assumption. reflexivity.
Qed.

(* the reference's reading inverts the reference's writing, and the model's *)
Corollary signed_value_int_contents : forall z, signed_value (int_contents z) = z.
Proof.
  intros z. rewrite int_contents_is_enc_integer, enc_integer_false.
  rewrite signed_value_is_from_bytes.
  - apply twos_roundtrip.
  - rewrite twos_bytes_eq. apply be_bytes_bound_b.
Qed.

Print Assumptions be_bytes_length.
Print Assumptions be_bytes_bound.
Print Assumptions be_num_be_bytes.
Print Assumptions twos_roundtrip.
Print Assumptions twos_nonempty.
Print Assumptions enc_integer_roundtrip.
Print Assumptions enc_integer_roundtrip_compact.
Print Assumptions twos_minimal.
Print Assumptions int_contents_is_enc_integer.
Print Assumptions signed_value_is_from_bytes.
Print Assumptions signed_value_int_contents.

(* The dispatch tables regenerated from /repo hold nothing the model does not know.

   harness/tables.py is fail-closed: a table key, codec class or flag of /repo that it cannot map to
   something the model knows is counted in [unmodelled_count] (and named in comments at the end of
   Gen/Tables.v).  This obligation is re-checked on every run, against the tables as they are now; every
   property check treats its failure as a broken tie between model and code. *)
From PV Require Import Gen.Tables.

Lemma tables_fully_modelled : unmodelled_count = 0%nat.
Proof. reflexivity. Qed.

Print Assumptions tables_fully_modelled.

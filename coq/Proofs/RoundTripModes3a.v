(* Round trip under every encoder mode for the whole type universe (C01/C02), part (a): the framing
   the encoder wrote - definite or indefinite lengths, primitive or constructed contents - is taken
   apart by the decoder under ANY guiding specification (a type, or the tag map of a run of OPTIONAL
   components, of a SET, of a CHOICE) that resolves the wire tags to the type, wherever end-of-octets
   is or is not allowed.  Combines Proofs/RoundTrip3.v ([framed_consumes_sp]) with
   Proofs/RoundTripModesA.v ([framed_modes]). *)
From Coq Require Import Lia Permutation.
From PV Require Import Base.Bytes Model.Tag Model.TableTypes Model.Types Model.Proc Model.Enc Model.Dec Gen.Tables
     Proofs.ProcBind Proofs.RunLemmas Proofs.TagOctets Proofs.TagAlgebra Proofs.DecHeader Proofs.DecFrame Proofs.DecPrim
     Proofs.TagsetShape Proofs.Schemaless Proofs.RoundTrip1 Proofs.RoundTrip2 Proofs.TagReject Proofs.ContainerCodecSort
     Proofs.RoundTripModesA Proofs.RoundTripModesB Proofs.RoundTripModesC
     Proofs.RoundTrip3 Proofs.RoundTrip3a.
Local Open Scope N_scope.

(* ---------- a specification answers for a tag set up to tag set equality (class and number) ---------- *)

Lemma assoc_tagset_eqb {B} k k' (l: list (tagset * B)) : tagset_eqb k k' = true ->
  assoc tagset_eqb k l = assoc tagset_eqb k' l.
Proof.
  intros H. induction l as [|[a x] l IH]; [reflexivity|]. cbn [assoc]. rewrite IH.
  destruct (tagset_eqb k' a) eqn:E.
  - rewrite (tagset_eqb_trans _ _ _ H E). reflexivity.
  - rewrite (tagset_eqb_false_l _ _ _ H E). reflexivity.
Qed.

Lemma tagset_eqb_left k k' x : tagset_eqb k k' = true -> tagset_eqb k x = tagset_eqb k' x.
Proof.
  intros H. destruct (tagset_eqb k' x) eqn:E.
  - exact (tagset_eqb_trans _ _ _ H E).
  - exact (tagset_eqb_false_l _ _ _ H E).
Qed.

Lemma tm_get_eqb m k k' : tagset_eqb k k' = true -> tm_get m k = tm_get m k'.
Proof.
  intros H. unfold tm_get, tm_find. rewrite (assoc_tagset_eqb k k' _ H), (tm_mem_eqb k k' _ H). reflexivity.
Qed.

Lemma tm_contains_eqb m k k' : tagset_eqb k k' = true -> tm_contains m k = tm_contains m k'.
Proof.
  intros H. unfold tm_contains, tm_find. rewrite (assoc_tagset_eqb k k' _ H), (tm_mem_eqb k k' _ H). reflexivity.
Qed.

Lemma sp_hit_eqb sp k k' T : tagset_eqb k k' = true -> sp_hit sp k' T -> sp_hit sp k T.
Proof.
  intros H. destruct sp as [|T'|m]; cbn [sp_hit]; [tauto| |].
  - intros (E & Hc & Hp). split; [exact E|]. split; [|exact Hp].
    rewrite (tagset_eqb_left k k' _ H), (tm_contains_eqb _ k k' H). exact Hc.
  - intros Hg. rewrite (tm_get_eqb m k k' H). exact Hg.
Qed.

Lemma sp_hit_wire sp t0 cns r T : sp_hit sp (t0 :: r) T -> sp_hit sp (wire t0 cns :: r) T.
Proof. apply sp_hit_eqb. apply wire_tagset_eqb. Qed.

(* ---------- one level in indefinite-length form, under any specification ---------- *)

Lemma explicit_level_indef_sp : forall c f sp acc0 t inner Tv vv,
  support_indef c = true ->
  tcon t = true -> tcls t <> Univ ->
  sp_miss sp (t :: acc0) ->
  (length (enc_tag t false) <= S f)%nat -> (2 <= f)%nat ->
  consumes (dec_call c f sp (t :: acc0) None true false) inner (DV Tv vv) ->
  consumes (dec_call c (S f) sp acc0 None false false) (enc_tag t false ++ [128] ++ inner ++ [0; 0]) (DV Tv vv).
Proof.
  intros c f sp acc0 t inner Tv vv Hsi Hcon Hcls Hmiss Hlen Hf2 Hin s tl Hav.
  rewrite <- !app_assoc in Hav.
  rewrite (dec_call_header_indef c f sp acc0 false t false (inner ++ [0; 0] ++ tl) s Hsi Hav Hlen).
  rewrite wire_false.
  set (s1 := adv (setmark s (pos s)) (length (enc_tag t false) + 1)).
  assert (Hav1: avail s1 = inner ++ [0; 0] ++ tl).
  { subst s1. rewrite avail_adv, avail_setmark, Hav.
    change (enc_tag t false ++ [128] ++ inner ++ [0; 0] ++ tl) with (enc_tag t false ++ [128] ++ (inner ++ [0; 0] ++ tl)).
    rewrite app_assoc. replace (length (enc_tag t false) + 1)%nat with (length (enc_tag t false ++ [128])) by (rewrite app_length; reflexivity).
    apply skipn_app_exact. }
  assert (Hp1: pos s1 = (pos s + (length (enc_tag t false) + 1))%nat) by reflexivity.
  assert (Ha1: arrived s1 = arrived s) by reflexivity.
  assert (Hc1: closed s1 = closed s) by reflexivity.
  clearbody s1.
  assert (Hnu: negb (cls_eqb (tcls t) Univ) = true) by (destruct (tcls t); [congruence|reflexivity|reflexivity|reflexivity]).
  destruct (Hin s1 _ Hav1) as (s2 & Hrun & Hpos & Harr & Hcl).
  pose proof (consumes_avail inner s1 _ s2 Hav1 Hpos Harr) as Hav2.
  assert (Hfail: resume (dec_raw (dec_call c f) f sp (t :: acc0) None false) s1 = inr (Ok (DV Tv vv), adv s2 2)).
  { unfold dec_raw. destruct f as [|[|f']]; try lia. cbn [raw_loop].
    rewrite (resume_pbind_done _ _ _ _ _ Hrun).
    rewrite (resume_pbind_done _ _ _ _ _ (eoo_read c (S f') sp (t :: acc0) None false s2 tl Hsi Hav2)). reflexivity. }
  exists (adv s2 2). split.
  - destruct sp as [|T|m]; [contradiction| |].
    + destruct Hmiss as [Hne Hnm]. unfold dispatch. rewrite Hne, Hnm. cbn [orb]. rewrite Hcon, Hnu. cbn [andb]. exact Hfail.
    + cbn [sp_miss] in Hmiss. unfold dispatch. rewrite Hmiss. cbn [lift pbind]. rewrite Hcon, Hnu. cbn [andb]. exact Hfail.
  - rewrite !app_length. cbn [length]. rewrite pos_adv, arrived_adv, closed_adv.
    repeat split; [lia|congruence|congruence].
Qed.

Lemma match_level_indef_sp : forall c f sp T acc0 t0 cns content v cd fl,
  support_indef c = true ->
  sp_hit sp (wire t0 cns :: acc0) T ->
  by_type c T = Some (cd, fl) ->
  (length (enc_tag t0 cns) <= S f)%nat ->
  consumes (dec_value (dec_call c f) f cd fl (Some T) (wire t0 cns :: acc0) None false) (content ++ [0; 0]) v ->
  consumes (dec_call c (S f) sp acc0 None false false) (enc_tag t0 cns ++ [128] ++ content ++ [0; 0]) v.
Proof.
  intros c f sp T acc0 t0 cns content v cd fl Hsi Hhit Hby Hlen Hin s tl Hav.
  rewrite <- !app_assoc in Hav.
  rewrite (dec_call_header_indef c f sp acc0 false t0 cns (content ++ [0; 0] ++ tl) s Hsi Hav Hlen).
  set (s1 := adv (setmark s (pos s)) (length (enc_tag t0 cns) + 1)).
  assert (Hav1: avail s1 = (content ++ [0; 0]) ++ tl).
  { subst s1. rewrite avail_adv, avail_setmark, Hav.
    change (enc_tag t0 cns ++ [128] ++ content ++ [0; 0] ++ tl) with (enc_tag t0 cns ++ [128] ++ (content ++ [0; 0] ++ tl)).
    rewrite app_assoc. replace (length (enc_tag t0 cns) + 1)%nat with (length (enc_tag t0 cns ++ [128])) by (rewrite app_length; reflexivity).
    rewrite skipn_app_exact. rewrite <- app_assoc. reflexivity. }
  assert (Hp1: pos s1 = (pos s + (length (enc_tag t0 cns) + 1))%nat) by reflexivity.
  assert (Ha1: arrived s1 = arrived s) by reflexivity.
  assert (Hc1: closed s1 = closed s) by reflexivity.
  clearbody s1.
  destruct (Hin s1 tl Hav1) as (s2 & Hrun & Hpos & Harr & Hcl).
  exists s2. split.
  - destruct sp as [|T'|m]; [contradiction| |].
    + destruct Hhit as (-> & Hc & Hpp). unfold dispatch. rewrite Hc, Hpp, Hby. exact Hrun.
    + cbn [sp_hit] in Hhit. unfold dispatch. rewrite Hhit. cbn [lift pbind]. rewrite Hby. exact Hrun.
  - rewrite !app_length in *. cbn [length] in *. repeat split; [lia|congruence|congruence].
Qed.

(* all the EXPLICIT levels of an indefinite-length encoding: the specification misses every non-empty
   proper suffix of the wire tags *)
Lemma peel_all_indef_sp : forall c sp f r acc0 sub b Tv vv,
  support_indef c = true ->
  frame_outer r false false true sub = Ok b ->
  Forall explicit_like r ->
  Forall (fun t => (length (enc_tag t false) <= S f)%nat) r ->
  (forall r1 r2, r = r1 ++ r2 -> r2 <> [] -> sp_miss sp (r2 ++ acc0)) ->
  (2 <= f)%nat ->
  (forall ae, consumes (dec_call c f sp (r ++ acc0) None ae false) sub (DV Tv vv)) ->
  forall ae, consumes (dec_call c (f + length r) sp acc0 None ae false) b (DV Tv vv).
Proof.
  intros c sp f r. induction r as [|tn r' IH] using rev_ind; intros acc0 sub b Tv vv Hsi Hfr Hex Hlen Hmiss Hf2 Hin.
  - cbn [frame_outer] in Hfr. inversion Hfr; subst. cbn [length app] in *. rewrite Nat.add_0_r. exact Hin.
  - rewrite frame_outer_snoc in Hfr.
    destruct (frame_outer r' false false true sub) as [inner|e] eqn:Ein; cbn [bind] in Hfr; [|discriminate].
    apply Forall_app in Hex. destruct Hex as [Hex' Hexn]. inversion Hexn as [|? ? [Hcon Hcls] _]; subst.
    apply Forall_app in Hlen. destruct Hlen as [Hlen' Hlenn]. inversion Hlenn as [|? ? Hl _]; subst.
    assert (Hb: b = enc_tag tn false ++ [128] ++ inner ++ [0; 0]) by (inversion Hfr; reflexivity).
    rewrite app_length in *. cbn [length] in *.
    replace (f + (length r' + 1))%nat with (S (f + length r')) by lia.
    apply ae_any; [exact Hsi| | |].
    + subst b. pose proof (enc_tag_nonempty tn false). rewrite !app_length. cbn [length]. lia.
    + subst b. rewrite hd_app by apply enc_tag_ne. apply enc_tag_hd. left. exact Hcls.
    + subst b.
      apply (explicit_level_indef_sp c (f + length r') sp acc0 tn inner Tv vv Hsi Hcon Hcls); [|lia|lia|].
      * apply (Hmiss r' [tn] eq_refl). discriminate.
      * apply (IH (tn :: acc0) sub inner Tv vv Hsi Ein Hex' Hlen').
        -- intros r1 r2 Hr Hne. replace (r2 ++ tn :: acc0) with ((r2 ++ [tn]) ++ acc0) by (rewrite <- app_assoc; reflexivity).
           apply (Hmiss r1 (r2 ++ [tn])); [rewrite Hr, app_assoc; reflexivity|]. destruct r2; discriminate.
        -- exact Hf2.
        -- intros ae. rewrite <- app_assoc in Hin. exact (Hin ae).
Qed.

(* ---------- every level of the framing the encoder wrote, in any mode, under any specification ---------- *)

Theorem framed_modes_sp : forall c sp T t0 r cns si d k content b f0 dcd dfl Tv vv,
  support_indef c = true ->
  (tcls t0 <> Univ \/ tnum t0 <> 0) ->
  Forall explicit_like r ->
  sp_hit sp (t0 :: r) T ->
  (forall r1 r2, r = r1 ++ r2 -> r2 <> [] -> sp_miss sp r2) ->
  by_type c T = Some (dcd, dfl) ->
  (d = false -> (cns = true \/ r <> []) -> si = true) ->
  frame (t0 :: r) content cns (mkOpts d k false) si = Ok b ->
  (length b <= S f0)%nat ->
  (if cns && negb d
   then consumes (dec_value (dec_call c f0) f0 dcd dfl (Some T) (wire t0 cns :: r) None false) (content ++ [0; 0]) (DV Tv vv)
   else consumes (dec_value (dec_call c f0) f0 dcd dfl (Some T) (wire t0 cns :: r) (Some (N.of_nat (length content))) false) content (DV Tv vv)) ->
  (length content + 2 <= length b)%nat /\ hd 0 b <> 0 /\
  forall ae, consumes (dec_call c (S f0 + length r) sp [] None ae false) b (DV Tv vv).
Proof.
  intros c sp T t0 r cns si d k content b f0 dcd dfl Tv vv Hsi Hnz Hex Hhit0 Hmiss Hby Hmode He Hb Hval.
  pose proof (sp_hit_wire sp t0 cns r T Hhit0) as Hhit.
  cbn [frame] in He. rewrite Bool.andb_false_r in He. cbn [o_def] in He.
  destruct (frame_one t0 cns (if cns then d else true) si content) as [s0|e] eqn:E0; cbn [bind] in He; [|discriminate].
  rewrite (frame_outer_con_g r cns d si s0 Hex) in He.
  destruct (frame_outer_facts _ _ _ _ _ _ He Hex) as (Hlen0 & Hhd & Htl).
  destruct (frame_one_facts _ _ _ _ _ _ E0 Hnz) as (F1 & F2 & F3).
  specialize (Hhd F3). specialize (Htl (S (S f0)) ltac:(lia)).
  split; [lia|]. split; [exact Hhd|].
  assert (Hmiss': forall r1 r2, r = r1 ++ r2 -> r2 <> [] -> sp_miss sp (r2 ++ [])).
  { intros r1 r2 Hr Hne. rewrite app_nil_r. exact (Hmiss r1 r2 Hr Hne). }
  assert (Hhit': sp_hit sp (wire t0 cns :: r ++ []) T) by (rewrite app_nil_r; exact Hhit).
  destruct d.
  - (* definite lengths throughout *)
    rewrite Bool.andb_false_r in Hval.
    assert (E0': frame_one t0 cns true si content = Ok s0) by (destruct cns; exact E0).
    assert (H0: consumes (dec_call c (S f0 + length r) sp [] None false false) b (DV Tv vv)).
    { apply (peel_all_sp c sp (S f0) si r [] s0 b _ He Hex Htl Hmiss').
      apply (match_level_sp c f0 sp T (r ++ []) t0 cns si content s0 _ dcd dfl E0' Hhit' Hby); [lia|].
      rewrite app_nil_r. exact Hval. }
    apply ae_any; [exact Hsi|lia|exact Hhd|exact H0].
  - destruct cns.
    + (* constructed: 80 ... 00 00 at every level *)
      cbn [andb negb] in Hval.
      assert (Hsit: si = true) by (apply Hmode; [reflexivity|left; reflexivity]). subst si.
      assert (Hs0: s0 = enc_tag t0 true ++ [128] ++ content ++ [0; 0]) by (inversion E0; reflexivity).
      apply (peel_all_indef_sp c sp (S f0) r [] s0 b Tv vv Hsi He Hex Htl Hmiss'); [lia|].
      apply ae_any; [exact Hsi|lia|exact F3|]. subst s0.
      apply (match_level_indef_sp c f0 sp T (r ++ []) t0 true content _ dcd dfl Hsi Hhit' Hby); [lia|].
      rewrite app_nil_r. exact Hval.
    + (* primitive contents: definite innermost level *)
      cbn [andb] in Hval.
      assert (Hin: forall ae, consumes (dec_call c (S f0) sp (r ++ []) None ae false) s0 (DV Tv vv)).
      { apply ae_any; [exact Hsi|lia|exact F3|].
        apply (match_level_sp c f0 sp T (r ++ []) t0 false si content s0 _ dcd dfl E0 Hhit' Hby); [lia|].
        rewrite app_nil_r. exact Hval. }
      destruct r as [|r1 r'].
      * cbn [frame_outer] in He. inversion He; subst b. cbn [length]. rewrite Nat.add_0_r. exact Hin.
      * assert (Hsit: si = true) by (apply Hmode; [reflexivity|right; discriminate]). subst si.
        apply (peel_all_indef_sp c sp (S f0) (r1 :: r') [] s0 b Tv vv Hsi He Hex Htl Hmiss'); [lia|exact Hin].
Qed.

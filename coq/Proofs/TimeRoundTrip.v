(* C20, first sentence: asDateTime inverts fromDateTime on every valid datetime of the
   property's precision, for every whole-minute offset (model of the code after F11/F26). *)
From Coq Require Import Lia.
From PV Require Import Base.Bytes Spec.X680Time Model.Time Proofs.TimeText.
Local Open Scope N_scope.

Arguments dg : simpl never.
Arguments num : simpl never.

Definition norm_off (o: option Z) : option Z := match o with None => Some 0%Z | _ => o end.
Definition valid_off (o: option Z) : bool :=
  match o with None => true | Some z => Z.ltb (-1440) z && Z.ltb z 1440 end.

Lemma d2d2_length a b : length (d2 a ++ d2 b) = 4%nat. Proof. reflexivity. Qed.
Lemma d2d2_firstn a b : firstn 2 (d2 a ++ d2 b) = d2 a. Proof. reflexivity. Qed.
Lemma d2d2_skipn a b : skipn 2 (d2 a ++ d2 b) = d2 b. Proof. reflexivity. Qed.
Lemma d2_nonempty a : d2 a <> []. Proof. discriminate. Qed.

(* ---------- stage 1: the zone suffix ---------- *)

Lemma parse_zone_signed k X (neg: bool) m :
  has 43 X = false -> has 45 X = false -> m < 1440 ->
  parse_zone k (X ++ (if neg then 45 else 43) :: d2 (m / 60) ++ d2 (m mod 60))
  = Ok (Some (if neg then (- Z.of_N m)%Z else Z.of_N m), X).
Proof.
  intros H43 H45 Hm. unfold parse_zone.
  assert (Htz: all_digits (d2 (m / 60) ++ d2 (m mod 60)) = true)
    by (rewrite all_digits_app, !all_digits_d2; reflexivity).
  rewrite last_app_ne by discriminate.
  replace (last ((if neg then 45 else 43) :: d2 (m / 60) ++ d2 (m mod 60)) 0) with (dg (m mod 60)) by reflexivity.
  rewrite (digit_ne _ 90 (dg_digit _) eq_refl).
  rewrite !has_app, H43, H45, !has_cons, (has_digits 43 _ eq_refl Htz), (has_digits 45 _ eq_refl Htz).
  assert (Hh: m / 60 < 100) by dlia. assert (Hmm: m mod 60 < 100) by dlia.
  destruct neg; cbn [N.eqb Pos.eqb orb negb].
  - rewrite split_at_app by assumption.
    destruct k; rewrite ?d2d2_length; cbn [Nat.eqb negb]; rewrite ?d2d2_length; cbn [Nat.eqb negb];
      rewrite d2d2_firstn, d2d2_skipn, !pyint_digits by (auto using d2_nonempty, all_digits_d2);
      rewrite !num_d2 by assumption; do 3 f_equal; dlia.
  - rewrite split_at_app by assumption.
    destruct k; rewrite ?d2d2_length; cbn [Nat.eqb negb]; rewrite ?d2d2_length; cbn [Nat.eqb negb];
      rewrite d2d2_firstn, d2d2_skipn, !pyint_digits by (auto using d2_nonempty, all_digits_d2);
      rewrite !num_d2 by assumption; do 3 f_equal; dlia.
Qed.

Lemma parse_zone_zone_text k X o :
  has 43 X = false -> has 45 X = false -> valid_off o = true ->
  parse_zone k (X ++ zone_text o) = Ok (norm_off o, X).
Proof.
  intros H43 H45 Hv. destruct o as [z|]; cbn [zone_text norm_off].
  - destruct (Z.eqb_spec z 0) as [->|Hz].
    + unfold parse_zone. rewrite last_last, removelast_last. reflexivity.
    + cbn [valid_off] in Hv. apply andb_true_iff in Hv. destruct Hv as [Hlo Hhi].
      apply Z.ltb_lt in Hlo, Hhi.
      assert (Hm: Z.to_N (Z.abs z) < 1440) by lia.
      pose proof (parse_zone_signed k X (Z.ltb z 0) (Z.to_N (Z.abs z)) H43 H45 Hm) as P.
      rewrite P. do 3 f_equal. destruct (Z.ltb_spec z 0); lia.
  - unfold parse_zone. rewrite last_last, removelast_last. reflexivity.
Qed.

(* ---------- stage 2: the millisecond suffix ---------- *)

Lemma parse_fraction_some D ms :
  all_digits D = true -> ms <> [] -> all_digits ms = true ->
  parse_fraction (D ++ 46 :: ms) = Ok (num ms * 1000, D).
Proof.
  intros HD Hne Hms. unfold parse_fraction.
  rewrite has_app, has_cons, N.eqb_refl, orb_true_r. cbn [orb].
  rewrite split_at_app by (apply has_digits; [reflexivity|assumption]).
  rewrite pyint_digits by assumption. reflexivity.
Qed.

Lemma parse_fraction_none D : all_digits D = true -> parse_fraction D = Ok (0, D).
Proof.
  intros HD. unfold parse_fraction.
  rewrite (has_digits 46 _ eq_refl HD), (has_digits 44 _ eq_refl HD). reflexivity.
Qed.

(* ---------- stage 3: strptime on the fourteen (twelve) digits ---------- *)

Definition date_text (k: tkind) (d: dt) : text :=
  (match k with GenT => d4 (yr d) | UtcT => d2 (yr d mod 100) end)
  ++ d2 (mo d) ++ d2 (dy d) ++ d2 (hh d) ++ d2 (mi d) ++ d2 (ss d).

Lemma date_text_digits k d : all_digits (date_text k d) = true.
Proof.
  unfold date_text. rewrite !all_digits_app, !all_digits_d2.
  destruct k; rewrite ?all_digits_d4, ?all_digits_d2; reflexivity.
Qed.

Lemma forallb_weaken {A} (p q: A -> bool) l :
  (forall x, p x = true -> q x = true) -> forallb p l = true -> forallb q l = true.
Proof.
  intros H. induction l as [|x l IH]; [reflexivity|]. cbn [forallb].
  rewrite !andb_true_iff. intros [H1 H2]. split; auto.
Qed.

Lemma valid_dt_fields d : valid_dt d = true ->
  valid_date (yr d) (mo d) (dy d) = true /\ hh d < 24 /\ mi d < 60 /\ ss d < 60 /\ us d < 1000000
  /\ valid_off (off d) = true.
Proof.
  unfold valid_dt. rewrite !andb_true_iff, !N.ltb_lt. unfold valid_off. tauto.
Qed.

Lemma valid_date_bounds y m d : valid_date y m d = true -> 1 <= y <= 9999 /\ 1 <= m <= 12 /\ 1 <= d <= 31.
Proof.
  unfold valid_date. rewrite !andb_true_iff, !N.leb_le. intros [[[[[H1 H2] H3] H4] H5] H6].
  repeat split; try assumption.
  assert (dim y m <= 31); [|lia].
  unfold dim. destruct m as [|p]; [lia|].
  do 4 (try destruct p as [p|p|]); try lia; destruct (is_leap y); lia.
Qed.

Lemma strptime_date k d :
  valid_dt d = true -> (k = UtcT -> 1969 <= yr d <= 2068) ->
  strptime k (date_text k d) = Ok (yr d, mo d, dy d, hh d, mi d, ss d).
Proof.
  intros Hv Hy. destruct (valid_dt_fields d Hv) as (Hd & Hh & Hmi & Hs & _ & _).
  destruct (valid_date_bounds _ _ _ Hd) as (Hyr & Hmo & Hdy).
  pose proof (date_text_digits k d) as Hdig.
  unfold strptime.
  assert (Hlen: length (date_text k d) = (year_digits k + 10)%nat) by (destruct k; reflexivity).
  rewrite Hlen, Nat.eqb_refl, Hdig. cbn [andb].
  replace (Nat.ltb (year_digits k + 10) (year_digits k + 5)) with false by (destruct k; reflexivity).
  replace (Nat.ltb (year_digits k + 10) (year_digits k + 10)) with false by (destruct k; reflexivity).
  cbn [orb].
  rewrite (forallb_weaken is_digit (fun c => is_digit c || (c =? 32)) _
             (fun x Hx => eq_trans (f_equal (fun b => b || (x =? 32)) Hx) eq_refl) Hdig).
  cbn [negb].
  destruct k.
  - replace (firstn (year_digits GenT) (date_text GenT d)) with (d4 (yr d)) by reflexivity.
    replace (skipn (year_digits GenT) (date_text GenT d))
      with (d2 (mo d) ++ d2 (dy d) ++ d2 (hh d) ++ d2 (mi d) ++ d2 (ss d)) by reflexivity.
    set (r := d2 (mo d) ++ d2 (dy d) ++ d2 (hh d) ++ d2 (mi d) ++ d2 (ss d)).
    replace (firstn 2 (skipn 0 r)) with (d2 (mo d)) by reflexivity.
    replace (firstn 2 (skipn 2 r)) with (d2 (dy d)) by reflexivity.
    replace (firstn 2 (skipn 4 r)) with (d2 (hh d)) by reflexivity.
    replace (firstn 2 (skipn 6 r)) with (d2 (mi d)) by reflexivity.
    replace (firstn 2 (skipn 8 r)) with (d2 (ss d)) by reflexivity.
    rewrite num_d4 by lia. rewrite !num_d2 by lia.
    rewrite Hd. apply N.ltb_lt in Hh, Hmi, Hs. rewrite Hh, Hmi, Hs. reflexivity.
  - specialize (Hy eq_refl).
    replace (firstn (year_digits UtcT) (date_text UtcT d)) with (d2 (yr d mod 100)) by reflexivity.
    replace (skipn (year_digits UtcT) (date_text UtcT d))
      with (d2 (mo d) ++ d2 (dy d) ++ d2 (hh d) ++ d2 (mi d) ++ d2 (ss d)) by reflexivity.
    set (r := d2 (mo d) ++ d2 (dy d) ++ d2 (hh d) ++ d2 (mi d) ++ d2 (ss d)).
    replace (firstn 2 (skipn 0 r)) with (d2 (mo d)) by reflexivity.
    replace (firstn 2 (skipn 2 r)) with (d2 (dy d)) by reflexivity.
    replace (firstn 2 (skipn 4 r)) with (d2 (hh d)) by reflexivity.
    replace (firstn 2 (skipn 6 r)) with (d2 (mi d)) by reflexivity.
    replace (firstn 2 (skipn 8 r)) with (d2 (ss d)) by reflexivity.
    rewrite !num_d2 by dlia.
    replace (if yr d mod 100 <? 69 then 2000 + yr d mod 100 else 1900 + yr d mod 100) with (yr d).
    2:{ destruct (N.ltb_spec (yr d mod 100) 69); dlia. }
    rewrite Hd. apply N.ltb_lt in Hh, Hmi, Hs. rewrite Hh, Hmi, Hs. reflexivity.
Qed.

Lemma pad_time_date k d : pad_time k (date_text k d) = date_text k d.
Proof. destruct k; reflexivity. Qed.

(* ---------- the round trip ---------- *)

Lemma from_dt_split k d :
  from_dt k d = (date_text k d ++ match k with GenT => 46 :: dec3 (us d / 1000) | UtcT => [] end)
                ++ zone_text (off d).
Proof. unfold from_dt, date_text. rewrite <- !app_assoc. reflexivity. Qed.

Theorem as_dt_from_dt k d :
  valid_dt d = true -> in_domain k d = true -> as_dt k (from_dt k d) = Ok (norm_dt k d).
Proof.
  intros Hv Hdom. destruct (valid_dt_fields d Hv) as (_ & _ & _ & _ & Hus & Hoff).
  pose proof (date_text_digits k d) as Hdig.
  unfold as_dt. rewrite from_dt_split.
  assert (Hms: all_digits (dec3 (us d / 1000)) = true) by apply all_digits_dec3.
  rewrite parse_zone_zone_text; [| | |exact Hoff].
  2:{ destruct k; rewrite ?app_nil_r, ?has_app, ?has_cons; rewrite !(has_digits 43 _ eq_refl) by assumption; reflexivity. }
  2:{ destruct k; rewrite ?app_nil_r, ?has_app, ?has_cons; rewrite !(has_digits 45 _ eq_refl) by assumption; reflexivity. }
  cbn [bind].
  destruct k.
  - cbn [in_domain] in Hdom. apply N.eqb_eq in Hdom.
    rewrite parse_fraction_some by (auto using dec3_nonempty).
    cbn [bind]. rewrite pad_time_date, strptime_date by (assumption || discriminate).
    cbn [bind]. rewrite num_dec3 by dlia.
    replace (us d / 1000 * 1000) with (us d) by dlia.
    destruct (N.ltb_spec 999999 (us d)); [lia|].
    unfold norm_dt, norm_off. destruct (off d); reflexivity.
  - cbn [in_domain] in Hdom. apply andb_true_iff in Hdom. destruct Hdom as [Hdom Hy2].
    apply andb_true_iff in Hdom. destruct Hdom as [Hus0 Hy1].
    apply N.eqb_eq in Hus0. apply N.leb_le in Hy1, Hy2.
    rewrite app_nil_r, parse_fraction_none by assumption.
    cbn [bind]. rewrite pad_time_date, strptime_date by (assumption || (intros _; lia)).
    cbn [bind N.ltb N.compare].
    unfold norm_dt, norm_off. destruct (off d); reflexivity.
Qed.

(* same fields -> same instant and same offset *)
Lemma norm_dt_instant k d : in_domain k d = true ->
  dt_instant (norm_dt k d) = dt_instant d /\ dt_offset (norm_dt k d) = dt_offset d.
Proof.
  intros Hdom. unfold dt_instant, dt_offset, norm_dt. cbn [yr mo dy hh mi ss us off].
  destruct k.
  - destruct (off d); split; reflexivity.
  - cbn [in_domain] in Hdom. apply andb_true_iff in Hdom. destruct Hdom as [Hdom _].
    apply andb_true_iff in Hdom. destruct Hdom as [Hus0 _]. apply N.eqb_eq in Hus0.
    rewrite Hus0. destruct (off d); split; reflexivity.
Qed.

Theorem roundtrip k d :
  valid_dt d = true -> in_domain k d = true ->
  exists d', as_dt k (from_dt k d) = Ok d'
             /\ dt_instant d' = dt_instant d /\ dt_offset d' = dt_offset d
             /\ off d' = Some (dt_offset d).
Proof.
  intros Hv Hdom. exists (norm_dt k d). split; [apply as_dt_from_dt; assumption|].
  destruct (norm_dt_instant k d Hdom) as [H1 H2]. repeat split; try assumption.
  unfold norm_dt, dt_offset. cbn [off]. destruct (off d); reflexivity.
Qed.

(* CachingStreamWrapper refines the abstract seekable stream (C11).
   - the repaired wrapper (variant Fix, fixes/F06.diff): for every permitted history, no exclusion;
   - the wrapper as it is (variant Cur): for every permitted history in which no mark is set
     further than bufsize into the cache (the complement of finding F06's class);
   - the wrapper as it is, outside that class: refuted by a three-call history. *)
From Coq Require Import Lia Arith.
From PV Require Import Base.Bytes Model.Wrapper.

(* ---------- lists ---------- *)

Lemma skipn_app_le {X} (a b: list X) n : n <= length a -> skipn n (a ++ b) = skipn n a ++ b.
Proof.
  intros H. rewrite skipn_app. replace (n - length a) with 0 by lia. reflexivity.
Qed.

Lemma skipn_app_ge {X} (a b: list X) n : length a <= n -> skipn n (a ++ b) = skipn (n - length a) b.
Proof.
  intros H. rewrite skipn_app. rewrite (skipn_all2 a) by lia. reflexivity.
Qed.

Lemma firstn_app_le {X} (a b: list X) n : n <= length a -> firstn n (a ++ b) = firstn n a.
Proof.
  intros H. rewrite firstn_app. replace (n - length a) with 0 by lia.
  rewrite firstn_O, app_nil_r. reflexivity.
Qed.

Lemma firstn_app_ge {X} (a b: list X) n : length a <= n -> firstn n (a ++ b) = a ++ firstn (n - length a) b.
Proof.
  intros H. rewrite firstn_app. rewrite (firstn_all2 a) by lia. reflexivity.
Qed.

(* ---------- io.BytesIO ---------- *)

Lemma bio_write_end (c d: bytes) :
  bio_write d (mkBio c (length c)) = mkBio (c ++ d) (length c + length d).
Proof.
  unfold bio_write. destruct d as [|x d].
  - rewrite app_nil_r, Nat.add_0_r. reflexivity.
  - cbn [bpos bbuf]. rewrite firstn_all, Nat.sub_diag. cbn [repn app].
    rewrite skipn_all2 by (cbn [length]; lia). rewrite app_nil_r. reflexivity.
Qed.

(* ---------- read / read_all / peek under the invariant cpos <= |cache| ---------- *)

Definition winv (w: wstate) : Prop := bpos (wcache w) <= length (bbuf (wcache w)).
Definition wdata (w: wstate) : bytes := bbuf (wcache w) ++ raw_rest w.

Lemma w_read_spec n w : winv w ->
  let w' := fst (w_read n w) in
  let r := snd (w_read n w) in
  wdata w' = wdata w
  /\ r = firstn n (skipn (bpos (wcache w)) (wdata w))
  /\ bpos (wcache w') = bpos (wcache w) + length r
  /\ winv w'
  /\ woff w' = woff w /\ wmark w' = wmark w.
Proof.
  destruct w as [R [C cp] off mk]. unfold winv, wdata. cbn [wcache bpos bbuf raw_rest woff wmark].
  intros Hcp. unfold w_read, bio_read. cbn [wcache bpos bbuf raw_rest woff wmark].
  rewrite (skipn_app_le C R cp Hcp).
  set (c := firstn n (skipn cp C)).
  assert (Hc: length c = Nat.min n (length C - cp)).
  { subst c. rewrite firstn_length, skipn_length. reflexivity. }
  destruct (n - length c) as [|k] eqn:En.
  - (* everything came from the cache *)
    cbn [fst snd with_cache wcache bpos bbuf raw_rest woff wmark].
    assert (Hn: n <= length (skipn cp C)) by (rewrite skipn_length; lia).
    rewrite (firstn_app_le _ R n Hn).
    repeat split; try reflexivity. lia.
  - (* the cache is exhausted, the rest comes from the raw stream *)
    assert (Hlen: length (skipn cp C) <= n) by (rewrite skipn_length; lia).
    assert (Ec: c = skipn cp C) by (subst c; apply firstn_all2; exact Hlen).
    assert (Epos: cp + length c = length C) by (rewrite Ec, skipn_length; lia).
    rewrite Epos, bio_write_end.
    cbn [fst snd wcache bpos bbuf raw_rest woff wmark].
    rewrite (firstn_app_ge _ R n Hlen).
    replace (n - length (skipn cp C)) with (S k) by (rewrite <- Ec; lia).
    repeat split.
    + rewrite <- app_assoc. f_equal. apply firstn_skipn.
    + rewrite Ec. reflexivity.
    + rewrite app_length. lia.
    + rewrite app_length. lia.
Qed.

Lemma w_read_all_spec w : winv w ->
  let w' := fst (w_read_all w) in
  let r := snd (w_read_all w) in
  wdata w' = wdata w
  /\ r = skipn (bpos (wcache w)) (wdata w)
  /\ bpos (wcache w') = bpos (wcache w) + length r
  /\ winv w'
  /\ woff w' = woff w /\ wmark w' = wmark w.
Proof.
  destruct w as [R [C cp] off mk]. unfold winv, wdata. cbn [wcache bpos bbuf raw_rest woff wmark].
  intros Hcp. unfold w_read_all, bio_read_all. cbn [wcache bpos bbuf raw_rest woff wmark].
  rewrite (skipn_app_le C R cp Hcp).
  assert (Epos: cp + length (skipn cp C) = length C) by (rewrite skipn_length; lia).
  rewrite Epos, bio_write_end.
  cbn [fst snd wcache bpos bbuf raw_rest woff wmark].
  repeat split.
  - rewrite app_nil_r. reflexivity.
  - rewrite !app_length, skipn_length. lia.
  - rewrite app_length. lia.
Qed.

Lemma w_peek_spec n w : winv w ->
  let w' := fst (w_peek n w) in
  let r := snd (w_peek n w) in
  wdata w' = wdata w
  /\ r = firstn n (skipn (bpos (wcache w)) (wdata w))
  /\ bpos (wcache w') = bpos (wcache w)
  /\ winv w'
  /\ woff w' = woff w /\ wmark w' = wmark w.
Proof.
  intros Hinv. pose proof (w_read_spec n w Hinv) as H. cbv zeta in H.
  unfold w_peek. destruct (w_read n w) as [w1 r] eqn:E. cbn [fst snd] in *.
  destruct H as (Hd & Hr & Hp & Hi & Ho & Hm).
  destruct w1 as [R1 [C1 cp1] off1 mk1]. unfold winv, wdata in *.
  cbn [with_cache bio_seek_cur_back wcache bpos bbuf raw_rest woff wmark] in *.
  repeat split; try assumption; lia.
Qed.

(* ---------- one step ---------- *)

Lemma related_data w s : related w s ->
  winv w /\ skipn (spos s) (sall s) = skipn (bpos (wcache w)) (wdata w).
Proof.
  intros (D & Hall & HD & Hpos & Hcp & _). split; [exact Hcp|].
  rewrite Hall, Hpos. unfold wdata. rewrite skipn_app_ge by lia. f_equal. lia.
Qed.

Lemma related_intro w s D :
  sall s = D ++ wdata w -> length D = woff w -> spos s = woff w + bpos (wcache w) ->
  winv w -> smark s = wmark w -> woff w <= wmark w -> related w s.
Proof. intros. exists D. unfold wdata, winv in *. repeat split; assumption. Qed.

Lemma step_refines bufsize w s o :
  related w s -> op_okb s o = true ->
  snd (wstep Fix bufsize w o) = snd (sstep s o)
  /\ related (fst (wstep Fix bufsize w o)) (fst (sstep s o)).
Proof.
  intros Hrel Hok. destruct (related_data w s Hrel) as [Hinv Hskip].
  destruct Hrel as (D & Hall & HD & Hpos & Hcp & Hmk & Hoff).
  assert (HallD: sall s = D ++ wdata w) by exact Hall.
  destruct o as [n| |n|p|d| |v| ]; cbn [wstep sstep].
  - (* read n *)
    pose proof (w_read_spec n w Hinv) as H. cbv zeta in H.
    destruct (w_read n w) as [w' r]. cbn [fst snd] in *.
    destruct H as (Hd & Hr & Hp & Hi & Ho & Hm).
    rewrite Hskip, <- Hr. split; [reflexivity|].
    apply (related_intro _ _ D); cbn [sall spos smark]; try congruence; try lia.
  - (* read all *)
    pose proof (w_read_all_spec w Hinv) as H. cbv zeta in H.
    destruct (w_read_all w) as [w' r]. cbn [fst snd] in *.
    destruct H as (Hd & Hr & Hp & Hi & Ho & Hm).
    rewrite Hskip, <- Hr. split; [reflexivity|].
    apply (related_intro _ _ D); cbn [sall spos smark]; try congruence; try lia.
  - (* peek n *)
    pose proof (w_peek_spec n w Hinv) as H. cbv zeta in H.
    destruct (w_peek n w) as [w' r]. cbn [fst snd] in *.
    destruct H as (Hd & Hr & Hp & Hi & Ho & Hm).
    rewrite Hskip, <- Hr. split; [reflexivity|].
    apply (related_intro _ _ D); try congruence; try lia.
  - (* seek(p, SEEK_SET), mark <= p <= pos *)
    cbn [op_okb] in Hok. apply andb_prop in Hok. destruct Hok as [H1 H2].
    apply Nat.leb_le in H1, H2. cbn [w_base].
    destruct (Nat.ltb_spec p (woff w)) as [Hlt|Hge]; [lia|].
    cbn [fst snd]. split; [reflexivity|].
    destruct w as [R [C cp] off mk]. unfold wdata, winv in *.
    cbn [with_cache bio_seek_set wcache bpos bbuf raw_rest woff wmark] in *.
    apply (related_intro _ _ D); unfold wdata, winv;
      cbn [sall spos smark wcache bpos bbuf raw_rest woff wmark with_cache bio_seek_set bio_seek_cur_back]; try assumption; lia.
  - (* seek(-d, SEEK_CUR), mark <= pos - d *)
    cbn [op_okb] in Hok. apply Nat.leb_le in Hok. cbn [w_base fst snd].
    destruct w as [R [C cp] off mk]. unfold wdata, winv in *.
    cbn [with_cache bio_seek_cur_back wcache bpos bbuf raw_rest woff wmark] in *.
    split; [f_equal; lia|].
    apply (related_intro _ _ D); unfold wdata, winv;
      cbn [sall spos smark wcache bpos bbuf raw_rest woff wmark with_cache bio_seek_set bio_seek_cur_back]; try assumption; lia.
  - (* tell *)
    cbn [w_base fst snd]. split; [f_equal; lia|]. exists D. repeat split; assumption.
  - (* markedPosition = v, v = pos *)
    cbn [op_okb] in Hok. apply Nat.eqb_eq in Hok. cbn [fst snd]. split; [reflexivity|].
    destruct w as [R [C cp] off mk]. unfold wdata, winv in *.
    unfold w_set_mark. cbn [wcache bpos bbuf raw_rest woff wmark bio_read_all fst] in *.
    destruct (Nat.ltb_spec bufsize cp) as [Hdrop|Hkeep].
    + (* the cache is dropped: what was before the position joins the dropped octets *)
      apply (related_intro _ _ (D ++ firstn cp C)); unfold wdata, winv;
        cbn [sall spos smark wcache bpos bbuf raw_rest woff wmark with_cache bio_seek_set bio_seek_cur_back].
      * rewrite Hall. rewrite <- app_assoc. f_equal. rewrite app_assoc. f_equal.
        symmetry. apply firstn_skipn.
      * rewrite app_length, firstn_length. lia.
      * lia.
      * lia.
      * reflexivity.
      * lia.
    + apply (related_intro _ _ D); unfold wdata, winv;
        cbn [sall spos smark wcache bpos bbuf raw_rest woff wmark with_cache bio_seek_set bio_seek_cur_back]; try assumption; try reflexivity; lia.
  - (* markedPosition *)
    cbn [fst snd]. split; [f_equal; congruence|]. exists D. repeat split; assumption.
Qed.

(* ---------- histories ---------- *)

Lemma run_cons {S} (step: S -> op -> S * out) st o ops :
  outputs (run step st (o :: ops)) = snd (step st o) :: outputs (run step (fst (step st o)) ops).
Proof.
  unfold outputs. cbn [run]. destruct (step st o) as [st1 x]. cbn [fst snd].
  destruct (run step st1 ops). reflexivity.
Qed.

Theorem wrapper_refines bufsize : forall ops w0 s0,
  related w0 s0 -> permitted s0 ops ->
  outputs (run (wstep Fix bufsize) w0 ops) = outputs (run sstep s0 ops).
Proof.
  unfold permitted. induction ops as [|o ops IH]; intros w s Hrel Hperm; [reflexivity|].
  cbn [permittedb] in Hperm. apply andb_prop in Hperm. destruct Hperm as [Hok Hrest].
  destruct (step_refines bufsize w s o Hrel Hok) as [Hout Hrel'].
  rewrite !run_cons, Hout. f_equal. apply IH; assumption.
Qed.

Lemma related_init b : related (w_init b) (s_init b).
Proof. exists []. cbn. repeat split; lia. Qed.

Theorem wrapper_refines_init bufsize b ops :
  permitted (s_init b) ops ->
  outputs (run (wstep Fix bufsize) (w_init b) ops) = outputs (run sstep (s_init b) ops).
Proof. apply wrapper_refines, related_init. Qed.

(* ---------- the wrapper as it is, away from finding F06 ---------- *)

Lemma cur_is_fix_nodrop bufsize w s o :
  related w s -> woff w = 0 ->
  (match o with OSetMark _ => Nat.leb (spos s) bufsize | _ => true end) = true ->
  wstep Cur bufsize w o = wstep Fix bufsize w o /\ woff (fst (wstep Fix bufsize w o)) = 0.
Proof.
  intros (D & Hall & HD & Hpos & Hcp & Hmk & Hoff) H0 Hnd.
  destruct o as [n| |n|p|d| |v| ]; cbn [wstep w_base]; rewrite ?H0.
  - split; [reflexivity|]. pose proof (w_read_spec n w Hcp) as H. cbv zeta in H.
    destruct (w_read n w). cbn [fst snd] in *. lia.
  - split; [reflexivity|]. pose proof (w_read_all_spec w Hcp) as H. cbv zeta in H.
    destruct (w_read_all w). cbn [fst snd] in *. lia.
  - split; [reflexivity|]. pose proof (w_peek_spec n w Hcp) as H. cbv zeta in H.
    destruct (w_peek n w). cbn [fst snd] in *. lia.
  - split; [reflexivity|]. destruct (Nat.ltb p 0); cbn; assumption.
  - split; [reflexivity|]. cbn. assumption.
  - split; [reflexivity|]. cbn. assumption.
  - apply Nat.leb_le in Hnd. unfold w_set_mark.
    destruct (Nat.ltb_spec bufsize (bpos (wcache w))) as [Hdrop|Hkeep]; [lia|].
    split; [reflexivity|]. cbn. assumption.
  - split; [reflexivity|]. cbn. assumption.
Qed.

Theorem wrapper_cur_refines_nodrop bufsize : forall ops w0 s0,
  related w0 s0 -> woff w0 = 0 -> permitted s0 ops -> nodropb bufsize s0 ops = true ->
  outputs (run (wstep Cur bufsize) w0 ops) = outputs (run sstep s0 ops).
Proof.
  unfold permitted. induction ops as [|o ops IH]; intros w s Hrel H0 Hperm Hnd; [reflexivity|].
  cbn [permittedb] in Hperm. apply andb_prop in Hperm. destruct Hperm as [Hok Hrest].
  cbn [nodropb] in Hnd. apply andb_prop in Hnd. destruct Hnd as [Hnd1 Hnd2].
  destruct (cur_is_fix_nodrop bufsize w s o Hrel H0 Hnd1) as [Hsame H0'].
  destruct (step_refines bufsize w s o Hrel Hok) as [Hout Hrel'].
  rewrite !run_cons, Hsame, Hout. f_equal. apply IH; assumption.
Qed.

(* ---------- the wrapper as it is, inside finding F06's class: refuted ---------- *)

(* read(BUF+1); markedPosition = tell(); tell()  --  a permitted history on which the
   wrapper answers 0 where every seekable stream answers BUF+1 *)
Definition f06_ops (bufsize: nat) : list op := [ORead (S bufsize); OSetMark (S bufsize); OTell].
Definition f06_data (bufsize: nat) : bytes := repn (S (S bufsize)) 7%N.

Theorem refuted_renumber_old :
  exists bufsize b ops,
    permitted (s_init b) ops
    /\ nodropb bufsize (s_init b) ops = false
    /\ outputs (run (wstep Cur bufsize) (w_init b) ops) <> outputs (run sstep (s_init b) ops)
    /\ outputs (run (wstep Cur bufsize) (w_init b) ops) = [OBytes (repn (S bufsize) 7%N); ONone; ONum 0]
    /\ outputs (run sstep (s_init b) ops) = [OBytes (repn (S bufsize) 7%N); ONone; ONum (S bufsize)].
Proof.
  exists 4, (f06_data 4), (f06_ops 4).
  split; [vm_compute; reflexivity|]. split; [vm_compute; reflexivity|].
  split; [vm_compute; discriminate|]. split; vm_compute; reflexivity.
Qed.

(* the same three calls at the real buffer size (8192 in CPython), for any size *)
Theorem refuted_renumber_old_any bufsize :
  permitted (s_init (f06_data bufsize)) (f06_ops bufsize)
  /\ nth 2 (outputs (run (wstep Cur bufsize) (w_init (f06_data bufsize)) (f06_ops bufsize))) ONone = ONum 0
  /\ nth 2 (outputs (run sstep (s_init (f06_data bufsize)) (f06_ops bufsize))) ONone = ONum (S bufsize)
  /\ nth 2 (outputs (run (wstep Fix bufsize) (w_init (f06_data bufsize)) (f06_ops bufsize))) ONone = ONum (S bufsize).
Proof.
  assert (Hlen: forall n x, length (repn n x) = n) by (induction n; intros; cbn; congruence).
  assert (Hf: length (firstn (S bufsize) (f06_data bufsize)) = S bufsize).
  { rewrite firstn_length. unfold f06_data. rewrite Hlen. lia. }
  assert (Hperm: permitted (s_init (f06_data bufsize)) (f06_ops bufsize)).
  { unfold permitted, f06_ops. cbn [permittedb op_okb sstep fst s_init spos sall smark skipn andb].
    rewrite Hf. cbn [Nat.add]. rewrite Nat.eqb_refl. reflexivity. }
  split; [exact Hperm|].
  assert (Hs: nth 2 (outputs (run sstep (s_init (f06_data bufsize)) (f06_ops bufsize))) ONone = ONum (S bufsize)).
  { unfold f06_ops. rewrite !run_cons. cbn [nth sstep fst snd s_init spos sall smark skipn].
    rewrite Hf. reflexivity. }
  split; [|split; [exact Hs|]].
  - (* Cur *)
    unfold f06_ops. rewrite !run_cons. cbn [nth].
    cbn [wstep]. pose proof (w_read_spec (S bufsize) (w_init (f06_data bufsize))) as H.
    cbv zeta in H. destruct (w_read (S bufsize) (w_init (f06_data bufsize))) as [w1 r] eqn:E.
    cbn [fst snd] in *. destruct H as (Hd & Hr & Hp & Hi & Ho & Hm); [unfold winv, w_init; cbn [wcache bpos bbuf length]; lia|].
    cbn [w_init wcache bpos wdata bbuf raw_rest app skipn] in *.
    unfold wdata in Hr. cbn [w_init wcache bbuf raw_rest app skipn] in Hr.
    assert (Hp1: bpos (wcache w1) = S bufsize) by (rewrite Hp, Hr, Hf; reflexivity).
    unfold w_set_mark. rewrite Hp1.
    destruct (Nat.ltb_spec bufsize (S bufsize)) as [_|]; [|lia]. reflexivity.
  - rewrite (wrapper_refines_init bufsize _ _ Hperm). exact Hs.
Qed.

(* ---------- a client that decides from the answers so far ---------- *)

Theorem client_refines bufsize (c: client) : forall fuel w s hist,
  related w s -> client_permittedb c fuel s hist = true ->
  run_client (wstep Fix bufsize) c fuel w hist = run_client sstep c fuel s hist.
Proof.
  induction fuel as [|f IH]; intros w s hist Hrel Hperm; [reflexivity|].
  cbn [run_client client_permittedb] in *. destruct (c hist) as [o|]; [|reflexivity].
  apply andb_prop in Hperm. destruct Hperm as [Hok Hrest].
  destruct (step_refines bufsize w s o Hrel Hok) as [Hout Hrel'].
  destruct (wstep Fix bufsize w o) as [w' x]. destruct (sstep s o) as [s' y].
  cbn [fst snd] in *. subst y. apply IH; assumption.
Qed.

(* ---------- asSeekableStream ---------- *)

Theorem kinds_normalise b :
  as_seekable (SBytes b) = Ok (StSeek (s_init b))
  /\ as_seekable (SBytesIO b 0) = Ok (StSeek (s_init b))
  /\ as_seekable (SOctetString b) = Ok (StSeek (s_init b))
  /\ as_seekable (SSeekable b 0) = Ok (StSeek (s_init b))
  /\ as_seekable (SNonSeekable b) = Ok (StWrap (w_init b))
  /\ as_seekable SOther = Err EUnsupported.
Proof. repeat split. Qed.

Definition stream_related (st: stream) (s: sstate) : Prop :=
  match st with StSeek s' => s' = s | StWrap w => related w s end.

Lemma stream_step_refines bufsize st s o :
  stream_related st s -> op_okb s o = true ->
  snd (stream_step Fix bufsize st o) = snd (sstep s o)
  /\ stream_related (fst (stream_step Fix bufsize st o)) (fst (sstep s o)).
Proof.
  destruct st as [s'|w]; cbn [stream_related stream_step].
  - intros -> _. destruct (sstep s o). split; reflexivity.
  - intros Hrel Hok. destruct (step_refines bufsize w s o Hrel Hok) as [H1 H2].
    destruct (wstep Fix bufsize w o). cbn [fst snd] in *. split; assumption.
Qed.

Lemma stream_client_refines bufsize (c: client) : forall fuel st s hist,
  stream_related st s -> client_permittedb c fuel s hist = true ->
  run_client (stream_step Fix bufsize) c fuel st hist = run_client sstep c fuel s hist.
Proof.
  induction fuel as [|f IH]; intros st s hist Hrel Hperm; [reflexivity|].
  cbn [run_client client_permittedb] in *. destruct (c hist) as [o|]; [|reflexivity].
  apply andb_prop in Hperm. destruct Hperm as [Hok Hrest].
  destruct (stream_step_refines bufsize st s o Hrel Hok) as [Hout Hrel'].
  destruct (stream_step Fix bufsize st o) as [st' x]. destruct (sstep s o) as [s' y].
  cbn [fst snd] in *. subst y. apply IH; assumption.
Qed.

(* every substrate kind that asSeekableStream accepts, positioned at its start, hands the
   client a stream that answers exactly as the abstract seekable stream over the same octets *)
Theorem kinds_agree bufsize (c: client) fuel (k1 k2: substrate) b st1 st2 :
  substrate_bytes k1 = Some b -> substrate_bytes k2 = Some b ->
  as_seekable k1 = Ok st1 -> as_seekable k2 = Ok st2 ->
  client_permittedb c fuel (s_init b) [] = true ->
  run_client (stream_step Fix bufsize) c fuel st1 [] = run_client (stream_step Fix bufsize) c fuel st2 [].
Proof.
  intros Hb1 Hb2 H1 H2 Hperm.
  assert (Hk: forall k st, substrate_bytes k = Some b -> as_seekable k = Ok st -> stream_related st (s_init b)).
  { intros k st Hb Hs. destruct k as [x|x p|x|x p|x|]; cbn in Hb, Hs; try discriminate.
    - inversion Hb; inversion Hs; subst. reflexivity.
    - destruct p; [|discriminate]. inversion Hb; inversion Hs; subst. reflexivity.
    - inversion Hb; inversion Hs; subst. reflexivity.
    - destruct p; [|discriminate]. inversion Hb; inversion Hs; subst. reflexivity.
    - inversion Hb; inversion Hs; subst. apply related_init. }
  rewrite (stream_client_refines bufsize c fuel st1 (s_init b) [] (Hk _ _ Hb1 H1) Hperm).
  rewrite (stream_client_refines bufsize c fuel st2 (s_init b) [] (Hk _ _ Hb2 H2) Hperm).
  reflexivity.
Qed.

(* Definitions (only) that the statements of Props/C04.v and Props/C12.v speak about, on top of the
   encoder model (Model/Enc.v), the process model (Model/Proc.v) and the container model. *)
From PV Require Import Spec.ListSpec Model.Proc Model.Enc.
Local Open Scope nat_scope.

(* ---- C04: the canonical sorts ---- *)
Definition max_len (chunks: list bytes) : nat := fold_right (fun c acc => Nat.max (length c) acc) O chunks.

(* no two distinct members agree up to trailing zero octets (true of TLV encodings: they are prefix-free) *)
Definition pad_distinct (l: list bytes) : Prop :=
  forall a b, In a l -> In b l -> pad_to (max_len l) a = pad_to (max_len l) b -> a = b.

(* the (sort key, encoding) pairs of the members of a SET: members whose tags do not order them are the same *)
Definition tags_distinct (parts: list (tagset * bytes)) : Prop :=
  forall x y, In x parts -> In y parts ->
              tagset_ltb (fst y) (fst x) = false -> tagset_ltb (fst x) (fst y) = false -> x = y.

(* every member encodes, to these octets *)
Definition elems_encode (c: codec) (t: ty) (o: eopts) (xs: list val) (ps: list bytes) : Prop :=
  Forall2 (fun x p => enc_with c (enc_content c) t o x = Ok p) xs ps.

Definition C04_ha : list rop :=
  [RSetItem (KName 0) (PInt 1); RSetName 3 (Some (PAsn 2)); RSetName 2 (Some (PInt 7)); RValues; RClone true].
Definition C04_hb : list rop :=
  [RSetPos (-1) (Some (PInt 2)); RGetItem (KName 1); RSetItem (KPos 0) (PAsn 1); REncode].

(* ---- C12: a suspended streaming decoder: waiting with its continuation and stream, or finished ---- *)
Definition dstate (A: Type) : Type := ((proc A * stream) + (res A * stream))%type.
Definition dstep {A} (st: dstate A) (e: envev) : dstate A :=
  match st with
  | inl (p, s) => resume p (apply_ev e s)
  | inr r => inr r
  end.

Definition C12_two : proc bytes := readN 2.
Definition C12_w : list (nat * envev) :=
  [(0, Arrive [5]%N); (2, Arrive [1; 2; 3]%N); (1, Poll); (0, Arrive [6]%N); (1, Arrive [7; 8]%N); (2, Close)].

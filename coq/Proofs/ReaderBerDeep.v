(* C03, second half: BER encoder outputs in every mode (definite / indefinite lengths, any
   maxChunkSize) are read back by the independent reader as the same abstract value:
   SEQUENCE (mandatory, OPTIONAL, DEFAULT components) and SEQUENCE OF nested to any depth over the
   simple types, every one of them under any stack of tags.  Outside finding F01. *)
From Coq Require Import Lia.
From PV Require Import Base.Bytes Model.Tag Model.TableTypes Model.Types Model.Enc Gen.Tables Spec.X690
     Proofs.Bits Proofs.SpecOctets Proofs.TagAlgebra
     Proofs.DerReference Proofs.ReaderParse Proofs.ReaderInterp
     Proofs.ReaderSound Proofs.ReaderFrame Proofs.ReaderModel Proofs.ReaderBer.
From PV Require Proofs.TagsetShape.
Local Open Scope N_scope.

(* ---------- side conditions for the indefinite form ---------- *)

(* the component does not start with the identifier octet 00 *)
Definition first_nz (ft: ty) : bool :=
  match first_tags ft with
  | Some [(c, n)] => match c with Univ => negb (N.eqb n 0) | _ => true end
  | _ => false
  end.

Definition comp_ok (ft: ty) : bool := no_f01 ft && eoc_safe ft && first_nz ft.

Fixpoint ber_sub (T: ty) : bool :=
  match T with
  | TImp _ x | TExp _ x => ber_sub x
  | TSeqOf t => comp_ok t && ber_sub t
  | TSeq fs =>
      (fix go (fs: list (presence * ty)) : bool :=
         match fs with [] => true | (p, ft) :: r => comp_ok ft && ber_sub ft && go r end) fs
  | _ => true
  end.

Definition sub_fields : list (presence * ty) -> bool :=
  fix go (fs: list (presence * ty)) : bool :=
    match fs with [] => true | (p, ft) :: r => comp_ok ft && ber_sub ft && go r end.

Lemma ber_sub_seq fs : ber_sub (TSeq fs) = sub_fields fs.
Proof. reflexivity. Qed.

(* what indefinite mode asks of the whole type *)
Definition indef_ok (T: ty) : bool := no_f01 T && eoc_safe T && ber_sub T.

Lemma first_nz_head ft a e : first_nz ft = true -> reads_as ft a e -> nz_head e.
Proof.
  unfold first_nz. intros H Hr. destruct (first_tags ft) as [[|[c n] [|]]|] eqn:E; try discriminate H.
  apply (reads_nz_head ft a e c n Hr E). destruct c; [right|left; discriminate|left; discriminate|left; discriminate].
  destruct (N.eqb_spec n 0) as [->|Hn]; [discriminate H|exact Hn].
Qed.

(* ---------- the model's component loops under BER, named ---------- *)

Definition seqof_parts_ber (t: ty) (o: eopts) : list val -> res (list bytes) :=
  fix go (xs: list val) : res (list bytes) :=
    match xs with
    | [] => Ok []
    | x :: r => do p <- enc BER t o x; do ps <- go r; Ok (p :: ps)
    end.

Lemma enc_content_seqof_ber t fl o xs :
  enc_content BER (TSeqOf t) EcSeqOfBer fl o (VList xs) = (do parts <- seqof_parts_ber t o xs; Ok (concat parts, true)).
Proof. reflexivity. Qed.

Definition seq_parts_ber (o: eopts) : list (presence * ty) -> list (option val) -> res (list (tagset * bytes)) :=
  fix go (fs: list (presence * ty)) (vs: list (option val)) : res (list (tagset * bytes)) :=
    match fs with
    | [] => Ok []
    | (p, ft) :: fs' =>
        let ov := match vs with x :: _ => x | [] => None end in
        let vs' := match vs with _ :: r => r | [] => [] end in
        let emit (x: val) := do b <- enc BER ft o x; do rest <- go fs' vs';
                             Ok ((set_sort_key false ft x, b) :: rest) in
        match p, ov with
        | Opt, None => go fs' vs'
        | Def d, None => go fs' vs'
        | Def d, Some x => match val_py_eq x d with
                           | Some true => go fs' vs'
                           | Some false => emit x
                           | None => Err EUnmodelled end
        | Req, None => if all_optional_container ft then emit (VRec []) else Err EMalformed
        | _, Some x => emit x
        end
    end.

Lemma enc_content_seq_ber fs o vs :
  enc_content BER (TSeq fs) EcSeq (mkEncFlags true false false None 0 0) o (VRec vs) =
  (do parts <- seq_parts_ber o fs vs; Ok (concat (map snd parts), true)).
Proof. reflexivity. Qed.

Lemma seq_parts_ber_cons o p ft fs' vs :
  seq_parts_ber o ((p, ft) :: fs') vs =
  let emit (x: val) := do b <- enc BER ft o x; do rest <- seq_parts_ber o fs' (otl vs);
                       Ok ((set_sort_key false ft x, b) :: rest) in
  match p, ohd vs with
  | Opt, None => seq_parts_ber o fs' (otl vs)
  | Def d, None => seq_parts_ber o fs' (otl vs)
  | Def d, Some x => match val_py_eq x d with
                     | Some true => seq_parts_ber o fs' (otl vs)
                     | Some false => emit x
                     | None => Err EUnmodelled end
  | Req, None => if all_optional_container ft then emit (VRec []) else Err EMalformed
  | _, Some x => emit x
  end.
Proof. reflexivity. Qed.

(* ---------- the induction ---------- *)

Definition ber_reads (T: ty) : Prop :=
  forall o v, o_ifne o = false -> der_ref_deep T v = true -> unamb T = true ->
    (o_def o = false -> ber_sub T = true) -> content_fact BER T o v.

(* one component, through the whole encoder call *)
Lemma component_reads ft oc x b0 : ber_reads ft -> o_ifne oc = false ->
  der_ref_deep ft x = true -> unamb ft = true -> (o_def oc = false -> comp_ok ft = true /\ ber_sub ft = true) ->
  enc BER ft oc x = Ok b0 -> N.of_nat (length b0) < max_len ->
  reads_as ft (abs ft x) b0 /\ (o_def oc = false -> nz_head b0).
Proof.
  intros Hft Hi Hx Hu Hsub He Hl.
  assert (Hr: reads_as ft (abs ft x) b0).
  { apply (reads_of_content BER ft oc x b0); [|exact Hi| |exact He|exact Hl].
    - apply (Hft (fix_opts BER oc) x); [exact Hi|exact Hx|exact Hu|].
      intros Hd. apply Hsub. exact Hd.
    - intros Hd. destruct (Hsub Hd) as [Hc _]. unfold comp_ok in Hc.
      apply andb_true_iff in Hc. destruct Hc as [Hc _]. apply andb_true_iff in Hc. exact Hc. }
  split; [exact Hr|]. intros Hd. destruct (Hsub Hd) as [Hc _]. unfold comp_ok in Hc.
  apply andb_true_iff in Hc. destruct Hc as [_ Hnz]. apply (first_nz_head ft _ b0 Hnz Hr).
Qed.

Lemma seqof_reads_ber t oc : ber_reads t -> o_ifne oc = false -> unamb t = true ->
  (o_def oc = false -> comp_ok t = true /\ ber_sub t = true) ->
  forall xs parts, forallb (der_ref_deep t) xs = true -> seqof_parts_ber t oc xs = Ok parts ->
  N.of_nat (length (concat parts)) < max_len ->
  Forall2 (reads_as t) (map (abs t) xs) parts /\ (o_def oc = false -> Forall nz_head parts).
Proof.
  intros Ht Hi Hu Hsub. induction xs as [|x r IH]; intros parts Hd Hp Hl.
  - cbn in Hp. injection Hp as <-. split; [constructor|intros _; constructor].
  - cbn [forallb] in Hd. apply andb_true_iff in Hd. destruct Hd as [Hx Hr].
    change (seqof_parts_ber t oc (x :: r)) with
      (do p <- enc BER t oc x; do ps <- seqof_parts_ber t oc r; Ok (p :: ps)) in Hp.
    destruct (enc BER t oc x) as [b0|] eqn:Eb; cbn [bind] in Hp; [|discriminate Hp].
    destruct (seqof_parts_ber t oc r) as [ps|] eqn:Er; cbn [bind] in Hp; [|discriminate Hp].
    injection Hp as <-. destruct (concat_length_head b0 ps) as [L1 L2].
    destruct (component_reads t oc x b0 Ht Hi Hx Hu Hsub Eb) as [H1 H2]; [lia|].
    destruct (IH ps Hr eq_refl) as [H3 H4]; [lia|].
    cbn [map]. split; [constructor; assumption|]. intros Hdm. constructor; [apply H2; exact Hdm|apply H4; exact Hdm].
Qed.

Lemma seq_reads_ber oc : o_ifne oc = false ->
  forall fs, Forall (fun f => ber_reads (snd f)) fs ->
  forall vs parts, unamb_fields fs = true -> deep_fields fs vs = true ->
  (o_def oc = false -> sub_fields fs = true) ->
  seq_parts_ber oc fs vs = Ok parts -> N.of_nat (length (concat (map snd parts))) < max_len ->
  exists kids, Forall2 parses (map snd parts) kids /\ fields_read fs kids (abs_fields fs vs) /\
               (forall ft0, later_ok ft0 fs = true -> head_differs ft0 kids) /\
               (o_def oc = false -> Forall nz_head (map snd parts)).
Proof.
  intros Hi. induction fs as [|[p ft] fs' IH]; intros Hall vs parts Hu Hd Hsub Hp Hl.
  - cbn in Hp. injection Hp as <-. exists []. split; [constructor|split; [constructor|split]].
    + intros; exact I.
    + intros _. constructor.
  - inversion Hall as [|? ? Hft Hall']; subst. cbn [snd] in Hft. specialize (IH Hall').
    change (unamb_fields ((p, ft) :: fs')) with
      (unamb ft && (match p with Req => true | _ => later_ok ft fs' end) && unamb_fields fs')%bool in Hu.
    apply andb_true_iff in Hu. destruct Hu as [Hu Hu3]. apply andb_true_iff in Hu. destruct Hu as [Hu1 Hu2].
    rewrite deep_fields_cons in Hd. apply andb_true_iff in Hd. destruct Hd as [Hd1 Hd2].
    assert (Hsub': o_def oc = false -> (comp_ok ft = true /\ ber_sub ft = true) /\ sub_fields fs' = true).
    { intros Hdm. specialize (Hsub Hdm).
      change (sub_fields ((p, ft) :: fs')) with (comp_ok ft && ber_sub ft && sub_fields fs')%bool in Hsub.
      apply andb_true_iff in Hsub. destruct Hsub as [Hs Hs3]. apply andb_true_iff in Hs. tauto. }
    rewrite seq_parts_ber_cons in Hp. rewrite abs_fields_cons. cbv zeta in Hp.
    (* the component is written *)
    assert (Hpresent: forall x, der_ref_deep ft x = true ->
              (do b <- enc BER ft oc x; do rest <- seq_parts_ber oc fs' (otl vs);
               Ok ((set_sort_key false ft x, b) :: rest)) = Ok parts ->
              exists kids, Forall2 parses (map snd parts) kids /\
                fields_read ((p, ft) :: fs') kids (Some (abs ft x) :: abs_fields fs' (otl vs)) /\
                (forall ft0, later_ok ft0 ((p, ft) :: fs') = true -> head_differs ft0 kids) /\
                (o_def oc = false -> Forall nz_head (map snd parts))).
    { intros x Hx H.
      destruct (enc BER ft oc x) as [b0|] eqn:Eb; cbn [bind] in H; [|discriminate H].
      destruct (seq_parts_ber oc fs' (otl vs)) as [rest|] eqn:Er; cbn [bind] in H; [|discriminate H].
      injection H as <-. cbn [map snd] in Hl |- *. destruct (concat_length_head b0 (map snd rest)) as [L1 L2].
      destruct (IH (otl vs) rest Hu3 Hd2) as (kids & Hk & Hf & _ & Hnz); [intros Hdm; apply Hsub'; exact Hdm|exact Er|lia|].
      destruct (component_reads ft oc x b0 Hft Hi Hx Hu1) as [Hr Hz]; [intros Hdm; apply Hsub'; exact Hdm|exact Eb|lia|].
      destruct (reads_none ft _ b0 Hr) as (n & Hpn & Hin & Hftag).
      exists (n :: kids). split; [constructor; assumption|]. split; [apply FRpresent; assumption|]. split.
      - intros ft0 Hl0. cbn [later_ok] in Hl0. apply andb_true_iff in Hl0. destruct Hl0 as [Hdj _].
        unfold tags_disjoint in Hdj. rewrite Hftag in Hdj. cbn [head_differs].
        destruct (may_start ft0 (node_tag n)); [discriminate Hdj|reflexivity].
      - intros Hdm. constructor; [apply Hz; exact Hdm|apply Hnz; exact Hdm]. }
    (* the component is left out *)
    assert (Habsent: (match p with Req => false | _ => true end) = true ->
              seq_parts_ber oc fs' (otl vs) = Ok parts ->
              exists kids, Forall2 parses (map snd parts) kids /\ fields_read fs' kids (abs_fields fs' (otl vs)) /\
                head_differs ft kids /\
                (forall ft0, later_ok ft0 ((p, ft) :: fs') = true -> head_differs ft0 kids) /\
                (o_def oc = false -> Forall nz_head (map snd parts))).
    { intros Hpp H.
      destruct (IH (otl vs) parts Hu3 Hd2) as (kids & Hk & Hf & Hh & Hnz); [intros Hdm; apply Hsub'; exact Hdm|exact H|exact Hl|].
      exists kids. split; [exact Hk|split; [exact Hf|]]. split; [|split; [|exact Hnz]].
      - apply Hh. destruct p; [discriminate Hpp|exact Hu2|exact Hu2].
      - intros ft0 Hl0. cbn [later_ok] in Hl0. apply andb_true_iff in Hl0. destruct Hl0 as [_ Hl0].
        apply Hh. destruct p; [discriminate Hpp|exact Hl0|exact Hl0]. }
    destruct p as [| |d]; destruct (ohd vs) as [x|].
    + apply (Hpresent x Hd1 Hp).
    + discriminate Hd1.
    + apply andb_true_iff in Hd1. destruct Hd1 as [_ Hx]. apply (Hpresent x Hx Hp).
    + destruct (Habsent eq_refl Hp) as (kids & Hk & Hf & Hh & Hl0 & Hnz).
      exists kids. split; [exact Hk|split; [apply FRopt; assumption|split; assumption]].
    + apply andb_true_iff in Hd1. destruct Hd1 as [Hd1 Hdd]. apply andb_true_iff in Hd1. destruct Hd1 as [Hs Hx].
      destruct (val_py_eq x d) as [[|]|] eqn:Eq; [| |discriminate Hp].
      * destruct (Habsent eq_refl Hp) as (kids & Hk & Hf & Hh & Hl0 & Hnz).
        exists kids. split; [exact Hk|split; [|split; assumption]].
        pose proof (py_eq_is_default ft x d true Hs Hx Hdd Eq) as Hdef.
        rewrite (default_is_equal ft x d Hs Hx Hdd Hdef). apply FRdef; assumption.
      * apply (Hpresent x Hx Hp).
    + destruct (Habsent eq_refl Hp) as (kids & Hk & Hf & Hh & Hl0 & Hnz).
      exists kids. split; [exact Hk|split; [apply FRdef; assumption|split; assumption]].
Qed.

Lemma cons_rb indef content :
  ident Univ (true || true) 16 ++ inner_rb true indef content = ctlv indef Univ 16 content.
Proof. destruct indef; reflexivity. Qed.

Theorem ber_reads_deep : forall T, ber_reads T.
Proof.
  induction T as [| | | | | | | | n|fs IH|fs IH|t IH|t IH|alts IH| |tg x IH|tg x IH] using ty_ind'.
  16: { (* IMPLICIT *) exact IH. }
  16: { (* EXPLICIT *) exact IH. }
  1-9: intros o v _ Hd _ _; apply content_fact_simple; exact Hd.
  - (* SEQUENCE *)
    intros o v Hi Hd Hu Hsub cd fl content ic Hce He Hl. cbn [base_of] in *.
    destruct v as [bb|z|bs|bo|cs| |arcs|r|vs|xs|i x|ab]; try discriminate Hd.
    rewrite deep_seq in Hd. rewrite unamb_seq in Hu. rewrite ber_sub_seq in Hsub.
    encoder_is' Hce. rewrite enc_content_seq_ber in He.
    destruct (seq_parts_ber _ fs vs) as [parts|] eqn:Ep; cbn [bind] in He; [|discriminate He].
    injection He as <- <-.
    split; [reflexivity|split; [reflexivity|]].
    exists (utag true 16). split; [reflexivity|split; [reflexivity|]].
    destruct (seq_reads_ber (mkOpts (o_def o) (o_chunk o) false) eq_refl fs IH vs parts Hu Hd Hsub Ep Hl) as (kids & Hk & Hf & _ & Hnz).
    cbn [tcon tnum utag]. rewrite cons_rb, abs_seq.
    apply (reads_seq fs _ _ _ kids Hk Hf).
    + intros Hdm. apply Hnz. apply Bool.negb_true_iff in Hdm. exact Hdm.
    + intros _. exact Hl.
  - (* SET *) intros o v _ Hd. destruct v; discriminate Hd.
  - (* SEQUENCE OF *)
    intros o v Hi Hd Hu Hsub cd fl content ic Hce He Hl. cbn [base_of] in *.
    destruct v as [bb|z|bs|bo|cs| |arcs|r|vs|xs|i x|ab]; try discriminate Hd. cbn [der_ref_deep unamb] in Hd, Hu.
    encoder_is' Hce. rewrite enc_content_seqof_ber in He.
    destruct (seqof_parts_ber t _ xs) as [parts|] eqn:Ep; cbn [bind] in He; [|discriminate He].
    injection He as <- <-.
    split; [reflexivity|split; [reflexivity|]].
    exists (utag true 16). split; [reflexivity|split; [reflexivity|]].
    assert (Hsub': o_def o = false -> comp_ok t = true /\ ber_sub t = true).
    { intros Hdm. specialize (Hsub Hdm). cbn [ber_sub] in Hsub. apply andb_true_iff in Hsub. exact Hsub. }
    destruct (seqof_reads_ber t (mkOpts (o_def o) (o_chunk o) false) IH eq_refl Hu Hsub' xs parts Hd Ep Hl) as [Hr Hnz].
    cbn [tcon tnum utag abs]. rewrite cons_rb.
    apply (reads_seqof t _ _ _ Hr).
    + intros Hdm. apply Hnz. apply Bool.negb_true_iff in Hdm. exact Hdm.
    + intros _. exact Hl.
  - (* SET OF *) intros o v _ Hd. destruct v; discriminate Hd.
  - (* CHOICE *) intros o v _ Hd. destruct v; discriminate Hd.
  - (* ANY *) intros o v _ Hd. destruct v; discriminate Hd.
Qed.

(* ====================================================================== *)
(* the theorem                                                             *)
(* ====================================================================== *)

(* (2) every BER encoder output, in every mode, is read by the independent reader as the same
   abstract value and consumed exactly *)
Theorem ber_output_reads_deep : forall T v defMode chunk b,
  der_ref_deep T v = true -> unamb T = true -> (defMode = false -> indef_ok T = true) ->
  encode BER defMode chunk T v = Ok b -> N.of_nat (length b) < max_len ->
  X690.read T b = Some (abs T v, []).
Proof.
  intros T v d k b Hd Hu Hindef He Hl. rewrite <- (app_nil_r b). apply reads_read.
  assert (Hok: d = false -> (no_f01 T = true /\ eoc_safe T = true) /\ ber_sub T = true).
  { intros Hdm. specialize (Hindef Hdm). unfold indef_ok in Hindef.
    apply andb_true_iff in Hindef. destruct Hindef as [H12 H3]. apply andb_true_iff in H12. tauto. }
  apply (reads_of_content BER T (mkOpts d k false) v b); [|reflexivity| |exact He|exact Hl].
  - apply (ber_reads_deep T (fix_opts BER (mkOpts d k false)) v); [reflexivity|exact Hd|exact Hu|].
    intros Hdm. apply Hok. exact Hdm.
  - intros Hdm. apply Hok. exact Hdm.
Qed.

(* ---- the hypotheses are satisfiable on non-trivial inputs ---- *)

Example ber_output_reads_deep_witness :
  let T := TImp (mkTag Appl false 7) (TSeq [
     (Req, TInt);
     (Opt, TImp (mkTag Ctx false 0) (TStr 12));
     (Def (VBool false), TImp (mkTag Ctx false 1) TBool);
     (Def (VInt 5), TImp (mkTag Ctx false 2) TInt);
     (Req, TExp (mkTag Ctx false 3) (TSeqOf (TSeq [(Req, TOid); (Opt, TNull)])));
     (Opt, TBits)]) in
  let v := VRec [Some (VInt 300); Some (VChars [[104];[105];[33]]); Some (VBool false); Some (VInt 6);
     Some (VList [VRec [Some (VOid [1;2;840]); Some VNull]; VRec [Some (VOid [2;5]); None]]);
     Some (VBits [true;false;true])] in
  der_ref_deep T v = true /\ unamb T = true /\ indef_ok T = true /\
  (exists b, encode BER false 2 T v = Ok b /\ N.of_nat (length b) < max_len /\ read T b = Some (abs T v, [])) /\
  (exists b, encode BER true 0 T v = Ok b /\ N.of_nat (length b) < max_len /\ read T b = Some (abs T v, [])).
Proof.
  cbv zeta. split; [vm_compute; reflexivity|]. split; [vm_compute; reflexivity|]. split; [vm_compute; reflexivity|].
  split; (eexists; split; [vm_compute; reflexivity|]; split; vm_compute; reflexivity).
Qed.

(* finding F01 inside a SEQUENCE: a component [1] EXPLICIT BOOLEAN in indefinite mode: the stray
   00 00 after the component is taken for the end of the SEQUENCE's contents, and the SEQUENCE's own
   end-of-contents octets are left over *)
Example ber_output_reads_deep_refuted_F01 :
  let T := TSeq [(Req, TExp (mkTag Ctx false 1) TBool); (Req, TInt)] in
  let v := VRec [Some (VBool true); Some (VInt 5)] in
  der_ref_deep T v = true /\ unamb T = true /\ indef_ok T = false /\
  encode BER false 0 T v = Ok [48; 128; 161; 3; 1; 1; 1; 0; 0; 2; 1; 5; 0; 0] /\
  read T [48; 128; 161; 3; 1; 1; 1; 0; 0; 2; 1; 5; 0; 0] = None.
Proof. vm_compute. repeat split. Qed.

Print Assumptions ber_reads_deep.
Print Assumptions ber_output_reads_deep.

(* Schedule independence for decoders that may ask "is the stream at its end" (AtEOS) but never
   "give me everything that is there" (ReadAll), and the item loop of a streaming client. *)
From PV Require Import Model.Proc Proofs.ProcSim.
From Coq Require Import Lia.

(* ---------- trees without ReadAll ---------- *)
Inductive clean_sched {A} : proc A -> Prop :=
| cs_Ret a : clean_sched (Ret a)
| cs_Raise e : clean_sched (Raise e)
| cs_ReadN n k : (forall b, clean_sched (k b)) -> clean_sched (ReadN n k)
| cs_Tell k : (forall q, clean_sched (k q)) -> clean_sched (Tell k)
| cs_SeekBack d k : clean_sched k -> clean_sched (SeekBack d k)
| cs_Mark k : clean_sched k -> clean_sched (Mark k)
| cs_GetMark k : (forall q, clean_sched (k q)) -> clean_sched (GetMark k)
| cs_AtEOS k : (forall b, clean_sched (k b)) -> clean_sched (AtEOS k).

Lemma clean_clean_sched {A} (p: proc A) : clean p -> clean_sched p.
Proof. induction 1; constructor; auto. Qed.

(* extension that respects closedness: a closed stream receives nothing more and stays closed *)
Definition extends_c (s1 s2: stream) : Prop :=
  extends s1 s2 /\ (closed s1 = true -> arrived s2 = arrived s1 /\ closed s2 = true).

Lemma extends_c_setpos s1 s2 q1 q2 : extends_c s1 s2 -> q1 = q2 -> extends_c (setpos s1 q1) (setpos s2 q2).
Proof. intros [Hx Hc] Hq. split; [apply extends_setpos; assumption|exact Hc]. Qed.

Lemma extends_c_setmark s1 s2 m1 m2 : extends_c s1 s2 -> m1 = m2 -> extends_c (setmark s1 m1) (setmark s2 m2).
Proof. intros [Hx Hc] Hq. split; [apply extends_setmark; assumption|exact Hc]. Qed.

Lemma attempt_got_ext_c s1 s2 n c s1' :
  extends_c s1 s2 -> attempt s1 n = (Got c, s1') ->
  exists s2', attempt s2 n = (Got c, s2') /\ extends_c s1' s2' /\ s2' = setpos s2 (pos s1').
Proof.
  intros [Hx Hc] H. destruct (attempt_got_ext _ _ _ _ _ Hx H) as [s2' [E2 [Hx2 Hs2]]].
  exists s2'. split; [exact E2|]. split; [|exact Hs2]. split; [exact Hx2|].
  destruct (attempt_frame _ _ _ _ H) as [Ha [Hcl _]]. rewrite Ha, Hcl. subst s2'. exact Hc.
Qed.

(* what AtEOS sees on the two streams *)
Lemma avail_nonempty_ext s1 s2 : extends s1 s2 ->
  Nat.eqb (length (avail s1)) 0 = false -> Nat.eqb (length (avail s2)) 0 = false.
Proof.
  intros Hx E. apply Nat.eqb_neq in E. destruct (avail_ext _ _ Hx E) as [more Hav].
  apply Nat.eqb_neq. rewrite Hav, app_length. lia.
Qed.

Lemma avail_closed_ext s1 s2 : extends_c s1 s2 -> closed s1 = true ->
  avail s2 = avail s1 /\ closed s2 = true.
Proof.
  intros [[Hp _] Hc] Hcl. destruct (Hc Hcl) as [Ha Hc2]. split; [|exact Hc2].
  unfold avail. rewrite Ha, Hp. reflexivity.
Qed.

(* ---------- simulation ---------- *)
Lemma resume_done_ext_sched {A} (p: proc A) : clean_sched p -> forall s1 s2 a s1',
  extends_c s1 s2 -> resume p s1 = inr (Ok a, s1') ->
  exists s2', resume p s2 = inr (Ok a, s2') /\ extends_c s1' s2'.
Proof.
  induction 1 as [a0|e|n k Hk IH|k Hk IH|d k Hk IH|k Hk IH|k Hk IH|k Hk IH]; intros s1 s2 a s1' Hx H;
    cbn [resume] in *.
  - inversion H; subst. eauto.
  - discriminate.
  - destruct (attempt s1 n) as [[c| |] s1m] eqn:E; try discriminate.
    destruct (attempt_got_ext_c _ _ _ _ _ Hx E) as [s2m [E2 [Hx2 _]]]. rewrite E2. eauto.
  - destruct Hx as [[Hp Hm] Hc]. rewrite <- Hp. apply (IH (pos s1) s1 s2); auto. split; [split|]; auto.
  - apply (IH (setpos s1 (pos s1 - d)) (setpos s2 (pos s2 - d))); auto.
    apply extends_c_setpos; [exact Hx|]. destruct Hx as [[Hp _] _]. congruence.
  - apply (IH (setmark s1 (pos s1)) (setmark s2 (pos s2))); auto.
    apply extends_c_setmark; [exact Hx|]. destruct Hx as [[Hp _] _]. exact Hp.
  - destruct Hx as [[Hp [Hmk Hm]] Hc]. rewrite <- Hmk. apply (IH (mark s1) s1 s2); auto.
    split; [split|]; auto.
  - destruct (Nat.eqb (length (avail s1)) 0) eqn:E0.
    + destruct (closed s1) eqn:Hcl; [|discriminate].
      destruct (avail_closed_ext _ _ Hx Hcl) as [Hav Hc2]. rewrite Hav, E0, Hc2. eauto.
    + destruct Hx as [Hx Hc]. rewrite (avail_nonempty_ext _ _ Hx E0). apply (IH false s1 s2); auto.
      split; auto.
Qed.

Lemma resume_susp_ext_sched {A} (p: proc A) : clean_sched p -> forall s1 s2 p' s1',
  extends_c s1 s2 -> resume p s1 = inl (p', s1') ->
  extends_c s1' (sync s2 s1') /\ resume p s2 = resume p' (sync s2 s1') /\ clean_sched p'.
Proof.
  induction 1 as [a0|e|n k Hk IH|k Hk IH|d k Hk IH|k Hk IH|k Hk IH|k Hk IH]; intros s1 s2 p' s1' Hx H;
    cbn [resume] in *.
  - discriminate.
  - discriminate.
  - destruct (attempt s1 n) as [[c| |] s1m] eqn:E; try discriminate.
    + destruct (attempt_got_ext_c _ _ _ _ _ Hx E) as [s2m [E2 [Hx2 Hs2m]]]. rewrite E2.
      destruct (IH c _ _ _ _ Hx2 H) as [Hy [Hr Hcl]]. subst s2m. rewrite sync_setpos in *. auto.
    + apply attempt_under_same in E. subst s1m. inversion H; subst; clear H.
      assert (Hs: sync s2 s1' = s2).
      { destruct Hx as [[Hp [Hmk _]] _]. apply sync_same; congruence. }
      rewrite Hs. split; [exact Hx|]. split; [reflexivity|]. constructor. exact Hk.
  - destruct Hx as [[Hp Hm] Hc]. rewrite <- Hp. apply (IH (pos s1) s1 s2); auto. split; [split|]; auto.
  - destruct (IH (setpos s1 (pos s1 - d)) (setpos s2 (pos s2 - d)) p' s1') as [Hy Hr].
    { apply extends_c_setpos; [exact Hx|]. destruct Hx as [[Hp _] _]. congruence. }
    { exact H. }
    rewrite sync_setpos in *. auto.
  - destruct (IH (setmark s1 (pos s1)) (setmark s2 (pos s2)) p' s1') as [Hy Hr].
    { apply extends_c_setmark; [exact Hx|]. destruct Hx as [[Hp _] _]. exact Hp. }
    { exact H. }
    rewrite sync_setmark in *. auto.
  - destruct Hx as [[Hp [Hmk Hm]] Hc]. rewrite <- Hmk. apply (IH (mark s1) s1 s2); auto.
    split; [split|]; auto.
  - destruct (Nat.eqb (length (avail s1)) 0) eqn:E0.
    + destruct (closed s1) eqn:Hcl.
      * destruct (avail_closed_ext _ _ Hx Hcl) as [Hav Hc2]. rewrite Hav, E0, Hc2. eauto.
      * inversion H; subst; clear H.
        assert (Hs: sync s2 s1' = s2).
        { destruct Hx as [[Hp [Hmk _]] _]. apply sync_same; congruence. }
        rewrite Hs. split; [exact Hx|]. split; [reflexivity|]. constructor. exact Hk.
    + destruct Hx as [Hx Hc]. rewrite (avail_nonempty_ext _ _ Hx E0). apply (IH false s1 s2); auto.
      split; auto.
Qed.

Lemma resume_err_ext_sched {A} (p: proc A) : clean_sched p -> forall s1 s2 e s1',
  extends s1 s2 -> closed s1 = false -> resume p s1 = inr (Err e, s1') ->
  exists s2', resume p s2 = inr (Err e, s2') /\ pos s2' = pos s1'.
Proof.
  induction 1 as [a0|e0|n k Hk IH|k Hk IH|d k Hk IH|k Hk IH|k Hk IH|k Hk IH]; intros s1 s2 e s1' Hx Hc H;
    cbn [resume] in *.
  - discriminate.
  - inversion H; subst. destruct Hx as [Hp _]. eauto.
  - destruct (attempt s1 n) as [[c| |] s1m] eqn:E; try discriminate.
    + destruct (attempt_got_ext _ _ _ _ _ Hx E) as [s2m [E2 [Hx2 _]]]. rewrite E2.
      destruct (attempt_frame _ _ _ _ E) as [_ [Hcl _]]. eapply IH; eauto; congruence.
    + apply attempt_eos_closed in E. congruence.
  - destruct Hx as [Hp Hm]. rewrite <- Hp. apply (IH (pos s1) s1 s2 e s1'); auto. split; auto.
  - apply (IH (setpos s1 (pos s1 - d)) (setpos s2 (pos s2 - d)) e s1'); auto.
    apply extends_setpos; [exact Hx|]. destruct Hx as [Hp _]. congruence.
  - apply (IH (setmark s1 (pos s1)) (setmark s2 (pos s2)) e s1'); auto.
    apply extends_setmark; [exact Hx|]. destruct Hx as [Hp _]. exact Hp.
  - destruct Hx as [Hp [Hmk Hm]]. rewrite <- Hmk. apply (IH (mark s1) s1 s2 e s1'); auto.
    split; auto.
  - destruct (Nat.eqb (length (avail s1)) 0) eqn:E0.
    + rewrite Hc in H. discriminate.
    + rewrite (avail_nonempty_ext _ _ Hx E0). apply (IH false s1 s2 e s1'); auto.
Qed.

(* a suspension is an exact read with octets missing, or an end test with nothing there and the stream open *)
Theorem underrun_only_when_missing_sched {A} (p: proc A) : clean_sched p -> forall s q s',
  resume p s = inl (q, s') ->
  (exists n k, q = ReadN n k /\ length (avail s') < n)
  \/ (exists k, q = AtEOS k /\ length (avail s') = 0 /\ closed s' = false).
Proof.
  induction 1 as [a0|e|n k Hk IH|k Hk IH|d k Hk IH|k Hk IH|k Hk IH|k Hk IH]; intros s q s' H;
    cbn [resume] in H; try discriminate; eauto.
  - destruct (attempt s n) as [[c| |] sm] eqn:E; try discriminate.
    + eauto.
    + inversion H; subst; clear H. left. exists n, k. split; [reflexivity|].
      pose proof (attempt_under_same _ _ _ E) as Hs. subst s'.
      eapply attempt_under_missing; eauto.
  - destruct (Nat.eqb (length (avail s)) 0) eqn:E0.
    + destruct (closed s) eqn:Hcl; [eauto|].
      inversion H; subst; clear H. right. exists k. apply Nat.eqb_eq in E0. auto.
    + eauto.
Qed.

(* a decoder without ReadAll never suspends on a closed stream *)
Theorem closed_no_suspend_sched {A} (p: proc A) : clean_sched p -> forall s,
  closed s = true -> exists r s', resume p s = inr (r, s').
Proof.
  induction 1 as [a0|e|n k Hk IH|k Hk IH|d k Hk IH|k Hk IH|k Hk IH|k Hk IH]; intros s Hcl; cbn [resume];
    eauto.
  - destruct (attempt s n) as [[c| |] sm] eqn:E.
    + apply IH. destruct (attempt_frame _ _ _ _ E) as [_ [Hc _]]. congruence.
    + apply attempt_under_open in E. congruence.
    + eauto.
  - rewrite Hcl. destruct (Nat.eqb (length (avail s)) 0); apply IH; exact Hcl.
Qed.

(* ---------- C05 for clean_sched trees ---------- *)
Lemma extends_c_complete s sched : wf_sched (closed s) sched -> extends_c s (complete s sched).
Proof.
  intros Hw. split; [apply extends_complete|]. intros Hcl. rewrite Hcl in Hw.
  rewrite (complete_closed s sched Hcl Hw). auto.
Qed.

Lemma resume_done_complete_sched {A} (p: proc A) s sched r sF r' s' :
  clean_sched p -> wf_sched (closed s) sched ->
  resume p (complete s sched) = inr (r, sF) ->
  resume p s = inr (r', s') -> r' = r /\ pos s' = pos sF.
Proof.
  intros Hc Hw H E.
  destruct (closed s) eqn:Hcl.
  { rewrite (complete_closed s _ Hcl Hw) in H. rewrite E in H. inversion H; subst. auto. }
  destruct r' as [a'|er].
  { assert (Hx: extends_c s (complete s sched)) by (apply extends_c_complete; rewrite Hcl; exact Hw).
    destruct (resume_done_ext_sched p Hc s _ a' s' Hx E) as [s2 [E2 [[Hp _] _]]].
    rewrite E2 in H. inversion H; subst. auto. }
  { destruct (resume_err_ext_sched p Hc s _ er s' (extends_complete s sched) Hcl E) as [s2 [E2 Hp]].
    rewrite E2 in H. inversion H; subst. auto. }
Qed.

Lemma resume_susp_complete_sched {A} (p: proc A) s e rest p' s' :
  clean_sched p -> wf_sched (closed s) (e :: rest) ->
  resume p s = inl (p', s') ->
  clean_sched p' /\ wf_sched (closed (apply_ev e s')) rest
  /\ resume p (complete s (e :: rest)) = resume p' (complete (apply_ev e s') rest).
Proof.
  intros Hc Hw E.
  destruct (resume_susp_ext_sched p Hc s (complete s (e :: rest)) p' s' (extends_c_complete _ _ Hw) E)
    as [_ [Hr Hc']].
  destruct (resume_susp_frame _ _ _ _ E) as [Ha Hcl].
  split; [exact Hc'|]. split.
  - rewrite <- Hcl in Hw. destruct e; cbn in *; tauto.
  - rewrite Hr, (sync_complete s (e :: rest) s' Ha), <- complete_step. reflexivity.
Qed.

Theorem sched_indep_sched {A} : forall sched (p: proc A) s r sF,
  clean_sched p -> wf_sched (closed s) sched ->
  resume p (complete s sched) = inr (r, sF) ->
  (exists j, drive sched p s = repeat OUnder j ++ [ODone r (pos sF)])
  \/ drive sched p s = repeat OUnder (S (length sched)).
Proof.
  induction sched as [|e rest IH]; intros p s r sF Hc Hw H; cbn [drive].
  - destruct (resume p s) as [[p' s']|[r' s']] eqn:E; [right; reflexivity|].
    left. exists 0. destruct (resume_done_complete_sched p s [] r sF r' s' Hc Hw H E) as [-> ->]. reflexivity.
  - destruct (resume p s) as [[p' s']|[r' s']] eqn:E.
    + destruct (resume_susp_complete_sched p s e rest p' s' Hc Hw E) as [Hc' [Hw' Hr]].
      rewrite Hr in H.
      destruct (IH p' (apply_ev e s') r sF Hc' Hw' H) as [[j Hj]|Hj].
      * left. exists (S j). cbn [repeat app]. rewrite Hj. reflexivity.
      * right. cbn [repeat length] in *. rewrite Hj. reflexivity.
    + left. exists 0.
      destruct (resume_done_complete_sched p s (e :: rest) r sF r' s' Hc Hw H E) as [-> ->]. reflexivity.
Qed.

Theorem sched_indep_closed_sched {A} : forall sched (p: proc A) s r sF,
  clean_sched p -> wf_sched (closed s) sched ->
  closed s || has_close sched = true ->
  resume p (complete s sched) = inr (r, sF) ->
  exists j, drive sched p s = repeat OUnder j ++ [ODone r (pos sF)].
Proof.
  induction sched as [|e rest IH]; intros p s r sF Hc Hw Hcl H; cbn [drive].
  - cbn [has_close] in Hcl. rewrite orb_false_r in Hcl.
    rewrite (complete_closed s [] Hcl Hw) in H. rewrite H. exists 0. reflexivity.
  - destruct (resume p s) as [[p' s']|[r' s']] eqn:E.
    + destruct (resume_susp_complete_sched p s e rest p' s' Hc Hw E) as [Hc' [Hw' Hr]].
      rewrite Hr in H.
      destruct (resume_susp_frame _ _ _ _ E) as [_ Hcs].
      assert (Hcl': closed (apply_ev e s') || has_close rest = true).
      { destruct e; cbn in *; try rewrite Hcs; auto. }
      destruct (IH p' (apply_ev e s') r sF Hc' Hw' Hcl' H) as [j Hj].
      exists (S j). cbn [repeat app]. rewrite Hj. reflexivity.
    + exists 0.
      destruct (resume_done_complete_sched p s (e :: rest) r sF r' s' Hc Hw H E) as [-> ->]. reflexivity.
Qed.

(* two closing schedules delivering the same octets end in the same outcome *)
Theorem sched_indep_two_sched {A} (sched1 sched2: list envev) (p: proc A) s r sF :
  clean_sched p -> wf_sched (closed s) sched1 -> wf_sched (closed s) sched2 ->
  has_close sched1 = true -> has_close sched2 = true ->
  arrivals sched1 = arrivals sched2 ->
  resume p (complete s sched1) = inr (r, sF) ->
  exists j1 j2, drive sched1 p s = repeat OUnder j1 ++ [ODone r (pos sF)]
             /\ drive sched2 p s = repeat OUnder j2 ++ [ODone r (pos sF)].
Proof.
  intros Hc Hw1 Hw2 Hh1 Hh2 Harr H.
  assert (H2: resume p (complete s sched2) = inr (r, sF)).
  { unfold complete in *. rewrite <- Harr. exact H. }
  destruct (sched_indep_closed_sched sched1 p s r sF Hc Hw1) as [j1 Hj1]; auto.
  { rewrite Hh1. apply orb_true_r. }
  destruct (sched_indep_closed_sched sched2 p s r sF Hc Hw2) as [j2 Hj2]; auto.
  { rewrite Hh2. apply orb_true_r. }
  eauto.
Qed.

(* ---------- guard_ra: only ReadAll is replaced ---------- *)
Fixpoint guard_ra {A} (u: err) (p: proc A) : proc A :=
  match p with
  | Ret a => Ret a
  | Raise e => Raise e
  | ReadN n k => ReadN n (fun b => guard_ra u (k b))
  | Tell k => Tell (fun q => guard_ra u (k q))
  | SeekBack d k => SeekBack d (guard_ra u k)
  | Mark k => Mark (guard_ra u k)
  | GetMark k => GetMark (fun q => guard_ra u (k q))
  | AtEOS k => AtEOS (fun b => guard_ra u (k b))
  | ReadAll _ => Raise u
  end.

Lemma guard_ra_clean_sched {A} (u: err) (p: proc A) : clean_sched (guard_ra u p).
Proof.
  induction p as [a0|e|n k IH|k IH|d k IH|k IH|k IH|k IH|k IH]; cbn [guard_ra]; constructor; auto.
Qed.

Lemma guard_ra_done {A} (u: err) (p: proc A) : forall s r s',
  resume (guard_ra u p) s = inr (r, s') -> r <> Err u -> resume p s = inr (r, s').
Proof.
  induction p as [a0|e|n k IH|k IH|d k IH|k IH|k IH|k IH|k IH]; intros s r s' H Hne;
    cbn [guard_ra resume] in *; auto.
  - destruct (attempt s n) as [[c| |] sm]; try discriminate; auto.
  - destruct (Nat.eqb (length (avail s)) 0); [|auto].
    destruct (closed s); [auto|discriminate].
  - inversion H; subst. congruence.
Qed.

Lemma guard_ra_susp {A} (u: err) (p: proc A) : forall s q s',
  resume (guard_ra u p) s = inl (q, s') -> exists p', q = guard_ra u p' /\ resume p s = inl (p', s').
Proof.
  induction p as [a0|e|n k IH|k IH|d k IH|k IH|k IH|k IH|k IH]; intros s q s' H;
    cbn [guard_ra resume] in *; try discriminate; auto.
  - destruct (attempt s n) as [[c| |] sm]; try discriminate; auto.
    inversion H; subst; clear H. exists (ReadN n k). split; reflexivity.
  - destruct (Nat.eqb (length (avail s)) 0); [|auto].
    destruct (closed s); [auto|].
    inversion H; subst; clear H. exists (AtEOS k). split; reflexivity.
Qed.

Theorem guard_ra_drive {A} (u: err) : forall sched (p: proc A) s r sF,
  wf_sched (closed s) sched ->
  resume (guard_ra u p) (complete s sched) = inr (r, sF) -> r <> Err u ->
  drive sched (guard_ra u p) s = drive sched p s.
Proof.
  induction sched as [|e rest IH]; intros p s r sF Hw H Hne; cbn [drive].
  - destruct (resume (guard_ra u p) s) as [[q s']|[r' s']] eqn:E.
    + destruct (guard_ra_susp u p _ _ _ E) as [p' [-> E']]. rewrite E'. reflexivity.
    + destruct (resume_done_complete_sched _ s [] r sF r' s' (guard_ra_clean_sched u p) Hw H E) as [-> _].
      rewrite (guard_ra_done u p _ _ _ E Hne). reflexivity.
  - destruct (resume (guard_ra u p) s) as [[q s']|[r' s']] eqn:E.
    + destruct (resume_susp_complete_sched _ s e rest q s' (guard_ra_clean_sched u p) Hw E) as [_ [Hw' Hr]].
      destruct (guard_ra_susp u p _ _ _ E) as [p' [-> E']]. rewrite E'.
      rewrite Hr in H. rewrite (IH p' (apply_ev e s') r sF Hw' H Hne). reflexivity.
    + destruct (resume_done_complete_sched _ s (e :: rest) r sF r' s' (guard_ra_clean_sched u p) Hw H E)
        as [-> _].
      rewrite (guard_ra_done u p _ _ _ E Hne). reflexivity.
Qed.

Theorem sched_indep_run_sched {A} (u: err) (sched: list envev) (p: proc A) s r sF :
  wf_sched (closed s) sched ->
  resume (guard_ra u p) (complete s sched) = inr (r, sF) -> r <> Err u ->
  resume p (complete s sched) = inr (r, sF)
  /\ ((exists j, drive sched p s = repeat OUnder j ++ [ODone r (pos sF)])
      \/ drive sched p s = repeat OUnder (S (length sched))).
Proof.
  intros Hw H Hne. split; [apply (guard_ra_done u); assumption|].
  rewrite <- (guard_ra_drive u sched p s r sF Hw H Hne).
  apply sched_indep_sched; auto. apply guard_ra_clean_sched.
Qed.

Theorem sched_indep_close_run_sched {A} (u: err) (sched: list envev) (p: proc A) s r sF :
  wf_sched (closed s) sched -> closed s || has_close sched = true ->
  resume (guard_ra u p) (complete s sched) = inr (r, sF) -> r <> Err u ->
  exists j, drive sched p s = repeat OUnder j ++ [ODone r (pos sF)].
Proof.
  intros Hw Hcl H Hne.
  rewrite <- (guard_ra_drive u sched p s r sF Hw H Hne).
  apply sched_indep_closed_sched; auto. apply guard_ra_clean_sched.
Qed.

(* ---------- the item loop of a streaming client ---------- *)
Fixpoint stream_loop {A} (n: nat) (item: proc A) : proc (list A) :=
  match n with
  | O => Ret []
  | S n' =>
      pbind item (fun d =>
        AtEOS (fun eos => if eos then Ret [d]
                          else pbind (stream_loop n' item) (fun ds => Ret (d :: ds))))
  end.

Lemma clean_sched_pbind {A B} (p: proc A) (f: A -> proc B) :
  clean_sched p -> (forall a, clean_sched (f a)) -> clean_sched (pbind p f).
Proof.
  intros Hp Hf. induction Hp; cbn [pbind]; try constructor; auto.
Qed.

Lemma stream_loop_clean_sched {A} (n: nat) (item: proc A) :
  clean_sched item -> clean_sched (stream_loop n item).
Proof.
  intros Hi. induction n as [|n IH]; cbn [stream_loop]; [constructor|].
  apply clean_sched_pbind; [exact Hi|]. intros d. constructor. intros [|]; [constructor|].
  apply clean_sched_pbind; [exact IH|]. intros ds. constructor.
Qed.

(* the list of objects yielded (in order) and the final position are those of the one-shot run,
   under every well-formed schedule that eventually closes the stream *)
Theorem stream_loop_sched_indep {A} (n: nat) (item: proc A) sched s r sF :
  clean_sched item -> wf_sched (closed s) sched ->
  closed s || has_close sched = true ->
  resume (stream_loop n item) (complete s sched) = inr (r, sF) ->
  exists j, drive sched (stream_loop n item) s = repeat OUnder j ++ [ODone r (pos sF)].
Proof.
  intros Hi Hw Hcl H. apply sched_indep_closed_sched; auto. apply stream_loop_clean_sched. exact Hi.
Qed.

Theorem stream_loop_sched_indep_two {A} (n: nat) (item: proc A) sched1 sched2 s r sF :
  clean_sched item -> wf_sched (closed s) sched1 -> wf_sched (closed s) sched2 ->
  has_close sched1 = true -> has_close sched2 = true ->
  arrivals sched1 = arrivals sched2 ->
  resume (stream_loop n item) (complete s sched1) = inr (r, sF) ->
  exists j1 j2, drive sched1 (stream_loop n item) s = repeat OUnder j1 ++ [ODone r (pos sF)]
             /\ drive sched2 (stream_loop n item) s = repeat OUnder j2 ++ [ODone r (pos sF)].
Proof.
  intros Hi. apply sched_indep_two_sched. apply stream_loop_clean_sched. exact Hi.
Qed.

Print Assumptions closed_no_suspend_sched.
Print Assumptions underrun_only_when_missing_sched.
Print Assumptions sched_indep_sched.
Print Assumptions sched_indep_closed_sched.
Print Assumptions sched_indep_two_sched.
Print Assumptions guard_ra_clean_sched.
Print Assumptions guard_ra_done.
Print Assumptions guard_ra_susp.
Print Assumptions guard_ra_drive.
Print Assumptions sched_indep_run_sched.
Print Assumptions sched_indep_close_run_sched.
Print Assumptions stream_loop_clean_sched.
Print Assumptions stream_loop_sched_indep.
Print Assumptions stream_loop_sched_indep_two.

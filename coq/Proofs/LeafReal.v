(* REAL contents octets (X.690 8.5): the decoder's reading of what the encoder writes keeps the
   abstract content, for the special values and for every binary value (no bound on mantissa or
   exponent other than the encoder's own 255-octet exponent limit); and the independent reference
   [real_contents] of Spec/X690.v coincides with the model of pyasn1's encoder exactly when the
   exponent fits that limit. *)
From Coq Require Import Lia.
From PV Require Import Base.Bytes Model.Tag Model.Types Model.Enc Model.Dec Spec.X690
                       Proofs.Bits Proofs.TagOctets Proofs.SpecOctets Proofs.LeafInt.
Local Open Scope N_scope.
Local Ltac Zify.zify_post_hook ::= Z.to_euclidean_division_equations.

(* ---------- strip2 / make_odd / strip_factor ---------- *)

Lemma land1_mod2 n : N.land n 1 = n mod 2.
Proof. apply (land_ones_mod n 1). Qed.
Lemma shiftr1_div2 n : N.shiftr n 1 = n / 2.
Proof. apply (shiftr_div n 1). Qed.

Lemma make_odd_is_strip2 : forall fuel m e, make_odd fuel m e = strip2 fuel m e.
Proof.
  induction fuel as [|f IH]; intros m e; [reflexivity|].
  cbn [make_odd strip2]. rewrite land1_mod2, shiftr1_div2, IH. reflexivity.
Qed.

(* with enough fuel a non-zero mantissa comes out odd (and stays non-zero) *)
Lemma strip2_odd : forall fuel m e, m <> 0 -> (N.size_nat m <= fuel)%nat ->
  (fst (strip2 fuel m e)) mod 2 = 1.
Proof.
  induction fuel as [|f IH]; intros m e Hm Hf.
  - exfalso. apply Hm. apply size_nat_0. lia.
  - cbn [strip2]. rewrite land1_mod2, shiftr1_div2.
    destruct (N.eqb_spec (m mod 2) 0) as [Hz|Hnz].
    + assert (Hq: m / 2 <> 0).
      { lia. }
      apply IH; [exact Hq|].
      pose proof (size_nat_div m 1 Hm eq_refl) as Hd. change (2 ^ 1) with 2 in Hd. lia.
    + cbn [fst]. pose proof (N.mod_lt m 2). lia.
Qed.

(* the value is kept: m * 2^e = m' * 2^e', stated without powers as m = m' * 2^k, e' = e + k *)
Lemma strip2_value : forall fuel m e,
  exists k: N, m = fst (strip2 fuel m e) * 2 ^ k /\ snd (strip2 fuel m e) = (e + Z.of_N k)%Z.
Proof.
  induction fuel as [|f IH]; intros m e.
  - exists 0. cbn [strip2 fst snd]. split; [rewrite N.pow_0_r; lia|cbn; lia].
  - cbn [strip2]. rewrite land1_mod2, shiftr1_div2.
    destruct (N.eqb_spec (m mod 2) 0) as [Hz|Hnz].
    + destruct (IH (m / 2) (e + 1)%Z) as (k & Hm & He). exists (k + 1). split.
      * rewrite N.pow_add_r, N.pow_1_r, N.mul_assoc, <- Hm.
        lia.
      * rewrite He. lia.
    + exists 0. cbn [fst snd]. split; [rewrite N.pow_0_r; lia|cbn; lia].
Qed.

(* the model's abstract normalisation (Z.rem / Z.quot on a signed mantissa) is the encoder's loop
   (N.land / N.shiftr on the magnitude) with the sign carried along *)
Lemma strip_factor_is_strip2 (neg: bool) : forall fuel a e,
  let s := (fun x: Z => if neg then (- x)%Z else x) in
  strip_factor fuel 2 (s (Z.of_N a)) e =
  (s (Z.of_N (fst (strip2 fuel a e))), snd (strip2 fuel a e)).
Proof.
  intros fuel a e s. revert a e.
  induction fuel as [|f IH]; intros a e; [reflexivity|].
  cbn [strip_factor strip2]. rewrite land1_mod2, shiftr1_div2.
  assert (Hrem: Z.eqb (Z.rem (s (Z.of_N a)) 2) 0 = N.eqb (a mod 2) 0).
  { subst s. cbv beta.
    assert (E: Z.rem (Z.of_N a) 2 = Z.of_N (a mod 2)).
    { rewrite Z.rem_mod_nonneg by lia. rewrite N2Z.inj_mod. reflexivity. }
    destruct neg.
    - rewrite Z.rem_opp_l by lia. rewrite E.
      destruct (N.eqb_spec (a mod 2) 0) as [H|H]; destruct (Z.eqb_spec (- Z.of_N (a mod 2)) 0); lia.
    - rewrite E.
      destruct (N.eqb_spec (a mod 2) 0) as [H|H]; destruct (Z.eqb_spec (Z.of_N (a mod 2)) 0); lia. }
  rewrite Hrem. destruct (N.eqb (a mod 2) 0); [|reflexivity].
  assert (Hquot: Z.quot (s (Z.of_N a)) 2 = s (Z.of_N (a / 2))).
  { subst s. cbv beta.
    assert (E: Z.quot (Z.of_N a) 2 = Z.of_N (a / 2)).
    { rewrite Z.quot_div_nonneg by lia. rewrite N2Z.inj_div. reflexivity. }
    destruct neg; [rewrite Z.quot_opp_l by lia|]; rewrite E; reflexivity. }
  rewrite Hquot. apply IH.
Qed.

Lemma strip_factor_odd fuel m e : Z.rem m 2 <> 0%Z -> strip_factor fuel 2 m e = (m, e).
Proof.
  intros H. destruct fuel; [reflexivity|]. cbn [strip_factor].
  destruct (Z.eqb_spec (Z.rem m 2) 0); [contradiction|reflexivity].
Qed.

Lemma pos_size_nat p : Pos.size_nat p = Pos.to_nat (Pos.size p).
Proof. induction p; cbn [Pos.size_nat Pos.size]; rewrite ?IHp; lia. Qed.

(* the two fuels are the same number: the bit length of |m| *)
Lemma fuel_eq m : m <> 0%Z -> (Z.to_nat (Z.log2 (Z.abs m)) + 1)%nat = N.size_nat (Z.abs_N m).
Proof.
  intros Hm.
  assert (forall p, (Z.to_nat (Z.log2 (Z.pos p)) + 1)%nat = Pos.size_nat p) as Hp.
  { intros p. destruct p; cbn [Z.log2 Pos.size_nat Z.to_nat]; rewrite ?pos_size_nat; lia. }
  destruct m as [|p|p]; [congruence| |]; cbn [Z.abs Z.abs_N N.size_nat]; apply Hp.
Qed.

Lemma signed_abs m : m = (if Z.ltb m 0 then - Z.of_N (Z.abs_N m) else Z.of_N (Z.abs_N m))%Z.
Proof. rewrite N2Z.inj_abs_N. destruct (Z.ltb_spec m 0); lia. Qed.

(* ---------- the decoder on a binary first octet ---------- *)

Lemma b256_nonempty n : n <> 0 -> b256 n <> [].
Proof.
  intros Hn. rewrite <- digits_of_256_is_b256 by assumption. apply digits_nonempty.
Qed.

(* the first-octet fields as the decoder extracts them: base 2 (bits 6-5 = 0), scaling factor 0
   (bits 4-3 = 0), sign in bit 7, exponent form in bits 2-1 *)
Lemma dec_real_binary fo (neg: bool) (k: N) (pre eo mo: bytes) :
  N.land fo 128 = 128 -> N.land fo 64 = (if neg then 64 else 0) ->
  N.land (N.shiftr fo 4) 3 = 0 -> N.land (N.shiftr fo 2) 3 = 0 -> N.land fo 3 = k ->
  (k < 3 /\ pre = [] /\ length eo = N.to_nat (k + 1)
   \/ k = 3 /\ pre = [N.of_nat (length eo)]) ->
  eo <> [] -> mo <> [] ->
  dec_real (fo :: pre ++ eo ++ mo) =
  Ok (RBin (if neg then - Z.of_N (be_num 0 mo) else Z.of_N (be_num 0 mo)) (from_bytes_signed eo)).
Proof.
  intros H128 H64 Hbb Hsf Hk Hform Heo Hmo.
  unfold dec_real. rewrite H128, H64, Hbb, Hsf, Hk.
  change (N.eqb 128 0) with false. cbv beta iota zeta delta [negb].
  assert (Hfin: forall (x: bytes),
    x = eo ->
    match x, mo with
    | [], _ | _, [] => Err EMalformed
    | _, _ =>
        let e := from_bytes_signed x in
        if N.ltb 2 0 then Err EMalformed else
        let e' := if N.eqb 0 1 then (e * 3)%Z else if N.eqb 0 2 then (e * 4)%Z else e in
        let p := Z.of_N (be_num 0 mo) in
        let p' := if negb (N.eqb (if neg then 64 else 0) 0) then (- p)%Z else p in
        Ok (RBin (p' * 2 ^ Z.of_N 0) e')
    end = Ok (RBin (if neg then - Z.of_N (be_num 0 mo) else Z.of_N (be_num 0 mo)) (from_bytes_signed eo))).
  { intros x ->. destruct eo as [|e0 eo']; [congruence|]. destruct mo as [|m0 mo']; [congruence|].
    cbv beta iota zeta. change (N.ltb 2 0) with false. change (N.eqb 0 1) with false.
    change (N.eqb 0 2) with false. cbv iota.
    change (2 ^ Z.of_N 0)%Z with 1%Z. rewrite Z.mul_1_r. destruct neg; reflexivity. }
  destruct Hform as [(Hk3 & -> & Hlen)|(-> & ->)].
  - cbn [app]. destruct (N.eqb_spec (k + 1) 4) as [Hc|_]; [lia|].
    assert (exists c0 crest, eo ++ mo = c0 :: crest) as (c0 & crest & Hc).
    { destruct eo as [|e0 eo']; [congruence|]. eexists; eexists; reflexivity. }
    rewrite Hc. cbv beta iota. rewrite <- Hc, <- Hlen.
    rewrite firstn_app_exact, skipn_app_exact. exact (Hfin eo eq_refl).
  - cbn [app]. change (N.eqb (3 + 1) 4) with true. cbv beta iota.
    rewrite Nat2N.id, firstn_app_exact, skipn_app_exact. exact (Hfin eo eq_refl).
Qed.

(* ---------- exponent octets ---------- *)

Lemma exp_octets_is_twos e : exp_octets e = twos_bytes e.
Proof.
  unfold exp_octets. destruct (Z.eqb_spec e 0) as [->|_]; [reflexivity|].
  destruct (Z.eqb_spec e (-1)) as [->|_]; reflexivity.
Qed.

Lemma exp_octets_is_int_contents e : int_contents e = exp_octets e.
Proof. rewrite int_contents_is_enc_integer, enc_integer_false, exp_octets_is_twos. reflexivity. Qed.

Lemma exp_octets_roundtrip e : from_bytes_signed (exp_octets e) = e.
Proof. rewrite exp_octets_is_twos. apply twos_roundtrip. Qed.

Lemma exp_octets_nonempty e : exp_octets e <> [].
Proof. rewrite exp_octets_is_twos. apply twos_nonempty. Qed.

(* the encoder's limit of 255 exponent octets, as a range of exponents *)
Lemma exp_octets_length_255 e :
  (length (exp_octets e) <= 255)%nat <-> (- 2 ^ 2039 <= e < 2 ^ 2039)%Z.
Proof.
  rewrite exp_octets_is_twos, twos_bytes_eq, be_bytes_length.
  pose proof (nbytes_spec e) as (H1 & H2 & H3).
  set (B := (2 ^ 2039)%Z).
  assert (Hmag: (mag e < B <-> - B <= e < B)%Z).
  { unfold mag. destruct (Z.ltb_spec e 0); lia. }
  rewrite <- Hmag. split.
  - intros Hle. apply Z.lt_le_trans with (2 ^ (8 * nbytes e - 1))%Z; [exact H2|].
    subst B. apply Z.pow_le_mono_r; lia.
  - intros Hlt. destruct (Z.le_gt_cases (nbytes e) 255) as [Hle|Hgt]; [lia|].
    exfalso. assert (B <= mag e)%Z; [|lia].
    apply Z.le_trans with (2 ^ (8 * nbytes e - 9))%Z; [|apply H3; lia].
    subst B. apply Z.pow_le_mono_r; lia.
Qed.

(* ---------- abstract content of a binary value and of its odd-mantissa form ---------- *)

Lemma abs_real_bin_norm m e m' e' :
  m <> 0%Z -> strip2 (N.size_nat (Z.abs_N m)) (Z.abs_N m) e = (m', e') ->
  let sm := (if Z.ltb m 0 then - Z.of_N m' else Z.of_N m')%Z in
  abs_real (RBin m e) = ABin sm e' /\ abs_real (RBin sm e') = ABin sm e'.
Proof.
  intros Hm Es sm.
  assert (Hodd: m' mod 2 = 1).
  { pose proof (strip2_odd (N.size_nat (Z.abs_N m)) (Z.abs_N m) e) as H.
    rewrite Es in H. apply H; [lia|lia]. }
  split.
  - unfold abs_real. destruct (Z.eqb_spec m 0) as [|_]; [contradiction|].
    rewrite fuel_eq by assumption.
    pose proof (strip_factor_is_strip2 (Z.ltb m 0) (N.size_nat (Z.abs_N m)) (Z.abs_N m) e) as H.
    cbv zeta beta in H. rewrite <- signed_abs in H. rewrite H, Es. reflexivity.
  - unfold abs_real. assert (Hsm: sm <> 0%Z) by (subst sm; destruct (Z.ltb m 0); lia).
    destruct (Z.eqb_spec sm 0) as [|_]; [contradiction|].
    rewrite strip_factor_odd; [reflexivity|].
    subst sm. destruct (Z.ltb m 0); lia.
Qed.

(* ---------- 1. special values and zero ---------- *)

Theorem real_roundtrip_special :
  (enc_real RPInf = Ok [64] /\ dec_real [64] = Ok RPInf) /\
  (enc_real RNInf = Ok [65] /\ dec_real [65] = Ok RNInf) /\
  (forall e, enc_real (RBin 0 e) = Ok [] /\ dec_real [] = Ok (RDec 0 0) /\
             abs_real (RDec 0 0) = AZero /\ abs_real (RBin 0 e) = AZero).
Proof. repeat split; reflexivity. Qed.

(* ---------- 2. binary values ---------- *)

Theorem real_roundtrip_bin : forall m e b, m <> 0%Z -> enc_real (RBin m e) = Ok b ->
  exists r, dec_real b = Ok r /\ abs_real r = abs_real (RBin m e).
Proof.
  intros m e b Hm. unfold enc_real.
  destruct (Z.eqb_spec m 0) as [|_]; [contradiction|].
  destruct (strip2 (N.size_nat (Z.abs_N m)) (Z.abs_N m) e) as [m' e'] eqn:Es.
  cbv zeta.
  destruct (Nat.ltb_spec 255 (length (exp_octets e'))) as [|Hn255]; [discriminate|].
  destruct (abs_real_bin_norm m e m' e' Hm Es) as [Ha1 Ha2]. cbv zeta in Ha1, Ha2.
  assert (Hm': m' <> 0).
  { pose proof (strip2_odd (N.size_nat (Z.abs_N m)) (Z.abs_N m) e) as H.
    rewrite Es in H. cbn [fst] in H. intros ->.
    assert (0 mod 2 = 1) as Hc by (apply H; lia). discriminate Hc. }
  pose proof (b256_nonempty m' Hm') as Hmo.
  pose proof (exp_octets_nonempty e') as Heo.
  pose proof (exp_octets_roundtrip e') as Hexp.
  set (eo := exp_octets e') in *. set (neg := Z.ltb m 0) in *.
  assert (Hdec: forall fo k pre,
    N.land fo 128 = 128 -> N.land fo 64 = (if neg then 64 else 0) ->
    N.land (N.shiftr fo 4) 3 = 0 -> N.land (N.shiftr fo 2) 3 = 0 -> N.land fo 3 = k ->
    (k < 3 /\ pre = [] /\ length eo = N.to_nat (k + 1) \/ k = 3 /\ pre = [N.of_nat (length eo)]) ->
    Ok ([fo] ++ (pre ++ eo) ++ b256 m') = Ok b ->
    exists r, dec_real b = Ok r /\ abs_real r = abs_real (RBin m e)).
  { intros fo k pre F1 F2 F3 F4 F5 F6 Hb.
    apply (f_equal (fun x => match x with Ok a => a | Err _ => [] end)) in Hb. cbv beta iota in Hb.
    subst b. eexists. split.
    - cbn [app]. rewrite <- app_assoc.
      apply (dec_real_binary fo neg k pre eo (b256 m')); assumption.
    - rewrite be_num_b256, Hexp, Ha1. exact Ha2. }
  destruct (length eo) as [|[|[|[|n]]]] eqn:Hlen; cbv iota.
  - destruct eo; [congruence|discriminate].
  - apply (Hdec _ 0 []); try (destruct neg; reflexivity). left. repeat split; try exact Hlen.
  - apply (Hdec _ 1 []); try (destruct neg; reflexivity). left. repeat split; try exact Hlen.
  - apply (Hdec _ 2 []); try (destruct neg; reflexivity). left. repeat split; try exact Hlen.
  - apply (Hdec _ 3 [N.of_nat (S (S (S (S n))))]); try (destruct neg; reflexivity).
    right. split; [reflexivity|]. try rewrite Hlen. reflexivity.
Qed.

(* ---------- 3. the independent reference vs the model ---------- *)

(* the only difference: pyasn1 refuses an exponent of more than 255 octets (the length-prefixed
   form has one length octet), the reference writes the length octet regardless.  The side
   condition is that the exponent of the odd-mantissa form fits 255 octets. *)
Definition real_exp_fits (m e: Z) : bool :=
  Z.eqb m 0 ||
  Nat.leb (length (exp_octets (snd (strip2 (N.size_nat (Z.abs_N m)) (Z.abs_N m) e)))) 255.

Lemma real_contents_bin m e : m <> 0%Z ->
  let '(m', e') := strip2 (N.size_nat (Z.abs_N m)) (Z.abs_N m) e in
  let eo := exp_octets e' in
  let first := 128 + (if Z.ltb m 0 then 64 else 0) in
  real_contents (RBin m e) =
  Some (match length eo with
        | 1%nat => [first] | 2%nat => [first + 1] | 3%nat => [first + 2]
        | n => [first + 3; N.of_nat n] end ++ eo ++ b256 m').
Proof.
  intros Hm. unfold real_contents. destruct (Z.eqb_spec m 0) as [|_]; [contradiction|].
  rewrite make_odd_is_strip2.
  destruct (strip2 (N.size_nat (Z.abs_N m)) (Z.abs_N m) e) as [m' e'] eqn:Es. cbv zeta.
  assert (Hm': m' <> 0).
  { pose proof (strip2_odd (N.size_nat (Z.abs_N m)) (Z.abs_N m) e) as H.
    rewrite Es in H. cbn [fst] in H. intros ->.
    assert (0 mod 2 = 1) as Hc by (apply H; lia). discriminate Hc. }
  rewrite exp_octets_is_int_contents, digits_of_256_is_b256 by assumption. reflexivity.
Qed.

Theorem real_contents_is_enc_real_partial : forall m e, real_exp_fits m e = true ->
  real_contents (RBin m e) = match enc_real (RBin m e) with Ok b => Some b | Err _ => None end.
Proof.
  intros m e Hfit. destruct (Z.eq_dec m 0) as [->|Hm]; [reflexivity|].
  pose proof (real_contents_bin m e Hm) as Hrc.
  unfold real_exp_fits in Hfit. unfold enc_real.
  destruct (Z.eqb_spec m 0) as [|_]; [contradiction|]. cbn [orb] in Hfit.
  revert Hrc Hfit.
  destruct (strip2 (N.size_nat (Z.abs_N m)) (Z.abs_N m) e) as [m' e'] eqn:Es.
  cbn [snd]. cbv zeta. intros -> Hfit. apply Nat.leb_le in Hfit.
  destruct (Nat.ltb_spec 255 (length (exp_octets e'))) as [Hc|_]; [lia|].
  destruct (length (exp_octets e')) as [|[|[|[|n]]]]; reflexivity.
Qed.

(* the side condition is necessary: outside it the model errs while the reference answers *)
Theorem real_contents_is_enc_real_only_if : forall m e,
  real_contents (RBin m e) = match enc_real (RBin m e) with Ok b => Some b | Err _ => None end ->
  real_exp_fits m e = true.
Proof.
  intros m e Heq. unfold real_exp_fits.
  destruct (Z.eqb_spec m 0) as [|Hm]; [reflexivity|]. cbn [orb].
  pose proof (real_contents_bin m e Hm) as Hrc.
  unfold enc_real in Heq. destruct (Z.eqb_spec m 0) as [|_]; [contradiction|].
  revert Hrc Heq.
  destruct (strip2 (N.size_nat (Z.abs_N m)) (Z.abs_N m) e) as [m' e'] eqn:Es.
  cbn [snd]. cbv zeta. intros -> Heq.
  destruct (Nat.ltb_spec 255 (length (exp_octets e'))) as [Hc|Hok]; [discriminate Heq|].
  apply Nat.leb_le. exact Hok.
Qed.

(* what it excludes, as arithmetic: with |m| = m' * 2^k, m' odd, the exponent e + k that is
   written must lie in [-2^2039, 2^2039) *)
Theorem real_exp_fits_spec : forall m e, m <> 0%Z ->
  exists m' k: N, Z.abs_N m = m' * 2 ^ k /\ m' mod 2 = 1 /\
    (real_exp_fits m e = true <-> (- 2 ^ 2039 <= e + Z.of_N k < 2 ^ 2039)%Z).
Proof.
  intros m e Hm. unfold real_exp_fits.
  destruct (Z.eqb_spec m 0) as [|_]; [contradiction|]. cbn [orb].
  pose proof (strip2_odd (N.size_nat (Z.abs_N m)) (Z.abs_N m) e) as Hodd.
  destruct (strip2_value (N.size_nat (Z.abs_N m)) (Z.abs_N m) e) as (k & Hv & He).
  exists (fst (strip2 (N.size_nat (Z.abs_N m)) (Z.abs_N m) e)), k.
  split; [exact Hv|]. split; [apply Hodd; lia|].
  rewrite He, Nat.leb_le. apply exp_octets_length_255.
Qed.

(* the encoder succeeds exactly on that domain *)
Theorem enc_real_bin_ok_iff : forall m e,
  (exists b, enc_real (RBin m e) = Ok b) <-> real_exp_fits m e = true.
Proof.
  intros m e. unfold real_exp_fits, enc_real.
  destruct (Z.eqb_spec m 0) as [|Hm]; [split; [reflexivity|eexists; reflexivity]|]. cbn [orb].
  destruct (strip2 (N.size_nat (Z.abs_N m)) (Z.abs_N m) e) as [m' e'] eqn:Es.
  cbn [snd]. cbv zeta.
  destruct (Nat.ltb_spec 255 (length (exp_octets e'))) as [Hc|Hok].
  - split; [intros (b & Hb); discriminate Hb|]. intros H. apply Nat.leb_le in H. lia.
  - split; [intros _; apply Nat.leb_le; exact Hok|].
    intros _. destruct (length (exp_octets e')) as [|[|[|[|n]]]]; eexists; reflexivity.
Qed.

Print Assumptions real_roundtrip_special.
Print Assumptions real_roundtrip_bin.
Print Assumptions real_contents_is_enc_real_partial.
Print Assumptions real_contents_is_enc_real_only_if.
Print Assumptions real_exp_fits_spec.
Print Assumptions enc_real_bin_ok_iff.

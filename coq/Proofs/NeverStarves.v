(* C08, part 2: NO STARVATION - the structural fuel of the decoder model is always sufficient.

   All recursion in Model/Dec.v is on explicit fuel; running out of it is the outcome [Err EOutOfFuel]
   ("the model declines").  This file proves that on a complete input b, with a guiding type of nesting
   depth D (1 without a guiding type), any fuel

        fuel >= 2 * length b + 2 * D

   is enough: [decode_with c fuel sp b <> Err EOutOfFuel], for every codec, every guiding type (no
   well-formedness condition) or none and EVERY byte string; [decode]'s own choice
   [dec_fuel sp b = 2 * length b + 2 * depth + 6] satisfies the bound.

   The argument: a potential 2 * (octets left) + 2 * (depth of the specification) [+ 1 on re-entry after
   the header] that every nested call of the entry point decreases -
     * a call that reads a header consumes at least two octets before it calls anything;
     * a call re-entered after the header (the untagged CHOICE) consumes nothing but descends one level of
       the guiding type;
     * the fragments of constructed strings have a specification of depth 1 and are only asked for after a
       header was read or inside a re-entered call, which pays the "+ 1";
   and every loop (fragments, components, end-of-octets search, long tag numbers) consumes at least one
   octet per iteration, its fuel being larger than the number of octets left.  The seek-back of the ANY
   decoder goes to the marked position, which the entry point set before reading the header. *)
From Coq Require Import Lia.
From PV Require Import Base.Bytes Model.Tag Model.TableTypes Model.Types Model.Proc Model.Enc Model.Dec Gen.Tables.
Local Open Scope nat_scope.

(* ====================================================================================== *)
(* Part 0: weakest preconditions on a closed stream                                        *)
(* ====================================================================================== *)

Definition rem (s: stream) : nat := length (arrived s) - pos s.

Lemma avail_len s : length (avail s) = rem s.
Proof. unfold avail, rem. apply skipn_length. Qed.

(* [wp p s Q]: on a closed stream in state s, p neither waits nor runs out of fuel, and if it yields a
   value, Q holds of the value and the final state *)
Fixpoint wp {A} (p: proc A) (s: stream) (Q: A -> stream -> Prop) : Prop :=
  match p with
  | Ret a => Q a s
  | Raise e => e <> EOutOfFuel
  | ReadN n k => if Nat.eqb n 0 then wp (k []) s Q
                 else if Nat.ltb (rem s) n then True
                 else wp (k (firstn n (avail s))) (setpos s (pos s + n)) Q
  | Tell k => wp (k (pos s)) s Q
  | SeekBack d k => wp k (setpos s (pos s - d)) Q
  | Mark k => wp k (setmark s (pos s)) Q
  | GetMark k => wp (k (mark s)) s Q
  | AtEOS k => wp (k (Nat.eqb (rem s) 0)) s Q
  | ReadAll k => if Nat.eqb (rem s) 0 then True else wp (k (avail s)) (setpos s (length (arrived s))) Q
  end.

Theorem wp_sound {A} (p: proc A) : forall s Q, closed s = true -> wp p s Q ->
  exists r s', resume p s = inr (r, s') /\ match r with Ok a => Q a s' | Err e => e <> EOutOfFuel end.
Proof.
  induction p as [a0|e|n k IH|k IH|d k IH|k IH|k IH|k IH|k IH]; intros s Q Hc H; cbn [resume wp] in *.
  - exists (Ok a0), s. split; [reflexivity|exact H].
  - exists (Err e), s. split; [reflexivity|exact H].
  - unfold attempt. rewrite avail_len, Hc. destruct (Nat.eqb n 0); [exact (IH _ s Q Hc H)|].
    destruct (Nat.ltb (rem s) n).
    + exists (Err EEndOfStream), s. split; [reflexivity|discriminate].
    + exact (IH _ (setpos s (pos s + n)) Q Hc H).
  - exact (IH _ s Q Hc H).
  - exact (IH (setpos s (pos s - d)) Q Hc H).
  - exact (IH (setmark s (pos s)) Q Hc H).
  - exact (IH _ s Q Hc H).
  - rewrite avail_len, Hc. destruct (Nat.eqb (rem s) 0); exact (IH _ s Q Hc H).
  - rewrite avail_len, Hc. destruct (Nat.eqb (rem s) 0).
    + exists (Err EEndOfStream), s. split; [reflexivity|discriminate].
    + exact (IH _ (setpos s (length (arrived s))) Q Hc H).
Qed.

Lemma wp_bind {A B} (p: proc A) (f: A -> proc B) : forall s Q,
  wp p s (fun a s1 => wp (f a) s1 Q) -> wp (pbind p f) s Q.
Proof.
  induction p as [a0|e|n k IH|k IH|d k IH|k IH|k IH|k IH|k IH]; intros s Q H; cbn [pbind wp] in *;
    try exact H; try (apply IH; exact H).
  - destruct (Nat.eqb n 0); [apply IH; exact H|]. destruct (Nat.ltb (rem s) n); [exact I|apply IH; exact H].
  - destruct (Nat.eqb (rem s) 0); [exact I|apply IH; exact H].
Qed.

Lemma wp_mono {A} (p: proc A) : forall s (Q Q': A -> stream -> Prop),
  wp p s Q -> (forall a s', Q a s' -> Q' a s') -> wp p s Q'.
Proof.
  induction p as [a0|e|n k IH|k IH|d k IH|k IH|k IH|k IH|k IH]; intros s Q Q' H HQ; cbn [wp] in *;
    try exact H; try (eapply IH; [exact H|exact HQ]).
  - apply HQ. exact H.
  - destruct (Nat.eqb n 0); [eapply IH; [exact H|exact HQ]|].
    destruct (Nat.ltb (rem s) n); [exact I|eapply IH; [exact H|exact HQ]].
  - destruct (Nat.eqb (rem s) 0); [exact I|eapply IH; [exact H|exact HQ]].
Qed.

Lemma wp_bind_mono {A B} (p: proc A) (f: A -> proc B) s (Q0: A -> stream -> Prop) Q :
  wp p s Q0 -> (forall a s1, Q0 a s1 -> wp (f a) s1 Q) -> wp (pbind p f) s Q.
Proof. intros Hp Hf. apply wp_bind. exact (wp_mono p s Q0 _ Hp Hf). Qed.

(* a successful read of n octets *)
Definition adv (n: nat) (s s': stream) : Prop :=
  arrived s' = arrived s /\ mark s' = mark s /\ pos s' = pos s + n /\ (n <> 0 -> pos s' <= length (arrived s)).

Lemma wp_readN_bind {B} n (f: bytes -> proc B) s Q :
  (forall b s', adv n s s' -> wp (f b) s' Q) -> wp (pbind (readN n) f) s Q.
Proof.
  intros H. cbn [pbind readN wp]. destruct (Nat.eqb_spec n 0) as [->|Hn].
  - apply H. unfold adv. split; [reflexivity|]. split; [reflexivity|]. split; [lia|congruence].
  - destruct (Nat.ltb_spec (rem s) n) as [Hlt|Hge]; [exact I|].
    apply H. unfold adv, rem in *. cbn [setpos arrived mark pos].
    split; [reflexivity|]. split; [reflexivity|]. split; [reflexivity|intros _; lia].
Qed.

Lemma wp_read1_bind {B} (f: N -> proc B) s Q :
  (forall o s', adv 1 s s' -> wp (f o) s' Q) -> wp (pbind read1 f) s Q.
Proof.
  intros H. cbn [pbind read1 readN wp Nat.eqb]. destruct (Nat.ltb_spec (rem s) 1) as [Hlt|Hge]; [exact I|].
  apply H. unfold adv, rem in *. cbn [setpos arrived mark pos].
  split; [reflexivity|]. split; [reflexivity|]. split; [reflexivity|intros _; lia].
Qed.

Lemma wp_lift_bind {A B} (r: res A) (f: A -> proc B) s Q :
  r <> Err EOutOfFuel -> (forall a, wp (f a) s Q) -> wp (pbind (lift r) f) s Q.
Proof. intros Hr H. destruct r as [a|e]; cbn [lift pbind wp]; [apply H|congruence]. Qed.

Lemma wp_create sp proto ts v s (Q: dval -> stream -> Prop) : (forall d, Q d s) -> wp (create sp proto ts v) s Q.
Proof.
  intros H. unfold create. cbv zeta.
  destruct (base_of (match sp with Some T => T | None => schemaless_ty proto ts end)); destruct v;
    try (cbn [wp]; apply H).
  destruct (str_octets_ok n b) as [[|]|]; cbn [wp]; [apply H|discriminate|discriminate].
Qed.

(* the post-conditions used below: the input is the same and at most / fewer octets are left *)
Definition le_ {A} (s: stream) (_: A) (s': stream) : Prop := arrived s' = arrived s /\ rem s' <= rem s.
Definition lt_ {A} (s: stream) (_: A) (s': stream) : Prop := arrived s' = arrived s /\ rem s' < rem s.
(* the ANY decoder re-reads the header: from the marked position *)
Definition P2 {A} (s: stream) (_: A) (s': stream) : Prop :=
  arrived s' = arrived s /\ (rem s' <= rem s \/ (mark s < pos s /\ rem s' < length (arrived s) - mark s)).

Ltac crunch :=
  unfold le_, lt_, P2, adv, rem in *; cbn [setpos setmark pos arrived mark closed] in *;
  repeat match goal with H: _ /\ _ |- _ => destruct H end;
  repeat match goal with H: arrived ?a = arrived ?b |- _ => rewrite H in *; clear H end;
  repeat split; try reflexivity; try lia.

Lemma le_P2 {A} s (a: A) s' : le_ s a s' -> P2 s a s'.
Proof. intros [H1 H2]. split; [exact H1|left; exact H2]. Qed.

(* ====================================================================================== *)
(* Part 1: depth of a specification                                                        *)
(* ====================================================================================== *)

Lemma ty_depth_pos T : 1 <= ty_depth T.
Proof. destruct T; cbn [ty_depth]; lia. Qed.

Lemma ty_depth_base T : ty_depth (base_of T) <= ty_depth T.
Proof. induction T; cbn [base_of ty_depth]; lia. Qed.

Lemma depth_in_alts a alts : In a alts -> ty_depth a <= fold_right (fun a acc => Nat.max (ty_depth a) acc) O alts.
Proof.
  induction alts as [|x r IH]; intros H; [destruct H|]. cbn [fold_right]. destruct H as [->|H]; [lia|].
  specialize (IH H). lia.
Qed.

Lemma depth_in_fields (f: presence * ty) fs : In f fs ->
  ty_depth (snd f) <= fold_right (fun f acc => Nat.max (ty_depth (snd f)) acc) O fs.
Proof.
  induction fs as [|x r IH]; intros H; [destruct H|]. cbn [fold_right]. destruct H as [->|H]; [lia|].
  specialize (IH H). lia.
Qed.

(* every type a tag map can hand out has depth at most D *)
Definition mbound (D: nat) (m: tmap) : Prop :=
  (forall e, In e (tm_present m) -> ty_depth (snd e) <= D) /\ (forall x, tm_default m = Some x -> ty_depth x <= D).

Lemma mbound_weaken D D' m : mbound D m -> D <= D' -> mbound D' m.
Proof. intros [H1 H2] Hle. split; [intros e He; specialize (H1 e He); lia|intros x Hx; specialize (H2 x Hx); lia]. Qed.

Lemma mbound_combine D u : forall l acc, mbound D acc ->
  (forall m T, In (m, T) l -> mbound D m /\ ty_depth T <= D) -> mbound D (combine_maps u l acc).
Proof.
  induction l as [|[m T] r IH]; intros acc Hacc Hl; cbn [combine_maps]; [exact Hacc|]. cbv zeta.
  apply IH; [|intros m' T' Hin; apply Hl; right; exact Hin].
  destruct (Hl m T (or_introl eq_refl)) as [[Hm1 Hm2] HT]. destruct Hacc as [Ha1 Ha2].
  split; cbn [tm_present tm_default].
  - assert (Hgen: forall keys pres, (forall e, In e pres -> ty_depth (snd e) <= D) ->
              forall e, In e (fold_left (fun p (kt: tagset * ty) =>
                          filter (fun e0 => negb (tagset_eqb (fst e0) (fst kt))) p ++ [(fst kt, T)]) keys pres) ->
              ty_depth (snd e) <= D).
    { induction keys as [|kt keys IHk]; intros pres Hp e He; cbn [fold_left] in He; [exact (Hp e He)|].
      refine (IHk _ _ e He). intros e0 He0. apply in_app_or in He0. destruct He0 as [He0|He0].
      - apply filter_In in He0. exact (Hp e0 (proj1 He0)).
      - destruct He0 as [<-|[]]. exact HT. }
    exact (Hgen (tm_present m) (tm_present acc) Ha1).
  - intros x Hx. destruct (tm_default acc) as [d|] eqn:Ed; [inversion Hx; subst; exact (Ha2 x eq_refl)|exact (Hm2 x Hx)].
Qed.

Lemma mbound_empty D : mbound D empty_tmap.
Proof. split; [intros e []|intros x Hx; discriminate Hx]. Qed.

Lemma choice_go_map alts :
  (fix go (l: list ty) : list (tmap * ty) := match l with [] => [] | a :: r => (tagmap_of a, a) :: go r end) alts
  = map (fun a => (tagmap_of a, a)) alts.
Proof. induction alts as [|a r IH]; [reflexivity|]. cbn [map]. rewrite <- IH. reflexivity. Qed.

Lemma mbound_tagmap_of : forall T, mbound (ty_depth T) (tagmap_of T).
Proof.
  induction T using ty_ind';
    try (split; cbn [tagmap_of tm_present tm_default]; [intros e [<-|[]]; cbn [snd]; lia|intros x Hx; inversion Hx; subst; lia]).
  cbn [tagmap_of]. rewrite choice_go_map. apply mbound_combine; [apply mbound_empty|].
  intros m T Hin. apply in_map_iff in Hin. destruct Hin as (a & Ha & Hin). inversion Ha; subst.
  pose proof (depth_in_alts T alts Hin) as Hd. cbn [ty_depth].
  rewrite Forall_forall in H. split; [apply (mbound_weaken (ty_depth T)); [exact (H T Hin)|lia]|lia].
Qed.

Lemma mbound_fields D u fs : (forall t, In t fs -> ty_depth t <= D) -> mbound D (fields_tagmap u fs).
Proof.
  intros H. unfold fields_tagmap. apply mbound_combine; [apply mbound_empty|].
  intros m T Hin. apply in_map_iff in Hin. destruct Hin as (a & Ha & Hin). inversion Ha; subst.
  split; [apply (mbound_weaken (ty_depth T)); [apply mbound_tagmap_of|exact (H T Hin)]|exact (H T Hin)].
Qed.

Lemma assoc_In2 {A B} (eqb: A -> A -> bool) k (l: list (A * B)) v : assoc eqb k l = Some v -> exists k', In (k', v) l.
Proof.
  induction l as [|[a b] r IH]; cbn [assoc]; [discriminate|].
  destruct (eqb k a); intros H.
  - inversion H; subst. exists a. left. reflexivity.
  - destruct (IH H) as [k' Hk]. exists k'. right. exact Hk.
Qed.

Lemma tm_get_bound D m ts T : mbound D m -> tm_get m ts = Ok (Some T) -> ty_depth T <= D.
Proof.
  intros [H1 H2] H. unfold tm_get in H. destruct (tm_postponed m); [discriminate|].
  destruct (tm_find ts (tm_present m)) as [t|] eqn:Ef.
  - inversion H; subst. destruct (assoc_In2 _ _ _ _ Ef) as [k Hk]. exact (H1 _ Hk).
  - destruct (tm_default m) as [d|]; [|discriminate]. destruct (tm_mem ts (tm_skip m)); [discriminate|].
    inversion H; subst. exact (H2 T eq_refl).
Qed.

Lemma tm_get_fuel m ts : tm_get m ts <> Err EOutOfFuel.
Proof.
  unfold tm_get. destruct (tm_postponed m); [discriminate|]. destruct (tm_find ts (tm_present m)); [discriminate|].
  destruct (tm_default m); [|discriminate]. destruct (tm_mem ts (tm_skip m)); discriminate.
Qed.

Definition sbound (sp: spec) (D: nat) : Prop :=
  match sp with SNone => 1 <= D | STy T => ty_depth T <= D | SMap m => mbound D m end.

(* ====================================================================================== *)
(* Part 2: the pure functions never run out of fuel                                        *)
(* ====================================================================================== *)

Lemma oid_subids_fuel : forall fuel b, length b < fuel -> oid_subids fuel b <> Err EOutOfFuel.
Proof.
  induction fuel as [|f IH]; intros b Hl; [lia|]. cbn [oid_subids].
  destruct b as [|s r]; [discriminate|]. cbn [length] in Hl.
  assert (Hrec: forall r' (x: N), length r' <= length r -> (do rest <- oid_subids f r'; Ok (x :: rest)) <> Err EOutOfFuel).
  { intros r' x Hr'. specialize (IH r' ltac:(lia)). destruct (oid_subids f r') as [rest|e]; cbn [bind]; congruence. }
  destruct (N.ltb s 128); [apply Hrec; lia|].
  destruct (N.eqb s 128); [discriminate|].
  destruct (N.leb 128 s); [|apply Hrec; lia].
  destruct r as [|n' r']; [discriminate|].
  assert (Hgen: forall fuel2 next r2 acc, length r2 < fuel2 -> length r2 <= length (n' :: r') ->
            (fix more (fuel2: nat) (acc: N) (next: N) (r: bytes) : res (list N) :=
               match fuel2 with
               | O => Err EOutOfFuel
               | S f2 =>
                   if N.leb 128 next then
                     match r with
                     | [] => Err EUnderrun
                     | n' :: r' => more f2 (N.shiftl acc 7 + N.land next 127)%N n' r'
                     end
                   else do rest <- oid_subids f r; Ok ((N.shiftl acc 7 + next)%N :: rest)
               end) fuel2 acc next r2 <> Err EOutOfFuel).
  { induction fuel2 as [|f2 IH2]; intros next r2 acc H1 H2; [lia|].
    destruct (N.leb 128 next).
    - destruct r2 as [|n2 r3]; [discriminate|]. cbn [length] in *. apply IH2; lia.
    - apply Hrec. exact H2. }
  apply Hgen; cbn [length]; lia.
Qed.

Lemma dec_oid_fuel b : dec_oid b <> Err EOutOfFuel.
Proof.
  unfold dec_oid. destruct b as [|o r]; [discriminate|].
  pose proof (oid_subids_fuel (S (length (o :: r))) (o :: r) ltac:(lia)) as H.
  destruct (oid_subids (S (length (o :: r))) (o :: r)) as [subs|e]; cbn [bind]; [|congruence].
  destruct subs as [|x l]; [discriminate|].
  destruct (N.leb x 39); [discriminate|]. destruct (N.leb x 79); discriminate.
Qed.

Lemma dec_real_fuel b : dec_real b <> Err EOutOfFuel.
Proof.
  unfold dec_real. destruct b as [|fo chunk]; [discriminate|].
  destruct (negb (N.eqb (N.land fo 128) 0)).
  - destruct chunk as [|c0 crest]; [discriminate|].
    destruct (if N.eqb (N.land fo 3 + 1) 4 then (c0, crest) else ((N.land fo 3 + 1)%N, c0 :: crest)) as [n chunk1].
    destruct (firstn (N.to_nat n) chunk1); [discriminate|]. destruct (skipn (N.to_nat n) chunk1); [discriminate|].
    destruct (N.ltb 2 (N.land (N.shiftr fo 4) 3)); discriminate.
  - destruct (negb (N.eqb (N.land fo 64) 0)); [discriminate|]. destruct chunk; discriminate.
Qed.

Lemma bits_of_octets_fuel b p : bits_of_octets b p <> Err EOutOfFuel.
Proof. unfold bits_of_octets. destruct (Nat.ltb _ _); discriminate. Qed.

Lemma position_by_type_fuel l ts : position_by_type l ts <> Err EOutOfFuel.
Proof. unfold position_by_type. destruct (tag_to_pos l 0 []); [|discriminate]. destruct (assoc _ _ _); discriminate. Qed.

Lemma seq_position_fuel lf fs is_set det idx T v : seq_position lf fs is_set det idx T v <> Err EOutOfFuel.
Proof.
  unfold seq_position. destruct det; [discriminate|]. cbv zeta. destruct is_set; [apply position_by_type_fuel|].
  destruct (nth_error fs idx) as [[p t]|]; [|discriminate]. destruct (is_req p); [discriminate|].
  pose proof (position_by_type_fuel (ambiguous_run (skipn idx fs)) (effective_tagset (S lf) T v)) as H.
  destruct (position_by_type _ _); cbn [bind]; congruence.
Qed.

(* ====================================================================================== *)
(* Part 3: through every payload decoder                                                   *)
(* ====================================================================================== *)

Definition rs_cost (rs: option (option N)) : nat := match rs with None => 0 | Some _ => 2 end.

(* what a call of the entry point guarantees: the same input and, when it begins an element, at least one
   octet consumed; when it is re-entered after the header (the untagged CHOICE) no octet given back - except
   that an untagged ANY re-reads the header of the element from the marked position, which the call that
   began the element set: then it stops beyond that position *)
Definition call_post (rs: option (option N)) (s: stream) (_: dval) (s': stream) : Prop :=
  arrived s' = arrived s /\
  match rs with
  | None => rem s' < rem s
  | Some _ => rem s' <= rem s \/ (mark s < pos s /\ rem s' < length (arrived s) - mark s)
  end.

Lemma match_eoo {X} (b: bytes) (A B: X) (P: X -> Prop) :
  P A -> P B -> P (match b with [0%N; 0%N] => A | _ => B end).
Proof. intros HA HB. destruct b as [|[|p] [|[|q] [|z t]]]; auto. Qed.

Ltac wraise := cbn [wp]; discriminate.

Section DecFuel.
  Variable c : codec.
  Variable rec : spec -> tagset -> option (option N) -> bool -> bool -> proc dval.
  Variable lf : nat.
  Hypothesis Hrec : forall sp D ts rs ae sf s, sbound sp D -> 2 * rem s + 2 * D + rs_cost rs <= lf -> 1 <= lf ->
    wp (rec sp ts rs ae sf) s (call_post rs s).

  Lemma Hrec_none sp D ts ae sf s : sbound sp D -> 2 * rem s + 2 * D <= lf -> 1 <= lf -> wp (rec sp ts None ae sf) s (lt_ s).
  Proof.
    intros Hb Hf Hl. eapply wp_mono; [apply (Hrec sp D ts None ae sf s Hb); cbn [rs_cost]; lia|].
    intros a s' (H1 & H2). split; [exact H1|exact H2].
  Qed.

  Lemma sbound_leaf T : ty_depth T = 1 -> sbound (STy T) 1.
  Proof. intros H. cbn [sbound]. rewrite H. lia. Qed.

  Lemma wp_read_len_bind {B} n (f: bytes -> proc B) s Q :
    (forall b s', adv (N.to_nat (N.min n (N.of_nat (S lf)))) s s' -> wp (f b) s' Q) -> wp (pbind (read_len lf n) f) s Q.
  Proof.
    intros H. unfold read_len. destruct (N.ltb index_max n); [wraise|]. apply wp_readN_bind. exact H.
  Qed.

  Lemma wp_dec_integer sp proto ts len s : wp (dec_integer lf sp proto ts len) s (le_ s).
  Proof.
    unfold dec_integer. destruct (negb _); [wraise|]. apply wp_read_len_bind. intros b s' Ha.
    apply wp_create. intros d. crunch.
  Qed.

  Lemma wp_dec_bool_cer sp ts len s : wp (dec_bool_cer lf sp ts len) s (le_ s).
  Proof.
    unfold dec_bool_cer. destruct (negb _); [wraise|]. apply wp_read_len_bind. intros b s' Ha.
    repeat match goal with |- wp (match ?x with _ => _ end) _ _ => destruct x end;
      try wraise; apply wp_create; intros d; crunch.
  Qed.

  Lemma wp_dec_null sp ts len s : wp (dec_null lf sp ts len) s (le_ s).
  Proof.
    unfold dec_null. destruct (negb _); [wraise|]. apply wp_read_len_bind. intros b s' Ha.
    destruct b; [|wraise]. apply wp_create; intros d; crunch.
  Qed.

  Lemma wp_dec_oid_v sp ts len s : wp (dec_oid_v lf sp ts len) s (le_ s).
  Proof.
    unfold dec_oid_v. destruct (negb _); [wraise|]. apply wp_read_len_bind. intros b s' Ha.
    apply wp_lift_bind; [apply dec_oid_fuel|]. intros a. apply wp_create; intros d; crunch.
  Qed.

  Lemma wp_dec_real_v sp ts len s : wp (dec_real_v lf sp ts len) s (le_ s).
  Proof.
    unfold dec_real_v. destruct (negb _); [wraise|]. apply wp_read_len_bind. intros b s' Ha.
    apply wp_lift_bind; [apply dec_real_fuel|]. intros a. apply wp_create; intros d; crunch.
  Qed.

  Lemma wp_collector len s : wp (collector lf len) s (le_ s).
  Proof.
    unfold collector. destruct len as [n|].
    - apply wp_read_len_bind. intros b s' Ha. cbn [wp]. crunch.
    - cbn [pbind readall wp]. destruct (Nat.eqb (rem s) 0); [exact I|]. crunch.
  Qed.

  (* --- strings --- *)
  Lemma wp_octets_loop proto sp ts len start : forall n acc s, rem s < n -> 2 * rem s + 2 <= lf ->
    wp (octets_loop rec proto sp ts len start n acc) s (le_ s).
  Proof.
    induction n as [|n IH]; intros acc s Hn Hf; [lia|]. cbn [octets_loop pbind tell wp].
    destruct (N.ltb _ _); [|apply wp_create; intros d; crunch].
    unfold fragment. eapply wp_bind_mono; [apply (Hrec_none (STy TOcts) 1); [apply sbound_leaf; reflexivity|lia|lia]|].
    intros f s1 Hs1.
    assert (Hk: forall acc', wp (octets_loop rec proto sp ts len start n acc') s1 (le_ s)).
    { intros acc'. eapply wp_mono; [apply IH; crunch|]. intros a s2 Hs2. crunch. }
    destruct f as [T v| |b| |]; try wraise; [|apply Hk]. destruct v; try wraise. apply Hk.
  Qed.

  Lemma wp_dec_octets proto fl sp ts len sfun s : 2 * rem s + 2 <= lf ->
    wp (dec_octets rec lf proto fl sp ts len sfun) s (le_ s).
  Proof.
    intros Hf. unfold dec_octets. destruct (tag0_simple ts).
    - apply wp_read_len_bind. intros b s' Ha. apply wp_create; intros d; crunch.
    - destruct (negb _); [wraise|]. cbn [pbind tell wp]. apply wp_octets_loop; lia.
  Qed.

  Lemma wp_octets_indef_loop proto sp ts : forall n acc s, rem s < n -> 2 * rem s + 2 <= lf ->
    wp (octets_indef_loop rec proto sp ts n acc) s (le_ s).
  Proof.
    induction n as [|n IH]; intros acc s Hn Hf; [lia|]. cbn [octets_indef_loop].
    unfold fragment. eapply wp_bind_mono; [apply (Hrec_none (STy TOcts) 1); [apply sbound_leaf; reflexivity|lia|lia]|].
    intros f s1 Hs1.
    assert (Hk: forall acc', wp (octets_indef_loop rec proto sp ts n acc') s1 (le_ s)).
    { intros acc'. eapply wp_mono; [apply IH; crunch|]. intros a s2 Hs2. crunch. }
    destruct f as [T v| |b| |]; try wraise; [|apply wp_create; intros d; crunch|apply Hk].
    destruct v; try wraise. apply Hk.
  Qed.

  Lemma wp_add_bits {B} acc f (k: list bool -> proc B) s Q :
    (forall acc', wp (k acc') s Q) -> wp (pbind (add_bits_fragment acc f) k) s Q.
  Proof.
    intros H. unfold add_bits_fragment. destruct f as [T v| |b| |]; try wraise. destruct v; try wraise.
    cbn [pbind]. apply H.
  Qed.

  Lemma wp_bits_loop sp ts len start : forall n acc s, rem s < n -> 2 * rem s + 2 <= lf ->
    wp (bits_loop rec sp ts len start n acc) s (le_ s).
  Proof.
    induction n as [|n IH]; intros acc s Hn Hf; [lia|]. cbn [bits_loop pbind tell wp].
    destruct (N.ltb _ _); [|apply wp_create; intros d; crunch].
    unfold bits_fragment. eapply wp_bind_mono; [apply (Hrec_none (STy TBits) 1); [apply sbound_leaf; reflexivity|lia|lia]|].
    intros f s1 Hs1. apply wp_add_bits. intros acc'.
    eapply wp_mono; [apply IH; crunch|]. intros a s2 Hs2. crunch.
  Qed.

  Lemma wp_dec_bits fl sp ts len sfun s : 2 * rem s + 2 <= lf -> wp (dec_bits rec lf fl sp ts len sfun) s (le_ s).
  Proof.
    intros Hf. unfold dec_bits. destruct sfun; [apply wp_collector|]. destruct (tag0_simple ts).
    - destruct (N.eqb len 0); [wraise|]. apply wp_read1_bind. intros tb s1 Ha1.
      destruct (N.ltb 7 tb); [wraise|]. apply wp_read_len_bind. intros b s2 Ha2.
      apply wp_lift_bind; [apply bits_of_octets_fuel|]. intros bs. apply wp_create; intros d; crunch.
    - destruct (negb _); [wraise|]. cbn [pbind tell wp]. apply wp_bits_loop; lia.
  Qed.

  Lemma wp_bits_indef_loop sp ts : forall n acc s, rem s < n -> 2 * rem s + 2 <= lf ->
    wp (bits_indef_loop rec sp ts n acc) s (le_ s).
  Proof.
    induction n as [|n IH]; intros acc s Hn Hf; [lia|]. cbn [bits_indef_loop].
    unfold bits_fragment. eapply wp_bind_mono; [apply (Hrec_none (STy TBits) 1); [apply sbound_leaf; reflexivity|lia|lia]|].
    intros f s1 Hs1.
    assert (Hk: wp (let! acc' := add_bits_fragment acc f in bits_indef_loop rec sp ts n acc') s1 (le_ s)).
    { apply wp_add_bits. intros acc'. eapply wp_mono; [apply IH; crunch|]. intros a s2 Hs2. crunch. }
    destruct f as [T v| |b| |]; try exact Hk. apply wp_create; intros d; crunch.
  Qed.

  Lemma wp_dec_bits_indef sp ts sfun s : 2 * rem s + 2 <= lf -> wp (dec_bits_indef rec lf sp ts sfun) s (le_ s).
  Proof.
    intros Hf. unfold dec_bits_indef. destruct sfun; [apply wp_collector|]. apply wp_bits_indef_loop; lia.
  Qed.

  (* --- ANY --- *)
  Lemma wp_dec_any sp ts len sfun s : wp (dec_any lf sp ts len sfun) s (P2 s).
  Proof.
    unfold dec_any. cbv zeta.
    destruct (match sp with None => true | Some T => negb (tagset_eqb ts (tagset_of' T)) end).
    - cbn [pbind getmark tell wp]. apply wp_read_len_bind. intros b s' Ha.
      assert (HP: forall d: dval, P2 s d s').
      { intros d. unfold P2, adv, rem in *. cbn [setpos pos arrived mark] in *.
        destruct Ha as (Ha1 & Ha2 & Ha3 & Ha4). rewrite Ha1. split; [reflexivity|].
        destruct (le_lt_dec (pos s) (mark s)) as [Hle|Hlt]; [left; lia|right]. split; [exact Hlt|].
        assert (Hk: N.to_nat (N.min (len + N.of_nat (pos s - mark s)) (N.of_nat (S lf))) <> 0) by lia.
        specialize (Ha4 Hk). lia. }
      destruct sfun; [cbn [wp]; apply HP|apply wp_create; exact HP].
    - cbn [pbind]. apply wp_read_len_bind. intros b s' Ha.
      destruct sfun; [cbn [wp]; apply le_P2; crunch|apply wp_create; intros d; apply le_P2; crunch].
  Qed.

  Lemma wp_any_indef_loop sp ts sfun tagged : forall n acc s, rem s < n -> 2 * rem s + 2 <= lf ->
    wp (any_indef_loop rec sp ts sfun tagged n acc) s (le_ s).
  Proof.
    induction n as [|n IH]; intros acc s Hn Hf; [lia|]. cbn [any_indef_loop].
    unfold fragment. eapply wp_bind_mono; [apply (Hrec_none (STy TAny) 1); [apply sbound_leaf; reflexivity|lia|lia]|].
    intros f s1 Hs1.
    assert (Hk: forall acc', wp (any_indef_loop rec sp ts sfun tagged n acc') s1 (le_ s)).
    { intros acc'. eapply wp_mono; [apply IH; crunch|]. intros a s2 Hs2. crunch. }
    destruct f as [T v| |b| |]; try wraise; [| |apply Hk].
    - destruct v; try wraise. apply Hk.
    - cbv zeta. destruct sfun; [cbn [wp]; crunch|apply wp_create; intros d; crunch].
  Qed.

  Lemma wp_dec_any_indef sp ts sfun s : 2 * rem s + 2 <= lf -> wp (dec_any_indef rec lf sp ts sfun) s (le_ s).
  Proof.
    intros Hf. unfold dec_any_indef. cbv zeta.
    destruct (match sp with None => false | Some T => tagset_eqb ts (tagset_of' T) end).
    - cbn [pbind]. apply wp_any_indef_loop; lia.
    - cbn [pbind getmark tell wp]. apply wp_readN_bind. intros b s' Ha.
      eapply wp_mono; [apply wp_any_indef_loop; crunch|]. intros a s2 Hs2. crunch.
  Qed.

  (* --- the constructed types --- *)
  Ltac wgo :=
    repeat match goal with
           | |- wp (Raise _) _ _ => wraise
           | |- wp (if ?b then _ else _) _ _ => destruct b
           | |- wp (match ?x with _ => _ end) _ _ => destruct x
           end.

  Lemma In_skipn {X} (x: X) n l : In x (skipn n l) -> In x l.
  Proof. intros H. rewrite <- (firstn_skipn n l). apply in_or_app. right. exact H. Qed.

  Lemma ambiguous_run_In t fs : In t (ambiguous_run fs) -> exists p, In (p, t) fs.
  Proof.
    induction fs as [|[p x] r IH]; cbn [ambiguous_run]; [intros []|].
    destruct p; cbn [In]; intros [<-|H]; try (eexists; left; reflexivity); try destruct H;
      destruct (IH H) as [p' Hp']; exists p'; right; exact Hp'.
  Qed.

  Lemma sbound_seq_component D fs det idx sp' : (forall f, In f fs -> ty_depth (snd f) <= D) ->
    seq_component_spec fs det idx = Some sp' -> sbound sp' D.
  Proof.
    intros Hfs H. unfold seq_component_spec in H. destruct (nth_error fs idx) as [[p t]|] eqn:En; [|discriminate].
    destruct (det || is_req p)%bool; inversion H; subst; cbn [sbound].
    - exact (Hfs _ (nth_error_In _ _ En)).
    - apply mbound_fields. intros x Hx. destruct (ambiguous_run_In _ _ Hx) as [p' Hp'].
      exact (Hfs _ (In_skipn _ _ _ Hp')).
  Qed.

  Lemma wp_record_loop T fs is_set len start D : (forall f, In f fs -> ty_depth (snd f) <= D) -> 1 <= D ->
    forall n idx vs extra s, rem s < n -> 2 * rem s + 2 * D <= lf ->
    wp (record_loop rec lf T fs is_set len start n idx vs extra) s (le_ s).
  Proof.
    intros Hfs HD. induction n as [|n IH]; intros idx vs extra s Hn Hf; [lia|].
    cbn [record_loop]. cbv zeta. cbn [pbind tell wp].
    assert (Hfin: forall s1, le_ s DEoo s1 -> wp
                    (if match fs with [] => true | _ => false end then Ret (DV T (VRec []))
                     else if required_seen fs vs then Ret (DV T (VRec vs)) else Raise EMalformed) s1 (le_ s)).
    { intros s1 Hs1. wgo; cbn [wp]; exact Hs1. }
    destruct (negb (match len with Some l => N.ltb (N.of_nat (pos s - start)) l | None => true end));
      [apply Hfin; crunch|].
    match goal with |- wp (match ?x with Some _ => _ | None => _ end) _ _ => remember x as osp eqn:Hosp end.
    assert (Hsb: forall sp', osp = Some sp' -> sbound sp' D).
    { intros sp' E. rewrite E in Hosp.
      assert (Hmap: sbound (SMap (fields_tagmap true (map snd fs))) D).
      { cbn [sbound]. apply mbound_fields. intros t Ht. apply in_map_iff in Ht. destruct Ht as (f & <- & Hf0). exact (Hfs f Hf0). }
      destruct (match fs with [] => true | _ => false end).
      - destruct len; inversion Hosp; subst; exact HD.
      - destruct len.
        + destruct is_set; [inversion Hosp; subst; exact Hmap|symmetry in Hosp; exact (sbound_seq_component _ _ _ _ _ Hfs Hosp)].
        + destruct (negb is_set && Nat.leb (length fs) idx)%bool; [inversion Hosp; subst; exact HD|].
          destruct is_set; [inversion Hosp; subst; exact Hmap|symmetry in Hosp; exact (sbound_seq_component _ _ _ _ _ Hfs Hosp)]. }
    clear Hosp. destruct osp as [sp'|]; [|wraise].
    eapply wp_bind_mono; [apply (Hrec_none sp' D); [apply Hsb; reflexivity|lia|lia]|].
    intros d s1 Hs1.
    assert (Hk: forall idx' vs', wp (record_loop rec lf T fs is_set len start n idx' vs' extra) s1 (le_ s)).
    { intros idx' vs'. eapply wp_mono; [apply IH; crunch|]. intros a s2 Hs2. crunch. }
    destruct d as [Tc vc| |b| |]; [|apply Hfin; crunch| |wraise|wraise].
    - destruct (match fs with [] => true | _ => false end); [wraise|].
      destruct (negb is_set && Nat.leb (length fs) idx)%bool; [wraise|].
      apply wp_lift_bind; [apply seq_position_fuel|]. intros i. destruct (Nat.leb (length fs) i); [wraise|apply Hk].
    - wgo; apply Hk.
  Qed.

  Lemma wp_dec_record T fs is_set len D s : (forall f, In f fs -> ty_depth (snd f) <= D) -> 1 <= D ->
    2 * rem s + 2 * D <= lf -> wp (dec_record rec lf T fs is_set len) s (le_ s).
  Proof.
    intros Hfs HD Hf. unfold dec_record. cbv zeta. cbn [pbind tell wp]. apply (wp_record_loop T fs is_set len (pos s) D Hfs HD); lia.
  Qed.

  Lemma wp_listof_loop T t len start D : ty_depth t <= D ->
    forall n acc s, rem s < n -> 2 * rem s + 2 * D <= lf -> 1 <= lf ->
    wp (listof_loop rec T t len start n acc) s (le_ s).
  Proof.
    intros Ht. induction n as [|n IH]; intros acc s Hn Hf Hl; [lia|].
    cbn [listof_loop]. cbv zeta. cbn [pbind tell wp].
    destruct (negb _); [cbn [wp]; crunch|].
    eapply wp_bind_mono; [apply (Hrec_none (STy t) D); [exact Ht|lia|lia]|].
    intros d s1 Hs1.
    assert (Hk: forall acc', wp (listof_loop rec T t len start n acc') s1 (le_ s)).
    { intros acc'. eapply wp_mono; [apply IH; crunch|]. intros a s2 Hs2. crunch. }
    destruct d as [Tc vc| |b| |]; [apply Hk|cbn [wp]; crunch| |wraise|wraise].
    destruct (is_any t); [apply Hk|wraise].
  Qed.

  Lemma wp_schemaless_loop is_set ts len start : forall n acc s, rem s < n -> 2 * rem s + 2 <= lf ->
    wp (schemaless_loop rec is_set ts len start n acc) s (le_ s).
  Proof.
    induction n as [|n IH]; intros acc s Hn Hf; [lia|].
    cbn [schemaless_loop]. cbv zeta. cbn [pbind tell wp].
    destruct (negb _); [wgo; cbn [wp]; crunch|].
    eapply wp_bind_mono; [apply (Hrec_none SNone 1); [exact (le_n 1)|lia|lia]|].
    intros d s1 Hs1.
    assert (Hk: forall acc', wp (schemaless_loop rec is_set ts len start n acc') s1 (le_ s)).
    { intros acc'. eapply wp_mono; [apply IH; crunch|]. intros a s2 Hs2. crunch. }
    destruct d as [Tc vc| |b| |]; [apply Hk| |wraise|wraise|wraise].
    wgo; cbn [wp]; crunch.
  Qed.

  Lemma wp_choice_place T alts d s (Q: dval -> stream -> Prop) : (forall x, Q x s) -> wp (choice_place lf T alts d) s Q.
  Proof.
    intros H. unfold choice_place. destruct d as [Tc vc| |b| |]; try wraise.
    apply wp_lift_bind; [apply position_by_type_fuel|]. intros i. cbn [wp]. apply H.
  Qed.

  Lemma Hrec_some sp D ts len ae sf s : sbound sp D -> 2 * rem s + 2 * D + 2 <= lf ->
    wp (rec sp ts (Some len) ae sf) s (P2 s).
  Proof.
    intros Hb Hf. eapply wp_mono; [apply (Hrec sp D ts (Some len) ae sf s Hb); cbn [rs_cost]; lia|].
    intros a s' Hs'. exact Hs'.
  Qed.

  (* with the tag of the CHOICE itself on the wire: a loop over begun elements *)
  Lemma wp_choice_loop_tagged T alts ts D : mbound D (fields_tagmap true alts) ->
    forall n cur s, rem s < n -> 2 * rem s + 2 * D + 2 <= lf ->
    wp (choice_loop rec lf T alts ts true n cur) s (le_ s).
  Proof.
    intros Hm. induction n as [|n IH]; intros cur s Hn Hf; [lia|].
    cbn [choice_loop]. cbv zeta.
    eapply wp_bind_mono; [apply (Hrec_none _ D); [exact Hm|lia|lia]|]. intros d s1 Hs1.
    assert (Hk: wp (let! x := choice_place lf T alts d in choice_loop rec lf T alts ts true n (Some x)) s1 (le_ s)).
    { apply wp_bind. apply wp_choice_place. intros x.
      eapply wp_mono; [apply IH; crunch|]. intros a s2 Hs2. crunch. }
    destruct d as [Tc vc| |b| |]; try exact Hk.
    destruct cur; [cbn [wp]; crunch|wraise].
  Qed.

  (* untagged: the one alternative, re-entered after the header *)
  Lemma wp_choice_loop_untagged T alts ts D : mbound D (fields_tagmap true alts) ->
    forall n cur s, rem s < n -> 2 * rem s + 2 * D + 2 <= lf ->
    wp (choice_loop rec lf T alts ts false n cur) s (P2 s).
  Proof.
    intros Hm n cur s Hn Hf. destruct n as [|n]; [lia|].
    cbn [choice_loop]. cbv zeta.
    eapply wp_bind_mono; [apply (Hrec_some _ D); [exact Hm|lia]|]. intros d s1 Hs1.
    assert (Hk: wp (let! x := choice_place lf T alts d in Ret x) s1 (P2 s)).
    { apply wp_bind. apply wp_choice_place. intros x. cbn [wp]. exact Hs1. }
    destruct d as [Tc vc| |b| |]; try exact Hk.
    destruct cur; [cbn [wp]; exact Hs1|wraise].
  Qed.

  Lemma wp_dec_choice T alts ts len D s : mbound D (fields_tagmap true alts) -> 2 * rem s + 2 * D + 2 <= lf ->
    wp (dec_choice rec lf T alts ts len) s (P2 s).
  Proof.
    intros Hm Hf. unfold dec_choice. cbv zeta. destruct len as [l|].
    - eapply wp_bind_mono.
      + instantiate (1 := P2 s). destruct (tagset_eqb (tagset_of' T) ts).
        * eapply wp_mono; [apply (Hrec_none _ D); [exact Hm|lia|lia]|]. intros a s1 Hs1. apply le_P2. crunch.
        * apply (Hrec_some _ D); [exact Hm|lia].
      + intros d s1 Hs1. apply wp_choice_place. intros x. exact Hs1.
    - destruct (tagset_eqb (tagset_of' T) ts).
      + eapply wp_mono; [apply (wp_choice_loop_tagged T alts ts D Hm); lia|]. intros a s'. apply le_P2.
      + apply (wp_choice_loop_untagged T alts ts D Hm); lia.
  Qed.

  (* --- an explicit tag --- *)
  Lemma wp_raw_loop sp D ts : sbound sp D -> forall n last s, rem s < n -> 2 * rem s + 2 * D <= lf -> 1 <= lf ->
    wp (raw_loop rec sp ts n last) s (le_ s).
  Proof.
    intros Hb. induction n as [|n IH]; intros last s Hn Hf Hl; [lia|]. cbn [raw_loop].
    eapply wp_bind_mono; [apply (Hrec_none sp D); [exact Hb|lia|lia]|]. intros d s1 Hs1.
    assert (Hk: wp (raw_loop rec sp ts n d) s1 (le_ s)).
    { eapply wp_mono; [apply IH; crunch|]. intros a s2 Hs2. crunch. }
    destruct d as [Tc vc| |b| |]; try exact Hk.
    destruct last; try wraise; cbn [wp]; crunch.
  Qed.

  Lemma wp_dec_raw sp D ts len sfun s : sbound sp D -> 2 * rem s + 2 * D <= lf -> 1 <= lf ->
    wp (dec_raw rec lf sp ts len sfun) s (le_ s).
  Proof.
    intros Hb Hf Hl. unfold dec_raw. destruct sfun; [apply wp_collector|]. destruct len as [l|].
    - eapply wp_mono; [apply (Hrec_none sp D); [exact Hb|lia|lia]|]. intros a s1 Hs1. crunch.
    - apply (wp_raw_loop sp D ts Hb); lia.
  Qed.

  (* --- the payload decoder of a class --- *)
  Definition obound (sp: option ty) (D: nat) : Prop := match sp with Some T => ty_depth T <= D | None => True end.

  Lemma wp_le_P2 (p: proc dval) s : wp p s (le_ s) -> wp p s (P2 s).
  Proof. intros H. eapply wp_mono; [exact H|]. intros a s'. apply le_P2. Qed.

  Lemma wp_dec_value cd fl sp ts len sfun D s : obound sp D -> 1 <= D -> 2 * rem s + 2 * D <= lf ->
    wp (dec_value rec lf cd fl sp ts len sfun) s (P2 s).
  Proof.
    intros Hb HD Hf. unfold dec_value. cbv zeta.
    assert (Hconstr: wp (if negb (tag0_cons ts) then Raise EMalformed else
                         if sfun then collector lf len else
                         match sp with
                         | None => dec_schemaless rec lf (match cd with DcSet | DcSetOf | DcSetOrSetOf => true | _ => false end) ts len
                         | Some T => match base_of T with
                                     | TSeq fs => dec_record rec lf T fs false len
                                     | TSet fs => dec_record rec lf T fs true len
                                     | TSeqOf t | TSetOf t => dec_listof rec lf T t len
                                     | _ => Raise EUnmodelled
                                     end
                         end) s (P2 s)).
    { destruct (negb (tag0_cons ts)); [wraise|]. destruct sfun; [apply wp_le_P2; apply wp_collector|].
      destruct sp as [T|].
      - cbn [obound] in Hb. pose proof (ty_depth_base T) as Hbase.
        destruct (base_of T) as [| | | | | | | |n0|fs|fs|t0|t0|alts| |tg x|tg x] eqn:Eb; try wraise; apply wp_le_P2.
        + apply (wp_dec_record T fs false len D); [|exact HD|exact Hf].
          intros f Hin. pose proof (depth_in_fields f fs Hin). cbn [ty_depth] in Hbase. lia.
        + apply (wp_dec_record T fs true len D); [|exact HD|exact Hf].
          intros f Hin. pose proof (depth_in_fields f fs Hin). cbn [ty_depth] in Hbase. lia.
        + unfold dec_listof. cbn [pbind tell wp]. apply (wp_listof_loop T t0 len (pos s) D); cbn [ty_depth] in Hbase; lia.
        + unfold dec_listof. cbn [pbind tell wp]. apply (wp_listof_loop T t0 len (pos s) D); cbn [ty_depth] in Hbase; lia.
      - apply wp_le_P2. unfold dec_schemaless. cbn [pbind tell wp]. apply wp_schemaless_loop; lia. }
    assert (Hchoice: wp (match sp with
                         | Some T => match base_of T with
                                     | TChoice alts => if sfun then collector lf len else dec_choice rec lf T alts ts len
                                     | _ => Raise EUnmodelled end
                         | None => Raise EUnmodelled
                         end) s (P2 s)).
    { destruct sp as [T|]; [|wraise]. cbn [obound] in Hb. pose proof (ty_depth_base T) as Hbase.
      destruct (base_of T) as [| | | | | | | |n0|fs|fs|t0|t0|alts| |tg x|tg x] eqn:Eb; try wraise. destruct sfun; [apply wp_le_P2; apply wp_collector|].
      apply (wp_dec_choice T alts ts len (D - 1)); [|lia].
      apply mbound_fields. intros a Ha. pose proof (depth_in_alts a alts Ha). cbn [ty_depth] in Hbase. lia. }
    destruct cd, len; try wraise; try exact Hconstr; try exact Hchoice;
      try (apply wp_le_P2;
           first [ apply wp_dec_integer | apply wp_dec_bool_cer | apply wp_dec_null | apply wp_dec_oid_v | apply wp_dec_real_v
                 | apply wp_dec_octets; lia | apply wp_octets_indef_loop; lia
                 | apply wp_dec_bits; lia | apply wp_dec_bits_indef; lia | apply wp_dec_any_indef; lia ]);
      apply wp_dec_any.
  Qed.

  Lemma wp_run_value (len: option N) (k: proc dval) s : wp k s (P2 s) ->
    wp (match len with
        | None => k
        | Some l => let! p0 := tell in let! v := k in let! p1 := tell in
                    if N.eqb (N.of_nat (p1 - p0)) l then Ret v else Raise EMalformed
        end) s (P2 s).
  Proof.
    intros Hk. destruct len as [l|]; [|exact Hk]. cbn [pbind tell wp].
    eapply wp_bind_mono; [exact Hk|]. intros v s1 Hs1. cbn [pbind tell wp].
    destruct (N.eqb _ _); [cbn [wp]; exact Hs1|wraise].
  Qed.

  Lemma wp_dispatch sp D ts len sfun s : sbound sp D -> 2 * rem s + 2 * D <= lf -> 1 <= lf ->
    wp (dispatch c rec lf sp ts len sfun) s (P2 s).
  Proof.
    intros Hb Hf Hl. unfold dispatch. cbv zeta.
    assert (Hfail: wp (match (match ts with
                              | t :: _ => if tcon t && negb (cls_eqb (tcls t) Univ) then Some (dec_raw rec lf sp ts len sfun) else None
                              | [] => None end) with
                       | Some k => match len with
                                   | None => k
                                   | Some l => let! p0 := tell in let! v := k in let! p1 := tell in
                                               if N.eqb (N.of_nat (p1 - p0)) l then Ret v else Raise EMalformed
                                   end
                       | None => Raise EMalformed end) s (P2 s)).
    { destruct ts as [|t r]; [wraise|].
      destruct (tcon t && negb (cls_eqb (tcls t) Univ))%bool; [|wraise].
      apply wp_run_value. apply wp_le_P2. apply (wp_dec_raw sp D); assumption. }
    destruct sp as [|T|m]; cbn [sbound] in Hb.
    - destruct (by_tag c ts) as [[cd fl]|]; [apply wp_run_value; apply (wp_dec_value cd fl None ts len sfun D); [exact I|exact Hb|exact Hf]|].
      destruct (by_tag c (firstn 1 ts)) as [[cd fl]|]; [|exact Hfail].
      apply wp_run_value; apply (wp_dec_value cd fl None ts len sfun D); [exact I|exact Hb|exact Hf].
    - pose proof (ty_depth_pos T) as HT.
      destruct (tagset_eqb ts (tagset_of' T) || tm_contains (tagmap_of T) ts)%bool; [|exact Hfail].
      destruct (tm_postponed (tagmap_of T)); [wraise|].
      destruct (by_type c T) as [[cd fl]|]; [|exact Hfail].
      apply wp_run_value; apply (wp_dec_value cd fl (Some T) ts len sfun D); [exact Hb|lia|exact Hf].
    - destruct (tm_get m ts) as [chosen|e] eqn:Eg; [|cbn [lift pbind wp]; intros ->; exact (tm_get_fuel m ts Eg)].
      cbn [lift pbind]. destruct chosen as [T|]; [|exact Hfail].
      pose proof (tm_get_bound D m ts T Hb Eg) as HT. pose proof (ty_depth_pos T) as HT1.
      destruct (by_type c T) as [[cd fl]|]; [|exact Hfail].
      apply wp_run_value; apply (wp_dec_value cd fl (Some T) ts len sfun D); [exact HT|lia|exact Hf].
  Qed.

  (* --- the header --- *)
  Definition fwd (s s': stream) : Prop :=
    arrived s' = arrived s /\ mark s' = mark s /\ pos s < pos s' /\ pos s' <= length (arrived s).

  Lemma wp_long_tag cl f : forall k acc s, rem s < k -> wp (long_tag cl f k acc) s (fun _ s' => fwd s s').
  Proof.
    induction k as [|k IH]; intros acc s Hk; [lia|]. cbn [long_tag]. cbv zeta.
    apply wp_read1_bind. intros b s1 Ha. destruct (N.eqb _ _).
    - cbn [wp]. unfold fwd. crunch.
    - eapply wp_mono; [apply IH; crunch|]. intros a s2 Hs2. unfold fwd in *. crunch.
  Qed.

  Lemma wp_read_tag s : rem s <= lf -> wp (read_tag lf) s (fun _ s' => fwd s s').
  Proof.
    intros Hl. unfold read_tag. cbv zeta. apply wp_read1_bind. intros o s1 Ha. destruct (N.eqb _ _).
    - eapply wp_mono; [apply wp_long_tag; crunch|]. intros a s2 Hs2. unfold fwd in *. crunch.
    - cbn [wp]. unfold fwd. crunch.
  Qed.

  Lemma wp_read_length s : wp (read_length c) s (fun _ s' => fwd s s').
  Proof.
    unfold read_length. apply wp_read1_bind. intros o s1 Ha.
    destruct (N.ltb o 128); [cbn [wp]; unfold fwd; crunch|].
    destruct (N.eqb o 128); [destruct (support_indef c); [cbn [wp]; unfold fwd; crunch|wraise]|].
    apply wp_readN_bind. intros b s2 Ha2. cbn [wp]. unfold fwd. crunch.
  Qed.

  Lemma wp_dec_body sp D acc rs ae sfun s : sbound sp D -> 2 * rem s + 2 * D + rs_cost rs <= S lf ->
    wp (dec_body c rec lf sp acc rs ae sfun) s (call_post rs s).
  Proof.
    intros Hb Hf. unfold dec_body. cbv zeta.
    assert (Hmain: forall s0, arrived s0 = arrived s -> pos s0 = pos s -> mark s0 = mark s ->
              wp (match rs with
                  | Some len => dispatch c rec lf sp acc len sfun
                  | None => Mark (let! t := read_tag lf in let! len := read_length c in dispatch c rec lf sp (t :: acc) len sfun)
                  end) s0 (call_post rs s)).
    { intros s0 Ha0 Hp0 Hm0. destruct rs as [len|]; cbn [rs_cost] in Hf.
      - eapply wp_mono; [apply (wp_dispatch sp D acc len sfun _ Hb); crunch|].
        intros a s' Hs'. unfold call_post, P2, rem in *. rewrite Ha0, Hp0, Hm0 in Hs'. exact Hs'.
      - cbn [wp]. eapply wp_bind_mono; [apply wp_read_tag; crunch|]. intros t s1 Hs1.
        eapply wp_bind_mono; [apply wp_read_length|]. intros len s2 Hs2.
        unfold fwd in *.
        eapply wp_mono; [apply (wp_dispatch sp D (t :: acc) len sfun _ Hb); crunch|].
        intros a s' Hs'. unfold call_post. crunch. }
    destruct (ae && support_indef c)%bool; [|apply Hmain; reflexivity].
    apply wp_readN_bind. intros b s1 Ha. apply match_eoo.
    - cbn [wp]. unfold call_post. destruct rs; crunch.
    - change (wp (match rs with
                  | Some len => dispatch c rec lf sp acc len sfun
                  | None => Mark (let! t := read_tag lf in let! len := read_length c in dispatch c rec lf sp (t :: acc) len sfun)
                  end) (setpos s1 (pos s1 - 2)) (call_post rs s)).
      apply Hmain; crunch.
  Qed.
End DecFuel.

(* the entry point: any codec, specification, tag set, re-entry state, flags *)
Theorem wp_dec_call c : forall f sp D acc rs ae sfun s, sbound sp D -> 2 * rem s + 2 * D + rs_cost rs <= f -> 1 <= f ->
  wp (dec_call c f sp acc rs ae sfun) s (call_post rs s).
Proof.
  induction f as [|f IH]; intros sp D acc rs ae sfun s Hb Hf Hl; [lia|]. cbn [dec_call].
  apply (wp_dec_body c (dec_call c f) f IH sp D); assumption.
Qed.
Print Assumptions wp_dec_call.

(* ====================================================================================== *)
(* Part 4: the statements                                                                  *)
(* ====================================================================================== *)

(* nesting depth of the guiding type; 1 without one *)
Definition odepth (sp: option ty) : nat := match sp with Some T => ty_depth T | None => 1 end.

Lemma odepth_pos sp : 1 <= odepth sp.
Proof. destruct sp as [T|]; cbn [odepth]; [apply ty_depth_pos|lia]. Qed.

(* the run of the item decoder on a complete input: it finishes, not for lack of fuel, and a decoded
   item has consumed at least one octet *)
Theorem item_run_complete c fuel sp b : 2 * length b + 2 * odepth sp <= fuel ->
  exists r s', run_complete (dec_item c fuel sp) b = inr (r, s')
    /\ match r with
       | Ok _ => arrived s' = b /\ length (avail s') < length b
       | Err e => e <> EOutOfFuel
       end.
Proof.
  intros Hf. unfold run_complete, dec_item. pose proof (odepth_pos sp) as Hd.
  destruct (wp_sound _ (mkStream b 0 true 0) _ eq_refl
              (wp_dec_call c fuel (match sp with Some T => STy T | None => SNone end) (odepth sp) [] None false false
                 (mkStream b 0 true 0)
                 ltac:(destruct sp; cbn [sbound odepth]; lia)
                 ltac:(unfold rem; cbn [arrived pos rs_cost length]; lia)
                 ltac:(lia)))
    as (r & s' & Hr & Hpost).
  exists r, s'. split; [exact Hr|]. destruct r as [d|e]; [|exact Hpost].
  destruct Hpost as (Ha & Hlt). cbn [arrived] in Ha.
  split; [exact Ha|]. rewrite avail_len. unfold rem in *. cbn [arrived pos] in Hlt. lia.
Qed.

(* (2) the strongest form: any fuel from 2 * length b + 2 * depth on is sufficient *)
Theorem decode_with_never_starves c fuel sp b : 2 * length b + 2 * odepth sp <= fuel ->
  decode_with c fuel sp b <> Err EOutOfFuel.
Proof.
  intros Hf. unfold decode_with. destruct (item_run_complete c fuel sp b Hf) as (r & s' & Hr & Hpost).
  rewrite Hr. destruct r as [d|e]; [discriminate|]. intros H. inversion H; subst. apply Hpost. reflexivity.
Qed.

Lemma dec_fuel_enough sp b : 2 * length b + 2 * odepth sp <= dec_fuel sp b.
Proof. unfold dec_fuel. destruct sp as [T|]; cbn [odepth]; lia. Qed.

Theorem NO_STARVATION : forall c sp b, decode c sp b <> Err EOutOfFuel.
Proof. intros c sp b. exact (decode_with_never_starves c (dec_fuel sp b) sp b (dec_fuel_enough sp b)). Qed.

(* a decoded item always makes progress: the remainder is shorter than the input *)
Theorem decode_with_progress c fuel sp b d tl : 2 * length b + 2 * odepth sp <= fuel ->
  decode_with c fuel sp b = Ok (d, tl) -> length tl < length b.
Proof.
  intros Hf H. unfold decode_with in H. destruct (item_run_complete c fuel sp b Hf) as (r & s' & Hr & Hpost).
  rewrite Hr in H. destruct r as [d0|e]; [|discriminate H]. inversion H; subst. exact (proj2 Hpost).
Qed.

Print Assumptions decode_with_never_starves.
Print Assumptions NO_STARVATION.
Print Assumptions decode_with_progress.

(* ---------- non-vacuity ---------- *)
Local Open Scope N_scope.

(* too little fuel does end in EOutOfFuel (so the hypothesis is not idle), the fuel of the theorem does not:
   a long-form tag number of 40 continuation octets; nested explicit tags of indefinite length; a run of
   zero octets inside an indefinite SEQUENCE; an untagged CHOICE three levels deep over a constructed
   OCTET STRING *)
Example fuel_matters :
  decode_with BER 41 None ([31] ++ repn 40 255 ++ [1;0]) = Err EOutOfFuel
  /\ decode_with BER 42 None ([31] ++ repn 40 255 ++ [1;0]) = Err EMalformed
  /\ decode BER None ([31] ++ repn 40 255 ++ [1;0]) = Err EMalformed
  /\ decode_with BER 3 None [160;128;160;128;160;128;2;1;5;0;0;0;0;0;0] = Err EOutOfFuel
  /\ (exists d, decode BER None [160;128;160;128;160;128;2;1;5;0;0;0;0;0;0] = Ok (d, []))
  /\ decode BER None ([48;128] ++ repn 40 0) = Ok (DV (TSeqOf TNull) (VList []), repn 38 0)
  /\ decode_with BER 5 (Some (TChoice [TChoice [TChoice [TOcts]]])) [36;128;4;0;0;0] = Err EOutOfFuel
  /\ (exists d, decode BER (Some (TChoice [TChoice [TChoice [TOcts]]])) [36;128;4;0;0;0] = Ok (d, [])).
Proof. repeat split; try (eexists; vm_compute; reflexivity); vm_compute; reflexivity. Qed.

(* the one place where the position moves backwards - an untagged ANY as alternative of an untagged CHOICE,
   re-entered after the header, re-reads the element from the marked position - is covered by the
   potential argument ([call_post] on re-entry); the run: *)
Example choice_any_rereads_header :
  decode BER (Some (TChoice [TAny])) [4;1;9;7] = Ok (DV (TChoice [TAny]) (VChoice 0 (VAny [4;1;9])), [7])
  /\ decode BER (Some (TChoice [TChoice [TInt; TAny]])) [4;1;9]
     = Ok (DV (TChoice [TChoice [TInt; TAny]]) (VChoice 0 (VAny [4;1;9])), []).
Proof. split; vm_compute; reflexivity. Qed.

(* C03, second half, part 1: the independent reference reads its own distinguished encodings.
   For every type of the fragment of Proofs/DerReference.v (simple types under any stack of tags;
   SEQUENCE with mandatory, OPTIONAL and DEFAULT components and SEQUENCE OF, nested to any depth)
   whose OPTIONAL/DEFAULT components can be told apart by their tags (the ASN.1 rule X.680 25.6),

       der T v = Some b  ->  read T (b ++ tl) = Some (abs T v, tl).

   A property of the specification alone.  With [der_is_reference_deep] it says: every DER encoder
   output, read by the independent reader guided by the same type, denotes the same abstract value. *)
From Coq Require Import Lia.
From PV Require Import Base.Bytes Model.Tag Model.TableTypes Model.Types Model.Enc Gen.Tables Spec.X690
     Proofs.Bits Proofs.SpecOctets Proofs.LeafInt Proofs.LeafOidBits Proofs.LeafReal Proofs.TagAlgebra
     Proofs.DerReference Proofs.ReaderParse Proofs.ReaderInterp Proofs.ReaderLeafOidBits Proofs.ReaderLeafReal.
From PV Require Proofs.TagsetShape.
Local Open Scope N_scope.

(* ---------- bounds: what the length octets of an encoding must be able to express ---------- *)

Definition body_bound (e: bytes) : Prop :=
  forall c pc num rest, split_ident e = Some (c, pc, num, rest) -> N.of_nat (length rest) < max_len.

Lemma long_number_length : forall f acc b n r, long_number f acc b = Some (n, r) -> (length r <= length b)%nat.
Proof.
  induction f as [|f IH]; intros acc b n r H; [destruct b; discriminate H|].
  destruct b as [|o b']; [discriminate H|]. cbn [long_number] in H.
  destruct (N.ltb o 128).
  - injection H as _ <-. cbn [length]. lia.
  - apply IH in H. cbn [length]. lia.
Qed.

Lemma split_ident_length e c pc num rest : split_ident e = Some (c, pc, num, rest) -> (length rest <= length e)%nat.
Proof.
  unfold split_ident. destruct e as [|o r]; [discriminate|].
  destruct (N.eqb (o mod 32) 31).
  - destruct (long_number (length r) 0 r) as [[n r']|] eqn:E; [|discriminate].
    intros H. injection H as _ _ _ <-. apply long_number_length in E. cbn [length]. lia.
  - intros H. injection H as _ _ _ <-. cbn [length]. lia.
Qed.

Lemma bound_of_length e : N.of_nat (length e) < max_len -> body_bound e.
Proof. intros H c pc num rest Hs. apply split_ident_length in Hs. lia. Qed.

Lemma bound_tlv c pc num contents : body_bound (tlv c pc num contents) -> N.of_nat (length contents) < max_len.
Proof.
  intros H. unfold tlv in H. specialize (H c pc num _ (split_ident_ident c pc num _)).
  rewrite app_length in H. lia.
Qed.

Lemma bound_retag t ex e : retag t ex = Some e -> body_bound e -> body_bound ex.
Proof.
  unfold retag. destruct (split_ident ex) as [[[[c0 pc] n0] rest]|] eqn:E; [|discriminate].
  intros H Hb. injection H as <-. intros c pc' num rest' Hs. rewrite E in Hs. injection Hs as _ _ _ <-.
  apply (Hb _ _ _ _ (split_ident_ident (tcls t) pc (tnum t) rest)).
Qed.

Lemma concat_in_length (e: bytes) es : In e es -> (length e <= length (concat es))%nat.
Proof.
  induction es as [|x es IH]; intros H; [contradiction|]. cbn [concat]. rewrite app_length.
  destruct H as [->|H]; [lia|]. specialize (IH H). lia.
Qed.

(* ---------- the types whose absent components can be recognised (X.680 25.6) ---------- *)

Definition tags_disjoint (ft ftj: ty) : bool :=
  match first_tags ftj with Some [tg] => negb (may_start ft tg) | _ => false end.

(* every later component up to and including the next mandatory one starts with another tag *)
Fixpoint later_ok (ft: ty) (fs: list (presence * ty)) : bool :=
  match fs with
  | [] => true
  | (p, ftj) :: r => tags_disjoint ft ftj && (match p with Req => true | _ => later_ok ft r end)
  end.

Fixpoint unamb (T: ty) : bool :=
  match T with
  | TImp _ x | TExp _ x => unamb x
  | TSeqOf t => unamb t
  | TSeq fs =>
      (fix go (fs: list (presence * ty)) : bool :=
         match fs with
         | [] => true
         | (p, ft) :: r => unamb ft && (match p with Req => true | _ => later_ok ft r end) && go r
         end) fs
  | _ => true
  end.

Definition unamb_fields : list (presence * ty) -> bool :=
  fix go (fs: list (presence * ty)) : bool :=
    match fs with
    | [] => true
    | (p, ft) :: r => unamb ft && (match p with Req => true | _ => later_ok ft r end) && go r
    end.

Lemma unamb_seq fs : unamb (TSeq fs) = unamb_fields fs.
Proof. reflexivity. Qed.

(* ---------- abstract content of a SEQUENCE value, named ---------- *)

Definition abs_fields : list (presence * ty) -> list (option val) -> list (option aval) :=
  fix go (fs: list (presence * ty)) (vs: list (option val)) : list (option aval) :=
    match fs, vs with
    | (p, ft) :: fs', ov :: vs' =>
        (match ov, p with
         | Some x, _ => Some (abs ft x)
         | None, Def d => Some (abs ft d)
         | None, _ => None
         end) :: go fs' vs'
    | (p, ft) :: fs', [] =>
        (match p with Def d => Some (abs ft d) | _ => None end) :: go fs' []
    | [], _ => []
    end.

Lemma abs_seq fs vs : abs (TSeq fs) (VRec vs) = ARec (abs_fields fs vs).
Proof. reflexivity. Qed.

Lemma abs_fields_cons p ft fs' vs :
  abs_fields ((p, ft) :: fs') vs =
  (match ohd vs, p with
   | Some x, _ => Some (abs ft x)
   | None, Def d => Some (abs ft d)
   | None, _ => None
   end) :: abs_fields fs' (otl vs).
Proof. destruct vs as [|ov vs']; reflexivity. Qed.

(* ---------- equality of abstract values of simple types is Leibniz equality ---------- *)

Lemma list_eqb_eq {A} (eqb: A -> A -> bool) (Heq: forall a b, eqb a b = true -> a = b) :
  forall x y, list_eqb eqb x y = true -> x = y.
Proof.
  induction x as [|a x IH]; destruct y as [|b y]; intros H; try reflexivity; try discriminate H.
  change (list_eqb eqb (a :: x) (b :: y)) with (eqb a b && list_eqb eqb x y)%bool in H.
  apply andb_true_iff in H. destruct H as [H1 H2]. rewrite (Heq a b H1), (IH y H2). reflexivity.
Qed.

Lemma areal_eqb_eq a b : areal_eqb a b = true -> a = b.
Proof.
  destruct a, b; intros H; try reflexivity; try discriminate H; cbn [areal_eqb] in H;
    apply andb_true_iff in H; destruct H as [H1 H2]; apply Z.eqb_eq in H1, H2; subst; reflexivity.
Qed.

Lemma bytes_eqb_eq a b : bytes_eqb a b = true -> a = b.
Proof. apply list_eqb_eq. intros x y H. apply N.eqb_eq. exact H. Qed.

Lemma default_is_equal ft x d : simple_base (base_of ft) = true ->
  der_ref_deep ft x = true -> der_ref_deep ft d = true -> is_default ft x d = true -> abs ft x = abs ft d.
Proof.
  intros Hs Hx Hd. unfold is_default.
  rewrite (TagsetShape.abs_wrappers ft x), (TagsetShape.abs_wrappers ft d). rewrite deep_base in Hx, Hd.
  destruct (base_of ft); try discriminate Hs;
    destruct x; try discriminate Hx; destruct d; try discriminate Hd; cbn [abs aval_eqb]; intros H.
  - f_equal. apply Bool.eqb_prop. exact H.
  - f_equal. apply Z.eqb_eq. exact H.
  - f_equal. apply Z.eqb_eq. exact H.
  - f_equal. apply (list_eqb_eq Bool.eqb); [intros a b; apply Bool.eqb_prop|exact H].
  - f_equal. apply bytes_eqb_eq. exact H.
  - reflexivity.
  - f_equal. apply (list_eqb_eq N.eqb); [intros a b E; apply N.eqb_eq; exact E|exact H].
  - f_equal. apply areal_eqb_eq. exact H.
  - f_equal. apply bytes_eqb_eq. exact H.
  - f_equal. apply bytes_eqb_eq. exact H.
  - f_equal. apply bytes_eqb_eq. exact H.
  - f_equal. apply bytes_eqb_eq. exact H.
Qed.

(* ---------- the simple types ---------- *)

Lemma int_contents_cons z : exists o c, int_contents z = o :: c.
Proof.
  pose proof (twos_nonempty z) as H. rewrite int_contents_is_enc_integer, enc_integer_false.
  destruct (twos_bytes z) as [|o c]; [congruence|]. exists o, c. reflexivity.
Qed.

Lemma string_tlv_false n b : string_tlv false n b = tlv Univ false n b.
Proof. reflexivity. Qed.
Lemma bitstring_tlv_false bs : bitstring_tlv false bs = tlv Univ false 3 (bitstring_contents bs).
Proof. reflexivity. Qed.

Lemma canon_reads_simple B v e : simple_base B = true -> der_ref_base B v = true ->
  canon false B v = Some e -> body_bound e -> reads_as B (abs B v) e.
Proof.
  intros Hs Hd Hc Hb.
  destruct B; try discriminate Hs; destruct v as [bb|z|bs|bo|cs| |arcs|r|vfs|xs|i x|ab]; try discriminate Hd;
    cbn [canon] in Hc.
  - (* BOOLEAN *) injection Hc as <-. cbn [abs]. destruct bb; [exact (reads_bool 255)|exact (reads_bool 0)].
  - (* INTEGER *) injection Hc as <-. apply bound_tlv in Hb. cbn [abs].
    destruct (int_contents_cons z) as (o & c & E). pose proof (signed_value_int_contents z) as Hsv. rewrite E in *.
    replace (AInt z) with (AInt (signed_value (o :: c))) by (rewrite Hsv; reflexivity).
    apply reads_int. exact Hb.
  - (* ENUMERATED *) injection Hc as <-. apply bound_tlv in Hb. cbn [abs].
    destruct (int_contents_cons z) as (o & c & E). pose proof (signed_value_int_contents z) as Hsv. rewrite E in *.
    replace (AInt z) with (AInt (signed_value (o :: c))) by (rewrite Hsv; reflexivity).
    apply reads_enum. exact Hb.
  - (* BIT STRING *) injection Hc as <-. rewrite bitstring_tlv_false in *. apply bound_tlv in Hb. cbn [abs].
    destruct (bits_join_single bs) as (u & c & E & Hu & Hj). rewrite E in *.
    apply reads_bits_prim; assumption.
  - (* OCTET STRING *) injection Hc as <-. rewrite string_tlv_false in *. apply bound_tlv in Hb.
    apply reads_octs_prim. exact Hb.
  - (* NULL *) injection Hc as <-. exact reads_null.
  - (* OBJECT IDENTIFIER *)
    destruct (oid_contents arcs) as [c|] eqn:E; cbn [opt_bind] in Hc; [|discriminate Hc]. injection Hc as <-.
    apply bound_tlv in Hb. apply reads_oid; [apply oid_value_oid_contents; exact E|exact Hb].
  - (* REAL *)
    destruct (real_contents r) as [c|] eqn:E; cbn [opt_bind] in Hc; [|discriminate Hc]. injection Hc as <-.
    apply bound_tlv in Hb. apply reads_real; [apply real_value_real_contents; exact E|exact Hb].
  - (* strings as octets *) cbn [string_octets opt_bind] in Hc. injection Hc as <-.
    rewrite string_tlv_false in *. apply bound_tlv in Hb. apply reads_str_prim. exact Hb.
  - (* strings as characters *) cbn [string_octets opt_bind] in Hc. injection Hc as <-.
    rewrite string_tlv_false in *. apply bound_tlv in Hb. apply reads_str_prim. exact Hb.
Qed.

(* ---------- SEQUENCE OF ---------- *)

Definition canon_reads (T: ty) : Prop :=
  forall v e, der_ref_deep T v = true -> canon false T v = Some e -> body_bound e -> reads_as T (abs T v) e.

Lemma seqof_reads t : canon_reads t -> forall xs es, forallb (der_ref_deep t) xs = true ->
  opt_all (map (canon false t) xs) = Some es -> N.of_nat (length (concat es)) < max_len ->
  Forall2 (reads_as t) (map (abs t) xs) es.
Proof.
  intros Ht. induction xs as [|x r IH]; intros es Hd Hc Hl.
  - cbn in Hc. injection Hc as <-. constructor.
  - cbn [forallb] in Hd. apply andb_true_iff in Hd. destruct Hd as [Hx Hr].
    cbn [map opt_all] in Hc.
    destruct (canon false t x) as [e0|] eqn:E0; [|discriminate Hc].
    destruct (opt_all (map (canon false t) r)) as [es'|] eqn:Er; cbn [opt_bind] in Hc; [|discriminate Hc].
    injection Hc as <-. destruct (concat_length_head e0 es') as [L1 L2].
    cbn [map]. constructor.
    + apply (Ht x e0 Hx E0). apply bound_of_length. lia.
    + apply (IH es' Hr eq_refl). lia.
Qed.

(* ---------- SEQUENCE ---------- *)

Lemma seq_reads : forall fs, Forall (fun f => canon_reads (snd f)) fs ->
  forall vs es, unamb_fields fs = true -> deep_fields fs vs = true ->
  canon_fields false fs vs = Some es -> N.of_nat (length (concat es)) < max_len ->
  exists kids, Forall2 parses es kids /\ fields_read fs kids (abs_fields fs vs) /\
               (forall ft0, later_ok ft0 fs = true -> head_differs ft0 kids).
Proof.
  induction fs as [|[p ft] fs' IH]; intros Hall vs es Hu Hd Hc Hl.
  - cbn in Hc. injection Hc as <-. exists []. split; [constructor|split; [constructor|]]. intros; exact I.
  - inversion Hall as [|? ? Hft Hall']; subst. cbn [snd] in Hft. specialize (IH Hall').
    change (unamb_fields ((p, ft) :: fs')) with
      (unamb ft && (match p with Req => true | _ => later_ok ft fs' end) && unamb_fields fs')%bool in Hu.
    apply andb_true_iff in Hu. destruct Hu as [Hu Hu3]. apply andb_true_iff in Hu. destruct Hu as [Hu1 Hu2].
    rewrite deep_fields_cons in Hd. apply andb_true_iff in Hd. destruct Hd as [Hd1 Hd2].
    rewrite canon_fields_cons in Hc. rewrite abs_fields_cons.
    (* the component is written *)
    assert (Hpresent: forall x, der_ref_deep ft x = true ->
              opt_bind (canon false ft x) (fun e => opt_bind (canon_fields false fs' (otl vs)) (fun r => Some (e :: r))) = Some es ->
              exists kids, Forall2 parses es kids /\
                fields_read ((p, ft) :: fs') kids (Some (abs ft x) :: abs_fields fs' (otl vs)) /\
                (forall ft0, later_ok ft0 ((p, ft) :: fs') = true -> head_differs ft0 kids)).
    { intros x Hx H.
      destruct (canon false ft x) as [e0|] eqn:E0; cbn [opt_bind] in H; [|discriminate H].
      destruct (canon_fields false fs' (otl vs)) as [es'|] eqn:Er; cbn [opt_bind] in H; [|discriminate H].
      injection H as <-. destruct (concat_length_head e0 es') as [L1 L2].
      destruct (IH (otl vs) es' Hu3 Hd2 Er) as (kids & Hk & Hf & _); [lia|].
      assert (Hr: reads_as ft (abs ft x) e0) by (apply (Hft x e0 Hx E0); apply bound_of_length; lia).
      destruct (reads_none ft _ e0 Hr) as (n & Hp & Hi & Hftag).
      exists (n :: kids). split; [constructor; assumption|]. split; [apply FRpresent; assumption|].
      intros ft0 Hl0. cbn [later_ok] in Hl0. apply andb_true_iff in Hl0. destruct Hl0 as [Hdj _].
      unfold tags_disjoint in Hdj. rewrite Hftag in Hdj. cbn [head_differs].
      destruct (may_start ft0 (node_tag n)); [discriminate Hdj|reflexivity]. }
    (* the component is left out *)
    assert (Habsent: (match p with Req => false | _ => true end) = true ->
              canon_fields false fs' (otl vs) = Some es ->
              exists kids, Forall2 parses es kids /\ fields_read fs' kids (abs_fields fs' (otl vs)) /\
                head_differs ft kids /\
                (forall ft0, later_ok ft0 ((p, ft) :: fs') = true -> head_differs ft0 kids)).
    { intros Hp H. destruct (IH (otl vs) es Hu3 Hd2 H Hl) as (kids & Hk & Hf & Hh).
      exists kids. split; [exact Hk|split; [exact Hf|]]. split.
      - apply Hh. destruct p; [discriminate Hp|exact Hu2|exact Hu2].
      - intros ft0 Hl0. cbn [later_ok] in Hl0. apply andb_true_iff in Hl0. destruct Hl0 as [_ Hl0].
        apply Hh. destruct p; [discriminate Hp|exact Hl0|exact Hl0]. }
    destruct p as [| |d]; destruct (ohd vs) as [x|].
    + apply (Hpresent x Hd1 Hc).
    + discriminate Hd1.
    + apply andb_true_iff in Hd1. destruct Hd1 as [_ Hx]. apply (Hpresent x Hx Hc).
    + destruct (Habsent eq_refl Hc) as (kids & Hk & Hf & Hh & Hl0).
      exists kids. split; [exact Hk|split; [apply FRopt; assumption|exact Hl0]].
    + apply andb_true_iff in Hd1. destruct Hd1 as [Hd1 Hdd]. apply andb_true_iff in Hd1. destruct Hd1 as [Hs Hx].
      destruct (is_default ft x d) eqn:Eq.
      * destruct (Habsent eq_refl Hc) as (kids & Hk & Hf & Hh & Hl0).
        exists kids. split; [exact Hk|split; [|exact Hl0]].
        rewrite (default_is_equal ft x d Hs Hx Hdd Eq). apply FRdef; assumption.
      * apply (Hpresent x Hx Hc).
    + destruct (Habsent eq_refl Hc) as (kids & Hk & Hf & Hh & Hl0).
      exists kids. split; [exact Hk|split; [apply FRdef; assumption|exact Hl0]].
Qed.

(* ---------- every type of the fragment ---------- *)

Theorem canon_reads_deep : forall T, unamb T = true -> canon_reads T.
Proof.
  induction T as [| | | | | | | | n|fs IH|fs IH|t IH|t IH|alts IH| |tg x IH|tg x IH] using ty_ind'; intros Hu.
  1-9: intros v e Hd Hc Hb; apply canon_reads_simple; [reflexivity|exact Hd|exact Hc|exact Hb].
  - (* SEQUENCE *)
    intros v e Hd Hc Hb.
    destruct v as [bb|z|bs|bo|cs| |arcs|r|vs|xs|i x|ab]; try discriminate Hd.
    rewrite deep_seq in Hd. rewrite unamb_seq in Hu. rewrite canon_seq in Hc.
    destruct (canon_fields false fs vs) as [es|] eqn:Ef; cbn [opt_bind] in Hc; [|discriminate Hc]. injection Hc as <-.
    apply (bound_tlv Univ true 16 (concat es)) in Hb.
    assert (Hall: Forall (fun f => canon_reads (snd f)) fs).
    { clear - IH Hu. induction fs as [|[p ft] fs' IHfs]; [constructor|].
      inversion IH as [|? ? H1 H2]; subst.
      change (unamb_fields ((p, ft) :: fs')) with
        (unamb ft && (match p with Req => true | _ => later_ok ft fs' end) && unamb_fields fs')%bool in Hu.
      apply andb_true_iff in Hu. destruct Hu as [Hu Hu3]. apply andb_true_iff in Hu. destruct Hu as [Hu1 _].
      constructor; [cbn [snd] in *; apply H1; exact Hu1|apply IHfs; assumption]. }
    destruct (seq_reads fs Hall vs es Hu Hd Ef Hb) as (kids & Hk & Hf & _).
    rewrite abs_seq. apply (reads_seq fs false _ es kids Hk Hf); [discriminate|intros _; exact Hb].
  - (* SET *) intros v e Hd. destruct v; discriminate Hd.
  - (* SEQUENCE OF *)
    intros v e Hd Hc Hb.
    destruct v as [bb|z|bs|bo|cs| |arcs|r|vs|xs|i x|ab]; try discriminate Hd. cbn [der_ref_deep] in Hd.
    rewrite canon_seqof in Hc.
    destruct (opt_all (map (canon false t) xs)) as [es|] eqn:Ef; cbn [opt_bind] in Hc; [|discriminate Hc]. injection Hc as <-.
    apply (bound_tlv Univ true 16 (concat es)) in Hb.
    cbn [abs]. apply (reads_seqof t false); [|discriminate|intros _; exact Hb].
    apply (seqof_reads t (IH Hu) xs es Hd Ef Hb).
  - (* SET OF *) intros v e Hd. destruct v; discriminate Hd.
  - (* CHOICE *) intros v e Hd. destruct v; discriminate Hd.
  - (* ANY *) intros v e Hd. destruct v; discriminate Hd.
  - (* IMPLICIT *)
    intros v e Hd Hc Hb. cbn [unamb] in Hu. cbn [der_ref_deep] in Hd. rewrite canon_imp in Hc.
    destruct (canon false x v) as [ex|] eqn:Ex; cbn [opt_bind] in Hc; [|discriminate Hc].
    pose proof (IH Hu v ex Hd Ex (bound_retag tg ex e Hc Hb)) as Hr.
    destruct (reads_imp tg x _ ex Hr) as (e' & He' & Hr'). rewrite Hc in He'. injection He' as <-.
    replace (abs (TImp tg x) v) with (abs x v) by (destruct v; reflexivity). exact Hr'.
  - (* EXPLICIT *)
    intros v e Hd Hc Hb. cbn [unamb] in Hu. cbn [der_ref_deep] in Hd. rewrite canon_exp in Hc.
    assert (Hc': opt_bind (canon false x v) (fun e0 => Some (ctlv false (tcls tg) (tnum tg) e0)) = Some e).
    { destruct (tcls tg); [discriminate Hc|exact Hc|exact Hc|exact Hc]. }
    destruct (canon false x v) as [ex|] eqn:Ex; cbn [opt_bind] in Hc'; [|discriminate Hc']. injection Hc' as <-.
    apply (bound_tlv (tcls tg) true (tnum tg) ex) in Hb.
    replace (abs (TExp tg x) v) with (abs x v) by (destruct v; reflexivity).
    apply (reads_exp tg x _ ex false); [|discriminate|intros _; exact Hb].
    apply (IH Hu v ex Hd Ex). apply bound_of_length. exact Hb.
Qed.

(* ====================================================================== *)
(* the theorems                                                            *)
(* ====================================================================== *)

(* (1) the reference reads its own distinguished encodings, whatever follows them *)
Theorem der_read_back_deep : forall T v b tl,
  der_ref_deep T v = true -> unamb T = true ->
  X690.der T v = Some b -> N.of_nat (length b) < max_len ->
  X690.read T (b ++ tl) = Some (abs T v, tl).
Proof.
  intros T v b tl Hd Hu Hc Hl. apply reads_read.
  apply (canon_reads_deep T Hu v b Hd Hc). apply bound_of_length. exact Hl.
Qed.

(* simple types under any stack of tags: no condition on the type at all *)
Lemma unamb_simple T : simple_base (base_of T) = true -> unamb T = true.
Proof.
  induction T as [| | | | | | | | n|fs IH|fs IH|t IH|t IH|alts IH| |tg x IH|tg x IH] using ty_ind'; intros H;
    try reflexivity; try discriminate H; cbn [unamb base_of] in *; apply IH; exact H.
Qed.

Theorem der_read_back_simple : forall T v b tl,
  der_ref_val T v = true -> X690.der T v = Some b -> N.of_nat (length b) < max_len ->
  X690.read T (b ++ tl) = Some (abs T v, tl).
Proof.
  intros T v b tl Hd Hc Hl.
  pose proof (der_ref_simple _ _ Hd) as Hs.
  apply der_read_back_deep; [rewrite (deep_simple T v Hs); exact Hd|apply unamb_simple; exact Hs|exact Hc|exact Hl].
Qed.

(* with DerReference: every DER encoder output, read by the independent reader guided by the same
   type, denotes the same abstract value and is consumed exactly *)
Theorem der_encoder_output_reads : forall T v b,
  der_ref_deep T v = true -> unamb T = true -> encode DER true 0 T v = Ok b -> N.of_nat (length b) < max_len ->
  X690.read T b = Some (abs T v, []).
Proof.
  intros T v b Hd Hu He Hl. rewrite <- (app_nil_r b).
  apply der_read_back_deep; [exact Hd|exact Hu|apply der_is_reference_deep; assumption|exact Hl].
Qed.

(* ---- the hypotheses are satisfiable on non-trivial inputs ---- *)

Example der_read_back_witness :
  let T := TImp (mkTag Appl false 7) (TSeq [
     (Req, TInt);
     (Opt, TImp (mkTag Ctx false 0) (TStr 12));
     (Def (VBool false), TExp (mkTag Ctx false 1) TBool);
     (Def (VInt 5), TImp (mkTag Ctx false 2) TInt);
     (Req, TExp (mkTag Ctx false 3) (TSeqOf (TSeq [(Req, TOid); (Opt, TNull)])));
     (Opt, TBits)]) in
  let v := VRec [Some (VInt 300); None; Some (VBool false); Some (VInt 6);
     Some (VList [VRec [Some (VOid [1;2;840]); Some VNull]; VRec [Some (VOid [2;5]); None]]); None] in
  der_ref_deep T v = true /\ unamb T = true /\
  exists b, encode DER true 0 T v = Ok b /\ der T v = Some b /\ N.of_nat (length b) < max_len /\
            read T (b ++ [7; 7]) = Some (abs T v, [7; 7]).
Proof.
  cbv zeta. split; [vm_compute; reflexivity|]. split; [vm_compute; reflexivity|].
  eexists. split; [vm_compute; reflexivity|]. split; [vm_compute; reflexivity|].
  split; [vm_compute; reflexivity|]. vm_compute. reflexivity.
Qed.

(* why [unamb]: two adjacent OPTIONAL components with the same tag - the reader (like any reader)
   attributes the single member present to the first of them *)
Example der_read_back_needs_distinct_tags :
  let T := TSeq [(Opt, TInt); (Opt, TInt)] in let v := VRec [None; Some (VInt 5)] in
  der_ref_deep T v = true /\ unamb T = false /\ der T v = Some [48; 3; 2; 1; 5] /\
  read T [48; 3; 2; 1; 5] = Some (ARec [Some (AInt 5); None], []) /\ abs T v = ARec [None; Some (AInt 5)].
Proof. vm_compute. repeat split. Qed.

Print Assumptions canon_reads_deep.
Print Assumptions der_read_back_deep.
Print Assumptions der_read_back_simple.
Print Assumptions der_encoder_output_reads.

(* C09: everything the independent reader of the basic encoding rules (Spec/X690.v: parse + interp =
   read) accepts is accepted by the model of the library's BER decoder, with the same abstract value
   and the same unread remainder.

   Stage 1  header level: split_ident / split_length (reference) = dec_ident / dec_len (model) on
            arbitrary octets: long-form tag numbers, over-long length octets.
   Stage 1b tree level: what parse_one returns is a well-shaped TLV tree over the model's header
            functions (shape).
   Stage 2  primitive leaves: contents the reference interprets are decoded to the same value.
   Stage 3+ see below. *)
From Coq Require Import Lia.
From PV Require Import Base.Bytes Model.Tag Model.TableTypes Model.Types Model.Proc Model.Enc Model.Dec Gen.Tables Spec.X690
     Proofs.Bits Proofs.ProcBind Proofs.RunLemmas Proofs.TagOctets Proofs.TagAlgebra Proofs.DecHeader Proofs.DecFrame
     Proofs.DecPrim Proofs.TagsetShape Proofs.Schemaless Proofs.LeafInt.
From PV Require Proofs.RoundTrip1.
Local Open Scope N_scope.

(* ====================================================================== *)
(* 0. octets                                                                *)
(* ====================================================================== *)

Definition octs (b: bytes) : Prop := Forall (fun x => x < 256) b.

Lemma octs_forallb b : octs b -> forallb (fun x => N.ltb x 256) b = true.
Proof.
  intros H. apply forallb_forall. intros x Hx. apply N.ltb_lt.
  unfold octs in H. rewrite Forall_forall in H. apply H. exact Hx.
Qed.

Lemma wf_bytes_octs b : wf_bytes b = true -> octs b.
Proof.
  unfold wf_bytes, octs, wf_byte. intros H. apply Forall_forall. intros x Hx.
  rewrite forallb_forall in H. apply N.ltb_lt. apply H. exact Hx.
Qed.

Lemma octs_app a b : octs (a ++ b) <-> octs a /\ octs b.
Proof. unfold octs. apply Forall_app. Qed.

Lemma octs_cons o r : octs (o :: r) <-> o < 256 /\ octs r.
Proof. unfold octs. split; [intros H; inversion H; subst; split; assumption|intros [H1 H2]; constructor; assumption]. Qed.

Lemma octs_firstn k b : octs b -> octs (firstn k b).
Proof.
  unfold octs. revert b. induction k as [|k IH]; intros b H; [constructor|].
  destruct b as [|x b]; [constructor|]. inversion H; subst. cbn [firstn]. constructor; [assumption|apply IH; assumption].
Qed.

Lemma octs_skipn k b : octs b -> octs (skipn k b).
Proof.
  unfold octs. revert b. induction k as [|k IH]; intros b H; [exact H|].
  destruct b as [|x b]; [constructor|]. inversion H; subst. cbn [skipn]. apply IH; assumption.
Qed.

(* a fact about every octet, decided by running through the 256 of them *)
Lemma byte_cases (P: N -> bool) :
  forallb P (map N.of_nat (seq 0 256)) = true -> forall o, o < 256 -> P o = true.
Proof.
  intros H o Ho. rewrite forallb_forall in H. apply H.
  apply in_map_iff. exists (N.to_nat o). split; [apply N2Nat.id|]. apply in_seq. lia.
Qed.

(* ====================================================================== *)
(* 1. header level                                                          *)
(* ====================================================================== *)

Lemma first_octet_agree o : o < 256 ->
  class_of_no (o / 64) = cls_of_bits o
  /\ N.eqb ((o / 32) mod 2) 1 = negb (N.eqb (N.land o 32) 0)
  /\ o mod 32 = N.land o 31.
Proof.
  intros Ho.
  pose (P := fun o => (match class_of_no (o / 64), cls_of_bits o with
                       | Univ, Univ | Appl, Appl | Ctx, Ctx | Priv, Priv => true | _, _ => false end)
                      && Bool.eqb (N.eqb ((o / 32) mod 2) 1) (negb (N.eqb (N.land o 32) 0))
                      && N.eqb (o mod 32) (N.land o 31)).
  assert (H: P o = true) by (apply byte_cases; [vm_compute; reflexivity|exact Ho]).
  unfold P in H. apply andb_true_iff in H. destruct H as [H H3]. apply andb_true_iff in H. destruct H as [H1 H2].
  split; [|split].
  - destruct (class_of_no (o / 64)), (cls_of_bits o); try discriminate H1; reflexivity.
  - apply Bool.eqb_prop. exact H2.
  - apply N.eqb_eq. exact H3.
Qed.

Lemma cont_octet_agree o : o < 256 ->
  N.ltb o 128 = N.eqb (N.land o 128) 0
  /\ (o < 128 -> N.land o 127 = o) /\ (128 <= o -> N.land o 127 = o - 128).
Proof.
  intros Ho.
  pose (P := fun o => Bool.eqb (N.ltb o 128) (N.eqb (N.land o 128) 0)
                      && (if N.ltb o 128 then N.eqb (N.land o 127) o else N.eqb (N.land o 127) (o - 128))).
  assert (H: P o = true) by (apply byte_cases; [vm_compute; reflexivity|exact Ho]).
  unfold P in H. apply andb_true_iff in H. destruct H as [H1 H2].
  split; [apply Bool.eqb_prop; exact H1|].
  destruct (N.ltb_spec o 128) as [Hs|Hl]; apply N.eqb_eq in H2; split; intros; try lia; exact H2.
Qed.

(* long-form tag number, 8.1.2.4 *)
Lemma long_number_b128 : forall b fuel acc n r, octs b ->
  long_number fuel acc b = Some (n, r) -> dec_b128 acc b = Some (n, r).
Proof.
  induction b as [|o b IH]; intros fuel acc n r Hb H.
  - destruct fuel; discriminate H.
  - destruct fuel as [|f]; [discriminate H|].
    apply octs_cons in Hb. destruct Hb as [Ho Hb].
    cbn [long_number] in H. cbn [dec_b128]. cbv zeta.
    destruct (cont_octet_agree o Ho) as (E1 & E2 & E3). rewrite <- E1.
    destruct (N.ltb_spec o 128) as [Hs|Hl].
    + rewrite (E2 Hs). rewrite lor_shl7 by exact Hs. exact H.
    + rewrite (E3 Hl). rewrite lor_shl7 by lia. apply (IH f _ _ _ Hb H).
Qed.

Theorem split_ident_dec_ident : forall b c pc num r, octs b ->
  split_ident b = Some (c, pc, num, r) -> dec_ident b = Some (mkTag c pc num, r).
Proof.
  intros b c pc num r Hb H. destruct b as [|o b]; [discriminate H|].
  apply octs_cons in Hb. destruct Hb as [Ho Hb].
  cbn [split_ident] in H. cbv zeta in H. cbn [dec_ident]. cbv zeta.
  destruct (first_octet_agree o Ho) as (E1 & E2 & E3). rewrite <- E1, <- E2, <- E3.
  destruct (N.eqb (o mod 32) 31).
  - destruct (long_number (length b) 0 b) as [[n' r']|] eqn:El; [|discriminate H].
    rewrite (long_number_b128 b _ _ _ _ Hb El). inversion H; subst. reflexivity.
  - inversion H; subst. reflexivity.
Qed.

(* length octets in any form, 8.1.3: short, long with any number of leading zero octets, indefinite *)
Theorem split_length_dec_len : forall b ol r, octs b ->
  split_length b = Some (ol, r) -> dec_len b = Some (ol, r).
Proof.
  intros b ol r Hb H. destruct b as [|o b]; [discriminate H|].
  apply octs_cons in Hb. destruct Hb as [Ho Hb].
  cbn [split_length] in H. rewrite dec_len_cons.
  destruct (N.ltb_spec o 128) as [Hs|Hl]; [exact H|].
  destruct (N.eqb o 128); [exact H|].
  destruct (N.eqb o 255); [discriminate H|]. cbv zeta in H. cbv zeta.
  destruct (cont_octet_agree o Ho) as (_ & _ & E3). rewrite (E3 Hl).
  destruct (Nat.ltb (length b) (N.to_nat (o - 128))); [discriminate H|].
  rewrite <- (octets_value_is_be_num (firstn (N.to_nat (o - 128)) b) 0); [exact H|].
  apply octs_forallb. apply octs_firstn. exact Hb.
Qed.

(* the rest returned by the header functions is a suffix; the header does not depend on what follows *)
Definition ident_octets (hb: bytes) (t: tag) : Prop := forall tl, dec_ident (hb ++ tl) = Some (t, tl).
Definition len_octets (lb: bytes) (ol: option N) : Prop := forall tl, dec_len (lb ++ tl) = Some (ol, tl).

Lemma dec_b128_suffix : forall b acc n r, dec_b128 acc b = Some (n, r) ->
  exists hb, b = hb ++ r /\ hb <> [] /\ forall tl, dec_b128 acc (hb ++ tl) = Some (n, tl).
Proof.
  induction b as [|o b IH]; intros acc n r H; [discriminate H|].
  cbn [dec_b128] in H. cbv zeta in H.
  destruct (N.eqb (N.land o 128) 0) eqn:E.
  - inversion H; subst. exists [o]. split; [reflexivity|]. split; [discriminate|].
    intros tl. cbn [app dec_b128]. cbv zeta. rewrite E. reflexivity.
  - destruct (IH _ _ _ H) as (hb & -> & Hne & Hk). exists (o :: hb). split; [reflexivity|]. split; [discriminate|].
    intros tl. cbn [app dec_b128]. cbv zeta. rewrite E. apply Hk.
Qed.

Lemma dec_ident_suffix : forall b t r, dec_ident b = Some (t, r) ->
  exists hb, b = hb ++ r /\ hb <> [] /\ ident_octets hb t.
Proof.
  intros b t r H. destruct b as [|o b]; [discriminate H|].
  cbn [dec_ident] in H. cbv zeta in H.
  destruct (N.eqb (N.land o 31) 31) eqn:E.
  - destruct (dec_b128 0 b) as [[n r']|] eqn:Eb; [|discriminate H]. inversion H; subst.
    destruct (dec_b128_suffix _ _ _ _ Eb) as (hb & -> & _ & Hk).
    exists (o :: hb). split; [reflexivity|]. split; [discriminate|].
    intros tl. cbn [app dec_ident]. cbv zeta. rewrite E, Hk. reflexivity.
  - inversion H; subst. exists [o]. split; [reflexivity|]. split; [discriminate|].
    intros tl. cbn [app dec_ident]. cbv zeta. rewrite E. reflexivity.
Qed.

Lemma dec_len_suffix : forall b ol r, dec_len b = Some (ol, r) ->
  exists lb, b = lb ++ r /\ lb <> [] /\ len_octets lb ol.
Proof.
  intros b ol r H. destruct b as [|o b]; [discriminate H|].
  rewrite dec_len_cons in H.
  destruct (N.ltb o 128) eqn:E1.
  - inversion H; subst. exists [o]. split; [reflexivity|]. split; [discriminate|].
    intros tl. cbn [app]. rewrite dec_len_cons, E1. reflexivity.
  - destruct (N.eqb o 128) eqn:E2.
    + inversion H; subst. exists [o]. split; [reflexivity|]. split; [discriminate|].
      intros tl. cbn [app]. rewrite dec_len_cons, E1, E2. reflexivity.
    + cbv zeta in H. set (k := N.to_nat (N.land o 127)) in *.
      destruct (Nat.ltb_spec (length b) k) as [Hc|Hk]; [discriminate H|]. inversion H; subst.
      exists (o :: firstn k b). split; [cbn [app]; rewrite firstn_skipn; reflexivity|]. split; [discriminate|].
      intros tl. cbn [app]. rewrite dec_len_cons, E1, E2. cbv zeta. fold k.
      assert (Hl: length (firstn k b) = k) by (apply firstn_length_le; exact Hk).
      destruct (Nat.ltb_spec (length (firstn k b ++ tl)) k) as [Hc|_]; [rewrite app_length in Hc; lia|].
      rewrite <- Hl at 1 3. rewrite firstn_app_exact, skipn_app_exact. reflexivity.
Qed.

Example stage1_forms :
  split_ident [191; 129; 128; 5; 7] = Some (Ctx, true, 16389, [7])
  /\ dec_ident [191; 129; 128; 5; 7] = Some (mkTag Ctx true 16389, [7])
  /\ split_length [132; 0; 0; 1; 2; 9] = Some (Some 258, [9])
  /\ dec_len [132; 0; 0; 1; 2; 9] = Some (Some 258, [9]).
Proof. vm_compute. repeat split. Qed.

(* ====================================================================== *)
(* 1b. the tree the reference parses, over the model's header functions     *)
(* ====================================================================== *)

Section node_ind_strong.
  Variable P : node -> Prop.
  Hypothesis HPrim: forall c num contents raw, P (Prim c num contents raw).
  Hypothesis HCons: forall c num i kids raw, Forall P kids -> P (Cons c num i kids raw).
  Fixpoint node_ind' (n: node) : P n :=
    match n with
    | Prim c num contents raw => HPrim c num contents raw
    | Cons c num i kids raw =>
        HCons c num i kids raw ((fix go (l: list node) : Forall P l :=
                                   match l with [] => Forall_nil _ | k :: r => Forall_cons k (node_ind' k) (go r) end) kids)
    end.
End node_ind_strong.

Definition kids_raw (kids: list node) : bytes := concat (map node_raw kids).
Definition eoc_start (b: bytes) : bool := match b with 0 :: 0 :: _ => true | _ => false end.

(* identifier octets, length octets in whatever form, contents; an indefinite-length node ends with
   00 00 and none of its members begins with 00 00 *)
Fixpoint shape (n: node) : Prop :=
  match n with
  | Prim c num contents raw =>
      exists ib lb, ident_octets ib (mkTag c false num) /\ len_octets lb (Some (N.of_nat (length contents)))
                    /\ raw = ib ++ lb ++ contents
  | Cons c num indef kids raw =>
      exists ib lb, ident_octets ib (mkTag c true num)
        /\ len_octets lb (if indef then None else Some (N.of_nat (length (kids_raw kids))))
        /\ raw = ib ++ lb ++ kids_raw kids ++ (if indef then [0; 0] else [])
        /\ (fix all (l: list node) : Prop :=
              match l with
              | [] => True
              | k :: r => (shape k /\ (indef = true -> eoc_start (node_raw k) = false)) /\ all r
              end) kids
  end.

Definition kid_ok (indef: bool) (k: node) : Prop := shape k /\ (indef = true -> eoc_start (node_raw k) = false).

Lemma shape_cons c num indef kids raw :
  shape (Cons c num indef kids raw) <->
  exists ib lb, ident_octets ib (mkTag c true num)
        /\ len_octets lb (if indef then None else Some (N.of_nat (length (kids_raw kids))))
        /\ raw = ib ++ lb ++ kids_raw kids ++ (if indef then [0; 0] else [])
        /\ Forall (kid_ok indef) kids.
Proof.
  cbn [shape].
  assert (E: forall l, (fix all (l: list node) : Prop :=
              match l with
              | [] => True
              | k :: r => (shape k /\ (indef = true -> eoc_start (node_raw k) = false)) /\ all r
              end) l <-> Forall (kid_ok indef) l).
  { induction l as [|k r IH]; [split; [constructor|trivial]|].
    split.
    - intros [Hk Hr]. constructor; [exact Hk|apply IH; exact Hr].
    - intros H. inversion H; subst. split; [assumption|apply IH; assumption]. }
  split; intros (ib & lb & H1 & H2 & H3 & H4); exists ib, lb; (split; [exact H1|split; [exact H2|split; [exact H3|apply E; exact H4]]]).
Qed.

Lemma ident_octets_nonempty hb t : ident_octets hb t -> hb <> [].
Proof. intros H E. subst hb. specialize (H []). discriminate H. Qed.
Lemma len_octets_nonempty lb ol : len_octets lb ol -> lb <> [].
Proof. intros H E. subst lb. specialize (H []). discriminate H. Qed.

(* the two sibling loops of parse_one, named *)
Definition many_def (f: nat) : nat -> bytes -> option (list node) :=
  fix many (k: nat) (cs: bytes) : option (list node) :=
    match k with
    | O => None
    | S k' => match cs with
              | [] => Some []
              | _ => match parse_one f cs with
                     | Some (nd, cs') => match many k' cs' with Some l => Some (nd :: l) | None => None end
                     | None => None
                     end
              end
    end.

Definition many_indef (f: nat) : nat -> bytes -> option (list node * bytes) :=
  fix many (k: nat) (cs: bytes) : option (list node * bytes) :=
    match k with
    | O => None
    | S k' => match cs with
              | 0 :: 0 :: cs' => Some ([], cs')
              | _ => match parse_one f cs with
                     | Some (nd, cs') => match many k' cs' with Some (l, r) => Some (nd :: l, r) | None => None end
                     | None => None
                     end
              end
    end.

Lemma parse_one_S f b :
  parse_one (S f) b =
  match split_ident b with
  | None => None
  | Some (c, pc, num, r1) =>
      match split_length r1 with
      | None => None
      | Some (Some n, r2) =>
          let n' := N.to_nat n in
          if Nat.ltb (length r2) n' then None else
          let contents := firstn n' r2 in
          let rest := skipn n' r2 in
          let raw := firstn (length b - length rest) b in
          if pc then
            match many_def f (S (length contents)) contents with
            | Some kids => Some (Cons c num false kids raw, rest)
            | None => None
            end
          else Some (Prim c num contents raw, rest)
      | Some (None, r2) =>
          if negb pc then None else
          match many_indef f (S (length r2)) r2 with
          | Some (kids, rest) => Some (Cons c num true kids (firstn (length b - length rest) b), rest)
          | None => None
          end
      end
  end.
Proof. reflexivity. Qed.

Definition parse_ok (f: nat) : Prop :=
  forall b n rest, octs b -> parse_one f b = Some (n, rest) -> shape n /\ b = node_raw n ++ rest.

Lemma shape_raw_len n : shape n -> (2 <= length (node_raw n))%nat.
Proof.
  destruct n as [c num contents raw|c num indef kids raw].
  - intros (ib & lb & Hi & Hl & -> & _) || intros (ib & lb & Hi & Hl & ->).
    pose proof (ident_octets_nonempty _ _ Hi). pose proof (len_octets_nonempty _ _ Hl).
    cbn [node_raw]. rewrite !app_length. destruct ib; [congruence|]. destruct lb; [congruence|]. cbn [length]. lia.
  - intros H. apply shape_cons in H. destruct H as (ib & lb & Hi & Hl & -> & _).
    pose proof (ident_octets_nonempty _ _ Hi). pose proof (len_octets_nonempty _ _ Hl).
    cbn [node_raw]. rewrite !app_length. destruct ib; [congruence|]. destruct lb; [congruence|]. cbn [length]. lia.
Qed.

Lemma many_def_shape f : parse_ok f -> forall k cs kids, octs cs ->
  many_def f k cs = Some kids -> cs = kids_raw kids /\ Forall (kid_ok false) kids.
Proof.
  intros IH. induction k as [|k IHk]; intros cs kids Hcs H; [discriminate H|].
  cbn [many_def] in H. destruct cs as [|x cs0].
  - inversion H; subst. split; [reflexivity|constructor].
  - remember (x :: cs0) as cs eqn:Ecs.
    destruct (parse_one f cs) as [[nd cs']|] eqn:Ep; [|discriminate H].
    fold (many_def f) in H.
    destruct (many_def f k cs') as [l|] eqn:Em; [|discriminate H]. inversion H; subst kids.
    destruct (IH cs nd cs' Hcs Ep) as [Hsh Hb].
    assert (Hcs': octs cs') by (rewrite Hb in Hcs; apply octs_app in Hcs; tauto).
    destruct (IHk cs' l Hcs' Em) as [Hr Hall].
    split.
    + unfold kids_raw. cbn [map concat]. fold (kids_raw l). rewrite <- Hr. exact Hb.
    + constructor; [split; [exact Hsh|discriminate]|exact Hall].
Qed.

Lemma eoc_start_app a b : (2 <= length a)%nat -> eoc_start (a ++ b) = eoc_start a.
Proof. intros H. destruct a as [|x [|y a]]; cbn [length] in H; try lia. reflexivity. Qed.

Lemma many_indef_shape f : parse_ok f -> forall k cs kids rest, octs cs ->
  many_indef f k cs = Some (kids, rest) ->
  cs = kids_raw kids ++ [0; 0] ++ rest /\ Forall (kid_ok true) kids.
Proof.
  intros IH. induction k as [|k IHk]; intros cs kids rest Hcs H; [discriminate H|].
  cbn [many_indef] in H. fold (many_indef f) in H.
  destruct (eoc_start cs) eqn:Ee.
  - destruct cs as [|x [|y cs0]]; [discriminate Ee| |].
    { destruct x; discriminate Ee. }
    destruct x; [|discriminate Ee]. destruct y; [|discriminate Ee].
    inversion H; subst. split; [reflexivity|constructor].
  - assert (H': match parse_one f cs with
                | Some (nd, cs') => match many_indef f k cs' with Some (l, r) => Some (nd :: l, r) | None => None end
                | None => None end = Some (kids, rest)).
    { destruct cs as [|x [|y cs0]]; [exact H| |].
      - destruct x; exact H.
      - destruct x; [|exact H]. destruct y; [discriminate Ee|exact H]. }
    clear H.
    destruct (parse_one f cs) as [[nd cs']|] eqn:Ep; [|discriminate H'].
    destruct (many_indef f k cs') as [[l r]|] eqn:Em; [|discriminate H']. inversion H'; subst kids rest.
    destruct (IH cs nd cs' Hcs Ep) as [Hsh Hb].
    assert (Hcs': octs cs') by (rewrite Hb in Hcs; apply octs_app in Hcs; tauto).
    destruct (IHk cs' l r Hcs' Em) as [Hr Hall].
    split.
    + unfold kids_raw. cbn [map concat]. fold (kids_raw l). rewrite <- app_assoc. rewrite <- Hr. exact Hb.
    + constructor; [|exact Hall]. split; [exact Hsh|]. intros _.
      rewrite Hb in Ee. rewrite eoc_start_app in Ee by (apply shape_raw_len; exact Hsh). exact Ee.
Qed.

Lemma firstn_len_sub {X} (a b: list X) : firstn (length (a ++ b) - length b) (a ++ b) = a.
Proof. rewrite app_length. replace (length a + length b - length b)%nat with (length a) by lia. apply firstn_app_exact. Qed.

Theorem parse_one_shape : forall f, parse_ok f.
Proof.
  induction f as [|f IH]; intros b n rest Hb H; [discriminate H|].
  rewrite parse_one_S in H.
  destruct (split_ident b) as [[[[c pc] num] r1]|] eqn:Ei; [|discriminate H].
  pose proof (split_ident_dec_ident b c pc num r1 Hb Ei) as Di.
  destruct (dec_ident_suffix _ _ _ Di) as (ib & Eb & _ & Hib).
  assert (Hr1: octs r1) by (rewrite Eb in Hb; apply octs_app in Hb; tauto).
  destruct (split_length r1) as [[ol r2]|] eqn:El; [|discriminate H].
  pose proof (split_length_dec_len r1 ol r2 Hr1 El) as Dl.
  destruct (dec_len_suffix _ _ _ Dl) as (lb & Er1 & _ & Hlb).
  assert (Hr2: octs r2) by (rewrite Er1 in Hr1; apply octs_app in Hr1; tauto).
  destruct ol as [n0|].
  - cbv zeta in H.
    destruct (Nat.ltb_spec (length r2) (N.to_nat n0)) as [Hc|Hge]; [discriminate H|].
    set (contents := firstn (N.to_nat n0) r2) in *. set (rst := skipn (N.to_nat n0) r2) in *.
    assert (Er2: r2 = contents ++ rst) by (symmetry; apply firstn_skipn).
    assert (Hlenc: N.of_nat (length contents) = n0) by (unfold contents; rewrite firstn_length_le by exact Hge; lia).
    assert (Eraw: firstn (length b - length rst) b = ib ++ lb ++ contents).
    { rewrite Eb, Er1, Er2. rewrite !app_assoc. rewrite firstn_len_sub. reflexivity. }
    assert (Hbb: b = (ib ++ lb ++ contents) ++ rst) by (rewrite Eb, Er1, Er2, <- !app_assoc; reflexivity).
    destruct pc.
    + destruct (many_def f (S (length contents)) contents) as [kids|] eqn:Em; [|discriminate H].
      inversion H; subst n rest. clear H.
      assert (Hcont: octs contents) by (apply octs_firstn; exact Hr2).
      destruct (many_def_shape f IH _ _ _ Hcont Em) as [Ek Hall].
      split.
      * apply shape_cons. exists ib, lb. split; [exact Hib|]. split; [rewrite <- Ek, Hlenc; exact Hlb|].
        split; [rewrite Eraw, Ek, app_nil_r; reflexivity|exact Hall].
      * cbn [node_raw]. rewrite Eraw. exact Hbb.
    + inversion H; subst n rest. clear H. split.
      * cbn [shape]. exists ib, lb. split; [exact Hib|]. split; [rewrite Hlenc; exact Hlb|exact Eraw].
      * cbn [node_raw]. rewrite Eraw. exact Hbb.
  - destruct pc; cbn [negb] in H; [|discriminate H].
    destruct (many_indef f (S (length r2)) r2) as [[kids rst]|] eqn:Em; [|discriminate H].
    inversion H; subst n rest. clear H.
    destruct (many_indef_shape f IH _ _ _ _ Hr2 Em) as [Ek Hall].
    assert (Eraw: firstn (length b - length rst) b = ib ++ lb ++ kids_raw kids ++ [0; 0]).
    { rewrite Eb, Er1, Ek. rewrite !app_assoc. rewrite firstn_len_sub. reflexivity. }
    split.
    + apply shape_cons. exists ib, lb. split; [exact Hib|]. split; [exact Hlb|]. split; [exact Eraw|exact Hall].
    + cbn [node_raw]. rewrite Eraw. rewrite Eb, Er1, Ek, <- !app_assoc. reflexivity.
Qed.

Corollary parse_shape b n rest : octs b -> parse b = Some (n, rest) -> shape n /\ b = node_raw n ++ rest.
Proof. intros Hb H. apply (parse_one_shape _ b n rest Hb H). Qed.

(* ====================================================================== *)
(* 2. primitive leaves: contents octets                                      *)
(* ====================================================================== *)

(* INTEGER / ENUMERATED: LeafInt.signed_value_is_from_bytes.  BOOLEAN: any non-zero octet *)
Lemma bool_leaf o : o < 256 -> negb (Z.eqb (from_bytes_signed [o]) 0) = negb (N.eqb o 0).
Proof.
  intros Ho. unfold from_bytes_signed. cbn [be_num length].
  replace (N.lor (N.shiftl 0 8) o) with o by (rewrite N.shiftl_0_l, N.lor_0_l; reflexivity).
  destruct (N.ltb_spec o 128) as [Hs|Hl].
  - destruct (N.eqb_spec o 0) as [->|Hn]; [reflexivity|].
    destruct (Z.eqb_spec (Z.of_N o) 0) as [E|E]; [lia|reflexivity].
  - destruct (N.eqb_spec o 0) as [->|Hn]; [lia|].
    destruct (Z.eqb_spec (Z.of_N o - 2 ^ (8 * Z.of_nat 1)) 0) as [E|E]; [|reflexivity].
    exfalso. change (2 ^ (8 * Z.of_nat 1))%Z with 256%Z in E. lia.
Qed.

(* OBJECT IDENTIFIER, 8.19 *)
Definition more_gen (k: bytes -> res (list N)) :=
  fix more (fuel2: nat) (acc: N) (next: N) (r: bytes) : res (list N) :=
    match fuel2 with
    | O => Err EOutOfFuel
    | S f2 =>
        if N.leb 128 next then
          match r with
          | [] => Err EUnderrun
          | n' :: r' => more f2 (N.shiftl acc 7 + N.land next 127) n' r'
          end
        else do rest <- k r; Ok ((N.shiftl acc 7 + next) :: rest)
    end.

Lemma more_gen_S k f2 acc next r :
  more_gen k (S f2) acc next r =
  if N.leb 128 next then
    match r with
    | [] => Err EUnderrun
    | n' :: r' => more_gen k f2 (N.shiftl acc 7 + N.land next 127) n' r'
    end
  else do rest <- k r; Ok ((N.shiftl acc 7 + next) :: rest).
Proof. reflexivity. Qed.

Lemma oid_subids_S f s r :
  oid_subids (S f) (s :: r) =
  if N.ltb s 128 then do rest <- oid_subids f r; Ok (s :: rest)
  else if N.eqb s 128 then Err EMalformed
  else more_gen (oid_subids f) (S (length r)) 0 s r.
Proof. reflexivity. Qed.

Lemma subids_nil f acc fresh : subids f acc fresh [] = if fresh then Some [] else None.
Proof. destruct f; reflexivity. Qed.

Lemma subids_S f acc fresh o r :
  subids (S f) acc fresh (o :: r) =
  if (fresh && N.eqb o 128)%bool then None
  else if N.ltb o 128 then opt_bind (subids f 0 true r) (fun l => Some ((acc * 128 + o) :: l))
  else subids f (acc * 128 + (o - 128)) false r.
Proof. reflexivity. Qed.

Lemma oid_inner k : forall r f accm next acc l f2,
  octs r -> 128 <= next -> next < 256 -> acc = accm * 128 + (next - 128) ->
  subids f acc false r = Some l -> (length r < f2)%nat ->
  (forall r' f' l', (length r' < length r)%nat -> octs r' -> subids f' 0 true r' = Some l' -> k r' = Ok l') ->
  more_gen k f2 accm next r = Ok l.
Proof.
  induction r as [|o r IH]; intros f accm next acc l f2 Hr Hn1 Hn2 Eacc H Hf Hk.
  - rewrite subids_nil in H. discriminate H.
  - destruct f as [|f]; [discriminate H|]. rewrite subids_S in H. cbn [andb] in H.
    apply octs_cons in Hr. destruct Hr as [Ho Hr].
    destruct f2 as [|f2]; [lia|]. rewrite more_gen_S.
    destruct (N.leb_spec 128 next) as [_|Hc]; [|lia].
    destruct (cont_octet_agree next Hn2) as (_ & _ & E3). rewrite (E3 Hn1).
    assert (Eacc': N.shiftl accm 7 + (next - 128) = acc) by (rewrite shiftl_mul; change (2 ^ 7) with 128; lia).
    rewrite Eacc'.
    destruct (N.ltb_spec o 128) as [Hs|Hl].
    + destruct (subids f 0 true r) as [l0|] eqn:E0; [|discriminate H]. cbn [opt_bind] in H. inversion H; subst l.
      cbn [length] in Hf. destruct f2 as [|f2]; [lia|]. rewrite more_gen_S.
      destruct (N.leb_spec 128 o) as [Hc|_]; [lia|].
      rewrite (Hk r f l0); [|cbn [length]; lia|exact Hr|exact E0]. cbn [bind].
      rewrite shiftl_mul. change (2 ^ 7) with 128. reflexivity.
    + apply (IH f acc o (acc * 128 + (o - 128)) l f2 Hr Hl Ho eq_refl H); [cbn [length] in Hf; lia|].
      intros r' f' l' Hlen. apply Hk. cbn [length]. lia.
Qed.

Lemma oid_subids_ref : forall m b, (length b <= m)%nat -> octs b -> forall f l,
  subids f 0 true b = Some l -> forall g, (length b < g)%nat -> oid_subids g b = Ok l.
Proof.
  induction m as [|m IH]; intros b Hm Hb f l H g Hg.
  - destruct b; [|cbn [length] in Hm; lia]. rewrite subids_nil in H. inversion H; subst.
    destruct g; [cbn [length] in Hg; lia|]. reflexivity.
  - destruct b as [|s r].
    + rewrite subids_nil in H. inversion H; subst. destruct g; [cbn [length] in Hg; lia|]. reflexivity.
    + destruct f as [|f]; [discriminate H|]. rewrite subids_S in H. cbn [andb] in H.
      apply octs_cons in Hb. destruct Hb as [Hs Hr]. cbn [length] in Hm, Hg.
      destruct g as [|g]; [lia|]. rewrite oid_subids_S.
      destruct (N.eqb_spec s 128) as [E|Hne]; [discriminate H|].
      destruct (N.ltb_spec s 128) as [Hlt|Hge].
      * destruct (subids f 0 true r) as [l0|] eqn:E0; [|discriminate H]. cbn [opt_bind] in H. inversion H; subst l.
        rewrite (IH r ltac:(lia) Hr f l0 E0 g ltac:(lia)). cbn [bind]. reflexivity.
      * apply (oid_inner (oid_subids g) r f 0 s (0 * 128 + (s - 128)) l (S (length r)) Hr Hge Hs eq_refl H); [lia|].
        intros r' f' l' Hlen Hr' H'. apply (IH r' ltac:(lia) Hr' f' l' H'). lia.
Qed.

Theorem oid_leaf : forall c a, octs c -> oid_value c = Some a -> dec_oid c = Ok a.
Proof.
  intros c a Hc H. unfold oid_value in H.
  destruct (subids (S (length c)) 0 true c) as [l|] eqn:E; [|discriminate H].
  destruct l as [|x rest]; [discriminate H|].
  unfold dec_oid. destruct c as [|o c']; [rewrite subids_nil in E; discriminate E|].
  rewrite (oid_subids_ref _ _ (le_n _) Hc _ _ E (S (length (o :: c')))) by lia. cbn [bind].
  destruct (N.ltb_spec x 40) as [H1|H1].
  - destruct (N.leb_spec x 39) as [_|H2]; [|lia]. inversion H; reflexivity.
  - destruct (N.leb_spec x 39) as [H2|_]; [lia|].
    destruct (N.ltb_spec x 80) as [H3|H3].
    + destruct (N.leb_spec x 79) as [_|H4]; [|lia]. inversion H; reflexivity.
    + destruct (N.leb_spec x 79) as [H4|_]; [lia|]. inversion H; reflexivity.
Qed.

(* BIT STRING, 8.6: the bits of the octets *)
Lemma odd_mod2 n : N.odd n = N.eqb (n mod 2) 1.
Proof. rewrite <- N.bit0_odd. apply N.bit0_eqb. Qed.

Lemma N_to_bits_spec : forall k n, N_to_bits k n = bits_of_N k n.
Proof. induction k as [|k IH]; intros n; [reflexivity|]. cbn [N_to_bits bits_of_N]. rewrite IH, odd_mod2. reflexivity. Qed.

Lemma octets_to_bits_spec b : octets_to_bits b = bits_of_octets_spec b.
Proof.
  unfold octets_to_bits, bits_of_octets_spec. f_equal. apply map_ext. intros a. apply N_to_bits_spec.
Qed.

Lemma bits_of_N_length : forall k n, length (bits_of_N k n) = k.
Proof. induction k as [|k IH]; intros n; [reflexivity|]. cbn [bits_of_N]. rewrite app_length, IH. cbn [length]. lia. Qed.

Lemma bits_spec_length b : length (bits_of_octets_spec b) = (8 * length b)%nat.
Proof.
  unfold bits_of_octets_spec. induction b as [|o b IH]; [reflexivity|].
  cbn [map concat]. rewrite app_length, IH, bits_of_N_length. cbn [length]. lia.
Qed.

(* one primitive segment: the reference's (bits, unused) pair read as a whole value by the model *)
Theorem bits_leaf : forall c u bs,
  join_bit_segments [(bits_of_octets_spec c, u)] = Some bs -> bits_of_octets c u = Ok bs.
Proof.
  intros c u bs H. cbn [join_bit_segments] in H. unfold bits_of_octets. cbv zeta.
  rewrite bits_spec_length in H. rewrite octets_to_bits_spec.
  destruct (Nat.ltb (8 * length c) (N.to_nat u)); [discriminate H|]. inversion H. reflexivity.
Qed.

(* a segment with no unused bits contributes all its bits *)
Lemma bits_leaf_full c : bits_of_octets c 0 = Ok (bits_of_octets_spec c).
Proof.
  unfold bits_of_octets. cbv zeta. change (N.to_nat 0) with 0%nat.
  destruct (Nat.ltb_spec (8 * length c) 0) as [Hc|_]; [lia|].
  rewrite Nat.sub_0_r, octets_to_bits_spec, <- bits_spec_length, firstn_all. reflexivity.
Qed.

Example stage2_leaves :
  oid_value [42; 134; 72; 128 + 6; 13] = Some [1; 2; 840; 781] /\ dec_oid [42; 134; 72; 128 + 6; 13] = Ok [1; 2; 840; 781]
  /\ signed_value [255; 0; 128] = (-65408)%Z /\ from_bytes_signed [255; 0; 128] = (-65408)%Z.
Proof. vm_compute. repeat split. Qed.

(* ====================================================================== *)
(* 3. running the decoder over one TLV                                       *)
(* ====================================================================== *)

Lemma setpos_back s k : setpos (adv s k) (pos (adv s k) - k) = s.
Proof. destruct s as [a p c m]. unfold adv, setpos. cbn [pos arrived closed mark]. f_equal. lia. Qed.

(* the entry point reads any identifier and length octets and arrives at the dispatch; with allowEoo
   it first looks at two octets and steps back when they are not 00 00 *)
Lemma call_header : forall f sp acc allow sfun ib lb t ol rest s,
  ident_octets ib t -> len_octets lb ol -> avail s = ib ++ lb ++ rest -> (length ib <= S f)%nat ->
  (allow = true -> eoc_start (ib ++ lb) = false) ->
  resume (dec_call BER (S f) sp acc None allow sfun) s =
  resume (dispatch BER (dec_call BER f) f sp (t :: acc) ol sfun) (adv (setmark s (pos s)) (length ib + length lb)).
Proof.
  intros f sp acc allow sfun ib lb t ol rest s Hi Hl Hav Hlen Heoc.
  assert (Hmain: resume (Mark (let! t0 := read_tag f in let! len := read_length BER in
                               dispatch BER (dec_call BER f) f sp (t0 :: acc) len sfun)) s =
                 resume (dispatch BER (dec_call BER f) f sp (t :: acc) ol sfun)
                        (adv (setmark s (pos s)) (length ib + length lb))).
  { cbn [resume]. set (s0 := setmark s (pos s)).
    assert (Hav0: avail s0 = ib ++ lb ++ rest) by exact Hav.
    pose proof (Hi (lb ++ rest)) as Hid.
    assert (Hcons: (length (ib ++ lb ++ rest) - length (lb ++ rest))%nat = length ib) by (rewrite app_length; lia).
    rewrite (resume_read_tag f (ib ++ lb ++ rest) t (lb ++ rest) s0 _ Hid Hav0) by (rewrite Hcons; exact Hlen).
    rewrite Hcons.
    assert (Hav1: avail (adv s0 (length ib)) = lb ++ rest) by (apply (avail_app_adv _ _ _ Hav0)).
    rewrite (resume_read_length BER (lb ++ rest) ol rest _ _ (Hl rest) Hav1) by reflexivity.
    rewrite adv_adv. f_equal. f_equal. rewrite app_length. lia. }
  cbn [dec_call]. unfold dec_body. destruct allow; cbn [andb].
  - change (support_indef BER) with true. cbv iota.
    pose proof (ident_octets_nonempty _ _ Hi) as Hin. pose proof (len_octets_nonempty _ _ Hl) as Hln.
    destruct ib as [|x ib']; [congruence|].
    assert (E2: exists y r2, ib' ++ lb ++ rest = y :: r2 /\ eoc_start (x :: y :: r2) = false).
    { destruct ib' as [|y ib''].
      - destruct lb as [|y lb']; [congruence|]. exists y, (lb' ++ rest). split; [reflexivity|].
        specialize (Heoc eq_refl). cbn [app] in Heoc. destruct x; [|reflexivity]. destruct y; [discriminate Heoc|reflexivity].
      - exists y, (ib'' ++ lb ++ rest). split; [reflexivity|].
        specialize (Heoc eq_refl). cbn [app] in Heoc. destruct x; [|reflexivity]. destruct y; [discriminate Heoc|reflexivity]. }
    destruct E2 as (y & r2 & E2 & Hne).
    assert (Hav2: avail s = [x; y] ++ r2) by (rewrite Hav; cbn [app]; rewrite E2; reflexivity).
    rewrite (resume_readN s 2 [x; y] r2 _ Hav2 eq_refl).
    assert (Hbr: forall (A: Type) (k1 k2: A), match [x; y] with [0; 0] => k1 | _ => k2 end = k2).
    { intros A k1 k2. destruct x; [|reflexivity]. destruct y; [discriminate Hne|reflexivity]. }
    rewrite Hbr. cbn [resume]. rewrite setpos_back. exact Hmain.
  - exact Hmain.
Qed.

(* end-of-contents octets where they are allowed *)
Lemma call_eoo : forall f sp acc sfun s tl, avail s = 0 :: 0 :: tl ->
  resume (dec_call BER (S f) sp acc None true sfun) s = inr (Ok DEoo, adv s 2).
Proof.
  intros f sp acc sfun s tl Hav. cbn [dec_call]. unfold dec_body. cbn [andb].
  change (support_indef BER) with true. cbv iota.
  rewrite (resume_readN s 2 [0; 0] tl _ Hav eq_refl). reflexivity.
Qed.

(* the dispatch when the tags read so far are the type's tag set *)
Lemma dispatch_match_def : forall rec f T ts l sfun cd fl,
  tagset_eqb ts (tagset_of' T) = true -> tm_postponed (tagmap_of T) = false -> by_type BER T = Some (cd, fl) ->
  dispatch BER rec f (STy T) ts (Some l) sfun =
  (let! p0 := tell in let! v := dec_value rec f cd fl (Some T) ts (Some l) sfun in let! p1 := tell in
   if N.eqb (N.of_nat (p1 - p0)) l then Ret v else Raise EMalformed).
Proof. intros rec f T ts l sfun cd fl H1 H2 H3. unfold dispatch. rewrite H1, H2, H3. reflexivity. Qed.

Lemma dispatch_match_indef : forall rec f T ts sfun cd fl,
  tagset_eqb ts (tagset_of' T) = true -> tm_postponed (tagmap_of T) = false -> by_type BER T = Some (cd, fl) ->
  dispatch BER rec f (STy T) ts None sfun = dec_value rec f cd fl (Some T) ts None sfun.
Proof. intros rec f T ts sfun cd fl H1 H2 H3. unfold dispatch. rewrite H1, H2, H3. reflexivity. Qed.

(* the dispatch on a constructed non-universal tag that does not complete the tag set: an EXPLICIT level *)
Lemma dispatch_explicit_def : forall rec f T t acc l,
  tagset_eqb (t :: acc) (tagset_of' T) = false -> tm_contains (tagmap_of T) (t :: acc) = false ->
  tcon t = true -> tcls t <> Univ ->
  dispatch BER rec f (STy T) (t :: acc) (Some l) false =
  (let! p0 := tell in let! v := rec (STy T) (t :: acc) None false false in let! p1 := tell in
   if N.eqb (N.of_nat (p1 - p0)) l then Ret v else Raise EMalformed).
Proof.
  intros rec f T t acc l H1 H2 H3 H4. unfold dispatch. rewrite H1, H2, H3. cbn [orb andb].
  destruct (tcls t); try congruence; reflexivity.
Qed.

Lemma dispatch_explicit_indef : forall rec f T t acc,
  tagset_eqb (t :: acc) (tagset_of' T) = false -> tm_contains (tagmap_of T) (t :: acc) = false ->
  tcon t = true -> tcls t <> Univ ->
  dispatch BER rec f (STy T) (t :: acc) None false = raw_loop rec (STy T) (t :: acc) f DNoValue.
Proof.
  intros rec f T t acc H1 H2 H3 H4. unfold dispatch. rewrite H1, H2, H3. cbn [orb andb].
  destruct (tcls t); try congruence; reflexivity.
Qed.

(* a definite length is checked against what the value decoder consumed *)
Lemma run_value_def (p: proc dval) content v :
  consumes p content v ->
  consumes (let! p0 := tell in let! x := p in let! p1 := tell in
            if N.eqb (N.of_nat (p1 - p0)) (N.of_nat (length content)) then Ret x else Raise EMalformed) content v.
Proof.
  intros Hin s tl Hav. rewrite resume_tell.
  destruct (Hin s tl Hav) as (s2 & Hrun & Hpos & Harr & Hcl).
  rewrite (resume_pbind_done _ _ _ _ _ Hrun). rewrite resume_tell.
  rewrite Hpos. rewrite (Nat.add_comm (pos s)), Nat.add_sub. rewrite N.eqb_refl. cbn [resume].
  exists s2. split; [reflexivity|]. split; [lia|]. split; assumption.
Qed.

(* after the header: the stream stands at the contents *)
Lemma after_header s (hb body tl: bytes) :
  avail s = hb ++ body ++ tl ->
  let s1 := adv (setmark s (pos s)) (length hb) in
  avail s1 = body ++ tl /\ pos s1 = (pos s + length hb)%nat /\ arrived s1 = arrived s /\ closed s1 = closed s.
Proof.
  intros Hav s1. split; [|repeat split].
  subst s1. rewrite avail_adv, avail_setmark, Hav. apply skipn_app_exact.
Qed.

(* a process that consumes the contents, run after the header was consumed *)
Lemma consumes_after_header (p q: proc dval) (hb body: bytes) v :
  (forall s rest, avail s = hb ++ body ++ rest ->
     resume p s = resume q (adv (setmark s (pos s)) (length hb))) ->
  consumes q body v -> consumes p (hb ++ body) v.
Proof.
  intros Hhdr Hq s tl Hav. rewrite <- app_assoc in Hav. rewrite (Hhdr s tl Hav).
  destruct (after_header s hb body tl Hav) as (Hav1 & Hp1 & Ha1 & Hc1).
  destruct (Hq _ tl Hav1) as (s2 & Hrun & Hpos & Harr & Hcl).
  exists s2. split; [exact Hrun|]. rewrite app_length. repeat split; [lia|congruence|congruence].
Qed.

Lemma call_consumes : forall f sp acc allow sfun ib lb t ol body v,
  ident_octets ib t -> len_octets lb ol -> (length ib <= S f)%nat ->
  (allow = true -> eoc_start (ib ++ lb) = false) ->
  consumes (dispatch BER (dec_call BER f) f sp (t :: acc) ol sfun) body v ->
  consumes (dec_call BER (S f) sp acc None allow sfun) ((ib ++ lb) ++ body) v.
Proof.
  intros f sp acc allow sfun ib lb t ol body v Hi Hl Hlen Heoc Hq.
  apply (consumes_after_header _ (dispatch BER (dec_call BER f) f sp (t :: acc) ol sfun) (ib ++ lb) body v); [|exact Hq].
  intros s rest Hav. rewrite app_length.
  apply (call_header f sp acc allow sfun ib lb t ol (body ++ rest) s Hi Hl); [|exact Hlen|exact Heoc].
  rewrite Hav, <- app_assoc. reflexivity.
Qed.

(* ---------- the parts of a node ---------- *)

Definition node_body (n: node) : bytes :=
  match n with
  | Prim _ _ c _ => c
  | Cons _ _ indef kids _ => kids_raw kids ++ (if indef then [0; 0] else [])
  end.
Definition node_len (n: node) : option N :=
  match n with
  | Prim _ _ c _ => Some (N.of_nat (length c))
  | Cons _ _ false kids _ => Some (N.of_nat (length (kids_raw kids)))
  | Cons _ _ true _ _ => None
  end.
Definition node_wire (n: node) : tag :=
  match n with Prim c num _ _ => mkTag c false num | Cons c num _ _ _ => mkTag c true num end.

Lemma shape_split n : shape n ->
  exists ib lb, ident_octets ib (node_wire n) /\ len_octets lb (node_len n) /\ node_raw n = (ib ++ lb) ++ node_body n.
Proof.
  destruct n as [c num contents raw|c num indef kids raw].
  - intros (ib & lb & Hi & Hl & E). exists ib, lb. cbn [node_wire node_len node_raw node_body].
    split; [exact Hi|]. split; [exact Hl|]. rewrite E, <- app_assoc. reflexivity.
  - intros H. apply shape_cons in H. destruct H as (ib & lb & Hi & Hl & E & _). exists ib, lb.
    cbn [node_wire node_raw node_body]. split; [exact Hi|]. split; [destruct indef; exact Hl|].
    rewrite E, <- app_assoc. reflexivity.
Qed.

Lemma node_len_def n l : node_len n = Some l -> l = N.of_nat (length (node_body n)).
Proof.
  destruct n as [c num contents raw|c num [|] kids raw]; cbn [node_len node_body]; intros H; inversion H; try reflexivity.
  rewrite app_nil_r. reflexivity.
Qed.

(* size of a node against fuel and the largest read the library can ask for *)
Definition fitsn (f: nat) (n: node) : Prop :=
  N.of_nat (length (node_raw n)) <= index_max /\ (length (node_raw n) <= f)%nat.

Lemma eoc_start_prefix a b : (2 <= length a)%nat -> eoc_start (a ++ b) = false -> eoc_start a = false.
Proof. intros H E. rewrite eoc_start_app in E by exact H. exact E. Qed.

Lemma hdr_len2 ib lb t ol : ident_octets ib t -> len_octets lb ol -> (2 <= length (ib ++ lb))%nat.
Proof.
  intros Hi Hl. pose proof (ident_octets_nonempty _ _ Hi). pose proof (len_octets_nonempty _ _ Hl).
  rewrite app_length. destruct ib; [congruence|]. destruct lb; [congruence|]. cbn [length]. lia.
Qed.

(* the level at which the tags read complete the type's tag set *)
Lemma item_of_value : forall f T0 acc n allow sfun v cd fl,
  shape n -> fitsn f n -> (allow = true -> eoc_start (node_raw n) = false) ->
  tagset_eqb (node_wire n :: acc) (tagset_of' T0) = true -> tm_postponed (tagmap_of T0) = false ->
  by_type BER T0 = Some (cd, fl) ->
  consumes (dec_value (dec_call BER f) f cd fl (Some T0) (node_wire n :: acc) (node_len n) sfun) (node_body n) v ->
  consumes (dec_call BER (S f) (STy T0) acc None allow sfun) (node_raw n) v.
Proof.
  intros f T0 acc n allow sfun v cd fl Hsh [Hmax Hf] Heoc Heq Hpp Hby Hval.
  destruct (shape_split n Hsh) as (ib & lb & Hi & Hl & Eraw). rewrite Eraw in *.
  apply (call_consumes f (STy T0) acc allow sfun ib lb (node_wire n) (node_len n) (node_body n) v Hi Hl).
  - rewrite !app_length in Hf. lia.
  - intros Ha. apply (eoc_start_prefix _ (node_body n)); [apply (hdr_len2 _ _ _ _ Hi Hl)|apply Heoc; exact Ha].
  - destruct (node_len n) as [l|] eqn:El.
    + rewrite (dispatch_match_def _ _ _ _ _ _ cd fl Heq Hpp Hby).
      rewrite (node_len_def n l El). apply run_value_def. rewrite <- (node_len_def n l El). exact Hval.
    + rewrite (dispatch_match_indef _ _ _ _ _ cd fl Heq Hpp Hby). exact Hval.
Qed.

Definition is_dv (d: dval) : Prop := match d with DV _ _ => True | _ => False end.

(* one EXPLICIT level, definite or indefinite *)
Lemma item_of_explicit : forall f T0 acc c num indef k raw allow v,
  shape (Cons c num indef [k] raw) -> fitsn (S f) (Cons c num indef [k] raw) ->
  (allow = true -> eoc_start raw = false) ->
  tagset_eqb (mkTag c true num :: acc) (tagset_of' T0) = false ->
  tm_contains (tagmap_of T0) (mkTag c true num :: acc) = false -> c <> Univ -> is_dv v ->
  consumes (dec_call BER (S f) (STy T0) (mkTag c true num :: acc) None indef false) (node_raw k) v ->
  consumes (dec_call BER (S (S f)) (STy T0) acc None allow false) raw v.
Proof.
  intros f T0 acc c num indef k raw allow v Hsh [Hmax Hf] Heoc Hne Hnm Hcls Hdv Hin.
  destruct (shape_split _ Hsh) as (ib & lb & Hi & Hl & Eraw).
  cbn [node_raw node_wire node_len node_body] in *. rewrite Eraw in *.
  assert (Ekr: kids_raw [k] = node_raw k) by (unfold kids_raw; cbn [map concat]; apply app_nil_r).
  rewrite Ekr in *.
  apply (call_consumes (S f) (STy T0) acc allow false ib lb (mkTag c true num) _ _ v Hi Hl).
  - rewrite !app_length in Hf. lia.
  - intros Ha. apply (eoc_start_prefix _ (node_raw k ++ (if indef then [0; 0] else []))); [apply (hdr_len2 _ _ _ _ Hi Hl)|apply Heoc; exact Ha].
  - destruct indef.
    + rewrite (dispatch_explicit_indef _ _ _ _ _ Hne Hnm eq_refl Hcls).
      intros s tl Hav. rewrite <- app_assoc in Hav.
      destruct (Hin s ([0; 0] ++ tl) Hav) as (s1 & Hrun & Hp1 & Ha1 & Hc1).
      assert (Hav1: avail s1 = 0 :: 0 :: tl) by (apply (consumes_avail (node_raw k) s _ s1 Hav Hp1 Ha1)).
      cbn [raw_loop]. rewrite (resume_pbind_done _ _ _ _ _ Hrun).
      assert (Estep: resume (match v with DEoo => match DNoValue with DNoValue => Raise EMalformed | _ => Ret DNoValue end
                                     | _ => raw_loop (dec_call BER (S f)) (STy T0) (mkTag c true num :: acc) f v end) s1
                     = resume (raw_loop (dec_call BER (S f)) (STy T0) (mkTag c true num :: acc) f v) s1).
      { destruct v; try contradiction. reflexivity. }
      rewrite Estep. clear Estep.
      destruct f as [|f'].
      { exfalso. pose proof (shape_raw_len k) as Hk2.
        apply shape_cons in Hsh. destruct Hsh as (_ & _ & _ & _ & _ & Hall). inversion Hall as [|? ? [Hk _] _]; subst.
        specialize (Hk2 Hk). pose proof (hdr_len2 _ _ _ _ Hi Hl). rewrite !app_length in Hf. cbn [length] in Hf. lia. }
      cbn [raw_loop]. rewrite (resume_pbind_done _ _ _ _ _ (call_eoo (S f') _ _ _ s1 tl Hav1)).
      destruct v; try contradiction. cbn [resume].
      exists (adv s1 2). split; [reflexivity|]. rewrite app_length. cbn [length].
      rewrite pos_adv. split; [lia|]. split; [rewrite arrived_adv; exact Ha1|rewrite closed_adv; exact Hc1].
    + rewrite app_nil_r in *. rewrite (dispatch_explicit_def _ _ _ _ _ _ Hne Hnm eq_refl Hcls).
      apply run_value_def. exact Hin.
Qed.

(* ---------- tags up to their (class, number) ---------- *)

Definition key (t: tag) : tclass * N := (tcls t, tnum t).
Definition keys (ts: tagset) : list (tclass * N) := map key ts.

Lemma cls_eqb_eq a b : cls_eqb a b = true <-> a = b.
Proof. destruct a, b; cbn; split; intros H; try reflexivity; try discriminate; congruence. Qed.

Lemma tag_eqb_key a b : tag_eqb a b = true <-> key a = key b.
Proof.
  unfold tag_eqb, key. split.
  - intros H. apply andb_true_iff in H. destruct H as [H1 H2]. apply cls_eqb_eq in H1. apply N.eqb_eq in H2. congruence.
  - intros H. inversion H as [[H1 H2]]. rewrite H1, H2. apply andb_true_iff. split; [apply cls_eqb_eq; reflexivity|apply N.eqb_refl].
Qed.

Lemma tagset_eqb_keys : forall a b, tagset_eqb a b = true <-> keys a = keys b.
Proof.
  induction a as [|x a IH]; intros [|y b]; cbn; try (split; [reflexivity|reflexivity]); try (split; discriminate).
  split.
  - intros H. apply andb_true_iff in H. destruct H as [H1 H2]. apply tag_eqb_key in H1. apply IH in H2.
    unfold keys in H2. rewrite H1, H2. reflexivity.
  - intros H. assert (H1: key x = key y) by congruence. assert (H2: keys a = keys b) by (unfold keys; congruence).
    apply andb_true_iff. split; [apply tag_eqb_key; exact H1|apply IH; exact H2].
Qed.

Lemma tagset_eqb_keys_false a b : length a <> length b -> tagset_eqb a b = false.
Proof.
  intros H. destruct (tagset_eqb a b) eqn:E; [|reflexivity]. apply tagset_eqb_keys in E.
  apply (f_equal (@length _)) in E. unfold keys in E. rewrite !map_length in E. congruence.
Qed.

Lemma class_no_inj a b : class_no a = class_no b -> a = b.
Proof. destruct a, b; cbn; intros H; try reflexivity; discriminate H. Qed.

Lemma tag_pair_eqb_eq a b : tag_pair_eqb a b = true -> a = b.
Proof.
  unfold tag_pair_eqb. intros H. apply andb_true_iff in H. destruct H as [H1 H2].
  apply N.eqb_eq in H1, H2. apply class_no_inj in H1. destruct a, b. cbn in *. congruence.
Qed.

Lemma same_tag_key e n : same_tag e n = true -> key (node_wire n) = e.
Proof.
  unfold same_tag. intros H. apply tag_pair_eqb_eq in H. rewrite H. destruct n; reflexivity.
Qed.

(* the (class, number) pairs an encoding of T shows from the base tag outwards, when the outermost
   one has been replaced by e *)
Definition orkey (e: option (tclass * N)) (k: tclass * N) : tclass * N := match e with Some x => x | None => k end.

Fixpoint kets (T: ty) (e: option (tclass * N)) : list (tclass * N) :=
  match T with
  | TImp t x => kets x (Some (orkey e (key t)))
  | TExp t x => kets x None ++ [orkey e (key t)]
  | _ => [orkey e (match tagset_of' T with [u] => key u | _ => (Univ, 0) end)]
  end.

Definition tagged_base (T: ty) : bool := match base_of T with TChoice _ | TAny => false | _ => true end.

Lemma tag_implicitly_keys ts t : ts <> [] ->
  exists ts' last, ts = ts' ++ [last] /\ tag_implicitly ts t = ts' ++ [mkTag (tcls t) (tcon last) (tnum t)].
Proof. intros H. destruct (exists_last H) as (ts' & last & ->). exists ts', last. split; [reflexivity|apply tag_implicitly_spec]. Qed.

Lemma keys_app a b : keys (a ++ b) = keys a ++ keys b. Proof. apply map_app. Qed.

Lemma keys_kets : forall T, wf_tags T = true -> tagged_base T = true ->
  exists ts, tagset_of T = Ok ts /\ ts <> [] /\ keys ts = kets T None
             /\ forall t, keys (tag_implicitly ts t) = kets T (Some (key t)).
Proof.
  induction T as [| | | | | | | | n|fs IH|fs IH|t IH|t IH|alts IH| |tg x IH|tg x IH] using ty_ind';
    intros Hw Hp; try discriminate Hp;
    try (eexists; split; [reflexivity|split; [discriminate|split; [reflexivity|intros t0; reflexivity]]]).
  - (* TImp *)
    cbn [wf_tags] in Hw. apply andb_true_iff in Hw. destruct Hw as [Hcl Hw].
    destruct (IH Hw Hp) as (ts & Hts & Hne & Hk & Hk2).
    cbn [tagset_of]. rewrite Hts. cbn [bind]. exists (tag_implicitly ts tg).
    destruct (tag_implicitly_keys ts tg Hne) as (ts' & last & E1 & E2).
    split; [reflexivity|]. split; [rewrite E2; destruct ts'; discriminate|].
    split; [cbn [kets orkey]; apply Hk2|].
    intros t0. cbn [kets orkey]. rewrite <- Hk2. rewrite E2, tag_implicitly_spec. rewrite E1, tag_implicitly_spec.
    rewrite !keys_app. reflexivity.
  - (* TExp *)
    cbn [wf_tags] in Hw. apply andb_true_iff in Hw. destruct Hw as [Hcl Hw].
    destruct (IH Hw Hp) as (ts & Hts & Hne & Hk & Hk2).
    cbn [tagset_of]. rewrite Hts. cbn [bind]. unfold tag_explicitly.
    assert (Hnu: tcls tg <> Univ) by (destruct (tcls tg); try discriminate; cbn in Hcl; congruence).
    exists (ts ++ [mkTag (tcls tg) true (tnum tg)]).
    split; [destruct (tcls tg); try reflexivity; congruence|].
    split; [destruct ts; discriminate|].
    split; [rewrite keys_app, Hk; reflexivity|].
    intros t0. rewrite tag_implicitly_spec, keys_app, Hk. reflexivity.
Qed.

Lemma kets_nonempty : forall T e, kets T e <> [].
Proof.
  induction T as [| | | | | | | | n|fs IH|fs IH|t IH|t IH|alts IH| |tg x IH|tg x IH] using ty_ind'; intros e;
    try discriminate.
  - cbn [kets]. apply IH.
  - cbn [kets]. destruct (kets x None); discriminate.
Qed.

Lemma plain_of_tagged T : tagged_base T = true -> plain_map T.
Proof. intros H. apply plain_map_tagged. destruct T; try exact I; discriminate H. Qed.

(* ====================================================================== *)
(* 4. the member loops: string segments, SEQUENCE OF, SEQUENCE               *)
(* ====================================================================== *)

Definition member (rec : spec -> tagset -> option (option N) -> bool -> bool -> proc dval)
  (sp: spec) (allow sfun: bool) (p: bytes) (d: dval) : Prop :=
  consumes (rec sp [] None allow sfun) p d /\ (0 < length p)%nat.
(* OCTET STRING and character string segments; BIT STRING segments, each decoded as a BIT STRING value;
   members of SEQUENCE OF and SEQUENCE *)
Definition oseg rec (allow: bool) (p: bytes) (bs: bytes) : Prop := member rec (STy TOcts) allow true p (DV TOcts (VOcts bs)).
Definition bseg rec (allow: bool) (p: bytes) (bs: list bool) : Prop := member rec (STy TBits) allow false p (DV TBits (VBits bs)).
Definition elem rec (t: ty) (allow: bool) (p: bytes) (x: val) : Prop := member rec (STy t) allow false p (DV t x).

Section LoopsDef.
  Variable rec : spec -> tagset -> option (option N) -> bool -> bool -> proc dval.

  Lemma octets_loop_run proto sp ts : forall parts bss,
    Forall2 (oseg rec false) parts bss ->
    forall n acc start total s tl,
      (length parts < n)%nat -> avail s = concat parts ++ tl -> (start <= pos s)%nat ->
      (pos s - start + length (concat parts) = total)%nat ->
      exists s', resume (octets_loop rec proto sp ts (N.of_nat total) start n acc) s
                 = resume (create sp proto ts (VOcts (acc ++ concat bss))) s'
        /\ avail s' = tl /\ pos s' = (pos s + length (concat parts))%nat /\ arrived s' = arrived s /\ closed s' = closed s.
  Proof.
    intros parts bss HF. induction HF as [|p bs parts bss [Hp Hpl] HF IH]; intros n acc start total s tl Hn Hav Hst Htot.
    - destruct n as [|n']; [cbn [length] in Hn; lia|].
      cbn [octets_loop]. rewrite resume_tell. cbn [concat length] in Htot.
      destruct (N.ltb_spec (N.of_nat (pos s - start)) (N.of_nat total)) as [Hlt|_]; [lia|].
      exists s. cbn [concat length app] in Hav, Htot |- *. rewrite app_nil_r. repeat split; [exact Hav|lia].
    - destruct n as [|n']; [cbn [length] in Hn; lia|].
      cbn [octets_loop]. rewrite resume_tell.
      cbn [concat] in Htot, Hav. rewrite app_length in Htot.
      destruct (N.ltb_spec (N.of_nat (pos s - start)) (N.of_nat total)) as [_|Hge]; [|lia].
      rewrite <- app_assoc in Hav. unfold fragment.
      destruct (Hp s _ Hav) as (s1 & Hrun & Hpos & Harr & Hcl).
      rewrite (resume_pbind_done _ _ _ _ _ Hrun).
      pose proof (consumes_avail p s _ s1 Hav Hpos Harr) as Hav1.
      cbn [length] in Hn.
      destruct (IH n' (acc ++ bs) start total s1 tl ltac:(lia) Hav1 ltac:(lia) ltac:(lia)) as (s2 & Hrun2 & Hav2 & Hpos2 & Harr2 & Hcl2).
      exists s2. rewrite Hrun2. rewrite <- app_assoc. cbn [concat]. rewrite app_length.
      split; [reflexivity|]. split; [exact Hav2|]. split; [lia|]. split; congruence.
  Qed.

  Lemma bits_loop_run sp ts : forall parts bss,
    Forall2 (bseg rec false) parts bss ->
    forall n acc start total s tl,
      (length parts < n)%nat -> avail s = concat parts ++ tl -> (start <= pos s)%nat ->
      (pos s - start + length (concat parts) = total)%nat ->
      exists s', resume (bits_loop rec sp ts (N.of_nat total) start n acc) s
                 = resume (create sp TBits ts (VBits (acc ++ concat bss))) s'
        /\ avail s' = tl /\ pos s' = (pos s + length (concat parts))%nat /\ arrived s' = arrived s /\ closed s' = closed s.
  Proof.
    intros parts bss HF. induction HF as [|p bs parts bss [Hp Hpl] HF IH]; intros n acc start total s tl Hn Hav Hst Htot.
    - destruct n as [|n']; [cbn [length] in Hn; lia|].
      cbn [bits_loop]. rewrite resume_tell. cbn [concat length] in Htot.
      destruct (N.ltb_spec (N.of_nat (pos s - start)) (N.of_nat total)) as [Hlt|_]; [lia|].
      exists s. cbn [concat length app] in Hav, Htot |- *. rewrite app_nil_r. repeat split; [exact Hav|lia].
    - destruct n as [|n']; [cbn [length] in Hn; lia|].
      cbn [bits_loop]. rewrite resume_tell.
      cbn [concat] in Htot, Hav. rewrite app_length in Htot.
      destruct (N.ltb_spec (N.of_nat (pos s - start)) (N.of_nat total)) as [_|Hge]; [|lia].
      rewrite <- app_assoc in Hav. unfold bits_fragment.
      destruct (Hp s _ Hav) as (s1 & Hrun & Hpos & Harr & Hcl).
      rewrite (resume_pbind_done _ _ _ _ _ Hrun). cbn [add_bits_fragment pbind].
      pose proof (consumes_avail p s _ s1 Hav Hpos Harr) as Hav1.
      cbn [length] in Hn.
      destruct (IH n' (acc ++ bs) start total s1 tl ltac:(lia) Hav1 ltac:(lia) ltac:(lia)) as (s2 & Hrun2 & Hav2 & Hpos2 & Harr2 & Hcl2).
      exists s2. rewrite Hrun2. rewrite <- app_assoc. cbn [concat]. rewrite app_length.
      split; [reflexivity|]. split; [exact Hav2|]. split; [lia|]. split; congruence.
  Qed.

End LoopsDef.

Section LoopsIndef.
  Variable rec : spec -> tagset -> option (option N) -> bool -> bool -> proc dval.
  (* where end-of-contents octets are allowed the recursive entry point reports them *)
  Hypothesis rec_eoo : forall sp acc sfun s tl, avail s = 0 :: 0 :: tl ->
    resume (rec sp acc None true sfun) s = inr (Ok DEoo, adv s 2).

  Lemma octets_indef_loop_run proto sp ts : forall parts bss,
    Forall2 (oseg rec true) parts bss ->
    forall n acc s tl,
      (length parts < n)%nat -> avail s = concat parts ++ [0; 0] ++ tl ->
      exists s', resume (octets_indef_loop rec proto sp ts n acc) s
                 = resume (create sp proto ts (VOcts (acc ++ concat bss))) s'
        /\ avail s' = tl /\ pos s' = (pos s + (length (concat parts) + 2))%nat /\ arrived s' = arrived s /\ closed s' = closed s.
  Proof.
    intros parts bss HF. induction HF as [|p bs parts bss [Hp Hpl] HF IH]; intros n acc s tl Hn Hav.
    - destruct n as [|n']; [cbn [length] in Hn; lia|].
      cbn [octets_indef_loop]. unfold fragment. cbn [concat app] in Hav.
      rewrite (resume_pbind_done _ _ _ _ _ (rec_eoo _ _ _ s tl Hav)).
      exists (adv s 2). cbn [concat app]. rewrite app_nil_r. split; [reflexivity|].
      split; [rewrite avail_adv, Hav; reflexivity|]. repeat split.
    - destruct n as [|n']; [cbn [length] in Hn; lia|].
      cbn [octets_indef_loop]. unfold fragment. cbn [concat] in Hav. rewrite <- app_assoc in Hav.
      destruct (Hp s _ Hav) as (s1 & Hrun & Hpos & Harr & Hcl).
      rewrite (resume_pbind_done _ _ _ _ _ Hrun).
      pose proof (consumes_avail p s _ s1 Hav Hpos Harr) as Hav1.
      cbn [length] in Hn.
      destruct (IH n' (acc ++ bs) s1 tl ltac:(lia) Hav1) as (s2 & Hrun2 & Hav2 & Hpos2 & Harr2 & Hcl2).
      exists s2. rewrite Hrun2. rewrite <- app_assoc. cbn [concat]. rewrite !app_length in *.
      split; [reflexivity|]. split; [exact Hav2|]. split; [lia|]. split; congruence.
  Qed.

  Lemma bits_indef_loop_run sp ts : forall parts bss,
    Forall2 (bseg rec true) parts bss ->
    forall n acc s tl,
      (length parts < n)%nat -> avail s = concat parts ++ [0; 0] ++ tl ->
      exists s', resume (bits_indef_loop rec sp ts n acc) s
                 = resume (create sp TBits ts (VBits (acc ++ concat bss))) s'
        /\ avail s' = tl /\ pos s' = (pos s + (length (concat parts) + 2))%nat /\ arrived s' = arrived s /\ closed s' = closed s.
  Proof.
    intros parts bss HF. induction HF as [|p bs parts bss [Hp Hpl] HF IH]; intros n acc s tl Hn Hav.
    - destruct n as [|n']; [cbn [length] in Hn; lia|].
      cbn [bits_indef_loop]. unfold bits_fragment. cbn [concat app] in Hav.
      rewrite (resume_pbind_done _ _ _ _ _ (rec_eoo _ _ _ s tl Hav)).
      exists (adv s 2). cbn [concat app]. rewrite app_nil_r. split; [reflexivity|].
      split; [rewrite avail_adv, Hav; reflexivity|]. repeat split.
    - destruct n as [|n']; [cbn [length] in Hn; lia|].
      cbn [bits_indef_loop]. unfold bits_fragment. cbn [concat] in Hav. rewrite <- app_assoc in Hav.
      destruct (Hp s _ Hav) as (s1 & Hrun & Hpos & Harr & Hcl).
      rewrite (resume_pbind_done _ _ _ _ _ Hrun). cbn [add_bits_fragment pbind].
      pose proof (consumes_avail p s _ s1 Hav Hpos Harr) as Hav1.
      cbn [length] in Hn.
      destruct (IH n' (acc ++ bs) s1 tl ltac:(lia) Hav1) as (s2 & Hrun2 & Hav2 & Hpos2 & Harr2 & Hcl2).
      exists s2. rewrite Hrun2. rewrite <- app_assoc. cbn [concat]. rewrite !app_length in *.
      split; [reflexivity|]. split; [exact Hav2|]. split; [lia|]. split; congruence.
  Qed.

  Lemma listof_indef_loop_run T t : forall parts xs,
    Forall2 (elem rec t true) parts xs ->
    forall n acc start s tl,
      (length parts < n)%nat -> avail s = concat parts ++ [0; 0] ++ tl ->
      exists s', resume (listof_loop rec T t None start n acc) s = inr (Ok (DV T (VList (acc ++ xs))), s')
        /\ pos s' = (pos s + (length (concat parts) + 2))%nat /\ arrived s' = arrived s /\ closed s' = closed s.
  Proof.
    intros parts xs HF. induction HF as [|p x parts xs [Hp Hpl] HF IH]; intros n acc start s tl Hn Hav.
    - destruct n as [|n']; [cbn [length] in Hn; lia|].
      cbn [listof_loop]. cbv zeta. rewrite resume_tell. cbn [negb]. cbn [concat app] in Hav.
      rewrite (resume_pbind_done _ _ _ _ _ (rec_eoo _ _ _ s tl Hav)). cbn [resume].
      exists (adv s 2). rewrite app_nil_r. cbn [concat app length]. repeat split.
    - destruct n as [|n']; [cbn [length] in Hn; lia|].
      cbn [listof_loop]. cbv zeta. rewrite resume_tell. cbn [negb]. cbn [concat] in Hav. rewrite <- app_assoc in Hav.
      destruct (Hp s _ Hav) as (s1 & Hrun & Hpos & Harr & Hcl).
      rewrite (resume_pbind_done _ _ _ _ _ Hrun).
      pose proof (consumes_avail p s _ s1 Hav Hpos Harr) as Hav1.
      cbn [length] in Hn.
      destruct (IH n' (acc ++ [x]) start s1 tl ltac:(lia) Hav1) as (s2 & Hrun2 & Hpos2 & Harr2 & Hcl2).
      exists s2. rewrite Hrun2. rewrite <- app_assoc. cbn [app concat]. rewrite !app_length in *.
      split; [reflexivity|]. split; [lia|]. split; congruence.
  Qed.
End LoopsIndef.

From PV Require Proofs.RoundTrip2.

Section RecordIndef.
  Variable rec : spec -> tagset -> option (option N) -> bool -> bool -> proc dval.
  Variable lf : nat.
  Hypothesis rec_eoo : forall sp acc sfun s tl, avail s = 0 :: 0 :: tl ->
    resume (rec sp acc None true sfun) s = inr (Ok DEoo, adv s 2).

  Inductive fields_mem (allow: bool) : list (presence * ty) -> list bytes -> list val -> Prop :=
  | fm_nil : fields_mem allow [] [] []
  | fm_cons f p x fs ps xs : elem rec (snd f) allow p x -> fields_mem allow fs ps xs ->
                             fields_mem allow (f :: fs) (p :: ps) (x :: xs).

  Lemma fields_mem_def fs ps xs : fields_mem false fs ps xs -> RoundTrip2.fields_ok rec fs ps xs.
  Proof. intros H. induction H as [|f p x fs ps xs He _ IH]; constructor; [exact He|exact IH]. Qed.

  Lemma record_indef_loop_run T fs :
    forallb (fun f => is_req (fst f)) fs = true ->
    (match fs with [] => true | _ => false end) = false ->
    forall todo parts xs', fields_mem true todo parts xs' ->
    forall done vdone n start s tl,
      fs = done ++ todo -> length vdone = length done ->
      (length todo < n)%nat ->
      avail s = concat parts ++ [0; 0] ++ tl ->
      exists s', resume (record_loop rec lf T fs false None start n (length done)
                                     (map Some vdone ++ map (fun _ => None) todo) 0%nat) s
                 = inr (Ok (DV T (VRec (map Some (vdone ++ xs')))), s')
        /\ pos s' = (pos s + (length (concat parts) + 2))%nat /\ arrived s' = arrived s /\ closed s' = closed s.
  Proof.
    intros Hreq Hne todo parts xs' HF.
    induction HF as [|f p x' todo parts xs' [Hp Hpl] HF IH]; intros done vdone n start s tl Hfs Hvd Hn Hav.
    - destruct n as [|n']; [cbn [length] in Hn; lia|].
      cbn [record_loop]. cbv zeta. rewrite resume_tell. cbn [negb andb]. rewrite Hne.
      rewrite app_nil_r in Hfs. subst done.
      rewrite Nat.leb_refl. cbn [concat app] in Hav.
      rewrite (resume_pbind_done _ _ _ _ _ (rec_eoo _ _ _ s tl Hav)).
      cbn [map]. rewrite !app_nil_r. rewrite RoundTrip2.required_seen_all_some. cbn [resume].
      exists (adv s 2). cbn [concat length]. repeat split.
    - destruct n as [|n']; [cbn [length] in Hn; lia|].
      cbn [record_loop]. cbv zeta. rewrite resume_tell. cbn [negb andb]. rewrite Hne, Hreq.
      assert (Hidx: Nat.leb (length fs) (length done) = false).
      { apply Nat.leb_gt. rewrite Hfs, app_length. cbn [length]. lia. }
      rewrite Hidx. unfold seq_component_spec.
      assert (Hnth: nth_error fs (length done) = Some f) by (rewrite Hfs; apply RoundTrip2.nth_error_app_exact). rewrite Hnth.
      destruct f as [pr ft]. cbn [orb snd] in *.
      cbn [concat] in Hav. rewrite <- app_assoc in Hav.
      destruct (Hp s _ Hav) as (s1 & Hrun & Hpos & Harr & Hcl).
      rewrite (resume_pbind_done _ _ _ _ _ Hrun).
      pose proof (consumes_avail p s _ s1 Hav Hpos Harr) as Hav1.
      unfold seq_position. cbn [lift pbind]. rewrite Hidx.
      cbn [map].
      match goal with |- context [set_nth ?i ?x (?a ++ ?y :: ?b)] =>
        replace (set_nth i x (a ++ y :: b)) with (a ++ x :: b)
          by (symmetry; rewrite <- Hvd, <- (map_length Some vdone); apply RoundTrip2.set_nth_app) end.
      cbn [length] in Hn.
      assert (Hfs': fs = (done ++ [(pr, ft)]) ++ todo) by (rewrite <- app_assoc; exact Hfs).
      assert (Hvd': length (vdone ++ [x']) = length (done ++ [(pr, ft)])) by (rewrite !app_length; cbn [length]; lia).
      destruct (IH (done ++ [(pr, ft)]) (vdone ++ [x']) n' start s1 tl Hfs' Hvd' ltac:(lia) Hav1)
        as (s2 & Hrun2 & Hpos2 & Harr2 & Hcl2).
      rewrite app_length in Hrun2. cbn [length] in Hrun2. rewrite Nat.add_1_r in Hrun2.
      rewrite map_app in Hrun2. cbn [map] in Hrun2. rewrite <- app_assoc in Hrun2. cbn [app] in Hrun2.
      exists s2. rewrite Hrun2. rewrite <- app_assoc. cbn [app concat]. rewrite app_length.
      split; [reflexivity|]. split; [lia|]. split; congruence.
  Qed.

  Lemma dec_record_indef_consumes T fs parts xs' :
    forallb (fun f => is_req (fst f)) fs = true -> fields_mem true fs parts xs' -> (length fs < lf)%nat ->
    consumes (dec_record rec lf T fs false None) (concat parts ++ [0; 0]) (DV T (VRec (map Some xs'))).
  Proof.
    intros Hreq HF Hlf s tl Hav. unfold dec_record. rewrite resume_tell. rewrite <- app_assoc in Hav.
    destruct fs as [|f0 fs0].
    - inversion HF; subst. destruct lf as [|n]; [cbn [length] in Hlf; lia|].
      cbn [record_loop]. cbv zeta. rewrite resume_tell. cbn [negb]. cbn [concat app] in Hav.
      rewrite (resume_pbind_done _ _ _ _ _ (rec_eoo _ _ _ s tl Hav)). cbn [map resume].
      exists (adv s 2). repeat split.
    - destruct (record_indef_loop_run T (f0 :: fs0) Hreq eq_refl (f0 :: fs0) parts xs' HF [] [] lf (pos s)
                  s tl eq_refl eq_refl Hlf Hav) as (s' & Hrun & Hpos & Harr & Hcl).
      exists s'. split; [exact Hrun|]. rewrite app_length. cbn [length]. repeat split; assumption.
  Qed.
End RecordIndef.

(* ====================================================================== *)
(* 5. nodes against fuel; members of a constructed node                      *)
(* ====================================================================== *)

Definition nok (f: nat) (n: node) : Prop := shape n /\ octs (node_raw n) /\ fitsn f n.

Lemma kids_raw_cons k r : kids_raw (k :: r) = node_raw k ++ kids_raw r. Proof. reflexivity. Qed.

Lemma kids_raw_count kids : Forall shape kids -> (2 * length kids <= length (kids_raw kids))%nat.
Proof.
  induction 1 as [|k r Hk _ IH]; [cbn; lia|].
  rewrite kids_raw_cons, app_length. pose proof (shape_raw_len k Hk). cbn [length]. lia.
Qed.

Lemma kid_raw_len k kids : In k kids -> (length (node_raw k) <= length (kids_raw kids))%nat.
Proof.
  induction kids as [|x r IH]; intros H; [contradiction|].
  rewrite kids_raw_cons, app_length. destruct H as [->|H]; [lia|]. specialize (IH H). lia.
Qed.

Lemma kid_raw_octs k kids : octs (kids_raw kids) -> In k kids -> octs (node_raw k).
Proof.
  induction kids as [|x r IH]; intros Ho H; [contradiction|].
  rewrite kids_raw_cons in Ho. apply octs_app in Ho. destruct Ho as [H1 H2].
  destruct H as [->|H]; [exact H1|apply IH; assumption].
Qed.

(* what a constructed node gives its members *)
Lemma nok_kids f c num indef kids raw : nok f (Cons c num indef kids raw) ->
  exists f', f = S (S f') /\ (length kids <= f')%nat
    /\ Forall (fun k => nok f' k /\ (indef = true -> eoc_start (node_raw k) = false) /\ (0 < length (node_raw k))%nat) kids.
Proof.
  intros (Hsh & Ho & Hmax & Hf).
  pose proof Hsh as Hsh0. apply shape_cons in Hsh. destruct Hsh as (ib & lb & Hi & Hl & E & Hall).
  cbn [node_raw] in *. pose proof (hdr_len2 _ _ _ _ Hi Hl) as H2.
  assert (Hshk: Forall shape kids) by (apply Forall_forall; intros k Hk; rewrite Forall_forall in Hall; apply (Hall k Hk)).
  pose proof (kids_raw_count kids Hshk) as Hcnt.
  assert (Hlen: (length (ib ++ lb) + length (kids_raw kids) <= length raw)%nat).
  { rewrite E. rewrite !app_length. lia. }
  assert (Hok: octs (kids_raw kids)).
  { rewrite E in Ho. apply octs_app in Ho. destruct Ho as [_ Ho]. apply octs_app in Ho. destruct Ho as [_ Ho].
    apply octs_app in Ho. tauto. }
  destruct f as [|[|f']]; [lia|lia|]. exists f'. split; [reflexivity|]. split; [lia|].
  apply Forall_forall. intros k Hk. rewrite Forall_forall in Hall. destruct (Hall k Hk) as [Hks Hke].
  pose proof (kid_raw_len k kids Hk) as Hkl. pose proof (shape_raw_len k Hks) as Hk2.
  split; [|split; [exact Hke|lia]].
  split; [exact Hks|]. split; [apply (kid_raw_octs k kids Hok Hk)|]. split; lia.
Qed.

Lemma opt_all_Forall2 {A B} (g: A -> option B) : forall l r, opt_all (map g l) = Some r -> Forall2 (fun a b => g a = Some b) l r.
Proof.
  induction l as [|a l IH]; intros r H.
  - cbn in H. inversion H. constructor.
  - cbn [map opt_all] in H. destruct (g a) as [b|] eqn:Ea; [|discriminate H].
    destruct (opt_all (map g l)) as [r'|] eqn:Er; [|discriminate H]. cbn [opt_bind] in H. inversion H; subst.
    constructor; [exact Ea|apply IH; reflexivity].
Qed.

Lemma dec_call_eoo f : forall sp acc sfun s tl, avail s = 0 :: 0 :: tl ->
  resume (dec_call BER (S f) sp acc None true sfun) s = inr (Ok DEoo, adv s 2).
Proof. intros. apply (call_eoo f sp acc sfun s tl). assumption. Qed.

(* ---------- OCTET STRING and character strings: any segmentation (8.7.3, 8.23.6) ---------- *)

Lemma segments_inv fuel n bs : segments fuel n = Some bs ->
  (exists c raw, n = Prim Univ 4 c raw /\ bs = c)
  \/ (exists i kids raw l fuel', n = Cons Univ 4 i kids raw /\ fuel = S fuel'
        /\ opt_all (map (segments fuel') kids) = Some l /\ bs = concat l).
Proof.
  destruct fuel as [|fuel']; [discriminate|]. cbn [segments].
  destruct n as [c num contents raw|c num i kids raw]; destruct c; try discriminate;
    destruct num as [|[p|[p|[p|p|]|]|]]; try discriminate.
  - intros H. assert (E: contents = bs) by congruence. subst bs. left. exists contents, raw. split; reflexivity.
  - intros H. right. destruct (opt_all (map (segments fuel') kids)) as [l|] eqn:E; [|discriminate H].
    cbn [opt_bind] in H. assert (E2: concat l = bs) by congruence. subst bs.
    exists i, kids, raw, l, fuel'. split; [reflexivity|]. split; [reflexivity|]. split; [exact E|reflexivity].
Qed.

Lemma fits_of_body f n : fitsn f n -> shape n -> DecPrim.fits f (node_body n).
Proof.
  intros [Hmax Hf] Hsh. destruct (shape_split n Hsh) as (ib & lb & _ & _ & E). rewrite E in *.
  rewrite app_length in *. unfold DecPrim.fits. split; lia.
Qed.

Section OctetValue.
  Variables (f: nat) (T0 proto: ty) (fl: dec_flags) (ts: tagset) (sfun: bool).
  Hypothesis Hcreate : forall b, create (Some T0) proto ts (VOcts b) = Ret (DV T0 (VOcts b)).
  Hypothesis Hfl : df_constructed fl = true.

  Lemma octets_prim_value content :
    tag0_simple ts = true -> DecPrim.fits f content ->
    consumes (dec_octets (dec_call BER f) f proto fl (Some T0) ts (N.of_nat (length content)) sfun) content (DV T0 (VOcts content)).
  Proof. intros Hts Hfit. unfold dec_octets. rewrite Hts. apply consumes_ret; [exact Hfit|apply Hcreate]. Qed.

  Lemma octets_def_value parts bss :
    tag0_simple ts = false -> Forall2 (oseg (dec_call BER f) false) parts bss -> (length parts < f)%nat ->
    consumes (dec_octets (dec_call BER f) f proto fl (Some T0) ts (N.of_nat (length (concat parts))) sfun) (concat parts)
             (DV T0 (VOcts (concat bss))).
  Proof.
    intros Hts HF Hlf s tl Hav. unfold dec_octets. rewrite Hts, Hfl. cbn [negb]. rewrite resume_tell.
    destruct (octets_loop_run (dec_call BER f) proto (Some T0) ts parts bss HF f [] (pos s) (length (concat parts)) s tl Hlf Hav
                ltac:(lia) ltac:(lia)) as (s' & Hrun & _ & Hpos & Harr & Hcl).
    rewrite Hrun. cbn [app]. rewrite Hcreate. cbn [resume]. exists s'. repeat split; assumption.
  Qed.

  Lemma octets_indef_value f' parts bss :
    f = S f' -> Forall2 (oseg (dec_call BER f) true) parts bss -> (length parts < f)%nat ->
    consumes (dec_octets_indef (dec_call BER f) f proto (Some T0) ts) (concat parts ++ [0; 0]) (DV T0 (VOcts (concat bss))).
  Proof.
    intros Ef HF Hlf s tl Hav. unfold dec_octets_indef. rewrite <- app_assoc in Hav.
    assert (Heoo: forall sp acc sfun0 s0 tl0, avail s0 = 0 :: 0 :: tl0 ->
                  resume (dec_call BER f sp acc None true sfun0) s0 = inr (Ok DEoo, adv s0 2)).
    { rewrite Ef. apply dec_call_eoo. }
    destruct (octets_indef_loop_run (dec_call BER f) Heoo proto (Some T0) ts parts bss HF f [] s tl Hlf Hav)
      as (s' & Hrun & _ & Hpos & Harr & Hcl).
    rewrite Hrun. cbn [app]. rewrite Hcreate. cbn [resume]. exists s'. rewrite app_length. cbn [length].
    repeat split; assumption.
  Qed.
End OctetValue.

Lemma create_octs ts b : create (Some TOcts) TOcts ts (VOcts b) = Ret (DV TOcts (VOcts b)).
Proof. reflexivity. Qed.

Lemma wire_univ_tagset n u acc T0 :
  key (node_wire n) = u -> keys (tagset_of' T0) = u :: keys acc ->
  tagset_eqb (node_wire n :: acc) (tagset_of' T0) = true.
Proof. intros H1 H2. apply tagset_eqb_keys. cbn [keys map]. fold (keys acc). rewrite H1, H2. reflexivity. Qed.

Lemma tag0_simple_wire n acc : tag0_simple (node_wire n :: acc) = match n with Prim _ _ _ _ => true | Cons _ _ _ _ _ => false end.
Proof. destruct n; reflexivity. Qed.

(* segments built from the members' own runs *)
Lemma members_Forall2 {B} (P: node -> Prop) (g: node -> option B) (R: bytes -> B -> Prop) :
  forall kids l, Forall P kids -> Forall2 (fun k b => g k = Some b) kids l ->
  (forall k b, P k -> g k = Some b -> R (node_raw k) b) ->
  Forall2 R (map node_raw kids) l.
Proof.
  intros kids l HP HF Hstep. induction HF as [|k b kids l Hg HF IH]; [constructor|].
  inversion HP; subst. cbn [map]. constructor; [apply Hstep; assumption|apply IH; assumption].
Qed.

Lemma Forall_and {A} (P Q: A -> Prop) l : Forall P l -> Forall Q l -> Forall (fun x => P x /\ Q x) l.
Proof. intros HP HQ. induction HP; inversion HQ; subst; constructor; [split; assumption|auto]. Qed.

Lemma nok_mono f g n : nok f n -> (f <= g)%nat -> nok g n.
Proof. intros (H1 & H2 & H3 & H4) Hle. split; [exact H1|]. split; [exact H2|]. split; [exact H3|lia]. Qed.

(* Stage 4a: an OCTET STRING in any primitive / constructed / nested segmentation, definite or indefinite at
   every level, is read by the decoder (as a fragment or as a value) to the octets the reference joins *)
Theorem octet_string_item : forall n fuel bs f allow sfun,
  nok f n -> (allow = true -> eoc_start (node_raw n) = false) -> segments fuel n = Some bs ->
  consumes (dec_call BER (S f) (STy TOcts) [] None allow sfun) (node_raw n) (DV TOcts (VOcts bs)).
Proof.
  induction n as [c num contents raw|c num indef kids raw IH] using node_ind'; intros fuel bs f allow sfun Hok Heoc Hseg.
  - destruct (segments_inv _ _ _ Hseg) as [(c0 & raw0 & E & ->)|(i & kids & raw0 & l & fuel' & E & _)]; [|discriminate E].
    inversion E; subst c num c0 raw0. destruct Hok as (Hsh & Ho & Hfit).
    apply (item_of_value f TOcts [] _ allow sfun _ DcOcts (mkDecFlags true (Some KOcts)) Hsh Hfit Heoc); try reflexivity.
    cbn [node_len node_body node_wire dec_value base_of].
    apply octets_prim_value; [intros b; apply create_octs|reflexivity|apply (fits_of_body f _ Hfit Hsh)].
  - destruct (segments_inv _ _ _ Hseg) as [(c0 & raw0 & E & _)|(i & kids0 & raw0 & l & fuel' & E & _ & Hall & ->)]; [discriminate E|].
    inversion E; subst c num i kids0 raw0. clear E.
    destruct (nok_kids _ _ _ _ _ _ Hok) as (f' & -> & Hcnt & Hkids).
    destruct Hok as (Hsh & Ho & Hfit).
    apply (item_of_value (S (S f')) TOcts [] _ allow sfun _ DcOcts (mkDecFlags true (Some KOcts)) Hsh Hfit Heoc); try reflexivity.
    assert (HF: Forall2 (oseg (dec_call BER (S (S f'))) indef) (map node_raw kids) l).
    { apply (members_Forall2 _ (segments fuel') _ kids l (Forall_and _ _ _ IH Hkids) (opt_all_Forall2 _ _ _ Hall)).
      intros k b [IHk (Hk & Hke & Hkl)] Hg. split; [|exact Hkl].
      apply (IHk fuel' b (S f') indef true (nok_mono _ _ _ Hk (Nat.le_succ_diag_r f')) Hke Hg). }
    cbn [node_len node_body node_wire dec_value base_of]. unfold kids_raw.
    destruct indef.
    + rewrite <- (map_length node_raw kids) in Hcnt.
      apply (octets_indef_value (S (S f')) TOcts TOcts _ (fun b => create_octs _ b) (S f') _ _ eq_refl HF). lia.
    + rewrite app_nil_r. rewrite <- (map_length node_raw kids) in Hcnt.
      apply (octets_def_value (S (S f')) TOcts TOcts (mkDecFlags true (Some KOcts)) [mkTag Univ true 4] sfun (fun b => create_octs _ b) eq_refl _ _ eq_refl HF). lia.
Qed.

(* ---------- BIT STRING: any segmentation (8.6.4) ---------- *)

(* SIDE CONDITION (library defect, see bits_refuted_empty_constructed_bits below): the decoder refuses a
   definite-length constructed BIT STRING without segments (23 00).  [safe L n]: no definite-length
   constructed node without members carries one of the (class, number) pairs of L. *)
Definition is_nil {A} (l: list A) : bool := match l with [] => true | _ => false end.
Fixpoint safe (L: list (tclass * N)) (n: node) : bool :=
  match n with
  | Prim _ _ _ _ => true
  | Cons c num indef kids _ =>
      negb (negb indef && is_nil kids && existsb (tag_pair_eqb (c, num)) L) && forallb (safe L) kids
  end.

Lemma bit_segments_inv fuel n l : bit_segments fuel n = Some l ->
  (exists u c raw, n = Prim Univ 3 (u :: c) raw /\ N.ltb 7 u = false /\ l = [(bits_of_octets_spec c, u)])
  \/ (exists i kids raw ls fuel', n = Cons Univ 3 i kids raw /\ fuel = S fuel'
        /\ opt_all (map (bit_segments fuel') kids) = Some ls /\ l = concat ls).
Proof.
  destruct fuel as [|fuel']; [discriminate|]. cbn [bit_segments].
  destruct n as [c num contents raw|c num i kids raw]; destruct c; try discriminate;
    destruct num as [|[[p|p|]|p|]]; try discriminate.
  - destruct contents as [|u c]; [discriminate|]. destruct (N.ltb 7 u) eqn:E; [discriminate|].
    intros H. assert (E2: [(bits_of_octets_spec c, u)] = l) by congruence. subst l.
    left. exists u, c, raw. split; [reflexivity|]. split; [exact E|reflexivity].
  - intros H. right. destruct (opt_all (map (bit_segments fuel') kids)) as [ls|] eqn:E; [|discriminate H].
    cbn [opt_bind] in H. assert (E2: concat ls = l) by congruence. subst l.
    exists i, kids, raw, ls, fuel'. split; [reflexivity|]. split; [reflexivity|]. split; [exact E|reflexivity].
Qed.

Lemma join_cons2 bs u x r : join_bit_segments ((bs, u) :: x :: r) =
  if N.eqb u 0 then opt_bind (join_bit_segments (x :: r)) (fun y => Some (bs ++ y)) else None.
Proof. reflexivity. Qed.

Lemma join_app : forall l1 l2 bs, join_bit_segments (l1 ++ l2) = Some bs ->
  exists b1 b2, join_bit_segments l1 = Some b1 /\ join_bit_segments l2 = Some b2 /\ bs = b1 ++ b2.
Proof.
  induction l1 as [|[bits u] r IH]; intros l2 bs H.
  - exists [], bs. split; [reflexivity|]. split; [exact H|reflexivity].
  - destruct (r ++ l2) as [|x rest] eqn:Er.
    + apply app_eq_nil in Er. destruct Er as [-> ->]. rewrite app_nil_r in H.
      exists bs, []. split; [exact H|]. split; [reflexivity|rewrite app_nil_r; reflexivity].
    + cbn [app] in H. rewrite Er, join_cons2 in H.
      destruct (N.eqb_spec u 0) as [->|Hne]; [|discriminate H].
      rewrite <- Er in H.
      destruct (join_bit_segments (r ++ l2)) as [y|] eqn:Ey; [|discriminate H]. cbn [opt_bind] in H.
      destruct (IH l2 y Ey) as (b1 & b2 & H1 & H2 & ->).
      exists (bits ++ b1), b2. split; [|split; [exact H2|]].
      * destruct r as [|x' r'].
        -- cbn in H1. inversion H1; subst b1. cbn [join_bit_segments]. change (N.to_nat 0) with 0%nat.
           destruct (Nat.ltb_spec (length bits) 0) as [Hc|_]; [lia|]. rewrite Nat.sub_0_r, firstn_all, app_nil_r. reflexivity.
        -- rewrite join_cons2. cbn [N.eqb]. rewrite H1. reflexivity.
      * rewrite <- app_assoc. congruence.
Qed.

Lemma join_concat : forall ls bs, join_bit_segments (concat ls) = Some bs ->
  exists bss, Forall2 (fun l b => join_bit_segments l = Some b) ls bss /\ bs = concat bss.
Proof.
  induction ls as [|l ls IH]; intros bs H.
  - cbn in H. inversion H. exists []. split; [constructor|reflexivity].
  - cbn [concat] in H. destruct (join_app _ _ _ H) as (b1 & b2 & H1 & H2 & ->).
    destruct (IH b2 H2) as (bss & HF & ->). exists (b1 :: bss). split; [constructor; assumption|reflexivity].
Qed.

Lemma create_bits T0 ts x : create (Some T0) TBits ts (VBits x) = Ret (DV T0 (VBits x)).
Proof. unfold create. destruct (base_of T0); reflexivity. Qed.

Section BitsValue.
  Variables (f: nat) (T0: ty) (fl: dec_flags) (ts: tagset).
  Hypothesis Hfl : df_constructed fl = true.

  Lemma bits_def_value parts bss :
    tag0_simple ts = false -> Forall2 (bseg (dec_call BER f) false) parts bss -> (length parts < f)%nat ->
    length (concat parts) <> 0%nat ->
    consumes (dec_bits (dec_call BER f) f fl (Some T0) ts (N.of_nat (length (concat parts))) false) (concat parts)
             (DV T0 (VBits (concat bss))).
  Proof.
    intros Hts HF Hlf Hne s tl Hav. unfold dec_bits.
    destruct (N.eqb_spec (N.of_nat (length (concat parts))) 0) as [E|_]; [lia|].
    rewrite Hts, Hfl. cbn [negb]. rewrite resume_tell.
    destruct (bits_loop_run (dec_call BER f) (Some T0) ts parts bss HF f [] (pos s) (length (concat parts)) s tl Hlf Hav
                ltac:(lia) ltac:(lia)) as (s' & Hrun & _ & Hpos & Harr & Hcl).
    rewrite Hrun. cbn [app]. rewrite create_bits. cbn [resume]. exists s'. repeat split; assumption.
  Qed.

  Lemma bits_indef_value f' parts bss :
    f = S f' -> Forall2 (bseg (dec_call BER f) true) parts bss -> (length parts < f)%nat ->
    consumes (dec_bits_indef (dec_call BER f) f (Some T0) ts false) (concat parts ++ [0; 0]) (DV T0 (VBits (concat bss))).
  Proof.
    intros Ef HF Hlf s tl Hav. unfold dec_bits_indef. rewrite <- app_assoc in Hav.
    assert (Heoo: forall sp acc sfun0 s0 tl0, avail s0 = 0 :: 0 :: tl0 ->
                  resume (dec_call BER f sp acc None true sfun0) s0 = inr (Ok DEoo, adv s0 2)).
    { rewrite Ef. apply dec_call_eoo. }
    destruct (bits_indef_loop_run (dec_call BER f) Heoo (Some T0) ts parts bss HF f [] s tl Hlf Hav)
      as (s' & Hrun & _ & Hpos & Harr & Hcl).
    rewrite Hrun. cbn [app]. rewrite create_bits. cbn [resume]. exists s'. rewrite app_length. cbn [length].
    repeat split; assumption.
  Qed.
End BitsValue.

Lemma bits_prim_value f T0 fl ts u c bs :
  tag0_simple ts = true -> DecPrim.fits f (u :: c) -> N.ltb 7 u = false ->
  join_bit_segments [(bits_of_octets_spec c, u)] = Some bs ->
  consumes (dec_bits (dec_call BER f) f fl (Some T0) ts (N.of_nat (length (u :: c))) false) (u :: c) (DV T0 (VBits bs)).
Proof.
  intros Hts [Hmax Hf] Hu Hj s tl Hav. unfold dec_bits.
  destruct (N.eqb_spec (N.of_nat (length (u :: c))) 0) as [E|_]; [cbn [length] in E; lia|].
  rewrite Hts. rewrite (resume_read1 s u (c ++ tl) _ Hav). rewrite Hu.
  replace (N.of_nat (length (u :: c)) - 1) with (N.of_nat (length c)) by (cbn [length]; lia).
  assert (Hav1: avail (adv s 1) = c ++ tl) by (apply (avail_cons_adv _ _ _ Hav)).
  cbn [length] in Hmax, Hf.
  rewrite (resume_read_len f c tl (adv s 1) _ Hav1) by lia.
  rewrite (bits_leaf c u bs Hj). cbn [lift pbind]. rewrite create_bits. cbn [resume].
  exists (adv (adv s 1) (length c)). rewrite adv_adv. cbn [length]. split; [reflexivity|]. split; [rewrite pos_adv; lia|]. split; reflexivity.
Qed.

Lemma kids_raw_nonempty kids : Forall shape kids -> kids <> [] -> length (kids_raw kids) <> 0%nat.
Proof. intros H Hne. pose proof (kids_raw_count kids H). destruct kids; [congruence|]. cbn [length] in *. lia. Qed.

Lemma safe_kids L c num indef kids raw : safe L (Cons c num indef kids raw) = true -> Forall (fun k => safe L k = true) kids.
Proof.
  cbn [safe]. intros H. apply andb_true_iff in H. destruct H as [_ H]. apply Forall_forall. rewrite forallb_forall in H. exact H.
Qed.

(* Stage 4b: a BIT STRING in any segmentation is read to the bits the reference joins *)
Theorem bit_string_item : forall L, existsb (tag_pair_eqb (Univ, 3)) L = true ->
  forall n fuel l bs f allow,
  nok f n -> (allow = true -> eoc_start (node_raw n) = false) -> safe L n = true ->
  bit_segments fuel n = Some l -> join_bit_segments l = Some bs ->
  consumes (dec_call BER (S f) (STy TBits) [] None allow false) (node_raw n) (DV TBits (VBits bs)).
Proof.
  intros L HL.
  induction n as [c num contents raw|c num indef kids raw IH] using node_ind'; intros fuel l bs f allow Hok Heoc Hsafe Hseg Hjoin.
  - destruct (bit_segments_inv _ _ _ Hseg) as [(u & c0 & raw0 & E & Hu & ->)|(i & kids & raw0 & ls & fuel' & E & _)]; [|discriminate E].
    inversion E; subst c num contents raw0. destruct Hok as (Hsh & Ho & Hfit).
    apply (item_of_value f TBits [] _ allow false _ DcBits (mkDecFlags true (Some KBits)) Hsh Hfit Heoc); try reflexivity.
    cbn [node_len node_body node_wire dec_value].
    apply bits_prim_value; [reflexivity|apply (fits_of_body f _ Hfit Hsh)|exact Hu|exact Hjoin].
  - destruct (bit_segments_inv _ _ _ Hseg) as [(u & c0 & raw0 & E & _)|(i & kids0 & raw0 & ls & fuel' & E & _ & Hall & ->)]; [discriminate E|].
    inversion E; subst c num i kids0 raw0. clear E.
    destruct (nok_kids _ _ _ _ _ _ Hok) as (f' & -> & Hcnt & Hkids).
    destruct Hok as (Hsh & Ho & Hfit).
    destruct (join_concat _ _ Hjoin) as (bss & HJ & ->).
    apply (item_of_value (S (S f')) TBits [] _ allow false _ DcBits (mkDecFlags true (Some KBits)) Hsh Hfit Heoc); try reflexivity.
    pose proof (safe_kids _ _ _ _ _ _ Hsafe) as Hsk.
    assert (HF: Forall2 (bseg (dec_call BER (S (S f'))) indef) (map node_raw kids) bss).
    { pose proof (opt_all_Forall2 _ _ _ Hall) as H1.
      clear Hseg Hall Hjoin Hsh Ho Hfit Heoc Hsafe Hcnt.
      revert bss HJ. induction H1 as [|k lk kids ls Hk H1 IH1]; intros bss HJ.
      - inversion HJ. constructor.
      - inversion HJ as [|? bk ? bss' Hjk HJ']; subst.
        inversion IH as [|? ? IHk IHr]; subst. inversion Hkids as [|? ? (Hnk & Hke & Hkl) Hkr]; subst.
        inversion Hsk as [|? ? Hsk1 Hskr]; subst.
        cbn [map]. constructor; [|apply IH1; assumption].
        split; [|exact Hkl].
        apply (IHk fuel' lk bk (S f') indef (nok_mono _ _ _ Hnk (Nat.le_succ_diag_r f')) Hke Hsk1 Hk Hjk). }
    cbn [node_len node_body node_wire dec_value]. unfold kids_raw.
    rewrite <- (map_length node_raw kids) in Hcnt.
    destruct indef.
    + apply (bits_indef_value (S (S f')) TBits _ (S f') _ _ eq_refl HF). lia.
    + rewrite app_nil_r.
      apply (bits_def_value (S (S f')) TBits (mkDecFlags true (Some KBits)) [mkTag Univ true 3] eq_refl _ _ eq_refl HF); [lia|].
      fold (kids_raw kids). apply kids_raw_nonempty.
      * apply Forall_forall. intros k Hk. rewrite Forall_forall in Hkids. apply (Hkids k Hk).
      * intros ->. cbn [safe negb is_nil andb] in Hsafe. rewrite HL in Hsafe. discriminate Hsafe.
Qed.

(* the defect that makes the side condition necessary *)
Example bits_refuted_empty_constructed_bits :
  X690.read TBits [35; 0] = Some (ABits [], [])
  /\ decode BER (Some TBits) [35; 0] = Err EMalformed
  /\ decode BER (Some TBits) [35; 128; 0; 0] = Ok (DV TBits (VBits []), [])
  /\ X690.read TBits [35; 128; 35; 0; 3; 2; 1; 254; 0; 0] = Some (ABits [true; true; true; true; true; true; true], [])
  /\ decode BER (Some TBits) [35; 128; 35; 0; 3; 2; 1; 254; 0; 0] = Err EMalformed.
Proof. vm_compute. repeat split. Qed.

(* ====================================================================== *)
(* 6. the fragment of types; what interp accepts, per type                  *)
(* ====================================================================== *)

Definition latin1 (n: N) : bool := existsb (N.eqb n) [20; 21; 25; 27; 7].
Definition non_univ (t: tag) : bool := negb (cls_eqb (tcls t) Univ).

(* every simple type but REAL (character strings: those whose repertoire is all octets, so that the
   library has no reason of its own to refuse), SEQUENCE OF, SET OF, SEQUENCE of mandatory components,
   IMPLICIT and EXPLICIT tagging of any class but UNIVERSAL and any number, nested to any depth *)
Fixpoint frag (T: ty) : bool :=
  match T with
  | TBool | TInt | TEnum | TBits | TOcts | TNull | TOid => true
  | TStr n => latin1 n
  | TReal => false
  | TSeqOf t | TSetOf t => frag t
  | TSeq fs => forallb (fun f => is_req (fst f) && frag (snd f)) fs
  | TImp t x | TExp t x => non_univ t && frag x
  | TSet _ | TChoice _ | TAny => false
  end.

(* the (class, number) pairs under which a BIT STRING can appear in an encoding of T *)
Fixpoint bits_keys (T: ty) (e: option (tclass * N)) : list (tclass * N) :=
  match T with
  | TBits => [(Univ, 3); orkey e (Univ, 3)]
  | TImp t x => bits_keys x (Some (orkey e (key t)))
  | TExp t x => bits_keys x None
  | TSeqOf t | TSetOf t => bits_keys t None
  | TSeq fs | TSet fs => flat_map (fun f => bits_keys (snd f) None) fs
  | TChoice alts => flat_map (fun a => bits_keys a None) alts
  | _ => []
  end.

Lemma frag_facts : forall T, frag T = true -> wf_tags T = true /\ tagged_base T = true.
Proof.
  induction T as [| | | | | | | | n|fs IH|fs IH|t IH|t IH|alts IH| |tg x IH|tg x IH] using ty_ind'; intros H;
    try discriminate H; try (split; reflexivity).
  - cbn [frag] in H. apply andb_true_iff in H. destruct H as [Hn Hx]. destruct (IH Hx) as [Hw Hb].
    cbn [wf_tags]. unfold non_univ in Hn. rewrite Hn, Hw. split; [reflexivity|exact Hb].
  - cbn [frag] in H. apply andb_true_iff in H. destruct H as [Hn Hx]. destruct (IH Hx) as [Hw Hb].
    cbn [wf_tags]. unfold non_univ in Hn. rewrite Hn, Hw. split; [reflexivity|exact Hb].
Qed.

Lemma non_univ_cls t : non_univ t = true -> tcls t <> Univ.
Proof. unfold non_univ. destruct (tcls t); cbn; congruence. Qed.

Definition e_ok (e: option (tclass * N)) : Prop := match e with Some k => fst k <> Univ | None => True end.

Lemma interp_bool e n a : interp TBool e n = Some a ->
  exists c num o raw, n = Prim c num [o] raw /\ same_tag (orkey e (Univ, 1)) n = true /\ a = ABool (negb (N.eqb o 0)).
Proof.
  cbn [interp]. cbv zeta. destruct n as [c num contents raw|]; [|discriminate].
  destruct contents as [|o [|]]; try discriminate.
  change (match e with Some e0 => e0 | None => (Univ, 1) end) with (orkey e (Univ, 1)).
  destruct (same_tag (orkey e (Univ, 1)) (Prim c num [o] raw)) eqn:E; [|discriminate].
  intros H. exists c, num, o, raw. split; [reflexivity|]. split; [reflexivity|congruence].
Qed.

Lemma interp_int e n a : interp TInt e n = Some a ->
  exists c num o cs raw, n = Prim c num (o :: cs) raw /\ same_tag (orkey e (Univ, 2)) n = true /\ a = AInt (signed_value (o :: cs)).
Proof.
  cbn [interp]. cbv zeta. destruct n as [c num contents raw|]; [|discriminate].
  destruct contents as [|o cs]; try discriminate.
  change (match e with Some e0 => e0 | None => (Univ, 2) end) with (orkey e (Univ, 2)).
  destruct (same_tag (orkey e (Univ, 2)) (Prim c num (o :: cs) raw)) eqn:E; [|discriminate].
  intros H. exists c, num, o, cs, raw. split; [reflexivity|]. split; [reflexivity|congruence].
Qed.

Lemma interp_enum e n a : interp TEnum e n = Some a ->
  exists c num o cs raw, n = Prim c num (o :: cs) raw /\ same_tag (orkey e (Univ, 10)) n = true /\ a = AInt (signed_value (o :: cs)).
Proof.
  cbn [interp]. cbv zeta. destruct n as [c num contents raw|]; [|discriminate].
  destruct contents as [|o cs]; try discriminate.
  change (match e with Some e0 => e0 | None => (Univ, 10) end) with (orkey e (Univ, 10)).
  destruct (same_tag (orkey e (Univ, 10)) (Prim c num (o :: cs) raw)) eqn:E; [|discriminate].
  intros H. exists c, num, o, cs, raw. split; [reflexivity|]. split; [reflexivity|congruence].
Qed.

Lemma interp_null e n a : interp TNull e n = Some a ->
  exists c num raw, n = Prim c num [] raw /\ same_tag (orkey e (Univ, 5)) n = true /\ a = ANull.
Proof.
  cbn [interp]. cbv zeta. destruct n as [c num contents raw|]; [|discriminate].
  destruct contents as [|o cs]; try discriminate.
  change (match e with Some e0 => e0 | None => (Univ, 5) end) with (orkey e (Univ, 5)).
  destruct (same_tag (orkey e (Univ, 5)) (Prim c num [] raw)) eqn:E; [|discriminate].
  intros H. exists c, num, raw. split; [reflexivity|]. split; [reflexivity|congruence].
Qed.

Lemma interp_oid e n a : interp TOid e n = Some a ->
  exists c num cs raw arcs, n = Prim c num cs raw /\ same_tag (orkey e (Univ, 6)) n = true
                            /\ oid_value cs = Some arcs /\ a = AOid arcs.
Proof.
  cbn [interp]. cbv zeta. destruct n as [c num contents raw|]; [|discriminate].
  change (match e with Some e0 => e0 | None => (Univ, 6) end) with (orkey e (Univ, 6)).
  destruct (same_tag (orkey e (Univ, 6)) (Prim c num contents raw)) eqn:E; [|discriminate].
  destruct (oid_value contents) as [arcs|] eqn:Eo; [|discriminate]. cbn [opt_bind].
  intros H. exists c, num, contents, raw, arcs. split; [reflexivity|]. split; [reflexivity|]. split; [exact Eo|congruence].
Qed.

Definition as_univ (u: N) (n: node) : node :=
  match n with Prim _ _ c r => Prim Univ u c r | Cons _ _ i k r => Cons Univ u i k r end.

Lemma interp_bits e n a : interp TBits e n = Some a ->
  exists l bs, same_tag (orkey e (Univ, 3)) n = true
               /\ bit_segments (S (length (node_raw n))) (as_univ 3 n) = Some l
               /\ join_bit_segments l = Some bs /\ a = ABits bs.
Proof.
  cbn [interp]. cbv zeta.
  change (match e with Some e0 => e0 | None => (Univ, 3) end) with (orkey e (Univ, 3)).
  destruct (same_tag (orkey e (Univ, 3)) n) eqn:E; [|discriminate]. cbn [negb].
  change (match n with Prim _ _ c0 r0 => Prim Univ 3 c0 r0 | Cons _ _ i0 k0 r1 => Cons Univ 3 i0 k0 r1 end) with (as_univ 3 n).
  destruct (bit_segments (S (length (node_raw n))) (as_univ 3 n)) as [l|] eqn:El; [|discriminate]. cbn [opt_bind].
  destruct (join_bit_segments l) as [bs|] eqn:Ej; [|discriminate]. cbn [opt_bind].
  intros H. exists l, bs. split; [reflexivity|]. split; [reflexivity|]. split; [exact Ej|congruence].
Qed.

Lemma interp_octs e n a : interp TOcts e n = Some a ->
  exists bs, same_tag (orkey e (Univ, 4)) n = true
             /\ segments (S (length (node_raw n))) (as_univ 4 n) = Some bs /\ a = AOcts bs.
Proof.
  cbn [interp]. cbv zeta.
  change (match e with Some e0 => e0 | None => (Univ, 4) end) with (orkey e (Univ, 4)).
  destruct (same_tag (orkey e (Univ, 4)) n) eqn:E; [|discriminate]. cbn [negb].
  change (match n with Prim _ _ c0 r0 => Prim Univ 4 c0 r0 | Cons _ _ i0 k0 r1 => Cons Univ 4 i0 k0 r1 end) with (as_univ 4 n).
  destruct (segments (S (length (node_raw n))) (as_univ 4 n)) as [bs|] eqn:El; [|discriminate]. cbn [opt_bind].
  intros H. exists bs. split; [reflexivity|]. split; [reflexivity|congruence].
Qed.

Lemma interp_str u e n a : interp (TStr u) e n = Some a ->
  exists bs, same_tag (orkey e (Univ, u)) n = true
             /\ segments (S (length (node_raw n))) (as_univ 4 n) = Some bs /\ a = AOcts bs.
Proof.
  cbn [interp]. cbv zeta.
  change (match e with Some e0 => e0 | None => (Univ, u) end) with (orkey e (Univ, u)).
  destruct (same_tag (orkey e (Univ, u)) n) eqn:E; [|discriminate]. cbn [negb].
  change (match n with Prim _ _ c0 r0 => Prim Univ 4 c0 r0 | Cons _ _ i0 k0 r1 => Cons Univ 4 i0 k0 r1 end) with (as_univ 4 n).
  destruct (segments (S (length (node_raw n))) (as_univ 4 n)) as [bs|] eqn:El; [|discriminate]. cbn [opt_bind].
  intros H. exists bs. split; [reflexivity|]. split; [reflexivity|congruence].
Qed.

Lemma interp_imp t x e n : interp (TImp t x) e n = interp x (Some (orkey e (key t))) n.
Proof. cbn [interp]. destruct e; reflexivity. Qed.

Lemma interp_exp t x e n a : interp (TExp t x) e n = Some a ->
  exists c num i k raw, n = Cons c num i [k] raw /\ same_tag (orkey e (key t)) n = true /\ interp x None k = Some a.
Proof.
  cbn [interp]. destruct n as [|c num i kids raw]; [discriminate|].
  destruct kids as [|k [|]]; try discriminate.
  change (match e with Some e0 => e0 | None => (tcls t, tnum t) end) with (orkey e (key t)).
  destruct (same_tag (orkey e (key t)) (Cons c num i [k] raw)) eqn:E; [|discriminate].
  intros H. exists c, num, i, k, raw. split; [reflexivity|]. split; [reflexivity|exact H].
Qed.

Lemma interp_go_map t kids :
  (fix go (l: list node) := match l with [] => [] | k :: r => interp t None k :: go r end) kids = map (interp t None) kids.
Proof. induction kids as [|k r IH]; [reflexivity|]. cbn [map]. rewrite <- IH. reflexivity. Qed.

Lemma interp_seqof t e n a : interp (TSeqOf t) e n = Some a ->
  exists c num i kids raw l, n = Cons c num i kids raw /\ same_tag (orkey e (Univ, 16)) n = true
    /\ opt_all (map (interp t None) kids) = Some l /\ a = AList l.
Proof.
  cbn [interp]. cbv zeta. destruct n as [|c num i kids raw]; [discriminate|].
  change (match e with Some e0 => e0 | None => (Univ, 16) end) with (orkey e (Univ, 16)).
  destruct (same_tag (orkey e (Univ, 16)) (Cons c num i kids raw)) eqn:E; [|discriminate]. cbn [negb].
  rewrite interp_go_map.
  destruct (opt_all (map (interp t None) kids)) as [l|] eqn:El; [|discriminate]. cbn [opt_bind].
  intros H. exists c, num, i, kids, raw, l. split; [reflexivity|]. split; [reflexivity|]. split; [exact El|congruence].
Qed.

Lemma interp_setof t e n a : interp (TSetOf t) e n = Some a ->
  exists c num i kids raw l, n = Cons c num i kids raw /\ same_tag (orkey e (Univ, 17)) n = true
    /\ opt_all (map (interp t None) kids) = Some l /\ a = ABag l.
Proof.
  cbn [interp]. cbv zeta. destruct n as [|c num i kids raw]; [discriminate|].
  change (match e with Some e0 => e0 | None => (Univ, 17) end) with (orkey e (Univ, 17)).
  destruct (same_tag (orkey e (Univ, 17)) (Cons c num i kids raw)) eqn:E; [|discriminate]. cbn [negb].
  rewrite interp_go_map.
  destruct (opt_all (map (interp t None) kids)) as [l|] eqn:El; [|discriminate]. cbn [opt_bind].
  intros H. exists c, num, i, kids, raw, l. split; [reflexivity|]. split; [reflexivity|]. split; [exact El|congruence].
Qed.

(* ====================================================================== *)
(* 7. one item of each base type                                            *)
(* ====================================================================== *)

Lemma by_type_base' T : by_type BER T = by_type BER (base_of T).
Proof. apply RoundTrip1.by_type_base. Qed.

(* the tags read complete the tag set: hand over to the value decoder of the base type *)
Lemma base_item : forall T0 acc e u n f allow cd fl v,
  tagged_base T0 = true -> by_type BER (base_of T0) = Some (cd, fl) ->
  keys (tagset_of' T0) = [orkey e u] ++ keys acc -> same_tag (orkey e u) n = true ->
  nok f n -> (allow = true -> eoc_start (node_raw n) = false) ->
  consumes (dec_value (dec_call BER f) f cd fl (Some T0) (node_wire n :: acc) (node_len n) false) (node_body n) v ->
  consumes (dec_call BER (S f) (STy T0) acc None allow false) (node_raw n) v.
Proof.
  intros T0 acc e u n f allow cd fl v Htb Hby Hkeys Hsame (Hsh & Ho & Hfit) Heoc Hval.
  apply (item_of_value f T0 acc n allow false v cd fl Hsh Hfit Heoc).
  - apply (wire_univ_tagset n (orkey e u) acc T0 (same_tag_key _ _ Hsame) Hkeys).
  - rewrite (plain_of_tagged T0 Htb). reflexivity.
  - rewrite by_type_base'. exact Hby.
  - exact Hval.
Qed.

Lemma octs_body n : shape n -> octs (node_raw n) -> octs (node_body n).
Proof.
  intros Hsh Ho. destruct (shape_split n Hsh) as (ib & lb & _ & _ & E). rewrite E in Ho. apply octs_app in Ho. tauto.
Qed.

Lemma abs_base T v : abs T v = abs (base_of T) v. Proof. apply abs_wrappers. Qed.

(* what the induction over the type establishes: T is the part of the guiding type T0 still to be
   matched against node n, acc the tags read at the EXPLICIT levels above, e the (class, number) an
   IMPLICIT tag above substitutes for T's own outermost tag *)
Definition item_ok (T: ty) : Prop := forall T0 acc e n a f allow L,
  tagged_base T0 = true -> base_of T0 = base_of T ->
  keys (tagset_of' T0) = kets T e ++ keys acc -> e_ok e ->
  nok f n -> (allow = true -> eoc_start (node_raw n) = false) ->
  safe L n = true -> (forall k, In k (bits_keys T e) -> existsb (tag_pair_eqb k) L = true) ->
  interp T e n = Some a ->
  exists v, consumes (dec_call BER (S f) (STy T0) acc None allow false) (node_raw n) (DV T0 v) /\ abs T v = a.

Lemma item_bool : item_ok TBool.
Proof.
  intros T0 acc e n a f allow L Htb Hbase Hkeys He Hok Heoc Hsafe HL Hint.
  destruct (interp_bool _ _ _ Hint) as (c & num & o & raw & -> & Hsame & ->).
  exists (VBool (negb (Z.eqb (from_bytes_signed [o]) 0))). split.
  - apply (base_item T0 acc e (Univ, 1) _ f allow DcBoolBer (mkDecFlags true (Some KBool)) _ Htb); try assumption.
    + rewrite Hbase. reflexivity.
    + cbn [dec_value node_len node_body node_wire]. destruct Hok as (Hsh & Ho & Hfit).
      apply consumes_boolean; [reflexivity|apply (fits_of_body f _ Hfit Hsh)|exact Hbase].
  - cbn [abs]. f_equal. apply bool_leaf. destruct Hok as (Hsh & Ho & _).
    pose proof (octs_body _ Hsh Ho) as Hb. cbn [node_body] in Hb. apply octs_cons in Hb. tauto.
Qed.

Lemma item_int : item_ok TInt.
Proof.
  intros T0 acc e n a f allow L Htb Hbase Hkeys He Hok Heoc Hsafe HL Hint.
  destruct (interp_int _ _ _ Hint) as (c & num & o & cs & raw & -> & Hsame & ->).
  exists (VInt (from_bytes_signed (o :: cs))). destruct Hok as (Hsh & Ho & Hfit). split.
  - apply (base_item T0 acc e (Univ, 2) _ f allow DcInt (mkDecFlags true (Some KInt)) _ Htb); try assumption.
    + rewrite Hbase. reflexivity.
    + split; [exact Hsh|split; assumption].
    + cbn [dec_value node_len node_body node_wire df_proto].
      apply consumes_integer; [reflexivity|apply (fits_of_body f _ Hfit Hsh)|rewrite Hbase; exact I].
  - cbn [abs]. f_equal. symmetry. apply signed_value_is_from_bytes. apply octs_forallb. apply (octs_body _ Hsh Ho).
Qed.

Lemma item_enum : item_ok TEnum.
Proof.
  intros T0 acc e n a f allow L Htb Hbase Hkeys He Hok Heoc Hsafe HL Hint.
  destruct (interp_enum _ _ _ Hint) as (c & num & o & cs & raw & -> & Hsame & ->).
  exists (VInt (from_bytes_signed (o :: cs))). destruct Hok as (Hsh & Ho & Hfit). split.
  - apply (base_item T0 acc e (Univ, 10) _ f allow DcInt (mkDecFlags true (Some KInt)) _ Htb); try assumption.
    + rewrite Hbase. reflexivity.
    + split; [exact Hsh|split; assumption].
    + cbn [dec_value node_len node_body node_wire df_proto].
      apply consumes_integer; [reflexivity|apply (fits_of_body f _ Hfit Hsh)|rewrite Hbase; exact I].
  - cbn [abs]. f_equal. symmetry. apply signed_value_is_from_bytes. apply octs_forallb. apply (octs_body _ Hsh Ho).
Qed.

Lemma item_null : item_ok TNull.
Proof.
  intros T0 acc e n a f allow L Htb Hbase Hkeys He Hok Heoc Hsafe HL Hint.
  destruct (interp_null _ _ _ Hint) as (c & num & raw & -> & Hsame & ->).
  exists VNull. split; [|reflexivity].
  apply (base_item T0 acc e (Univ, 5) _ f allow DcNull (mkDecFlags true (Some KNull)) _ Htb); try assumption.
  - rewrite Hbase. reflexivity.
  - cbn [dec_value node_len node_body node_wire length]. change (N.of_nat 0) with 0.
    apply consumes_null; [reflexivity|rewrite Hbase; exact I].
Qed.

Lemma item_oid : item_ok TOid.
Proof.
  intros T0 acc e n a f allow L Htb Hbase Hkeys He Hok Heoc Hsafe HL Hint.
  destruct (interp_oid _ _ _ Hint) as (c & num & cs & raw & arcs & -> & Hsame & Hoid & ->).
  exists (VOid arcs). split; [|reflexivity]. destruct Hok as (Hsh & Ho & Hfit).
  apply (base_item T0 acc e (Univ, 6) _ f allow DcOid (mkDecFlags true (Some KOid)) _ Htb); try assumption.
  - rewrite Hbase. reflexivity.
  - split; [exact Hsh|split; assumption].
  - cbn [dec_value node_len node_body node_wire].
    apply consumes_oid; [reflexivity|apply (fits_of_body f _ Hfit Hsh)|exact Hbase|].
    apply oid_leaf; [apply (octs_body _ Hsh Ho)|exact Hoid].
Qed.

(* ---------- strings under the guiding type's own tags ---------- *)

Definition proto_str (T0: ty) : ty := match base_of T0 with TStr n => TStr n | _ => TOcts end.

Lemma string_value : forall f T0 cd fl acc n fuel bs,
  (cd = DcOcts \/ cd = DcStr) ->
  (forall ts b, create (Some T0) (proto_str T0) ts (VOcts b) = Ret (DV T0 (VOcts b))) -> df_constructed fl = true ->
  nok f n -> segments fuel (as_univ 4 n) = Some bs ->
  consumes (dec_value (dec_call BER f) f cd fl (Some T0) (node_wire n :: acc) (node_len n) false) (node_body n) (DV T0 (VOcts bs)).
Proof.
  intros f T0 cd fl acc n fuel bs Hcd Hcreate Hfl Hok Hseg.
  assert (Hdv: forall ts len, dec_value (dec_call BER f) f cd fl (Some T0) ts len false =
            match len with
            | Some l => dec_octets (dec_call BER f) f (proto_str T0) fl (Some T0) ts l false
            | None => dec_octets_indef (dec_call BER f) f (proto_str T0) (Some T0) ts
            end).
  { intros ts len. destruct Hcd as [-> | ->]; destruct len; reflexivity. }
  rewrite Hdv. clear Hdv.
  destruct n as [c num contents raw|c num indef kids raw]; cbn [as_univ] in Hseg.
  - destruct (segments_inv _ _ _ Hseg) as [(c0 & raw0 & E & ->)|(i & kids & raw0 & l & fuel' & E & _)]; [|discriminate E].
    inversion E; subst c0 raw0. destruct Hok as (Hsh & Ho & Hfit).
    cbn [node_len node_body node_wire].
    apply octets_prim_value; [intros b; apply Hcreate|reflexivity|apply (fits_of_body f _ Hfit Hsh)].
  - destruct (segments_inv _ _ _ Hseg) as [(c0 & raw0 & E & _)|(i & kids0 & raw0 & l & fuel' & E & _ & Hall & ->)]; [discriminate E|].
    inversion E; subst i kids0 raw0. clear E.
    destruct (nok_kids _ _ _ _ _ _ Hok) as (f' & -> & Hcnt & Hkids).
    assert (HF: Forall2 (oseg (dec_call BER (S (S f'))) indef) (map node_raw kids) l).
    { apply (members_Forall2 _ (segments fuel') _ kids l Hkids (opt_all_Forall2 _ _ _ Hall)).
      intros k b (Hk & Hke & Hkl) Hg. split; [|exact Hkl].
      apply (octet_string_item k fuel' b (S f') indef true (nok_mono _ _ _ Hk (Nat.le_succ_diag_r f')) Hke Hg). }
    cbn [node_len node_body node_wire]. unfold kids_raw.
    rewrite <- (map_length node_raw kids) in Hcnt.
    destruct indef.
    + apply (octets_indef_value (S (S f')) T0 (proto_str T0) _ (fun b => Hcreate _ b) (S f') _ _ eq_refl HF). lia.
    + rewrite app_nil_r.
      apply (octets_def_value (S (S f')) T0 (proto_str T0) fl (mkTag c true num :: acc) false (fun b => Hcreate _ b) Hfl _ _ eq_refl HF). lia.
Qed.

Lemma item_octs : item_ok TOcts.
Proof.
  intros T0 acc e n a f allow L Htb Hbase Hkeys He Hok Heoc Hsafe HL Hint.
  destruct (interp_octs _ _ _ Hint) as (bs & Hsame & Hseg & ->).
  exists (VOcts bs). split; [|reflexivity].
  apply (base_item T0 acc e (Univ, 4) _ f allow DcOcts (mkDecFlags true (Some KOcts)) _ Htb); try assumption.
  - rewrite Hbase. reflexivity.
  - apply (string_value f T0 DcOcts _ acc n (S (length (node_raw n))) bs (or_introl eq_refl)); [|reflexivity|exact Hok|exact Hseg].
    intros ts b. unfold proto_str, create. rewrite Hbase. reflexivity.
Qed.

Lemma str_ok_latin1 n b : latin1 n = true -> str_octets_ok n b = Some true.
Proof.
  unfold latin1. cbn [existsb]. intros H.
  repeat (apply orb_true_iff in H; destruct H as [H|H]); try discriminate H; apply N.eqb_eq in H; subst n; reflexivity.
Qed.

Lemma by_type_latin1 n : latin1 n = true -> by_type BER (TStr n) = Some (DcStr, mkDecFlags true (Some (KStr n))).
Proof.
  unfold latin1. cbn [existsb]. intros H.
  repeat (apply orb_true_iff in H; destruct H as [H|H]); try discriminate H; apply N.eqb_eq in H; subst n; reflexivity.
Qed.

Lemma item_str u : latin1 u = true -> item_ok (TStr u).
Proof.
  intros Hu T0 acc e n a f allow L Htb Hbase Hkeys He Hok Heoc Hsafe HL Hint.
  destruct (interp_str _ _ _ _ Hint) as (bs & Hsame & Hseg & ->).
  exists (VOcts bs). split; [|reflexivity].
  apply (base_item T0 acc e (Univ, u) _ f allow DcStr (mkDecFlags true (Some (KStr u))) _ Htb); try assumption.
  - rewrite Hbase. apply by_type_latin1. exact Hu.
  - apply (string_value f T0 DcStr _ acc n (S (length (node_raw n))) bs (or_intror eq_refl)); [|reflexivity|exact Hok|exact Hseg].
    intros ts b. unfold proto_str, create. rewrite Hbase. cbn [base_of]. rewrite (str_ok_latin1 u b Hu). reflexivity.
Qed.

(* ---------- BIT STRING under the guiding type's own tags ---------- *)

Lemma item_bits : item_ok TBits.
Proof.
  intros T0 acc e n a f allow L Htb Hbase Hkeys He Hok Heoc Hsafe HL Hint.
  destruct (interp_bits _ _ _ Hint) as (l & bs & Hsame & Hseg & Hjoin & ->).
  exists (VBits bs). split; [|reflexivity].
  assert (HL3: existsb (tag_pair_eqb (Univ, 3)) L = true) by (apply HL; left; reflexivity).
  assert (HLe: existsb (tag_pair_eqb (orkey e (Univ, 3))) L = true) by (apply HL; right; left; reflexivity).
  apply (base_item T0 acc e (Univ, 3) _ f allow DcBits (mkDecFlags true (Some KBits)) _ Htb); try assumption.
  - rewrite Hbase. reflexivity.
  - destruct n as [c num contents raw|c num indef kids raw]; cbn [as_univ] in Hseg.
    + destruct (bit_segments_inv _ _ _ Hseg) as [(u & c0 & raw0 & E & Hu & ->)|(i & kids & raw0 & ls & fuel' & E & _)]; [|discriminate E].
      inversion E; subst contents raw0. destruct Hok as (Hsh & Ho & Hfit).
      cbn [node_len node_body node_wire dec_value].
      apply bits_prim_value; [reflexivity|apply (fits_of_body f _ Hfit Hsh)|exact Hu|exact Hjoin].
    + destruct (bit_segments_inv _ _ _ Hseg) as [(u & c0 & raw0 & E & _)|(i & kids0 & raw0 & ls & fuel' & E & _ & Hall & ->)]; [discriminate E|].
      inversion E; subst i kids0 raw0. clear E.
      destruct (nok_kids _ _ _ _ _ _ Hok) as (f' & -> & Hcnt & Hkids).
      destruct (join_concat _ _ Hjoin) as (bss & HJ & ->).
      pose proof (safe_kids _ _ _ _ _ _ Hsafe) as Hsk.
      assert (HF: Forall2 (bseg (dec_call BER (S (S f'))) indef) (map node_raw kids) bss).
      { pose proof (opt_all_Forall2 _ _ _ Hall) as H1.
        clear Hseg Hall Hjoin Hok Heoc Hsafe Hcnt Hint Hsame.
        revert bss HJ. induction H1 as [|k lk kids ls Hk H1 IH1]; intros bss HJ.
        - inversion HJ. constructor.
        - inversion HJ as [|? bk ? bss' Hjk HJ']; subst.
          inversion Hkids as [|? ? (Hnk & Hke & Hkl) Hkr]; subst.
          inversion Hsk as [|? ? Hsk1 Hskr]; subst.
          cbn [map]. constructor; [|apply IH1; assumption].
          split; [|exact Hkl].
          apply (bit_string_item L HL3 k fuel' lk bk (S f') indef (nok_mono _ _ _ Hnk (Nat.le_succ_diag_r f')) Hke Hsk1 Hk Hjk). }
      cbn [node_len node_body node_wire dec_value]. unfold kids_raw.
      rewrite <- (map_length node_raw kids) in Hcnt.
      destruct indef.
      * apply (bits_indef_value (S (S f')) T0 _ (S f') _ _ eq_refl HF). lia.
      * rewrite app_nil_r.
        apply (bits_def_value (S (S f')) T0 (mkDecFlags true (Some KBits)) (mkTag c true num :: acc) eq_refl _ _ eq_refl HF); [lia|].
        fold (kids_raw kids). apply kids_raw_nonempty.
        -- apply Forall_forall. intros k Hk. rewrite Forall_forall in Hkids. apply (Hkids k Hk).
        -- intros ->. cbn [safe negb is_nil andb] in Hsafe.
           apply same_tag_key in Hsame. unfold key in Hsame. cbn [node_wire tcls tnum] in Hsame. rewrite Hsame, HLe in Hsafe. discriminate Hsafe.
Qed.

(* ---------- tagging ---------- *)

Lemma abs_imp t x v : abs (TImp t x) v = abs x v. Proof. destruct v; reflexivity. Qed.
Lemma abs_exp t x v : abs (TExp t x) v = abs x v. Proof. destruct v; reflexivity. Qed.

Lemma item_imp t x : non_univ t = true -> item_ok x -> item_ok (TImp t x).
Proof.
  intros Ht IH T0 acc e n a f allow L Htb Hbase Hkeys He Hok Heoc Hsafe HL Hint.
  rewrite interp_imp in Hint.
  destruct (IH T0 acc (Some (orkey e (key t))) n a f allow L Htb Hbase Hkeys) as (v & Hc & Ha); try assumption.
  - destruct e as [k0|]; [exact He|]. cbn [orkey e_ok key fst]. apply non_univ_cls. exact Ht.
  - exists v. split; [exact Hc|]. rewrite abs_imp. exact Ha.
Qed.

Lemma item_exp t x : non_univ t = true -> item_ok x -> item_ok (TExp t x).
Proof.
  intros Ht IH T0 acc e n a f allow L Htb Hbase Hkeys He Hok Heoc Hsafe HL Hint.
  destruct (interp_exp _ _ _ _ _ Hint) as (c & num & i & k & raw & -> & Hsame & Hint').
  destruct (nok_kids _ _ _ _ _ _ Hok) as (f' & -> & Hcnt & Hkids).
  inversion Hkids as [|? ? (Hnk & Hke & Hkl) _]; subst.
  pose proof (safe_kids _ _ _ _ _ _ Hsafe) as Hsk. inversion Hsk as [|? ? Hsk1 _]; subst.
  pose proof (same_tag_key _ _ Hsame) as Hkey. unfold key in Hkey at 1. cbn [node_wire tcls tnum] in Hkey.
  assert (Hc: c <> Univ).
  { destruct e as [k0|]; cbn [orkey] in Hkey.
    - cbn [e_ok] in He. rewrite <- Hkey in He. exact He.
    - unfold key in Hkey. inversion Hkey. apply non_univ_cls. exact Ht. }
  cbn [kets] in Hkeys.
  assert (Hkeys': keys (tagset_of' T0) = kets x None ++ keys (mkTag c true num :: acc)).
  { rewrite Hkeys, <- app_assoc. cbn [keys map app]. unfold key at 2. cbn [tcls tnum]. rewrite Hkey. reflexivity. }
  destruct (IH T0 (mkTag c true num :: acc) None k a (S f') i L Htb Hbase Hkeys' I
              (nok_mono _ _ _ Hnk (Nat.le_succ_diag_r f')) Hke Hsk1 HL Hint') as (v & Hcons & Ha).
  exists v. split; [|rewrite abs_exp; exact Ha].
  destruct Hok as (Hsh & Ho & Hfit).
  assert (Hmis: tagset_eqb (mkTag c true num :: acc) (tagset_of' T0) = false).
  { apply tagset_eqb_keys_false. intros E.
    apply (f_equal (@length _)) in Hkeys'. unfold keys in Hkeys'. rewrite app_length, !map_length in Hkeys'.
    pose proof (kets_nonempty x None) as Hne. destruct (kets x None); [congruence|]. cbn [length] in *. lia. }
  apply (item_of_explicit (S f') T0 acc c num i k raw allow (DV T0 v) Hsh Hfit Heoc Hmis
           (plain_map_contains T0 _ (plain_of_tagged T0 Htb) Hmis) Hc I Hcons).
Qed.

(* ---------- SEQUENCE OF / SET OF ---------- *)

Lemma listof_value f' T0 t cd fl acc c num i kids raw xs :
  (cd = DcSeqOf \/ cd = DcSetOf) -> (base_of T0 = TSeqOf t \/ base_of T0 = TSetOf t) ->
  Forall2 (elem (dec_call BER (S f')) t i) (map node_raw kids) xs -> (length kids < S f')%nat ->
  consumes (dec_value (dec_call BER (S f')) (S f') cd fl (Some T0) (mkTag c true num :: acc)
                      (node_len (Cons c num i kids raw)) false)
           (node_body (Cons c num i kids raw)) (DV T0 (VList xs)).
Proof.
  intros Hcd Hb HF Hlen.
  assert (Hdv: forall len, dec_value (dec_call BER (S f')) (S f') cd fl (Some T0) (mkTag c true num :: acc) len false
                           = dec_listof (dec_call BER (S f')) (S f') T0 t len).
  { intros len. destruct Hcd as [-> | ->]; cbn [dec_value tag0_cons tcon negb]; destruct Hb as [-> | ->]; reflexivity. }
  rewrite Hdv. clear Hdv. cbn [node_len node_body]. unfold kids_raw.
  rewrite <- (map_length node_raw kids) in Hlen.
  destruct i.
  - intros s tl Hav. unfold dec_listof. rewrite resume_tell. rewrite <- app_assoc in Hav.
    destruct (listof_indef_loop_run (dec_call BER (S f')) (dec_call_eoo f') T0 t _ _ HF (S f') [] (pos s) s tl Hlen Hav)
      as (s' & Hrun & Hpos & Harr & Hcl).
    exists s'. split; [exact Hrun|]. rewrite app_length. cbn [length]. repeat split; assumption.
  - rewrite app_nil_r. apply (RoundTrip2.dec_listof_consumes (dec_call BER (S f')) (S f') T0 t _ _ HF Hlen).
Qed.

Lemma kids_elems t (i: bool) f' L : item_ok t -> frag t = true ->
  (forall k, In k (bits_keys t None) -> existsb (tag_pair_eqb k) L = true) ->
  forall kids l,
  Forall (fun k => nok f' k /\ (i = true -> eoc_start (node_raw k) = false) /\ (0 < length (node_raw k))%nat) kids ->
  Forall (fun k => safe L k = true) kids ->
  Forall2 (fun k a => interp t None k = Some a) kids l ->
  exists xs, Forall2 (elem (dec_call BER (S (S f'))) t i) (map node_raw kids) xs /\ map (abs t) xs = l.
Proof.
  intros IH Hfr HL kids l Hkids Hsk HF.
  destruct (frag_facts t Hfr) as [Hw Htb].
  destruct (keys_kets t Hw Htb) as (ts & Hts & _ & Hk & _).
  assert (Hkeys: keys (tagset_of' t) = kets t None ++ keys []).
  { rewrite (RoundTrip1.tagset_of'_ok t ts Hts), Hk, app_nil_r. reflexivity. }
  induction HF as [|k a kids l Hint HF IHF].
  - exists []. split; [constructor|reflexivity].
  - inversion Hkids as [|? ? (Hnk & Hke & Hkl) Hkr]; subst. inversion Hsk as [|? ? Hs1 Hsr]; subst.
    destruct (IHF Hkr Hsr) as (xs & HFx & Hmap).
    destruct (IH t [] None k a (S f') i L Htb eq_refl Hkeys I (nok_mono _ _ _ Hnk (Nat.le_succ_diag_r f')) Hke Hs1 HL Hint)
      as (v & Hc & Ha).
    exists (v :: xs). split; [|cbn [map]; rewrite Ha, Hmap; reflexivity].
    cbn [map]. constructor; [|exact HFx]. split; [exact Hc|exact Hkl].
Qed.

Lemma item_seqof t : frag t = true -> item_ok t -> item_ok (TSeqOf t).
Proof.
  intros Hfr IH T0 acc e n a f allow L Htb Hbase Hkeys He Hok Heoc Hsafe HL Hint.
  destruct (interp_seqof _ _ _ _ Hint) as (c & num & i & kids & raw & l & -> & Hsame & Hall & ->).
  destruct (nok_kids _ _ _ _ _ _ Hok) as (f' & -> & Hcnt & Hkids).
  destruct (kids_elems t i f' L IH Hfr HL kids l Hkids (safe_kids _ _ _ _ _ _ Hsafe) (opt_all_Forall2 _ _ _ Hall))
    as (xs & HF & Hmap).
  exists (VList xs). split; [|cbn [abs]; rewrite Hmap; reflexivity].
  apply (base_item T0 acc e (Univ, 16) _ (S (S f')) allow DcSeqOf (mkDecFlags true (Some KSeqOf)) _ Htb); try assumption.
  - rewrite Hbase. reflexivity.
  - cbn [node_wire]. apply (listof_value (S f') T0 t DcSeqOf _ acc c num i kids raw xs (or_introl eq_refl) (or_introl Hbase) HF). lia.
Qed.

Lemma item_setof t : frag t = true -> item_ok t -> item_ok (TSetOf t).
Proof.
  intros Hfr IH T0 acc e n a f allow L Htb Hbase Hkeys He Hok Heoc Hsafe HL Hint.
  destruct (interp_setof _ _ _ _ Hint) as (c & num & i & kids & raw & l & -> & Hsame & Hall & ->).
  destruct (nok_kids _ _ _ _ _ _ Hok) as (f' & -> & Hcnt & Hkids).
  destruct (kids_elems t i f' L IH Hfr HL kids l Hkids (safe_kids _ _ _ _ _ _ Hsafe) (opt_all_Forall2 _ _ _ Hall))
    as (xs & HF & Hmap).
  exists (VList xs). split; [|cbn [abs]; rewrite Hmap; reflexivity].
  apply (base_item T0 acc e (Univ, 17) _ (S (S f')) allow DcSetOf (mkDecFlags true (Some KSetOf)) _ Htb); try assumption.
  - rewrite Hbase. reflexivity.
  - cbn [node_wire]. apply (listof_value (S f') T0 t DcSetOf _ acc c num i kids raw xs (or_intror eq_refl) (or_intror Hbase) HF). lia.
Qed.

(* ---------- SEQUENCE with mandatory components ---------- *)

Definition seq_go (interp_f: ty -> node -> option aval) : list (presence * ty) -> list node -> option (list (option aval)) :=
  fix go (fs: list (presence * ty)) (kids: list node) {struct fs} : option (list (option aval)) :=
    match fs with
    | [] => match kids with [] => Some [] | _ => None end
    | (p, ft) :: fs' =>
        let absent := match p with
                      | Req => None
                      | Opt => opt_bind (go fs' kids) (fun r => Some (None :: r))
                      | Def d => opt_bind (go fs' kids) (fun r => Some (Some (abs ft d) :: r))
                      end in
        match kids with
        | k :: kids' =>
            if may_start ft (node_tag k) then
              match interp_f ft k with
              | Some a => opt_bind (go fs' kids') (fun r => Some (Some a :: r))
              | None => None
              end
            else absent
        | [] => absent
        end
    end.

Lemma interp_seq fs e n a : interp (TSeq fs) e n = Some a ->
  exists c num i kids raw l, n = Cons c num i kids raw /\ same_tag (orkey e (Univ, 16)) n = true
    /\ seq_go (fun ft k => interp ft None k) fs kids = Some l /\ a = ARec l.
Proof.
  cbn [interp]. cbv zeta. destruct n as [|c num i kids raw]; [discriminate|].
  change (match e with Some e0 => e0 | None => (Univ, 16) end) with (orkey e (Univ, 16)).
  destruct (same_tag (orkey e (Univ, 16)) (Cons c num i kids raw)) eqn:E; [|discriminate]. cbn [negb].
  intros H.
  match type of H with opt_bind ?g _ = _ => destruct g as [l|] eqn:El; [|discriminate H] end.
  cbn [opt_bind] in H. exists c, num, i, kids, raw, l. split; [reflexivity|]. split; [reflexivity|]. split; [exact El|congruence].
Qed.

Inductive fields_interp : list (presence * ty) -> list node -> list aval -> Prop :=
| fi_nil : fields_interp [] [] []
| fi_cons p ft fs k kids a az : interp ft None k = Some a -> fields_interp fs kids az ->
                                fields_interp ((p, ft) :: fs) (k :: kids) (a :: az).

Lemma seq_go_req : forall fs kids l, forallb (fun f => is_req (fst f)) fs = true ->
  seq_go (fun ft k => interp ft None k) fs kids = Some l ->
  exists az, l = map Some az /\ fields_interp fs kids az.
Proof.
  induction fs as [|[p ft] fs IH]; intros kids l Hreq H.
  - cbn [seq_go] in H. destruct kids; [|discriminate H]. inversion H. exists []. split; [reflexivity|constructor].
  - cbn [forallb fst] in Hreq. apply andb_true_iff in Hreq. destruct Hreq as [Hp Hreq].
    destruct p; try discriminate Hp. cbn [seq_go] in H. cbv zeta in H.
    destruct kids as [|k kids]; [discriminate H|].
    destruct (may_start ft (node_tag k)); [|discriminate H].
    destruct (interp ft None k) as [a|] eqn:Ea; [|discriminate H].
    fold (seq_go (fun ft k => interp ft None k)) in H.
    destruct (seq_go (fun ft k => interp ft None k) fs kids) as [r|] eqn:Er; [|discriminate H].
    cbn [opt_bind] in H. inversion H; subst l.
    destruct (IH kids r Hreq Er) as (az & -> & Hf). exists (a :: az). split; [reflexivity|constructor; assumption].
Qed.

Lemma fields_elems (i: bool) f' L : forall fs kids az,
  Forall (fun f => item_ok (snd f)) fs -> forallb (fun f => frag (snd f)) fs = true ->
  (forall k, In k (flat_map (fun f => bits_keys (snd f) None) fs) -> existsb (tag_pair_eqb k) L = true) ->
  Forall (fun k => nok f' k /\ (i = true -> eoc_start (node_raw k) = false) /\ (0 < length (node_raw k))%nat) kids ->
  Forall (fun k => safe L k = true) kids ->
  fields_interp fs kids az ->
  exists xs, fields_mem (dec_call BER (S (S f'))) i fs (map node_raw kids) xs
             /\ RoundTrip2.abs_fields fs (map Some xs) = map Some az.
Proof.
  intros fs kids az HIH Hfr HL Hkids Hsk HF.
  induction HF as [|p ft fs k kids a az Hint HF IHF].
  - exists []. split; [constructor|reflexivity].
  - inversion HIH as [|? ? IH1 IHr]; subst. cbn [snd] in IH1.
    cbn [forallb snd] in Hfr. apply andb_true_iff in Hfr. destruct Hfr as [Hfr1 Hfrr].
    inversion Hkids as [|? ? (Hnk & Hke & Hkl) Hkr]; subst. inversion Hsk as [|? ? Hs1 Hsr]; subst.
    cbn [flat_map snd] in HL.
    destruct (IHF IHr Hfrr (fun k0 Hk0 => HL k0 (in_or_app _ _ _ (or_intror Hk0))) Hkr Hsr) as (xs & HFx & Habs).
    destruct (frag_facts ft Hfr1) as [Hw Htb].
    destruct (keys_kets ft Hw Htb) as (ts & Hts & _ & Hk & _).
    assert (Hkeys: keys (tagset_of' ft) = kets ft None ++ keys []).
    { rewrite (RoundTrip1.tagset_of'_ok ft ts Hts), Hk, app_nil_r. reflexivity. }
    destruct (IH1 ft [] None k a (S f') i L Htb eq_refl Hkeys I (nok_mono _ _ _ Hnk (Nat.le_succ_diag_r f')) Hke Hs1
                (fun k0 Hk0 => HL k0 (in_or_app _ _ _ (or_introl Hk0))) Hint) as (v & Hc & Ha).
    exists (v :: xs). split.
    + cbn [map]. constructor; [|exact HFx]. split; [exact Hc|exact Hkl].
    + cbn [map RoundTrip2.abs_fields]. fold RoundTrip2.abs_fields. rewrite Ha, Habs. reflexivity.
Qed.

Lemma fields_interp_length fs kids az : fields_interp fs kids az -> length fs = length kids.
Proof. induction 1; [reflexivity|cbn [length]; congruence]. Qed.

Lemma record_value f' T0 fs fl acc c num i kids raw xs :
  base_of T0 = TSeq fs -> forallb (fun f => is_req (fst f)) fs = true ->
  fields_mem (dec_call BER (S f')) i fs (map node_raw kids) xs -> (length fs < S f')%nat ->
  consumes (dec_value (dec_call BER (S f')) (S f') DcSeq fl (Some T0) (mkTag c true num :: acc)
                      (node_len (Cons c num i kids raw)) false)
           (node_body (Cons c num i kids raw)) (DV T0 (VRec (map Some xs))).
Proof.
  intros Hb Hreq HF Hlen.
  assert (Hdv: forall len, dec_value (dec_call BER (S f')) (S f') DcSeq fl (Some T0) (mkTag c true num :: acc) len false
                           = dec_record (dec_call BER (S f')) (S f') T0 fs false len).
  { intros len. cbn [dec_value tag0_cons tcon negb]. rewrite Hb. reflexivity. }
  rewrite Hdv. clear Hdv. cbn [node_len node_body]. unfold kids_raw.
  destruct i.
  - apply (dec_record_indef_consumes (dec_call BER (S f')) (S f') (dec_call_eoo f') T0 fs _ _ Hreq HF Hlen).
  - rewrite app_nil_r.
    apply (RoundTrip2.dec_record_consumes (dec_call BER (S f')) (S f') T0 fs _ _ Hreq (fields_mem_def _ _ _ _ HF) Hlen).
Qed.

Lemma item_seq fs : forallb (fun f => is_req (fst f) && frag (snd f)) fs = true ->
  Forall (fun f => item_ok (snd f)) fs -> item_ok (TSeq fs).
Proof.
  intros Hfs IH T0 acc e n a f allow L Htb Hbase Hkeys He Hok Heoc Hsafe HL Hint.
  assert (Hreq: forallb (fun f => is_req (fst f)) fs = true /\ forallb (fun f => frag (snd f)) fs = true).
  { clear -Hfs. induction fs as [|x fs IHf]; [split; reflexivity|].
    cbn [forallb] in *. apply andb_true_iff in Hfs. destruct Hfs as [H1 H2]. apply andb_true_iff in H1. destruct H1 as [Ha Hb].
    destruct (IHf H2) as [H3 H4]. rewrite Ha, Hb, H3, H4. split; reflexivity. }
  destruct Hreq as [Hreq Hfrs].
  destruct (interp_seq _ _ _ _ Hint) as (c & num & i & kids & raw & l & -> & Hsame & Hgo & ->).
  destruct (seq_go_req fs kids l Hreq Hgo) as (az & -> & Hfi).
  destruct (nok_kids _ _ _ _ _ _ Hok) as (f' & -> & Hcnt & Hkids).
  destruct (fields_elems i f' L fs kids az IH Hfrs HL Hkids (safe_kids _ _ _ _ _ _ Hsafe) Hfi) as (xs & HF & Habs).
  exists (VRec (map Some xs)). split; [|rewrite RoundTrip2.abs_seq, Habs; reflexivity].
  apply (base_item T0 acc e (Univ, 16) _ (S (S f')) allow DcSeq (mkDecFlags true (Some KSeq)) _ Htb); try assumption.
  - rewrite Hbase. reflexivity.
  - cbn [node_wire]. apply (record_value (S f') T0 fs _ acc c num i kids raw xs Hbase Hreq HF).
    rewrite (fields_interp_length _ _ _ Hfi). lia.
Qed.

(* ====================================================================== *)
(* 8. every type of the fragment                                            *)
(* ====================================================================== *)

Theorem all_items : forall T, frag T = true -> item_ok T.
Proof.
  induction T as [| | | | | | | | n|fs IH|fs IH|t IH|t IH|alts IH| |tg x IH|tg x IH] using ty_ind'; intros Hfr;
    try discriminate Hfr.
  - exact item_bool.
  - exact item_int.
  - exact item_enum.
  - exact item_bits.
  - exact item_octs.
  - exact item_null.
  - exact item_oid.
  - apply item_str. exact Hfr.
  - cbn [frag] in Hfr. apply item_seq; [exact Hfr|].
    clear -IH Hfr. induction IH as [|x fs Hx _ IHf]; [constructor|].
    cbn [forallb] in Hfr. apply andb_true_iff in Hfr. destruct Hfr as [H1 H2]. apply andb_true_iff in H1. destruct H1 as [_ Hb].
    constructor; [apply Hx; exact Hb|apply IHf; exact H2].
  - apply item_seqof; [exact Hfr|apply IH; exact Hfr].
  - apply item_setof; [exact Hfr|apply IH; exact Hfr].
  - cbn [frag] in Hfr. apply andb_true_iff in Hfr. destruct Hfr as [H1 H2]. apply item_imp; [exact H1|apply IH; exact H2].
  - cbn [frag] in Hfr. apply andb_true_iff in Hfr. destruct Hfr as [H1 H2]. apply item_exp; [exact H1|apply IH; exact H2].
Qed.

Lemma decode_is_decode_with c sp b : decode c sp b = decode_with c (dec_fuel sp b) sp b.
Proof. reflexivity. Qed.

(* SIDE CONDITION to drop once the library accepts 23 00: no definite-length constructed node without
   members under a (class, number) a BIT STRING of T can carry *)
Definition no_empty_constructed_bits (T: ty) (n: node) : bool := safe (bits_keys T None) n.

(* C09, tree form: whatever TLV tree the reference parses off the front of b and interprets under T as
   the abstract value a, the library's decoder returns a value of T with that abstract value and leaves
   the same remainder *)
Theorem ber_all_forms_tree : forall T b n a tl,
  frag T = true -> wf_bytes b = true -> N.of_nat (length b) <= index_max ->
  parse b = Some (n, tl) -> interp T None n = Some a -> no_empty_constructed_bits T n = true ->
  exists v, decode BER (Some T) b = Ok (DV T v, tl) /\ abs T v = a.
Proof.
  intros T b n a tl Hfr Hwf Hmax Hparse Hint Hsafe.
  pose proof (wf_bytes_octs b Hwf) as Hb.
  destruct (parse_shape b n tl Hb Hparse) as [Hsh Eb].
  destruct (frag_facts T Hfr) as [Hw Htb].
  destruct (keys_kets T Hw Htb) as (ts & Hts & _ & Hk & _).
  assert (Hkeys: keys (tagset_of' T) = kets T None ++ keys []).
  { rewrite (RoundTrip1.tagset_of'_ok T ts Hts), Hk, app_nil_r. reflexivity. }
  set (f := (2 * length b + 2 * ty_depth T + 5)%nat).
  assert (Hok: nok f n).
  { split; [exact Hsh|]. split; [rewrite Eb in Hb; apply octs_app in Hb; tauto|].
    assert (Hl: (length (node_raw n) <= length b)%nat) by (rewrite Eb, app_length; lia).
    split; [lia|subst f; lia]. }
  destruct (all_items T Hfr T [] None n a f false (bits_keys T None) Htb eq_refl Hkeys I Hok ltac:(discriminate) Hsafe
              ltac:(intros k Hk0; apply existsb_exists; exists k; split; [exact Hk0|
                      unfold tag_pair_eqb; rewrite !N.eqb_refl; reflexivity]) Hint) as (v & Hc & Ha).
  exists v. split; [|exact Ha].
  rewrite decode_is_decode_with. rewrite Eb at 2.
  apply RoundTrip1.consumes_decode_with. unfold dec_item, dec_fuel.
  replace (2 * length b + 2 * ty_depth T + 6)%nat with (S f) by (subst f; lia). exact Hc.
Qed.

(* C09 in the shape of the property: read = parse + interp *)
Theorem ber_all_forms : forall T b a tl,
  frag T = true -> wf_bytes b = true -> N.of_nat (length b) <= index_max ->
  X690.read T b = Some (a, tl) ->
  (forall n r, parse b = Some (n, r) -> no_empty_constructed_bits T n = true) ->
  exists v, decode BER (Some T) b = Ok (DV T v, tl) /\ abs T v = a.
Proof.
  intros T b a tl Hfr Hwf Hmax Hread Hsafe. unfold X690.read in Hread.
  destruct (parse b) as [[n rest]|] eqn:Hp; [|discriminate Hread].
  destruct (interp T None n) as [a'|] eqn:Hi; [|discriminate Hread]. cbn [opt_bind] in Hread.
  inversion Hread; subst a' rest.
  apply (ber_all_forms_tree T b n a tl Hfr Hwf Hmax Hp Hi (Hsafe n tl eq_refl)).
Qed.

(* types in which no BIT STRING occurs need no side condition *)
Lemma safe_nil : forall n, safe [] n = true.
Proof.
  induction n as [c num contents raw|c num indef kids raw IH] using node_ind'; [reflexivity|].
  cbn [safe existsb]. rewrite andb_false_r. cbn [negb andb]. apply forallb_forall. intros k Hk.
  rewrite Forall_forall in IH. apply IH. exact Hk.
Qed.

Theorem ber_all_forms_no_bits : forall T b a tl,
  frag T = true -> bits_keys T None = [] -> wf_bytes b = true -> N.of_nat (length b) <= index_max ->
  X690.read T b = Some (a, tl) ->
  exists v, decode BER (Some T) b = Ok (DV T v, tl) /\ abs T v = a.
Proof.
  intros T b a tl Hfr Hnb Hwf Hmax Hread. apply (ber_all_forms T b a tl Hfr Hwf Hmax Hread).
  intros n r _. unfold no_empty_constructed_bits. rewrite Hnb. apply safe_nil.
Qed.

(* the hypotheses are satisfiable on an input that uses the liberties of the basic rules: indefinite
   and definite lengths mixed, a long-form length for one octet, over-long length octets, a long-form
   tag number, a segmented BIT STRING with a nested constructed segment under an IMPLICIT tag, a
   constructed character string, TRUE as 07, octets left unread *)
Definition ex_T : ty :=
  TSeq [(Req, TExp (mkTag Ctx false 0) TInt); (Req, TImp (mkTag Appl false 40) TBits); (Req, TSeqOf (TStr 20)); (Req, TBool)].
Definition ex_b : bytes :=
  [48; 128;  160; 128; 2; 129; 1; 5; 0; 0;   127; 40; 128; 3; 2; 0; 170; 35; 4; 3; 2; 4; 240; 0; 0;
   48; 131; 0; 0; 5; 52; 3; 4; 1; 200;  1; 1; 7;  0; 0;  9; 9].

Example ber_all_forms_nonvacuous :
  frag ex_T = true /\ wf_bytes ex_b = true /\ N.of_nat (length ex_b) <= index_max
  /\ X690.read ex_T ex_b
     = Some (ARec [Some (AInt 5); Some (ABits [true; false; true; false; true; false; true; false; true; true; true; true]);
                   Some (AList [AOcts [200]]); Some (ABool true)], [9; 9])
  /\ (forall n r, parse ex_b = Some (n, r) -> no_empty_constructed_bits ex_T n = true)
  /\ decode BER (Some ex_T) ex_b
     = Ok (DV ex_T (VRec [Some (VInt 5); Some (VBits [true; false; true; false; true; false; true; false; true; true; true; true]);
                          Some (VList [VOcts [200]]); Some (VBool true)]), [9; 9]).
Proof.
  split; [vm_compute; reflexivity|]. split; [vm_compute; reflexivity|]. split; [vm_compute; discriminate|].
  split; [vm_compute; reflexivity|]. split; [|vm_compute; reflexivity].
  intros n r H. assert (E: parse ex_b <> None) by (rewrite H; discriminate).
  revert H. destruct (parse ex_b) as [[n0 r0]|] eqn:Hp; [|congruence].
  intros H. inversion H; subst n0 r0. clear H E.
  assert (Hc: match parse ex_b with Some (n1, _) => no_empty_constructed_bits ex_T n1 | None => false end = true)
    by (vm_compute; reflexivity).
  rewrite Hp in Hc. exact Hc.
Qed.

Print Assumptions split_ident_dec_ident.
Print Assumptions split_length_dec_len.
Print Assumptions parse_one_shape.
Print Assumptions oid_leaf.
Print Assumptions octet_string_item.
Print Assumptions bit_string_item.
Print Assumptions all_items.
Print Assumptions ber_all_forms_tree.
Print Assumptions ber_all_forms.
Print Assumptions ber_all_forms_no_bits.

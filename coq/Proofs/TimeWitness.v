(* C20: executable witnesses (findings F11, F12, F27, the UTCTime year window, the millisecond
   convention) and the facts read off the regenerated codec tables. *)
From PV Require Import Base.Bytes Spec.X680Time Model.Time Gen.Tables Proofs.TimeText Proofs.TimeEnc Proofs.TimeRoundTrip.
Local Open Scope N_scope.

(* the full statements, as the property words them *)
Definition roundtrip_full (from: tkind -> dt -> text) : Prop :=
  forall k d, valid_dt d = true -> in_domain k d = true ->
  exists d', as_dt k (from k d) = Ok d' /\ dt_instant d' = dt_instant d /\ off d' = Some (dt_offset d).

Definition canonical_full : Prop :=
  forall a b tt s s' i, time_enc a b s = Ok s' -> instant tt s = Some i ->
  canonical s' = true /\ instant tt s' = Some i.

Theorem roundtrip_full_holds : roundtrip_full from_dt.
Proof.
  intros k d Hv Hd. destruct (roundtrip k d Hv Hd) as (d' & A & B & _ & D).
  exists d'. repeat split; assumption.
Qed.

(* ---- F11: the offset text before the fix ---- *)

(* 2017-07-11T00:01:02.003-01:00 was written '...+2300' and came back with offset +23:00 *)
Definition w_neg : dt := mkDT 2017 7 11 0 1 2 3000 (Some (-60)%Z).
(* 2017-07-11T00:01:02.003+01:30 was written '...+011800' and is refused *)
Definition w_half : dt := mkDT 2017 7 11 0 1 2 3000 (Some 90%Z).

Lemma unfixed_negative_offset :
  valid_dt w_neg = true /\ in_domain GenT w_neg = true /\ f11_free (off w_neg) = false
  /\ from_dt_unfixed GenT w_neg = [50;48;49;55;48;55;49;49;48;48;48;49;48;50;46;51;43;50;51;48;48]
  /\ as_dt GenT (from_dt_unfixed GenT w_neg) = Ok (mkDT 2017 7 11 0 1 2 3000 (Some 1380%Z)).
Proof. repeat split; vm_compute; reflexivity. Qed.

Lemma unfixed_half_hour_offset :
  valid_dt w_half = true /\ in_domain UtcT (mkDT 2017 7 11 0 1 2 0 (Some 90%Z)) = true
  /\ f11_free (off w_half) = false
  /\ from_dt_unfixed GenT w_half = [50;48;49;55;48;55;49;49;48;48;48;49;48;50;46;51;43;48;49;49;56;48;48]
  /\ as_dt GenT (from_dt_unfixed GenT w_half) = Err EMalformed
  /\ as_dt UtcT (from_dt_unfixed UtcT (mkDT 2017 7 11 0 1 2 0 (Some 90%Z))) = Err EMalformed.
Proof. repeat split; vm_compute; reflexivity. Qed.

Theorem roundtrip_unfixed_refuted : ~ roundtrip_full from_dt_unfixed.
Proof.
  intros H. destruct (H GenT w_half) as (d' & E & _); [reflexivity|reflexivity|].
  destruct unfixed_half_hour_offset as (_ & _ & _ & _ & E2 & _). rewrite E2 in E. discriminate.
Qed.

Theorem roundtrip_unfixed_refuted_negative :
  exists d d', valid_dt d = true /\ in_domain GenT d = true
    /\ as_dt GenT (from_dt_unfixed GenT d) = Ok d' /\ off d' <> Some (dt_offset d)
    /\ dt_instant d' <> dt_instant d.
Proof.
  exists w_neg, (mkDT 2017 7 11 0 1 2 3000 (Some 1380%Z)).
  repeat split; try (vm_compute; reflexivity); vm_compute; discriminate.
Qed.

(* ---- the UTCTime window: outside 1969..2068 two year digits cannot bring the year back ---- *)
Theorem utctime_outside_window :
  exists d d', valid_dt d = true /\ us d = 0 /\ yr d = 1950
    /\ as_dt UtcT (from_dt UtcT d) = Ok d' /\ yr d' = 2050.
Proof.
  exists (mkDT 1950 1 1 0 0 0 0 None), (mkDT 2050 1 1 0 0 0 0 (Some 0%Z)).
  repeat split; vm_compute; reflexivity.
Qed.

(* ---- F12: '20170801120112.099Z' -> '20170801120112.99Z' ---- *)
Definition w_f12 : text := [50;48;49;55;48;56;48;49;49;50;48;49;49;50;46;48;57;57;90].
Definition w_f12_out : text := [50;48;49;55;48;56;48;49;49;50;48;49;49;50;46;57;57;90].

Theorem f12_witness :
  time_enc 12 20 w_f12 = Ok w_f12_out
  /\ zeros_only_trailing 4 (frac_of w_f12) = false
  /\ canonical w_f12_out = true
  /\ exists i, instant GenT w_f12 = Some i /\ instant GenT w_f12_out <> Some i.
Proof.
  split; [vm_compute; reflexivity|]. split; [vm_compute; reflexivity|]. split; [vm_compute; reflexivity|].
  eexists. split; [vm_compute; reflexivity|]. vm_compute. discriminate.
Qed.

(* ---- F27: '201708011201.12340Z' is emitted as it is ---- *)
Definition w_f27 : text := [50;48;49;55;48;56;48;49;49;50;48;49;46;49;50;51;52;48;90].

Theorem f27_witness :
  time_enc 12 20 w_f27 = Ok w_f27
  /\ no_far_trailing_zero (frac_of w_f27) = false
  /\ canonical w_f27 = false
  /\ instant GenT w_f27 <> None.
Proof. repeat split; vm_compute; try reflexivity; discriminate. Qed.

Theorem canonical_full_refuted : ~ canonical_full.
Proof.
  intros H. destruct f27_witness as (E & _ & C & I).
  destruct (instant GenT w_f27) as [i|] eqn:Ei; [|congruence].
  destruct (H 12 20 GenT w_f27 w_f27 i E Ei) as [C' _]. congruence.
Qed.

Theorem same_instant_full_refuted :
  ~ (forall a b tt s s' i, time_enc a b s = Ok s' -> instant tt s = Some i -> instant tt s' = Some i).
Proof.
  intros H. destruct f12_witness as (E & _ & _ & i & Ei & Ni).
  apply Ni. exact (H 12 20 GenT w_f12 w_f12_out i E Ei).
Qed.

(* ---- the millisecond convention (not a claim of C20; recorded) ----
   5 ms is written '.5', which X.680 reads as half a second *)
Theorem millisecond_convention :
  let d := mkDT 2017 7 11 0 1 2 5000 (Some 0%Z) in
  from_dt GenT d = [50;48;49;55;48;55;49;49;48;48;48;49;48;50;46;53;90]
  /\ instant GenT (from_dt GenT d)
     = instant GenT [50;48;49;55;48;55;49;49;48;48;48;49;48;50;46;53;48;48;90].
Proof. split; vm_compute; reflexivity. Qed.

(* ---- the regenerated tables give both time types a time encoder with these limits ---- *)
Theorem table_limits :
  time_limits cer_enc_tag_map GenT = Some (12, 20) /\ time_limits cer_enc_tag_map UtcT = Some (10, 14)
  /\ time_limits der_enc_tag_map GenT = Some (12, 20) /\ time_limits der_enc_tag_map UtcT = Some (10, 14)
  /\ time_limits cer_enc_type_map GenT = Some (12, 20) /\ time_limits cer_enc_type_map UtcT = Some (10, 14)
  /\ time_limits der_enc_type_map GenT = Some (12, 20) /\ time_limits der_enc_type_map UtcT = Some (10, 14).
Proof. repeat split; vm_compute; reflexivity. Qed.

Definition time_tables := [cer_enc_tag_map; cer_enc_type_map; der_enc_tag_map; der_enc_type_map].

Theorem tables_use_time_enc tbl k s : In tbl time_tables ->
  exists a b, time_enc_tbl tbl k s = time_enc a b s.
Proof.
  destruct table_limits as (A & B & C & D & E & F & G & H).
  intros Hin. cbn [time_tables In] in Hin. unfold time_enc_tbl.
  destruct Hin as [<-|[<-|[<-|[<-|[]]]]]; destruct k;
    rewrite ?A, ?B, ?C, ?D, ?E, ?F, ?G, ?H; eexists; eexists; reflexivity.
Qed.

Theorem tables_refuse_non_utc tbl k s : In tbl time_tables -> non_utc s = true ->
  time_enc_tbl tbl k s = Err (match s with [] => ECrash IndexError | _ => EMalformed end).
Proof.
  intros Hin Hn. destruct (tables_use_time_enc tbl k s Hin) as (a & b & ->).
  apply refuses_non_utc. assumption.
Qed.

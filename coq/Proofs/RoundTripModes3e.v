(* Round trip under every encoder mode for the whole type universe (C01/C02), part (e): SET with
   mandatory, OPTIONAL and DEFAULT components in every mode.  The BER encoder keeps the order of the
   declaration, the CER encoder sorts the components by the smallest outermost tag of their types, the
   DER encoder by the outermost tag of the value written; the decoder finds the position of each
   component by its tags, and in an indefinite-length SET it ends at the 00 00 the encoder wrote. *)
From Coq Require Import Lia Permutation.
From PV Require Import Base.Bytes Model.Tag Model.TableTypes Model.Types Model.Proc Model.Enc Model.Dec Gen.Tables
     Proofs.ProcBind Proofs.RunLemmas Proofs.TagOctets Proofs.TagAlgebra Proofs.DecHeader Proofs.DecFrame Proofs.DecPrim
     Proofs.TagsetShape Proofs.Schemaless Proofs.RoundTrip1 Proofs.RoundTrip2 Proofs.TagReject Proofs.ContainerCodecSort
     Proofs.RoundTripModesA Proofs.RoundTripModesB Proofs.RoundTripModesC Proofs.RoundTripModesBag Proofs.RoundTripModes
     Proofs.RoundTrip3 Proofs.RoundTrip3a Proofs.RoundTrip3b Proofs.RoundTrip3c Proofs.RoundTrip3d
     Proofs.RoundTripModes3a Proofs.RoundTripModes3b Proofs.RoundTripModes3c Proofs.RoundTripModes3d.
Local Open Scope N_scope.

Section SetLoopIndef.
  Variable rec : spec -> tagset -> option (option N) -> bool -> bool -> proc dval.
  Variable lf : nat.
  Variable T : ty.
  Variable fs : list (presence * ty).
  Hypothesis Hne : (match fs with [] => true | _ => false end) = false.
  Hypothesis Heoo : eoo_ok rec.

  Lemma set_loop_indef : forall items, Forall (sitem_ok (rec_ae rec true) lf fs) items ->
    forall vs idx n start s tl,
      (length items < n)%nat ->
      avail s = concat (map sbytes items) ++ [0; 0] ++ tl ->
      required_seen fs (place items vs) = true ->
      exists s', resume (record_loop rec lf T fs true None start n idx vs 0%nat) s
                 = inr (Ok (DV T (VRec (place items vs))), s')
        /\ pos s' = (pos s + length (concat (map sbytes items)) + 2)%nat /\ arrived s' = arrived s /\ closed s' = closed s.
  Proof.
    induction 1 as [|it items (ft & Hdec & Hpl & Hposn & Hlt) HF IH]; intros vs idx n start s tl Hn Hav Hseen.
    - destruct n as [|n']; [cbn [length] in Hn; lia|].
      cbn [record_loop]. cbv zeta. rewrite resume_tell. cbn [negb andb]. rewrite Hne.
      cbn [map concat app] in Hav.
      rewrite (resume_pbind_done _ _ _ _ _ (Heoo _ false s tl Hav)).
      cbn [place fold_left] in *. rewrite Hseen. cbn [resume].
      exists (adv s 2). cbn [map concat length]. rewrite pos_adv. repeat split. lia.
    - unfold rec_ae in Hdec.
      destruct n as [|n']; [cbn [length] in Hn; lia|].
      cbn [record_loop]. cbv zeta. rewrite resume_tell. cbn [negb andb]. rewrite Hne.
      cbn [map concat] in Hav. rewrite <- app_assoc in Hav.
      destruct (Hdec s _ Hav) as (s1 & Hrun & Hpos & Harr & Hcl).
      rewrite (resume_pbind_done _ _ _ _ _ Hrun).
      pose proof (consumes_avail (sbytes it) s _ s1 Hav Hpos Harr) as Hav1.
      unfold seq_position. cbn [negb andb]. rewrite Hposn. cbn [lift pbind].
      assert (Hleb: Nat.leb (length fs) (sidx it) = false) by (apply Nat.leb_gt; exact Hlt).
      rewrite Hleb.
      cbn [length] in Hn. cbn [place fold_left] in Hseen.
      destruct (IH (set_nth (sidx it) (Some (sval it)) vs) (S (sidx it)) n' start s1 tl ltac:(lia) Hav1 Hseen)
        as (s2 & Hrun2 & Hpos2 & Harr2 & Hcl2).
      exists s2. cbn [place fold_left map concat]. rewrite app_length. split; [exact Hrun2|]. split; [lia|]. split; congruence.
  Qed.
End SetLoopIndef.

Lemma fplan_nil_inv rec lf vs ps ds : fplan rec lf [] vs ps ds -> ds = [].
Proof. intros H. inversion H. reflexivity. Qed.

Section Modes3e.
  Variables ce cd : codec.
  Variable d : bool.
  Variable k : N.
  Hypothesis Hst : stable ce d k.
  Hypothesis Hcd : dec_ok cd.
  Variable R : aval -> aval -> Prop.
  Variable srt : bool.
  Hypothesis HR : rel_ok R srt.

  Notation val_ok_m := (val_ok_m ce cd d k R).
  Notation comp_ok_m := (comp_ok_m ce cd d k R).

  (* SET, under any tagging, in any mode *)
  Lemma set_val_m (Pv: ty -> val -> Prop) T' fs : base_of T' = TSet fs -> wf_tags T' = true ->
    keys_ok (flat_map ckeys (map snd fs)) = true ->
    Forall (comp_ok_m Pv) fs ->
    forall vs, comp_vals ce Pv fs vs -> val_ok_m T' (VRec vs).
  Proof.
    intros Hb Hw HK Hcomp vs HCV b He Hmax.
    assert (Htb: tagged_base T' = true) by (unfold tagged_base; rewrite Hb; reflexivity).
    destruct (tagset_shape_nz T' Htb Hw) as (t0 & r & b0 & Hb0 & Hts & Hc0 & Hex & Hd & Hnz & Hnex).
    assert (Hb0p: tcon b0 = true /\ tnum b0 <> 0).
    { rewrite Hb in Hb0; inversion Hb0; split; try reflexivity; discriminate. }
    destruct Hb0p as [Hb0c Hb0n].
    assert (Hcon: tcon t0 = true) by congruence.
    assert (Hnz': tcls t0 <> Univ \/ tnum t0 <> 0) by (destruct Hnz as [-> | H]; [right; exact Hb0n|left; exact H]).
    assert (Hdep: ty_depth (base_of T') = S (max_depth fs)) by (rewrite Hb; reflexivity).
    assert (Hnc: match T' with TChoice _ => False | _ => True end).
    { destruct T'; try exact I. discriminate Hb. }
    destruct (RoundTripModesC.enc_with_inv_g ce T' d k _ b Hst He) as (ec & fl & ts & content & cns & Hcenc & Hts' & Hcont & Hfr).
    rewrite Hts in Hts'. inversion Hts'; subst ts; clear Hts'.
    rewrite concrete_encoder_base in Hcenc. rewrite enc_content_base in Hcont.
    rewrite (enc_content_rec ce (base_of T') fs ec fl (mo d k) vs (or_intror Hb)) in Hcont.
    set (omit := match ec with EcSeq => ef_omit_empty fl | EcSetCer | EcSetDer => true | _ => false end) in Hcont.
    assert (Hec: (ec = EcSeq \/ ec = EcSetCer \/ ec = EcSetDer) /\ ef_indef fl = true /\ (omit = true -> omits ce = true)).
    { subst omit. unfold omits. rewrite Hb in Hcenc. destruct ce; vm_compute in Hcenc;
        inversion Hcenc; subst ec fl; (split; [solve [left; reflexivity|right; left; reflexivity|right; right; reflexivity]|split; [reflexivity|]]);
        cbn; intros H; solve [discriminate H|reflexivity]. }
    destruct Hec as (Hecs & Hsi & Homit).
    destruct (enc_rec_fields_g ce ec omit (mo d k) fs vs) as [parts|e] eqn:Eparts; cbn [bind] in Hcont; [|discriminate].
    (* the parts in wire order *)
    assert (Hwire: exists wparts, content = concat (map snd wparts) /\ cns = true /\ Permutation wparts parts).
    { destruct Hecs as [-> | [-> | ->]]; inversion Hcont; subst content cns.
      - exists parts. repeat split. apply Permutation_refl.
      - exists (sort_by tagset_ltb fst parts). repeat split. apply Permutation_sym, sort_by_perm_self.
      - exists (sort_by tagset_ltb fst parts). repeat split. apply Permutation_sym, sort_by_perm_self. }
    destruct Hwire as (wparts & -> & -> & Hperm). rewrite Hsi in Hfr.
    pose proof (frame_modes_len _ _ _ _ _ _ _ _ Hex Hfr) as Hlen.
    assert (Hcl: length (concat (map snd parts)) = length (concat (map snd wparts))).
    { apply concat_perm_length. apply Permutation_map, Permutation_sym. exact Hperm. }
    destruct (fields_plan_m ce cd d k Hst Hcd R srt HR Pv ec omit Homit fs Hcomp vs parts HCV Eparts ltac:(lia)) as (ds & Habs & Hplan).
    set (items := mk_items 0 ds (map snd parts)).
    set (bound := (length (concat (map snd parts)) + max_depth fs)%nat).
    assert (Hitems: forall f ae, (bound <= f)%nat ->
              Forall (sitem_ok (rec_ae (dec_call cd f) ae) f fs) items /\ map sbytes items = map snd parts
              /\ place items (map (fun _ => None) fs) = ds /\ required_seen fs ds = true).
    { intros f ae Hf.
      destruct (fplan_items (rec_ae (dec_call cd f) ae) f fs HK fs vs (map snd parts) ds (Hplan f ae Hf) [] eq_refl) as (I1 & I2 & I3 & I4).
      split; [exact I1|]. split; [exact I2|]. split; [exact (I3 [] eq_refl)|exact I4]. }
    destruct (Hitems bound false (le_n _)) as (_ & Hbytes & Hplace & Hseen).
    destruct (align_perm snd sbytes wparts parts Hperm items Hbytes) as (witems & Hpi & Hwbytes).
    exists t0, r, (concat (map snd wparts)), true, true, (VRec ds).
    split; [rewrite (wire_tags_plain T' _ Hnc); apply tagset_of'_ok; exact Hts|].
    split; [exact Hex|]. split; [lia|]. split; [exact Hnz'|]. split; [reflexivity|]. split; [exact Hfr|].
    split; [rewrite (wire_tags_plain T' _ Hnc); apply tagset_of'_ok; exact Hts|].
    split.
    { rewrite (abs_wrappers T' (VRec ds)), (abs_wrappers T' (VRec vs)), Hb. rewrite !abs_set.
      apply (r_rec _ _ HR). exact Habs. }
    exists DcSet, (mkDecFlags true (Some KSet)). split.
    { rewrite by_type_base, Hb. destruct Hcd as [-> | ->]; vm_compute; reflexivity. }
    intros f Hf.
    assert (Hw1: wire t0 true = t0) by (apply wire_con; exact Hcon). rewrite Hw1.
    assert (Hwok: forall ae, Forall (sitem_ok (rec_ae (dec_call cd f) ae) f fs) witems).
    { intros ae. destruct (Hitems f ae ltac:(subst bound; lia)) as (Hok & _).
      rewrite Forall_forall in *. intros it Hin. apply Hok. eapply Permutation_in; [apply Permutation_sym; exact Hpi|exact Hin]. }
    assert (Hpw: place witems (map (fun _ => None) fs) = ds).
    { rewrite <- (place_perm items witems Hpi (mk_items_nodup ds 0 (map snd parts))). exact Hplace. }
    assert (Hwb: map sbytes witems = @map (tagset * list N) (list N) (@snd tagset (list N)) wparts) by exact Hwbytes.
    assert (Hcnt: (length witems <= length (concat (map sbytes witems)))%nat).
    { pose proof (Hwok false) as Hw0. clear - Hw0. induction Hw0 as [|it l (ft & _ & Hl & _) _ IH]; [cbn; lia|]. cbn [length map concat]. rewrite app_length. lia. }
    assert (Hds0: fs = [] -> ds = [] /\ witems = []).
    { intros Efs0. pose proof (Hplan bound false (le_n _)) as HP. rewrite Efs0 in HP.
      pose proof (fplan_nil_inv _ _ _ _ _ HP) as Hds. split; [exact Hds|].
      unfold items in Hpi. rewrite Hds in Hpi. cbn [mk_items] in Hpi. apply Permutation_nil in Hpi. exact Hpi. }
    unfold val_consumes. destruct d; cbn [andb negb]; cbn [dec_value tag0_cons]; rewrite Hcon; cbn [negb]; rewrite Hb.
    - (* definite *)
      intros s tl Hav. unfold dec_record. rewrite resume_tell.
      rewrite <- Hwb in Hav |- *.
      destruct fs as [|f0 fs0] eqn:Efs.
      + destruct (Hds0 eq_refl) as [Hds Hw0]. rewrite Hw0 in *. cbn [map concat length app] in *.
        destruct f as [|n]; [lia|].
        cbn [record_loop]. cbv zeta. rewrite resume_tell. rewrite Nat.sub_diag.
        cbn [N.of_nat N.ltb N.compare negb map resume].
        rewrite Hds. exists s. repeat split. lia.
      + rewrite <- Efs in *.
        assert (Hne: (match fs with [] => true | _ => false end) = false) by (rewrite Efs; reflexivity).
        assert (Hwok0: Forall (sitem_ok (dec_call cd f) f fs) witems).
        { pose proof (Hwok false) as Hw0. rewrite Forall_forall in *. intros it Hin. destruct (Hw0 it Hin) as (ft & H1 & H2 & H3 & H4).
          exists ft. split; [exact H1|]. split; [exact H2|]. split; [exact H3|exact H4]. }
        destruct (set_loop (dec_call cd f) f T' fs Hne witems Hwok0 (map (fun _ => None) fs) 0%nat f (pos s)
                    (length (concat (map sbytes witems))) s tl) as (s' & Hrun & Hpos & Harr & Hcl2).
        * rewrite Hwb in Hcnt. unfold bytes in *. lia.
        * exact Hav.
        * lia.
        * lia.
        * rewrite Hpw. exact Hseen.
        * rewrite Hpw in Hrun. exists s'. split; [exact Hrun|]. repeat split; assumption.
    - (* indefinite *)
      intros s tl Hav. unfold dec_record. rewrite resume_tell.
      rewrite <- Hwb in Hav |- *. rewrite <- app_assoc in Hav.
      destruct f as [|f']; [lia|].
      destruct fs as [|f0 fs0] eqn:Efs.
      + destruct (Hds0 eq_refl) as [Hds Hw0]. rewrite Hw0 in *. cbn [map concat length app] in *.
        cbn [record_loop]. cbv zeta. rewrite resume_tell. cbn [negb].
        rewrite (resume_pbind_done _ _ _ _ _ (eoo_ok_call cd f' Hcd SNone false s tl Hav)). cbn [resume map].
        rewrite Hds. exists (adv s 2). rewrite pos_adv. repeat split.
      + rewrite <- Efs in *.
        assert (Hne: (match fs with [] => true | _ => false end) = false) by (rewrite Efs; reflexivity).
        destruct (set_loop_indef (dec_call cd (S f')) (S f') T' fs Hne (eoo_ok_call cd f' Hcd) witems (Hwok true)
                    (map (fun _ => None) fs) 0%nat (S f') (pos s) s tl) as (s' & Hrun & Hpos & Harr & Hcl2).
        * rewrite Hwb in Hcnt. unfold bytes in *. lia.
        * exact Hav.
        * rewrite Hpw. exact Hseen.
        * rewrite Hpw in Hrun. exists s'. split; [exact Hrun|]. rewrite app_length. cbn [length]. repeat split; try assumption. lia.
  Qed.
End Modes3e.

(* The value decoders of the simple types consume exactly the contents octets and return what the
   contents denote. *)
From Coq Require Import Lia.
From PV Require Import Base.Bytes Model.Tag Model.TableTypes Model.Types Model.Proc Model.Enc Model.Dec Gen.Tables
     Proofs.ProcBind Proofs.RunLemmas Proofs.TagOctets Proofs.DecHeader Proofs.DecFrame.
Local Open Scope N_scope.

Lemma resume_read_len {A} : forall f (content tl: bytes) s (g: bytes -> proc A),
  avail s = content ++ tl -> N.of_nat (length content) <= index_max -> (length content <= S f)%nat ->
  resume (pbind (read_len f (N.of_nat (length content))) g) s = resume (g content) (adv s (length content)).
Proof.
  intros f content tl s g Hav Hmax Hf. unfold read_len.
  destruct (N.ltb_spec index_max (N.of_nat (length content))) as [Hc|_]; [lia|].
  replace (N.to_nat (N.min (N.of_nat (length content)) (N.of_nat (S f)))) with (length content) by lia.
  apply (resume_readN s (length content) content tl g Hav eq_refl).
Qed.

Definition fits (f: nat) (content: bytes) : Prop :=
  N.of_nat (length content) <= index_max /\ (length content <= S f)%nat.

Lemma consumes_ret (v: dval) (content: bytes) (k: bytes -> proc dval) f :
  fits f content -> k content = Ret v ->
  consumes (pbind (read_len f (N.of_nat (length content))) k) content v.
Proof.
  intros [Hmax Hf] Hk s tl Hav. rewrite (resume_read_len f content tl s k Hav Hmax Hf). rewrite Hk. cbn [resume].
  exists (adv s (length content)). repeat split.
Qed.

(* INTEGER / ENUMERATED / BOOLEAN (BER: any non-zero is TRUE) *)
Lemma consumes_integer f T proto ts content :
  tag0_simple ts = true -> fits f content ->
  (match base_of T with TBool | TStr _ => False | _ => True end) ->
  consumes (dec_integer f (Some T) proto ts (N.of_nat (length content))) content (DV T (VInt (from_bytes_signed content))).
Proof.
  intros Hts Hfit Hb. unfold dec_integer. rewrite Hts. cbn [negb].
  apply consumes_ret; [exact Hfit|]. unfold create.
  destruct (base_of T); try reflexivity; contradiction.
Qed.

Lemma consumes_boolean f T proto ts content :
  tag0_simple ts = true -> fits f content -> base_of T = TBool ->
  consumes (dec_integer f (Some T) proto ts (N.of_nat (length content))) content
           (DV T (VBool (negb (Z.eqb (from_bytes_signed content) 0)))).
Proof.
  intros Hts Hfit Hb. unfold dec_integer. rewrite Hts. cbn [negb].
  apply consumes_ret; [exact Hfit|]. unfold create. rewrite Hb. reflexivity.
Qed.

Lemma consumes_null f T ts :
  tag0_simple ts = true -> (match base_of T with TBool | TStr _ => False | _ => True end) ->
  consumes (dec_null f (Some T) ts 0) [] (DV T VNull).
Proof.
  intros Hts Hb. unfold dec_null. rewrite Hts. cbn [negb].
  change 0 with (N.of_nat (length (@nil N))).
  apply consumes_ret; [split; [vm_compute; discriminate|cbn; lia]|]. unfold create.
  destruct (base_of T); try reflexivity; contradiction.
Qed.

Lemma consumes_octets rec f fl T ts content sfun :
  tag0_simple ts = true -> fits f content -> base_of T = TOcts ->
  consumes (dec_octets rec f TOcts fl (Some T) ts (N.of_nat (length content)) sfun) content (DV T (VOcts content)).
Proof.
  intros Hts Hfit Hb. unfold dec_octets. rewrite Hts.
  apply consumes_ret; [exact Hfit|]. unfold create. rewrite Hb. reflexivity.
Qed.

Lemma consumes_bind_lift {X} (f: nat) (content: bytes) (x: X) (g: bytes -> res X) (k: X -> proc dval) v :
  fits f content -> g content = Ok x -> k x = Ret v ->
  consumes (pbind (read_len f (N.of_nat (length content))) (fun b => pbind (lift (g b)) k)) content v.
Proof.
  intros Hfit Hg Hk. apply consumes_ret; [exact Hfit|]. rewrite Hg. cbn [lift pbind]. exact Hk.
Qed.

Lemma consumes_oid f T ts content arcs :
  tag0_simple ts = true -> fits f content -> base_of T = TOid -> dec_oid content = Ok arcs ->
  consumes (dec_oid_v f (Some T) ts (N.of_nat (length content))) content (DV T (VOid arcs)).
Proof.
  intros Hts Hfit Hb Hd. unfold dec_oid_v. rewrite Hts. cbn [negb].
  apply (consumes_bind_lift f content arcs dec_oid); [exact Hfit|exact Hd|]. unfold create. rewrite Hb. reflexivity.
Qed.

Lemma consumes_real f T ts content r :
  tag0_simple ts = true -> fits f content -> base_of T = TReal -> dec_real content = Ok r ->
  consumes (dec_real_v f (Some T) ts (N.of_nat (length content))) content (DV T (VReal r)).
Proof.
  intros Hts Hfit Hb Hd. unfold dec_real_v. rewrite Hts. cbn [negb].
  apply (consumes_bind_lift f content r dec_real); [exact Hfit|exact Hd|]. unfold create. rewrite Hb. reflexivity.
Qed.

(* primitive BIT STRING: initial octet (unused bits), then the octets *)
Lemma consumes_bits rec f fl T ts (pad: N) (octs: bytes) bs :
  tag0_simple ts = true -> fits f (pad :: octs) -> base_of T = TBits ->
  pad <= 7 -> bits_of_octets octs pad = Ok bs ->
  consumes (dec_bits rec f fl (Some T) ts (N.of_nat (length (pad :: octs))) false) (pad :: octs) (DV T (VBits bs)).
Proof.
  intros Hts [Hmax Hf] Hb Hpad Hd s tl Hav. unfold dec_bits.
  destruct (N.eqb_spec (N.of_nat (length (pad :: octs))) 0) as [E|_]; [cbn [length] in E; lia|].
  rewrite Hts.
  rewrite (resume_read1 s pad (octs ++ tl) _ Hav).
  destruct (N.ltb_spec 7 pad) as [Hc|_]; [lia|].
  replace (N.of_nat (length (pad :: octs)) - 1) with (N.of_nat (length octs)) by (cbn [length]; lia).
  assert (Hav1: avail (adv s 1) = octs ++ tl) by (apply (avail_cons_adv _ _ _ Hav)).
  cbn [length] in Hmax, Hf.
  rewrite (resume_read_len f octs tl (adv s 1) _ Hav1) by lia.
  rewrite Hd. cbn [lift pbind]. unfold create. rewrite Hb. cbn [resume].
  exists (adv (adv s 1) (length octs)). rewrite adv_adv. cbn [length]. split; [reflexivity|]. split; [rewrite pos_adv; lia|]. split; reflexivity.
Qed.

(* character and useful strings: the octets must be acceptable to the type's text codec *)
Lemma consumes_string rec f fl T n ts content sfun :
  tag0_simple ts = true -> fits f content -> base_of T = TStr n -> str_octets_ok n content = Some true ->
  consumes (dec_octets rec f (TStr n) fl (Some T) ts (N.of_nat (length content)) sfun) content (DV T (VOcts content)).
Proof.
  intros Hts Hfit Hb Hok. unfold dec_octets. rewrite Hts.
  apply consumes_ret; [exact Hfit|]. unfold create. rewrite Hb, Hok. reflexivity.
Qed.

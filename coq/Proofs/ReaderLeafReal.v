(* A property of the independent X.690 reference alone (Spec/X690.v): the reference's reader of REAL
   contents octets [real_value] (8.5, any binary form) inverts the reference's writer
   [real_contents] (8.5 / 11.3: base 2, odd mantissa, scaling factor 0, shortest exponent), up to
   the abstract content [abs_real].  No bound on mantissa or exponent. *)
From Coq Require Import Lia.
From PV Require Import Base.Bytes Model.Tag Model.Types Model.Enc Spec.X690
                       Proofs.Bits Proofs.TagOctets Proofs.SpecOctets Proofs.LeafInt Proofs.LeafReal.
Local Open Scope N_scope.

(* ---------- reading base-256 digits back ---------- *)

Lemma octets_value_snoc : forall l acc d, octets_value acc (l ++ [d]) = octets_value acc l * 256 + d.
Proof.
  induction l as [|o r IH]; intros acc d; [reflexivity|].
  cbn [app octets_value]. apply IH.
Qed.

Lemma octets_value_digits256 : forall fuel n, octets_value 0 (digits fuel 256 n) = n.
Proof.
  induction fuel as [|f IH]; intros n.
  - cbn [digits octets_value]. lia.
  - cbn [digits]. destruct (N.ltb_spec n 256) as [Hlt|Hge].
    + cbn [octets_value]. lia.
    + rewrite octets_value_snoc, IH.
      pose proof (N.div_mod n 256). lia.
Qed.

Lemma octets_value_digits_of_256 n : octets_value 0 (digits_of 256 n) = n.
Proof. apply octets_value_digits256. Qed.

(* ---------- the general branch of [real_value] ---------- *)

(* the reader after the first-octet fields have been extracted *)
Definition real_fields (lt128 neg: bool) (base_bits sf ef: N) (r: bytes) : option areal :=
  if lt128 then None else
  let '(elen, r1) := if N.eqb ef 3 then (match r with l :: _ => N.to_nat l | [] => O end, tl r)
                     else (S (N.to_nat ef), r) in
  if (Nat.eqb elen 0 || Nat.ltb (length r1) elen)%bool then None else
  let e := signed_value (firstn elen r1) in
  let m := Z.of_N (octets_value 0 (skipn elen r1)) in
  if N.eqb base_bits 3 then None else
  let e2 := (if N.eqb base_bits 0 then e else if N.eqb base_bits 1 then 3 * e else 4 * e)%Z in
  let mant := ((if neg then -1 else 1) * m * 2 ^ Z.of_N sf)%Z in
  Some (abs_real (RBin mant e2)).

Definition real_value_gen (fo: N) (r: bytes) : option areal :=
  real_fields (N.ltb fo 128) (N.eqb ((fo / 64) mod 2) 1) ((fo / 16) mod 4) ((fo / 4) mod 4) (fo mod 4) r.

(* a first octet with bit 8 set is neither 64 nor 65: the general branch applies *)
Lemma real_value_ge128 fo r : 128 <= fo -> real_value (fo :: r) = real_value_gen fo r.
Proof.
  intros H. destruct fo as [|p]; [lia|].
  do 7 (destruct p as [p|p|]; try reflexivity); destruct r; try reflexivity; lia.
Qed.

(* base 2, scaling factor 0, exponent in form k (0,1,2: k+1 octets; 3: a length octet first) *)
Lemma real_fields_binary (neg: bool) (k: N) (pre eo mo: bytes) :
  (k < 3 /\ pre = [] /\ length eo = S (N.to_nat k) \/ k = 3 /\ pre = [N.of_nat (length eo)]) ->
  eo <> [] ->
  real_fields false neg 0 0 k (pre ++ eo ++ mo) =
  Some (abs_real (RBin (if neg then - Z.of_N (octets_value 0 mo) else Z.of_N (octets_value 0 mo))
                       (signed_value eo))).
Proof.
  intros Hform Heo. unfold real_fields.
  assert (Hfin: forall elen r1, elen = length eo -> r1 = eo ++ mo ->
    (if (Nat.eqb elen 0 || Nat.ltb (length r1) elen)%bool then None else
     let e := signed_value (firstn elen r1) in
     let m := Z.of_N (octets_value 0 (skipn elen r1)) in
     if N.eqb 0 3 then None else
     let e2 := (if N.eqb 0 0 then e else if N.eqb 0 1 then 3 * e else 4 * e)%Z in
     let mant := ((if neg then -1 else 1) * m * 2 ^ Z.of_N 0)%Z in
     Some (abs_real (RBin mant e2))) =
    Some (abs_real (RBin (if neg then - Z.of_N (octets_value 0 mo) else Z.of_N (octets_value 0 mo))
                         (signed_value eo)))).
  { intros elen r1 -> ->.
    assert (Hl: length eo <> O) by (destruct eo; [congruence|discriminate]).
    destruct (Nat.eqb_spec (length eo) 0) as [|_]; [contradiction|].
    destruct (Nat.ltb_spec (length (eo ++ mo)) (length eo)) as [Hc|_].
    { rewrite app_length in Hc. lia. }
    cbn [orb]. cbv zeta. rewrite firstn_app_exact, skipn_app_exact.
    change (N.eqb 0 3) with false. change (N.eqb 0 0) with true. cbv iota.
    change (2 ^ Z.of_N 0)%Z with 1%Z. rewrite Z.mul_1_r.
    f_equal. f_equal. f_equal. destruct neg; lia. }
  destruct Hform as [(Hk3 & -> & Hlen)|(-> & ->)].
  - cbn [app]. destruct (N.eqb_spec k 3) as [Hc|_]; [lia|].
    apply Hfin; [symmetry; exact Hlen|reflexivity].
  - change (N.eqb 3 3) with true. cbn [app tl]. rewrite Nat2N.id.
    apply Hfin; reflexivity.
Qed.

(* the eight first octets the writer produces, as the reader splits them into fields *)
Lemma real_value_first (neg: bool) (k: N) r : k < 4 ->
  real_value ((128 + (if neg then 64 else 0) + k) :: r) = real_fields false neg 0 0 k r.
Proof.
  intros Hk. rewrite real_value_ge128 by (destruct neg; lia).
  assert (Hc: k = 0 \/ k = 1 \/ k = 2 \/ k = 3) by lia.
  destruct Hc as [->|[->|[->| ->]]]; destruct neg; reflexivity.
Qed.

(* ---------- the theorem ---------- *)

Theorem real_value_real_contents : forall (r: real) (c: bytes),
  real_contents r = Some c -> real_value c = Some (abs_real r).
Proof.
  intros r c H. destruct r as [| |m e|m e|].
  - injection H as <-. reflexivity.
  - injection H as <-. reflexivity.
  - destruct (Z.eq_dec m 0) as [->|Hm].
    { change (Some (@nil N) = Some c) in H. injection H as <-. reflexivity. }
    unfold real_contents in H. destruct (Z.eqb_spec m 0) as [|_]; [contradiction|].
    rewrite make_odd_is_strip2 in H.
    destruct (strip2 (N.size_nat (Z.abs_N m)) (Z.abs_N m) e) as [m' e'] eqn:Es.
    cbv zeta in H.
    destruct (abs_real_bin_norm m e m' e' Hm Es) as [Ha1 Ha2]. cbv zeta in Ha1, Ha2.
    assert (Heo: int_contents e' <> []).
    { rewrite exp_octets_is_int_contents. apply exp_octets_nonempty. }
    pose proof (signed_value_int_contents e') as Hexp.
    pose proof (octets_value_digits_of_256 m') as Hmant.
    set (eo := int_contents e') in *. set (mo := digits_of 256 m') in *.
    set (neg := Z.ltb m 0) in *.
    assert (Hdec: forall k pre, k < 4 ->
      (k < 3 /\ pre = [] /\ length eo = S (N.to_nat k) \/ k = 3 /\ pre = [N.of_nat (length eo)]) ->
      Some ((128 + (if neg then 64 else 0) + k) :: pre ++ eo ++ mo) = Some c ->
      real_value c = Some (abs_real (RBin m e))).
    { intros k pre Hk Hform Hc.
      assert (Hc': (128 + (if neg then 64 else 0) + k) :: pre ++ eo ++ mo = c) by congruence.
      clear Hc. subst c.
      rewrite (real_value_first neg k (pre ++ eo ++ mo) Hk).
      rewrite (real_fields_binary neg k pre eo mo Hform Heo).
      rewrite Hexp, Hmant, Ha1. f_equal. exact Ha2. }
    destruct (length eo) as [|[|[|[|n]]]] eqn:Hlen.
    + destruct eo; [congruence|discriminate].
    + apply (Hdec 0 []); [lia| |rewrite N.add_0_r; exact H]. left. split; [lia|split; reflexivity].
    + apply (Hdec 1 []); [lia| |exact H]. left. split; [lia|split; reflexivity].
    + apply (Hdec 2 []); [lia| |exact H]. left. split; [lia|split; reflexivity].
    + apply (Hdec 3 [N.of_nat (S (S (S (S n))))]); [lia| |exact H].
      right. split; [reflexivity|]. rewrite ?Hlen. reflexivity.
  - destruct (Z.eq_dec m 0) as [->|Hm].
    { change (Some (@nil N) = Some c) in H. injection H as <-. reflexivity. }
    unfold real_contents in H. destruct (Z.eqb_spec m 0) as [|_]; [contradiction|discriminate].
  - discriminate.
Qed.

(* the hypothesis is satisfiable: negative mantissa with factors of two; an exponent of six octets
   (length-prefixed form); a three-octet exponent; the special values and zero *)
Example real_value_real_contents_ex :
  real_contents (RBin (-80) 3) = Some [192; 7; 5] /\
  real_value [192; 7; 5] = Some (ABin (-5) 7) /\ abs_real (RBin (-80) 3) = ABin (-5) 7 /\
  real_contents (RBin 3 (2 ^ 40)) = Some [131; 6; 1; 0; 0; 0; 0; 0; 3] /\
  real_value [131; 6; 1; 0; 0; 0; 0; 0; 3] = Some (ABin 3 (2 ^ 40)) /\
  real_contents (RBin 1000 (-70000)) = Some [130; 254; 238; 147; 125] /\
  real_value [130; 254; 238; 147; 125] = Some (abs_real (RBin 1000 (-70000))) /\
  abs_real (RBin 1000 (-70000)) = ABin 125 (-69997) /\
  real_contents RPInf = Some [64] /\ real_value [64] = Some APInf /\
  real_contents (RDec 0 5) = Some [] /\ real_value [] = Some AZero.
Proof. vm_compute. repeat split. Qed.

Example real_value_real_contents_inst :
  real_value [192; 7; 5] = Some (abs_real (RBin (-80) 3)).
Proof. apply real_value_real_contents. vm_compute. reflexivity. Qed.

Print Assumptions real_value_real_contents.

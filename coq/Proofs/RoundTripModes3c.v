(* Round trip under every encoder mode for the whole type universe (C01/C02), part (c): SEQUENCE with
   mandatory, OPTIONAL and DEFAULT components in every mode.  New here: the decoder's component loop
   of an indefinite-length SEQUENCE - the components are read where end-of-octets is allowed, the
   OPTIONAL/DEFAULT components that were not written are skipped by their tags, and the loop ends at
   the 00 00 the encoder wrote, wherever in the declaration the decoder then stands. *)
From Coq Require Import Lia Permutation.
From PV Require Import Base.Bytes Model.Tag Model.TableTypes Model.Types Model.Proc Model.Enc Model.Dec Gen.Tables
     Proofs.ProcBind Proofs.RunLemmas Proofs.TagOctets Proofs.TagAlgebra Proofs.DecHeader Proofs.DecFrame Proofs.DecPrim
     Proofs.TagsetShape Proofs.Schemaless Proofs.RoundTrip1 Proofs.RoundTrip2 Proofs.TagReject Proofs.ContainerCodecSort
     Proofs.RoundTripModesA Proofs.RoundTripModesB Proofs.RoundTripModesC Proofs.RoundTripModesBag Proofs.RoundTripModes
     Proofs.RoundTrip3 Proofs.RoundTrip3a Proofs.RoundTrip3b Proofs.RoundTripModes3a Proofs.RoundTripModes3b.
Local Open Scope N_scope.

(* the decoder entry point with the allowEoo flag fixed: the plans of RoundTrip3b.v speak of components read
   where end-of-octets is not allowed; through this they speak of either *)
Definition rec_ae (rec: spec -> tagset -> option (option N) -> bool -> bool -> proc dval) (ae: bool)
  : spec -> tagset -> option (option N) -> bool -> bool -> proc dval :=
  fun sp ts rs _ sf => rec sp ts rs ae sf.

Lemma fplan_rec_false rec lf fs vs ps ds : fplan (rec_ae rec false) lf fs vs ps ds -> fplan rec lf fs vs ps ds.
Proof.
  induction 1 as [|p ft fs ov vs ps ds Hp _ IH|p ft fs x vs pb x' ps ds Hl Hreq Hkeys _ IH].
  - constructor.
  - constructor; assumption.
  - constructor; [exact Hl|exact Hreq|exact Hkeys|exact IH].
Qed.

Section RecordLoopIndef.
  Variable rec : spec -> tagset -> option (option N) -> bool -> bool -> proc dval.
  Variable lf : nat.
  Hypothesis Heoo : eoo_ok rec.

  Local Notation nones fs := (map (fun _ : presence * ty => @None val) fs).

  Lemma record_loop_opt_indef T fs :
    (match fs with [] => true | _ => false end) = false -> seq_wf fs = true ->
    forall todo vtodo parts ds, fplan (rec_ae rec true) lf todo vtodo parts ds ->
    forall done skipped vdone n start s tl,
      fs = done ++ skipped ++ todo -> length vdone = length done ->
      Forall nonreq skipped ->
      required_seen done vdone = true ->
      (length parts < n)%nat ->
      avail s = concat parts ++ [0; 0] ++ tl ->
      exists s', resume (record_loop rec lf T fs false None start n (length done)
                                     (vdone ++ nones skipped ++ nones todo) 0%nat) s
                 = inr (Ok (DV T (VRec (vdone ++ nones skipped ++ ds))), s')
        /\ pos s' = (pos s + length (concat parts) + 2)%nat /\ arrived s' = arrived s /\ closed s' = closed s.
  Proof.
    intros Hne Hwf todo vtodo parts ds HP.
    induction HP as [|p ft todo ov vtodo parts ds Hp HP IH|p ft todo x vtodo pb x' parts ds Hpl Hreq Hkeys HP IH];
      intros done skipped vdone n start s tl Hfs Hvd Hsk Hseen Hn Hav.
    - (* nothing more was written: the end-of-octets marker follows *)
      destruct n as [|n']; [cbn [length] in Hn; lia|].
      cbn [record_loop]. cbv zeta. rewrite resume_tell. cbn [negb andb]. rewrite Hne.
      cbn [concat app] in Hav.
      assert (Hsp: exists sp', (if Nat.leb (length fs) (length done) then Some SNone
                                else seq_component_spec fs (forallb (fun f => is_req (fst f)) fs) (length done)) = Some sp').
      { destruct (Nat.leb (length fs) (length done)) eqn:El; [eexists; reflexivity|].
        apply Nat.leb_gt in El. unfold seq_component_spec.
        destruct (nth_error fs (length done)) as [[p0 t0]|] eqn:En.
        - destruct (forallb (fun f => is_req (fst f)) fs || is_req p0)%bool; eexists; reflexivity.
        - apply nth_error_None in En. lia. }
      destruct Hsp as (sp' & ->).
      rewrite (resume_pbind_done _ _ _ _ _ (Heoo sp' false s tl Hav)).
      assert (Hrs: required_seen fs (vdone ++ nones skipped ++ nones []) = true).
      { rewrite Hfs, app_nil_r. cbn [map]. rewrite app_nil_r.
        rewrite required_seen_app by exact Hvd. rewrite Hseen. cbn [andb]. apply required_seen_nonreq. exact Hsk. }
      rewrite Hrs. cbn [resume]. exists (adv s 2). cbn [concat length map]. rewrite pos_adv. repeat split. lia.
    - (* a component that was not written: it joins the run the decoder will skip *)
      assert (Hfs': fs = done ++ (skipped ++ [(p, ft)]) ++ todo) by (rewrite <- app_assoc; exact Hfs).
      assert (Hsk': Forall nonreq (skipped ++ [(p, ft)])).
      { apply Forall_app. split; [exact Hsk|]. constructor; [exact Hp|constructor]. }
      destruct (IH done (skipped ++ [(p, ft)]) vdone n start s tl Hfs' Hvd Hsk' Hseen Hn Hav) as (s' & Hrun & Hrest).
      exists s'. split; [|exact Hrest].
      rewrite map_app in Hrun. cbn [map] in Hrun. rewrite <- !app_assoc in Hrun. cbn [app] in Hrun.
      cbn [map]. exact Hrun.
    - (* a component that was written *)
      unfold rec_ae in Hreq, Hkeys.
      destruct n as [|n']; [cbn [length] in Hn; lia|].
      cbn [record_loop]. cbv zeta. rewrite resume_tell. cbn [negb andb]. rewrite Hne.
      cbn [concat] in Hav. rewrite <- app_assoc in Hav.
      set (det := forallb (fun f => is_req (fst f)) fs).
      set (i := (length done + length skipped)%nat).
      assert (Hidx: Nat.leb (length fs) (length done) = false).
      { apply Nat.leb_gt. rewrite Hfs, !app_length. cbn [length]. lia. }
      assert (Hileb: Nat.leb (length fs) i = false).
      { apply Nat.leb_gt. subst i. rewrite Hfs, !app_length. cbn [length]. lia. }
      assert (Hsetnth: set_nth i (Some x') (vdone ++ nones skipped ++ nones ((p, ft) :: todo))
                       = (vdone ++ nones skipped) ++ Some x' :: nones todo).
      { rewrite app_assoc. cbn [map]. subst i. rewrite <- Hvd, <- (map_length (fun _ : presence * ty => @None val) skipped), <- app_length.
        apply set_nth_app. }
      rewrite Hidx.
      (* the remainder of the loop, once the component is known to land at position i *)
      assert (Hcont: forall s1, avail s1 = concat parts ++ [0; 0] ++ tl -> pos s1 = (pos s + length pb)%nat ->
                 arrived s1 = arrived s -> closed s1 = closed s ->
                 exists s', resume (record_loop rec lf T fs false None start n' (S i)
                                       ((vdone ++ nones skipped) ++ Some x' :: nones todo) 0%nat) s1
                   = inr (Ok (DV T (VRec (vdone ++ nones skipped ++ Some x' :: ds))), s')
                   /\ pos s' = (pos s + length (pb ++ concat parts) + 2)%nat /\ arrived s' = arrived s /\ closed s' = closed s).
      { intros s1 Hav1 Hpos1 Harr1 Hcl1.
        assert (Hfs': fs = (done ++ skipped ++ [(p, ft)]) ++ [] ++ todo).
        { rewrite Hfs. rewrite <- !app_assoc. reflexivity. }
        assert (Hvd': length (vdone ++ nones skipped ++ [Some x']) = length (done ++ skipped ++ [(p, ft)])).
        { rewrite !app_length, map_length. cbn [length]. lia. }
        assert (Hseen': required_seen (done ++ skipped ++ [(p, ft)]) (vdone ++ nones skipped ++ [Some x']) = true).
        { rewrite required_seen_app by exact Hvd. rewrite Hseen. cbn [andb].
          rewrite required_seen_app by apply map_length. rewrite (required_seen_nonreq skipped Hsk). cbn [andb].
          unfold required_seen. cbn [combine forallb fst snd]. destruct p; reflexivity. }
        cbn [length] in Hn.
        destruct (IH (done ++ skipped ++ [(p, ft)]) [] (vdone ++ nones skipped ++ [Some x']) n' start s1 tl
                     Hfs' Hvd' (Forall_nil _) Hseen' ltac:(lia) Hav1) as (s2 & Hrun2 & Hpos2 & Harr2 & Hcl2).
        exists s2. split; [|rewrite app_length; split; [lia|split; congruence]].
        cbn [map app] in Hrun2.
        replace (length (done ++ skipped ++ [(p, ft)])) with (S i) in Hrun2 by (subst i; rewrite !app_length; cbn [length]; lia).
        rewrite <- !app_assoc in Hrun2. cbn [app] in Hrun2. rewrite <- app_assoc. exact Hrun2. }
      (* the component the decoder looks at *)
      assert (Hnth: nth_error fs (length done) = nth_error (skipped ++ (p, ft) :: todo) 0).
      { rewrite Hfs. rewrite nth_error_app2 by lia. rewrite Nat.sub_diag. reflexivity. }
      assert (Hskip: skipn (length done) fs = skipped ++ (p, ft) :: todo).
      { rewrite Hfs. apply skipn_app_length. }
      destruct (match skipped with [] => is_req p | _ => false end) eqn:Ehead.
      + (* a mandatory component, none skipped before it: the type guides the decoder *)
        destruct skipped as [|sk0 skr]; [|discriminate Ehead]. cbn [app nth_error] in Hnth.
        cbn [map app length] in *. subst i. rewrite Nat.add_0_r in *.
        unfold seq_component_spec. rewrite Hnth. rewrite Ehead, Bool.orb_true_r.
        destruct (Hreq Ehead s _ Hav) as (s1 & Hrun & Hpos & Harr & Hcl).
        rewrite (resume_pbind_done _ _ _ _ _ Hrun).
        pose proof (consumes_avail pb s _ s1 Hav Hpos Harr) as Hav1.
        rewrite ?Hidx. unfold seq_position. rewrite Hnth, Ehead.
        assert (Hpos_ok: (if det then Ok (length done) else Ok (length done)) = Ok (length done)) by (destruct det; reflexivity).
        rewrite Hpos_ok. cbn [lift pbind]. rewrite Hidx.
        rewrite app_nil_r in Hsetnth. rewrite Hsetnth.
        destruct (Hcont s1 Hav1 Hpos Harr Hcl) as (s2 & Hrun2 & Hrest). rewrite app_nil_r in Hrun2.
        exists s2. split; [exact Hrun2|exact Hrest].
      + (* otherwise the tag map of the run resolves the tags met *)
        assert (Hhd: exists hp ht rest, skipped ++ (p, ft) :: todo = (hp, ht) :: rest /\ is_req hp = false).
        { destruct skipped as [|[p0 t0] skr].
          - exists p, ft, todo. split; [reflexivity|exact Ehead].
          - inversion Hsk as [|? ? H0 _]; subst. exists p0, t0, (skr ++ (p, ft) :: todo). split; [reflexivity|exact H0]. }
        destruct Hhd as (hp & ht & rest & Hhd & Hhp).
        assert (Hdet: det = false).
        { subst det. apply (forallb_req_false fs (hp, ht)); [|exact Hhp].
          rewrite Hfs. apply in_or_app. right. rewrite Hhd. left. reflexivity. }
        unfold seq_component_spec. rewrite Hnth, Hhd. cbn [nth_error]. rewrite Hdet, Hhp. cbn [orb].
        rewrite Hskip.
        set (run := ambiguous_run (skipped ++ (p, ft) :: todo)).
        assert (HKrun: keys_ok (flat_map ckeys run) = true).
        { subst run. rewrite Hhd. apply seq_wf_head; [|exact Hhp]. rewrite <- Hhd, <- Hskip.
          rewrite <- (firstn_skipn (length done) fs) in Hwf. exact (seq_wf_app _ _ Hwf). }
        assert (Hrun_nth: nth_error run (length skipped) = Some ft).
        { subst run. rewrite (ambiguous_run_skipped skipped _ Hsk).
          destruct (ambiguous_run_head p ft todo) as (rr & ->).
          rewrite nth_error_app2 by (rewrite map_length; lia). rewrite map_length, Nat.sub_diag. reflexivity. }
        destruct (Hkeys (keys_ok_sub ft run (nth_error_In _ _ Hrun_nth) HKrun)) as (Hdec & Heff & Hwne).
        pose proof (resolves_sib false run (length skipped) ft x HKrun Hrun_nth Hwne) as Hres.
        destruct (Hdec _ Hres s _ Hav) as (s1 & Hrun & Hpos & Harr & Hcl).
        rewrite (resume_pbind_done _ _ _ _ _ Hrun).
        pose proof (consumes_avail pb s _ s1 Hav Hpos Harr) as Hav1.
        rewrite ?Hidx. unfold seq_position. rewrite Hnth, Hhd. cbn [nth_error]. rewrite Hhp.
        rewrite Hskip. fold run. rewrite Heff.
        rewrite (sib_pos run HKrun (length skipped) ft (wire_tags ft x) Hrun_nth (tm_mem_in _ _ (wire_in_ckeys ft x Hwne))).
        cbn [bind lift pbind]. fold i. rewrite Hileb. rewrite Hsetnth.
        destruct (Hcont s1 Hav1 Hpos Harr Hcl) as (s2 & Hrun2 & Hrest).
        exists s2. split; [exact Hrun2|exact Hrest].
  Qed.

  Lemma dec_record_opt_indef T fs vs parts ds :
    seq_wf fs = true -> fplan (rec_ae rec true) lf fs vs parts ds -> (length parts < lf)%nat ->
    consumes (dec_record rec lf T fs false None) (concat parts ++ [0; 0]) (DV T (VRec ds)).
  Proof.
    intros Hwf HP Hlf s tl Hav. unfold dec_record. rewrite resume_tell. rewrite <- app_assoc in Hav.
    destruct fs as [|f0 fs0].
    - inversion HP; subst. destruct lf as [|n]; [cbn [length] in Hlf; lia|].
      cbn [record_loop]. cbv zeta. rewrite resume_tell. cbn [negb].
      cbn [concat app] in Hav.
      rewrite (resume_pbind_done _ _ _ _ _ (Heoo SNone false s tl Hav)). cbn [resume map].
      exists (adv s 2). cbn [concat app length]. rewrite pos_adv. repeat split.
    - destruct (record_loop_opt_indef T (f0 :: fs0) eq_refl Hwf (f0 :: fs0) vs parts ds HP [] [] [] lf (pos s)
                  s tl eq_refl eq_refl (Forall_nil _) eq_refl Hlf Hav)
        as (s' & Hrun & Hpos & Harr & Hcl).
      exists s'. split; [exact Hrun|]. rewrite app_length. cbn [length]. repeat split; try assumption. lia.
  Qed.
End RecordLoopIndef.

(* ---------- the encoder's component loop, in any mode ---------- *)

Lemma stable_ifne ce d k : stable ce d k -> fix_opts ce (mkOpts d k true) = mkOpts d k true.
Proof.
  unfold stable, fix_opts, mo. destruct (enc_fixed ce) as [[fd|] [fc|]]; cbn [o_def o_chunk o_ifne]; intros H;
    inversion H; reflexivity.
Qed.

(* under the encoders that omit empty OPTIONAL components (CER, DER: their options are fixed) the
   non-emptiness condition of [stage3_val] is stated for the options the encoder really uses *)
Lemma omits_ifne_opts ce T d k v : omits ce = true -> stable ce d k ->
  enc_with ce (enc_content ce) T (mkOpts d k true) v = encw ce T ifne_opts v.
Proof. destruct ce; intros Ho Hst; [discriminate Ho|reflexivity|reflexivity]. Qed.

Section Modes3c.
  Variables ce cd : codec.
  Variable d : bool.
  Variable k : N.
  Hypothesis Hst : stable ce d k.
  Hypothesis Hcd : dec_ok cd.
  Variable R : aval -> aval -> Prop.
  Variable srt : bool.
  Hypothesis HR : rel_ok R srt.

  Notation encm := (encm ce d k).
  Notation val_ok_m := (val_ok_m ce cd d k R).
  Notation item_sty_m := (item_sty_m ce cd d k R).

  (* the ifNotEmpty option only matters when it empties the encoding (defect F24) *)
  Lemma encm_ifne T v b : enc_with ce (enc_content ce) T (mkOpts d k true) v = Ok b -> b <> [] -> encm T v = Ok b.
  Proof.
    unfold RoundTripModes3b.encm, enc_with. intros H Hne.
    rewrite (stable_ifne ce d k Hst) in H. unfold stable in Hst. rewrite Hst.
    destruct (concrete_encoder ce T) as [[ec fl]|e]; cbn [bind] in *; [|discriminate].
    destruct (tagset_of T) as [ts|e]; cbn [bind] in *; [|discriminate].
    change (mkOpts (o_def (mkOpts d k true)) (o_chunk (mkOpts d k true)) false) with (mo d k) in H.
    change (mkOpts (o_def (mo d k)) (o_chunk (mo d k)) false) with (mo d k).
    destruct (enc_content ce T ec fl (mo d k) v) as [[content cns]|e]; cbn [bind] in *; [|discriminate].
    destruct ts as [|t0 r]; [exact H|].
    cbn [frame] in *. cbn [o_ifne o_def mo] in *. rewrite Bool.andb_false_r.
    destruct content as [|c0 content]; [|exact H].
    destruct cns; [|exact H]. cbn [andb] in H. inversion H; subst. congruence.
  Qed.

  Definition comp_ok_m (Pv: ty -> val -> Prop) (f: presence * ty) : Prop :=
    (is_req (fst f) = false -> keys_ok (ckeys (snd f)) = true) /\
    forall x, Pv (snd f) x ->
      (keys_ok (ckeys (snd f)) = true -> val_ok_m (snd f) x) /\
      (is_req (fst f) = true -> item_sty_m (snd f) x).

  Lemma fields_plan_m (Pv: ty -> val -> Prop) ec omit : (omit = true -> omits ce = true) -> forall fs,
    Forall (comp_ok_m Pv) fs ->
    forall vs parts, comp_vals ce Pv fs vs -> enc_rec_fields_g ce ec omit (mo d k) fs vs = Ok parts ->
    N.of_nat (length (concat (map snd parts))) <= index_max ->
    exists ds, Forall2 (opt_rel R) (abs_fields fs ds) (abs_fields fs vs) /\
      forall f ae, (length (concat (map snd parts)) + max_depth fs <= f)%nat ->
                fplan (rec_ae (dec_call cd f) ae) f fs vs (map snd parts) ds.
  Proof.
    intros Homit fs HF vs parts HCV. revert parts HF.
    (* what happens to a component that is written with the ifNotEmpty flag [ine] *)
    assert (Hemit: forall p ft fs vs x (ine: bool) parts,
              (ine = false \/ (ine = true /\ enc_with ce (enc_content ce) ft (mkOpts d k true) x <> Ok [])) ->
              Pv ft x -> comp_ok_m Pv (p, ft) ->
              (do b <- enc_with ce (enc_content ce) ft (mkOpts d k ine) x; do rest <- enc_rec_fields_g ce ec omit (mo d k) fs vs;
               Ok ((set_sort_key (match ec with EcSetDer => true | _ => false end) ft x, b) :: rest)) = Ok parts ->
              N.of_nat (length (concat (map snd parts))) <= index_max ->
              exists pb rest x', parts = (set_sort_key (match ec with EcSetDer => true | _ => false end) ft x, pb) :: rest /\
                enc_rec_fields_g ce ec omit (mo d k) fs vs = Ok rest /\
                R (abs ft x') (abs ft x) /\
                forall f ae ps ds, (length pb + ty_depth ft <= f)%nat -> fplan (rec_ae (dec_call cd f) ae) f fs vs ps ds ->
                  fplan (rec_ae (dec_call cd f) ae) f ((p, ft) :: fs) (Some x :: vs) (pb :: ps) (Some x' :: ds)).
    { intros p ft fs0 vs0 x ine parts Hine HPx [Hkopt Hcomp] He Hmax. cbn [fst snd] in Hkopt, Hcomp.
      destruct (Hcomp x HPx) as [Hval Hsty].
      destruct (enc_with ce (enc_content ce) ft (mkOpts d k ine) x) as [pb|e] eqn:Ep; cbn [bind] in He; [|discriminate].
      destruct (enc_rec_fields_g ce ec omit (mo d k) fs0 vs0) as [rest|e] eqn:Er; cbn [bind] in He; [|discriminate].
      inversion He; subst parts; clear He.
      assert (Ep': encm ft x = Ok pb).
      { destruct Hine as [-> | [-> Hne]]; [exact Ep|]. apply encm_ifne; [exact Ep|]. intros ->. apply Hne. exact Ep. }
      cbn [map snd concat] in Hmax. rewrite app_length in Hmax.
      destruct (keys_ok (ckeys ft)) eqn:HK.
      - (* good keys: the invariant gives everything *)
        specialize (Hval eq_refl).
        destruct (item_of_val_m ce cd d k Hcd R ft x pb Hval Ep' ltac:(lia)) as (x' & Hax & Hwx & Hwne & Hit).
        exists pb, rest, x'. split; [reflexivity|]. split; [reflexivity|]. split; [exact Hax|].
        intros f ae ps ds Hf HP. constructor; try assumption.
        + destruct (Hit (STy ft) (resolves_sty ft x HK Hwne)) as (Hl & _ & _). lia.
        + intros _. destruct (Hit (STy ft) (resolves_sty ft x HK Hwne)) as (_ & _ & Hc). apply Hc. unfold fuel_ok. lia.
        + intros _. split; [|split].
          * intros sp Hres. destruct (Hit sp Hres) as (_ & _ & Hc). apply Hc. unfold fuel_ok. lia.
          * rewrite <- Hwx. apply effective_wire; [lia|]. rewrite Hwx. exact Hwne.
          * exact Hwne.
      - (* otherwise the component is mandatory and guided by its type *)
        assert (Hr: is_req p = true) by (destruct (is_req p) eqn:E; [reflexivity|specialize (Hkopt eq_refl); discriminate Hkopt]).
        destruct (Hsty Hr pb Ep' ltac:(lia)) as (x' & Hax & Hl & _ & Hc).
        exists pb, rest, x'. split; [reflexivity|]. split; [reflexivity|]. split; [exact Hax|].
        intros f ae ps ds Hf HP. constructor; try assumption.
        + lia.
        + intros _. apply Hc. unfold fuel_ok. lia.
        + intros E. rewrite HK in E. discriminate E. }
    induction HCV as [|ft x fs vs HPx HCV IH|ft fs vs HCV IH|ft x fs vs HPx Hne HCV IH|dv ft fs vs HCV IH|dv ft x fs vs HPx Hpy HCV IH];
      intros parts HF He Hmax.
    - inversion He; subst. exists []. split; [constructor|]. intros f ae _. constructor.
    - (* mandatory *)
      inversion HF as [|? ? Hcomp HF']; subst.
      cbn [enc_rec_fields_g] in He. fold (enc_rec_fields_g ce ec omit (mo d k)) in He.
      assert (Ho: (if omit then mkOpts (o_def (mo d k)) (o_chunk (mo d k)) false else mo d k) = mkOpts d k false) by (destruct omit; reflexivity).
      rewrite Ho in He.
      destruct (Hemit Req ft fs vs x false parts (or_introl eq_refl) HPx Hcomp He Hmax) as (pb & rest & x' & -> & Er & Hax & Hfp).
      cbn [map snd concat] in Hmax. rewrite app_length in Hmax.
      destruct (IH rest HF' Er ltac:(lia)) as (ds & Hads & Hplan).
      exists (Some x' :: ds). split.
      + rewrite !abs_fields_cons. constructor; [constructor; exact Hax|exact Hads].
      + intros f ae Hf. cbn [map snd concat max_depth fold_right] in Hf. rewrite app_length in Hf.
        cbn [map snd]. apply Hfp; [lia|]. apply Hplan. unfold max_depth. lia.
    - (* OPTIONAL, absent *)
      inversion HF as [|? ? Hcomp HF']; subst.
      cbn [enc_rec_fields_g] in He. fold (enc_rec_fields_g ce ec omit (mo d k)) in He.
      destruct (IH parts HF' He Hmax) as (ds & Hads & Hplan).
      exists (None :: ds). split.
      + rewrite !abs_fields_cons. constructor; [constructor|exact Hads].
      + intros f ae Hf. constructor; [reflexivity|]. apply Hplan. cbn [max_depth fold_right] in Hf. unfold max_depth. lia.
    - (* OPTIONAL, present *)
      inversion HF as [|? ? Hcomp HF']; subst.
      cbn [enc_rec_fields_g] in He. fold (enc_rec_fields_g ce ec omit (mo d k)) in He.
      assert (Ho: (if omit then mkOpts (o_def (mo d k)) (o_chunk (mo d k)) true else mo d k) = mkOpts d k omit) by (destruct omit; reflexivity).
      rewrite Ho in He.
      assert (Hine: omit = false \/ (omit = true /\ enc_with ce (enc_content ce) ft (mkOpts d k true) x <> Ok [])).
      { destruct omit; [right; split; [reflexivity|]|left; reflexivity].
        rewrite (omits_ifne_opts ce ft d k x (Homit eq_refl) Hst). exact (Hne (Homit eq_refl)). }
      destruct (Hemit Opt ft fs vs x omit parts Hine HPx Hcomp He Hmax) as (pb & rest & x' & -> & Er & Hax & Hfp).
      cbn [map snd concat] in Hmax. rewrite app_length in Hmax.
      destruct (IH rest HF' Er ltac:(lia)) as (ds & Hads & Hplan).
      exists (Some x' :: ds). split.
      + rewrite !abs_fields_cons. constructor; [constructor; exact Hax|exact Hads].
      + intros f ae Hf. cbn [map snd concat max_depth fold_right] in Hf. rewrite app_length in Hf.
        cbn [map snd]. apply Hfp; [lia|]. apply Hplan. unfold max_depth. lia.
    - (* DEFAULT, absent *)
      inversion HF as [|? ? Hcomp HF']; subst.
      cbn [enc_rec_fields_g] in He. fold (enc_rec_fields_g ce ec omit (mo d k)) in He.
      destruct (IH parts HF' He Hmax) as (ds & Hads & Hplan).
      exists (None :: ds). split.
      + rewrite !abs_fields_cons. constructor; [constructor; apply (r_refl _ _ HR)|exact Hads].
      + intros f ae Hf. constructor; [reflexivity|]. apply Hplan. cbn [max_depth fold_right] in Hf. unfold max_depth. lia.
    - (* DEFAULT, present *)
      inversion HF as [|? ? Hcomp HF']; subst.
      cbn [enc_rec_fields_g] in He. fold (enc_rec_fields_g ce ec omit (mo d k)) in He.
      destruct (val_py_eq x dv) as [[|]|] eqn:Epy; [| |discriminate He].
      + (* equal to the default: not written *)
        destruct (IH parts HF' He Hmax) as (ds & Hads & Hplan).
        exists (None :: ds). split.
        * rewrite !abs_fields_cons. constructor; [constructor; rewrite (Hpy eq_refl); apply (r_refl _ _ HR)|exact Hads].
        * intros f ae Hf. constructor; [reflexivity|]. apply Hplan. cbn [max_depth fold_right] in Hf. unfold max_depth. lia.
      + assert (Ho: (if omit then mkOpts (o_def (mo d k)) (o_chunk (mo d k)) false else mo d k) = mkOpts d k false) by (destruct omit; reflexivity).
        rewrite Ho in He.
        destruct (Hemit (Def dv) ft fs vs x false parts (or_introl eq_refl) HPx Hcomp He Hmax) as (pb & rest & x' & -> & Er & Hax & Hfp).
        cbn [map snd concat] in Hmax. rewrite app_length in Hmax.
        destruct (IH rest HF' Er ltac:(lia)) as (ds & Hads & Hplan).
        exists (Some x' :: ds). split.
        * rewrite !abs_fields_cons. constructor; [constructor; exact Hax|exact Hads].
        * intros f ae Hf. cbn [map snd concat max_depth fold_right] in Hf. rewrite app_length in Hf.
          cbn [map snd]. apply Hfp; [lia|]. apply Hplan. unfold max_depth. lia.
  Qed.

  (* SEQUENCE with mandatory, OPTIONAL and DEFAULT components, under any tagging, in any mode *)
  Lemma record_val_m (Pv: ty -> val -> Prop) T' fs : base_of T' = TSeq fs -> wf_tags T' = true -> seq_wf fs = true ->
    Forall (comp_ok_m Pv) fs ->
    forall vs, comp_vals ce Pv fs vs -> val_ok_m T' (VRec vs).
  Proof.
    intros Hb Hw Hwf IHfs vs HCV b He Hmax.
    assert (Htb: tagged_base T' = true) by (unfold tagged_base; rewrite Hb; reflexivity).
    destruct (tagset_shape_nz T' Htb Hw) as (t0 & r & b0 & Hb0 & Hts & Hc0 & Hex & Hd & Hnz & Hne).
    assert (Hb0p: tcon b0 = true /\ tnum b0 <> 0).
    { rewrite Hb in Hb0; inversion Hb0; split; try reflexivity; discriminate. }
    destruct Hb0p as [Hb0c Hb0n].
    assert (Hcon: tcon t0 = true) by congruence.
    assert (Hnz': tcls t0 <> Univ \/ tnum t0 <> 0) by (destruct Hnz as [-> | H]; [right; exact Hb0n|left; exact H]).
    assert (Hdep: ty_depth (base_of T') = S (max_depth fs)) by (rewrite Hb; reflexivity).
    assert (Hnc: match T' with TChoice _ => False | _ => True end).
    { destruct T'; try exact I. discriminate Hb. }
    destruct (RoundTripModesC.enc_with_inv_g ce T' d k _ b Hst He) as (ec & fl & ts & content & cns & Hcenc & Hts' & Hcont & Hfr).
    rewrite Hts in Hts'. inversion Hts'; subst ts; clear Hts'.
    rewrite concrete_encoder_base in Hcenc. rewrite enc_content_base in Hcont.
    rewrite (enc_content_rec ce (base_of T') fs ec fl (mo d k) vs (or_introl Hb)) in Hcont.
    assert (Hec: ec = EcSeq /\ ef_indef fl = true /\ (ef_omit_empty fl = true -> omits ce = true)).
    { unfold omits. rewrite Hb in Hcenc. destruct ce; vm_compute in Hcenc;
        inversion Hcenc; subst ec fl; repeat split; try reflexivity. discriminate. }
    destruct Hec as (-> & Hsi & Homit).
    destruct (enc_rec_fields_g ce EcSeq (ef_omit_empty fl) (mo d k) fs vs) as [parts|e] eqn:Eparts; cbn [bind] in Hcont; [|discriminate].
    inversion Hcont; subst content cns; clear Hcont. rewrite Hsi in Hfr.
    pose proof (frame_modes_len _ _ _ _ _ _ _ _ Hex Hfr) as Hlen.
    destruct (fields_plan_m Pv EcSeq (ef_omit_empty fl) Homit fs IHfs vs parts HCV Eparts ltac:(lia)) as (ds & Habs & Hplan).
    exists t0, r, (concat (map snd parts)), true, true, (VRec ds).
    split; [rewrite (wire_tags_plain T' _ Hnc); apply tagset_of'_ok; exact Hts|].
    split; [exact Hex|]. split; [lia|]. split; [exact Hnz'|]. split; [reflexivity|]. split; [exact Hfr|].
    split; [rewrite (wire_tags_plain T' _ Hnc); apply tagset_of'_ok; exact Hts|].
    split.
    { rewrite (abs_wrappers T' (VRec ds)), (abs_wrappers T' (VRec vs)), Hb. rewrite !abs_seq.
      apply (r_rec _ _ HR). exact Habs. }
    exists DcSeq, (mkDecFlags true (Some KSeq)). split.
    { rewrite by_type_base, Hb. destruct Hcd as [-> | ->]; vm_compute; reflexivity. }
    intros f Hf.
    assert (Hw1: wire t0 true = t0) by (apply wire_con; exact Hcon). rewrite Hw1.
    unfold val_consumes. destruct d; cbn [andb negb]; cbn [dec_value tag0_cons]; rewrite Hcon; cbn [negb]; rewrite Hb.
    - assert (HP: fplan (dec_call cd f) f fs vs (map snd parts) ds) by (apply fplan_rec_false; apply Hplan; lia).
      apply (dec_record_opt (dec_call cd f) f T' fs vs (map snd parts) ds Hwf HP).
      pose proof (fplan_count _ _ _ _ _ _ HP). lia.
    - assert (HP: fplan (rec_ae (dec_call cd f) true) f fs vs (map snd parts) ds) by (apply Hplan; lia).
      destruct f as [|f']; [lia|].
      apply (dec_record_opt_indef (dec_call cd (S f')) (S f') (eoo_ok_call cd f' Hcd) T' fs vs (map snd parts) ds Hwf HP).
      pose proof (fplan_count _ _ _ _ _ _ HP). lia.
  Qed.

End Modes3c.

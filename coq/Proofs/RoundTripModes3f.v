(* Round trip under every encoder mode for the whole type universe (C01/C02), part (f): ANY in every
   mode.  The untagged ANY holds one complete TLV of definite length and is written as it is; the decoder
   takes it where end-of-octets is allowed because its first octet is not zero.  A tagged ANY is written,
   in indefinite-length mode, as the tag, 80, the octets, 00 00 - and the decoder reads the octets back
   TLV by TLV up to the end-of-octets marker: the octets must then be a sequence of complete TLVs. *)
From Coq Require Import Lia Permutation.
From PV Require Import Base.Bytes Model.Tag Model.TableTypes Model.Types Model.Proc Model.Enc Model.Dec Gen.Tables
     Proofs.ProcBind Proofs.RunLemmas Proofs.TagOctets Proofs.TagAlgebra Proofs.DecHeader Proofs.DecFrame Proofs.DecPrim
     Proofs.TagsetShape Proofs.Schemaless Proofs.RoundTrip1 Proofs.RoundTrip2 Proofs.TagReject Proofs.ContainerCodecSort
     Proofs.RoundTripModesA Proofs.RoundTripModesB Proofs.RoundTripModesC Proofs.RoundTripModesBag Proofs.RoundTripModes
     Proofs.RoundTrip3 Proofs.RoundTrip3a Proofs.RoundTrip3b Proofs.RoundTrip3c Proofs.RoundTrip3d Proofs.RoundTrip3e
     Proofs.RoundTripModes3a Proofs.RoundTripModes3b Proofs.RoundTripModes3c Proofs.RoundTripModes3d.
Local Open Scope N_scope.

(* ---------- one TLV ---------- *)

Lemma tlv_ok_facts b : tlv_ok b = true -> (2 <= length b)%nat /\ hd 0 b <> 0.
Proof.
  intros H. destruct (tlv_ok_inv b H) as (t & r1 & r2 & Hid & Hdl & Hne).
  pose proof (dec_ident_len _ _ _ Hid) as L1. pose proof (dec_len_len _ _ _ Hdl) as L2.
  split; [lia|].
  destruct b as [|o b']; [discriminate Hid|]. cbn [hd]. intros ->.
  cbn in Hid. inversion Hid; subst t. discriminate Hne.
Qed.

Lemma any_by_type cd : dec_ok cd -> by_type cd TAny = Some (DcAny, mkDecFlags true (Some KAny)).
Proof. intros [-> | ->]; vm_compute; reflexivity. Qed.

(* the decoder guided by the untagged ANY goes back to the start of the header and takes the whole TLV:
   as a value, or as raw octets for a caller that collects fragments *)
Lemma any_tlv_consumes cd bs (sfun: bool) f : dec_ok cd -> tlv_ok bs = true -> N.of_nat (length bs) <= index_max ->
  (length bs + 1 <= f)%nat ->
  forall ae, consumes (dec_call cd f (STy TAny) [] None ae sfun) bs (if sfun then DRaw bs else DV TAny (VAny bs)).
Proof.
  intros Hcd Htlv Hmax Hf.
  destruct (tlv_ok_facts bs Htlv) as [Hl2 Hhd].
  apply ae_any; [apply dec_ok_indef; exact Hcd|exact Hl2|exact Hhd|].
  destruct (tlv_ok_inv bs Htlv) as (t & r1 & content & Hid & Hdl & Hneoo).
  pose proof (dec_ident_len _ _ _ Hid) as L1. pose proof (dec_len_len _ _ _ Hdl) as L2.
  pose proof (any_by_type cd Hcd) as Hby.
  destruct f as [|f']; [lia|].
  intros s tl Hav.
  rewrite (dec_call_header_g cd f' (STy TAny) [] sfun bs tl t r1 _ content s Hid Hdl Hav) by lia.
  set (hl := (length bs - length content)%nat).
  set (s1 := adv (setmark s (pos s)) hl).
  unfold dispatch.
  assert (Hcontains: (tagset_eqb [t] (tagset_of' TAny) || tm_contains (tagmap_of TAny) [t])%bool = true).
  { cbn [tagset_of' tagset_of tagmap_of]. unfold tm_contains, tm_find, tm_mem, eoo_tagset. cbn [tm_present tm_default tm_skip assoc existsb].
    change (tagset_eqb [t] []) with false. cbn [orb].
    change (tagset_eqb [t] [utag false 0]) with (tag_eqb t (utag false 0) && true)%bool.
    unfold tag_eqb, utag. cbn [tcls tnum]. rewrite Hneoo. reflexivity. }
  rewrite Hcontains. change (tm_postponed (tagmap_of TAny)) with false. cbv iota. rewrite Hby.
  rewrite resume_tell. cbn [dec_value]. unfold dec_any.
  change (tagset_eqb [t] (tagset_of' TAny)) with false. cbn [negb].
  assert (Hlenb: length bs = (hl + length content)%nat) by (subst hl; lia).
  set (s2 := setpos s1 (pos s1 - (pos s1 - mark s1))).
  assert (Hstep1: resume (let! m := getmark in let! p := tell in
                          SeekBack (p - m) (Ret (N.of_nat (length content) + N.of_nat (p - m)))) s1
                  = inr (Ok (N.of_nat (length bs)), s2)).
  { unfold getmark, tell. cbn [pbind resume]. fold s2. f_equal. f_equal. f_equal.
    change (mark s1) with (pos s). change (pos s1) with (pos s + hl)%nat. lia. }
  assert (Hs2: avail s2 = bs ++ tl).
  { subst s2. unfold avail, setpos. cbn [pos arrived]. change (mark s1) with (pos s). change (pos s1) with (pos s + hl)%nat.
    replace (pos s + hl - (pos s + hl - pos s))%nat with (pos s) by lia. exact Hav. }
  assert (Hps2: pos s2 = pos s).
  { subst s2. unfold setpos. cbn [pos]. change (mark s1) with (pos s). change (pos s1) with (pos s + hl)%nat. lia. }
  assert (Hstep2: resume (let! len' := (let! m := getmark in let! p := tell in
                                        SeekBack (p - m) (Ret (N.of_nat (length content) + N.of_nat (p - m)))) in
                          let! b := read_len f' len' in
                          if sfun then Ret (DRaw b) else create (Some TAny) TAny [t] (VAny b)) s1
                  = inr (Ok (if sfun then DRaw bs else DV TAny (VAny bs)), adv s2 (length bs))).
  { rewrite (resume_pbind_done _ _ _ _ _ Hstep1).
    rewrite (resume_read_len f' bs tl s2 _ Hs2 Hmax) by lia. destruct sfun; reflexivity. }
  rewrite (resume_pbind_done _ _ _ _ _ Hstep2). rewrite resume_tell.
  change (pos (adv s2 (length bs))) with (pos s2 + length bs)%nat. rewrite Hps2.
  change (pos s1) with (pos s + hl)%nat.
  replace (pos s + length bs - (pos s + hl))%nat with (length content) by lia.
  rewrite N.eqb_refl. cbn [resume].
  exists (adv s2 (length bs)). split; [reflexivity|]. split; [rewrite pos_adv, Hps2; reflexivity|]. split; reflexivity.
Qed.

(* ---------- a sequence of TLVs ---------- *)

(* the octets are a sequence of complete TLVs, each with a definite length (header in any form), none
   of them the end-of-octets marker *)
Fixpoint tlvs_ok (fuel: nat) (b: bytes) : bool :=
  match b with
  | [] => true
  | _ => match fuel with
         | O => false
         | S f => match dec_ident b with
                  | Some (t, r1) =>
                      match dec_len r1 with
                      | Some (Some n, r2) =>
                          let m := (length b - length r2 + N.to_nat n)%nat in
                          tlv_ok (firstn m b) && tlvs_ok f (skipn m b)
                      | _ => false
                      end
                  | None => false
                  end
         end
  end.

Definition any_payload_ok (b: bytes) : bool := tlvs_ok (S (length b)) b.

Lemma tlvs_ok_split : forall fuel b, tlvs_ok fuel b = true ->
  exists pieces, concat pieces = b /\ Forall (fun p => tlv_ok p = true) pieces.
Proof.
  induction fuel as [|f IH]; intros b H.
  - destruct b; [|discriminate H]. exists []. split; [reflexivity|constructor].
  - destruct b as [|o b']; [exists []; split; [reflexivity|constructor]|].
    cbn [tlvs_ok] in H.
    destruct (dec_ident (o :: b')) as [[t r1]|]; [|discriminate H].
    destruct (dec_len r1) as [[[n|] r2]|]; try discriminate H.
    cbv zeta in H. apply Bool.andb_true_iff in H. destruct H as [H1 H2].
    destruct (IH _ H2) as (pieces & Hc & HF).
    exists (firstn (length (o :: b') - length r2 + N.to_nat n) (o :: b') :: pieces). split.
    + cbn [concat]. rewrite Hc. apply firstn_skipn.
    + constructor; assumption.
Qed.

Section AnyLoop.
  Variable cd : codec.
  Hypothesis Hcd : dec_ok cd.

  Lemma any_indef_run T' ts : base_of T' = TAny -> forall pieces, Forall (fun p => tlv_ok p = true) pieces ->
    forall f n acc s tl,
      (length pieces < n)%nat ->
      (length (concat pieces) + 1 <= f)%nat -> N.of_nat (length (concat pieces)) <= index_max ->
      avail s = concat pieces ++ [0; 0] ++ tl ->
      exists s', resume (any_indef_loop (dec_call cd (S f)) (Some T') ts false true n acc) s
                 = inr (Ok (DV T' (VAny (acc ++ concat pieces))), s')
        /\ pos s' = (pos s + length (concat pieces) + 2)%nat /\ arrived s' = arrived s /\ closed s' = closed s.
  Proof.
    intros Hb pieces HF. induction HF as [|p pieces Hp HF IH]; intros f n acc s tl Hn Hf Hmax Hav.
    - destruct n as [|n']; [cbn [length] in Hn; lia|].
      cbn [any_indef_loop]. unfold fragment. cbn [concat app] in Hav.
      rewrite (resume_pbind_done _ _ _ _ _ (eoo_read cd f (STy TAny) [] None true s tl (dec_ok_indef cd Hcd) Hav)).
      rewrite !app_nil_r. unfold create. rewrite Hb. cbn [resume].
      exists (adv s 2). cbn [concat length]. rewrite pos_adv. repeat split. lia.
    - destruct n as [|n']; [cbn [length] in Hn; lia|].
      cbn [any_indef_loop]. unfold fragment.
      cbn [concat] in Hav, Hf, Hmax. rewrite app_length in Hf, Hmax. rewrite <- app_assoc in Hav.
      destruct (any_tlv_consumes cd p true (S f) Hcd Hp ltac:(lia) ltac:(lia) true s _ Hav) as (s1 & Hrun & Hpos & Harr & Hcl).
      rewrite (resume_pbind_done _ _ _ _ _ Hrun).
      pose proof (consumes_avail p s _ s1 Hav Hpos Harr) as Hav1.
      cbn [length] in Hn.
      destruct (IH f n' (acc ++ p) s1 tl ltac:(lia) ltac:(lia) ltac:(lia) Hav1) as (s2 & Hrun2 & Hpos2 & Harr2 & Hcl2).
      exists s2. rewrite Hrun2. rewrite <- app_assoc. cbn [concat]. rewrite app_length.
      split; [reflexivity|]. split; [lia|]. split; congruence.
  Qed.
End AnyLoop.

Lemma tlv_pieces_count pieces : Forall (fun p => tlv_ok p = true) pieces -> (length pieces <= length (concat pieces))%nat.
Proof.
  induction 1 as [|p l Hp _ IH]; [cbn; lia|]. destruct (tlv_ok_facts p Hp) as [H2 _].
  cbn [length concat]. rewrite app_length. lia.
Qed.

Section Modes3f.
  Variables ce cd : codec.
  Variable d : bool.
  Variable k : N.
  Hypothesis Hst : stable ce d k.
  Hypothesis Hcd : dec_ok cd.
  Variable R : aval -> aval -> Prop.
  Variable srt : bool.
  Hypothesis HR : rel_ok R srt.

  Notation encm := (encm ce d k).
  Notation val_ok_m := (val_ok_m ce cd d k R).
  Notation item_sty_m := (item_sty_m ce cd d k R).

  Lemma any_codecs_m T' : base_of T' = TAny ->
    (exists fl, concrete_encoder ce T' = Ok (EcAny, fl) /\ ef_indef fl = true)
    /\ by_type cd T' = Some (DcAny, mkDecFlags true (Some KAny)).
  Proof.
    intros Hb. split.
    - rewrite concrete_encoder_base, Hb. destruct ce; eexists; (split; [vm_compute; reflexivity|reflexivity]).
    - rewrite by_type_base, Hb. apply any_by_type. exact Hcd.
  Qed.

  (* the untagged ANY guided by its own type *)
  Lemma any_item_m v : stage3_val ce cd TAny v = true -> item_sty_m TAny v.
  Proof.
    intros Hv p Ep Hmax.
    assert (Hvo: exists bs, octets_of v = Some bs /\ abs TAny v = AAny bs /\ tlv_ok bs = true).
    { destruct v; try discriminate Hv; eexists; (split; [reflexivity|split; [reflexivity|exact Hv]]). }
    destruct Hvo as (bs & Hoct & Habs & Htlv).
    destruct (any_codecs_m TAny eq_refl) as [(fl & Hcenc & Hsi) Hby].
    destruct (RoundTripModesC.enc_with_inv_g ce _ d k _ p Hst Ep) as (ec & fl' & ts & content & cns & Hcenc' & Hts' & Hcont & Hfr).
    rewrite Hcenc in Hcenc'. inversion Hcenc'; subst ec fl'; clear Hcenc'.
    cbn [tagset_of] in Hts'. inversion Hts'; subst ts; clear Hts'.
    cbn [enc_content] in Hcont. rewrite Hoct in Hcont. inversion Hcont; subst content cns; clear Hcont.
    cbn [frame] in Hfr. inversion Hfr; subst p; clear Hfr.
    destruct (tlv_ok_facts bs Htlv) as [Hl2 Hhd].
    exists (VAny bs). split; [rewrite Habs; apply (r_refl _ _ HR)|].
    split; [exact Hl2|]. split; [exact Hhd|].
    intros f ae Hf. unfold fuel_ok in Hf. cbn [ty_depth] in Hf.
    exact (any_tlv_consumes cd bs false f Hcd Htlv Hmax ltac:(lia) ae).
  Qed.

  (* a tagged ANY: any octets when lengths are definite; a sequence of TLVs when they are not *)
  Lemma any_val_tagged_m srt0 T' : base_of T' = TAny -> is_wrapped T' = true -> stage3_ty srt0 ce T' = true ->
    forall v bs, octets_of v = Some bs -> abs TAny v = AAny bs -> (d = false -> any_payload_ok bs = true) -> val_ok_m T' v.
  Proof.
    intros Hb Hwr Hty v bs Hoct Habs Hpay b He Hmax.
    assert (Hub: untagged_base T' = true) by (unfold untagged_base; rewrite Hb; reflexivity).
    destruct (tagset_shape_u srt0 ce T' Hty Hub Hwr) as (t0 & r & Hts & Hc0 & Hexall & Hd).
    pose proof (explicit_all_nz t0 r Hexall) as Hnz.
    inversion Hexall as [|? ? _ Hex]; subst.
    assert (Hnc: match T' with TChoice _ => False | _ => True end) by (destruct T'; try exact I; discriminate Hwr).
    destruct (any_codecs_m T' Hb) as [(fl & Hcenc & Hsi) Hby].
    destruct (RoundTripModesC.enc_with_inv_g ce _ d k _ b Hst He) as (ec & fl' & ts & content & cns & Hcenc' & Hts' & Hcont & Hfr).
    rewrite Hcenc in Hcenc'. inversion Hcenc'; subst ec fl'; clear Hcenc'.
    rewrite Hts in Hts'. inversion Hts'; subst ts; clear Hts'.
    rewrite enc_content_base, Hb in Hcont. cbn [enc_content] in Hcont. rewrite Hoct in Hcont.
    inversion Hcont; subst content cns; clear Hcont. cbn [o_def mo] in Hfr. rewrite Hsi in Hfr.
    pose proof (frame_modes_len _ _ _ _ _ _ _ _ Hex Hfr) as Hlr.
    rewrite Hb in Hd. cbn [ty_depth] in Hd.
    exists t0, r, bs, (negb d), true, (VAny bs).
    split; [rewrite (wire_tags_plain T' _ Hnc); apply tagset_of'_ok; exact Hts|].
    split; [exact Hex|]. split; [lia|]. split; [exact Hnz|]. split; [reflexivity|]. split; [exact Hfr|].
    split; [rewrite (wire_tags_plain T' _ Hnc); apply tagset_of'_ok; exact Hts|].
    split.
    { rewrite (abs_wrappers T' (VAny bs)), (abs_wrappers T' v), Hb, Habs. apply (r_refl _ _ HR). }
    exists DcAny, (mkDecFlags true (Some KAny)). split; [exact Hby|].
    intros f Hf.
    assert (Hw1: wire t0 (negb d) = t0) by (apply wire_con; exact Hc0). rewrite Hw1.
    unfold val_consumes. destruct d; cbn [andb negb]; cbn [dec_value].
    - unfold dec_any.
      rewrite (tagset_of'_ok T' _ Hts), tagset_eqb_refl. cbn [negb pbind].
      apply consumes_ret; [split; lia|]. unfold create. rewrite Hb. reflexivity.
    - unfold dec_any_indef. rewrite (tagset_of'_ok T' _ Hts), tagset_eqb_refl. cbn [pbind].
      destruct (tlvs_ok_split _ _ (Hpay eq_refl)) as (pieces & Hcat & HFp).
      pose proof (tlv_pieces_count pieces HFp) as Hcnt. rewrite Hcat in Hcnt.
      destruct f as [|f']; [lia|].
      intros s tl Hav. rewrite <- app_assoc, <- Hcat in Hav.
      destruct (any_indef_run cd Hcd T' (t0 :: r) Hb pieces HFp f' (S f') [] s tl) as (s' & Hrun & Hpos & Harr & Hcl).
      + lia.
      + rewrite Hcat. lia.
      + rewrite Hcat. lia.
      + exact Hav.
      + rewrite Hcat in *. exists s'. split; [exact Hrun|]. rewrite app_length. cbn [length]. repeat split; try assumption. lia.
  Qed.
End Modes3f.

(* Totality facts about runs of the decoder model on closed streams. *)
From Coq Require Import Lia.
From PV Require Import Base.Bytes Model.Proc Model.Types Model.Enc Model.Dec Proofs.ProcSim.

Lemma decoder_finishes : forall c fuel sp (b: bytes),
  exists r s', resume (guard EUnclean (dec_item c fuel sp)) (mkStream b 0 true 0) = inr (r, s').
Proof.
  intros c fuel sp b. apply closed_no_suspend; [apply guard_clean|reflexivity].
Qed.

(* the position never passes the end of what has arrived when every move is a successful read,
   a seek back, or no move at all *)
Lemma attempt_pos_bound s n r s' : attempt s n = (r, s') -> pos s <= length (arrived s) ->
  pos s' <= length (arrived s') /\ arrived s' = arrived s.
Proof.
  unfold attempt. destruct (Nat.eqb n 0); [intros H Hb; inversion H; subst; auto|].
  destruct (Nat.ltb_spec (length (avail s)) n) as [Hl|Hl]; intros H Hb; inversion H; subst; clear H; [auto|].
  cbn [pos arrived setpos]. split; [|reflexivity].
  unfold avail in Hl. rewrite skipn_length in Hl. lia.
Qed.

Lemma run_pos_bounded_gen {A} (p: proc A) : clean p -> forall s r s',
  pos s <= length (arrived s) -> resume p s = inr (r, s') ->
  pos s' <= length (arrived s') /\ arrived s' = arrived s.
Proof.
  intros Hc. induction Hc as [a|e|n k Hk IH|k Hk IH|d k Hk IH|k Hk IH|k Hk IH]; intros s r s' Hb H; cbn [resume] in H.
  - inversion H; subst; auto.
  - inversion H; subst; auto.
  - destruct (attempt s n) as [[c0| |] sm] eqn:E.
    + destruct (attempt_pos_bound _ _ _ _ E Hb) as [Hb' Ha].
      destruct (IH c0 sm r s' Hb' H) as [H1 H2]. split; [assumption|congruence].
    + discriminate.
    + inversion H; subst. destruct (attempt_pos_bound _ _ _ _ E Hb). auto.
  - exact (IH (pos s) s r s' Hb H).
  - apply (IH (setpos s (pos s - d)) r s'); [cbn [pos arrived setpos]; lia|exact H].
  - apply (IH (setmark s (pos s)) r s'); [cbn [pos arrived setmark]; exact Hb|exact H].
  - exact (IH (mark s) s r s' Hb H).
Qed.

Lemma run_position_bounded : forall (A: Type) (p: proc A) b r s',
  clean p -> resume p (mkStream b 0 true 0) = inr (r, s') -> pos s' <= length b.
Proof.
  intros A p b r s' Hc H.
  destruct (run_pos_bounded_gen p Hc (mkStream b 0 true 0) r s') as [H1 H2]; [cbn; lia|exact H|].
  rewrite H2 in H1. exact H1.
Qed.

(* C16, containers: decoding WITHOUT a guiding type what the encoder wrote for SEQUENCE OF / SET OF /
   SEQUENCE / SET (all components mandatory) built to any depth from the self-describing simple
   types of stage 1, untagged or under EXPLICIT non-universal tags.  The decoder guesses a type
   (Model/Dec.v schemaless_loop: SEQUENCE (OF) -> SEQUENCE of the members' types, empty -> SEQUENCE OF;
   SET (OF) -> SET OF CHOICE when all members have the same tag set, else SET); the guessed object
   has the same tags at every level and the same leaves, and re-encoding it with DER gives the DER
   encoding of the original:
     schemaless_roundtrip_containers      BER or DER encoder (DER: no SET OF / SET), any decoder:
                                          same skeleton, same leaves in the same order
     schemaless_der_reencode(_sets)       a DER encoding is reproduced octet for octet; with SET OF /
                                          SET the leaves come back in DER's order (a permutation)
     schemaless_same_tag_set_differs      why a SET all of whose (>= 2) components carry the same
                                          tag set is excluded ([set_mixed]) *)
From Coq Require Import Lia Sorting.Permutation Sorting.Sorted.
From PV Require Import Base.Bytes Model.Tag Model.TableTypes Model.Types Model.Proc Model.Enc Model.Dec Gen.Tables
     Proofs.LeafInt Proofs.LeafOidBits Proofs.LeafReal
     Proofs.ProcBind Proofs.RunLemmas Proofs.TagOctets Proofs.DecHeader Proofs.DecFrame Proofs.DecPrim
     Proofs.TagsetShape Proofs.Schemaless Proofs.RoundTrip1 Proofs.RoundTrip2 Proofs.RoundTrip3 Proofs.RoundTrip3a
     Proofs.ContainerCodecDefs Proofs.ContainerCodecSort Proofs.SchemalessRT.
Local Open Scope N_scope.

(* ---------- what the schemaless component loop returns ---------- *)

Fixpoint number_choices (i: nat) (l: list (ty * val)) : list val :=
  match l with [] => [] | tv :: r => VChoice i (snd tv) :: number_choices (S i) r end.

(* the guessed container type (before the wire tags are put around it) and value, from the
   decoded members *)
Definition guess_proto (is_set: bool) (acc: list (ty * val)) : ty :=
  match acc with
  | [] => if is_set then TSetOf TNull else TSeqOf TNull
  | (T0, _) :: _ =>
      let same := forallb (fun tv => tagset_eqb (tagset_of' (fst tv)) (tagset_of' T0)) acc in
      let rec_ty := map (fun tv => (Req, fst tv)) acc in
      if is_set then (if same then TSetOf (TChoice (map fst acc)) else TSet rec_ty) else TSeq rec_ty
  end.
Definition guess_val (is_set: bool) (acc: list (ty * val)) : val :=
  match acc with
  | [] => VList []
  | (T0, _) :: _ =>
      let same := forallb (fun tv => tagset_eqb (tagset_of' (fst tv)) (tagset_of' T0)) acc in
      if is_set && same then VList (number_choices O acc) else VRec (map (fun tv => Some (snd tv)) acc)
  end.
Definition guess_dv (is_set: bool) (ts: tagset) (acc: list (ty * val)) : dval :=
  DV (schemaless_ty (guess_proto is_set acc) ts) (guess_val is_set acc).

Section SLoop.
  Variable rec : spec -> tagset -> option (option N) -> bool -> bool -> proc dval.

  Definition sl_elem_ok (p: bytes) (tv: ty * val) : Prop :=
    consumes (rec SNone [] None false false) p (DV (fst tv) (snd tv)) /\ (0 < length p)%nat.

  Lemma schemaless_loop_run is_set ts : forall parts tvs,
    Forall2 sl_elem_ok parts tvs ->
    forall n acc start total s tl,
      (length parts < n)%nat ->
      avail s = concat parts ++ tl ->
      (start <= pos s)%nat ->
      (pos s - start + length (concat parts) = total)%nat ->
      exists s', resume (schemaless_loop rec is_set ts (Some (N.of_nat total)) start n acc) s
                 = inr (Ok (guess_dv is_set ts (acc ++ tvs)), s')
        /\ pos s' = (pos s + length (concat parts))%nat /\ arrived s' = arrived s /\ closed s' = closed s.
  Proof.
    intros parts tvs HF. induction HF as [|p tv parts tvs [Hp Hpl] HF IH]; intros n acc start total s tl Hn Hav Hst Htot.
    - destruct n as [|n']; [cbn [length] in Hn; lia|].
      cbn [schemaless_loop]. cbv zeta. rewrite resume_tell.
      cbn [concat length] in Htot.
      destruct (N.ltb_spec (N.of_nat (pos s)) (N.of_nat start + N.of_nat total)) as [Hlt|_]; [lia|].
      cbn [negb]. rewrite app_nil_r.
      exists s. cbn [concat length]. split; [|repeat split; lia].
      unfold guess_dv, guess_proto, guess_val. destruct acc as [|[T0 v0] acc']; [destruct is_set; reflexivity|].
      cbv zeta. reflexivity.
    - destruct n as [|n']; [cbn [length] in Hn; lia|].
      cbn [schemaless_loop]. cbv zeta. rewrite resume_tell.
      cbn [concat] in Htot, Hav. rewrite app_length in Htot.
      destruct (N.ltb_spec (N.of_nat (pos s)) (N.of_nat start + N.of_nat total)) as [_|Hge]; [|lia].
      cbn [negb]. rewrite <- app_assoc in Hav.
      destruct (Hp s _ Hav) as (s1 & Hrun & Hpos & Harr & Hcl).
      rewrite (resume_pbind_done _ _ _ _ _ Hrun).
      pose proof (consumes_avail p s _ s1 Hav Hpos Harr) as Hav1.
      cbn [length] in Hn. destruct tv as [Tc vc]. cbn [fst snd].
      destruct (IH n' (acc ++ [(Tc, vc)]) start total s1 tl ltac:(lia) Hav1 ltac:(lia) ltac:(lia)) as (s2 & Hrun2 & Hpos2 & Harr2 & Hcl2).
      exists s2. rewrite Hrun2. rewrite <- app_assoc. cbn [app concat]. rewrite app_length.
      split; [reflexivity|]. split; [lia|]. split; congruence.
  Qed.

  Lemma dec_schemaless_consumes lf is_set ts parts tvs :
    Forall2 sl_elem_ok parts tvs -> (length parts < lf)%nat ->
    consumes (dec_schemaless rec lf is_set ts (Some (N.of_nat (length (concat parts))))) (concat parts)
             (guess_dv is_set ts tvs).
  Proof.
    intros HF Hlf s tl Hav. unfold dec_schemaless. rewrite resume_tell.
    destruct (schemaless_loop_run is_set ts parts tvs HF lf [] (pos s) (length (concat parts)) s tl Hlf Hav ltac:(lia) ltac:(lia))
      as (s' & Hrun & Hpos & Harr & Hcl).
    exists s'. rewrite Hrun. cbn [app]. repeat split; assumption.
  Qed.

  Lemma sl_elem_count parts tvs : Forall2 sl_elem_ok parts tvs -> (length parts <= length (concat parts))%nat.
  Proof.
    induction 1 as [|p x' parts xs' [_ Hpl] _ IH]; [cbn; lia|]. cbn [length concat]. rewrite app_length. lia.
  Qed.
End SLoop.

(* ---------- all the levels of the framing, no guiding type ---------- *)

Theorem framed_consumes_none : forall c t0 r cns si content b f0 dcd dfl v,
  tcon t0 = cns -> Forall explicit_like r ->
  by_tag c [t0] = Some (dcd, dfl) ->
  frame (t0 :: r) content cns def_opts si = Ok b ->
  (length b <= S f0)%nat ->
  consumes (dec_value (dec_call c f0) f0 dcd dfl None (t0 :: r) (Some (N.of_nat (length content))) false) content v ->
  consumes (dec_call c (S f0 + length r) SNone [] None false false) b v.
Proof.
  intros c t0 r cns si content b f0 dcd dfl v Hc0 Hex Hby He Hb Hval.
  cbn [frame] in He. rewrite Bool.andb_false_r in He. cbn [o_def def_opts] in He.
  assert (Hd: (if cns then true else true) = true) by (destruct cns; reflexivity). rewrite Hd in He. clear Hd.
  destruct (frame_one t0 cns true si content) as [s0|e] eqn:E0; cbn [bind] in He; [|discriminate].
  rewrite (frame_outer_con r cns true si s0 Hex) in He.
  pose proof (frame_outer_length _ _ _ _ _ He) as Hlen0.
  pose proof (RoundTrip2.frame_outer_taglens _ _ _ _ _ (S (S f0)) He ltac:(lia)) as Htl.
  apply (peel_all_none c (S f0) si r [] s0 b v He Hex Htl).
  rewrite app_nil_r.
  assert (Hw: wire t0 cns = t0).
  { destruct cns; [apply wire_con; exact Hc0|apply wire_false]. }
  apply (match_level_none c f0 r t0 cns si content s0 v dcd dfl E0).
  - rewrite Hw. exact Hby.
  - destruct (frame_one_length _ _ _ _ _ E0) as (l & -> & _). rewrite !app_length in Hlen0. lia.
  - rewrite Hw. exact Hval.
Qed.

(* ---------- REAL: the contents octets of a binary value depend on its abstract content only ---------- *)

Definition enc_real_core (neg: bool) (m': N) (e': Z) : res bytes :=
  let eo := exp_octets e' in
  let n := length eo in
  if Nat.ltb 255 n then Err EMalformed else
  let fo := 128 + (if neg then 64 else 0) in
  let '(fo', eo') := match n with
                     | 1%nat => (fo, eo) | 2%nat => (fo + 1, eo) | 3%nat => (fo + 2, eo)
                     | _ => (fo + 3, N.of_nat n :: eo) end in
  Ok ([fo'] ++ eo' ++ b256 m').

Lemma enc_real_bin_core m e m' e' : m <> 0%Z ->
  strip2 (N.size_nat (Z.abs_N m)) (Z.abs_N m) e = (m', e') ->
  enc_real (RBin m e) = enc_real_core (Z.ltb m 0) m' e'.
Proof.
  intros Hm Es. unfold enc_real. destruct (Z.eqb_spec m 0) as [|_]; [contradiction|].
  rewrite Es. reflexivity.
Qed.

Lemma enc_real_abs r m e : m <> 0%Z -> abs_real r = abs_real (RBin m e) -> enc_real r = enc_real (RBin m e).
Proof.
  intros Hm Ha.
  destruct (strip2 (N.size_nat (Z.abs_N m)) (Z.abs_N m) e) as [m' e'] eqn:Es.
  destruct (abs_real_bin_norm m e m' e' Hm Es) as [Ha1 _]. cbv zeta in Ha1. rewrite Ha1 in Ha.
  assert (Hodd: m' mod 2 = 1).
  { pose proof (strip2_odd (N.size_nat (Z.abs_N m)) (Z.abs_N m) e) as H.
    rewrite Es in H. apply H; lia. }
  assert (Hm': m' <> 0) by (intros ->; discriminate Hodd).
  rewrite (enc_real_bin_core m e m' e' Hm Es).
  destruct r as [| |m2 e2|m2 e2|].
  - discriminate Ha.
  - discriminate Ha.
  - unfold abs_real in Ha. destruct (Z.eqb_spec m2 0) as [|Hm2]; [discriminate Ha|]. fold (abs_real (RBin m2 e2)) in Ha.
    destruct (strip2 (N.size_nat (Z.abs_N m2)) (Z.abs_N m2) e2) as [m2' e2'] eqn:Es2.
    destruct (abs_real_bin_norm m2 e2 m2' e2' Hm2 Es2) as [Hb1 _]. cbv zeta in Hb1.
    assert (Hodd2: m2' mod 2 = 1).
    { pose proof (strip2_odd (N.size_nat (Z.abs_N m2)) (Z.abs_N m2) e2) as H.
      rewrite Es2 in H. apply H; lia. }
    assert (Hm2': m2' <> 0) by (intros ->; discriminate Hodd2).
    assert (Hab: abs_real (RBin m2 e2) =
                 ABin (if Z.ltb m 0 then - Z.of_N m' else Z.of_N m')%Z e').
    { unfold abs_real. destruct (Z.eqb_spec m2 0) as [|_]; [contradiction|]. exact Ha. }
    rewrite Hb1 in Hab. injection Hab as Hs He.
    rewrite (enc_real_bin_core m2 e2 m2' e2' Hm2 Es2).
    assert (Hneg: Z.ltb m2 0 = Z.ltb m 0 /\ m2' = m').
    { destruct (Z.ltb m2 0), (Z.ltb m 0); split; try reflexivity; lia. }
    destruct Hneg as [Hn1 Hn2]. rewrite Hn1, Hn2, He. reflexivity.
  - unfold abs_real in Ha. destruct (Z.eqb m2 0); [discriminate Ha|].
    destruct (strip_factor _ 10 m2 e2). discriminate Ha.
  - discriminate Ha.
Qed.

(* ---------- the domain ---------- *)

(* a SET with two or more components all of which have the same tag set is read back as a SET OF
   (and then re-ordered by DER): excluded.  Distinct tags, as ASN.1 demands, are more than enough. *)
Definition set_mixed (ts: list ty) : bool :=
  match ts with
  | t1 :: _ :: _ => negb (forallb (fun t => tagset_eqb (tagset_of' t) (tagset_of' t1)) ts)
  | _ => true
  end.

(* [aset]: are SET OF / SET allowed *)
Fixpoint sl_frag (aset: bool) (T: ty) : bool :=
  match T with
  | TBool | TInt | TEnum | TBits | TOcts | TNull | TOid | TReal | TStr _ => true
  | TExp t x => negb (cls_eqb (tcls t) Univ) && sl_frag aset x
  | TSeqOf t => sl_frag aset t
  | TSetOf t => aset && sl_frag aset t
  | TSeq fs => forallb (fun f => is_req (fst f) && sl_frag aset (snd f)) fs
  | TSet fs => aset && forallb (fun f => is_req (fst f) && sl_frag aset (snd f)) fs && set_mixed (map snd fs)
  | TImp _ _ | TChoice _ | TAny => false
  end.

Fixpoint sl_val (ce cd: codec) (T: ty) (v: val) {struct T} : bool :=
  match T with
  | TImp _ x | TExp _ x => sl_val ce cd x v
  | TSeqOf t | TSetOf t => match v with VList xs => forallb (sl_val ce cd t) xs | _ => false end
  | TSeq fs | TSet fs =>
      match v with
      | VRec vs =>
          (fix go (fs: list (presence * ty)) (vs: list (option val)) : bool :=
             match fs, vs with
             | [], [] => true
             | f :: fs', Some x :: vs' => sl_val ce cd (snd f) x && go fs' vs'
             | _, _ => false
             end) fs vs
      | _ => false
      end
  | TChoice _ | TAny => false
  | _ => stage1_val ce cd T v
  end.

Definition slv_fields (ce cd: codec) : list (presence * ty) -> list (option val) -> bool :=
  fix go (fs: list (presence * ty)) (vs: list (option val)) : bool :=
    match fs, vs with
    | [], [] => true
    | f :: fs', Some x :: vs' => sl_val ce cd (snd f) x && go fs' vs'
    | _, _ => false
    end.

Lemma sl_val_seq ce cd fs vs : sl_val ce cd (TSeq fs) (VRec vs) = slv_fields ce cd fs vs.
Proof. reflexivity. Qed.
Lemma sl_val_set ce cd fs vs : sl_val ce cd (TSet fs) (VRec vs) = slv_fields ce cd fs vs.
Proof. reflexivity. Qed.

Lemma sl_val_base ce cd : forall T v, sl_val ce cd T v = sl_val ce cd (base_of T) v.
Proof.
  induction T as [| | | | | | | | n|fs IH|fs IH|t IH|t IH|alts IH| |tg x IH|tg x IH] using ty_ind'; intros v; try reflexivity.
  - cbn [base_of sl_val]. apply IH.
  - cbn [base_of sl_val]. apply IH.
Qed.

Lemma sl_val_prim ce cd T v : prim_base T = true -> sl_val ce cd T v = stage1_val ce cd T v.
Proof.
  intros Hp. rewrite sl_val_base, (stage1_val_base ce cd T). unfold prim_base in Hp.
  destruct (base_of T); try discriminate Hp; reflexivity.
Qed.

(* tag set of a type of the fragment: the base type's own universal tag, then the explicit tags *)
Lemma frag_shape aset : forall T, sl_frag aset T = true ->
  exists b0 r, tagset_of (base_of T) = Ok [b0] /\ tagset_of T = Ok (b0 :: r) /\ tcls b0 = Univ
               /\ Forall explicit_like r /\ sl_frag aset (base_of T) = true.
Proof.
  induction T as [| | | | | | | | n|fs IH|fs IH|t IH|t IH|alts IH| |tg x IH|tg x IH] using ty_ind';
    intros H; try discriminate H;
    try (eexists; exists []; split; [reflexivity|split; [reflexivity|split; [reflexivity|split; [constructor|exact H]]]]).
  cbn [sl_frag] in H. apply Bool.andb_true_iff in H. destruct H as [Hcl H2].
  destruct (IH H2) as (b0 & r & Hb & Hts & Hu & Hex & Hfb).
  assert (Hnu: tcls tg <> Univ) by (destruct (tcls tg); try discriminate; cbn in Hcl; congruence).
  exists b0, (r ++ [mkTag (tcls tg) true (tnum tg)]).
  split; [exact Hb|]. split.
  - cbn [tagset_of]. rewrite Hts. cbn [bind]. unfold tag_explicitly. destruct (tcls tg); try reflexivity; congruence.
  - split; [exact Hu|]. split; [|exact Hfb]. apply Forall_app. split; [exact Hex|].
    constructor; [|constructor]. split; [reflexivity|exact Hnu].
Qed.

Lemma frag_prim aset : forall T, sl_frag aset T = true -> prim_base T = true -> univ_explicit T = true.
Proof.
  unfold prim_base.
  induction T as [| | | | | | | | n|fs IH|fs IH|t IH|t IH|alts IH| |tg x IH|tg x IH] using ty_ind';
    intros H Hp; try reflexivity; try discriminate H; try discriminate Hp.
  cbn [sl_frag] in H. apply Bool.andb_true_iff in H. destruct H as [Hcl H2].
  cbn [univ_explicit]. rewrite Hcl. cbn [andb]. exact (IH H2 Hp).
Qed.

(* ---------- skeleton: the tags at every level, the abstract contents of the leaves ---------- *)

Inductive sk := SLeaf (ts: tagset) (a: aval) | SNode (ts: tagset) (cs: list sk).

(* W: the type with its tagging wrappers; T: what is left of it to look at *)
Fixpoint skel_aux (W T: ty) (v: val) {struct T} : sk :=
  match T with
  | TImp _ x | TExp _ x => skel_aux W x v
  | TSeqOf t | TSetOf t =>
      match v with VList xs => SNode (tagset_of' W) (map (skel_aux t t) xs) | _ => SLeaf (tagset_of' W) ABad end
  | TSeq fs | TSet fs =>
      match v with
      | VRec vs => SNode (tagset_of' W)
          ((fix go (fs: list (presence * ty)) (vs: list (option val)) : list sk :=
              match fs, vs with
              | f :: fs', Some x :: vs' => skel_aux (snd f) (snd f) x :: go fs' vs'
              | _ :: fs', None :: vs' => go fs' vs'
              | _, _ => []
              end) fs vs)
      | _ => SLeaf (tagset_of' W) ABad
      end
  | TChoice alts =>      (* an untagged CHOICE is transparent *)
      match v with
      | VChoice i x => (fix go (alts: list ty) (k: nat) : sk :=
           match alts, k with
           | a :: _, O => skel_aux a a x
           | _ :: r, S k' => go r k'
           | [], _ => SLeaf [] ABad
           end) alts i
      | _ => SLeaf [] ABad
      end
  | _ => SLeaf (tagset_of' W) (abs T v)
  end.

Definition skel (T: ty) (v: val) : sk := skel_aux T T v.

Fixpoint leaves_of (s: sk) : list (tagset * aval) :=
  match s with SLeaf ts a => [(ts, a)] | SNode _ cs => flat_map leaves_of cs end.

(* the leaves in order: tag set and abstract content of each *)
Definition leaves (T: ty) (v: val) : list (tagset * aval) := leaves_of (skel T v).

Definition skel_fields : list (presence * ty) -> list (option val) -> list sk :=
  fix go (fs: list (presence * ty)) (vs: list (option val)) : list sk :=
    match fs, vs with
    | f :: fs', Some x :: vs' => skel (snd f) x :: go fs' vs'
    | _ :: fs', None :: vs' => go fs' vs'
    | _, _ => []
    end.

Definition skel_alt (x: val) : list ty -> nat -> sk :=
  fix go (alts: list ty) (k: nat) : sk :=
    match alts, k with
    | a :: _, O => skel a x
    | _ :: r, S k' => go r k'
    | [], _ => SLeaf [] ABad
    end.

Lemma skel_aux_base W : forall T v, skel_aux W T v = skel_aux W (base_of T) v.
Proof.
  induction T as [| | | | | | | | n|fs IH|fs IH|t IH|t IH|alts IH| |tg x IH|tg x IH] using ty_ind'; intros v; try reflexivity.
  - cbn [base_of skel_aux]. apply IH.
  - cbn [base_of skel_aux]. apply IH.
Qed.

Lemma skel_listof T t xs : base_of T = TSeqOf t \/ base_of T = TSetOf t ->
  skel T (VList xs) = SNode (tagset_of' T) (map (skel t) xs).
Proof. intros Hb. unfold skel at 1. rewrite skel_aux_base. destruct Hb as [-> | ->]; reflexivity. Qed.

Lemma skel_record T fs vs : base_of T = TSeq fs \/ base_of T = TSet fs ->
  skel T (VRec vs) = SNode (tagset_of' T) (skel_fields fs vs).
Proof. intros Hb. unfold skel at 1. rewrite skel_aux_base. destruct Hb as [-> | ->]; reflexivity. Qed.

Lemma skel_choice alts i x : skel (TChoice alts) (VChoice i x) = skel_alt x alts i.
Proof. reflexivity. Qed.

Lemma skel_leaf T v : prim_base T = true -> skel T v = SLeaf (tagset_of' T) (abs T v).
Proof.
  intros Hp. unfold skel. rewrite skel_aux_base, (abs_wrappers T v). unfold prim_base in Hp.
  destruct (base_of T); try discriminate Hp; reflexivity.
Qed.

(* ---------- the encoder, any codec whose fixed options leave the definite mode alone ---------- *)

Lemma enc_with_inv_c ce T v b : def_codec ce -> enc_with ce (enc_content ce) T def_opts v = Ok b ->
  exists ec fl ts content cns, concrete_encoder ce T = Ok (ec, fl) /\ tagset_of T = Ok ts
    /\ enc_content ce T ec fl def_opts v = Ok (content, cns) /\ frame ts content cns def_opts (ef_indef fl) = Ok b.
Proof.
  unfold enc_with, def_codec. intros Hdef H. rewrite Hdef in H.
  destruct (concrete_encoder ce T) as [[ec fl]|e] eqn:E1; cbn [bind] in H; [|discriminate].
  destruct (tagset_of T) as [ts|e] eqn:E2; cbn [bind] in H; [|discriminate].
  change (mkOpts (o_def def_opts) (o_chunk def_opts) false) with def_opts in H.
  destruct (enc_content ce T ec fl def_opts v) as [[content cns]|e] eqn:E3; cbn [bind] in H; [|discriminate].
  exists ec, fl, ts, content, cns. split; [reflexivity|]. split; [reflexivity|]. split; [exact E3|exact H].
Qed.

(* the encoding is a function of the encoder class, the tag set and the contents octets *)
Lemma enc_with_congr c T1 T2 o v1 v2 :
  concrete_encoder c T1 = concrete_encoder c T2 -> tagset_of T1 = tagset_of T2 ->
  (forall cd fl o', enc_content c (base_of T1) cd fl o' v1 = enc_content c (base_of T2) cd fl o' v2) ->
  enc_with c (enc_content c) T1 o v1 = enc_with c (enc_content c) T2 o v2.
Proof.
  intros H1 H2 H3. unfold enc_with. rewrite H1, H2.
  destruct (concrete_encoder c T2) as [[cd fl]|e]; cbn [bind]; [|reflexivity].
  destruct (tagset_of T2) as [ts|e]; cbn [bind]; [|reflexivity].
  rewrite (enc_content_base c T1), (enc_content_base c T2), H3. reflexivity.
Qed.

(* ---------- what the induction establishes for one item ---------- *)

Definition not_choice (T: ty) : Prop := match T with TChoice _ => False | _ => True end.

Lemma wrap_explicit_not_choice : forall r X, not_choice X -> not_choice (wrap_explicit r X).
Proof. induction r as [|t r IH]; intros X HX; cbn [wrap_explicit]; [exact HX|]. apply IH. exact I. Qed.

Lemma schemaless_ty_not_choice proto t0 r : not_choice proto -> not_choice (schemaless_ty proto (t0 :: r)).
Proof.
  intros Hp. unfold schemaless_ty. apply wrap_explicit_not_choice.
  destruct (tagset_of' proto) as [|p0 [|p1 l]]; try exact I. destruct (tag_eqb p0 t0); [exact Hp|exact I].
Qed.

(* ---------- skeletons up to the order inside SET / SET OF ---------- *)

Definition set_node (ts: tagset) : bool := match ts with t :: _ => tag_eqb t (utag true 17) | [] => false end.

(* the same tree, except that the children of a SET / SET OF node may come in another order *)
Inductive sk_sim : sk -> sk -> Prop :=
| sim_leaf ts a : sk_sim (SLeaf ts a) (SLeaf ts a)
| sim_node ts cs cs' cs'' : Permutation cs cs' -> (set_node ts = false -> cs' = cs) -> Forall2 sk_sim cs' cs'' ->
    sk_sim (SNode ts cs) (SNode ts cs'').

Lemma sk_sim_leaves : forall s s', sk_sim s s' -> Permutation (leaves_of s) (leaves_of s').
Proof.
  fix IH 3. intros s s' H. destruct H as [ts a|ts cs cs' cs'' Hp _ HF].
  - apply Permutation_refl.
  - cbn [leaves_of]. eapply perm_trans; [apply Permutation_flat_map; exact Hp|].
    clear Hp. induction HF as [|x y l l' Hxy HF IHF]; [apply perm_nil|].
    cbn [flat_map]. apply Permutation_app; [apply IH; exact Hxy|exact IHF].
Qed.

Fixpoint sk_sim_refl (s: sk) : sk_sim s s :=
  match s with
  | SLeaf ts a => sim_leaf ts a
  | SNode ts cs => sim_node ts cs cs cs (Permutation_refl cs) (fun _ => eq_refl)
      ((fix go (l: list sk) : Forall2 sk_sim l l :=
          match l with [] => Forall2_nil _ | c :: r => Forall2_cons c c (sk_sim_refl c) (go r) end) cs)
  end.

(* what the induction needs of the relation between the skeleton of the encoded value and that of
   the decoded one: equality ([perm] = false), or [sk_sim] when the encoder re-orders ([perm] = true) *)
Record skrel_ok (R: sk -> sk -> Prop) (perm: bool) : Prop := {
  sr_refl : forall s, R s s;
  sr_node : forall ts cs cs', Forall2 R cs cs' -> R (SNode ts cs) (SNode ts cs');
  sr_perm : perm = true -> forall ts cs cs' cs'', set_node ts = true -> Permutation cs cs' -> Forall2 R cs' cs'' ->
            R (SNode ts cs) (SNode ts cs'')
}.

Lemma Forall2_eq_list {A} (l l': list A) : Forall2 eq l l' -> l = l'.
Proof. induction 1; [reflexivity|]. subst. reflexivity. Qed.

Lemma skrel_eq : skrel_ok eq false.
Proof.
  split.
  - reflexivity.
  - intros ts cs cs' H. rewrite (Forall2_eq_list _ _ H). reflexivity.
  - discriminate.
Qed.

Lemma skrel_sim : skrel_ok sk_sim true.
Proof.
  split.
  - exact sk_sim_refl.
  - intros ts cs cs' H. exact (sim_node ts cs cs cs' (Permutation_refl cs) (fun _ => eq_refl) H).
  - intros _ ts cs cs' cs'' Hs Hp HF. apply (sim_node ts cs cs' cs'' Hp); [|exact HF].
    intros Hn. rewrite Hn in Hs. discriminate Hs.
Qed.

(* T0, v0: the guessed type and the decoded value; R relates the two skeletons *)
Definition sl_item (R: sk -> sk -> Prop) (ce cd: codec) (T: ty) (v: val) : Prop :=
  forall b, enc_with ce (enc_content ce) T def_opts v = Ok b -> N.of_nat (length b) <= index_max ->
  (0 < length b)%nat /\
  exists T0 v0,
    tagset_of T0 = tagset_of T /\ not_choice T0
    /\ R (skel T v) (skel T0 v0)
    /\ enc_with DER (enc_content DER) T0 def_opts v0 = enc_with DER (enc_content DER) T def_opts v
    /\ forall f, (2 * length b <= f)%nat -> consumes (dec_call cd f SNone [] None false false) b (DV T0 v0).

(* ---------- the simple types ---------- *)

(* the DER contents octets of a simple value are determined by its abstract content *)
Lemma leaf_content_abs ce cd T v v' ec fl o : stage1_val ce cd T v = true ->
  abs (sl_proto (base_of T)) v' = abs (base_of T) v ->
  enc_content DER (sl_proto (base_of T)) ec fl o v' = enc_content DER (base_of T) ec fl o v.
Proof.
  unfold stage1_val. intros Hs Ha.
  destruct (base_of T) eqn:Hb; destruct v as [bb|z|bs|bo|cs| |arcs|r|vfs|xs|i x|ab]; try discriminate Hs;
    cbn [sl_proto] in *; cbn [abs] in Ha.
  - destruct v'; try discriminate Ha. inversion Ha; subst. reflexivity.
  - destruct v'; try discriminate Ha. inversion Ha; subst. reflexivity.
  - destruct v'; try discriminate Ha. inversion Ha; subst. reflexivity.
  - destruct v'; try discriminate Ha. inversion Ha; subst. reflexivity.
  - destruct v'; try discriminate Ha. inversion Ha; subst. reflexivity.
  - destruct v'; try discriminate Ha. reflexivity.
  - destruct v'; try discriminate Ha. inversion Ha; subst. reflexivity.
  - destruct v' as [| | | | | | |r'| | | |]; try discriminate Ha. injection Ha as Ha.
    assert (Hr: enc_real r' = enc_real r).
    { destruct r as [| |m e|m e|]; try discriminate Hs.
      - destruct r' as [| |m2 e2|m2 e2|]; try reflexivity; try discriminate Ha;
          unfold abs_real in Ha; destruct (Z.eqb m2 0); try discriminate Ha;
          destruct (strip_factor _ _ m2 e2); discriminate Ha.
      - destruct r' as [| |m2 e2|m2 e2|]; try reflexivity; try discriminate Ha;
          unfold abs_real in Ha; destruct (Z.eqb m2 0); try discriminate Ha;
          destruct (strip_factor _ _ m2 e2); discriminate Ha.
      - apply enc_real_abs; [|exact Ha]. destruct (Z.eqb_spec m 0); [discriminate Hs|assumption]. }
    cbn [enc_content]. rewrite Hr. reflexivity.
  - destruct v' as [| | |b'|cs'| | | | | | |]; try discriminate Ha.
    + inversion Ha; subst. reflexivity.
    + inversion Ha; subst. reflexivity.
Qed.

Lemma sl_ty_not_choice T : univ_explicit T = true -> not_choice (sl_ty T).
Proof.
  intros Hue. destruct (univ_explicit_shape T Hue) as (b0 & r & _ & Hts & _).
  unfold sl_ty. rewrite (tagset_of'_ok T _ Hts). apply schemaless_ty_not_choice.
  pose proof (univ_explicit_prim T Hue) as Hp. unfold prim_base in Hp.
  destruct (base_of T); try discriminate Hp; exact I.
Qed.

Lemma leaf_item R perm ce cd T v : skrel_ok R perm ->
  enc_ok ce -> univ_explicit T = true -> stage1_val ce cd T v = true -> sl_item R ce cd T v.
Proof.
  intros HR Hce Hue Hs b He Hmax.
  assert (Hdef: def_codec ce) by (destruct Hce as [-> | ->]; reflexivity).
  assert (He': encode ce true 0 T v = Ok b) by exact He.
  destruct (sl_stage1_leaf ce cd T v b Hce Hue Hs He') as (content & vdec & Hleaf & Hsl & Habs).
  destruct (sl_ty_facts T Hue) as [Htags Hbase].
  destruct (univ_explicit_shape T Hue) as (t0 & r & _ & Hts & _ & _ & _).
  pose proof (univ_explicit_prim T Hue) as Hp.
  assert (Hlen: (length content + 2 + 2 * length r <= length b)%nat).
  { destruct Hleaf as [(ec & fl & Hcenc & Hcont) _].
    destruct (enc_with_inv_c ce T v b Hdef He) as (ec' & fl' & ts & content' & cns & Hce' & Hts' & Hcont' & Hfr).
    rewrite Hcenc in Hce'. inversion Hce'; subst ec' fl'. rewrite Hcont in Hcont'. inversion Hcont'; subst content' cns.
    rewrite Hts in Hts'. inversion Hts'; subst ts.
    exact (frame_len_r _ _ _ _ _ _ Hfr). }
  split; [lia|].
  exists (sl_ty T), vdec.
  split; [exact Htags|]. split; [apply sl_ty_not_choice; exact Hue|]. split.
  { rewrite (skel_leaf T v Hp).
    assert (Hp0: prim_base (sl_ty T) = true).
    { unfold prim_base. rewrite Hbase. unfold prim_base in Hp. destruct (base_of T); try discriminate Hp; reflexivity. }
    rewrite (skel_leaf (sl_ty T) vdec Hp0), Habs. unfold tagset_of'. rewrite Htags. apply (sr_refl R perm HR). }
  split.
  { apply enc_with_congr.
    - rewrite (concrete_encoder_base DER (sl_ty T)), (concrete_encoder_base DER T), Hbase.
      unfold prim_base in Hp. destruct (base_of T); try discriminate Hp; reflexivity.
    - exact Htags.
    - intros ec fl o'. rewrite Hbase. apply (leaf_content_abs ce cd T v vdec ec fl o' Hs).
      rewrite <- Hbase, <- (abs_wrappers (sl_ty T) vdec), <- (abs_wrappers T v). exact Habs. }
  intros f Hf.
  pose proof (sl_stage1_generic ce cd T v content vdec b (f - 1 - length r) Hdef Hue Hleaf Hsl He') as Hg.
  rewrite (tagset_of'_ok T _ Hts) in Hg. cbn [length] in Hg.
  replace (S (f - 1 - length r) + (S (length r) - 1))%nat with f in Hg by lia.
  apply Hg; [split; lia|lia].
Qed.

(* ---------- containers as lists of members (type, value) ---------- *)

Definition enc_members (c: codec) : list (ty * val) -> res (list bytes) :=
  fix go (ms: list (ty * val)) : res (list bytes) :=
  match ms with
  | [] => Ok []
  | m :: r => do p <- enc_with c (enc_content c) (fst m) def_opts (snd m); do ps <- go r; Ok (p :: ps)
  end.

(* the same with the sort key the CER/DER SET encoders attach *)
Definition enc_members_k (c: codec) (dyn: bool) : list (ty * val) -> res (list (tagset * bytes)) :=
  fix go (ms: list (ty * val)) : res (list (tagset * bytes)) :=
  match ms with
  | [] => Ok []
  | m :: r => do b <- enc_with c (enc_content c) (fst m) def_opts (snd m); do rest <- go r;
              Ok ((set_sort_key dyn (fst m) (snd m), b) :: rest)
  end.

(* DER: every member with the outermost tag of its type *)
Definition der_members : list (ty * val) -> res (list (tagset * bytes)) :=
  fix go (ms: list (ty * val)) : res (list (tagset * bytes)) :=
  match ms with
  | [] => Ok []
  | m :: r => do b <- enc_with DER (enc_content DER) (fst m) def_opts (snd m); do rest <- go r;
              Ok ((last_tag (tagset_of' (fst m)), b) :: rest)
  end.

Definition der_container (ts: tagset) (arr: list (tagset * bytes) -> list bytes) (ms: list (ty * val)) : res bytes :=
  do kps <- der_members ms; frame ts (concat (arr kps)) true def_opts true.

Lemma enc_members_of_k c dyn : forall ms,
  enc_members c ms = (do kps <- enc_members_k c dyn ms; Ok (map snd kps)).
Proof.
  induction ms as [|m ms IH]; [reflexivity|]. cbn [enc_members enc_members_k].
  destruct (enc_with c (enc_content c) (fst m) def_opts (snd m)) as [p|e]; cbn [bind]; [|reflexivity].
  rewrite IH. destruct (enc_members_k c dyn ms) as [kps|e]; cbn [bind]; reflexivity.
Qed.

Lemma sort_key_plain dyn T v : not_choice T -> set_sort_key dyn T v = last_tag (tagset_of' T).
Proof. intros H. destruct dyn; destruct T; try reflexivity; destruct H. Qed.

Lemma enc_members_k_der dyn : forall ms, Forall (fun m => not_choice (fst m)) ms ->
  enc_members_k DER dyn ms = der_members ms.
Proof.
  induction ms as [|m ms IH]; intros HF; [reflexivity|]. inversion HF as [|? ? Hm Hms]; subst.
  cbn [enc_members_k der_members]. rewrite (IH Hms), (sort_key_plain dyn _ _ Hm). reflexivity.
Qed.

Lemma der_members_length : forall ms kps, der_members ms = Ok kps -> length kps = length ms.
Proof.
  induction ms as [|m ms IH]; intros kps H; cbn [der_members] in H.
  - inversion H; reflexivity.
  - destruct (enc_with DER (enc_content DER) (fst m) def_opts (snd m)) as [p|e]; cbn [bind] in H; [|discriminate].
    destruct (der_members ms) as [r|e] eqn:E; cbn [bind] in H; [|discriminate].
    inversion H; subst. cbn [length]. rewrite (IH r eq_refl). reflexivity.
Qed.

(* members that encode alike under the same outermost tags *)
Definition der_same (m tv: ty * val) : Prop :=
  tagset_of (fst tv) = tagset_of (fst m)
  /\ enc_with DER (enc_content DER) (fst tv) def_opts (snd tv) = enc_with DER (enc_content DER) (fst m) def_opts (snd m).

Lemma der_members_congr : forall ms tvs, Forall2 der_same ms tvs -> der_members tvs = der_members ms.
Proof.
  induction 1 as [|m tv ms tvs [Ht He] _ IH]; [reflexivity|].
  cbn [der_members]. rewrite He, IH. unfold tagset_of'. rewrite Ht. reflexivity.
Qed.

(* named versions of the encoder's local loops (convertible with them), any codec *)
Definition elems_c (c: codec) (t: ty) (o: eopts) : list val -> res (list bytes) :=
  fix go (xs: list val) : res (list bytes) :=
  match xs with
  | [] => Ok []
  | x :: r => do p <- enc_with c (enc_content c) t o x; do ps <- go r; Ok (p :: ps)
  end.

Definition listof_finish (cd: enc_codec) (parts: list bytes) : res (bytes * bool) :=
  match cd with
  | EcSeqOfBer | EcSeqOfCer => Ok (concat parts, true)
  | EcSetOfCer => Ok (concat (sort_setof parts), true)
  | _ => Err EMalformed
  end.

Lemma enc_content_seqof_g c t cd fl o xs :
  enc_content c (TSeqOf t) cd fl o (VList xs) = (do parts <- elems_c c t o xs; listof_finish cd parts).
Proof. reflexivity. Qed.
Lemma enc_content_setof_g c t cd fl o xs :
  enc_content c (TSetOf t) cd fl o (VList xs) = (do parts <- elems_c c t o xs; listof_finish cd parts).
Proof. reflexivity. Qed.

Definition fields_c (c: codec) (cd: enc_codec) (omit: bool) (o: eopts)
  : list (presence * ty) -> list (option val) -> res (list (tagset * bytes)) :=
  fix go (fs: list (presence * ty)) (vs: list (option val)) : res (list (tagset * bytes)) :=
    match fs with
    | [] => Ok []
    | (p, ft) :: fs' =>
        let ov := match vs with x :: _ => x | [] => None end in
        let vs' := match vs with _ :: r => r | [] => [] end in
        let o' := if omit then mkOpts (o_def o) (o_chunk o) (match p with Opt => true | _ => false end) else o in
        let emit (x: val) := do b <- enc_with c (enc_content c) ft o' x; do rest <- go fs' vs';
                             Ok ((set_sort_key (match cd with EcSetDer => true | _ => false end) ft x, b) :: rest) in
        match p, ov with
        | Opt, None => go fs' vs'
        | Def d, None => go fs' vs'
        | Def d, Some x => match val_py_eq x d with
                           | Some true => go fs' vs'
                           | Some false => emit x
                           | None => Err EUnmodelled end
        | Req, None => if all_optional_container ft then emit (VRec []) else Err EMalformed
        | _, Some x => emit x
        end
    end.

Definition record_finish (cd: enc_codec) (parts: list (tagset * bytes)) : res (bytes * bool) :=
  match cd with
  | EcSeq => Ok (concat (map snd parts), true)
  | EcSetCer | EcSetDer => Ok (concat (map snd (sort_by tagset_ltb fst parts)), true)
  | _ => Err EMalformed
  end.

Definition record_omit (cd: enc_codec) (fl: enc_flags) : bool :=
  match cd with EcSeq => ef_omit_empty fl | EcSetCer | EcSetDer => true | _ => false end.

Lemma enc_content_seq_g c fs cd fl o vs :
  enc_content c (TSeq fs) cd fl o (VRec vs) = (do parts <- fields_c c cd (record_omit cd fl) o fs vs; record_finish cd parts).
Proof. reflexivity. Qed.
Lemma enc_content_set_g c fs cd fl o vs :
  enc_content c (TSet fs) cd fl o (VRec vs) = (do parts <- fields_c c cd (record_omit cd fl) o fs vs; record_finish cd parts).
Proof. reflexivity. Qed.

Lemma elems_members c t : forall xs, elems_c c t def_opts xs = enc_members c (map (pair t) xs).
Proof.
  induction xs as [|x xs IH]; [reflexivity|]. cbn [elems_c map enc_members fst snd]. rewrite IH. reflexivity.
Qed.

(* the members of a record value whose slots are all filled *)
Definition rec_members : list (presence * ty) -> list (option val) -> list (ty * val) :=
  fix go (fs: list (presence * ty)) (vs: list (option val)) : list (ty * val) :=
    match fs, vs with
    | f :: fs', Some x :: vs' => (snd f, x) :: go fs' vs'
    | _, _ => []
    end.

(* fs all mandatory, vs one filled slot per component *)
Definition rec_full : list (presence * ty) -> list (option val) -> bool :=
  fix go (fs: list (presence * ty)) (vs: list (option val)) : bool :=
    match fs, vs with
    | [], [] => true
    | f :: fs', Some x :: vs' => is_req (fst f) && go fs' vs'
    | _, _ => false
    end.

Lemma fields_members c cd omit : forall fs vs, rec_full fs vs = true ->
  fields_c c cd omit def_opts fs vs
  = enc_members_k c (match cd with EcSetDer => true | _ => false end) (rec_members fs vs).
Proof.
  induction fs as [|[p ft] fs IH]; intros vs Hf.
  - destruct vs; [reflexivity|discriminate Hf].
  - destruct vs as [|[x|] vs]; try discriminate Hf.
    change (rec_full ((p, ft) :: fs) (Some x :: vs)) with (is_req p && rec_full fs vs)%bool in Hf.
    apply Bool.andb_true_iff in Hf. destruct Hf as [Hp Hf]. destruct p; try discriminate Hp.
    change (rec_members ((Req, ft) :: fs) (Some x :: vs)) with ((ft, x) :: rec_members fs vs).
    cbn [enc_members_k fst snd]. rewrite <- (IH vs Hf).
    destruct omit; reflexivity.
Qed.

Lemma rec_members_fst : forall fs vs, rec_full fs vs = true -> map fst (rec_members fs vs) = map snd fs.
Proof.
  induction fs as [|f fs IH]; intros vs Hf; destruct vs as [|[x|] vs]; try discriminate Hf; [reflexivity|].
  change (rec_full (f :: fs) (Some x :: vs)) with (is_req (fst f) && rec_full fs vs)%bool in Hf.
  apply Bool.andb_true_iff in Hf. destruct Hf as [_ Hf].
  change (rec_members (f :: fs) (Some x :: vs)) with ((snd f, x) :: rec_members fs vs).
  cbn [map fst]. rewrite (IH vs Hf). reflexivity.
Qed.

Definition skelm (m: ty * val) : sk := skel (fst m) (snd m).

Lemma skel_fields_members : forall fs vs, rec_full fs vs = true -> skel_fields fs vs = map skelm (rec_members fs vs).
Proof.
  induction fs as [|f fs IH]; intros vs Hf; destruct vs as [|[x|] vs]; try discriminate Hf; [reflexivity|].
  change (rec_full (f :: fs) (Some x :: vs)) with (is_req (fst f) && rec_full fs vs)%bool in Hf.
  apply Bool.andb_true_iff in Hf. destruct Hf as [_ Hf].
  change (skel_fields (f :: fs) (Some x :: vs)) with (skel (snd f) x :: skel_fields fs vs).
  change (rec_members (f :: fs) (Some x :: vs)) with ((snd f, x) :: rec_members fs vs).
  cbn [map]. rewrite (IH vs Hf). reflexivity.
Qed.

(* ---------- the DER encoding of each kind of container, by members ---------- *)

Lemma fix_opts_der : fix_opts DER def_opts = def_opts. Proof. reflexivity. Qed.

Lemma der_elems t xs : elems_c DER t def_opts xs = (do kps <- der_members (map (pair t) xs); Ok (map snd kps)).
Proof.
  induction xs as [|x xs IH]; [reflexivity|]. cbn [elems_c map der_members fst snd].
  destruct (enc_with DER (enc_content DER) t def_opts x) as [p|e]; cbn [bind]; [|reflexivity].
  rewrite IH. destruct (der_members (map (pair t) xs)) as [kps|e]; cbn [bind]; reflexivity.
Qed.

Lemma der_seqof T t ts xs : base_of T = TSeqOf t -> tagset_of T = Ok ts ->
  enc_with DER (enc_content DER) T def_opts (VList xs) = der_container ts (map snd) (map (pair t) xs).
Proof.
  intros Hb Hts. unfold enc_with. rewrite fix_opts_der, concrete_encoder_base, Hb.
  change (concrete_encoder DER (TSeqOf t)) with (Ok (EcSeqOfCer, mkEncFlags true false false None 0 0): res (enc_codec * enc_flags)).
  cbn [bind]. rewrite Hts. cbn [bind].
  change (mkOpts (o_def def_opts) (o_chunk def_opts) false) with def_opts.
  rewrite enc_content_base, Hb, enc_content_seqof_g, der_elems. unfold der_container.
  destruct (der_members (map (pair t) xs)) as [kps|e]; cbn [bind]; reflexivity.
Qed.

Lemma der_setof T t ts xs : base_of T = TSetOf t -> tagset_of T = Ok ts ->
  enc_with DER (enc_content DER) T def_opts (VList xs)
  = der_container ts (fun kps => sort_setof (map snd kps)) (map (pair t) xs).
Proof.
  intros Hb Hts. unfold enc_with. rewrite fix_opts_der, concrete_encoder_base, Hb.
  change (concrete_encoder DER (TSetOf t)) with (Ok (EcSetOfCer, mkEncFlags true false false None 0 0): res (enc_codec * enc_flags)).
  cbn [bind]. rewrite Hts. cbn [bind].
  change (mkOpts (o_def def_opts) (o_chunk def_opts) false) with def_opts.
  rewrite enc_content_base, Hb, enc_content_setof_g, der_elems. unfold der_container.
  destruct (der_members (map (pair t) xs)) as [kps|e]; cbn [bind]; reflexivity.
Qed.

Lemma der_seq T fs ts vs : base_of T = TSeq fs -> tagset_of T = Ok ts -> rec_full fs vs = true ->
  Forall (fun f => not_choice (snd f)) fs ->
  enc_with DER (enc_content DER) T def_opts (VRec vs) = der_container ts (map snd) (rec_members fs vs).
Proof.
  intros Hb Hts Hf Hnc. unfold enc_with. rewrite fix_opts_der, concrete_encoder_base, Hb.
  change (concrete_encoder DER (TSeq fs)) with (Ok (EcSeq, mkEncFlags true false true None 0 0): res (enc_codec * enc_flags)).
  cbn [bind]. rewrite Hts. cbn [bind].
  change (mkOpts (o_def def_opts) (o_chunk def_opts) false) with def_opts.
  rewrite enc_content_base, Hb, enc_content_seq_g, (fields_members DER _ _ fs vs Hf).
  rewrite enc_members_k_der.
  - unfold der_container. destruct (der_members (rec_members fs vs)) as [kps|e]; cbn [bind]; reflexivity.
  - apply Forall_forall. intros m Hin. rewrite Forall_forall in Hnc.
    assert (Hin': In (fst m) (map snd fs)) by (rewrite <- (rec_members_fst fs vs Hf); apply in_map; exact Hin).
    apply in_map_iff in Hin'. destruct Hin' as (f & Hfe & Hfin). rewrite <- Hfe. exact (Hnc f Hfin).
Qed.

Lemma der_set T fs ts vs : base_of T = TSet fs -> tagset_of T = Ok ts -> rec_full fs vs = true ->
  Forall (fun f => not_choice (snd f)) fs ->
  enc_with DER (enc_content DER) T def_opts (VRec vs)
  = der_container ts (fun kps => map snd (sort_by tagset_ltb fst kps)) (rec_members fs vs).
Proof.
  intros Hb Hts Hf Hnc. unfold enc_with. rewrite fix_opts_der, concrete_encoder_base, Hb.
  change (concrete_encoder DER (TSet fs)) with (Ok (EcSetDer, mkEncFlags true false false None 0 0): res (enc_codec * enc_flags)).
  cbn [bind]. rewrite Hts. cbn [bind].
  change (mkOpts (o_def def_opts) (o_chunk def_opts) false) with def_opts.
  rewrite enc_content_base, Hb, enc_content_set_g, (fields_members DER _ _ fs vs Hf).
  rewrite enc_members_k_der.
  - unfold der_container. destruct (der_members (rec_members fs vs)) as [kps|e]; cbn [bind]; reflexivity.
  - apply Forall_forall. intros m Hin. rewrite Forall_forall in Hnc.
    assert (Hin': In (fst m) (map snd fs)) by (rewrite <- (rec_members_fst fs vs Hf); apply in_map; exact Hin).
    apply in_map_iff in Hin'. destruct Hin' as (f & Hfe & Hfin). rewrite <- Hfe. exact (Hnc f Hfin).
Qed.

(* ---------- SET OF CHOICE, as the decoder builds it for look-alike members ---------- *)

Definition alt_c (c: codec) (o: eopts) (x: val) : list ty -> nat -> res (bytes * bool) :=
  fix go (alts: list ty) (k: nat) : res (bytes * bool) :=
    match alts, k with
    | a :: _, O => do p <- enc_with c (enc_content c) a o x; Ok (p, true)
    | _ :: r, S k' => go r k'
    | [], _ => Err EMalformed
    end.

Lemma enc_content_choice_g c alts fl o i x :
  enc_content c (TChoice alts) EcChoice fl o (VChoice i x) = alt_c c o x alts i.
Proof. reflexivity. Qed.

Lemma alt_c_nth c o x : forall alts i a, nth_error alts i = Some a ->
  alt_c c o x alts i = (do p <- enc_with c (enc_content c) a o x; Ok (p, true)).
Proof.
  induction alts as [|a0 alts IH]; intros i a H; destruct i as [|i]; try discriminate H.
  - inversion H; subst. reflexivity.
  - cbn [nth_error] in H. cbn [alt_c]. apply IH. exact H.
Qed.

Lemma skel_alt_nth x : forall alts i a, nth_error alts i = Some a -> skel_alt x alts i = skel a x.
Proof.
  induction alts as [|a0 alts IH]; intros i a H; destruct i as [|i]; try discriminate H.
  - inversion H; subst. reflexivity.
  - cbn [nth_error] in H. cbn [skel_alt]. apply IH. exact H.
Qed.

Lemma der_choice_elem alts i a x : nth_error alts i = Some a ->
  enc_with DER (enc_content DER) (TChoice alts) def_opts (VChoice i x) = enc_with DER (enc_content DER) a def_opts x.
Proof.
  intros Hn. unfold enc_with at 1. rewrite fix_opts_der.
  change (concrete_encoder DER (TChoice alts)) with (Ok (EcChoice, mkEncFlags true false false None 0 0): res (enc_codec * enc_flags)).
  cbn [bind tagset_of].
  change (mkOpts (o_def def_opts) (o_chunk def_opts) false) with def_opts.
  rewrite enc_content_choice_g, (alt_c_nth DER def_opts x alts i a Hn).
  destruct (enc_with DER (enc_content DER) a def_opts x) as [p|e]; reflexivity.
Qed.

Lemma der_elems_choice : forall tvs pre,
  elems_c DER (TChoice (pre ++ map fst tvs)) def_opts (number_choices (length pre) tvs)
  = (do kps <- der_members tvs; Ok (map snd kps)).
Proof.
  induction tvs as [|tv tvs IH]; intros pre; [reflexivity|].
  cbn [number_choices elems_c der_members map].
  rewrite (der_choice_elem (pre ++ fst tv :: map fst tvs) (length pre) (fst tv) (snd tv) (nth_error_app_exact pre (fst tv) (map fst tvs))).
  destruct (enc_with DER (enc_content DER) (fst tv) def_opts (snd tv)) as [p|e]; cbn [bind]; [|reflexivity].
  specialize (IH (pre ++ [fst tv])). rewrite <- app_assoc in IH. cbn [app] in IH.
  rewrite app_length in IH. cbn [length] in IH. rewrite Nat.add_1_r in IH.
  rewrite IH. destruct (der_members tvs) as [kps|e]; reflexivity.
Qed.

Lemma skel_choices : forall tvs pre,
  map (skel (TChoice (pre ++ map fst tvs))) (number_choices (length pre) tvs) = map skelm tvs.
Proof.
  induction tvs as [|tv tvs IH]; intros pre; [reflexivity|].
  cbn [number_choices map]. rewrite skel_choice.
  rewrite (skel_alt_nth (snd tv) (pre ++ fst tv :: map fst tvs) (length pre) (fst tv) (nth_error_app_exact pre (fst tv) (map fst tvs))).
  specialize (IH (pre ++ [fst tv])). rewrite <- app_assoc in IH. cbn [app] in IH.
  rewrite app_length in IH. cbn [length] in IH. rewrite Nat.add_1_r in IH.
  rewrite IH. reflexivity.
Qed.

Lemma der_setof_choice T tvs ts : base_of T = TSetOf (TChoice (map fst tvs)) -> tagset_of T = Ok ts ->
  enc_with DER (enc_content DER) T def_opts (VList (number_choices O tvs))
  = der_container ts (fun kps => sort_setof (map snd kps)) tvs.
Proof.
  intros Hb Hts. unfold enc_with. rewrite fix_opts_der, concrete_encoder_base, Hb.
  change (concrete_encoder DER (TSetOf (TChoice (map fst tvs))))
    with (Ok (EcSetOfCer, mkEncFlags true false false None 0 0): res (enc_codec * enc_flags)).
  cbn [bind]. rewrite Hts. cbn [bind].
  change (mkOpts (o_def def_opts) (o_chunk def_opts) false) with def_opts.
  rewrite enc_content_base, Hb, enc_content_setof_g.
  pose proof (der_elems_choice tvs []) as Hel. cbn [app length] in Hel. rewrite Hel. unfold der_container.
  destruct (der_members tvs) as [kps|e]; cbn [bind]; reflexivity.
Qed.

(* ---------- the guessed object ---------- *)

Definition all_same (tvs: list (ty * val)) : bool :=
  match tvs with
  | [] => true
  | (T0, _) :: _ => forallb (fun tv => tagset_eqb (tagset_of' (fst tv)) (tagset_of' T0)) tvs
  end.

(* how the DER encoder arranges the members of the guessed container *)
Definition arr_guess (is_set: bool) (tvs: list (ty * val)) : list (tagset * bytes) -> list bytes :=
  if is_set then (if all_same tvs then (fun kps => sort_setof (map snd kps))
                  else (fun kps => map snd (sort_by tagset_ltb fst kps)))
  else map snd.

Definition rec_ty_of (tvs: list (ty * val)) : list (presence * ty) := map (fun tv => (Req, fst tv)) tvs.
Definition rec_val_of (tvs: list (ty * val)) : list (option val) := map (fun tv => Some (snd tv)) tvs.

Lemma guess_proto_cons is_set tv rest :
  guess_proto is_set (tv :: rest)
  = if is_set then (if all_same (tv :: rest) then TSetOf (TChoice (map fst (tv :: rest))) else TSet (rec_ty_of (tv :: rest)))
    else TSeq (rec_ty_of (tv :: rest)).
Proof. destruct tv; reflexivity. Qed.

Lemma guess_val_cons is_set tv rest :
  guess_val is_set (tv :: rest)
  = if is_set && all_same (tv :: rest) then VList (number_choices O (tv :: rest)) else VRec (rec_val_of (tv :: rest)).
Proof. destruct tv; reflexivity. Qed.

Lemma rec_of_full : forall tvs, rec_full (rec_ty_of tvs) (rec_val_of tvs) = true.
Proof. induction tvs as [|tv tvs IH]; [reflexivity|]. cbn. exact IH. Qed.

Lemma rec_of_members : forall tvs, rec_members (rec_ty_of tvs) (rec_val_of tvs) = tvs.
Proof.
  induction tvs as [|[T0 v0] tvs IH]; [reflexivity|].
  change (rec_members (rec_ty_of ((T0, v0) :: tvs)) (rec_val_of ((T0, v0) :: tvs)))
    with ((T0, v0) :: rec_members (rec_ty_of tvs) (rec_val_of tvs)).
  rewrite IH. reflexivity.
Qed.

Lemma rec_of_not_choice tvs : Forall (fun tv => not_choice (fst tv)) tvs ->
  Forall (fun f : presence * ty => not_choice (snd f)) (rec_ty_of tvs).
Proof. intros H. unfold rec_ty_of. apply Forall_map. cbn [snd]. exact H. Qed.

Lemma schemaless_ty_own proto b0 r : tagset_of proto = Ok [b0] -> schemaless_ty proto (b0 :: r) = wrap_explicit r proto.
Proof. intros H. unfold schemaless_ty, tagset_of'. rewrite H, tag_eqb_refl. reflexivity. Qed.

Lemma guess_wrap proto b0 r : tagset_of proto = Ok [b0] -> Forall explicit_like r -> not_choice proto ->
  base_of proto = proto ->
  tagset_of (schemaless_ty proto (b0 :: r)) = Ok (b0 :: r) /\ not_choice (schemaless_ty proto (b0 :: r))
  /\ base_of (schemaless_ty proto (b0 :: r)) = proto.
Proof.
  intros Hp Hex Hnc Hb. rewrite (schemaless_ty_own proto b0 r Hp).
  split; [apply wrap_explicit_tags_one; assumption|].
  split; [apply wrap_explicit_not_choice; exact Hnc|]. rewrite base_of_wrap_explicit. exact Hb.
Qed.

Theorem guess_props (is_set: bool) b0 r tvs :
  b0 = utag true (if is_set then 17 else 16) -> Forall explicit_like r ->
  Forall (fun tv => not_choice (fst tv)) tvs ->
  let T0 := schemaless_ty (guess_proto is_set tvs) (b0 :: r) in
  let v0 := guess_val is_set tvs in
  tagset_of T0 = Ok (b0 :: r) /\ not_choice T0
  /\ skel T0 v0 = SNode (b0 :: r) (map skelm tvs)
  /\ enc_with DER (enc_content DER) T0 def_opts v0 = der_container (b0 :: r) (arr_guess is_set tvs) tvs.
Proof.
  intros Hb0 Hex Hnc. cbv zeta.
  destruct tvs as [|tv rest].
  - (* no members: SEQUENCE OF / SET OF with no elements *)
    cbn [guess_proto guess_val].
    assert (Hp: tagset_of (if is_set then TSetOf TNull else TSeqOf TNull) = Ok [b0]) by (subst b0; destruct is_set; reflexivity).
    destruct (guess_wrap _ b0 r Hp Hex) as (Hts & Hn & Hbase); [destruct is_set; exact I|destruct is_set; reflexivity|].
    split; [exact Hts|]. split; [exact Hn|].
    destruct is_set.
    + split; [rewrite (skel_listof _ TNull [] (or_intror Hbase)), (tagset_of'_ok _ _ Hts); reflexivity|].
      rewrite (der_setof _ TNull _ [] Hbase Hts). reflexivity.
    + split; [rewrite (skel_listof _ TNull [] (or_introl Hbase)), (tagset_of'_ok _ _ Hts); reflexivity|].
      rewrite (der_seqof _ TNull _ [] Hbase Hts). reflexivity.
  - rewrite guess_proto_cons, guess_val_cons. set (tvs := tv :: rest) in *.
    destruct is_set; cbn [andb].
    + destruct (all_same tvs) eqn:Esame.
      * (* look-alike members: SET OF CHOICE *)
        assert (Hp: tagset_of (TSetOf (TChoice (map fst tvs))) = Ok [b0]) by (subst b0; reflexivity).
        destruct (guess_wrap _ b0 r Hp Hex I eq_refl) as (Hts & Hn & Hbase).
        split; [exact Hts|]. split; [exact Hn|]. split.
        { rewrite (skel_listof _ _ _ (or_intror Hbase)), (tagset_of'_ok _ _ Hts).
          pose proof (skel_choices tvs []) as Hsk. cbn [app length] in Hsk. rewrite Hsk. reflexivity. }
        rewrite (der_setof_choice _ tvs _ Hbase Hts). unfold arr_guess. rewrite Esame. reflexivity.
      * (* SET *)
        assert (Hp: tagset_of (TSet (rec_ty_of tvs)) = Ok [b0]) by (subst b0; reflexivity).
        destruct (guess_wrap _ b0 r Hp Hex I eq_refl) as (Hts & Hn & Hbase).
        split; [exact Hts|]. split; [exact Hn|]. split.
        { rewrite (skel_record _ _ _ (or_intror Hbase)), (tagset_of'_ok _ _ Hts).
          rewrite (skel_fields_members _ _ (rec_of_full tvs)), rec_of_members. reflexivity. }
        rewrite (der_set _ _ _ _ Hbase Hts (rec_of_full tvs) (rec_of_not_choice tvs Hnc)), rec_of_members.
        unfold arr_guess. rewrite Esame. reflexivity.
    + (* SEQUENCE *)
      assert (Hp: tagset_of (TSeq (rec_ty_of tvs)) = Ok [b0]) by (subst b0; reflexivity).
      destruct (guess_wrap _ b0 r Hp Hex I eq_refl) as (Hts & Hn & Hbase).
      split; [exact Hts|]. split; [exact Hn|]. split.
      { rewrite (skel_record _ _ _ (or_introl Hbase)), (tagset_of'_ok _ _ Hts).
        rewrite (skel_fields_members _ _ (rec_of_full tvs)), rec_of_members. reflexivity. }
      rewrite (der_seq _ _ _ _ Hbase Hts (rec_of_full tvs) (rec_of_not_choice tvs Hnc)), rec_of_members.
      reflexivity.
Qed.

(* ---------- decoding the container the encoder wrote ---------- *)

Lemma container_consumes cd (is_set: bool) b0 r parts b tvs :
  b0 = utag true (if is_set then 17 else 16) -> Forall explicit_like r ->
  frame (b0 :: r) (concat parts) true def_opts true = Ok b ->
  forall f, (2 * length b <= f)%nat ->
  Forall2 (sl_elem_ok (dec_call cd (f - 1 - length r))) parts tvs ->
  consumes (dec_call cd f SNone [] None false false) b (guess_dv is_set (b0 :: r) tvs).
Proof.
  intros Hb0 Hex Hfr f Hf HF.
  pose proof (frame_len_r _ _ _ _ _ _ Hfr) as Hlen.
  pose proof (sl_elem_count _ _ _ HF) as Hcnt.
  assert (Hby: exists dcd, by_tag cd [b0] = Some (dcd, mkDecFlags true None)
                           /\ (dcd = if is_set then DcSetOrSetOf else DcSeqOrSeqOf)).
  { subst b0. destruct is_set; destruct cd; eexists; (split; [vm_compute; reflexivity|reflexivity]). }
  destruct Hby as (dcd & Hby & Hdcd).
  replace f with (S (f - 1 - length r) + length r)%nat by lia.
  apply (framed_consumes_none cd b0 r true true (concat parts) b (f - 1 - length r) dcd _ _
           ltac:(subst b0; reflexivity) Hex Hby Hfr); [lia|].
  assert (Hdv: dec_value (dec_call cd (f - 1 - length r)) (f - 1 - length r) dcd (mkDecFlags true None) None (b0 :: r)
                 (Some (N.of_nat (length (concat parts)))) false
               = dec_schemaless (dec_call cd (f - 1 - length r)) (f - 1 - length r) is_set (b0 :: r)
                   (Some (N.of_nat (length (concat parts))))).
  { subst dcd b0. destruct is_set; reflexivity. }
  rewrite Hdv. apply dec_schemaless_consumes; [exact HF|lia].
Qed.

(* what the induction gives for each member: the guessed member type and value *)
Definition item_res (R: sk -> sk -> Prop) (m tv: ty * val) : Prop :=
  tagset_of (fst tv) = tagset_of (fst m) /\ not_choice (fst tv) /\ R (skelm m) (skelm tv)
  /\ enc_with DER (enc_content DER) (fst tv) def_opts (snd tv) = enc_with DER (enc_content DER) (fst m) def_opts (snd m).

Lemma members_item R ce cd : forall ms, Forall (fun m => sl_item R ce cd (fst m) (snd m)) ms ->
  forall parts, enc_members ce ms = Ok parts -> N.of_nat (length (concat parts)) <= index_max ->
  exists tvs, Forall2 (item_res R) ms tvs /\
    forall f, (2 * length (concat parts) <= f)%nat -> Forall2 (sl_elem_ok (dec_call cd f)) parts tvs.
Proof.
  induction 1 as [|m ms Hm _ IH]; intros parts He Hmax.
  - inversion He; subst. exists []. split; [constructor|]. intros f _. constructor.
  - cbn [enc_members] in He.
    destruct (enc_with ce (enc_content ce) (fst m) def_opts (snd m)) as [p|e] eqn:Ep; cbn [bind] in He; [|discriminate].
    destruct (enc_members ce ms) as [ps|e] eqn:Eps; cbn [bind] in He; [|discriminate].
    inversion He; subst parts; clear He.
    cbn [concat] in Hmax. rewrite app_length in Hmax.
    destruct (Hm p Ep ltac:(lia)) as (Hpl & T0 & v0 & Hts & Hnc & Hsk & Hder & Hcons).
    destruct (IH ps eq_refl ltac:(lia)) as (tvs & HF & Hcs).
    exists ((T0, v0) :: tvs). split.
    + constructor; [|exact HF]. unfold item_res, skelm. cbn [fst snd]. repeat split; assumption.
    + intros f Hf. cbn [concat] in Hf. rewrite app_length in Hf. constructor.
      * split; [|exact Hpl]. cbn [fst snd]. apply Hcons. lia.
      * apply Hcs. lia.
Qed.

Lemma item_res_not_choice R ms tvs : Forall2 (item_res R) ms tvs -> Forall (fun tv => not_choice (fst tv)) tvs.
Proof. induction 1 as [|m tv ms tvs (_ & Hn & _) _ IH]; constructor; assumption. Qed.

Lemma item_res_skel R ms tvs : Forall2 (item_res R) ms tvs -> Forall2 R (map skelm ms) (map skelm tvs).
Proof. induction 1 as [|m tv ms tvs (_ & _ & Hs & _) _ IH]; cbn [map]; constructor; assumption. Qed.

Lemma item_res_der R ms tvs : Forall2 (item_res R) ms tvs -> Forall2 der_same ms tvs.
Proof. induction 1 as [|m tv ms tvs (Ht & _ & _ & Hd) _ IH]; constructor; [split|]; assumption. Qed.

(* ---------- which members look alike ---------- *)

Definition all_same_tys (ts: list ty) : bool :=
  match ts with [] => true | t1 :: _ => forallb (fun t => tagset_eqb (tagset_of' t) (tagset_of' t1)) ts end.

Lemma forallb_map_fst (f: ty -> bool) : forall (l: list (ty * val)), forallb (fun tv => f (fst tv)) l = forallb f (map fst l).
Proof. induction l as [|a l IH]; [reflexivity|]. cbn [forallb map]. rewrite IH. reflexivity. Qed.

Lemma all_same_map tvs : all_same tvs = all_same_tys (map fst tvs).
Proof.
  destruct tvs as [|[T0 v0] rest]; [reflexivity|]. unfold all_same, all_same_tys. cbn [map fst].
  apply (forallb_map_fst (fun t => tagset_eqb (tagset_of' t) (tagset_of' T0))).
Qed.

Lemma set_mixed_spec ts : set_mixed ts = match ts with _ :: _ :: _ => negb (all_same_tys ts) | _ => true end.
Proof. destruct ts as [|t1 [|t2 r]]; reflexivity. Qed.

Lemma all_same_tys_ext : forall l1 l2, Forall2 (fun a b => tagset_of' b = tagset_of' a) l1 l2 ->
  all_same_tys l2 = all_same_tys l1.
Proof.
  intros l1 l2 H. destruct H as [|a b l1 l2 Hab H]; [reflexivity|].
  unfold all_same_tys. rewrite Hab. cbn [forallb]. rewrite Hab. f_equal.
  induction H as [|a' b' l1 l2 H1 _ IH]; [reflexivity|]. cbn [forallb]. rewrite H1, IH. reflexivity.
Qed.

Lemma item_res_tags R ms tvs : Forall2 (item_res R) ms tvs ->
  Forall2 (fun a b => tagset_of' b = tagset_of' a) (map fst ms) (map fst tvs).
Proof.
  induction 1 as [|m tv ms tvs (Ht & _) _ IH]; cbn [map]; constructor; [|exact IH].
  unfold tagset_of'. rewrite Ht. reflexivity.
Qed.

Lemma all_same_tys_spec l : all_same_tys l = true <->
  (forall a b, In a l -> In b l -> tagset_eqb (tagset_of' a) (tagset_of' b) = true).
Proof.
  destruct l as [|t1 l]; [split; [intros _ a b []|reflexivity]|].
  unfold all_same_tys. rewrite forallb_forall. split.
  - intros H a b Ha Hb. apply (tagset_eqb_trans _ (tagset_of' t1)); [apply H; exact Ha|].
    rewrite tagset_eqb_symb. apply H; exact Hb.
  - intros H a Ha. apply H; [exact Ha|left; reflexivity].
Qed.

Lemma all_same_tys_perm l l' : Permutation l l' -> all_same_tys l = all_same_tys l'.
Proof.
  intros Hp.
  destruct (all_same_tys l) eqn:E1; destruct (all_same_tys l') eqn:E2; try reflexivity.
  - rewrite all_same_tys_spec in E1. assert (H: all_same_tys l' = true).
    { apply all_same_tys_spec. intros a b Ha Hb. apply E1; eapply Permutation_in; try apply Permutation_sym; eassumption. }
    congruence.
  - rewrite all_same_tys_spec in E2. assert (H: all_same_tys l = true).
    { apply all_same_tys_spec. intros a b Ha Hb. apply E2; eapply Permutation_in; eassumption. }
    congruence.
Qed.

Lemma all_same_const t (l: list ty) : Forall (fun a => a = t) l -> all_same_tys l = true.
Proof.
  intros H. apply all_same_tys_spec. rewrite Forall_forall in H. intros a b Ha Hb.
  rewrite (H a Ha), (H b Hb). apply tagset_eqb_refl.
Qed.

Lemma der_container_arr ts arr1 arr2 ms :
  (forall kps, der_members ms = Ok kps -> arr1 kps = arr2 kps) -> der_container ts arr1 ms = der_container ts arr2 ms.
Proof.
  intros H. unfold der_container. destruct (der_members ms) as [kps|e]; cbn [bind]; [|reflexivity].
  rewrite (H kps eq_refl). reflexivity.
Qed.

(* ---------- sorting what is sorted ---------- *)

Section SortIdem.
  Context {A K: Type} (ltb: K -> K -> bool) (key: A -> K).

  Lemma sort_by_of_sorted : forall l, StronglySorted (le_key ltb key) l -> sort_by ltb key l = l.
  Proof.
    induction 1 as [|z l Hs IH Hz]; [reflexivity|].
    change (sort_by ltb key (z :: l)) with (insert_by ltb key z (sort_by ltb key l)). rewrite IH.
    destruct l as [|w l']; [reflexivity|]. cbn [insert_by].
    inversion Hz as [|? ? Hw _]; subst. unfold le_key in Hw. rewrite Hw. reflexivity.
  Qed.
End SortIdem.

Lemma sort_tags_idem (kps: list (tagset * bytes)) :
  sort_by tagset_ltb fst (sort_by tagset_ltb fst kps) = sort_by tagset_ltb fst kps.
Proof.
  apply sort_by_of_sorted. apply sort_by_sorted.
  - exact tagset_ltb_irrefl.
  - exact tagset_ltb_trans.
  - exact tagset_ltb_negtrans.
Qed.

Lemma sort_setof_long (l: list bytes) : (2 <= length l)%nat ->
  sort_setof l = sort_by bytes_ltb (pad_to (max_len l)) l.
Proof. destruct l as [|a [|b l]]; cbn [length]; intros H; try lia. reflexivity. Qed.

Lemma sort_setof_perm_self (l: list bytes) : Permutation l (sort_setof l).
Proof. destruct l as [|a [|b l]]; try apply Permutation_refl. unfold sort_setof. apply sort_by_perm_self. Qed.

Lemma sort_setof_idem (l: list bytes) : sort_setof (sort_setof l) = sort_setof l.
Proof.
  destruct (Nat.le_gt_cases 2 (length l)) as [Hl|Hl].
  - pose proof (sort_setof_perm_self l) as Hp.
    assert (Hl2: (2 <= length (sort_setof l))%nat) by (rewrite <- (Permutation_length Hp); exact Hl).
    rewrite (sort_setof_long _ Hl2). rewrite <- (max_len_perm _ _ Hp).
    rewrite (sort_setof_long _ Hl).
    apply sort_by_of_sorted. apply sort_by_sorted.
    + exact bytes_ltb_irrefl.
    + exact bytes_ltb_trans.
    + exact bytes_ltb_negtrans.
  - destruct l as [|a [|b l]]; try reflexivity. cbn [length] in Hl. lia.
Qed.

(* ---------- members in another order ---------- *)

Definition dm_rel (m: ty * val) (kp: tagset * bytes) : Prop :=
  enc_with DER (enc_content DER) (fst m) def_opts (snd m) = Ok (snd kp) /\ fst kp = last_tag (tagset_of' (fst m)).

Lemma der_members_F2 : forall ms kps, der_members ms = Ok kps <-> Forall2 dm_rel ms kps.
Proof.
  induction ms as [|m ms IH]; intros kps; split; intros H.
  - inversion H; subst. constructor.
  - inversion H; subst. reflexivity.
  - cbn [der_members] in H.
    destruct (enc_with DER (enc_content DER) (fst m) def_opts (snd m)) as [p|e] eqn:Ep; cbn [bind] in H; [|discriminate].
    destruct (der_members ms) as [r|e] eqn:E; cbn [bind] in H; [|discriminate].
    inversion H; subst. constructor; [split; [exact Ep|reflexivity]|]. apply IH. reflexivity.
  - inversion H as [|? kp ? kps' [Hm Hk] HF]; subst. cbn [der_members]. rewrite Hm. cbn [bind].
    apply IH in HF. rewrite HF. cbn [bind]. destruct kp as [k p]. cbn [fst snd] in *. subst k. reflexivity.
Qed.

Lemma Forall2_flip' {A B} (P: A -> B -> Prop) l1 l2 : Forall2 P l1 l2 -> Forall2 (fun b a => P a b) l2 l1.
Proof. induction 1; constructor; assumption. Qed.

Lemma Forall2_perm_right' {A B} (P: A -> B -> Prop) l1 l2 l2' : Forall2 P l1 l2 -> Permutation l2 l2' ->
  exists l1', Permutation l1 l1' /\ Forall2 P l1' l2'.
Proof.
  intros HF Hp.
  destruct (Permutation_Forall2 Hp (Forall2_flip' _ _ _ HF)) as (l1' & Hp' & HF').
  exists l1'. split; [exact Hp'|]. apply Forall2_flip' in HF'. exact HF'.
Qed.

Lemma der_members_perm ms kps kps' : der_members ms = Ok kps -> Permutation kps kps' ->
  exists ms', Permutation ms ms' /\ der_members ms' = Ok kps'.
Proof.
  intros H Hp. apply der_members_F2 in H.
  destruct (Forall2_perm_right' dm_rel ms kps kps' H Hp) as (ms' & Hpm & HF).
  exists ms'. split; [exact Hpm|]. apply der_members_F2. exact HF.
Qed.

Lemma der_members_enc : forall ms kps, der_members ms = Ok kps -> enc_members DER ms = Ok (map snd kps).
Proof.
  induction ms as [|m ms IH]; intros kps H; cbn [der_members] in H.
  - inversion H; reflexivity.
  - destruct (enc_with DER (enc_content DER) (fst m) def_opts (snd m)) as [p|e] eqn:Ep; cbn [bind] in H; [|discriminate].
    destruct (der_members ms) as [r|e] eqn:E; cbn [bind] in H; [|discriminate].
    inversion H; subst. cbn [enc_members map snd]. rewrite Ep, (IH r eq_refl). reflexivity.
Qed.

Lemma perm_Forall {A} (P: A -> Prop) l l' : Permutation l l' -> Forall P l -> Forall P l'.
Proof.
  intros Hp H. rewrite Forall_forall in *. intros x Hx. apply H.
  eapply Permutation_in; [apply Permutation_sym; exact Hp|exact Hx].
Qed.

(* ---------- inverting the encoder on containers ---------- *)

(* the members in the order the encoder wrote them: the given order, or - the DER encoder on
   SET OF / SET - a permutation after which DER has nothing left to re-order *)
Definition wire_members (perm: bool) (ts: tagset) (is_set: bool) (arr: list (tagset * bytes) -> list bytes)
           (ms ms': list (ty * val)) : Prop :=
  (ms' = ms \/ (perm = true /\ is_set = true /\ Permutation ms ms'))
  /\ forall tvs, Forall2 der_same ms' tvs -> Forall2 (fun a b => tagset_of' b = tagset_of' a) (map fst ms') (map fst tvs) ->
       der_container ts (arr_guess is_set tvs) tvs = der_container ts arr ms.

Lemma enc_listof_inv ce T t (is_set: bool) xs b0 r b : enc_ok ce ->
  base_of T = (if is_set then TSetOf t else TSeqOf t) -> (is_set = true -> ce = BER) ->
  tagset_of T = Ok (b0 :: r) ->
  enc_with ce (enc_content ce) T def_opts (VList xs) = Ok b ->
  exists parts, enc_members ce (map (pair t) xs) = Ok parts
                /\ frame (b0 :: r) (concat parts) true def_opts true = Ok b.
Proof.
  intros Hce Hb Hset Hts He.
  assert (Hdef: def_codec ce) by (destruct Hce as [-> | ->]; reflexivity).
  destruct (enc_with_inv_c ce T _ b Hdef He) as (ec & fl & ts & content & cns & Hcenc & Hts' & Hcont & Hfr).
  rewrite Hts in Hts'. inversion Hts'; subst ts; clear Hts'.
  rewrite concrete_encoder_base in Hcenc. rewrite enc_content_base in Hcont. rewrite Hb in Hcenc, Hcont.
  assert (Hfin: exists parts, enc_members ce (map (pair t) xs) = Ok parts /\ content = concat parts /\ cns = true /\ ef_indef fl = true).
  { destruct is_set.
    - rewrite (Hset eq_refl) in *. vm_compute in Hcenc. inversion Hcenc; subst ec fl; clear Hcenc.
      rewrite enc_content_setof_g, elems_members in Hcont.
      destruct (enc_members BER (map (pair t) xs)) as [parts|e]; cbn [bind listof_finish] in Hcont; [|discriminate].
      inversion Hcont; subst. exists parts. repeat split.
    - destruct Hce as [-> | ->]; vm_compute in Hcenc; inversion Hcenc; subst ec fl; clear Hcenc;
        rewrite enc_content_seqof_g, elems_members in Hcont;
        (destruct (enc_members _ (map (pair t) xs)) as [parts|e]; cbn [bind listof_finish] in Hcont; [|discriminate]);
        inversion Hcont; subst; exists parts; repeat split. }
  destruct Hfin as (parts & Hm & -> & -> & Hsi). rewrite Hsi in Hfr. exists parts. split; assumption.
Qed.

Lemma enc_record_inv ce T fs (is_set: bool) vs b0 r b : enc_ok ce ->
  base_of T = (if is_set then TSet fs else TSeq fs) -> (is_set = true -> ce = BER) ->
  rec_full fs vs = true -> tagset_of T = Ok (b0 :: r) ->
  enc_with ce (enc_content ce) T def_opts (VRec vs) = Ok b ->
  exists parts, enc_members ce (rec_members fs vs) = Ok parts
                /\ frame (b0 :: r) (concat parts) true def_opts true = Ok b.
Proof.
  intros Hce Hb Hset Hfull Hts He.
  assert (Hdef: def_codec ce) by (destruct Hce as [-> | ->]; reflexivity).
  destruct (enc_with_inv_c ce T _ b Hdef He) as (ec & fl & ts & content & cns & Hcenc & Hts' & Hcont & Hfr).
  rewrite Hts in Hts'. inversion Hts'; subst ts; clear Hts'.
  rewrite concrete_encoder_base in Hcenc. rewrite enc_content_base in Hcont. rewrite Hb in Hcenc, Hcont.
  assert (Hfin: exists parts, enc_members ce (rec_members fs vs) = Ok parts /\ content = concat parts /\ cns = true /\ ef_indef fl = true).
  { destruct is_set.
    - rewrite (Hset eq_refl) in *. vm_compute in Hcenc. inversion Hcenc; subst ec fl; clear Hcenc.
      rewrite enc_content_set_g, (fields_members BER _ _ fs vs Hfull) in Hcont.
      rewrite (enc_members_of_k BER false).
      destruct (enc_members_k BER false (rec_members fs vs)) as [kps|e]; cbn [bind record_finish] in Hcont; [|discriminate].
      inversion Hcont; subst. exists (map snd kps). repeat split.
    - destruct Hce as [-> | ->]; vm_compute in Hcenc; inversion Hcenc; subst ec fl; clear Hcenc;
        rewrite enc_content_seq_g, (fields_members _ _ _ fs vs Hfull) in Hcont;
        rewrite (enc_members_of_k _ false);
        (destruct (enc_members_k _ false (rec_members fs vs)) as [kps|e]; cbn [bind record_finish] in Hcont; [|discriminate]);
        inversion Hcont; subst; exists (map snd kps); repeat split. }
  destruct Hfin as (parts & Hm & -> & -> & Hsi). rewrite Hsi in Hfr. exists parts. split; assumption.
Qed.

(* the DER encoder on SET OF / SET: the members, re-ordered *)
Lemma der_sorted_inv ts arr ms b : der_container ts arr ms = Ok b ->
  exists kps, der_members ms = Ok kps /\ frame ts (concat (arr kps)) true def_opts true = Ok b
    /\ forall kps', Permutation kps kps' -> map snd kps' = arr kps ->
       exists ms', Permutation ms ms' /\ der_members ms' = Ok kps' /\ enc_members DER ms' = Ok (arr kps).
Proof.
  intros H. unfold der_container in H.
  destruct (der_members ms) as [kps|e] eqn:Ek; cbn [bind] in H; [|discriminate].
  exists kps. split; [reflexivity|]. split; [exact H|]. intros kps' Hp Hs.
  destruct (der_members_perm ms kps kps' Ek Hp) as (ms' & Hpm & Hk').
  exists ms'. split; [exact Hpm|]. split; [exact Hk'|]. rewrite <- Hs. exact (der_members_enc ms' _ Hk').
Qed.

(* ---------- one container ---------- *)

(* everything about a container of the fragment, given its members and how DER arranges them *)
Lemma container_item R perm ce cd T' (is_set: bool) v ms b0 r arr : skrel_ok R perm ->
  tagset_of T' = Ok (b0 :: r) -> b0 = utag true (if is_set then 17 else 16) -> Forall explicit_like r ->
  skel T' v = SNode (b0 :: r) (map skelm ms) ->
  enc_with DER (enc_content DER) T' def_opts v = der_container (b0 :: r) arr ms ->
  (forall b, enc_with ce (enc_content ce) T' def_opts v = Ok b ->
     exists ms' parts, wire_members perm (b0 :: r) is_set arr ms ms'
       /\ enc_members ce ms' = Ok parts /\ frame (b0 :: r) (concat parts) true def_opts true = Ok b) ->
  Forall (fun m => sl_item R ce cd (fst m) (snd m)) ms ->
  sl_item R ce cd T' v.
Proof.
  intros HR Hts Hb0 Hex Hsk Hder Hinv Hms b He Hmax.
  destruct (Hinv b He) as (ms' & parts & [Hord Harr] & Hm & Hfr).
  pose proof (frame_len_r _ _ _ _ _ _ Hfr) as Hlen.
  assert (Hms': Forall (fun m => sl_item R ce cd (fst m) (snd m)) ms').
  { destruct Hord as [-> | (_ & _ & Hp)]; [exact Hms|exact (perm_Forall _ _ _ Hp Hms)]. }
  destruct (members_item R ce cd ms' Hms' parts Hm ltac:(lia)) as (tvs & HF & Hcons).
  split; [lia|].
  destruct (guess_props is_set b0 r tvs Hb0 Hex (item_res_not_choice R ms' tvs HF)) as (Hts0 & Hn0 & Hsk0 & Hder0).
  exists (schemaless_ty (guess_proto is_set tvs) (b0 :: r)), (guess_val is_set tvs).
  split; [rewrite Hts0, Hts; reflexivity|]. split; [exact Hn0|]. split.
  { rewrite Hsk0, Hsk. pose proof (item_res_skel R ms' tvs HF) as HF2.
    destruct Hord as [-> | (Hperm & His & Hp)].
    - apply (sr_node R perm HR). exact HF2.
    - apply (sr_perm R perm HR Hperm (b0 :: r) (map skelm ms) (map skelm ms') (map skelm tvs)).
      + subst b0. rewrite His. reflexivity.
      + apply Permutation_map. exact Hp.
      + exact HF2. }
  split.
  { rewrite Hder0, Hder. exact (Harr tvs (item_res_der R ms' tvs HF) (item_res_tags R ms' tvs HF)). }
  intros f Hf. apply (container_consumes cd is_set b0 r parts b tvs Hb0 Hex Hfr f Hf).
  apply Hcons. lia.
Qed.

(* the members in the given order: what is left to show is that the guess arranges them alike *)
Lemma wire_same perm ts is_set arr ms :
  (forall tvs, Forall2 (fun a b => tagset_of' b = tagset_of' a) (map fst ms) (map fst tvs) ->
     forall kps, der_members ms = Ok kps -> arr_guess is_set tvs kps = arr kps) ->
  wire_members perm ts is_set arr ms ms.
Proof.
  intros H. split; [left; reflexivity|]. intros tvs Hd Ht.
  unfold der_container. rewrite (der_members_congr ms tvs Hd).
  destruct (der_members ms) as [kps|e] eqn:Ek; cbn [bind]; [|reflexivity].
  rewrite (H tvs Ht kps eq_refl). reflexivity.
Qed.

Lemma frag_not_choice aset T : sl_frag aset T = true -> not_choice T.
Proof. destruct T; try exact (fun _ => I). discriminate. Qed.

(* SEQUENCE OF / SET OF *)
Lemma listof_sl_item R perm ce cd aset T' t (is_set: bool) : skrel_ok R perm -> enc_ok ce ->
  base_of T' = (if is_set then TSetOf t else TSeqOf t) -> (is_set = true -> ce = BER \/ perm = true) ->
  sl_frag aset T' = true ->
  (forall x, sl_val ce cd t x = true -> sl_item R ce cd t x) ->
  forall xs, forallb (sl_val ce cd t) xs = true -> sl_item R ce cd T' (VList xs).
Proof.
  intros HR Hce Hb Hset Hfr IHt xs Hxs.
  destruct (frag_shape aset T' Hfr) as (b0 & r & Hb0 & Hts & _ & Hex & _).
  assert (Hb0': b0 = utag true (if is_set then 17 else 16)).
  { rewrite Hb in Hb0. destruct is_set; inversion Hb0; reflexivity. }
  set (arr := if is_set then (fun kps : list (tagset * bytes) => sort_setof (map snd kps)) else map snd).
  assert (Hder: enc_with DER (enc_content DER) T' def_opts (VList xs) = der_container (b0 :: r) arr (map (pair t) xs)).
  { subst arr. destruct is_set; [apply (der_setof T' t _ xs Hb Hts)|apply (der_seqof T' t _ xs Hb Hts)]. }
  assert (Hallt: Forall (fun m : ty * val => fst m = t) (map (pair t) xs)).
  { apply Forall_forall. intros m Hin. apply in_map_iff in Hin. destruct Hin as (x & <- & _). reflexivity. }
  assert (Hsame: forall ms' tvs, Forall (fun m : ty * val => fst m = t) ms' ->
            Forall2 (fun a b => tagset_of' b = tagset_of' a) (map fst ms') (map fst tvs) -> all_same tvs = true).
  { intros ms' tvs Hall Ht. rewrite all_same_map, (all_same_tys_ext _ _ Ht).
    apply (all_same_const t). apply Forall_forall. intros a Ha. apply in_map_iff in Ha.
    destruct Ha as (m & <- & Hm). rewrite Forall_forall in Hall. exact (Hall m Hm). }
  apply (container_item R perm ce cd T' is_set (VList xs) (map (pair t) xs) b0 r arr HR Hts Hb0' Hex).
  - assert (Hbb: base_of T' = TSeqOf t \/ base_of T' = TSetOf t) by (destruct is_set; [right|left]; exact Hb).
    rewrite (skel_listof T' t xs Hbb), (tagset_of'_ok _ _ Hts), map_map. reflexivity.
  - exact Hder.
  - intros b He.
    assert (Hcase: (is_set = true -> ce = BER) \/ (is_set = true /\ ce = DER /\ perm = true)).
    { destruct is_set; [|left; discriminate]. destruct (Hset eq_refl) as [->|Hp]; [left; reflexivity|].
      destruct Hce as [-> | ->]; [left; reflexivity|right; repeat split; exact Hp]. }
    destruct Hcase as [Hber|(His & Hder' & Hperm)].
    + destruct (enc_listof_inv ce T' t is_set xs b0 r b Hce Hb Hber Hts He) as (parts & Hm & Hfr').
      exists (map (pair t) xs), parts. split; [|split; assumption].
      apply wire_same. intros tvs Ht kps _. subst arr. unfold arr_guess. destruct is_set; [|reflexivity].
      rewrite (Hsame _ tvs Hallt Ht). reflexivity.
    + (* the DER encoder sorts the elements of a SET OF *)
      subst ce is_set. subst arr. cbv iota in Hder. rewrite Hder in He.
      destruct (der_sorted_inv _ _ _ b He) as (kps & Hk & Hfr' & Hget).
      destruct (Permutation_map_inv snd kps (Permutation_sym (sort_setof_perm_self (map snd kps)))) as (kps' & Hs' & Hp').
      destruct (Hget kps' Hp' (eq_sym Hs')) as (ms' & Hpm & Hk' & Henc).
      exists ms', (sort_setof (map snd kps)). split; [|split; assumption].
      split; [right; repeat split; assumption|].
      intros tvs Hd Ht. unfold der_container. rewrite (der_members_congr ms' tvs Hd), Hk', Hk. cbn [bind].
      unfold arr_guess. rewrite (Hsame ms' tvs (perm_Forall _ _ _ Hpm Hallt) Ht).
      rewrite <- Hs', sort_setof_idem. reflexivity.
  - apply Forall_forall. intros m Hin. apply in_map_iff in Hin. destruct Hin as (x & <- & Hx).
    cbn [fst snd]. apply IHt. rewrite forallb_forall in Hxs. exact (Hxs x Hx).
Qed.

(* SEQUENCE / SET, every component mandatory and present *)
Lemma record_sl_item R perm ce cd aset T' fs (is_set: bool) : skrel_ok R perm -> enc_ok ce ->
  base_of T' = (if is_set then TSet fs else TSeq fs) -> (is_set = true -> ce = BER \/ perm = true) ->
  sl_frag aset T' = true ->
  Forall (fun f => not_choice (snd f)) fs ->
  (is_set = true -> set_mixed (map snd fs) = true) ->
  forall vs, rec_full fs vs = true ->
  Forall (fun m => sl_item R ce cd (fst m) (snd m)) (rec_members fs vs) ->
  sl_item R ce cd T' (VRec vs).
Proof.
  intros HR Hce Hb Hset Hfr Hnc Hmix vs Hfull Hms.
  destruct (frag_shape aset T' Hfr) as (b0 & r & Hb0 & Hts & _ & Hex & _).
  assert (Hb0': b0 = utag true (if is_set then 17 else 16)).
  { rewrite Hb in Hb0. destruct is_set; inversion Hb0; reflexivity. }
  set (arr := if is_set then (fun kps : list (tagset * bytes) => map snd (sort_by tagset_ltb fst kps)) else map snd).
  set (ms := rec_members fs vs) in *.
  assert (Hder: enc_with DER (enc_content DER) T' def_opts (VRec vs) = der_container (b0 :: r) arr ms).
  { subst arr ms. destruct is_set; [apply (der_set T' fs _ vs Hb Hts Hfull Hnc)|apply (der_seq T' fs _ vs Hb Hts Hfull Hnc)]. }
  (* look-alike members in a SET of the fragment, in whatever order: there is at most one of them *)
  assert (Hshort: is_set = true -> forall ms' tvs, Permutation ms ms' ->
            Forall2 (fun a b => tagset_of' b = tagset_of' a) (map fst ms') (map fst tvs) ->
            all_same tvs = true -> (length ms <= 1)%nat).
  { intros His ms' tvs Hp Ht Esame.
    rewrite all_same_map, (all_same_tys_ext _ _ Ht) in Esame.
    rewrite <- (all_same_tys_perm _ _ (Permutation_map fst Hp)) in Esame.
    subst ms. rewrite (rec_members_fst fs vs Hfull) in Esame.
    specialize (Hmix His). rewrite set_mixed_spec in Hmix.
    assert (Hlm: length (rec_members fs vs) = length (map snd fs)) by (rewrite <- (rec_members_fst fs vs Hfull), map_length; reflexivity).
    rewrite Hlm. destruct (map snd fs) as [|t1 [|t2 rest]]; cbn [length]; try lia.
    rewrite Esame in Hmix. discriminate Hmix. }
  apply (container_item R perm ce cd T' is_set (VRec vs) ms b0 r arr HR Hts Hb0' Hex).
  - assert (Hbb: base_of T' = TSeq fs \/ base_of T' = TSet fs) by (destruct is_set; [right|left]; exact Hb).
    rewrite (skel_record T' fs vs Hbb), (tagset_of'_ok _ _ Hts), (skel_fields_members fs vs Hfull). reflexivity.
  - exact Hder.
  - intros b He.
    assert (Hcase: (is_set = true -> ce = BER) \/ (is_set = true /\ ce = DER /\ perm = true)).
    { destruct is_set; [|left; discriminate]. destruct (Hset eq_refl) as [->|Hp]; [left; reflexivity|].
      destruct Hce as [-> | ->]; [left; reflexivity|right; repeat split; exact Hp]. }
    destruct Hcase as [Hber|(His & Hder' & Hperm)].
    + destruct (enc_record_inv ce T' fs is_set vs b0 r b Hce Hb Hber Hfull Hts He) as (parts & Hm & Hfr').
      exists ms, parts. split; [|split; assumption].
      apply wire_same. intros tvs Ht kps Hk. subst arr. unfold arr_guess. destruct is_set; [|reflexivity].
      destruct (all_same tvs) eqn:Esame; [|reflexivity].
      pose proof (Hshort eq_refl ms tvs (Permutation_refl ms) Ht Esame) as Hl.
      rewrite <- (der_members_length _ _ Hk) in Hl.
      destruct kps as [|kp [|kp2 kps]]; try reflexivity. cbn [length] in Hl. lia.
    + (* the DER encoder sorts the components of a SET by their tags *)
      subst ce. subst arr. rewrite His in *. cbv iota in Hder. rewrite Hder in He.
      destruct (der_sorted_inv _ _ _ b He) as (kps & Hk & Hfr' & Hget).
      destruct (Hget (sort_by tagset_ltb fst kps) (sort_by_perm_self tagset_ltb fst kps) eq_refl) as (ms' & Hpm & Hk' & Henc).
      exists ms', (map snd (sort_by tagset_ltb fst kps)). split; [|split; assumption].
      split; [right; repeat split; assumption|].
      intros tvs Hd Ht. unfold der_container. rewrite (der_members_congr ms' tvs Hd), Hk', Hk. cbn [bind].
      unfold arr_guess. destruct (all_same tvs) eqn:Esame.
      * pose proof (Hshort eq_refl ms' tvs Hpm Ht Esame) as Hl.
        rewrite <- (der_members_length _ _ Hk) in Hl.
        destruct kps as [|kp [|kp2 kps]]; try reflexivity. cbn [length] in Hl. lia.
      * rewrite sort_tags_idem. reflexivity.
  - exact Hms.
Qed.

(* ---------- the induction over the type ---------- *)

Lemma fields_prep R ce cd aset : forall fs,
  Forall (fun f => forall T', base_of T' = base_of (snd f) -> sl_frag aset T' = true ->
                   forall v, sl_val ce cd T' v = true -> sl_item R ce cd T' v) fs ->
  forallb (fun f => is_req (fst f) && sl_frag aset (snd f)) fs = true ->
  forall vs, slv_fields ce cd fs vs = true ->
  rec_full fs vs = true /\ Forall (fun m => sl_item R ce cd (fst m) (snd m)) (rec_members fs vs)
  /\ Forall (fun f => not_choice (snd f)) fs.
Proof.
  induction 1 as [|f fs Hf _ IH]; intros Hfr vs Hv.
  - destruct vs; [|discriminate Hv]. repeat split; constructor.
  - destruct vs as [|[x|] vs]; try discriminate Hv.
    cbn [forallb] in Hfr. apply Bool.andb_true_iff in Hfr. destruct Hfr as [Hf1 Hfr].
    apply Bool.andb_true_iff in Hf1. destruct Hf1 as [Hreq Hff].
    change (slv_fields ce cd (f :: fs) (Some x :: vs)) with (sl_val ce cd (snd f) x && slv_fields ce cd fs vs)%bool in Hv.
    apply Bool.andb_true_iff in Hv. destruct Hv as [Hx Hvs].
    destruct (IH Hfr vs Hvs) as (Hfull & Hms & Hnc).
    change (rec_full (f :: fs) (Some x :: vs)) with (is_req (fst f) && rec_full fs vs)%bool.
    change (rec_members (f :: fs) (Some x :: vs)) with ((snd f, x) :: rec_members fs vs).
    rewrite Hreq, Hfull. split; [reflexivity|]. split.
    + constructor; [|exact Hms]. cbn [fst snd]. exact (Hf (snd f) eq_refl Hff x Hx).
    + constructor; [|exact Hnc]. exact (frag_not_choice aset _ Hff).
Qed.

Theorem sl_item_all R perm ce cd aset : skrel_ok R perm -> enc_ok ce -> (aset = true -> ce = BER \/ perm = true) ->
  forall T T', base_of T' = base_of T -> sl_frag aset T' = true ->
  forall v, sl_val ce cd T' v = true -> sl_item R ce cd T' v.
Proof.
  intros HR Hce Haset.
  induction T as [| | | | | | | | n|fs IH|fs IH|t IH|t IH|alts IH| |tg x IH|tg x IH] using ty_ind';
    intros T' Hb Hfr v Hv; cbn [base_of] in Hb;
    destruct (frag_shape aset T' Hfr) as (_ & _ & _ & _ & _ & _ & Hfb);
    try (assert (Hp: prim_base T' = true) by (unfold prim_base; rewrite Hb; reflexivity);
         rewrite (sl_val_prim ce cd T' v Hp) in Hv;
         exact (leaf_item R perm ce cd T' v HR Hce (frag_prim aset T' Hfr Hp) Hv));
    try (rewrite Hb in Hfb; discriminate Hfb).
  - (* SEQUENCE *)
    rewrite Hb in Hfb. cbn [sl_frag] in Hfb.
    rewrite sl_val_base, Hb in Hv. destruct v; try discriminate Hv. rewrite sl_val_seq in Hv.
    destruct (fields_prep R ce cd aset fs IH Hfb fs0 Hv) as (Hfull & Hms & Hnc).
    apply (record_sl_item R perm ce cd aset T' fs false HR Hce Hb ltac:(discriminate) Hfr Hnc ltac:(discriminate) fs0 Hfull Hms).
  - (* SET *)
    rewrite Hb in Hfb. cbn [sl_frag] in Hfb.
    apply Bool.andb_true_iff in Hfb. destruct Hfb as [Hfb Hmix].
    apply Bool.andb_true_iff in Hfb. destruct Hfb as [Has Hfb].
    rewrite sl_val_base, Hb in Hv. destruct v; try discriminate Hv. rewrite sl_val_set in Hv.
    destruct (fields_prep R ce cd aset fs IH Hfb fs0 Hv) as (Hfull & Hms & Hnc).
    apply (record_sl_item R perm ce cd aset T' fs true HR Hce Hb (fun _ => Haset Has) Hfr Hnc (fun _ => Hmix) fs0 Hfull Hms).
  - (* SEQUENCE OF *)
    rewrite Hb in Hfb. cbn [sl_frag] in Hfb.
    rewrite sl_val_base, Hb in Hv. destruct v; try discriminate Hv. cbn [sl_val] in Hv.
    apply (listof_sl_item R perm ce cd aset T' t false HR Hce Hb ltac:(discriminate) Hfr); [|exact Hv].
    intros x Hx. exact (IH t eq_refl Hfb x Hx).
  - (* SET OF *)
    rewrite Hb in Hfb. cbn [sl_frag] in Hfb.
    apply Bool.andb_true_iff in Hfb. destruct Hfb as [Has Hfb].
    rewrite sl_val_base, Hb in Hv. destruct v; try discriminate Hv. cbn [sl_val] in Hv.
    apply (listof_sl_item R perm ce cd aset T' t true HR Hce Hb (fun _ => Haset Has) Hfr); [|exact Hv].
    intros x Hx. exact (IH t eq_refl Hfb x Hx).
  - exact (IH T' Hb Hfr v Hv).
  - exact (IH T' Hb Hfr v Hv).
Qed.

(* ---------- the theorems ---------- *)

(* the general form: R relates the skeleton of the encoded value to that of the decoded object *)
Theorem schemaless_roundtrip_generic : forall R perm ce cd aset T v b tl,
  skrel_ok R perm -> enc_ok ce -> (aset = true -> ce = BER \/ perm = true) ->
  sl_frag aset T = true -> sl_val ce cd T v = true ->
  encode ce true 0 T v = Ok b -> N.of_nat (length b) <= index_max ->
  exists T0 v0, decode cd None (b ++ tl) = Ok (DV T0 v0, tl)
    /\ tagset_of T0 = tagset_of T
    /\ R (skel T v) (skel T0 v0)
    /\ encode DER true 0 T0 v0 = encode DER true 0 T v.
Proof.
  intros R perm ce cd aset T v b tl HR Hce Haset Hfr Hv He Hmax.
  destruct (sl_item_all R perm ce cd aset HR Hce Haset T T eq_refl Hfr v Hv b He Hmax) as (_ & T0 & v0 & Hts & _ & Hsk & Hder & Hc).
  exists T0, v0. split; [|split; [exact Hts|split; [exact Hsk|exact Hder]]].
  unfold decode.
  assert (Hf: (2 * length b <= dec_fuel None (b ++ tl))%nat) by (unfold dec_fuel; rewrite app_length; lia).
  pose proof (consumes_decode_with cd _ None b tl (DV T0 v0) (Hc _ Hf)) as Hdw.
  unfold decode_with in Hdw. exact Hdw.
Qed.

(* C16, containers.  Types built to any depth from the self-describing simple types, SEQUENCE OF,
   SEQUENCE with mandatory components and - for the BER encoder, which keeps the order - SET OF and
   SET, each untagged or under EXPLICIT non-universal tags; written by the BER or the DER encoder
   (definite lengths, unsegmented) and read by the BER, the CER or the DER decoder WITHOUT a guiding
   type.  The decoder returns an object of a guessed type T0 such that
     - its tag set is the tag set of the encoded type,
     - its skeleton - the tag set of every container and of every leaf, in order, and the abstract
       content of every leaf - is that of the encoded value (so in particular the leaves agree),
     - re-encoding it with DER gives exactly what DER gives for the original value. *)
Theorem schemaless_roundtrip_containers : forall ce cd aset T v b tl,
  enc_ok ce -> (aset = true -> ce = BER) ->
  sl_frag aset T = true -> sl_val ce cd T v = true ->
  encode ce true 0 T v = Ok b -> N.of_nat (length b) <= index_max ->
  exists T0 v0, decode cd None (b ++ tl) = Ok (DV T0 v0, tl)
    /\ tagset_of T0 = tagset_of T
    /\ skel T0 v0 = skel T v
    /\ leaves T0 v0 = leaves T v
    /\ encode DER true 0 T0 v0 = encode DER true 0 T v.
Proof.
  intros ce cd aset T v b tl Hce Haset Hfr Hv He Hmax.
  destruct (schemaless_roundtrip_generic eq false ce cd aset T v b tl skrel_eq Hce
              (fun H => or_introl (Haset H)) Hfr Hv He Hmax) as (T0 & v0 & Hd & Hts & Hsk & Hder).
  exists T0, v0. split; [exact Hd|]. split; [exact Hts|]. split; [symmetry; exact Hsk|].
  split; [unfold leaves; rewrite Hsk; reflexivity|exact Hder].
Qed.

(* the BER encoder read back by the BER decoder, SET OF and SET included *)
Corollary schemaless_roundtrip_containers_ber : forall T v b tl,
  sl_frag true T = true -> sl_val BER BER T v = true ->
  encode BER true 0 T v = Ok b -> N.of_nat (length b) <= index_max ->
  exists T0 v0, decode BER None (b ++ tl) = Ok (DV T0 v0, tl)
    /\ tagset_of T0 = tagset_of T
    /\ leaves T0 v0 = leaves T v
    /\ encode DER true 0 T0 v0 = encode DER true 0 T v.
Proof.
  intros T v b tl Hfr Hv He Hmax.
  destruct (schemaless_roundtrip_containers BER BER true T v b tl (or_introl eq_refl) (fun _ => eq_refl) Hfr Hv He Hmax)
    as (T0 & v0 & Hd & Hts & _ & Hl & Hder).
  exists T0, v0. repeat split; assumption.
Qed.

(* the statement in the header of Props/C16.v, for types without SET OF / SET: a DER encoding,
   decoded without a schema by any of the three decoders and re-encoded with DER, is reproduced *)
Corollary schemaless_der_reencode : forall cd T v e tl,
  sl_frag false T = true -> sl_val DER cd T v = true ->
  encode DER true 0 T v = Ok e -> N.of_nat (length e) <= index_max ->
  exists T0 v0, decode cd None (e ++ tl) = Ok (DV T0 v0, tl)
    /\ encode DER true 0 T0 v0 = Ok e
    /\ leaves T0 v0 = leaves T v.
Proof.
  intros cd T v e tl Hfr Hv He Hmax.
  destruct (schemaless_roundtrip_containers DER cd false T v e tl (or_intror eq_refl) ltac:(discriminate) Hfr Hv He Hmax)
    as (T0 & v0 & Hd & _ & _ & Hl & Hder).
  exists T0, v0. split; [exact Hd|]. split; [rewrite Hder; exact He|exact Hl].
Qed.

(* the same with SET OF / SET: the DER encoder sorts their members, so the decoded object lists them
   in the sorted order - its skeleton is that of the encoded value up to the order of the children
   of SET OF / SET nodes, its leaves are a permutation - and re-encoding still reproduces the octets *)
Corollary schemaless_der_reencode_sets : forall cd T v e tl,
  sl_frag true T = true -> sl_val DER cd T v = true ->
  encode DER true 0 T v = Ok e -> N.of_nat (length e) <= index_max ->
  exists T0 v0, decode cd None (e ++ tl) = Ok (DV T0 v0, tl)
    /\ encode DER true 0 T0 v0 = Ok e
    /\ tagset_of T0 = tagset_of T
    /\ sk_sim (skel T v) (skel T0 v0)
    /\ Permutation (leaves T v) (leaves T0 v0).
Proof.
  intros cd T v e tl Hfr Hv He Hmax.
  destruct (schemaless_roundtrip_generic sk_sim true DER cd true T v e tl skrel_sim (or_intror eq_refl)
              (fun _ => or_intror eq_refl) Hfr Hv He Hmax) as (T0 & v0 & Hd & Hts & Hsk & Hder).
  exists T0, v0. split; [exact Hd|]. split; [rewrite Hder; exact He|]. split; [exact Hts|].
  split; [exact Hsk|]. unfold leaves. apply sk_sim_leaves. exact Hsk.
Qed.

(* distinct tags - what ASN.1 asks of the components of a SET - are enough for [set_mixed] *)
Lemma distinct_tags_mixed t1 t2 rest :
  tagset_eqb (tagset_of' t2) (tagset_of' t1) = false -> set_mixed (t1 :: t2 :: rest) = true.
Proof. intros H. cbn [set_mixed forallb]. rewrite H, Bool.andb_false_r. reflexivity. Qed.

(* ---------- non-vacuity ---------- *)

(* [APPLICATION 7] EXPLICIT SEQUENCE {
     [0] EXPLICIT SEQUENCE OF INTEGER,
     SET OF [1] EXPLICIT ENUMERATED,
     SET { OCTET STRING, [2] EXPLICIT SEQUENCE OF SEQUENCE OF NULL, BOOLEAN },
     SEQUENCE {}, REAL, SET { UTF8String } } *)
Definition sl2_example_ty : ty :=
  TExp (mkTag Appl false 7)
   (TSeq [ (Req, TExp (mkTag Ctx false 0) (TSeqOf TInt));
           (Req, TSetOf (TExp (mkTag Ctx false 1) TEnum));
           (Req, TSet [(Req, TOcts); (Req, TExp (mkTag Ctx false 2) (TSeqOf (TSeqOf TNull))); (Req, TBool)]);
           (Req, TSeq []);
           (Req, TReal);
           (Req, TSet [(Req, TStr 12)]) ]).
Definition sl2_example_val : val :=
  VRec [ Some (VList [VInt 5; VInt (-129)]);
         Some (VList [VInt 7; VInt 3; VInt 300]);
         Some (VRec [Some (VOcts [1; 2; 3]); Some (VList [VList [VNull; VNull]; VList []]); Some (VBool true)]);
         Some (VRec []);
         Some (VReal (RBin 10 0));
         Some (VRec [Some (VOcts [104; 105])]) ].

Example schemaless_roundtrip_containers_nonvacuous :
  sl_frag true sl2_example_ty = true /\ sl_val BER BER sl2_example_ty sl2_example_val = true
  /\ (exists b, encode BER true 0 sl2_example_ty sl2_example_val = Ok b /\ N.of_nat (length b) <= index_max
        /\ length b = 68%nat
        /\ exists T0 v0, decode BER None (b ++ [9; 9]) = Ok (DV T0 v0, [9; 9])
             /\ leaves T0 v0 = leaves sl2_example_ty sl2_example_val
             /\ length (leaves T0 v0) = 11%nat
             /\ encode DER true 0 T0 v0 = encode DER true 0 sl2_example_ty sl2_example_val
             /\ encode DER true 0 T0 v0 <> Ok b).
Proof.
  split; [vm_compute; reflexivity|]. split; [vm_compute; reflexivity|].
  eexists. split; [vm_compute; reflexivity|]. split; [vm_compute; discriminate|]. split; [reflexivity|].
  eexists; eexists. split; [vm_compute; reflexivity|]. split; [vm_compute; reflexivity|].
  split; [vm_compute; reflexivity|]. split; [vm_compute; reflexivity|]. vm_compute. discriminate.
Qed.

(* a DER encoding (no SET OF / SET), read by the CER decoder *)
Example schemaless_der_reencode_nonvacuous :
  let T := TExp (mkTag Priv true 1000) (TSeqOf (TSeq [(Req, TBool); (Req, TExp (mkTag Ctx true 0) (TStr 22)); (Req, TSeqOf TOid)])) in
  let v := VList [VRec [Some (VBool true); Some (VOcts [97]); Some (VList [VOid [1; 2; 840]])];
                  VRec [Some (VBool false); Some (VOcts []); Some (VList [])]] in
  sl_frag false T = true /\ sl_val DER CER T v = true
  /\ exists e, encode DER true 0 T v = Ok e /\ N.of_nat (length e) <= index_max
       /\ exists T0 v0, decode CER None e = Ok (DV T0 v0, []) /\ encode DER true 0 T0 v0 = Ok e.
Proof.
  cbv zeta. split; [vm_compute; reflexivity|]. split; [vm_compute; reflexivity|].
  eexists. split; [vm_compute; reflexivity|]. split; [vm_compute; discriminate|].
  eexists; eexists. split; [vm_compute; reflexivity | vm_compute; reflexivity].
Qed.

(* what the decoder guesses: SEQUENCE OF comes back as a SEQUENCE of as many components; SET OF as
   SET OF CHOICE; an empty SEQUENCE as an empty SEQUENCE OF; ENUMERATED as a re-tagged INTEGER *)
Example schemaless_guesses :
  decode BER None [48; 6; 2; 1; 5; 2; 1; 6]
    = Ok (DV (TSeq [(Req, TInt); (Req, TInt)]) (VRec [Some (VInt 5); Some (VInt 6)]), [])
  /\ decode BER None [49; 6; 2; 1; 6; 2; 1; 5]
    = Ok (DV (TSetOf (TChoice [TInt; TInt])) (VList [VChoice 0 (VInt 6); VChoice 1 (VInt 5)]), [])
  /\ decode BER None [49; 6; 4; 1; 97; 2; 1; 5]
    = Ok (DV (TSet [(Req, TOcts); (Req, TInt)]) (VRec [Some (VOcts [97]); Some (VInt 5)]), [])
  /\ decode BER None [164; 2; 48; 0] = Ok (DV (TExp (mkTag Ctx true 4) (TSeqOf TNull)) (VList []), []).
Proof. repeat split; vm_compute; reflexivity. Qed.

(* why [set_mixed] is there: a SET whose components all carry the same tag (not legal ASN.1, but
   pyasn1 builds and encodes it) is read back as a SET OF, whose DER encoding sorts the elements by
   their octets, while DER keeps the declaration order of same-tagged SET components *)
Example schemaless_same_tag_set_differs :
  let T := TSet [(Req, TInt); (Req, TInt)] in
  let v := VRec [Some (VInt 6); Some (VInt 5)] in
  encode BER true 0 T v = Ok [49; 6; 2; 1; 6; 2; 1; 5]
  /\ decode BER None [49; 6; 2; 1; 6; 2; 1; 5]
     = Ok (DV (TSetOf (TChoice [TInt; TInt])) (VList [VChoice 0 (VInt 6); VChoice 1 (VInt 5)]), [])
  /\ encode DER true 0 T v = Ok [49; 6; 2; 1; 6; 2; 1; 5]
  /\ encode DER true 0 (TSetOf (TChoice [TInt; TInt])) (VList [VChoice 0 (VInt 6); VChoice 1 (VInt 5)])
     = Ok [49; 6; 2; 1; 5; 2; 1; 6].
Proof. cbv zeta. repeat split; vm_compute; reflexivity. Qed.

(* a DER encoding with SET OF and SET: the decoded object has the members in DER's order; its
   re-encoding is the input; the leaves are NOT in the order of the original value *)
Example schemaless_der_reencode_sets_nonvacuous :
  sl_frag true sl2_example_ty = true /\ sl_val DER DER sl2_example_ty sl2_example_val = true
  /\ exists e, encode DER true 0 sl2_example_ty sl2_example_val = Ok e /\ N.of_nat (length e) <= index_max
       /\ exists T0 v0, decode DER None e = Ok (DV T0 v0, []) /\ encode DER true 0 T0 v0 = Ok e
            /\ leaves T0 v0 <> leaves sl2_example_ty sl2_example_val.
Proof.
  split; [vm_compute; reflexivity|]. split; [vm_compute; reflexivity|].
  eexists. split; [vm_compute; reflexivity|]. split; [vm_compute; discriminate|].
  eexists; eexists. split; [vm_compute; reflexivity|]. split; [vm_compute; reflexivity|]. vm_compute. discriminate.
Qed.

Print Assumptions schemaless_roundtrip_containers.
Print Assumptions schemaless_roundtrip_containers_ber.
Print Assumptions schemaless_der_reencode.
Print Assumptions schemaless_roundtrip_generic.
Print Assumptions schemaless_der_reencode_sets.
Print Assumptions schemaless_der_reencode_sets_nonvacuous.
Print Assumptions sk_sim_leaves.
Print Assumptions schemaless_roundtrip_containers_nonvacuous.
Print Assumptions schemaless_der_reencode_nonvacuous.
Print Assumptions schemaless_guesses.
Print Assumptions schemaless_same_tag_set_differs.
Print Assumptions guess_props.

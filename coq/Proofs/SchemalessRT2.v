(* C16, containers: decoding WITHOUT a guiding type what the encoder wrote for SEQUENCE OF / SET OF /
   SEQUENCE / SET (all components mandatory) built to any depth from the self-describing simple
   types of stage 1, untagged or under EXPLICIT non-universal tags.  The decoder guesses a type
   (Model/Dec.v schemaless_loop); the guessed object has the same tags at every level and the same
   leaves in the same order, and re-encoding it with DER gives the DER encoding of the original. *)
From Coq Require Import Lia.
From PV Require Import Base.Bytes Model.Tag Model.TableTypes Model.Types Model.Proc Model.Enc Model.Dec Gen.Tables
     Proofs.LeafInt Proofs.LeafOidBits Proofs.LeafReal
     Proofs.ProcBind Proofs.RunLemmas Proofs.TagOctets Proofs.DecHeader Proofs.DecFrame Proofs.DecPrim
     Proofs.TagsetShape Proofs.Schemaless Proofs.RoundTrip1 Proofs.RoundTrip2 Proofs.RoundTrip3 Proofs.SchemalessRT.
Local Open Scope N_scope.

(* ---------- what the schemaless component loop returns ---------- *)

Fixpoint number_choices (i: nat) (l: list (ty * val)) : list val :=
  match l with [] => [] | tv :: r => VChoice i (snd tv) :: number_choices (S i) r end.

(* the guessed container type (before the wire tags are put around it) and value, from the
   decoded members *)
Definition guess_proto (is_set: bool) (acc: list (ty * val)) : ty :=
  match acc with
  | [] => if is_set then TSetOf TNull else TSeqOf TNull
  | (T0, _) :: _ =>
      let same := forallb (fun tv => tagset_eqb (tagset_of' (fst tv)) (tagset_of' T0)) acc in
      let rec_ty := map (fun tv => (Req, fst tv)) acc in
      if is_set then (if same then TSetOf (TChoice (map fst acc)) else TSet rec_ty) else TSeq rec_ty
  end.
Definition guess_val (is_set: bool) (acc: list (ty * val)) : val :=
  match acc with
  | [] => VList []
  | (T0, _) :: _ =>
      let same := forallb (fun tv => tagset_eqb (tagset_of' (fst tv)) (tagset_of' T0)) acc in
      if is_set && same then VList (number_choices O acc) else VRec (map (fun tv => Some (snd tv)) acc)
  end.
Definition guess_dv (is_set: bool) (ts: tagset) (acc: list (ty * val)) : dval :=
  DV (schemaless_ty (guess_proto is_set acc) ts) (guess_val is_set acc).

Section SLoop.
  Variable rec : spec -> tagset -> option (option N) -> bool -> bool -> proc dval.

  Definition sl_elem_ok (p: bytes) (tv: ty * val) : Prop :=
    consumes (rec SNone [] None false false) p (DV (fst tv) (snd tv)) /\ (0 < length p)%nat.

  Lemma schemaless_loop_run is_set ts : forall parts tvs,
    Forall2 sl_elem_ok parts tvs ->
    forall n acc start total s tl,
      (length parts < n)%nat ->
      avail s = concat parts ++ tl ->
      (start <= pos s)%nat ->
      (pos s - start + length (concat parts) = total)%nat ->
      exists s', resume (schemaless_loop rec is_set ts (Some (N.of_nat total)) start n acc) s
                 = inr (Ok (guess_dv is_set ts (acc ++ tvs)), s')
        /\ pos s' = (pos s + length (concat parts))%nat /\ arrived s' = arrived s /\ closed s' = closed s.
  Proof.
    intros parts tvs HF. induction HF as [|p tv parts tvs [Hp Hpl] HF IH]; intros n acc start total s tl Hn Hav Hst Htot.
    - destruct n as [|n']; [cbn [length] in Hn; lia|].
      cbn [schemaless_loop]. cbv zeta. rewrite resume_tell.
      cbn [concat length] in Htot.
      destruct (N.ltb_spec (N.of_nat (pos s)) (N.of_nat start + N.of_nat total)) as [Hlt|_]; [lia|].
      cbn [negb]. rewrite app_nil_r.
      exists s. cbn [concat length]. split; [|repeat split; lia].
      unfold guess_dv, guess_proto, guess_val. destruct acc as [|[T0 v0] acc']; [destruct is_set; reflexivity|].
      cbv zeta. reflexivity.
    - destruct n as [|n']; [cbn [length] in Hn; lia|].
      cbn [schemaless_loop]. cbv zeta. rewrite resume_tell.
      cbn [concat] in Htot, Hav. rewrite app_length in Htot.
      destruct (N.ltb_spec (N.of_nat (pos s)) (N.of_nat start + N.of_nat total)) as [_|Hge]; [|lia].
      cbn [negb]. rewrite <- app_assoc in Hav.
      destruct (Hp s _ Hav) as (s1 & Hrun & Hpos & Harr & Hcl).
      rewrite (resume_pbind_done _ _ _ _ _ Hrun).
      pose proof (consumes_avail p s _ s1 Hav Hpos Harr) as Hav1.
      cbn [length] in Hn. destruct tv as [Tc vc]. cbn [fst snd].
      destruct (IH n' (acc ++ [(Tc, vc)]) start total s1 tl ltac:(lia) Hav1 ltac:(lia) ltac:(lia)) as (s2 & Hrun2 & Hpos2 & Harr2 & Hcl2).
      exists s2. rewrite Hrun2. rewrite <- app_assoc. cbn [app concat]. rewrite app_length.
      split; [reflexivity|]. split; [lia|]. split; congruence.
  Qed.

  Lemma dec_schemaless_consumes lf is_set ts parts tvs :
    Forall2 sl_elem_ok parts tvs -> (length parts < lf)%nat ->
    consumes (dec_schemaless rec lf is_set ts (Some (N.of_nat (length (concat parts))))) (concat parts)
             (guess_dv is_set ts tvs).
  Proof.
    intros HF Hlf s tl Hav. unfold dec_schemaless. rewrite resume_tell.
    destruct (schemaless_loop_run is_set ts parts tvs HF lf [] (pos s) (length (concat parts)) s tl Hlf Hav ltac:(lia) ltac:(lia))
      as (s' & Hrun & Hpos & Harr & Hcl).
    exists s'. rewrite Hrun. cbn [app]. repeat split; assumption.
  Qed.

  Lemma sl_elem_count parts tvs : Forall2 sl_elem_ok parts tvs -> (length parts <= length (concat parts))%nat.
  Proof.
    induction 1 as [|p x' parts xs' [_ Hpl] _ IH]; [cbn; lia|]. cbn [length concat]. rewrite app_length. lia.
  Qed.
End SLoop.

(* ---------- all the levels of the framing, no guiding type ---------- *)

Theorem framed_consumes_none : forall c t0 r cns si content b f0 dcd dfl v,
  tcon t0 = cns -> Forall explicit_like r ->
  by_tag c [t0] = Some (dcd, dfl) ->
  frame (t0 :: r) content cns def_opts si = Ok b ->
  (length b <= S f0)%nat ->
  consumes (dec_value (dec_call c f0) f0 dcd dfl None (t0 :: r) (Some (N.of_nat (length content))) false) content v ->
  consumes (dec_call c (S f0 + length r) SNone [] None false false) b v.
Proof.
  intros c t0 r cns si content b f0 dcd dfl v Hc0 Hex Hby He Hb Hval.
  cbn [frame] in He. rewrite Bool.andb_false_r in He. cbn [o_def def_opts] in He.
  assert (Hd: (if cns then true else true) = true) by (destruct cns; reflexivity). rewrite Hd in He. clear Hd.
  destruct (frame_one t0 cns true si content) as [s0|e] eqn:E0; cbn [bind] in He; [|discriminate].
  rewrite (frame_outer_con r cns true si s0 Hex) in He.
  pose proof (frame_outer_length _ _ _ _ _ He) as Hlen0.
  pose proof (RoundTrip2.frame_outer_taglens _ _ _ _ _ (S (S f0)) He ltac:(lia)) as Htl.
  apply (peel_all_none c (S f0) si r [] s0 b v He Hex Htl).
  rewrite app_nil_r.
  assert (Hw: wire t0 cns = t0).
  { destruct cns; [apply wire_con; exact Hc0|apply wire_false]. }
  apply (match_level_none c f0 r t0 cns si content s0 v dcd dfl E0).
  - rewrite Hw. exact Hby.
  - destruct (frame_one_length _ _ _ _ _ E0) as (l & -> & _). rewrite !app_length in Hlen0. lia.
  - rewrite Hw. exact Hval.
Qed.

(* ---------- REAL: the contents octets of a binary value depend on its abstract content only ---------- *)

Definition enc_real_core (neg: bool) (m': N) (e': Z) : res bytes :=
  let eo := exp_octets e' in
  let n := length eo in
  if Nat.ltb 255 n then Err EMalformed else
  let fo := 128 + (if neg then 64 else 0) in
  let '(fo', eo') := match n with
                     | 1%nat => (fo, eo) | 2%nat => (fo + 1, eo) | 3%nat => (fo + 2, eo)
                     | _ => (fo + 3, N.of_nat n :: eo) end in
  Ok ([fo'] ++ eo' ++ b256 m').

Lemma enc_real_bin_core m e m' e' : m <> 0%Z ->
  strip2 (N.size_nat (Z.abs_N m)) (Z.abs_N m) e = (m', e') ->
  enc_real (RBin m e) = enc_real_core (Z.ltb m 0) m' e'.
Proof.
  intros Hm Es. unfold enc_real. destruct (Z.eqb_spec m 0) as [|_]; [contradiction|].
  rewrite Es. reflexivity.
Qed.

Lemma enc_real_abs r m e : m <> 0%Z -> abs_real r = abs_real (RBin m e) -> enc_real r = enc_real (RBin m e).
Proof.
  intros Hm Ha.
  destruct (strip2 (N.size_nat (Z.abs_N m)) (Z.abs_N m) e) as [m' e'] eqn:Es.
  destruct (abs_real_bin_norm m e m' e' Hm Es) as [Ha1 _]. cbv zeta in Ha1. rewrite Ha1 in Ha.
  assert (Hodd: m' mod 2 = 1).
  { pose proof (strip2_odd (N.size_nat (Z.abs_N m)) (Z.abs_N m) e) as H.
    rewrite Es in H. apply H; lia. }
  assert (Hm': m' <> 0) by (intros ->; discriminate Hodd).
  rewrite (enc_real_bin_core m e m' e' Hm Es).
  destruct r as [| |m2 e2|m2 e2|].
  - discriminate Ha.
  - discriminate Ha.
  - unfold abs_real in Ha. destruct (Z.eqb_spec m2 0) as [|Hm2]; [discriminate Ha|]. fold (abs_real (RBin m2 e2)) in Ha.
    destruct (strip2 (N.size_nat (Z.abs_N m2)) (Z.abs_N m2) e2) as [m2' e2'] eqn:Es2.
    destruct (abs_real_bin_norm m2 e2 m2' e2' Hm2 Es2) as [Hb1 _]. cbv zeta in Hb1.
    assert (Hodd2: m2' mod 2 = 1).
    { pose proof (strip2_odd (N.size_nat (Z.abs_N m2)) (Z.abs_N m2) e2) as H.
      rewrite Es2 in H. apply H; lia. }
    assert (Hm2': m2' <> 0) by (intros ->; discriminate Hodd2).
    assert (Hab: abs_real (RBin m2 e2) =
                 ABin (if Z.ltb m 0 then - Z.of_N m' else Z.of_N m')%Z e').
    { unfold abs_real. destruct (Z.eqb_spec m2 0) as [|_]; [contradiction|]. exact Ha. }
    rewrite Hb1 in Hab. injection Hab as Hs He.
    rewrite (enc_real_bin_core m2 e2 m2' e2' Hm2 Es2).
    assert (Hneg: Z.ltb m2 0 = Z.ltb m 0 /\ m2' = m').
    { destruct (Z.ltb m2 0), (Z.ltb m 0); split; try reflexivity; lia. }
    destruct Hneg as [Hn1 Hn2]. rewrite Hn1, Hn2, He. reflexivity.
  - unfold abs_real in Ha. destruct (Z.eqb m2 0); [discriminate Ha|].
    destruct (strip_factor _ 10 m2 e2). discriminate Ha.
  - discriminate Ha.
Qed.

(* ---------- the domain ---------- *)

(* a SET with two or more components all of which have the same tag set is read back as a SET OF
   (and then re-ordered by DER): excluded.  Distinct tags, as ASN.1 demands, are more than enough. *)
Definition set_mixed (ts: list ty) : bool :=
  match ts with
  | t1 :: _ :: _ => negb (forallb (fun t => tagset_eqb (tagset_of' t) (tagset_of' t1)) ts)
  | _ => true
  end.

(* [aset]: are SET OF / SET allowed *)
Fixpoint sl_frag (aset: bool) (T: ty) : bool :=
  match T with
  | TBool | TInt | TEnum | TBits | TOcts | TNull | TOid | TReal | TStr _ => true
  | TExp t x => negb (cls_eqb (tcls t) Univ) && sl_frag aset x
  | TSeqOf t => sl_frag aset t
  | TSetOf t => aset && sl_frag aset t
  | TSeq fs => forallb (fun f => is_req (fst f) && sl_frag aset (snd f)) fs
  | TSet fs => aset && forallb (fun f => is_req (fst f) && sl_frag aset (snd f)) fs && set_mixed (map snd fs)
  | TImp _ _ | TChoice _ | TAny => false
  end.

Fixpoint sl_val (ce cd: codec) (T: ty) (v: val) {struct T} : bool :=
  match T with
  | TImp _ x | TExp _ x => sl_val ce cd x v
  | TSeqOf t | TSetOf t => match v with VList xs => forallb (sl_val ce cd t) xs | _ => false end
  | TSeq fs | TSet fs =>
      match v with
      | VRec vs =>
          (fix go (fs: list (presence * ty)) (vs: list (option val)) : bool :=
             match fs, vs with
             | [], [] => true
             | f :: fs', Some x :: vs' => sl_val ce cd (snd f) x && go fs' vs'
             | _, _ => false
             end) fs vs
      | _ => false
      end
  | TChoice _ | TAny => false
  | _ => stage1_val ce cd T v
  end.

Definition slv_fields (ce cd: codec) : list (presence * ty) -> list (option val) -> bool :=
  fix go (fs: list (presence * ty)) (vs: list (option val)) : bool :=
    match fs, vs with
    | [], [] => true
    | f :: fs', Some x :: vs' => sl_val ce cd (snd f) x && go fs' vs'
    | _, _ => false
    end.

Lemma sl_val_seq ce cd fs vs : sl_val ce cd (TSeq fs) (VRec vs) = slv_fields ce cd fs vs.
Proof. reflexivity. Qed.
Lemma sl_val_set ce cd fs vs : sl_val ce cd (TSet fs) (VRec vs) = slv_fields ce cd fs vs.
Proof. reflexivity. Qed.

Lemma sl_val_base ce cd : forall T v, sl_val ce cd T v = sl_val ce cd (base_of T) v.
Proof.
  induction T as [| | | | | | | | n|fs IH|fs IH|t IH|t IH|alts IH| |tg x IH|tg x IH] using ty_ind'; intros v; try reflexivity.
  - cbn [base_of sl_val]. apply IH.
  - cbn [base_of sl_val]. apply IH.
Qed.

Lemma sl_val_prim ce cd T v : prim_base T = true -> sl_val ce cd T v = stage1_val ce cd T v.
Proof.
  intros Hp. rewrite sl_val_base, (stage1_val_base ce cd T). unfold prim_base in Hp.
  destruct (base_of T); try discriminate Hp; reflexivity.
Qed.

(* tag set of a type of the fragment: the base type's own universal tag, then the explicit tags *)
Lemma frag_shape aset : forall T, sl_frag aset T = true ->
  exists b0 r, tagset_of (base_of T) = Ok [b0] /\ tagset_of T = Ok (b0 :: r) /\ tcls b0 = Univ
               /\ Forall explicit_like r /\ sl_frag aset (base_of T) = true.
Proof.
  induction T as [| | | | | | | | n|fs IH|fs IH|t IH|t IH|alts IH| |tg x IH|tg x IH] using ty_ind';
    intros H; try discriminate H;
    try (eexists; exists []; split; [reflexivity|split; [reflexivity|split; [reflexivity|split; [constructor|exact H]]]]).
  cbn [sl_frag] in H. apply Bool.andb_true_iff in H. destruct H as [Hcl H2].
  destruct (IH H2) as (b0 & r & Hb & Hts & Hu & Hex & Hfb).
  assert (Hnu: tcls tg <> Univ) by (destruct (tcls tg); try discriminate; cbn in Hcl; congruence).
  exists b0, (r ++ [mkTag (tcls tg) true (tnum tg)]).
  split; [exact Hb|]. split.
  - cbn [tagset_of]. rewrite Hts. cbn [bind]. unfold tag_explicitly. destruct (tcls tg); try reflexivity; congruence.
  - split; [exact Hu|]. split; [|exact Hfb]. apply Forall_app. split; [exact Hex|].
    constructor; [|constructor]. split; [reflexivity|exact Hnu].
Qed.

Lemma frag_prim aset : forall T, sl_frag aset T = true -> prim_base T = true -> univ_explicit T = true.
Proof.
  unfold prim_base.
  induction T as [| | | | | | | | n|fs IH|fs IH|t IH|t IH|alts IH| |tg x IH|tg x IH] using ty_ind';
    intros H Hp; try reflexivity; try discriminate H; try discriminate Hp.
  cbn [sl_frag] in H. apply Bool.andb_true_iff in H. destruct H as [Hcl H2].
  cbn [univ_explicit]. rewrite Hcl. cbn [andb]. exact (IH H2 Hp).
Qed.

(* ---------- skeleton: the tags at every level, the abstract contents of the leaves ---------- *)

Inductive sk := SLeaf (ts: tagset) (a: aval) | SNode (ts: tagset) (cs: list sk).

(* W: the type with its tagging wrappers; T: what is left of it to look at *)
Fixpoint skel_aux (W T: ty) (v: val) {struct T} : sk :=
  match T with
  | TImp _ x | TExp _ x => skel_aux W x v
  | TSeqOf t | TSetOf t =>
      match v with VList xs => SNode (tagset_of' W) (map (skel_aux t t) xs) | _ => SLeaf (tagset_of' W) ABad end
  | TSeq fs | TSet fs =>
      match v with
      | VRec vs => SNode (tagset_of' W)
          ((fix go (fs: list (presence * ty)) (vs: list (option val)) : list sk :=
              match fs, vs with
              | f :: fs', Some x :: vs' => skel_aux (snd f) (snd f) x :: go fs' vs'
              | _ :: fs', None :: vs' => go fs' vs'
              | _, _ => []
              end) fs vs)
      | _ => SLeaf (tagset_of' W) ABad
      end
  | TChoice alts =>      (* an untagged CHOICE is transparent *)
      match v with
      | VChoice i x => (fix go (alts: list ty) (k: nat) : sk :=
           match alts, k with
           | a :: _, O => skel_aux a a x
           | _ :: r, S k' => go r k'
           | [], _ => SLeaf [] ABad
           end) alts i
      | _ => SLeaf [] ABad
      end
  | _ => SLeaf (tagset_of' W) (abs T v)
  end.

Definition skel (T: ty) (v: val) : sk := skel_aux T T v.

Fixpoint leaves_of (s: sk) : list (tagset * aval) :=
  match s with SLeaf ts a => [(ts, a)] | SNode _ cs => flat_map leaves_of cs end.

(* the leaves in order: tag set and abstract content of each *)
Definition leaves (T: ty) (v: val) : list (tagset * aval) := leaves_of (skel T v).

Definition skel_fields : list (presence * ty) -> list (option val) -> list sk :=
  fix go (fs: list (presence * ty)) (vs: list (option val)) : list sk :=
    match fs, vs with
    | f :: fs', Some x :: vs' => skel (snd f) x :: go fs' vs'
    | _ :: fs', None :: vs' => go fs' vs'
    | _, _ => []
    end.

Definition skel_alt (x: val) : list ty -> nat -> sk :=
  fix go (alts: list ty) (k: nat) : sk :=
    match alts, k with
    | a :: _, O => skel a x
    | _ :: r, S k' => go r k'
    | [], _ => SLeaf [] ABad
    end.

Lemma skel_aux_base W : forall T v, skel_aux W T v = skel_aux W (base_of T) v.
Proof.
  induction T as [| | | | | | | | n|fs IH|fs IH|t IH|t IH|alts IH| |tg x IH|tg x IH] using ty_ind'; intros v; try reflexivity.
  - cbn [base_of skel_aux]. apply IH.
  - cbn [base_of skel_aux]. apply IH.
Qed.

Lemma skel_listof T t xs : base_of T = TSeqOf t \/ base_of T = TSetOf t ->
  skel T (VList xs) = SNode (tagset_of' T) (map (skel t) xs).
Proof. intros Hb. unfold skel at 1. rewrite skel_aux_base. destruct Hb as [-> | ->]; reflexivity. Qed.

Lemma skel_record T fs vs : base_of T = TSeq fs \/ base_of T = TSet fs ->
  skel T (VRec vs) = SNode (tagset_of' T) (skel_fields fs vs).
Proof. intros Hb. unfold skel at 1. rewrite skel_aux_base. destruct Hb as [-> | ->]; reflexivity. Qed.

Lemma skel_choice alts i x : skel (TChoice alts) (VChoice i x) = skel_alt x alts i.
Proof. reflexivity. Qed.

Lemma skel_leaf T v : prim_base T = true -> skel T v = SLeaf (tagset_of' T) (abs T v).
Proof.
  intros Hp. unfold skel. rewrite skel_aux_base, (abs_wrappers T v). unfold prim_base in Hp.
  destruct (base_of T); try discriminate Hp; reflexivity.
Qed.

(* ---------- the encoder, any codec whose fixed options leave the definite mode alone ---------- *)

Lemma enc_with_inv_c ce T v b : def_codec ce -> enc_with ce (enc_content ce) T def_opts v = Ok b ->
  exists ec fl ts content cns, concrete_encoder ce T = Ok (ec, fl) /\ tagset_of T = Ok ts
    /\ enc_content ce T ec fl def_opts v = Ok (content, cns) /\ frame ts content cns def_opts (ef_indef fl) = Ok b.
Proof.
  unfold enc_with, def_codec. intros Hdef H. rewrite Hdef in H.
  destruct (concrete_encoder ce T) as [[ec fl]|e] eqn:E1; cbn [bind] in H; [|discriminate].
  destruct (tagset_of T) as [ts|e] eqn:E2; cbn [bind] in H; [|discriminate].
  change (mkOpts (o_def def_opts) (o_chunk def_opts) false) with def_opts in H.
  destruct (enc_content ce T ec fl def_opts v) as [[content cns]|e] eqn:E3; cbn [bind] in H; [|discriminate].
  exists ec, fl, ts, content, cns. split; [reflexivity|]. split; [reflexivity|]. split; [exact E3|exact H].
Qed.

(* the encoding is a function of the encoder class, the tag set and the contents octets *)
Lemma enc_with_congr c T1 T2 o v1 v2 :
  concrete_encoder c T1 = concrete_encoder c T2 -> tagset_of T1 = tagset_of T2 ->
  (forall cd fl o', enc_content c (base_of T1) cd fl o' v1 = enc_content c (base_of T2) cd fl o' v2) ->
  enc_with c (enc_content c) T1 o v1 = enc_with c (enc_content c) T2 o v2.
Proof.
  intros H1 H2 H3. unfold enc_with. rewrite H1, H2.
  destruct (concrete_encoder c T2) as [[cd fl]|e]; cbn [bind]; [|reflexivity].
  destruct (tagset_of T2) as [ts|e]; cbn [bind]; [|reflexivity].
  rewrite (enc_content_base c T1), (enc_content_base c T2), H3. reflexivity.
Qed.

(* ---------- what the induction establishes for one item ---------- *)

Definition not_choice (T: ty) : Prop := match T with TChoice _ => False | _ => True end.

Lemma wrap_explicit_not_choice : forall r X, not_choice X -> not_choice (wrap_explicit r X).
Proof. induction r as [|t r IH]; intros X HX; cbn [wrap_explicit]; [exact HX|]. apply IH. exact I. Qed.

Lemma schemaless_ty_not_choice proto t0 r : not_choice proto -> not_choice (schemaless_ty proto (t0 :: r)).
Proof.
  intros Hp. unfold schemaless_ty. apply wrap_explicit_not_choice.
  destruct (tagset_of' proto) as [|p0 [|p1 l]]; try exact I. destruct (tag_eqb p0 t0); [exact Hp|exact I].
Qed.

(* T0, v0: the guessed type and the decoded value *)
Definition sl_item (ce cd: codec) (T: ty) (v: val) : Prop :=
  forall b, enc_with ce (enc_content ce) T def_opts v = Ok b -> N.of_nat (length b) <= index_max ->
  (0 < length b)%nat /\
  exists T0 v0,
    tagset_of T0 = tagset_of T /\ not_choice T0
    /\ skel T0 v0 = skel T v
    /\ enc_with DER (enc_content DER) T0 def_opts v0 = enc_with DER (enc_content DER) T def_opts v
    /\ forall f, (2 * length b <= f)%nat -> consumes (dec_call cd f SNone [] None false false) b (DV T0 v0).

(* ---------- the simple types ---------- *)

(* the DER contents octets of a simple value are determined by its abstract content *)
Lemma leaf_content_abs ce cd T v v' ec fl o : stage1_val ce cd T v = true ->
  abs (sl_proto (base_of T)) v' = abs (base_of T) v ->
  enc_content DER (sl_proto (base_of T)) ec fl o v' = enc_content DER (base_of T) ec fl o v.
Proof.
  unfold stage1_val. intros Hs Ha.
  destruct (base_of T) eqn:Hb; destruct v as [bb|z|bs|bo|cs| |arcs|r|vfs|xs|i x|ab]; try discriminate Hs;
    cbn [sl_proto] in *; cbn [abs] in Ha.
  - destruct v'; try discriminate Ha. inversion Ha; subst. reflexivity.
  - destruct v'; try discriminate Ha. inversion Ha; subst. reflexivity.
  - destruct v'; try discriminate Ha. inversion Ha; subst. reflexivity.
  - destruct v'; try discriminate Ha. inversion Ha; subst. reflexivity.
  - destruct v'; try discriminate Ha. inversion Ha; subst. reflexivity.
  - destruct v'; try discriminate Ha. reflexivity.
  - destruct v'; try discriminate Ha. inversion Ha; subst. reflexivity.
  - destruct v' as [| | | | | | |r'| | | |]; try discriminate Ha. injection Ha as Ha.
    assert (Hr: enc_real r' = enc_real r).
    { destruct r as [| |m e|m e|]; try discriminate Hs.
      - destruct r' as [| |m2 e2|m2 e2|]; try reflexivity; try discriminate Ha;
          unfold abs_real in Ha; destruct (Z.eqb m2 0); try discriminate Ha;
          destruct (strip_factor _ _ m2 e2); discriminate Ha.
      - destruct r' as [| |m2 e2|m2 e2|]; try reflexivity; try discriminate Ha;
          unfold abs_real in Ha; destruct (Z.eqb m2 0); try discriminate Ha;
          destruct (strip_factor _ _ m2 e2); discriminate Ha.
      - apply enc_real_abs; [|exact Ha]. destruct (Z.eqb_spec m 0); [discriminate Hs|assumption]. }
    cbn [enc_content]. rewrite Hr. reflexivity.
  - destruct v' as [| | |b'|cs'| | | | | | |]; try discriminate Ha.
    + inversion Ha; subst. reflexivity.
    + inversion Ha; subst. reflexivity.
Qed.

Lemma sl_ty_not_choice T : univ_explicit T = true -> not_choice (sl_ty T).
Proof.
  intros Hue. destruct (univ_explicit_shape T Hue) as (b0 & r & _ & Hts & _).
  unfold sl_ty. rewrite (tagset_of'_ok T _ Hts). apply schemaless_ty_not_choice.
  pose proof (univ_explicit_prim T Hue) as Hp. unfold prim_base in Hp.
  destruct (base_of T); try discriminate Hp; exact I.
Qed.

Lemma leaf_item ce cd T v : enc_ok ce -> univ_explicit T = true -> stage1_val ce cd T v = true -> sl_item ce cd T v.
Proof.
  intros Hce Hue Hs b He Hmax.
  assert (Hdef: def_codec ce) by (destruct Hce as [-> | ->]; reflexivity).
  assert (He': encode ce true 0 T v = Ok b) by exact He.
  destruct (sl_stage1_leaf ce cd T v b Hce Hue Hs He') as (content & vdec & Hleaf & Hsl & Habs).
  destruct (sl_ty_facts T Hue) as [Htags Hbase].
  destruct (univ_explicit_shape T Hue) as (t0 & r & _ & Hts & _ & _ & _).
  pose proof (univ_explicit_prim T Hue) as Hp.
  assert (Hlen: (length content + 2 + 2 * length r <= length b)%nat).
  { destruct Hleaf as [(ec & fl & Hcenc & Hcont) _].
    destruct (enc_with_inv_c ce T v b Hdef He) as (ec' & fl' & ts & content' & cns & Hce' & Hts' & Hcont' & Hfr).
    rewrite Hcenc in Hce'. inversion Hce'; subst ec' fl'. rewrite Hcont in Hcont'. inversion Hcont'; subst content' cns.
    rewrite Hts in Hts'. inversion Hts'; subst ts.
    exact (frame_len_r _ _ _ _ _ _ Hfr). }
  split; [lia|].
  exists (sl_ty T), vdec.
  split; [exact Htags|]. split; [apply sl_ty_not_choice; exact Hue|]. split.
  { rewrite (skel_leaf T v Hp).
    assert (Hp0: prim_base (sl_ty T) = true).
    { unfold prim_base. rewrite Hbase. unfold prim_base in Hp. destruct (base_of T); try discriminate Hp; reflexivity. }
    rewrite (skel_leaf (sl_ty T) vdec Hp0), Habs. unfold tagset_of'. rewrite Htags. reflexivity. }
  split.
  { apply enc_with_congr.
    - rewrite (concrete_encoder_base DER (sl_ty T)), (concrete_encoder_base DER T), Hbase.
      unfold prim_base in Hp. destruct (base_of T); try discriminate Hp; reflexivity.
    - exact Htags.
    - intros ec fl o'. rewrite Hbase. apply (leaf_content_abs ce cd T v vdec ec fl o' Hs).
      rewrite <- Hbase, <- (abs_wrappers (sl_ty T) vdec), <- (abs_wrappers T v). exact Habs. }
  intros f Hf.
  pose proof (sl_stage1_generic ce cd T v content vdec b (f - 1 - length r) Hdef Hue Hleaf Hsl He') as Hg.
  rewrite (tagset_of'_ok T _ Hts) in Hg. cbn [length] in Hg.
  replace (S (f - 1 - length r) + (S (length r) - 1))%nat with f in Hg by lia.
  apply Hg; [split; lia|lia].
Qed.

(* ---------- containers as lists of members (type, value) ---------- *)

Definition enc_members (c: codec) : list (ty * val) -> res (list bytes) :=
  fix go (ms: list (ty * val)) : res (list bytes) :=
  match ms with
  | [] => Ok []
  | m :: r => do p <- enc_with c (enc_content c) (fst m) def_opts (snd m); do ps <- go r; Ok (p :: ps)
  end.

(* the same with the sort key the CER/DER SET encoders attach *)
Definition enc_members_k (c: codec) (dyn: bool) : list (ty * val) -> res (list (tagset * bytes)) :=
  fix go (ms: list (ty * val)) : res (list (tagset * bytes)) :=
  match ms with
  | [] => Ok []
  | m :: r => do b <- enc_with c (enc_content c) (fst m) def_opts (snd m); do rest <- go r;
              Ok ((set_sort_key dyn (fst m) (snd m), b) :: rest)
  end.

(* DER: every member with the outermost tag of its type *)
Definition der_members : list (ty * val) -> res (list (tagset * bytes)) :=
  fix go (ms: list (ty * val)) : res (list (tagset * bytes)) :=
  match ms with
  | [] => Ok []
  | m :: r => do b <- enc_with DER (enc_content DER) (fst m) def_opts (snd m); do rest <- go r;
              Ok ((last_tag (tagset_of' (fst m)), b) :: rest)
  end.

Definition der_container (ts: tagset) (arr: list (tagset * bytes) -> list bytes) (ms: list (ty * val)) : res bytes :=
  do kps <- der_members ms; frame ts (concat (arr kps)) true def_opts true.

Lemma enc_members_of_k c dyn : forall ms,
  enc_members c ms = (do kps <- enc_members_k c dyn ms; Ok (map snd kps)).
Proof.
  induction ms as [|m ms IH]; [reflexivity|]. cbn [enc_members enc_members_k].
  destruct (enc_with c (enc_content c) (fst m) def_opts (snd m)) as [p|e]; cbn [bind]; [|reflexivity].
  rewrite IH. destruct (enc_members_k c dyn ms) as [kps|e]; cbn [bind]; reflexivity.
Qed.

Lemma sort_key_plain dyn T v : not_choice T -> set_sort_key dyn T v = last_tag (tagset_of' T).
Proof. intros H. destruct dyn; destruct T; try reflexivity; destruct H. Qed.

Lemma enc_members_k_der dyn : forall ms, Forall (fun m => not_choice (fst m)) ms ->
  enc_members_k DER dyn ms = der_members ms.
Proof.
  induction ms as [|m ms IH]; intros HF; [reflexivity|]. inversion HF as [|? ? Hm Hms]; subst.
  cbn [enc_members_k der_members]. rewrite (IH Hms), (sort_key_plain dyn _ _ Hm). reflexivity.
Qed.

Lemma der_members_length : forall ms kps, der_members ms = Ok kps -> length kps = length ms.
Proof.
  induction ms as [|m ms IH]; intros kps H; cbn [der_members] in H.
  - inversion H; reflexivity.
  - destruct (enc_with DER (enc_content DER) (fst m) def_opts (snd m)) as [p|e]; cbn [bind] in H; [|discriminate].
    destruct (der_members ms) as [r|e] eqn:E; cbn [bind] in H; [|discriminate].
    inversion H; subst. cbn [length]. rewrite (IH r eq_refl). reflexivity.
Qed.

(* members that encode alike under the same outermost tags *)
Definition der_same (m tv: ty * val) : Prop :=
  tagset_of (fst tv) = tagset_of (fst m)
  /\ enc_with DER (enc_content DER) (fst tv) def_opts (snd tv) = enc_with DER (enc_content DER) (fst m) def_opts (snd m).

Lemma der_members_congr : forall ms tvs, Forall2 der_same ms tvs -> der_members tvs = der_members ms.
Proof.
  induction 1 as [|m tv ms tvs [Ht He] _ IH]; [reflexivity|].
  cbn [der_members]. rewrite He, IH. unfold tagset_of'. rewrite Ht. reflexivity.
Qed.

(* named versions of the encoder's local loops (convertible with them), any codec *)
Definition elems_c (c: codec) (t: ty) (o: eopts) : list val -> res (list bytes) :=
  fix go (xs: list val) : res (list bytes) :=
  match xs with
  | [] => Ok []
  | x :: r => do p <- enc_with c (enc_content c) t o x; do ps <- go r; Ok (p :: ps)
  end.

Definition listof_finish (cd: enc_codec) (parts: list bytes) : res (bytes * bool) :=
  match cd with
  | EcSeqOfBer | EcSeqOfCer => Ok (concat parts, true)
  | EcSetOfCer => Ok (concat (sort_setof parts), true)
  | _ => Err EMalformed
  end.

Lemma enc_content_seqof_g c t cd fl o xs :
  enc_content c (TSeqOf t) cd fl o (VList xs) = (do parts <- elems_c c t o xs; listof_finish cd parts).
Proof. reflexivity. Qed.
Lemma enc_content_setof_g c t cd fl o xs :
  enc_content c (TSetOf t) cd fl o (VList xs) = (do parts <- elems_c c t o xs; listof_finish cd parts).
Proof. reflexivity. Qed.

Definition fields_c (c: codec) (cd: enc_codec) (omit: bool) (o: eopts)
  : list (presence * ty) -> list (option val) -> res (list (tagset * bytes)) :=
  fix go (fs: list (presence * ty)) (vs: list (option val)) : res (list (tagset * bytes)) :=
    match fs with
    | [] => Ok []
    | (p, ft) :: fs' =>
        let ov := match vs with x :: _ => x | [] => None end in
        let vs' := match vs with _ :: r => r | [] => [] end in
        let o' := if omit then mkOpts (o_def o) (o_chunk o) (match p with Opt => true | _ => false end) else o in
        let emit (x: val) := do b <- enc_with c (enc_content c) ft o' x; do rest <- go fs' vs';
                             Ok ((set_sort_key (match cd with EcSetDer => true | _ => false end) ft x, b) :: rest) in
        match p, ov with
        | Opt, None => go fs' vs'
        | Def d, None => go fs' vs'
        | Def d, Some x => match val_py_eq x d with
                           | Some true => go fs' vs'
                           | Some false => emit x
                           | None => Err EUnmodelled end
        | Req, None => if all_optional_container ft then emit (VRec []) else Err EMalformed
        | _, Some x => emit x
        end
    end.

Definition record_finish (cd: enc_codec) (parts: list (tagset * bytes)) : res (bytes * bool) :=
  match cd with
  | EcSeq => Ok (concat (map snd parts), true)
  | EcSetCer | EcSetDer => Ok (concat (map snd (sort_by tagset_ltb fst parts)), true)
  | _ => Err EMalformed
  end.

Definition record_omit (cd: enc_codec) (fl: enc_flags) : bool :=
  match cd with EcSeq => ef_omit_empty fl | EcSetCer | EcSetDer => true | _ => false end.

Lemma enc_content_seq_g c fs cd fl o vs :
  enc_content c (TSeq fs) cd fl o (VRec vs) = (do parts <- fields_c c cd (record_omit cd fl) o fs vs; record_finish cd parts).
Proof. reflexivity. Qed.
Lemma enc_content_set_g c fs cd fl o vs :
  enc_content c (TSet fs) cd fl o (VRec vs) = (do parts <- fields_c c cd (record_omit cd fl) o fs vs; record_finish cd parts).
Proof. reflexivity. Qed.

Lemma elems_members c t : forall xs, elems_c c t def_opts xs = enc_members c (map (pair t) xs).
Proof.
  induction xs as [|x xs IH]; [reflexivity|]. cbn [elems_c map enc_members fst snd]. rewrite IH. reflexivity.
Qed.

(* the members of a record value whose slots are all filled *)
Definition rec_members : list (presence * ty) -> list (option val) -> list (ty * val) :=
  fix go (fs: list (presence * ty)) (vs: list (option val)) : list (ty * val) :=
    match fs, vs with
    | f :: fs', Some x :: vs' => (snd f, x) :: go fs' vs'
    | _, _ => []
    end.

(* fs all mandatory, vs one filled slot per component *)
Definition rec_full : list (presence * ty) -> list (option val) -> bool :=
  fix go (fs: list (presence * ty)) (vs: list (option val)) : bool :=
    match fs, vs with
    | [], [] => true
    | f :: fs', Some x :: vs' => is_req (fst f) && go fs' vs'
    | _, _ => false
    end.

Lemma fields_members c cd omit : forall fs vs, rec_full fs vs = true ->
  fields_c c cd omit def_opts fs vs
  = enc_members_k c (match cd with EcSetDer => true | _ => false end) (rec_members fs vs).
Proof.
  induction fs as [|[p ft] fs IH]; intros vs Hf.
  - destruct vs; [reflexivity|discriminate Hf].
  - destruct vs as [|[x|] vs]; try discriminate Hf.
    change (rec_full ((p, ft) :: fs) (Some x :: vs)) with (is_req p && rec_full fs vs)%bool in Hf.
    apply Bool.andb_true_iff in Hf. destruct Hf as [Hp Hf]. destruct p; try discriminate Hp.
    change (rec_members ((Req, ft) :: fs) (Some x :: vs)) with ((ft, x) :: rec_members fs vs).
    cbn [enc_members_k fst snd]. rewrite <- (IH vs Hf).
    destruct omit; reflexivity.
Qed.

Lemma rec_members_fst : forall fs vs, rec_full fs vs = true -> map fst (rec_members fs vs) = map snd fs.
Proof.
  induction fs as [|f fs IH]; intros vs Hf; destruct vs as [|[x|] vs]; try discriminate Hf; [reflexivity|].
  change (rec_full (f :: fs) (Some x :: vs)) with (is_req (fst f) && rec_full fs vs)%bool in Hf.
  apply Bool.andb_true_iff in Hf. destruct Hf as [_ Hf].
  change (rec_members (f :: fs) (Some x :: vs)) with ((snd f, x) :: rec_members fs vs).
  cbn [map fst]. rewrite (IH vs Hf). reflexivity.
Qed.

Definition skelm (m: ty * val) : sk := skel (fst m) (snd m).

Lemma skel_fields_members : forall fs vs, rec_full fs vs = true -> skel_fields fs vs = map skelm (rec_members fs vs).
Proof.
  induction fs as [|f fs IH]; intros vs Hf; destruct vs as [|[x|] vs]; try discriminate Hf; [reflexivity|].
  change (rec_full (f :: fs) (Some x :: vs)) with (is_req (fst f) && rec_full fs vs)%bool in Hf.
  apply Bool.andb_true_iff in Hf. destruct Hf as [_ Hf].
  change (skel_fields (f :: fs) (Some x :: vs)) with (skel (snd f) x :: skel_fields fs vs).
  change (rec_members (f :: fs) (Some x :: vs)) with ((snd f, x) :: rec_members fs vs).
  cbn [map]. rewrite (IH vs Hf). reflexivity.
Qed.

(* ---------- the DER encoding of each kind of container, by members ---------- *)

Lemma fix_opts_der : fix_opts DER def_opts = def_opts. Proof. reflexivity. Qed.

Lemma der_elems t xs : elems_c DER t def_opts xs = (do kps <- der_members (map (pair t) xs); Ok (map snd kps)).
Proof.
  induction xs as [|x xs IH]; [reflexivity|]. cbn [elems_c map der_members fst snd].
  destruct (enc_with DER (enc_content DER) t def_opts x) as [p|e]; cbn [bind]; [|reflexivity].
  rewrite IH. destruct (der_members (map (pair t) xs)) as [kps|e]; cbn [bind]; reflexivity.
Qed.

Lemma der_seqof T t ts xs : base_of T = TSeqOf t -> tagset_of T = Ok ts ->
  enc_with DER (enc_content DER) T def_opts (VList xs) = der_container ts (map snd) (map (pair t) xs).
Proof.
  intros Hb Hts. unfold enc_with. rewrite fix_opts_der, concrete_encoder_base, Hb.
  change (concrete_encoder DER (TSeqOf t)) with (Ok (EcSeqOfCer, mkEncFlags true false false None 0 0): res (enc_codec * enc_flags)).
  cbn [bind]. rewrite Hts. cbn [bind].
  change (mkOpts (o_def def_opts) (o_chunk def_opts) false) with def_opts.
  rewrite enc_content_base, Hb, enc_content_seqof_g, der_elems. unfold der_container.
  destruct (der_members (map (pair t) xs)) as [kps|e]; cbn [bind]; reflexivity.
Qed.

Lemma der_setof T t ts xs : base_of T = TSetOf t -> tagset_of T = Ok ts ->
  enc_with DER (enc_content DER) T def_opts (VList xs)
  = der_container ts (fun kps => sort_setof (map snd kps)) (map (pair t) xs).
Proof.
  intros Hb Hts. unfold enc_with. rewrite fix_opts_der, concrete_encoder_base, Hb.
  change (concrete_encoder DER (TSetOf t)) with (Ok (EcSetOfCer, mkEncFlags true false false None 0 0): res (enc_codec * enc_flags)).
  cbn [bind]. rewrite Hts. cbn [bind].
  change (mkOpts (o_def def_opts) (o_chunk def_opts) false) with def_opts.
  rewrite enc_content_base, Hb, enc_content_setof_g, der_elems. unfold der_container.
  destruct (der_members (map (pair t) xs)) as [kps|e]; cbn [bind]; reflexivity.
Qed.

Lemma der_seq T fs ts vs : base_of T = TSeq fs -> tagset_of T = Ok ts -> rec_full fs vs = true ->
  Forall (fun f => not_choice (snd f)) fs ->
  enc_with DER (enc_content DER) T def_opts (VRec vs) = der_container ts (map snd) (rec_members fs vs).
Proof.
  intros Hb Hts Hf Hnc. unfold enc_with. rewrite fix_opts_der, concrete_encoder_base, Hb.
  change (concrete_encoder DER (TSeq fs)) with (Ok (EcSeq, mkEncFlags true false true None 0 0): res (enc_codec * enc_flags)).
  cbn [bind]. rewrite Hts. cbn [bind].
  change (mkOpts (o_def def_opts) (o_chunk def_opts) false) with def_opts.
  rewrite enc_content_base, Hb, enc_content_seq_g, (fields_members DER _ _ fs vs Hf).
  rewrite enc_members_k_der.
  - unfold der_container. destruct (der_members (rec_members fs vs)) as [kps|e]; cbn [bind]; reflexivity.
  - apply Forall_forall. intros m Hin. rewrite Forall_forall in Hnc.
    assert (Hin': In (fst m) (map snd fs)) by (rewrite <- (rec_members_fst fs vs Hf); apply in_map; exact Hin).
    apply in_map_iff in Hin'. destruct Hin' as (f & Hfe & Hfin). rewrite <- Hfe. exact (Hnc f Hfin).
Qed.

Lemma der_set T fs ts vs : base_of T = TSet fs -> tagset_of T = Ok ts -> rec_full fs vs = true ->
  Forall (fun f => not_choice (snd f)) fs ->
  enc_with DER (enc_content DER) T def_opts (VRec vs)
  = der_container ts (fun kps => map snd (sort_by tagset_ltb fst kps)) (rec_members fs vs).
Proof.
  intros Hb Hts Hf Hnc. unfold enc_with. rewrite fix_opts_der, concrete_encoder_base, Hb.
  change (concrete_encoder DER (TSet fs)) with (Ok (EcSetDer, mkEncFlags true false false None 0 0): res (enc_codec * enc_flags)).
  cbn [bind]. rewrite Hts. cbn [bind].
  change (mkOpts (o_def def_opts) (o_chunk def_opts) false) with def_opts.
  rewrite enc_content_base, Hb, enc_content_set_g, (fields_members DER _ _ fs vs Hf).
  rewrite enc_members_k_der.
  - unfold der_container. destruct (der_members (rec_members fs vs)) as [kps|e]; cbn [bind]; reflexivity.
  - apply Forall_forall. intros m Hin. rewrite Forall_forall in Hnc.
    assert (Hin': In (fst m) (map snd fs)) by (rewrite <- (rec_members_fst fs vs Hf); apply in_map; exact Hin).
    apply in_map_iff in Hin'. destruct Hin' as (f & Hfe & Hfin). rewrite <- Hfe. exact (Hnc f Hfin).
Qed.

(* C03, CER counterpart for containers: whatever the CER encoder outputs - in whatever mode it is
   called - is the canonical encoding of the independent reference ([X690.cer] = [canon true]):
   SEQUENCE, SEQUENCE OF, SET (9.3: by the smallest tag of each component type), SET OF (11.6),
   CHOICE, ANY, nested to any depth over the simple types (Proofs/ReaderCer.v: segmented strings,
   TRUE = FF), outside findings F01 and F24.

   1. indefinite framing over a tag set whose base has no tag of its own;  2. the simple types with the
   ifNotEmpty flag;  3. SET keys: smallest_outer against min_first_tag;  4. the domain;  5. the
   induction;  6. witnesses and disagreements. *)
From Coq Require Import Lia Sorting.Permutation.
From PV Require Import Base.Bytes Model.Tag Model.TableTypes Model.Types Model.Enc Gen.Tables Spec.X690
     Proofs.SpecOctets Proofs.TagAlgebra Proofs.ContainerCodecDefs Proofs.ContainerCodecSort
     Proofs.DerAbsFunction Proofs.DerReference Proofs.DerReference2
     Proofs.ReaderParse Proofs.ReaderFrame Proofs.ReaderModel Proofs.ReaderCer.
Local Open Scope N_scope.

(* ====================================================================== *)
(* 1. constructed wrappers over any tag set                                 *)
(* ====================================================================== *)

(* every tag of the set as a constructed wrapper, innermost first *)
Definition cwrap (indef: bool) (ts: tagset) (c: bytes) : bytes := fold_left (wrap_step indef) ts c.

Lemma cwrap_snoc indef ts t c : cwrap indef (ts ++ [t]) c = ctlv indef (tcls t) (tnum t) (cwrap indef ts c).
Proof. unfold cwrap. rewrite fold_left_app. reflexivity. Qed.

(* the reference over tagging wrappers, when the base encoding is itself such a nest (DER or CER) *)
Theorem canon_wrappers_c : forall T v cer c tsb, imp_ok T = true ->
  tagset_of (base_of T) = Ok tsb -> canon cer (base_of T) v = Some (cwrap cer tsb c) ->
  forall ts, tagset_of T = Ok ts -> canon cer T v = Some (cwrap cer ts c).
Proof.
  induction T as [| | | | | | | | n|fs IH|fs IH|t IH|t IH|alts IH| |tg x IH|tg x IH] using ty_ind';
    intros v cer c tsb Hi H1 H2 ts Hts;
    try (cbn [base_of] in H1, H2; rewrite H1 in Hts; injection Hts as <-; exact H2).
  - cbn [imp_ok] in Hi. apply andb_true_iff in Hi. destruct Hi as [Hnb Hi]. apply Bool.negb_true_iff in Hnb.
    cbn [tagset_of] in Hts. destruct (tagset_of x) as [ts'|] eqn:Ex; cbn [bind] in Hts; [|discriminate].
    injection Hts as <-.
    pose proof (nonbare_tagset x ts' Hnb Ex) as Hne.
    rewrite canon_imp, (IH v cer c tsb Hi H1 H2 ts' eq_refl).
    destruct (exists_last Hne) as (ts0 & last & ->).
    rewrite tag_implicitly_spec, !cwrap_snoc. cbn [opt_bind tcls tnum]. apply retag_ctlv.
  - cbn [imp_ok] in Hi.
    cbn [tagset_of] in Hts. destruct (tagset_of x) as [ts'|] eqn:Ex; cbn [bind] in Hts; [|discriminate].
    pose proof (tag_explicitly_spec ts' tg) as Hsp. rewrite Hts in Hsp. destruct Hsp as [Hnu ->].
    rewrite canon_exp, (IH v cer c tsb Hi H1 H2 ts' eq_refl), cwrap_snoc. cbn [opt_bind tcls tnum].
    destruct (tcls tg); [congruence|reflexivity|reflexivity|reflexivity].
Qed.

(* the model's frame of constructed content in the indefinite mode *)
Lemma frame_cwrap ts content i b : Forall (fun t => tcon t = true) ts -> (i = false \/ content <> []) ->
  frame ts content true (mkOpts false 1000 i) true = Ok b -> b = cwrap true ts content.
Proof.
  intros Hall Hi H. destruct ts as [|t0 r].
  - cbn [frame] in H. apply ok_inj in H. symmetry. exact H.
  - assert (H': frame (t0 :: r) content true (mkOpts false 1000 false) true = Ok b).
    { destruct Hi as [->|Hne]; [exact H|]. cbn [frame o_ifne o_def] in *. destruct content; [congruence|exact H]. }
    inversion Hall as [|? ? H0 Hr]; subst.
    apply (frame_gframe t0 r content true (mkOpts false 1000 false) true b eq_refl Hr) in H'; [|reflexivity|reflexivity].
    rewrite H'. cbn [o_def negb andb gframe_ts]. rewrite Bool.orb_true_r. reflexivity.
Qed.

(* ====================================================================== *)
(* 2. the simple types, with the ifNotEmpty flag                            *)
(* ====================================================================== *)

Lemma enc_cer_unfold T d k i v :
  enc CER T (mkOpts d k i) v =
  (do ce <- concrete_encoder CER T;
   do ts <- tagset_of T;
   do cc <- enc_content CER T (fst ce) (snd ce) cer_opts v;
   frame ts (fst cc) (snd cc) (mkOpts false 1000 i) (ef_indef (snd ce))).
Proof. rewrite enc_unfold. reflexivity. Qed.

Lemma seg_ok_nonempty ps : seg_ok ps = true -> ps <> [].
Proof. destruct ps; [discriminate|discriminate]. Qed.

Lemma tlv_nonempty c pc n x : tlv c pc n x <> [].
Proof. intros H. pose proof (tlv_length c pc n x) as L. rewrite H in L. cbn [length] in L. lia. Qed.

(* a segmented string is never empty: ifNotEmpty does not touch the simple types *)
Lemma cer_simple_ifne T v : der_ref_val T v = true ->
  enc CER T (mkOpts false 1000 true) v = enc CER T (mkOpts false 1000 false) v.
Proof.
  intros Hd. unfold der_ref_val in Hd. rewrite !enc_cer_unfold.
  destruct (concrete_encoder CER T) as [[cd fl]|] eqn:Ece; cbn [bind fst snd]; [|reflexivity].
  destruct (tagset_of T) as [ts|]; cbn [bind]; [|reflexivity].
  destruct (enc_content CER T cd fl cer_opts v) as [[content ic]|] eqn:Ec; cbn [bind fst snd]; [|reflexivity].
  rewrite concrete_encoder_base in Ece. rewrite enc_content_base in Ec.
  destruct (cer_contents_small (base_of T) v cd fl content ic Hd Ece Ec) as [_ Hs2].
  destruct ts as [|t0 r]; [reflexivity|]. cbn [frame o_ifne o_def].
  destruct ic; [|rewrite !Bool.andb_false_r; reflexivity].
  destruct (Hs2 eq_refl) as (n & ps & _ & -> & _ & Hseg).
  destruct ps as [|p ps']; [discriminate Hseg|]. cbn [map concat].
  destruct (tlv Univ false n p) eqn:E; [exfalso; exact (tlv_nonempty _ _ _ _ E)|reflexivity].
Qed.

(* ====================================================================== *)
(* 3. SET under CER: the smallest tag of a component type (X.690 9.3)        *)
(* ====================================================================== *)

(* types that have a smallest tag: no untagged ANY among the alternatives, no empty CHOICE, a proper tag set *)
Fixpoint keyable (T: ty) : bool :=
  match T with
  | TChoice alts => negb (match alts with [] => true | _ => false end) && forallb keyable alts
  | TAny => false
  | TImp _ _ | TExp _ _ => match tagset_of T with Ok _ => true | Err _ => false end
  | _ => true
  end.

Definition so_alts : list ty -> tagset :=
  fix go (l: list ty) : tagset :=
    match l with [] => [] | [a] => smallest_outer a | a :: r => tagset_min (smallest_outer a) (go r) end.
Lemma so_choice alts : smallest_outer (TChoice alts) = so_alts alts. Proof. reflexivity. Qed.
Lemma so_alts_cons2 a a2 r : so_alts (a :: a2 :: r) = tagset_min (smallest_outer a) (so_alts (a2 :: r)). Proof. reflexivity. Qed.

Definition mft_alts : list ty -> N * N :=
  fix go (l: list ty) : N * N :=
    match l with
    | [] => (0, 0)
    | [a] => min_first_tag a
    | a :: r => let x := min_first_tag a in let y := go r in if key_ltb y x then y else x
    end.
Lemma mft_choice alts : min_first_tag (TChoice alts) = mft_alts alts. Proof. reflexivity. Qed.
Lemma mft_alts_cons2 a a2 r : mft_alts (a :: a2 :: r) =
  (if key_ltb (mft_alts (a2 :: r)) (min_first_tag a) then mft_alts (a2 :: r) else min_first_tag a).
Proof. reflexivity. Qed.

Definition key_agrees (T: ty) : Prop := single (smallest_outer T) = true /\ tkey (smallest_outer T) = min_first_tag T.

Lemma key_agree_alts : forall alts, alts <> [] -> Forall key_agrees alts ->
  single (so_alts alts) = true /\ tkey (so_alts alts) = mft_alts alts.
Proof.
  induction alts as [|a r IH]; intros Hne Hall; [congruence|].
  inversion Hall as [|? ? Ha Hr]; subst. destruct Ha as [Ha1 Ha2].
  destruct r as [|a2 r']; [split; [exact Ha1|exact Ha2]|].
  destruct (IH ltac:(discriminate) Hr) as [I1 I2].
  rewrite so_alts_cons2, mft_alts_cons2. unfold tagset_min.
  rewrite <- I2, <- Ha2, (key_ltb_single _ _ I1 Ha1).
  destruct (tagset_ltb (so_alts (a2 :: r')) (smallest_outer a)); split; first [assumption|reflexivity].
Qed.

Lemma last_tag_single ts0 l : single (last_tag (ts0 ++ [l])) = true /\ tkey (last_tag (ts0 ++ [l])) = (class_no (tcls l), tnum l).
Proof. rewrite last_tag_snoc. split; reflexivity. Qed.

Theorem key_agree : forall T, keyable T = true -> key_agrees T.
Proof.
  induction T as [| | | | | | | | n|fs IH|fs IH|t IH|t IH|alts IH| |tg x IH|tg x IH] using ty_ind';
    intros Hk; try (split; reflexivity); try discriminate Hk.
  - (* CHOICE *)
    cbn [keyable] in Hk. apply andb_true_iff in Hk. destruct Hk as [Hne Hall].
    unfold key_agrees. rewrite so_choice, mft_choice. apply key_agree_alts.
    + destruct alts; [discriminate Hne|discriminate].
    + rewrite forallb_forall in Hall. rewrite Forall_forall in *. intros a Ha. apply IH; [exact Ha|apply Hall; exact Ha].
  - (* IMPLICIT *)
    cbn [keyable] in Hk. unfold key_agrees.
    change (smallest_outer (TImp tg x)) with (last_tag (tagset_of' (TImp tg x))). unfold tagset_of'.
    destruct (tagset_of (TImp tg x)) as [ts|] eqn:Ets; [|discriminate Hk].
    cbn [tagset_of] in Ets. destruct (tagset_of x) as [ts'|]; cbn [bind] in Ets; [|discriminate Ets].
    injection Ets as <-. cbn [min_first_tag].
    destruct ts' as [|t1 r1]; [split; reflexivity|].
    destruct (@exists_last _ (t1 :: r1)) as (ts0 & l & E); [discriminate|]. rewrite E.
    rewrite tag_implicitly_spec. exact (last_tag_single ts0 (mkTag (tcls tg) (tcon l) (tnum tg))).
  - (* EXPLICIT *)
    cbn [keyable] in Hk. unfold key_agrees.
    change (smallest_outer (TExp tg x)) with (last_tag (tagset_of' (TExp tg x))). unfold tagset_of'.
    destruct (tagset_of (TExp tg x)) as [ts|] eqn:Ets; [|discriminate Hk].
    cbn [tagset_of] in Ets. destruct (tagset_of x) as [ts'|]; cbn [bind] in Ets; [|discriminate Ets].
    pose proof (tag_explicitly_spec ts' tg) as Hsp. rewrite Ets in Hsp. destruct Hsp as [_ ->].
    cbn [min_first_tag]. exact (last_tag_single ts' (mkTag (tcls tg) true (tnum tg))).
Qed.

(* ====================================================================== *)
(* 4. the domain                                                           *)
(* ====================================================================== *)

(* the reference's canonical encoding has empty contents (finding F24 under CER) *)
Definition f24c_base (B: ty) (v: val) : bool :=
  match B with
  | TSeq _ | TSeqOf _ | TSet _ | TSetOf _ => match cer B v with Some [_; 128; 0; 0] => true | _ => false end
  | TChoice _ | TAny => match cer B v with Some [] => true | _ => false end
  | _ => false
  end.
Definition f24c (T: ty) (v: val) : bool := negb (bare T) && f24c_base (base_of T) v.

(* X.690 11.6 needs members that the zero-padded comparison tells apart *)
Definition setof_ties_ok (es: list bytes) : bool :=
  let m := ContainerCodecDefs.max_len es in
  forallb (fun a => forallb (fun b => implb (bytes_eqb (pad_to m a) (pad_to m b)) (bytes_eqb a b)) es) es.

Lemma ties_ok_pad_distinct es : setof_ties_ok es = true -> pad_distinct es.
Proof.
  unfold setof_ties_ok. intros H a b Ha Hb E. rewrite forallb_forall in H. specialize (H a Ha).
  rewrite forallb_forall in H. specialize (H b Hb). rewrite E, bytes_eqb_refl in H. cbn [implb] in H.
  apply bytes_eqb_eq. exact H.
Qed.

Lemma tlv_ties_ok es : Forall (fun p => tlvb p = true) es -> setof_ties_ok es = true.
Proof.
  intros H. pose proof (tlv_pad_distinct es H) as Hp. unfold setof_ties_ok.
  apply forallb_forall. intros a Ha. apply forallb_forall. intros b Hb.
  destruct (bytes_eqb (pad_to _ a) (pad_to _ b)) eqn:E; [|reflexivity]. cbn [implb].
  apply bytes_eqb_eq in E. rewrite (Hp a b Ha Hb E). apply bytes_eqb_refl.
Qed.

(* the component types of a SET that hold a value *)
Fixpoint cpresent (fs: list (presence * ty)) (vs: list (option val)) : list ty :=
  match fs with
  | [] => []
  | (p, ft) :: fs' => match ohd vs with Some _ => ft :: cpresent fs' (otl vs) | None => cpresent fs' (otl vs) end
  end.
Definition cset_keys_ok (fs: list (presence * ty)) (vs: list (option val)) : bool :=
  forallb keyable (cpresent fs vs) && pairwise_ord (map smallest_outer (cpresent fs vs)).

(* The domain: as for DER (Proofs/DerReference2.v der_all), with
   - F01: no EXPLICIT tag over a type whose encoder has no indefinite form (BOOLEAN, INTEGER, ENUMERATED,
     NULL, OBJECT IDENTIFIER, REAL);
   - SET: the component types present have a smallest tag, and these are distinct;
   - SET OF: the canonical encodings of the members are told apart by the padded comparison. *)
Fixpoint cer_all (T: ty) (v: val) {struct T} : bool :=
  match T with
  | TImp _ x => negb (bare x) && cer_all x v
  | TExp _ x => indef_base (base_of x) && cer_all x v
  | TSeqOf t => match v with VList xs => forallb (cer_all t) xs | _ => false end
  | TSetOf t => match v with
                | VList xs => forallb (cer_all t) xs
                              && setof_ties_ok (map (fun x => match cer t x with Some e => e | None => [] end) xs)
                | _ => false end
  | TSeq fs =>
      match v with
      | VRec vs =>
          (fix go (fs: list (presence * ty)) (vs: list (option val)) : bool :=
             match fs with
             | [] => true
             | (p, ft) :: fs' =>
                 (match p, ohd vs with
                  | Req, None => false
                  | _, None => true
                  | Req, Some x => cer_all ft x
                  | Opt, Some x => cer_all ft x && negb (f24c ft x)
                  | Def d, Some x => simple_base (base_of ft) && cer_all ft x && cer_all ft d
                  end) && go fs' (otl vs)
             end) fs vs
      | _ => false
      end
  | TSet fs =>
      match v with
      | VRec vs =>
          cset_keys_ok fs vs &&
          (fix go (fs: list (presence * ty)) (vs: list (option val)) : bool :=
             match fs with
             | [] => true
             | (p, ft) :: fs' =>
                 (match p, ohd vs with
                  | Req, None => false
                  | _, None => true
                  | Req, Some x => cer_all ft x
                  | Opt, Some x => cer_all ft x && negb (f24c ft x)
                  | Def d, Some x => simple_base (base_of ft) && cer_all ft x && cer_all ft d
                  end) && go fs' (otl vs)
             end) fs vs
      | _ => false
      end
  | TChoice alts =>
      match v with
      | VChoice i x =>
          (fix go (l: list ty) (k: nat) : bool :=
             match l, k with
             | a :: _, O => cer_all a x
             | _ :: r, S k' => go r k'
             | [], _ => false
             end) alts i
      | _ => false
      end
  | TAny => match v with VAny _ => true | _ => false end
  | _ => der_ref_base T v
  end.

Definition cfields_ok : list (presence * ty) -> list (option val) -> bool :=
  fix go (fs: list (presence * ty)) (vs: list (option val)) : bool :=
    match fs with
    | [] => true
    | (p, ft) :: fs' =>
        (match p, ohd vs with
         | Req, None => false
         | _, None => true
         | Req, Some x => cer_all ft x
         | Opt, Some x => cer_all ft x && negb (f24c ft x)
         | Def d, Some x => simple_base (base_of ft) && cer_all ft x && cer_all ft d
         end) && go fs' (otl vs)
    end.

Lemma cer_all_seq fs vs : cer_all (TSeq fs) (VRec vs) = cfields_ok fs vs. Proof. reflexivity. Qed.
Lemma cer_all_set fs vs : cer_all (TSet fs) (VRec vs) = cset_keys_ok fs vs && cfields_ok fs vs. Proof. reflexivity. Qed.
Lemma cfields_ok_cons p ft fs' vs :
  cfields_ok ((p, ft) :: fs') vs =
  (match p, ohd vs with
   | Req, None => false
   | _, None => true
   | Req, Some x => cer_all ft x
   | Opt, Some x => cer_all ft x && negb (f24c ft x)
   | Def d, Some x => simple_base (base_of ft) && cer_all ft x && cer_all ft d
   end) && cfields_ok fs' (otl vs).
Proof. reflexivity. Qed.

Lemma cer_all_choice alts i x :
  cer_all (TChoice alts) (VChoice i x) = match nth_error alts i with Some a => cer_all a x | None => false end.
Proof.
  cbn [cer_all]. revert i. induction alts as [|a r IH]; intros [|i]; try reflexivity. cbn [nth_error]. apply IH.
Qed.

(* the conditions on the stack of tags *)
Fixpoint cer_wrap_ok (T: ty) : bool :=
  match T with
  | TImp _ x => negb (bare x) && cer_wrap_ok x
  | TExp _ x => indef_base (base_of x) && cer_wrap_ok x
  | _ => true
  end.

Lemma cer_all_base : forall T v, cer_all T v = cer_wrap_ok T && cer_all (base_of T) v.
Proof.
  induction T as [| | | | | | | | n|fs IH|fs IH|t IH|t IH|alts IH| |tg x IH|tg x IH] using ty_ind'; intros v; try reflexivity.
  - cbn [cer_all cer_wrap_ok base_of]. rewrite IH, Bool.andb_assoc. reflexivity.
  - cbn [cer_all cer_wrap_ok base_of]. rewrite IH, Bool.andb_assoc. reflexivity.
Qed.

Lemma cer_wrap_imp_ok : forall T, cer_wrap_ok T = true -> imp_ok T = true.
Proof.
  induction T as [| | | | | | | | n|fs IH|fs IH|t IH|t IH|alts IH| |tg x IH|tg x IH] using ty_ind'; intros H; try reflexivity.
  - cbn [cer_wrap_ok imp_ok] in *. apply andb_true_iff in H. destruct H as [A B]. rewrite A, (IH B). reflexivity.
  - cbn [cer_wrap_ok imp_ok] in *. apply andb_true_iff in H. destruct H as [A B]. exact (IH B).
Qed.

Lemma cer_wrap_no_f01 : forall T, cer_wrap_ok T = true -> no_f01 T = true.
Proof.
  unfold no_f01.
  induction T as [| | | | | | | | n|fs IH|fs IH|t IH|t IH|alts IH| |tg x IH|tg x IH] using ty_ind'; intros H;
    try (apply Bool.orb_true_r).
  - cbn [cer_wrap_ok base_of no_exp] in *. apply andb_true_iff in H. destruct H as [A B]. exact (IH B).
  - cbn [cer_wrap_ok base_of no_exp] in *. apply andb_true_iff in H. destruct H as [A B]. rewrite A. reflexivity.
Qed.

Lemma cer_all_simple_val T v : simple_base (base_of T) = true -> cer_all T v = true ->
  der_ref_val T v = true /\ no_f01 T = true.
Proof.
  intros Hs H. rewrite cer_all_base in H. apply andb_true_iff in H. destruct H as [Hw Hb].
  split; [|apply cer_wrap_no_f01; exact Hw]. unfold der_ref_val.
  destruct (base_of T); try discriminate Hs; exact Hb.
Qed.

(* ---- the loops ---- *)

Definition cparts : list (presence * ty) -> list (option val) -> res (list (tagset * bytes)) :=
  fix go (fs: list (presence * ty)) (vs: list (option val)) : res (list (tagset * bytes)) :=
    match fs with
    | [] => Ok []
    | (p, ft) :: fs' =>
        let ov := match vs with x :: _ => x | [] => None end in
        let vs' := match vs with _ :: r => r | [] => [] end in
        let o' := mkOpts false 1000 (match p with Opt => true | _ => false end) in
        let emit (x: val) := do b <- enc CER ft o' x; do rest <- go fs' vs';
                             Ok ((set_sort_key false ft x, b) :: rest) in
        match p, ov with
        | Opt, None => go fs' vs'
        | Def d, None => go fs' vs'
        | Def d, Some x => match val_py_eq x d with
                           | Some true => go fs' vs'
                           | Some false => emit x
                           | None => Err EUnmodelled end
        | Req, None => if all_optional_container ft then emit (VRec []) else Err EMalformed
        | _, Some x => emit x
        end
    end.

Lemma enc_content_seq_cer fs vs :
  enc_content CER (TSeq fs) EcSeq (mkEncFlags true false true None 0 0) cer_opts (VRec vs) =
  (do parts <- cparts fs vs; Ok (concat (map snd parts), true)).
Proof. reflexivity. Qed.

Lemma enc_content_set_cer fs fl vs :
  enc_content CER (TSet fs) EcSetCer fl cer_opts (VRec vs) =
  (do parts <- cparts fs vs; Ok (concat (map snd (sort_by tagset_ltb fst parts)), true)).
Proof. reflexivity. Qed.

Lemma cparts_cons p ft fs' vs :
  cparts ((p, ft) :: fs') vs =
  let emit (x: val) := do b <- enc CER ft (mkOpts false 1000 (match p with Opt => true | _ => false end)) x;
                       do rest <- cparts fs' (otl vs);
                       Ok ((smallest_outer ft, b) :: rest) in
  match p, ohd vs with
  | Opt, None => cparts fs' (otl vs)
  | Def d, None => cparts fs' (otl vs)
  | Def d, Some x => match val_py_eq x d with
                     | Some true => cparts fs' (otl vs)
                     | Some false => emit x
                     | None => Err EUnmodelled end
  | Req, None => if all_optional_container ft then emit (VRec []) else Err EMalformed
  | _, Some x => emit x
  end.
Proof. reflexivity. Qed.

Definition celems (t: ty) : list val -> res (list bytes) :=
  fix go (xs: list val) : res (list bytes) :=
    match xs with
    | [] => Ok []
    | x :: r => do p <- enc CER t cer_opts x; do ps <- go r; Ok (p :: ps)
    end.

Lemma enc_content_seqof_cer t fl xs :
  enc_content CER (TSeqOf t) EcSeqOfCer fl cer_opts (VList xs) = (do parts <- celems t xs; Ok (concat parts, true)).
Proof. reflexivity. Qed.
Lemma enc_content_setof_cer t fl xs :
  enc_content CER (TSetOf t) EcSetOfCer fl cer_opts (VList xs) = (do parts <- celems t xs; Ok (concat (sort_setof parts), true)).
Proof. reflexivity. Qed.

(* ====================================================================== *)
(* 5. the induction                                                        *)
(* ====================================================================== *)

Definition Pcer (T: ty) : Prop := forall i v b,
  cer_all T v = true -> (i = false \/ f24c T v = false) ->
  enc CER T (mkOpts false 1000 i) v = Ok b -> cer T v = Some b.

Definition Qcer (B: ty) : Prop := forall v cd fl content ic,
  cer_all B v = true -> concrete_encoder CER B = Ok (cd, fl) ->
  enc_content CER B cd fl cer_opts v = Ok (content, ic) ->
  ic = true /\ ef_indef fl = true /\
  exists tsb, tagset_of B = Ok tsb /\ Forall (fun t => tcon t = true) tsb /\
              canon true B v = Some (cwrap true tsb content) /\ (content = [] -> f24c_base B v = true).

Theorem Pcer_of_Q T : Qcer (base_of T) -> Pcer T.
Proof.
  intros HQ i v b Hd Hi He. rewrite cer_all_base in Hd. apply andb_true_iff in Hd. destruct Hd as [Hw Hdb].
  pose proof (cer_wrap_imp_ok T Hw) as Himp.
  rewrite enc_cer_unfold in He.
  destruct (concrete_encoder CER T) as [[cd fl]|] eqn:Ece; cbn [bind fst snd] in He; [|discriminate He].
  destruct (tagset_of T) as [ts|] eqn:Ets; cbn [bind] in He; [|discriminate He].
  destruct (enc_content CER T cd fl cer_opts v) as [[content ic]|] eqn:Ec; cbn [bind fst snd] in He; [|discriminate He].
  rewrite concrete_encoder_base in Ece. rewrite enc_content_base in Ec.
  destruct (HQ v cd fl content ic Hdb Ece Ec) as (-> & Hfl & tsb & Htsb & Hcons & Hcan & Hf24).
  rewrite Hfl in He.
  pose proof (tagset_all_cons2 T tsb ts Himp Htsb Hcons Ets) as Hall.
  unfold cer. rewrite (canon_wrappers_c T v true content tsb Himp Htsb Hcan ts Ets). f_equal. symmetry.
  destruct ts as [|t1 r1].
  - cbn [frame] in He. apply ok_inj in He. symmetry. exact He.
  - apply (frame_cwrap (t1 :: r1) content i b Hall); [|exact He].
    destruct Hi as [Hi|Hi]; [left; exact Hi|]. right. intros ->.
    assert (Hnb: bare T = false).
    { destruct (bare T) eqn:Eb; [|reflexivity]. rewrite (bare_tagset T Eb) in Ets. discriminate Ets. }
    unfold f24c in Hi. rewrite Hnb, (Hf24 eq_refl) in Hi. discriminate Hi.
Qed.

Theorem Pcer_simple T : simple_base (base_of T) = true -> Pcer T.
Proof.
  intros Hs i v b Hd _ He. destruct (cer_all_simple_val T v Hs Hd) as [Hv Hf].
  assert (He': enc CER T (mkOpts false 1000 false) v = Ok b).
  { destruct i; [rewrite <- (cer_simple_ifne T v Hv)|]; exact He. }
  exact (cer_is_reference_simple T v false 1000 b Hv Hf He').
Qed.

Lemma cfields_sound : forall fs, Forall (fun f => Pcer (snd f)) fs ->
  forall vs parts, cfields_ok fs vs = true -> cparts fs vs = Ok parts ->
  canon_fields true fs vs = Some (map snd parts) /\
  (forallb keyable (cpresent fs vs) = true ->
   canon_set_fields true fs vs = Some (map (fun p => (tkey (fst p), snd p)) parts)).
Proof.
  induction fs as [|[p ft] fs' IH]; intros Hall vs parts Hd Hp.
  - cbn in Hp. injection Hp as <-. split; [reflexivity|intros _; reflexivity].
  - inversion Hall as [|? ? Hft Hall']; subst. cbn [snd] in Hft. specialize (IH Hall').
    rewrite cfields_ok_cons in Hd. apply andb_true_iff in Hd. destruct Hd as [Hd1 Hd2].
    rewrite cparts_cons in Hp. rewrite canon_fields_cons, canon_set_fields_cons. cbv zeta in Hp. cbv zeta. cbn [cpresent].
    assert (Hemit: forall i x, cer_all ft x = true -> (i = false \/ f24c ft x = false) ->
              (do b <- enc CER ft (mkOpts false 1000 i) x; do rest <- cparts fs' (otl vs);
               Ok ((smallest_outer ft, b) :: rest)) = Ok parts ->
              opt_bind (canon true ft x) (fun e => opt_bind (canon_fields true fs' (otl vs)) (fun r => Some (e :: r)))
              = Some (map snd parts) /\
              (forallb keyable (ft :: cpresent fs' (otl vs)) = true ->
               opt_bind (canon true ft x) (fun e => opt_bind (canon_set_fields true fs' (otl vs))
                  (fun r => Some ((min_first_tag ft, e) :: r)))
               = Some (map (fun p => (tkey (fst p), snd p)) parts))).
    { intros i x Hx Hi H.
      destruct (enc CER ft (mkOpts false 1000 i) x) as [b0|] eqn:Eb; cbn [bind] in H; [|discriminate H].
      destruct (cparts fs' (otl vs)) as [rest|] eqn:Er; cbn [bind] in H; [|discriminate H].
      injection H as <-.
      pose proof (Hft i x b0 Hx Hi Eb) as Hc. unfold cer in Hc.
      destruct (IH (otl vs) rest Hd2 Er) as [IH1 IH2].
      split; [rewrite Hc, IH1; reflexivity|].
      intros Hk. cbn [forallb] in Hk. apply andb_true_iff in Hk. destruct Hk as [Hk1 Hk2].
      rewrite Hc, (IH2 Hk2). cbn [opt_bind map fst snd]. destruct (key_agree ft Hk1) as [_ ->]. reflexivity. }
    assert (Hskip: forall (A: Type) (a b: option A) t0, (forallb keyable (cpresent fs' (otl vs)) = true -> a = b) ->
              forallb keyable (t0 :: cpresent fs' (otl vs)) = true -> a = b).
    { intros A a b t0 H Hk. cbn [forallb] in Hk. apply andb_true_iff in Hk. apply H. tauto. }
    destruct p as [| |d]; destruct (ohd vs) as [x|].
    + apply (Hemit false x Hd1); [left; reflexivity|exact Hp].
    + discriminate Hd1.
    + apply andb_true_iff in Hd1. destruct Hd1 as [Hx Hf]. apply Bool.negb_true_iff in Hf.
      apply (Hemit true x Hx); [right; exact Hf|exact Hp].
    + apply IH; assumption.
    + apply andb_true_iff in Hd1. destruct Hd1 as [Hd1 Hdd]. apply andb_true_iff in Hd1. destruct Hd1 as [Hs Hx].
      assert (Hxr: der_ref_deep ft x = true /\ der_ref_deep ft d = true).
      { destruct (cer_all_simple_val ft x Hs Hx) as [A _]. destruct (cer_all_simple_val ft d Hs Hdd) as [B _].
        rewrite !(deep_simple ft _ Hs). split; assumption. }
      destruct Hxr as [Hxr Hdr].
      destruct (val_py_eq x d) as [[|]|] eqn:Eq; [| |discriminate Hp].
      * rewrite (py_eq_is_default ft x d true Hs Hxr Hdr Eq). destruct (IH (otl vs) parts Hd2 Hp) as [I1 I2].
        split; [exact I1|]. apply (Hskip _ _ _ ft I2).
      * rewrite (py_eq_is_default ft x d false Hs Hxr Hdr Eq). apply (Hemit false x Hx); [left; reflexivity|exact Hp].
    + apply IH; assumption.
Qed.

Lemma cparts_keys : forall fs vs parts, cfields_ok fs vs = true -> cparts fs vs = Ok parts ->
  (forall Q, forallb Q (map smallest_outer (cpresent fs vs)) = true -> forallb Q (map fst parts) = true) /\
  (pairwise_ord (map smallest_outer (cpresent fs vs)) = true -> pairwise_ord (map fst parts) = true).
Proof.
  induction fs as [|[p ft] fs' IH]; intros vs parts Hd Hp.
  - cbn in Hp. injection Hp as <-. split; [intros Q _; reflexivity|intros _; reflexivity].
  - rewrite cfields_ok_cons in Hd. apply andb_true_iff in Hd. destruct Hd as [Hd1 Hd2].
    rewrite cparts_cons in Hp. cbv zeta in Hp. cbn [cpresent].
    assert (Hemit: forall i x,
              (do b <- enc CER ft (mkOpts false 1000 i) x; do rest <- cparts fs' (otl vs);
               Ok ((smallest_outer ft, b) :: rest)) = Ok parts ->
              (forall Q, forallb Q (map smallest_outer (ft :: cpresent fs' (otl vs))) = true -> forallb Q (map fst parts) = true) /\
              (pairwise_ord (map smallest_outer (ft :: cpresent fs' (otl vs))) = true -> pairwise_ord (map fst parts) = true)).
    { intros i x H.
      destruct (enc CER ft (mkOpts false 1000 i) x) as [b0|]; cbn [bind] in H; [|discriminate H].
      destruct (cparts fs' (otl vs)) as [rest|] eqn:Er; cbn [bind] in H; [|discriminate H].
      injection H as <-. destruct (IH (otl vs) rest Hd2 Er) as [IH1 IH2].
      cbn [map fst]. split.
      - intros Q HQ. cbn [forallb] in *. apply andb_true_iff in HQ. destruct HQ as [H1 H2]. rewrite H1, (IH1 Q H2). reflexivity.
      - intros HP. cbn [pairwise_ord] in *. apply andb_true_iff in HP. destruct HP as [H1 H2].
        rewrite (IH1 _ H1), (IH2 H2). reflexivity. }
    assert (Hskip: cparts fs' (otl vs) = Ok parts ->
              (forall Q, forallb Q (map smallest_outer (ft :: cpresent fs' (otl vs))) = true -> forallb Q (map fst parts) = true) /\
              (pairwise_ord (map smallest_outer (ft :: cpresent fs' (otl vs))) = true -> pairwise_ord (map fst parts) = true)).
    { intros H. destruct (IH (otl vs) parts Hd2 H) as [IH1 IH2]. split.
      - intros Q HQ. cbn [map forallb] in HQ. apply andb_true_iff in HQ. apply IH1. tauto.
      - intros HP. cbn [map pairwise_ord] in HP. apply andb_true_iff in HP. apply IH2. tauto. }
    destruct p as [| |d]; destruct (ohd vs) as [x|].
    + apply (Hemit false x Hp).
    + discriminate Hd1.
    + apply (Hemit true x Hp).
    + apply IH; assumption.
    + destruct (val_py_eq x d) as [[|]|]; [apply Hskip; exact Hp|apply (Hemit false x Hp)|discriminate Hp].
    + apply IH; assumption.
Qed.

Lemma celems_sound t : Pcer t ->
  forall xs parts, forallb (cer_all t) xs = true -> celems t xs = Ok parts ->
  opt_all (map (canon true t) xs) = Some parts.
Proof.
  intros Ht. induction xs as [|x r IH]; intros parts Hd Hp.
  - cbn in Hp. injection Hp as <-. reflexivity.
  - cbn [forallb] in Hd. apply andb_true_iff in Hd. destruct Hd as [Hx Hr].
    change (celems t (x :: r)) with (do p <- enc CER t cer_opts x; do ps <- celems t r; Ok (p :: ps)) in Hp.
    destruct (enc CER t cer_opts x) as [b0|] eqn:Eb; cbn [bind] in Hp; [|discriminate Hp].
    destruct (celems t r) as [ps|] eqn:Er; cbn [bind] in Hp; [|discriminate Hp].
    injection Hp as <-.
    pose proof (Ht false x b0 Hx (or_introl eq_refl) Eb) as Hc. unfold cer in Hc.
    cbn [map opt_all]. rewrite Hc, (IH ps Hr eq_refl). reflexivity.
Qed.

Lemma opt_all_hd_map (f: val -> option bytes) : forall xs es, opt_all (map f xs) = Some es ->
  map (fun x => match f x with Some e => e | None => [] end) xs = es.
Proof.
  induction xs as [|x r IH]; intros es H.
  - cbn in H. injection H as <-. reflexivity.
  - cbn [map opt_all] in H. destruct (f x) as [e|] eqn:E; [|discriminate H].
    destruct (opt_all (map f r)) as [es'|] eqn:Er; cbn [opt_bind] in H; [|discriminate H]. injection H as <-.
    cbn [map]. rewrite E, (IH es' eq_refl). reflexivity.
Qed.

Lemma keyable_singles l : forallb keyable l = true -> forallb single (map smallest_outer l) = true.
Proof.
  induction l as [|a l IH]; [reflexivity|]. cbn [forallb map]. intros H. apply andb_true_iff in H. destruct H as [A B].
  destruct (key_agree a A) as [-> _]. rewrite (IH B). reflexivity.
Qed.

Lemma cempty16 : cwrap true [utag true 16] [] = [48; 128; 0; 0]. Proof. reflexivity. Qed.
Lemma cempty17 : cwrap true [utag true 17] [] = [49; 128; 0; 0]. Proof. reflexivity. Qed.

Definition Rcer (T: ty) : Prop := forall T', base_of T' = base_of T -> Pcer T'.

Theorem Rcer_all : forall T, Rcer T.
Proof.
  induction T as [| | | | | | | | n|fs IH|fs IH|t IH|t IH|alts IH| |tg x IH|tg x IH] using ty_ind'.
  16: { exact IH. }
  16: { exact IH. }
  1-9: (intros T' Hb; apply Pcer_simple; rewrite Hb; reflexivity).
  all: intros T' Hb; apply Pcer_of_Q; rewrite Hb; cbn [base_of]; intros v cd fl content ic Hd Hce He.
  - (* SEQUENCE *)
    destruct v as [bb|z|bs|bo|cs| |arcs|r|vs|xs|i x|ab]; try discriminate Hd.
    rewrite cer_all_seq in Hd. encoder_is Hce. rewrite enc_content_seq_cer in He.
    destruct (cparts fs vs) as [parts|] eqn:Ep; cbn [bind] in He; [|discriminate He].
    injection He as <- <-.
    assert (HP: Forall (fun f => Pcer (snd f)) fs).
    { apply Forall_forall. intros f Hf. rewrite Forall_forall in IH. apply (IH f Hf). reflexivity. }
    destruct (cfields_sound fs HP vs parts Hd Ep) as [Hc _].
    assert (Hcan: canon true (TSeq fs) (VRec vs) = Some (cwrap true [utag true 16] (concat (map snd parts)))).
    { rewrite canon_seq, Hc. reflexivity. }
    split; [reflexivity|split; [reflexivity|]].
    exists [utag true 16]. split; [reflexivity|split; [constructor; [reflexivity|constructor]|split; [exact Hcan|]]].
    intros E. unfold f24c_base, cer. rewrite Hcan, E. reflexivity.
  - (* SET *)
    destruct v as [bb|z|bs|bo|cs| |arcs|r|vs|xs|i x|ab]; try discriminate Hd.
    rewrite cer_all_set in Hd. apply andb_true_iff in Hd. destruct Hd as [Hk Hd].
    unfold cset_keys_ok in Hk. apply andb_true_iff in Hk. destruct Hk as [Hk1 Hk2].
    encoder_is Hce. rewrite enc_content_set_cer in He.
    destruct (cparts fs vs) as [parts|] eqn:Ep; cbn [bind] in He; [|discriminate He].
    injection He as <- <-.
    assert (HP: Forall (fun f => Pcer (snd f)) fs).
    { apply Forall_forall. intros f Hf. rewrite Forall_forall in IH. apply (IH f Hf). reflexivity. }
    destruct (cfields_sound fs HP vs parts Hd Ep) as [_ Hes]. specialize (Hes Hk1).
    destruct (cparts_keys fs vs parts Hd Ep) as [Hq1 Hq2].
    pose proof (Hq1 single (keyable_singles _ Hk1)) as Hsing. pose proof (Hq2 Hk2) as Hord.
    assert (Hcan: canon true (TSet fs) (VRec vs)
                  = Some (cwrap true [utag true 17] (concat (map snd (sort_by tagset_ltb fst parts))))).
    { rewrite canon_set, Hes. cbn [opt_bind]. rewrite (set_sort_is_reference parts Hsing Hord). reflexivity. }
    split; [reflexivity|split; [reflexivity|]].
    exists [utag true 17]. split; [reflexivity|split; [constructor; [reflexivity|constructor]|split; [exact Hcan|]]].
    intros E. unfold f24c_base, cer. rewrite Hcan, E. reflexivity.
  - (* SEQUENCE OF *)
    destruct v as [bb|z|bs|bo|cs| |arcs|r|vs|xs|i x|ab]; try discriminate Hd. cbn [cer_all] in Hd.
    encoder_is Hce. rewrite enc_content_seqof_cer in He.
    destruct (celems t xs) as [parts|] eqn:Ep; cbn [bind] in He; [|discriminate He].
    injection He as <- <-.
    assert (Hcan: canon true (TSeqOf t) (VList xs) = Some (cwrap true [utag true 16] (concat parts))).
    { rewrite canon_seqof, (celems_sound t (IH t eq_refl) xs parts Hd Ep). reflexivity. }
    split; [reflexivity|split; [reflexivity|]].
    exists [utag true 16]. split; [reflexivity|split; [constructor; [reflexivity|constructor]|split; [exact Hcan|]]].
    intros E. unfold f24c_base, cer. rewrite Hcan, E. reflexivity.
  - (* SET OF *)
    destruct v as [bb|z|bs|bo|cs| |arcs|r|vs|xs|i x|ab]; try discriminate Hd. cbn [cer_all] in Hd.
    apply andb_true_iff in Hd. destruct Hd as [Hd1 Hd2].
    encoder_is Hce. rewrite enc_content_setof_cer in He.
    destruct (celems t xs) as [parts|] eqn:Ep; cbn [bind] in He; [|discriminate He].
    injection He as <- <-.
    pose proof (celems_sound t (IH t eq_refl) xs parts Hd1 Ep) as Hes.
    unfold cer in Hd2. rewrite (opt_all_hd_map (canon true t) xs parts Hes) in Hd2.
    assert (Hcan: canon true (TSetOf t) (VList xs) = Some (cwrap true [utag true 17] (concat (sort_setof parts)))).
    { rewrite canon_setof, Hes. cbn [opt_bind].
      rewrite (sort_setof_is_reference parts (ties_ok_pad_distinct parts Hd2)). reflexivity. }
    split; [reflexivity|split; [reflexivity|]].
    exists [utag true 17]. split; [reflexivity|split; [constructor; [reflexivity|constructor]|split; [exact Hcan|]]].
    intros E. unfold f24c_base, cer. rewrite Hcan, E. reflexivity.
  - (* CHOICE *)
    destruct v as [bb|z|bs|bo|cs| |arcs|r|vs|xs|i x|ab]; try discriminate Hd.
    rewrite cer_all_choice in Hd. encoder_is Hce. rewrite enc_content_choice in He.
    destruct (nth_error alts i) as [a|] eqn:Ea; [|discriminate Hd].
    unfold encw in He. change (enc_with CER (enc_content CER) a cer_opts x) with (enc CER a cer_opts x) in He.
    destruct (enc CER a cer_opts x) as [p|] eqn:Ep; cbn [bind] in He; [|discriminate He].
    injection He as <- <-.
    rewrite Forall_forall in IH. pose proof (IH a (nth_error_In _ _ Ea) a eq_refl) as Pa.
    pose proof (Pa false x p Hd (or_introl eq_refl) Ep) as Hc. unfold cer in Hc.
    assert (Hcan: canon true (TChoice alts) (VChoice i x) = Some p) by (rewrite canon_choice, Ea; exact Hc).
    split; [reflexivity|split; [reflexivity|]].
    exists []. split; [reflexivity|split; [constructor|split; [exact Hcan|]]].
    intros E. unfold f24c_base, cer. rewrite Hcan, E. reflexivity.
  - (* ANY *)
    destruct v as [bb|z|bs|bo|cs| |arcs|r|vs|xs|i x|ab]; try discriminate Hd.
    encoder_is Hce. cbn [enc_content octets_of o_def cer_opts negb] in He. injection He as <- <-.
    split; [reflexivity|split; [reflexivity|]].
    exists []. split; [reflexivity|split; [constructor|split; [reflexivity|]]].
    intros E. unfold f24c_base, cer. cbn [canon]. rewrite E. reflexivity.
Qed.

(* Soundness of the CER encoder against the reference, whole universe, any mode asked for *)
Theorem cer_is_reference_all : forall T v d k b,
  cer_all T v = true -> encode CER d k T v = Ok b -> X690.cer T v = Some b.
Proof.
  intros T v d k b Hd He. unfold encode in He. rewrite enc_cer_unfold in He.
  rewrite <- (enc_cer_unfold T false 1000 false v) in He.
  exact (Rcer_all T T eq_refl false v b Hd (or_introl eq_refl) He).
Qed.

(* ====================================================================== *)
(* 6. witnesses                                                            *)
(* ====================================================================== *)

(* the type of Proofs/DerReference2.v der_is_reference_all_witness under CER, called with defMode = true and
   maxChunkSize = 7 (both overridden): every constructed encoding indefinite, the SET in the order of the
   smallest tags of the component types (the CHOICE { OCTET STRING, [0], [5] } by UNIVERSAL 4 although [5]
   is chosen), the SET OF in the order of the padded member encodings *)
Example cer_is_reference_all_witness :
  let T := TExp (mkTag Appl false 1) (TSet [
     (Req, TImp (mkTag Ctx false 1) TInt);
     (Req, TChoice [TOcts; TImp (mkTag Ctx false 0) TBool; TExp (mkTag Ctx false 5) (TChoice [TNull; TAny])]);
     (Opt, TSetOf (TChoice [TInt; TStr 12; TAny]));
     (Def (VInt 7), TInt);
     (Opt, TExp (mkTag Priv false 2) TAny);
     (Req, TSeq [(Opt, TSeqOf TBool); (Req, TSetOf TNull)])]) in
  let v := VRec [Some (VInt 1);
     Some (VChoice 2 (VChoice 1 (VAny [4;1;9])));
     Some (VList [VChoice 1 (VOcts [104;105]); VChoice 0 (VInt 300); VChoice 2 (VAny [1;1;0]); VChoice 0 (VInt 3)]);
     Some (VInt 8); Some (VAny [5;0]);
     Some (VRec [Some (VList [VBool true]); Some (VList [])])] in
  let b := [97; 128; 49; 128; 2; 1; 8; 165; 128; 4; 1; 9; 0; 0; 48; 128; 48;
            128; 1; 1; 255; 0; 0; 49; 128; 0; 0; 0; 0; 49; 128; 1; 1; 0; 2; 1;
            3; 2; 2; 1; 44; 12; 2; 104; 105; 0; 0; 129; 1; 1; 226; 128; 5; 0;
            0; 0; 0; 0; 0; 0] in
  cer_all T v = true /\ encode CER true 7 T v = Ok b /\ cer T v = Some b.
Proof. vm_compute. repeat split. Qed.

(* SET OF whose members are themselves indefinite-length encodings; a 1001-octet string segmented
   inside a SEQUENCE OF *)
Example cer_is_reference_all_witness_nested :
  (let T := TSetOf (TSeqOf TInt) in let v := VList [VList [VInt 2]; VList []; VList [VInt 1; VInt 5]] in
   let b := [49; 128; 48; 128; 0; 0; 48; 128; 2; 1; 1; 2; 1; 5; 0; 0; 48; 128; 2; 1; 2; 0; 0; 0; 0] in
   cer_all T v = true /\ encode CER false 0 T v = Ok b /\ cer T v = Some b) /\
  (let T := TSeqOf TOcts in let v := VList [VOcts (repeat 65 1001%nat)] in
   cer_all T v = true /\ exists b, encode CER true 0 T v = Ok b /\ cer T v = Some b /\ length b = 1015%nat).
Proof.
  split; [vm_compute; repeat split|]. cbv zeta. split; [vm_compute; reflexivity|].
  eexists. split; [vm_compute; reflexivity|]. split; vm_compute; reflexivity.
Qed.

(* SET under CER, a CHOICE component: placed by the smallest tag of the CHOICE type on both sides (9.3),
   where DER (10.3) places it by the tag chosen *)
Example cer_set_choice_component :
  let T := TSet [(Req, TChoice [TOcts; TBool]); (Req, TInt)] in let v := VRec [Some (VChoice 0 (VOcts [9])); Some (VInt 1)] in
  cer_all T v = true /\ encode CER true 0 T v = Ok [49; 128; 4; 1; 9; 2; 1; 1; 0; 0] /\ cer T v = Some [49; 128; 4; 1; 9; 2; 1; 1; 0; 0]
  /\ encode DER true 0 T v = Ok [49; 6; 2; 1; 1; 4; 1; 9] /\ der T v = Some [49; 6; 2; 1; 1; 4; 1; 9].
Proof. vm_compute. repeat split. Qed.

(* ---- disagreements, each outside cer_all ---- *)

(* finding F01 inside a container: [1] EXPLICIT BOOLEAN keeps a definite length and still gets 00 00 *)
Example cer_disagree_F01_component :
  let T := TSeq [(Req, TExp (mkTag Ctx false 1) TBool); (Req, TInt)] in let v := VRec [Some (VBool true); Some (VInt 5)] in
  encode CER true 0 T v = Ok [48; 128; 161; 3; 1; 1; 255; 0; 0; 2; 1; 5; 0; 0] /\
  cer T v = Some [48; 128; 161; 128; 1; 1; 255; 0; 0; 2; 1; 5; 0; 0] /\ cer_all T v = false.
Proof. vm_compute. repeat split. Qed.

(* finding F24 under CER: an empty OPTIONAL SET OF, an [0] EXPLICIT ANY holding no octets *)
Example cer_disagree_F24 :
  (let T := TSeq [(Opt, TSetOf TInt)] in let v := VRec [Some (VList [])] in
   encode CER true 0 T v = Ok [48; 128; 0; 0] /\ cer T v = Some [48; 128; 49; 128; 0; 0; 0; 0] /\ cer_all T v = false) /\
  (let T := TSeq [(Opt, TExp (mkTag Ctx false 0) TAny)] in let v := VRec [Some (VAny [])] in
   encode CER true 0 T v = Ok [48; 128; 0; 0] /\ cer T v = Some [48; 128; 160; 128; 0; 0; 0; 0] /\ cer_all T v = false).
Proof. vm_compute. repeat split. Qed.

(* SET OF under CER with members that the padded comparison cannot tell apart (arbitrary octets in an ANY
   inside an indefinite-length member: 30 80 00 00 against 30 80 00 00 00 00): the library's stable sort
   keeps the order given, the reference's insertion reverses it - the reason for setof_ties_ok *)
Example cer_disagree_setof_ties :
  let T := TSetOf (TSeq [(Req, TAny)]) in let v := VList [VRec [Some (VAny [])]; VRec [Some (VAny [0; 0])]] in
  encode CER true 0 T v = Ok [49; 128; 48; 128; 0; 0; 48; 128; 0; 0; 0; 0; 0; 0] /\
  cer T v = Some [49; 128; 48; 128; 0; 0; 0; 0; 48; 128; 0; 0; 0; 0] /\ cer_all T v = false.
Proof. vm_compute. repeat split. Qed.

Print Assumptions canon_wrappers_c.
Print Assumptions key_agree.
Print Assumptions Rcer_all.
Print Assumptions cer_is_reference_all.

(* ---- setof_ties_ok holds of any members the reference's own parser reads as one TLV each
        (definite or indefinite, to any depth): BER encodings are self-delimiting ---- *)

Lemma pad_distinct_ties_ok es : pad_distinct es -> setof_ties_ok es = true.
Proof.
  intros Hp. unfold setof_ties_ok.
  apply forallb_forall. intros a Ha. apply forallb_forall. intros b Hb.
  destruct (bytes_eqb (pad_to _ a) (pad_to _ b)) eqn:E; [|reflexivity]. cbn [implb].
  apply bytes_eqb_eq in E. rewrite (Hp a b Ha Hb E). apply bytes_eqb_refl.
Qed.

Theorem parsed_members_ties_ok es : Forall (fun e => exists n, parses e n) es -> setof_ties_ok es = true.
Proof.
  intros H. apply pad_distinct_ties_ok. intros a b Ha Hb E. rewrite Forall_forall in H.
  destruct (H a Ha) as (na & Hra & Hpa). destruct (H b Hb) as (nb & Hrb & Hpb).
  unfold pad_to in E.
  set (za := repeat 0 (ContainerCodecDefs.max_len es - length a)) in *.
  set (zb := repeat 0 (ContainerCodecDefs.max_len es - length b)) in *.
  pose proof (Hpa (length (a ++ za)) za ltac:(rewrite app_length; lia)) as P1.
  pose proof (Hpb (length (b ++ zb)) zb ltac:(rewrite app_length; lia)) as P2.
  rewrite E in P1. rewrite P1 in P2. injection P2 as -> _. rewrite <- Hra, <- Hrb. reflexivity.
Qed.

Example parsed_members_ties_ok_witness :
  setof_ties_ok [[48; 128; 0; 0]; [48; 128; 2; 1; 1; 2; 1; 5; 0; 0]; [48; 128; 2; 1; 2; 0; 0]] = true.
Proof. vm_compute. reflexivity. Qed.

Print Assumptions parsed_members_ties_ok.

(* The comparison of abstract values aval_eqb (Model/Types.v: SET OF contents compared as multisets,
   at any depth) is symmetric and transitive, and a SET OF value compares equal to any reordering of
   a pointwise-equal one.  Used for the CER/DER encoders, which sort SET OF elements. *)
From Coq Require Import Lia Sorting.Permutation.
From PV Require Import Base.Bytes Model.Tag Model.TableTypes Model.Types.
Local Open Scope N_scope.

(* ---------- generic: list_eqb, opt_eqb, bag_eqb over a partial equivalence on a domain D ---------- *)

Section PER.
  Context {A: Type}.
  Variable eqb : A -> A -> bool.
  Variable D : A -> Prop.
  Notation eqv := (fun a b => eqb a b = true).
  Hypothesis Hsym : forall x y, D x -> D y -> eqb x y = true -> eqb y x = true.
  Hypothesis Htrans : forall x y z, D x -> D y -> D z -> eqb x y = true -> eqb y z = true -> eqb x z = true.

  Lemma list_eqb_F2 : forall l1 l2, list_eqb eqb l1 l2 = true <-> Forall2 eqv l1 l2.
  Proof.
    induction l1 as [|x l1 IH]; intros [|y l2]; cbn [list_eqb]; split; intros H.
    - constructor.
    - reflexivity.
    - discriminate.
    - inversion H.
    - discriminate.
    - inversion H.
    - apply Bool.andb_true_iff in H. destruct H as [H1 H2]. constructor; [exact H1|apply IH; exact H2].
    - inversion H; subst. apply Bool.andb_true_iff. split; [assumption|]. apply IH. assumption.
  Qed.

  Lemma F2_sym : forall l1 l2, Forall D l1 -> Forall D l2 -> Forall2 eqv l1 l2 -> Forall2 eqv l2 l1.
  Proof.
    intros l1 l2 H1 H2 HF. revert H1 H2. induction HF as [|x y l1 l2 Hxy HF IH]; intros H1 H2; [constructor|].
    inversion H1; subst. inversion H2; subst. constructor; [apply Hsym; assumption|apply IH; assumption].
  Qed.

  Lemma F2_trans : forall l1 l2 l3, Forall D l1 -> Forall D l2 -> Forall D l3 ->
    Forall2 eqv l1 l2 -> Forall2 eqv l2 l3 -> Forall2 eqv l1 l3.
  Proof.
    intros l1 l2 l3 H1 H2 H3 HF. revert l3 H1 H2 H3. induction HF as [|x y l1 l2 Hxy HF IH]; intros l3 H1 H2 H3 HG.
    - inversion HG; subst. constructor.
    - inversion HG as [|? z ? l3' Hyz HG']; subst. inversion H1; subst. inversion H2; subst. inversion H3; subst.
      constructor; [eapply (Htrans x y z); assumption|apply IH; assumption].
  Qed.

  Lemma list_eqb_sym_D l1 l2 : Forall D l1 -> Forall D l2 -> list_eqb eqb l1 l2 = true -> list_eqb eqb l2 l1 = true.
  Proof. intros H1 H2 H. apply list_eqb_F2. apply F2_sym; try assumption. apply list_eqb_F2. exact H. Qed.

  Lemma list_eqb_trans_D l1 l2 l3 : Forall D l1 -> Forall D l2 -> Forall D l3 ->
    list_eqb eqb l1 l2 = true -> list_eqb eqb l2 l3 = true -> list_eqb eqb l1 l3 = true.
  Proof.
    intros H1 H2 H3 Ha Hb. apply list_eqb_F2. apply (F2_trans l1 l2 l3); try assumption; apply list_eqb_F2; assumption.
  Qed.

  (* remove_first *)
  Lemma remove_first_spec (f: A -> bool) : forall l r, remove_first f l = Some r ->
    exists y pre post, l = pre ++ y :: post /\ f y = true /\ r = pre ++ post.
  Proof.
    induction l as [|a l IH]; intros r H; cbn [remove_first] in H; [discriminate|].
    destruct (f a) eqn:Ea.
    - injection H as <-. exists a, [], l. repeat split. exact Ea.
    - destruct (remove_first f l) as [r'|] eqn:Er; [|discriminate]. injection H as <-.
      destruct (IH r' eq_refl) as (y & pre & post & -> & Hy & ->).
      exists y, (a :: pre), post. repeat split. exact Hy.
  Qed.

  Lemma remove_first_some (f: A -> bool) : forall l y, In y l -> f y = true ->
    exists y1 pre post, l = pre ++ y1 :: post /\ f y1 = true /\ remove_first f l = Some (pre ++ post).
  Proof.
    induction l as [|a l IH]; intros y Hin Hy; [destruct Hin|]. cbn [remove_first].
    destruct (f a) eqn:Ea.
    - exists a, [], l. repeat split. exact Ea.
    - destruct Hin as [->|Hin]; [congruence|].
      destruct (IH y Hin Hy) as (y1 & pre & post & -> & Hy1 & Hr). rewrite Hr.
      exists y1, (a :: pre), post. repeat split. exact Hy1.
  Qed.

  Lemma bag_eqb_cons x t l2 :
    bag_eqb eqb (x :: t) l2 = match remove_first (eqb x) l2 with Some b' => bag_eqb eqb t b' | None => false end.
  Proof. reflexivity. Qed.

  (* soundness: a successful comparison exhibits a matching *)
  Lemma bag_eqb_sound : forall l1 l2, bag_eqb eqb l1 l2 = true ->
    exists l2', Permutation l2' l2 /\ Forall2 eqv l1 l2'.
  Proof.
    induction l1 as [|x t IH]; intros l2 H.
    - destruct l2; [|discriminate]. exists []. split; constructor.
    - rewrite bag_eqb_cons in H. destruct (remove_first (eqb x) l2) as [r|] eqn:Er; [|discriminate].
      destruct (remove_first_spec _ _ _ Er) as (y & pre & post & -> & Hy & ->).
      destruct (IH _ H) as (l2' & Hp & HF). exists (y :: l2'). split; [|constructor; assumption].
      apply Permutation_cons_app. exact Hp.
  Qed.

  (* completeness: any matching makes the greedy comparison succeed *)
  Lemma bag_eqb_complete : forall l1 l2 l2', Forall D l1 -> Forall D l2 -> Permutation l2' l2 ->
    Forall2 eqv l1 l2' -> bag_eqb eqb l1 l2 = true.
  Proof.
    induction l1 as [|x t IH]; intros l2 l2' H1 H2 Hp HF.
    - inversion HF; subst. apply Permutation_nil in Hp. subst. reflexivity.
    - inversion HF as [|? y ? t' Hxy HF']; subst. inversion H1 as [|? ? Dx Dt]; subst.
      assert (Hin: In y l2) by (eapply Permutation_in; [exact Hp|left; reflexivity]).
      destruct (remove_first_some (eqb x) l2 y Hin Hxy) as (y1 & pre & post & -> & Hy1 & Hr).
      rewrite bag_eqb_cons, Hr.
      assert (D2: Forall D (pre ++ post)).
      { apply Forall_app in H2. destruct H2 as [Ha Hb]. inversion Hb; subst. apply Forall_app. split; assumption. }
      assert (Dy1: D y1) by (apply Forall_app in H2; destruct H2 as [_ Hb]; inversion Hb; assumption).
      assert (Dy: D y) by (rewrite Forall_forall in H2; apply H2; exact Hin).
      assert (Hin1: In y1 (y :: t')).
      { eapply Permutation_in; [apply Permutation_sym; exact Hp|]. apply in_or_app. right. left. reflexivity. }
      destruct Hin1 as [E|Hin1].
      + subst y1. apply (IH (pre ++ post) t' Dt D2); [|exact HF'].
        eapply Permutation_cons_app_inv. exact Hp.
      + destruct (in_split _ _ Hin1) as (a1 & a2 & ->).
        destruct (Forall2_app_inv_r _ _ HF') as (t1 & t2' & HF1 & HF2 & ->).
        inversion HF2 as [|x1 ? t2 ? Hx1 HF2']; subst.
        assert (Dx1: D x1) by (apply Forall_app in Dt; destruct Dt as [_ Hb]; inversion Hb; assumption).
        apply (IH (pre ++ post) (a1 ++ y :: a2) Dt D2).
        * (* y :: a1 ++ y1 :: a2  ~  pre ++ y1 :: post *)
          assert (P1: Permutation (y1 :: y :: a1 ++ a2) (y1 :: pre ++ post)).
          { eapply perm_trans; [|eapply perm_trans; [exact Hp|apply Permutation_sym, Permutation_middle]].
            change (y1 :: y :: a1 ++ a2) with (y1 :: (y :: a1) ++ a2).
            change (y :: a1 ++ y1 :: a2) with ((y :: a1) ++ y1 :: a2). apply Permutation_middle. }
          apply Permutation_cons_inv in P1.
          eapply perm_trans; [apply Permutation_sym, Permutation_middle|exact P1].
        * apply Forall2_app; [exact HF1|]. constructor; [|exact HF2'].
          (* x1 ~ y1 ~ x ~ y *)
          apply (Htrans x1 x y Dx1 Dx Dy); [|exact Hxy].
          apply (Htrans x1 y1 x Dx1 Dy1 Dx Hx1). apply Hsym; assumption.
  Qed.
End PER.

(* a permutation acts by position: it carries any pointwise relation along *)
Lemma perm_positional' {A B} (l1 l1': list A) : Permutation l1 l1' -> forall ys: list B, length ys = length l1 ->
  exists ys', Permutation ys ys' /\ forall P: A -> B -> Prop, Forall2 P l1 ys -> Forall2 P l1' ys'.
Proof.
  induction 1 as [|x l l' Hp IH|x y l|l l' l'' Hp1 IH1 Hp2 IH2]; intros ys Hlen.
  - destruct ys; [|discriminate]. exists []. split; [constructor|]. auto.
  - destruct ys as [|y0 ys]; [discriminate|]. destruct (IH ys ltac:(cbn in Hlen; lia)) as (ys' & Hpy & HP).
    exists (y0 :: ys'). split; [apply perm_skip; exact Hpy|].
    intros P HF. inversion HF; subst. constructor; [assumption|apply HP; assumption].
  - destruct ys as [|y0 [|y1 ys]]; try discriminate. exists (y1 :: y0 :: ys). split; [apply perm_swap|].
    intros P HF. inversion HF as [|? ? ? ? H1 HF']; subst. inversion HF' as [|? ? ? ? H2 HF'']; subst.
    constructor; [assumption|constructor; assumption].
  - destruct (IH1 ys Hlen) as (ys1 & Hpy1 & HP1).
    assert (Hl1: length ys1 = length l').
    { rewrite <- (Permutation_length Hpy1), Hlen. apply Permutation_length. exact Hp1. }
    destruct (IH2 ys1 Hl1) as (ys2 & Hpy2 & HP2).
    exists ys2. split; [eapply perm_trans; eassumption|].
    intros P HF. apply HP2, HP1. exact HF.
Qed.

Lemma F2_len {A B} (P: A -> B -> Prop) l1 l2 : Forall2 P l1 l2 -> length l1 = length l2.
Proof. induction 1; cbn [length]; congruence. Qed.

Section BagPER.
  Context {A: Type}.
  Variable eqb : A -> A -> bool.
  Variable D : A -> Prop.
  Hypothesis Hsym : forall x y, D x -> D y -> eqb x y = true -> eqb y x = true.
  Hypothesis Htrans : forall x y z, D x -> D y -> D z -> eqb x y = true -> eqb y z = true -> eqb x z = true.

  Lemma perm_Forall (l l': list A) : Permutation l l' -> Forall D l -> Forall D l'.
  Proof. intros Hp H. rewrite Forall_forall in *. intros x Hx. apply H. eapply Permutation_in; [apply Permutation_sym; exact Hp|exact Hx]. Qed.

  Lemma bag_eqb_sym_D l1 l2 : Forall D l1 -> Forall D l2 -> bag_eqb eqb l1 l2 = true -> bag_eqb eqb l2 l1 = true.
  Proof.
    intros H1 H2 H. destruct (bag_eqb_sound eqb l1 l2 H) as (l2' & Hp & HF).
    assert (D2': Forall D l2') by (apply (perm_Forall l2 l2'); [apply Permutation_sym; exact Hp|exact H2]).
    pose proof (F2_sym eqb D Hsym l1 l2' H1 D2' HF) as HF'.
    destruct (perm_positional' l2' l2 Hp l1 (eq_sym (F2_len _ _ _ HF'))) as (l1' & Hp1 & HP).
    apply (bag_eqb_complete eqb D Hsym Htrans l2 l1 l1' H2 H1 (Permutation_sym Hp1)). apply HP. exact HF'.
  Qed.

  Lemma bag_eqb_trans_D l1 l2 l3 : Forall D l1 -> Forall D l2 -> Forall D l3 ->
    bag_eqb eqb l1 l2 = true -> bag_eqb eqb l2 l3 = true -> bag_eqb eqb l1 l3 = true.
  Proof.
    intros H1 H2 H3 Ha Hb.
    destruct (bag_eqb_sound eqb l1 l2 Ha) as (l2' & Hp2 & HF12).
    destruct (bag_eqb_sound eqb l2 l3 Hb) as (l3' & Hp3 & HF23).
    assert (D2': Forall D l2') by (apply (perm_Forall l2 l2'); [apply Permutation_sym; exact Hp2|exact H2]).
    assert (D3': Forall D l3') by (apply (perm_Forall l3 l3'); [apply Permutation_sym; exact Hp3|exact H3]).
    destruct (perm_positional' l2 l2' (Permutation_sym Hp2) l3' (eq_sym (F2_len _ _ _ HF23))) as (l3'' & Hp3' & HP).
    assert (D3'': Forall D l3'') by (apply (perm_Forall l3' l3''); assumption).
    apply (bag_eqb_complete eqb D Hsym Htrans l1 l3 l3'' H1 H3).
    - eapply perm_trans; [apply Permutation_sym; exact Hp3'|exact Hp3].
    - apply (F2_trans eqb D Htrans l1 l2' l3'' H1 D2' D3'' HF12). apply HP. exact HF23.
  Qed.

  (* a reordering of a pointwise-equal list is an equal bag *)
  Lemma bag_eqb_perm l1 l1' l2 : Forall D l1 -> Forall D l2 ->
    Forall2 (fun a b => eqb a b = true) l1 l2 -> Permutation l1 l1' -> bag_eqb eqb l1' l2 = true.
  Proof.
    intros H1 H2 HF Hp.
    destruct (perm_positional' l1 l1' Hp l2 (eq_sym (F2_len _ _ _ HF))) as (l2' & Hp2 & HP).
    apply (bag_eqb_complete eqb D Hsym Htrans l1' l2 l2' (perm_Forall l1 l1' Hp H1) H2 (Permutation_sym Hp2)).
    apply HP. exact HF.
  Qed.
End BagPER.

(* ---------- aval_eqb ---------- *)

Fixpoint asize (a: aval) : nat :=
  match a with
  | ARec fs => S (list_sum (map (fun o => match o with Some x => asize x | None => O end) fs))
  | AList xs | ABag xs => S (list_sum (map asize xs))
  | AChoice _ v => S (asize v)
  | _ => 1%nat
  end.

Lemma list_sum_in (f: aval -> nat) l x : In x l -> (f x <= list_sum (map f l))%nat.
Proof. induction l as [|y l IH]; intros H; [destruct H|]. cbn [map]. change (list_sum (f y :: map f l)) with (f y + list_sum (map f l))%nat. destruct H as [->|H]; [lia|specialize (IH H); lia]. Qed.

Lemma list_sum_in_o (f: option aval -> nat) l x : In x l -> (f x <= list_sum (map f l))%nat.
Proof. induction l as [|y l IH]; intros H; [destruct H|]. cbn [map]. change (list_sum (f y :: map f l)) with (f y + list_sum (map f l))%nat. destruct H as [->|H]; [lia|specialize (IH H); lia]. Qed.

Lemma areal_eqb_sym a b : areal_eqb a b = true -> areal_eqb b a = true.
Proof.
  destruct a, b; cbn [areal_eqb]; try discriminate; try reflexivity; intros H;
    apply Bool.andb_true_iff in H; destruct H as [H1 H2]; apply Z.eqb_eq in H1, H2; subst; rewrite !Z.eqb_refl; reflexivity.
Qed.

Lemma areal_eqb_trans a b c : areal_eqb a b = true -> areal_eqb b c = true -> areal_eqb a c = true.
Proof.
  destruct a, b; cbn [areal_eqb]; try discriminate; destruct c; cbn [areal_eqb]; try discriminate; try reflexivity; intros H G;
    apply Bool.andb_true_iff in H; destruct H as [H1 H2]; apply Z.eqb_eq in H1, H2; subst;
    apply Bool.andb_true_iff in G; destruct G as [G1 G2]; apply Z.eqb_eq in G1, G2; subst; rewrite !Z.eqb_refl; reflexivity.
Qed.

Lemma list_eqb_eq {X} (eqb: X -> X -> bool) (Heq: forall x y, eqb x y = true <-> x = y) :
  forall l1 l2, list_eqb eqb l1 l2 = true <-> l1 = l2.
Proof.
  induction l1 as [|x l1 IH]; intros [|y l2]; cbn [list_eqb]; split; intros H; try discriminate; try reflexivity.
  - apply Bool.andb_true_iff in H. destruct H as [H1 H2]. apply Heq in H1. apply IH in H2. congruence.
  - inversion H; subst. apply Bool.andb_true_iff. split; [apply Heq; reflexivity|apply IH; reflexivity].
Qed.

Lemma bool_eqb_eq x y : Bool.eqb x y = true <-> x = y.
Proof. destruct x, y; cbn; split; congruence. Qed.

Definition osize_le (n: nat) (o: option aval) : Prop := match o with Some x => (asize x <= n)%nat | None => True end.

Theorem aval_eqb_per : forall n a b c, (asize a <= n)%nat -> (asize b <= n)%nat -> (asize c <= n)%nat ->
  (aval_eqb a b = true -> aval_eqb b a = true) /\
  (aval_eqb a b = true -> aval_eqb b c = true -> aval_eqb a c = true).
Proof.
  induction n as [|n IH]; intros a b c Ha Hb Hc.
  { destruct a; cbn [asize] in Ha; lia. }
  set (D := fun x => (asize x <= n)%nat).
  assert (Dsym: forall x y, D x -> D y -> aval_eqb x y = true -> aval_eqb y x = true).
  { intros x y Dx Dy. exact (proj1 (IH x y y Dx Dy Dy)). }
  assert (Dtrans: forall x y z, D x -> D y -> D z -> aval_eqb x y = true -> aval_eqb y z = true -> aval_eqb x z = true).
  { intros x y z Dx Dy Dz. exact (proj2 (IH x y z Dx Dy Dz)). }
  set (Do := osize_le n).
  assert (Dosym: forall x y, Do x -> Do y -> opt_eqb aval_eqb x y = true -> opt_eqb aval_eqb y x = true).
  { intros [x|] [y|] Dx Dy; cbn [opt_eqb]; try discriminate; try reflexivity. apply Dsym; assumption. }
  assert (Dotrans: forall x y z, Do x -> Do y -> Do z -> opt_eqb aval_eqb x y = true -> opt_eqb aval_eqb y z = true -> opt_eqb aval_eqb x z = true).
  { intros [x|] [y|] [z|] Dx Dy Dz; cbn [opt_eqb]; try discriminate; try reflexivity. apply Dtrans; assumption. }
  assert (Hel: forall xs, (S (list_sum (map asize xs)) <= S n)%nat -> Forall D xs).
  { intros xs H. apply Forall_forall. intros x Hx. pose proof (list_sum_in asize xs x Hx). unfold D. lia. }
  assert (Helo: forall fs, (S (list_sum (map (fun o => match o with Some x => asize x | None => O end) fs)) <= S n)%nat -> Forall Do fs).
  { intros fs H. apply Forall_forall. intros o Ho.
    pose proof (list_sum_in_o (fun o => match o with Some x => asize x | None => O end) fs o Ho).
    unfold Do, osize_le. destruct o; [lia|exact I]. }
  split.
  - (* symmetry *)
    destruct a, b; cbn [aval_eqb]; try discriminate; try reflexivity; intros H.
    + apply (proj1 (bool_eqb_eq _ _)) in H. subst. apply (proj2 (bool_eqb_eq _ _)). reflexivity.
    + apply Z.eqb_eq in H. subst. apply Z.eqb_refl.
    + apply (list_eqb_eq Bool.eqb bool_eqb_eq) in H. subst. apply (list_eqb_eq Bool.eqb bool_eqb_eq). reflexivity.
    + apply (list_eqb_eq N.eqb N.eqb_eq) in H. subst. apply (list_eqb_eq N.eqb N.eqb_eq). reflexivity.
    + apply (list_eqb_eq N.eqb N.eqb_eq) in H. subst. apply (list_eqb_eq N.eqb N.eqb_eq). reflexivity.
    + apply areal_eqb_sym. exact H.
    + cbn [asize] in Ha, Hb. apply (list_eqb_sym_D (opt_eqb aval_eqb) Do Dosym); [apply Helo; exact Ha|apply Helo; exact Hb|exact H].
    + cbn [asize] in Ha, Hb. apply (list_eqb_sym_D aval_eqb D Dsym); [apply Hel; exact Ha|apply Hel; exact Hb|exact H].
    + cbn [asize] in Ha, Hb. apply (bag_eqb_sym_D aval_eqb D Dsym Dtrans); [apply Hel; exact Ha|apply Hel; exact Hb|exact H].
    + apply Bool.andb_true_iff in H. destruct H as [H1 H2]. apply Nat.eqb_eq in H1. subst.
      rewrite Nat.eqb_refl. cbn [andb]. cbn [asize] in Ha, Hb. apply Dsym; [unfold D; lia|unfold D; lia|exact H2].
    + apply (list_eqb_eq N.eqb N.eqb_eq) in H. subst. apply (list_eqb_eq N.eqb N.eqb_eq). reflexivity.
  - (* transitivity *)
    destruct a, b; cbn [aval_eqb]; try discriminate; intros H; destruct c; cbn [aval_eqb]; try discriminate; try reflexivity; intros G.
    + apply (proj1 (bool_eqb_eq _ _)) in H. apply (proj1 (bool_eqb_eq _ _)) in G. subst. apply (proj2 (bool_eqb_eq _ _)). reflexivity.
    + apply Z.eqb_eq in H. apply Z.eqb_eq in G. subst. apply Z.eqb_refl.
    + apply (list_eqb_eq Bool.eqb bool_eqb_eq) in H. apply (list_eqb_eq Bool.eqb bool_eqb_eq) in G. subst.
      apply (list_eqb_eq Bool.eqb bool_eqb_eq). reflexivity.
    + apply (list_eqb_eq N.eqb N.eqb_eq) in H. apply (list_eqb_eq N.eqb N.eqb_eq) in G. subst. apply (list_eqb_eq N.eqb N.eqb_eq). reflexivity.
    + apply (list_eqb_eq N.eqb N.eqb_eq) in H. apply (list_eqb_eq N.eqb N.eqb_eq) in G. subst. apply (list_eqb_eq N.eqb N.eqb_eq). reflexivity.
    + exact (areal_eqb_trans _ _ _ H G).
    + cbn [asize] in Ha, Hb, Hc. apply (list_eqb_trans_D (opt_eqb aval_eqb) Do Dotrans fs fs0 fs1); try (apply Helo; assumption); assumption.
    + cbn [asize] in Ha, Hb, Hc. apply (list_eqb_trans_D aval_eqb D Dtrans xs xs0 xs1); try (apply Hel; assumption); assumption.
    + cbn [asize] in Ha, Hb, Hc. apply (bag_eqb_trans_D aval_eqb D Dsym Dtrans xs xs0 xs1); try (apply Hel; assumption); assumption.
    + apply Bool.andb_true_iff in H. destruct H as [H1 H2]. apply Nat.eqb_eq in H1. subst.
      apply Bool.andb_true_iff in G. destruct G as [G1 G2]. apply Nat.eqb_eq in G1. subst.
      rewrite Nat.eqb_refl. cbn [andb]. cbn [asize] in Ha, Hb, Hc. apply (Dtrans a b c); try (unfold D; lia); assumption.
    + apply (list_eqb_eq N.eqb N.eqb_eq) in H. apply (list_eqb_eq N.eqb N.eqb_eq) in G. subst. apply (list_eqb_eq N.eqb N.eqb_eq). reflexivity.
Qed.

Theorem aval_eqb_sym a b : aval_eqb a b = true -> aval_eqb b a = true.
Proof.
  exact (proj1 (aval_eqb_per (Nat.max (asize a) (asize b)) a b b ltac:(lia) ltac:(lia) ltac:(lia))).
Qed.

Theorem aval_eqb_trans a b c : aval_eqb a b = true -> aval_eqb b c = true -> aval_eqb a c = true.
Proof.
  exact (proj2 (aval_eqb_per (Nat.max (asize a) (Nat.max (asize b) (asize c))) a b c ltac:(lia) ltac:(lia) ltac:(lia))).
Qed.

(* SET OF contents: any reordering of a pointwise-equal list compares equal *)
Theorem aval_eqb_bag_perm l1 l1' l2 :
  Forall2 (fun a b => aval_eqb a b = true) l1 l2 -> Permutation l1 l1' -> aval_eqb (ABag l1') (ABag l2) = true.
Proof.
  intros HF Hp. cbn [aval_eqb].
  apply (bag_eqb_perm aval_eqb (fun _ => True) (fun x y _ _ => aval_eqb_sym x y) (fun x y z _ _ _ => aval_eqb_trans x y z) l1 l1' l2);
    try assumption; apply Forall_forall; intros; exact I.
Qed.

Print Assumptions aval_eqb_sym.
Print Assumptions aval_eqb_trans.
Print Assumptions aval_eqb_bag_perm.

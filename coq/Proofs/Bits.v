(* Bridging lemmas: Python's >>, <<, &, | on non-negative integers as arithmetic. *)
From Coq Require Import NArith ZArith Lia List Bool.
Import ListNotations.
Local Open Scope N_scope.

Lemma shiftr_div (n k: N) : N.shiftr n k = n / 2 ^ k.
Proof. apply N.shiftr_div_pow2. Qed.

Lemma shiftl_mul (n k: N) : N.shiftl n k = n * 2 ^ k.
Proof. apply N.shiftl_mul_pow2. Qed.

Lemma land_ones_mod (n k: N) : N.land n (2 ^ k - 1) = n mod 2 ^ k.
Proof. rewrite <- N.land_ones. f_equal. rewrite N.ones_equiv, N.pred_sub. reflexivity. Qed.

Lemma testbit_small (m k i: N) : m < 2 ^ k -> k <= i -> N.testbit m i = false.
Proof.
  intros Hm Hi. destruct (N.eq_dec m 0) as [->|Hz]; [apply N.bits_0|].
  apply N.bits_above_log2. apply N.lt_le_trans with k; [|assumption].
  apply N.log2_lt_pow2; [lia|assumption].
Qed.

Lemma land_shiftl_small (q m k: N) : m < 2 ^ k -> N.land (N.shiftl q k) m = 0.
Proof.
  intros Hm. apply N.bits_inj. intros i. rewrite N.land_spec, N.bits_0.
  destruct (N.lt_ge_cases i k) as [Hi|Hi].
  - rewrite N.shiftl_spec_low by assumption. reflexivity.
  - rewrite (testbit_small m k i Hm Hi). apply andb_false_r.
Qed.

Lemma lor_disjoint_add (a b: N) : N.land a b = 0 -> N.lor a b = a + b.
Proof. intros H. rewrite <- N.lxor_lor by assumption. symmetry. apply N.add_nocarry_lxor. assumption. Qed.

Lemma lor_shiftl_small (q m k: N) : m < 2 ^ k -> N.lor (N.shiftl q k) m = q * 2 ^ k + m.
Proof.
  intros Hm. rewrite lor_disjoint_add by (apply land_shiftl_small; assumption).
  rewrite shiftl_mul. reflexivity.
Qed.

(* the instances used by the codec: 7-bit and 8-bit groups *)
Lemma shiftr7 n : N.shiftr n 7 = n / 128. Proof. apply (shiftr_div n 7). Qed.
Lemma shiftr8 n : N.shiftr n 8 = n / 256. Proof. apply (shiftr_div n 8). Qed.
Lemma land127 n : N.land n 127 = n mod 128. Proof. apply (land_ones_mod n 7). Qed.
Lemma land255 n : N.land n 255 = n mod 256. Proof. apply (land_ones_mod n 8). Qed.
Lemma lor_shl7 q m : m < 128 -> N.lor (N.shiftl q 7) m = q * 128 + m.
Proof. apply (lor_shiftl_small q m 7). Qed.
Lemma lor_shl8 q m : m < 256 -> N.lor (N.shiftl q 8) m = q * 256 + m.
Proof. apply (lor_shiftl_small q m 8). Qed.

(* 0x80 | m for a 7-bit m *)
Lemma lor128 m : m < 128 -> N.lor 128 m = 128 + m.
Proof. intros H. change (N.lor (N.shiftl 1 7) m = 1 * 128 + m). apply lor_shl7. assumption. Qed.

Lemma land128_hi m : m < 128 -> N.land (128 + m) 128 = 128.
Proof.
  intros H. apply N.bits_inj. intros i. rewrite N.land_spec.
  destruct (N.eq_dec i 7) as [->|Hi].
  - rewrite <- lor128 by assumption. rewrite N.lor_spec. reflexivity.
  - replace (N.testbit 128 i) with false.
    + apply andb_false_r.
    + symmetry. change 128 with (2 ^ 7). apply N.pow2_bits_false. congruence.
Qed.

Lemma land128_lo m : m < 128 -> N.land m 128 = 0.
Proof.
  intros H. rewrite N.land_comm. change 128 with (N.shiftl 1 7).
  apply land_shiftl_small. assumption.
Qed.

Lemma size_nat_div (n: N) (k: N) : n <> 0 -> 0 < k ->
  (N.size_nat (n / 2 ^ k) < N.size_nat n)%nat.
Proof.
  intros Hn Hk.
  assert (Hs: forall x, N.size_nat x = N.to_nat (N.size x)).
  { destruct x as [|p]; [reflexivity|]. simpl. induction p; simpl; rewrite ?IHp; lia. }
  rewrite !Hs.
  destruct (N.eq_dec (n / 2 ^ k) 0) as [->|Hq].
  - simpl. destruct n; [congruence|]. simpl. lia.
  - assert (N.size (n / 2 ^ k) < N.size n); [|lia].
    rewrite !N.size_log2 by assumption.
    rewrite <- N.shiftr_div_pow2, N.log2_shiftr.
    assert (k <= N.log2 n).
    { destruct (N.le_gt_cases k (N.log2 n)); [assumption|].
      exfalso. apply Hq. apply N.div_small. apply N.log2_lt_pow2; lia. }
    lia.
Qed.

(* The type object a schemaless decode builds carries exactly the tags met on the wire (C16):
   re-encoding it writes the same identifier octets. *)
From Coq Require Import Lia.
From PV Require Import Base.Bytes Model.Tag Model.Types Model.Proc Model.Enc Model.Dec.
Local Open Scope N_scope.

Lemma cls_eqb_refl c : cls_eqb c c = true. Proof. destruct c; reflexivity. Qed.
Lemma tag_eqb_refl t : tag_eqb t t = true.
Proof. unfold tag_eqb. rewrite cls_eqb_refl, N.eqb_refl. reflexivity. Qed.
Lemma tagset_eqb_refl ts : tagset_eqb ts ts = true.
Proof. induction ts as [|t r IH]; [reflexivity|]. cbn. rewrite tag_eqb_refl. exact IH. Qed.

Lemma tagset_eqb_app a b c d : length a = length c ->
  tagset_eqb (a ++ b) (c ++ d) = (tagset_eqb a c && tagset_eqb b d)%bool.
Proof.
  revert c. induction a as [|x a IH]; intros [|y c] H; try discriminate; [reflexivity|].
  cbn. rewrite (IH c) by (cbn in H; lia). rewrite Bool.andb_assoc. reflexivity.
Qed.

Definition non_universal (t: tag) : bool := negb (cls_eqb (tcls t) Univ).

Lemma wrap_explicit_tags : forall outer T ts0,
  forallb non_universal outer = true -> tagset_of T = Ok ts0 ->
  exists ts, tagset_of (wrap_explicit outer T) = Ok ts /\ tagset_eqb ts (ts0 ++ outer) = true.
Proof.
  induction outer as [|t r IH]; intros T ts0 Hnu HT; cbn [wrap_explicit].
  - exists ts0. rewrite app_nil_r. split; [exact HT|apply tagset_eqb_refl].
  - cbn [forallb] in Hnu. apply Bool.andb_true_iff in Hnu. destruct Hnu as [Ht Hr].
    assert (HE: tagset_of (TExp t T) = Ok (ts0 ++ [mkTag (tcls t) true (tnum t)])).
    { cbn [tagset_of]. rewrite HT. cbn [bind]. unfold tag_explicitly.
      unfold non_universal in Ht. destruct (tcls t); try reflexivity. discriminate. }
    destruct (IH (TExp t T) _ Hr HE) as (ts & Hts & Heq).
    exists ts. split; [exact Hts|].
    rewrite <- app_assoc in Heq. cbn [app] in Heq.
    assert (Hsame: tagset_eqb (ts0 ++ mkTag (tcls t) true (tnum t) :: r) (ts0 ++ t :: r) = true).
    { rewrite tagset_eqb_app by reflexivity. rewrite tagset_eqb_refl. cbn.
      unfold tag_eqb at 1. cbn [tcls tnum]. rewrite cls_eqb_refl, N.eqb_refl. cbn. apply tagset_eqb_refl. }
    (* tagset_eqb is an equivalence on (class, number): transitivity through the middle list *)
    clear - Heq Hsame. revert Heq Hsame.
    generalize (ts0 ++ mkTag (tcls t) true (tnum t) :: r) as m, (ts0 ++ t :: r) as l.
    revert ts. induction ts as [|a ts IHts]; intros [|b m] [|c l] H1 H2; try discriminate; [reflexivity|].
    cbn in *. apply Bool.andb_true_iff in H1. destruct H1 as [Hab H1].
    apply Bool.andb_true_iff in H2. destruct H2 as [Hbc H2].
    rewrite (IHts m l H1 H2), Bool.andb_true_r.
    unfold tag_eqb in *. apply Bool.andb_true_iff in Hab. destruct Hab as [A1 A2].
    apply Bool.andb_true_iff in Hbc. destruct Hbc as [B1 B2].
    apply N.eqb_eq in A2. apply N.eqb_eq in B2. rewrite A2, B2, N.eqb_refl, Bool.andb_true_r.
    destruct (tcls a), (tcls b), (tcls c); try reflexivity; discriminate.
Qed.

(* the decoded object's tag set is the wire tag set (up to the format bit, which TagSet equality ignores) *)
Theorem schemaless_ty_tags : forall proto p0 t0 outer,
  tagset_of proto = Ok [p0] -> forallb non_universal outer = true ->
  exists ts, tagset_of (schemaless_ty proto (t0 :: outer)) = Ok ts /\ tagset_eqb ts (t0 :: outer) = true.
Proof.
  intros proto p0 t0 outer Hp Hnu. unfold schemaless_ty, tagset_of'. rewrite Hp.
  destruct (tag_eqb p0 t0) eqn:E.
  - destruct (wrap_explicit_tags outer proto [p0] Hnu Hp) as (ts & Hts & Heq).
    exists ts. split; [exact Hts|]. cbn [app] in Heq.
    revert Heq. destruct ts as [|a ts']; [discriminate|]. cbn. intros H.
    apply Bool.andb_true_iff in H. destruct H as [H1 H2]. rewrite H2, Bool.andb_true_r.
    unfold tag_eqb in *. apply Bool.andb_true_iff in H1. destruct H1 as [A1 A2].
    apply Bool.andb_true_iff in E. destruct E as [B1 B2].
    apply N.eqb_eq in A2. apply N.eqb_eq in B2. rewrite A2, B2, N.eqb_refl, Bool.andb_true_r.
    destruct (tcls a), (tcls p0), (tcls t0); try reflexivity; discriminate.
  - assert (HI: tagset_of (TImp t0 proto) = Ok [mkTag (tcls t0) (tcon p0) (tnum t0)]).
    { cbn [tagset_of]. rewrite Hp. reflexivity. }
    destruct (wrap_explicit_tags outer (TImp t0 proto) _ Hnu HI) as (ts & Hts & Heq).
    exists ts. split; [exact Hts|]. cbn [app] in Heq.
    revert Heq. destruct ts as [|a ts']; [discriminate|]. cbn. intros H.
    apply Bool.andb_true_iff in H. destruct H as [H1 H2]. rewrite H2, Bool.andb_true_r.
    unfold tag_eqb in *. cbn [tcls tnum] in H1. exact H1.
Qed.

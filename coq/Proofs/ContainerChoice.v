(* CHOICE: the single-alternative invariant over every history, and refinement of the
   option (alternative, value) prototype outside the class of F18a. *)
From Coq Require Import Lia.
From PV Require Import Spec.ListSpec Proofs.ContainerBase.
Local Open Scope nat_scope.

(* ---------- the inherited positional setter ---------- *)

(* the slots an assignment works on: allocated on first use *)
Definition alloc (cfg: rcfg) (s: rstate) : list slot :=
  match rslots s with [] => repeat None (length cfg) | l => l end.
Definition shaped (cfg: rcfg) (s: rstate) : Prop := rslots s = [] \/ length (rslots s) = length cfg.

Lemma alloc_length cfg s : shaped cfg s -> length (alloc cfg s) = length cfg.
Proof.
  unfold alloc, shaped. destruct (rslots s) as [|x l]; intros [H|H]; try discriminate;
    try apply repeat_length; auto.
Qed.

Lemma pyidx_nil i : pyidx i 0 = None.
Proof.
  unfold pyidx. destruct (Z.ltb_spec i 0).
  - destruct (Z.leb_spec (- Z.of_nat 0) i); [lia|reflexivity].
  - destruct (Z.ltb_spec i (Z.of_nat 0)); [lia|reflexivity].
Qed.

Lemma pyidx_some_lt i n k : pyidx i n = Some k -> (i < Z.of_nat n)%Z.
Proof.
  unfold pyidx. destruct (Z.ltb_spec i 0); [intros; lia|].
  destruct (Z.ltb_spec i (Z.of_nat n)); [intros; lia|discriminate].
Qed.

Lemma kind_at_some cfg i k : pyidx i (length cfg) = Some k -> kind_at cfg i = Some (kind_of cfg k).
Proof.
  intros H. unfold kind_at, kind_of. rewrite H. pose proof (pyidx_lt _ _ _ H) as Hk.
  destruct (nth_error cfg k) as [f|] eqn:E.
  - rewrite (nth_error_nth _ _ _ E). reflexivity.
  - apply nth_error_None in E. lia.
Qed.

Lemma kind_at_none cfg i : pyidx i (length cfg) = None -> kind_at cfg i = None.
Proof. intros H. unfold kind_at. rewrite H. reflexivity. Qed.

Lemma rec_store_ok cfg s i k rc c : shaped cfg s -> pyidx i (length cfg) = Some k ->
  rc (kind_of cfg k) = Ok c ->
  rec_store cfg s i rc = Ok (Some (set_nth k (Some c) (alloc cfg s))).
Proof.
  intros Hs Hi Hc. unfold rec_store, alloc. rewrite (kind_at_some cfg i k Hi), Hc.
  destruct Hs as [Hs|Hs].
  - rewrite Hs. cbn [length]. rewrite pyidx_nil.
    pose proof (pyidx_some_lt _ _ _ Hi). destruct (Z.ltb_spec (Z.of_nat (length cfg)) i); [lia|].
    rewrite repeat_length, Hi. reflexivity.
  - rewrite Hs, Hi. cbv beta iota. rewrite Hs, Hi. destruct (rslots s) eqn:E; [|reflexivity].
    cbn [length] in Hs. rewrite <- Hs in Hi. rewrite pyidx_nil in Hi. discriminate.
Qed.

Lemma rec_store_bad_addr cfg s i rc : shaped cfg s -> pyidx i (length cfg) = None ->
  rec_store cfg s i rc = Err ELib.
Proof.
  intros Hs Hi. unfold rec_store. rewrite (kind_at_none cfg i Hi).
  destruct Hs as [Hs|Hs].
  - rewrite Hs. cbn [length]. rewrite pyidx_nil. destruct (Z.ltb (Z.of_nat (length cfg)) i); reflexivity.
  - rewrite Hs, Hi. destruct (Z.ltb (Z.of_nat (length cfg)) i); reflexivity.
Qed.

Lemma rec_store_bad_val cfg s i k rc e : pyidx i (length cfg) = Some k ->
  rc (kind_of cfg k) = Err e -> exists e', rec_store cfg s i rc = Err e'.
Proof.
  intros Hi Hc. unfold rec_store. rewrite (kind_at_some cfg i k Hi), Hc.
  destruct (pyidx i (length (rslots s))); [eauto|].
  destruct (Z.ltb (Z.of_nat (length cfg)) i); eauto.
Qed.

(* whatever succeeds stored one component at a declared position *)
Lemma rec_store_inv cfg s i rc s' : shaped cfg s -> rec_store cfg s i rc = Ok s' ->
  exists k c, pyidx i (length cfg) = Some k /\ rc (kind_of cfg k) = Ok c /\
              s' = Some (set_nth k (Some c) (alloc cfg s)).
Proof.
  intros Hs H. destruct (pyidx i (length cfg)) as [k|] eqn:Hi.
  - destruct (rc (kind_of cfg k)) as [c|e] eqn:Hc.
    + rewrite (rec_store_ok cfg s i k rc c Hs Hi Hc) in H. inversion H. eauto.
    + destruct (rec_store_bad_val cfg s i k rc e Hi Hc) as [e' E]. congruence.
  - rewrite (rec_store_bad_addr cfg s i rc Hs Hi) in H. discriminate.
Qed.

(* ---------- the invariant ---------- *)

Lemma cinv_shaped cfg s : cinv cfg s -> shaped cfg (c_cv s).
Proof. unfold cinv, shaped. destruct (c_cur s); [intros (_ & H & _); auto|auto]. Qed.

Lemma alloc_full cfg s : length (rslots s) = length cfg -> alloc cfg s = rslots s.
Proof.
  unfold alloc. destruct (rslots s) eqn:E; [|reflexivity]. cbn [length]. intros H.
  destruct cfg; [reflexivity|discriminate].
Qed.

Lemma ch_set_inv cfg s i v s' : cinv cfg s -> ch_set cfg s i v = Ok s' ->
  exists k c, pyidx i (length cfg) = Some k /\ rec_resolve (kind_of cfg k) v = Ok c /\
              c_cur s' = Some k /\ nth k (rslots (c_cv s')) None = Some c /\ cinv cfg s'.
Proof.
  intros Hinv H. unfold ch_set, rec_set in H.
  destruct (rec_store cfg (c_cv s) i (fun fk => rec_resolve fk v)) as [cv'|e] eqn:E; [|discriminate].
  destruct (rec_store_inv _ _ _ _ _ (cinv_shaped _ _ Hinv) E) as (k & c & Hi & Hc & ->).
  pose proof (alloc_length cfg (c_cv s) (cinv_shaped _ _ Hinv)) as Hlen.
  pose proof (pyidx_lt _ _ _ Hi) as Hk.
  cbn [rslots] in H. rewrite set_nth_length, Hlen, Hi in H.
  exists k, c. split; [auto|]. split; [auto|].
  unfold cinv in Hinv. destruct (c_cur s) as [old|] eqn:Ecur.
  - destruct Hinv as (Hold & Hl & Hne & Hoth). rewrite (alloc_full _ _ Hl) in *.
    destruct (Nat.eqb_spec old k) as [->|Hdiff]; inversion H; subst s'; cbn [c_cur c_cv rslots].
    + split; [auto|]. split; [apply nth_set_nth_same; lia|].
      unfold cinv. cbn [c_cur c_cv rslots]. rewrite set_nth_length.
      repeat split; auto.
      * rewrite nth_set_nth_same by lia. discriminate.
      * intros j Hj. rewrite nth_set_nth_other by auto. apply Hoth; auto.
    + split; [auto|]. split; [rewrite nth_set_nth_other by auto; apply nth_set_nth_same; lia|].
      unfold cinv. cbn [c_cur c_cv rslots]. rewrite !set_nth_length.
      repeat split; auto.
      * rewrite nth_set_nth_other by auto. rewrite nth_set_nth_same by lia. discriminate.
      * intros j Hj. destruct (Nat.eq_dec j old) as [->|Hjo].
        -- apply nth_set_nth_same. rewrite set_nth_length. lia.
        -- rewrite nth_set_nth_other by auto. rewrite nth_set_nth_other by auto. apply Hoth; auto.
  - inversion H; subst s'; cbn [c_cur c_cv rslots].
    unfold alloc in *. rewrite Hinv in *. rewrite repeat_length in Hlen.
    split; [auto|]. split; [apply nth_set_nth_same; rewrite repeat_length; lia|].
    unfold cinv. cbn [c_cur c_cv rslots]. rewrite set_nth_length, repeat_length.
    repeat split; auto.
    + rewrite nth_set_nth_same by (rewrite repeat_length; lia). discriminate.
    + intros j Hj. rewrite nth_set_nth_other by auto. rewrite nth_repeat. destruct (Nat.ltb j (length cfg)); reflexivity.
Qed.

Lemma ch_set_ok cfg s i k v c : cinv cfg s -> pyidx i (length cfg) = Some k ->
  rec_resolve (kind_of cfg k) v = Ok c -> exists s', ch_set cfg s i v = Ok s'.
Proof.
  intros Hinv Hi Hc. unfold ch_set, rec_set.
  rewrite (rec_store_ok cfg (c_cv s) i k _ c (cinv_shaped _ _ Hinv) Hi Hc).
  cbn [rslots]. rewrite set_nth_length, (alloc_length cfg _ (cinv_shaped _ _ Hinv)), Hi. eauto.
Qed.

Lemma ch_set_bad_addr cfg s i v : cinv cfg s -> pyidx i (length cfg) = None -> ch_set cfg s i v = Err ELib.
Proof.
  intros Hinv Hi. unfold ch_set, rec_set. rewrite (rec_store_bad_addr _ _ _ _ (cinv_shaped _ _ Hinv) Hi). reflexivity.
Qed.

Lemma ch_set_bad_val cfg s i k v : pyidx i (length cfg) = Some k ->
  rec_resolve (kind_of cfg k) v = Err ELib -> ch_set cfg s i v = Err ELib.
Proof.
  intros Hi Hc. unfold ch_set, rec_set, rec_store. rewrite (kind_at_some cfg i k Hi), Hc.
  destruct (pyidx i (length (rslots (c_cv s)))); [reflexivity|].
  destruct (Z.ltb (Z.of_nat (length cfg)) i); reflexivity.
Qed.

Lemma ch_get_inv cfg s i inst s' c : cinv cfg s -> ch_get cfg s i inst = Ok (s', c) -> cinv cfg s'.
Proof.
  intros Hinv H. unfold ch_get in H.
  assert (G: gen_get c_cv (ch_set cfg) s i inst = Ok (s', c) -> cinv cfg s').
  { unfold gen_get. destruct inst; [|intros E; inversion E; subst; auto].
    destruct (rslot_at (c_cv s) i); [intros E; inversion E; subst; auto|].
    destruct (ch_set cfg s i None) as [s1|e] eqn:Es; [|discriminate].
    intros E; inversion E; subst. destruct (ch_set_inv _ _ _ _ _ Hinv Es) as (k & c' & _ & _ & _ & _ & Hi). auto. }
  destruct (c_cur s) as [k|]; [|auto].
  destruct (Z.eqb (Z.of_nat k) i); [inversion H; subst; auto|auto].
Qed.

Lemma lift_set_inv cfg s r conv : cinv cfg s -> (forall s', r = Ok s' -> cinv cfg s') ->
  cinv cfg (fst (@lift_set cstate r s conv)).
Proof. intros Hs Hr. unfold lift_set. destruct r; cbn [fst]; auto. Qed.

Lemma lift_get_inv cfg s r conv : cinv cfg s -> (forall s' c, r = Ok (s', c) -> cinv cfg s') ->
  cinv cfg (fst (@lift_get cstate r s conv)).
Proof. intros Hs Hr. unfold lift_get. destruct r as [[s' c]|]; cbn [fst]; eauto. Qed.

Lemma with_pos_inv cfg s p conv f : cinv cfg s -> (forall i, cinv cfg (fst (f i))) ->
  cinv cfg (fst (@with_pos cstate p s conv f)).
Proof. intros Hs Hf. unfold with_pos. destruct p; cbn [fst]; auto. Qed.

Lemma cinv_init cfg : cinv cfg ch_init.
Proof. reflexivity. Qed.

Theorem cinv_step cfg s o : cinv cfg s -> cinv cfg (fst (ch_step cfg s o)).
Proof.
  intros Hinv.
  assert (Hset: forall i v s', ch_set cfg s i v = Ok s' -> cinv cfg s').
  { intros i v s' E. destruct (ch_set_inv _ _ _ _ _ Hinv E) as (k & c & _ & _ & _ & _ & H). exact H. }
  assert (Hget: forall i inst s' c, ch_get cfg s i inst = Ok (s', c) -> cinv cfg s').
  { intros i inst s' c E. exact (ch_get_inv _ _ _ _ _ _ Hinv E). }
  destruct o; cbn [ch_step]; try exact Hinv;
    try (apply with_pos_inv; [exact Hinv|intros i0]);
    try (apply lift_set_inv; [exact Hinv|eauto]);
    try (apply lift_get_inv; [exact Hinv|eauto]).
  - destruct k; [apply lift_set_inv; eauto|].
    apply with_pos_inv; [exact Hinv|intros i0]. apply lift_set_inv; eauto.
  - reflexivity.
  - reflexivity.
  - (* clone *)
    destruct cloneValueFlag; [|reflexivity].
    unfold ch_current. unfold cinv in Hinv. destruct (c_cur s) as [k|] eqn:Ek; [|reflexivity].
    destruct Hinv as (Hk & Hl & Hne & Hoth).
    destruct (nth k (rslots (c_cv s)) None) as [c|] eqn:Ec; [|congruence].
    cbn [fst]. unfold cinv. cbn [c_cur c_cv rslots]. rewrite set_nth_length, repeat_length.
    repeat split; auto.
    + rewrite nth_set_nth_same by (rewrite repeat_length; lia). discriminate.
    + intros j Hj. rewrite nth_set_nth_other by auto. rewrite nth_repeat. destruct (Nat.ltb j (length cfg)); reflexivity.
  - destruct k; [apply lift_get_inv; eauto|].
    apply with_pos_inv; [exact Hinv|intros i0]. apply lift_get_inv; eauto.
  - destruct (c_cv s); exact Hinv.
  - destruct (c_cv s) as [[|]|]; try exact Hinv. destruct (ch_current s) as [[]|], l; exact Hinv.
  - destruct (c_cur s); exact Hinv.
  - destruct (c_cur s); exact Hinv.
  - destruct (c_cur s); exact Hinv.
Qed.

Theorem cinv_run cfg : forall ops s, cinv cfg s -> cinv cfg (fst (ch_run cfg s ops)).
Proof.
  induction ops as [|o r IH]; intros s H; [exact H|].
  cbn [ch_run]. pose proof (cinv_step cfg s o H) as H1.
  destruct (ch_step cfg s o) as [s1 x]. cbn [fst] in H1. specialize (IH s1 H1).
  destruct (ch_run cfg s1 r). exact IH.
Qed.

Lemma filter_all_none (l: list slot) : (forall j, nth j l None = None) ->
  filter (fun c => match c with Some _ => true | None => false end) l = [].
Proof.
  induction l as [|x l IH]; intros H; [reflexivity|].
  pose proof (H 0) as H0. cbn [nth] in H0. subst x. cbn [filter]. apply IH. intros j. exact (H (S j)).
Qed.

Lemma single_occupied : forall (l: list slot) k, (forall j, j <> k -> nth j l None = None) ->
  length (filter (fun c => match c with Some _ => true | None => false end) l) <= 1.
Proof.
  induction l as [|x l IH]; intros k H; [cbn; lia|].
  destruct k as [|k].
  - cbn [filter]. rewrite (filter_all_none l); [destruct x; cbn; lia|].
    intros j. exact (H (S j) ltac:(lia)).
  - pose proof (H 0 ltac:(lia)) as H0. cbn [nth] in H0. subst x. cbn [filter].
    apply (IH k). intros j Hj. exact (H (S j) ltac:(lia)).
Qed.

Lemma cinv_single cfg s : cinv cfg s -> ch_occupied s <= 1.
Proof.
  unfold cinv, ch_occupied. destruct (c_cur s) as [k|].
  - intros (_ & _ & _ & H). exact (single_occupied _ k H).
  - intros ->. cbn. lia.
Qed.

(* at most one alternative holds anything, after any history of any operations *)
Theorem choice_single cfg ops : ch_occupied (fst (ch_run cfg ch_init ops)) <= 1.
Proof. apply (cinv_single cfg). apply cinv_run. apply cinv_init. Qed.

(* ---------- refinement of the option prototype ---------- *)

Lemma no_def_kind cfg k : no_def cfg = true -> match kind_of cfg k with FDef _ => False | _ => True end.
Proof.
  unfold no_def, kind_of. intros H. destruct (nth_error cfg k) as [f|] eqn:E.
  - rewrite (nth_error_nth _ _ _ E). rewrite forallb_forall in H.
    specialize (H f (nth_error_In _ _ E)). destruct (fst f); auto. discriminate.
  - rewrite nth_overflow by (apply nth_error_None; auto). exact I.
Qed.

Lemma resolve_none cfg k : no_def cfg = true -> rec_resolve (kind_of cfg k) None = Ok CSchema.
Proof. intros H. pose proof (no_def_kind cfg k H). destruct (kind_of cfg k); [reflexivity..|contradiction]. Qed.

Lemma resolve_good fk v z : pv_z v = Some z -> rec_resolve fk (Some v) = Ok (CVal z).
Proof. destruct v; cbn; intros E; inversion E; reflexivity. Qed.

Definition cval (c: comp) : option Z := match c with CVal z => Some z | CSchema => None end.

Lemma set_core cfg s i k v c : cinv cfg s -> pyidx i (length cfg) = Some k ->
  rec_resolve (kind_of cfg k) v = Ok c ->
  exists s', ch_set cfg s i v = Ok s' /\ cinv cfg s' /\ cabs s' = Some (k, cval c) /\
             nth k (rslots (c_cv s')) None = Some c /\ c_cur s' = Some k.
Proof.
  intros Hinv Hi Hc. destruct (ch_set_ok cfg s i k v c Hinv Hi Hc) as [s' Es]. exists s'. split; [exact Es|].
  destruct (ch_set_inv _ _ _ _ _ Hinv Es) as (k2 & c2 & Hi2 & Hc2 & Hcur & Hn & Hinv').
  assert (k2 = k) by congruence. subst k2. assert (c2 = c) by congruence. subst c2.
  repeat split; auto. unfold cabs. rewrite Hcur, Hn. destruct c; reflexivity.
Qed.

Definition spec_get (a: cspec) (k: nat) (inst: bool) : cspec * slot :=
  match a with
  | Some (k', v) => if Nat.eqb k' k then (a, oslot v)
                    else if inst && negb (is_some v) then (Some (k, None), None) else (a, None)
  | None => if inst then (Some (k, None), None) else (a, None)
  end.

Lemma slot_abs_cabs s k : c_cur s = Some k ->
  slot_abs (nth k (rslots (c_cv s)) None) =
  oslot (match cabs s with Some (_, v) => v | None => None end).
Proof. intros H. unfold cabs. rewrite H. destruct (nth k (rslots (c_cv s)) None) as [[z|]|]; reflexivity. Qed.

Lemma get_core cfg s i k inst : no_def cfg = true -> cinv cfg s -> pyidx i (length cfg) = Some k ->
  (inst && match cabs s with Some (k', Some _) => negb (Nat.eqb k' k) | _ => false end) = false ->
  exists s' c, ch_get cfg s i inst = Ok (s', c) /\
               cabs s' = fst (spec_get (cabs s) k inst) /\ slot_abs c = snd (spec_get (cabs s) k inst).
Proof.
  intros Hnd Hinv Hi Hx. pose proof (pyidx_lt _ _ _ Hi) as Hk.
  assert (Hinst: forall s0, s0 = s -> rslot_at (c_cv s) i = None ->
            exists s' c, gen_get c_cv (ch_set cfg) s i true = Ok (s', c) /\
                         cabs s' = Some (k, None) /\ slot_abs c = None).
  { intros _ _ Hslot. unfold gen_get. rewrite Hslot.
    destruct (set_core cfg s i k None CSchema Hinv Hi (resolve_none cfg k Hnd)) as (s' & Es & Hinv' & Ha & Hn & Hcur).
    rewrite Es. exists s', (rslot_at (c_cv s') i). split; [reflexivity|]. split; [exact Ha|].
    unfold rslot_at. unfold cinv in Hinv'. rewrite Hcur in Hinv'. destruct Hinv' as (_ & Hl & _).
    rewrite Hl, Hi, Hn. reflexivity. }
  unfold ch_get. pose proof Hinv as Hinv0. unfold cinv in Hinv. destruct (c_cur s) as [k'|] eqn:Ecur.
  - destruct Hinv as (Hk' & Hl & Hne & Hoth).
    assert (Eabs: cabs s = Some (k', match nth k' (rslots (c_cv s)) None with Some (CVal z) => Some z | _ => None end))
      by (unfold cabs; rewrite Ecur; reflexivity).
    destruct (Z.eqb_spec (Z.of_nat k') i) as [Ei|Ei].
    + subst i. rewrite pyidx_nat in Hi. destruct (Nat.ltb k' (length cfg)); [|discriminate].
      inversion Hi; subst k. exists s, (nth k' (rslots (c_cv s)) None). split; [reflexivity|].
      rewrite (slot_abs_cabs s k' Ecur). rewrite Eabs. unfold spec_get. rewrite Nat.eqb_refl. split; reflexivity.
    + assert (Hslot: rslot_at (c_cv s) i = nth k (rslots (c_cv s)) None) by (unfold rslot_at; rewrite Hl, Hi; reflexivity).
      destruct (Nat.eq_dec k' k) as [->|Hdiff].
      * (* the selected alternative addressed from the end *)
        destruct (nth k (rslots (c_cv s)) None) as [c0|] eqn:Ec; [|congruence].
        unfold gen_get. rewrite Hslot.
        exists s, (if inst then Some c0 else if is_value (Some c0) then Some c0 else None).
        split; [destruct inst; reflexivity|].
        rewrite Eabs. unfold spec_get. rewrite Nat.eqb_refl. split; [reflexivity|].
        cbn [snd]. destruct inst, c0; reflexivity.
      * rewrite (Hoth k ltac:(auto)) in Hslot. rewrite Eabs in Hx |- *. unfold spec_get.
        destruct (Nat.eqb_spec k' k); [contradiction|].
        destruct inst.
        -- cbn [andb] in Hx.
           destruct (nth k' (rslots (c_cv s)) None) as [[z|]|] eqn:Ec; cbn [negb] in Hx; try discriminate.
           ++ destruct (Hinst s eq_refl Hslot) as (s' & c & E1 & E2 & E3). exists s', c. repeat split; auto.
           ++ congruence.
        -- unfold gen_get. exists s, None. rewrite Hslot. repeat split; auto.
  - assert (Hslot: rslot_at (c_cv s) i = None) by (unfold rslot_at; rewrite Hinv; cbn [length]; rewrite pyidx_nil; reflexivity).
    assert (Eabs: cabs s = None) by (unfold cabs; rewrite Ecur; reflexivity).
    rewrite Eabs. unfold spec_get. destruct inst.
    + destruct (Hinst s eq_refl Hslot) as (s' & c & E1 & E2 & E3). exists s', c. repeat split; auto.
    + unfold gen_get. exists s, None. rewrite Hslot. repeat split; auto.
Qed.

Lemma get_bad_noinst cfg s i : cinv cfg s -> pyidx i (length cfg) = None ->
  ch_get cfg s i false = Ok (s, None).
Proof.
  intros Hinv Hi. unfold ch_get.
  assert (G: gen_get c_cv (ch_set cfg) s i false = Ok (s, None)).
  { unfold gen_get, rslot_at. destruct (cinv_shaped _ _ Hinv) as [H|H]; rewrite H.
    - cbn [length]. rewrite pyidx_nil. reflexivity.
    - rewrite Hi. reflexivity. }
  destruct (c_cur s) as [k'|] eqn:Ecur; [|exact G].
  destruct (Z.eqb_spec (Z.of_nat k') i) as [Ei|Ei]; [|exact G].
  subst i. rewrite pyidx_nat in Hi. unfold cinv in Hinv. rewrite Ecur in Hinv. destruct Hinv as (Hk & _).
  destruct (Nat.ltb_spec k' (length cfg)); [discriminate|lia].
Qed.

Lemma pos_of_name_ok cfg n : n < length cfg ->
  pos_of_name cfg n = Ok (Z.of_nat n) /\ pyidx (Z.of_nat n) (length cfg) = Some n.
Proof.
  intros H. unfold pos_of_name. rewrite pyidx_nat. destruct (Nat.ltb_spec n (length cfg)); [auto|lia].
Qed.

(* the declared position an operation addresses, as the model computes it *)
Inductive addressed (cfg: rcfg) : rop -> Z -> Prop :=
| A_pos_set i v : addressed cfg (RSetPos i v) i
| A_item_set i v : addressed cfg (RSetItem (KPos i) v) i
| A_pos_get i b : addressed cfg (RGetPos i b) i
| A_item_get i : addressed cfg (RGetItem (KPos i)) i.

Theorem ch_sim_step cfg s o : no_def cfg = true -> cinv cfg s -> c_wf cfg (cabs s) o = true ->
  cinv cfg (fst (ch_step cfg s o)) /\
  cabs (fst (ch_step cfg s o)) = fst (c_step cfg (cabs s) o) /\
  out_abs (snd (ch_step cfg s o)) = snd (c_step cfg (cabs s) o).
Proof.
  intros Hnd Hinv Hwf. split; [apply cinv_step; exact Hinv|].
  unfold c_wf in Hwf. apply andb_prop in Hwf as [Hx Hwf]. apply negb_true_iff in Hx.
  (* assignments at a resolved position *)
  assert (Hset: forall i k v conv, pyidx i (length cfg) = Some k ->
            match v with Some pv => is_some (pv_z pv) | None => true end = true ->
            let r := @lift_set cstate (ch_set cfg s i v) s conv in
            cabs (fst r) = match v with
                           | Some pv => match pv_z pv with Some z => Some (k, Some z) | None => cabs s end
                           | None => Some (k, None) end /\ out_abs (snd r) = ORet).
  { intros i k v conv Hi Hv. destruct v as [pv|].
    - destruct (pv_z pv) as [z|] eqn:Ez; [|discriminate].
      destruct (set_core cfg s i k (Some pv) (CVal z) Hinv Hi (resolve_good _ pv z Ez)) as (s' & Es & _ & Ha & _).
      cbn zeta. unfold lift_set. rewrite Es. cbn [fst snd]. rewrite Ha. split; reflexivity.
    - destruct (set_core cfg s i k None CSchema Hinv Hi (resolve_none cfg k Hnd)) as (s' & Es & _ & Ha & _).
      cbn zeta. unfold lift_set. rewrite Es. cbn [fst snd]. rewrite Ha. split; reflexivity. }
  (* reads at a resolved position *)
  assert (Hget: forall i k inst conv, pyidx i (length cfg) = Some k ->
            (inst && match cabs s with Some (k', Some _) => negb (Nat.eqb k' k) | _ => false end) = false ->
            let r := @lift_get cstate (ch_get cfg s i inst) s conv in
            cabs (fst r) = fst (spec_get (cabs s) k inst) /\ out_abs (snd r) = OSlot (snd (spec_get (cabs s) k inst))).
  { intros i k inst conv Hi Hf.
    destruct (get_core cfg s i k inst Hnd Hinv Hi Hf) as (s' & c & Eg & Ha & Hc).
    cbn zeta. unfold lift_get. rewrite Eg. cbn [fst snd out_abs]. rewrite Ha, Hc. split; reflexivity. }
  assert (Hspec: forall k inst, 
            (match cabs s with
             | Some (k', v) => if Nat.eqb k' k then (cabs s, OSlot (oslot v))
                               else if inst && negb (is_some v) then (Some (k, None), OSlot None)
                               else (cabs s, OSlot None)
             | None => if inst then (Some (k, None), OSlot None) else (cabs s, OSlot None)
             end) = (fst (spec_get (cabs s) k inst), OSlot (snd (spec_get (cabs s) k inst)))).
  { intros k inst. unfold spec_get. destruct (cabs s) as [[k' v]|].
    - destruct (Nat.eqb k' k); [reflexivity|]. destruct (inst && negb (is_some v)); reflexivity.
    - destruct inst; reflexivity. }
  destruct o; cbn [ch_step c_step r_addr r_setval r_inst f18a fst snd] in *; try (split; reflexivity).
  - (* RSetItem *)
    destruct k as [i|n].
    + destruct (pyidx i (length cfg)) as [k|] eqn:Hi; [|discriminate]. cbn [is_some andb] in Hwf.
      destruct (Hset i k (Some v) to_index Hi Hwf) as [E1 E2]. cbn zeta in *. rewrite E1, E2.
      destruct (pv_z v); split; reflexivity.
    + destruct (Nat.ltb_spec n (length cfg)) as [Hn|Hn]; [|discriminate]. cbn [is_some andb] in Hwf.
      destruct (pos_of_name_ok cfg n Hn) as [Ep Hi]. rewrite Ep. cbn [with_pos].
      destruct (Hset (Z.of_nat n) n (Some v) to_key Hi Hwf) as [E1 E2]. cbn zeta in *. rewrite E1, E2.
      destruct (pv_z v); split; reflexivity.
  - (* RSetPos *)
    destruct (pyidx i (length cfg)) as [k|] eqn:Hi; [|discriminate]. cbn [is_some andb] in Hwf.
    destruct (Hset i k v noconv Hi ltac:(destruct v; exact Hwf)) as [E1 E2]. cbn zeta in *. rewrite E1, E2.
    destruct v as [pv|]; [destruct (pv_z pv)|]; split; reflexivity.
  - (* RSetName *)
    destruct (Nat.ltb_spec n (length cfg)) as [Hn|Hn]; [|discriminate]. cbn [is_some andb] in Hwf.
    destruct (pos_of_name_ok cfg n Hn) as [Ep Hi]. rewrite Ep. cbn [with_pos].
    destruct (Hset (Z.of_nat n) n v noconv Hi ltac:(destruct v; exact Hwf)) as [E1 E2]. cbn zeta in *. rewrite E1, E2.
    destruct v as [pv|]; [destruct (pv_z pv)|]; split; reflexivity.
  - (* RSetType *)
    destruct (Nat.ltb_spec t (length cfg)) as [Hn|Hn]; [|discriminate]. cbn [is_some andb] in Hwf.
    destruct (pos_of_name_ok cfg t Hn) as [Ep Hi]. rewrite Ep. cbn [with_pos].
    destruct (Hset (Z.of_nat t) t v noconv Hi ltac:(destruct v; exact Hwf)) as [E1 E2]. cbn zeta in *. rewrite E1, E2.
    destruct v as [pv|]; [destruct (pv_z pv)|]; split; reflexivity.
  - (* RClone *)
    destruct cloneValueFlag; [|split; reflexivity].
    unfold ch_current, cabs. pose proof Hinv as Hi0. unfold cinv in Hi0.
    destruct (c_cur s) as [k|] eqn:Ek; [|split; reflexivity].
    destruct Hi0 as (Hk & Hl & Hne & Hoth).
    destruct (nth k (rslots (c_cv s)) None) as [c|] eqn:Ec; [|congruence].
    cbn [fst snd c_cur c_cv rslots]. rewrite nth_set_nth_same by (rewrite repeat_length; lia). split; reflexivity.
  - (* RLen *) unfold cabs. destruct (c_cur s); split; reflexivity.
  - (* RIter *) unfold cabs. destruct (c_cur s); split; reflexivity.
  - (* RKeys *) unfold cabs. destruct (c_cur s); split; reflexivity.
  - (* RIn *) unfold cabs. destruct (c_cur s); split; reflexivity.
  - (* RGetItem *)
    destruct k as [i|n].
    + destruct (pyidx i (length cfg)) as [k|] eqn:Hi; [|discriminate]. rewrite Hspec.
      apply (Hget i k true to_index Hi). cbn [andb] in Hx |- *. destruct (cabs s) as [[k' [z|]]|]; auto.
    + destruct (Nat.ltb_spec n (length cfg)) as [Hn|Hn]; [|discriminate].
      destruct (pos_of_name_ok cfg n Hn) as [Ep Hi]. rewrite Ep. cbn [with_pos]. rewrite Hspec.
      apply (Hget (Z.of_nat n) n true to_key Hi). cbn [andb] in Hx |- *. destruct (cabs s) as [[k' [z|]]|]; auto.
  - (* RGetPos *)
    destruct (pyidx i (length cfg)) as [k|] eqn:Hi.
    + rewrite Hspec. apply (Hget i k inst noconv Hi). destruct (cabs s) as [[k' [z|]]|]; auto.
    + cbn [is_some orb] in Hwf. apply negb_true_iff in Hwf. subst inst.
      rewrite (get_bad_noinst cfg s i Hinv Hi). split; reflexivity.
  - (* RGetName *)
    destruct (Nat.ltb_spec n (length cfg)) as [Hn|Hn]; [|discriminate].
    destruct (pos_of_name_ok cfg n Hn) as [Ep Hi]. rewrite Ep. cbn [with_pos]. rewrite Hspec.
    apply (Hget (Z.of_nat n) n inst noconv Hi). destruct (cabs s) as [[k' [z|]]|]; auto.
  - (* RGetType *)
    destruct (Nat.ltb_spec t (length cfg)) as [Hn|Hn]; [|discriminate].
    destruct (pos_of_name_ok cfg t Hn) as [Ep Hi]. rewrite Ep. cbn [with_pos]. rewrite Hspec.
    apply (Hget (Z.of_nat t) t inst noconv Hi). destruct (cabs s) as [[k' [z|]]|]; auto.
  - (* RValues *)
    unfold cabs, ch_current. destruct (c_cur s) as [k|]; [|split; reflexivity].
    split; [reflexivity|]. cbn [snd out_abs map]. destruct (nth k (rslots (c_cv s)) None) as [[z|]|]; reflexivity.
  - (* RItems *)
    unfold cabs, ch_current. destruct (c_cur s) as [k|]; [|split; reflexivity].
    split; [reflexivity|]. cbn [snd out_abs map fst]. destruct (nth k (rslots (c_cv s)) None) as [[z|]|]; reflexivity.
  - (* RPretty *) discriminate.
  - (* REq *)
    unfold cabs in *. unfold ch_current. pose proof Hinv as Hi0. unfold cinv in Hi0.
    destruct (c_cur s) as [k|] eqn:Ek; [|discriminate].
    destruct Hi0 as (Hk & Hl & Hne & Hoth).
    destruct (nth k (rslots (c_cv s)) None) as [[z|]|] eqn:Ec; try discriminate.
    destruct l as [|z' l]; [discriminate|].
    destruct (c_cv s) as [[|x sl]|] eqn:Ecv; cbn [rslots length] in Hl; try lia.
    cbn [fst snd]. rewrite Ek, Ecv, Ec. split; reflexivity.
  - (* RIsValue *)
    unfold ch_isvalue, ch_current, cabs. destruct (c_cur s) as [k|]; [|split; reflexivity].
    destruct (nth k (rslots (c_cv s)) None) as [[z|]|]; split; reflexivity.
  - (* REncode *)
    unfold ch_current, cabs. destruct (c_cur s) as [k|] eqn:Ek; cbn [fst snd]; rewrite ?Ek; [|split; reflexivity].
    destruct (nth k (rslots (c_cv s)) None) as [[z|]|]; split; reflexivity.
  - (* RGetComponent *)
    unfold ch_current, cabs. destruct (c_cur s) as [k|] eqn:Ek; cbn [fst snd]; rewrite ?Ek; [|split; reflexivity].
    destruct (nth k (rslots (c_cv s)) None) as [[z|]|]; split; reflexivity.
  - (* RGetName0 *)
    unfold cabs. destruct (c_cur s) as [k|] eqn:Ek; cbn [fst snd]; rewrite ?Ek; split; reflexivity.
Qed.

Theorem ch_refines_from cfg : no_def cfg = true -> forall ops s,
  cinv cfg s -> c_wf_hist cfg (cabs s) ops = true ->
  cabs (fst (ch_run cfg s ops)) = fst (c_run cfg (cabs s) ops) /\ map out_abs (snd (ch_run cfg s ops)) = snd (c_run cfg (cabs s) ops).
Proof.
  intros Hnd. induction ops as [|o r IH]; intros s Hinv H; [split; reflexivity|].
  cbn [c_wf_hist] in H. apply andb_prop in H as [H1 H2].
  destruct (ch_sim_step cfg s o Hnd Hinv H1) as (Hi' & Ha & Ho).
  cbn [ch_run c_run]. destruct (ch_step cfg s o) as [s1 x]. destruct (c_step cfg (cabs s) o) as [a1 y].
  cbn [fst snd] in *. subst a1 y. destruct (IH s1 Hi' H2) as [E1 E2].
  destruct (ch_run cfg s1 r) as [s2 xs]. destruct (c_run cfg (cabs s1) r) as [a2 ys].
  cbn [fst snd map] in *. split; congruence.
Qed.

Theorem ch_refines cfg ops : no_def cfg = true -> c_wf_hist cfg None ops = true ->
  let '(s, outs) := ch_run cfg ch_init ops in
  let '(a, outs') := c_run cfg None ops in
  cabs s = a /\ map out_abs outs = outs' /\ ch_occupied s <= 1.
Proof.
  intros Hnd H. destruct (ch_refines_from cfg Hnd ops ch_init (cinv_init cfg) H) as [E1 E2].
  pose proof (choice_single cfg ops) as E3.
  change (cabs ch_init) with (@None (nat * option Z)) in *.
  destruct (ch_run cfg ch_init ops) as [s outs]. destruct (c_run cfg None ops) as [a outs'].
  cbn [fst snd] in *. auto.
Qed.

(* reads: the selected alternative, or any alternative while no value is held, leave the content alone;
   reading another alternative while a value is held drops the value (F18a) *)
Theorem ch_reads_inert_partial cfg s o : no_def cfg = true -> cinv cfg s ->
  rec_reader o = true -> c_wf cfg (cabs s) o = true ->
  match cabs s with Some (_, Some _) => cabs (fst (ch_step cfg s o)) = cabs s | _ => True end.
Proof.
  intros Hnd Hinv Hr Hwf. destruct (ch_sim_step cfg s o Hnd Hinv Hwf) as (_ & Ha & _).
  rewrite Ha. destruct (cabs s) as [[k [z|]]|] eqn:Ea; auto.
  destruct o; cbn [rec_reader] in Hr; try discriminate; cbn [c_step]; try reflexivity.
  all: destruct (r_addr cfg _); try reflexivity.
  all: destruct (Nat.eqb k _); try reflexivity.
  all: cbn [is_some negb]; rewrite andb_false_r; reflexivity.
Qed.

Theorem ch_reads_inert_refuted :
  exists ops o, rec_reader o = true /\ cabs (fst (ch_run cfg3 ch_init ops)) = Some (1, Some 5%Z) /\ cabs (fst (ch_step cfg3 (fst (ch_run cfg3 ch_init ops)) o)) = Some (2, None) /\ f18a cfg3 (cabs (fst (ch_run cfg3 ch_init ops))) o = true.
Proof. exists [RSetItem (KName 1) (PInt 5)], (RGetItem (KName 2)). repeat split. Qed.

(* ill-formed: unknown name, position outside the declared range, refused value *)
Theorem ch_illformed_inert cfg s o : cinv cfg s -> r_ill cfg o = true ->
  fst (ch_step cfg s o) = s /\ exists e, snd (ch_step cfg s o) = ORaise e /\ lookup_or_library e = true.
Proof.
  intros Hinv Hill.
  assert (Hbadv: forall fk v, is_some (pv_z v) = false -> rec_resolve fk (Some v) = Err ELib)
    by (intros fk v; destruct v; cbn; auto; discriminate).
  assert (Hset: forall i v, (pyidx i (length cfg) = None \/ exists pv, v = Some pv /\ is_some (pv_z pv) = false) ->
            ch_set cfg s i v = Err ELib).
  { intros i v [Hi|(pv & -> & Hv)].
    - apply ch_set_bad_addr; auto.
    - destruct (pyidx i (length cfg)) as [k|] eqn:Hi.
      + apply (ch_set_bad_val cfg s i k); auto.
      + apply ch_set_bad_addr; auto. }
  assert (Hget: forall i, pyidx i (length cfg) = None -> ch_get cfg s i true = Err ELib).
  { intros i Hi. unfold ch_get.
    assert (G: gen_get c_cv (ch_set cfg) s i true = Err ELib).
    { unfold gen_get, rslot_at. destruct (cinv_shaped _ _ Hinv) as [H|H]; rewrite H.
      - cbn [length]. rewrite pyidx_nil. rewrite (ch_set_bad_addr cfg s i None Hinv Hi). reflexivity.
      - rewrite Hi. rewrite (ch_set_bad_addr cfg s i None Hinv Hi). reflexivity. }
    destruct (c_cur s) as [k'|] eqn:Ecur; [|exact G].
    destruct (Z.eqb_spec (Z.of_nat k') i) as [Ei|Ei]; [|exact G].
    subst i. rewrite pyidx_nat in Hi. unfold cinv in Hinv. rewrite Ecur in Hinv. destruct Hinv as (Hk & _).
    destruct (Nat.ltb_spec k' (length cfg)); [discriminate|lia]. }
  assert (Hname: forall n, (if Nat.ltb n (length cfg) then Some n else None) = None -> pos_of_name cfg n = Err ELib).
  { intros n. unfold pos_of_name. destruct (Nat.ltb n (length cfg)); [discriminate|reflexivity]. }
  assert (Hname2: forall n, n < length cfg -> pos_of_name cfg n = Ok (Z.of_nat n)) by (intros n Hn; apply pos_of_name_ok; auto).
  destruct o; cbn [r_ill r_addr r_setval] in Hill; try discriminate; cbn [ch_step].
  - (* RSetItem *)
    destruct k as [i|n].
    + rewrite Hset; [split; [reflexivity|exists EIndex; split; reflexivity]|].
      apply orb_prop in Hill as [H|H].
      * left. destruct (pyidx i (length cfg)); [discriminate|reflexivity].
      * right. exists v. split; [reflexivity|]. apply negb_true_iff in H. exact H.
    + destruct (Nat.ltb_spec n (length cfg)) as [Hn|Hn].
      * rewrite (Hname2 n Hn). cbn [with_pos]. cbn [is_some negb orb] in Hill. apply negb_true_iff in Hill.
        rewrite Hset; [split; [reflexivity|exists EKey; split; reflexivity]|]. right. eauto.
      * unfold pos_of_name. destruct (Nat.ltb_spec n (length cfg)); [lia|]. cbn [with_pos].
        split; [reflexivity|exists EKey; split; reflexivity].
  - (* RSetPos *)
    rewrite Hset; [split; [reflexivity|exists ELib; split; reflexivity]|].
    apply orb_prop in Hill as [H|H].
    + left. destruct (pyidx i (length cfg)); [discriminate|reflexivity].
    + right. destruct v as [pv|]; [|discriminate]. exists pv. split; [reflexivity|]. apply negb_true_iff in H. exact H.
  - (* RSetName *)
    destruct (Nat.ltb_spec n (length cfg)) as [Hn|Hn].
    + rewrite (Hname2 n Hn). cbn [with_pos]. cbn [is_some negb orb] in Hill.
      destruct v as [pv|]; [|discriminate]. apply negb_true_iff in Hill.
      rewrite Hset; [split; [reflexivity|exists ELib; split; reflexivity]|]. right. eauto.
    + unfold pos_of_name. destruct (Nat.ltb_spec n (length cfg)); [lia|]. cbn [with_pos].
      split; [reflexivity|exists ELib; split; reflexivity].
  - (* RSetType *)
    destruct (Nat.ltb_spec t (length cfg)) as [Hn|Hn].
    + rewrite (Hname2 t Hn). cbn [with_pos]. cbn [is_some negb orb] in Hill.
      destruct v as [pv|]; [|discriminate]. apply negb_true_iff in Hill.
      rewrite Hset; [split; [reflexivity|exists ELib; split; reflexivity]|]. right. eauto.
    + unfold pos_of_name. destruct (Nat.ltb_spec t (length cfg)); [lia|]. cbn [with_pos].
      split; [reflexivity|exists ELib; split; reflexivity].
  - (* RGetItem *)
    destruct k as [i|n].
    + rewrite Hget; [split; [reflexivity|exists EIndex; split; reflexivity]|].
      destruct (pyidx i (length cfg)); [discriminate|reflexivity].
    + unfold pos_of_name. destruct (Nat.ltb n (length cfg)); [discriminate|]. cbn [with_pos].
      split; [reflexivity|exists EKey; split; reflexivity].
  - (* RGetPos *)
    destruct inst; [|discriminate].
    rewrite Hget; [split; [reflexivity|exists ELib; split; reflexivity]|].
    destruct (pyidx i (length cfg)); [discriminate|reflexivity].
  - (* RGetName *)
    unfold pos_of_name. destruct (Nat.ltb n (length cfg)); [discriminate|]. cbn [with_pos].
    split; [reflexivity|exists ELib; split; reflexivity].
  - (* RGetType *)
    unfold pos_of_name. destruct (Nat.ltb t (length cfg)); [discriminate|]. cbn [with_pos].
    split; [reflexivity|exists ELib; split; reflexivity].
Qed.

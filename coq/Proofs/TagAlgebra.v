(* Tag algebra of pyasn1/type/tag.py: what implicit and explicit tagging do to a tag set. *)
From Coq Require Import Lia.
From PV Require Import Base.Bytes Model.Tag.
Local Open Scope N_scope.

(* explicit tagging adds exactly one tag, constructed, outermost, and refuses UNIVERSAL *)
Theorem tag_explicitly_spec ts t :
  match tag_explicitly ts t with
  | Ok ts' => tcls t <> Univ /\ ts' = ts ++ [mkTag (tcls t) true (tnum t)]
  | Err e => tcls t = Univ /\ e = EMalformed
  end.
Proof. unfold tag_explicitly. destruct (tcls t); (split; [congruence|reflexivity]). Qed.

(* implicit tagging replaces only the outermost tag and keeps its primitive/constructed form *)
Theorem tag_implicitly_spec ts last t :
  tag_implicitly (ts ++ [last]) t = ts ++ [mkTag (tcls t) (tcon last) (tnum t)].
Proof. unfold tag_implicitly. rewrite rev_app_distr. cbn [rev app]. rewrite rev_involutive. reflexivity. Qed.

Theorem tag_implicitly_length ts t : ts <> [] -> length (tag_implicitly ts t) = length ts.
Proof.
  intros H. destruct (exists_last H) as (ts' & last & ->).
  rewrite tag_implicitly_spec, !app_length. reflexivity.
Qed.

Theorem tag_explicitly_length ts t ts' : tag_explicitly ts t = Ok ts' -> length ts' = S (length ts).
Proof.
  unfold tag_explicitly. destruct (tcls t); intros H; inversion H; rewrite app_length; simpl; lia.
Qed.

Example tag_algebra_nonvacuous :
  tag_implicitly [mkTag Univ false 2; mkTag Ctx true 0] (mkTag Appl false 40)
    = [mkTag Univ false 2; mkTag Appl true 40]
  /\ tag_explicitly [mkTag Univ false 2] (mkTag Priv false 31)
    = Ok [mkTag Univ false 2; mkTag Priv true 31]
  /\ tag_explicitly [mkTag Univ false 2] (mkTag Univ false 5) = Err EMalformed.
Proof. repeat split. Qed.

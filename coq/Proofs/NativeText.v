(* The text forms the native codec goes through (BIT STRING as '0'/'1' text, OBJECT IDENTIFIER as
   dotted decimal text) read back exactly. *)
From Coq Require Import Lia.
From PV Require Import Model.Native.
Local Open Scope N_scope.

(* ---------- BIT STRING ---------- *)

Lemma parse_bits_text : forall bs, parse_bits (bits_text bs) = Ok bs.
Proof.
  induction bs as [|b bs IH]; [reflexivity|].
  change (bits_text (b :: bs)) with (bit_char b :: bits_text bs).
  cbn [parse_bits]. rewrite IH. destruct b; reflexivity.
Qed.

(* ---------- decimal numerals ---------- *)

Lemma dec_digits_S : forall f n acc,
  dec_digits (S f) n acc = if N.ltb n 10 then (48 + n mod 10) :: acc
                           else dec_digits f (n / 10) ((48 + n mod 10) :: acc).
Proof. reflexivity. Qed.

Lemma dec_digits_app : forall f n acc, dec_digits f n acc = dec_digits f n [] ++ acc.
Proof.
  induction f as [|f IH]; intros n acc; [reflexivity|].
  rewrite !dec_digits_S. destruct (N.ltb n 10); [reflexivity|].
  rewrite (IH (n / 10) ((48 + n mod 10) :: acc)), (IH (n / 10) [48 + n mod 10]).
  rewrite <- app_assoc. reflexivity.
Qed.

Lemma parse_dec_snoc : forall l d, parse_dec (l ++ [d]) = 10 * parse_dec l + (d - 48).
Proof. intros. unfold parse_dec. rewrite fold_left_app. reflexivity. Qed.

Lemma is_digit_mod10 : forall n, is_digit (48 + n mod 10) = true.
Proof.
  intro n. unfold is_digit. assert (H: n mod 10 < 10) by (apply N.mod_lt; discriminate).
  generalize dependent (n mod 10). intros m H.
  apply andb_true_intro; split; apply N.leb_le; lia.
Qed.

Lemma dec_digits_sound : forall f n, n < 2 ^ N.of_nat f ->
  parse_dec (dec_digits (S f) n []) = n
  /\ forallb is_digit (dec_digits (S f) n []) = true
  /\ dec_digits (S f) n [] <> [].
Proof.
  induction f as [|f IH]; intros n Hn.
  - simpl in Hn. assert (n = 0) by lia. subst. simpl. repeat split; discriminate.
  - rewrite (dec_digits_S (S f)).
    destruct (N.ltb n 10) eqn:E.
    + apply N.ltb_lt in E. repeat split.
      * unfold parse_dec. cbn [fold_left]. rewrite N.mod_small by exact E. lia.
      * cbn [forallb]. rewrite is_digit_mod10. reflexivity.
      * discriminate.
    + apply N.ltb_ge in E.
      assert (Hd: n / 10 < 2 ^ N.of_nat f).
      { rewrite Nat2N.inj_succ, N.pow_succ_r' in Hn.
        apply N.div_lt_upper_bound; [discriminate|]. lia. }
      destruct (IH (n / 10) Hd) as [Hp [Hdig Hne]].
      rewrite (dec_digits_app (S f) (n / 10) [48 + n mod 10]).
      repeat split.
      * rewrite parse_dec_snoc, Hp.
        assert (Hdm: n = 10 * (n / 10) + n mod 10) by (apply N.div_mod; discriminate).
        revert Hdm. generalize (n / 10) (n mod 10). intros q r Hdm. lia.
      * rewrite forallb_app, Hdig. cbn [forallb]. rewrite is_digit_mod10. reflexivity.
      * intro Hnil. apply app_eq_nil in Hnil. destruct Hnil as [_ Hnil]. discriminate.
Qed.

Lemma pos_lt_size : forall p, N.pos p < 2 ^ N.of_nat (Pos.size_nat p).
Proof.
  induction p as [p IH|p IH|]; simpl Pos.size_nat.
  - rewrite Nat2N.inj_succ, N.pow_succ_r'. lia.
  - rewrite Nat2N.inj_succ, N.pow_succ_r'. lia.
  - reflexivity.
Qed.

Lemma N_lt_size : forall n, n < 2 ^ N.of_nat (N.size_nat n).
Proof. destruct n as [|p]; [reflexivity|apply pos_lt_size]. Qed.

Lemma dec_N_sound : forall n,
  parse_dec (dec_N n) = n /\ forallb is_digit (dec_N n) = true /\ dec_N n <> [].
Proof. intro n. unfold dec_N. apply dec_digits_sound, N_lt_size. Qed.

(* ---------- dotted text ---------- *)

Definition nodot (p: list N) : Prop := forallb is_digit p = true.

Lemma digit_not_dot : forall c, is_digit c = true -> N.eqb c 46 = false.
Proof.
  intros c H. unfold is_digit in H. apply andb_prop in H. destruct H as [H _].
  apply N.leb_le in H. apply N.eqb_neq. lia.
Qed.

Lemma split_dot_digits : forall p rest, nodot p ->
  split_dot (p ++ rest) = (p ++ fst (split_dot rest), snd (split_dot rest)).
Proof.
  induction p as [|c p IH]; intros rest H.
  - simpl. destruct (split_dot rest); reflexivity.
  - unfold nodot in H. simpl in H. apply andb_prop in H. destruct H as [Hc Hp].
    simpl. rewrite (IH rest Hp). rewrite (digit_not_dot c Hc). reflexivity.
Qed.

Lemma split_dot_dot : forall s,
  split_dot (46 :: s) = ([], fst (split_dot s) :: snd (split_dot s)).
Proof. intro s. simpl. destruct (split_dot s). reflexivity. Qed.

Lemma split_join : forall p ps, Forall nodot (p :: ps) ->
  split_dot (join_dot (p :: ps)) = (p, ps).
Proof.
  intros p ps. revert p. induction ps as [|q r IH]; intros p H.
  - simpl. inversion H; subst. rewrite <- (app_nil_r p) at 1.
    rewrite split_dot_digits by assumption. simpl. rewrite app_nil_r. reflexivity.
  - inversion H; subst.
    change (join_dot (p :: q :: r)) with (p ++ 46 :: join_dot (q :: r)).
    rewrite split_dot_digits by assumption.
    rewrite split_dot_dot, (IH q) by assumption. simpl. rewrite app_nil_r. reflexivity.
Qed.

Lemma join_dot_chars : forall parts, Forall nodot parts ->
  forallb (fun c => is_digit c || N.eqb c 46) (join_dot parts) = true.
Proof.
  induction parts as [|p r IH]; intros H; [reflexivity|].
  inversion H; subst.
  assert (Hp: forallb (fun c => is_digit c || N.eqb c 46) p = true).
  { unfold nodot in H2. clear - H2. induction p as [|c p IHp]; [reflexivity|].
    simpl in *. apply andb_prop in H2. destruct H2 as [A B]. rewrite A, (IHp B). reflexivity. }
  destruct r as [|q r]; [exact Hp|].
  change (join_dot (p :: q :: r)) with (p ++ 46 :: join_dot (q :: r)).
  rewrite forallb_app, Hp. cbn [forallb andb].
  change (is_digit 46 || N.eqb 46 46) with true. cbn [andb]. apply IH. assumption.
Qed.

Lemma parse_oid_text : forall arcs, parse_oid (oid_text arcs) = Ok arcs.
Proof.
  intro arcs. unfold parse_oid, oid_text.
  assert (Hall: Forall nodot (map dec_N arcs)).
  { apply Forall_forall. intros x Hx. apply in_map_iff in Hx. destruct Hx as [n [<- _]].
    apply (dec_N_sound n). }
  rewrite (join_dot_chars _ Hall).
  destruct arcs as [|a r]; [reflexivity|].
  assert (Hs: split_dot (join_dot (map dec_N (a :: r))) = (dec_N a, map dec_N r))
    by (apply split_join; exact Hall).
  rewrite Hs.
  assert (Hf: forall l, filter (fun f : list N => match f with [] => false | _ :: _ => true end) (map dec_N l)
                        = map dec_N l).
  { induction l as [|x l IHl]; [reflexivity|]. simpl.
    destruct (dec_N x) eqn:E; [exfalso; apply (proj2 (proj2 (dec_N_sound x))); exact E|].
    rewrite IHl. reflexivity. }
  change (dec_N a :: map dec_N r) with (map dec_N (a :: r)).
  rewrite Hf, map_map. f_equal.
  rewrite <- (map_id (a :: r)) at 2. apply map_ext. intro x. apply (dec_N_sound x).
Qed.

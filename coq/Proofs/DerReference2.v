(* C03, second stage: the DER encoder against the independent reference (Spec/X690.v) over the WHOLE
   universe of types: SET OF (canonical order of the element encodings), SET (canonical order of the
   tags), CHOICE (untagged and explicitly tagged), ANY, OPTIONAL components of constructed type outside
   finding F24 - on top of Proofs/DerReference.v (simple types, SEQUENCE, SEQUENCE OF, tagging, framing).

   1. the two insertion sorts (model: stable, before its equals; reference: after its equals) agree
      when ties are identical;   2. SET OF;   3. SET;   4. the tag/frame argument for types without a
      tag of their own;   5. the induction over the type;   6. witnesses, and the disagreements. *)
From Coq Require Import Lia Sorting.Permutation Sorting.Sorted.
From PV Require Import Base.Bytes Model.Tag Model.TableTypes Model.Types Model.Enc Gen.Tables Spec.X690
     Proofs.SpecOctets Proofs.TagAlgebra Proofs.ContainerCodecDefs Proofs.ContainerCodecSort
     Proofs.DerAbsFunction Proofs.DerReference.
Local Open Scope N_scope.

(* ====================================================================== *)
(* 1. the model's sort and the reference's sort                            *)
(* ====================================================================== *)

Section TwoSorts.
  Context {A K: Type} (ltb: K -> K -> bool) (key: A -> K).
  Hypothesis ltb_irrefl: forall k, ltb k k = false.
  Hypothesis ltb_trans: forall a b c, ltb a b = true -> ltb b c = true -> ltb a c = true.
  Hypothesis ltb_negtrans: forall a b c, ltb a c = true -> ltb a b = true \/ ltb b c = true.

  Let lt (a b: A) : bool := ltb (key a) (key b).
  Let le (x y: A) : Prop := ltb (key y) (key x) = false.

  Lemma ins_sorted_in x y l : In y (insert_sorted lt x l) <-> y = x \/ In y l.
  Proof.
    induction l as [|z l IH]; cbn [insert_sorted].
    - cbn. intuition.
    - destruct (lt x z); cbn [In]; [|rewrite IH]; intuition.
  Qed.

  Lemma ins_sorted_perm x l : Permutation (x :: l) (insert_sorted lt x l).
  Proof.
    induction l as [|z l IH]; cbn [insert_sorted]; [apply Permutation_refl|].
    destruct (lt x z); [apply Permutation_refl|].
    eapply perm_trans; [apply perm_swap|]. apply perm_skip. exact IH.
  Qed.

  Lemma sort_with_perm l : Permutation l (sort_with lt l).
  Proof.
    induction l as [|x l IH]; [apply perm_nil|].
    change (sort_with lt (x :: l)) with (insert_sorted lt x (sort_with lt l)).
    eapply perm_trans; [apply perm_skip; exact IH|]. apply ins_sorted_perm.
  Qed.

  Lemma ins_sorted_sorted x l : StronglySorted le l -> StronglySorted le (insert_sorted lt x l).
  Proof.
    induction 1 as [|z l Hs IH Hz]; cbn [insert_sorted].
    - constructor; constructor.
    - destruct (lt x z) eqn:E.
      + constructor; [constructor; assumption|]. constructor.
        * unfold le. apply (ltb_asym ltb ltb_irrefl ltb_trans). exact E.
        * rewrite Forall_forall in *. intros w Hw. specialize (Hz w Hw). unfold le in *.
          destruct (ltb (key w) (key x)) eqn:E2; [|reflexivity].
          pose proof (ltb_trans _ _ _ E2 E) as C. congruence.
      + constructor; [exact IH|]. rewrite Forall_forall in *. intros w Hw.
        apply ins_sorted_in in Hw. destruct Hw as [->|Hw]; [exact E|apply Hz; exact Hw].
  Qed.

  Lemma sort_with_sorted l : StronglySorted le (sort_with lt l).
  Proof.
    induction l as [|x l IH]; [constructor|].
    change (sort_with lt (x :: l)) with (insert_sorted lt x (sort_with lt l)).
    apply ins_sorted_sorted. exact IH.
  Qed.

  (* members whose keys do not order them are the same member: then the two sorts agree *)
  Theorem sort_with_is_sort_by l : ties_identical ltb key l -> sort_with lt l = sort_by ltb key l.
  Proof.
    intros Ht.
    apply (sorted_perm_unique ltb key); [apply sort_with_sorted|apply (sort_by_sorted ltb key ltb_irrefl ltb_trans ltb_negtrans)| |].
    - eapply perm_trans; [apply Permutation_sym, sort_with_perm|]. apply (sort_by_perm_self ltb key).
    - intros x y Hx Hy. apply Ht; eapply Permutation_in; try apply Permutation_sym, sort_with_perm; assumption.
  Qed.
End TwoSorts.

(* the reference's sort only looks at its comparison on the members *)
Lemma ins_sorted_ext {A} (f g: A -> A -> bool) x l : (forall y, In y l -> f x y = g x y) ->
  insert_sorted f x l = insert_sorted g x l.
Proof.
  induction l as [|z l IH]; intros H; [reflexivity|]. cbn [insert_sorted].
  rewrite (H z (or_introl eq_refl)). destruct (g x z); [reflexivity|]. f_equal. apply IH. intros y Hy. apply H. right. exact Hy.
Qed.

Lemma ins_sorted_in' {A} (f: A -> A -> bool) x y l : In y (insert_sorted f x l) -> y = x \/ In y l.
Proof.
  induction l as [|z l IH]; cbn [insert_sorted].
  - cbn. intuition.
  - destruct (f x z); cbn [In]; intuition.
Qed.

Lemma sort_with_in {A} (f: A -> A -> bool) y l : In y (sort_with f l) -> In y l.
Proof.
  induction l as [|x l IH]; [cbn; auto|].
  change (sort_with f (x :: l)) with (insert_sorted f x (sort_with f l)).
  intros H. apply ins_sorted_in' in H. destruct H as [->|H]; [left; reflexivity|right; apply IH; exact H].
Qed.

Lemma sort_with_ext {A} (f g: A -> A -> bool) l : (forall x y, In x l -> In y l -> f x y = g x y) ->
  sort_with f l = sort_with g l.
Proof.
  induction l as [|x l IH]; intros H; [reflexivity|].
  change (sort_with f (x :: l)) with (insert_sorted f x (sort_with f l)).
  change (sort_with g (x :: l)) with (insert_sorted g x (sort_with g l)).
  rewrite <- IH by (intros a b Ha Hb; apply H; right; assumption).
  apply ins_sorted_ext. intros y Hy. apply H; [left; reflexivity|right; apply (sort_with_in f); exact Hy].
Qed.

Lemma ins_sorted_map {A B} (g: A -> B) (f: B -> B -> bool) x l :
  insert_sorted f (g x) (map g l) = map g (insert_sorted (fun a b => f (g a) (g b)) x l).
Proof.
  induction l as [|z l IH]; [reflexivity|]. cbn [map insert_sorted].
  destruct (f (g x) (g z)); [reflexivity|]. cbn [map]. f_equal. exact IH.
Qed.

Lemma sort_with_map {A B} (g: A -> B) (f: B -> B -> bool) l :
  sort_with f (map g l) = map g (sort_with (fun a b => f (g a) (g b)) l).
Proof.
  induction l as [|x l IH]; [reflexivity|]. cbn [map].
  change (sort_with f (g x :: map g l)) with (insert_sorted f (g x) (sort_with f (map g l))).
  rewrite IH. apply ins_sorted_map.
Qed.

(* ====================================================================== *)
(* 2. SET OF: X.690 11.6 against sort_setof                                *)
(* ====================================================================== *)

Lemma lex_is_bytes_ltb : forall a b, lex_ltb a b = bytes_ltb a b.
Proof. intros a b. reflexivity. Qed.

Lemma bytes_ltb_app_same z : forall a b, length a = length b -> bytes_ltb (a ++ z) (b ++ z) = bytes_ltb a b.
Proof.
  induction a as [|x a IH]; destruct b as [|y b]; intros Hl; try discriminate Hl.
  - cbn [app]. rewrite bytes_ltb_irrefl. reflexivity.
  - cbn [length] in Hl. cbn [app bytes_ltb]. rewrite (IH b) by lia. reflexivity.
Qed.

Lemma pad_to_more (n m: nat) a : (length a <= n)%nat -> (n <= m)%nat -> pad_to m a = pad_to n a ++ repeat 0 (m - n).
Proof.
  intros H1 H2. unfold pad_to. rewrite <- app_assoc, <- repeat_app. f_equal. f_equal. lia.
Qed.

Lemma pad_to_length n a : (length a <= n)%nat -> length (pad_to n a) = n.
Proof. intros H. unfold pad_to. rewrite app_length, repeat_length. lia. Qed.

(* the reference pads pairwise, the library pads to the longest member: the same comparison *)
Lemma octets_ltb_padded (m: nat) a b : (length a <= m)%nat -> (length b <= m)%nat ->
  octets_ltb a b = bytes_ltb (pad_to m a) (pad_to m b).
Proof.
  intros Ha Hb. unfold octets_ltb. set (n := Nat.max (length a) (length b)).
  change (zero_pad n a) with (pad_to n a). change (zero_pad n b) with (pad_to n b).
  rewrite lex_is_bytes_ltb.
  rewrite (pad_to_more n m a), (pad_to_more n m b) by (subst n; lia).
  symmetry. apply bytes_ltb_app_same. rewrite !pad_to_length by (subst n; lia). reflexivity.
Qed.

Lemma in_max_len (a: bytes) l : In a l -> (length a <= ContainerCodecDefs.max_len l)%nat.
Proof.
  unfold ContainerCodecDefs.max_len. induction l as [|x l IH]; intros H; [contradiction|].
  cbn [fold_right]. destruct H as [->|H]; [lia|]. specialize (IH H). lia.
Qed.

Theorem sort_setof_is_reference es : pad_distinct es -> sort_setof es = sort_with octets_ltb es.
Proof.
  intros Hpd.
  assert (Hgen: sort_by bytes_ltb (pad_to (ContainerCodecDefs.max_len es)) es = sort_with octets_ltb es).
  { set (m := ContainerCodecDefs.max_len es).
    rewrite (sort_with_ext octets_ltb (fun a b => bytes_ltb (pad_to m a) (pad_to m b)) es).
    - symmetry. apply (sort_with_is_sort_by bytes_ltb (pad_to m) bytes_ltb_irrefl bytes_ltb_trans bytes_ltb_negtrans).
      intros x y Hx Hy H1 H2. unfold le_key in H1, H2. apply Hpd; [exact Hx|exact Hy|].
      apply bytes_ltb_tricho; assumption.
    - intros x y Hx Hy. apply octets_ltb_padded; apply in_max_len; assumption. }
  unfold sort_setof. destruct es as [|a [|b r]]; [reflexivity|reflexivity|]. exact Hgen.
Qed.

(* ====================================================================== *)
(* 3. SET: X.690 10.3 (order of the tags) against sort_by tagset_ltb        *)
(* ====================================================================== *)

(* the reference's ordering key (class, number) of a one-tag sort key of the library *)
Definition tkey (k: tagset) : N * N := match k with [t] => (class_no (tcls t), tnum t) | _ => (0, 0) end.
Definition single (k: tagset) : bool := match k with [_] => true | _ => false end.
Fixpoint pairwise_ord (ks: list tagset) : bool :=
  match ks with
  | [] => true
  | k :: r => forallb (fun k' => tagset_ltb k k' || tagset_ltb k' k) r && pairwise_ord r
  end.

Lemma cls_ltb_no c1 c2 : N.ltb (cls_bits c1) (cls_bits c2) = N.ltb (class_no c1) (class_no c2).
Proof. destruct c1, c2; reflexivity. Qed.
Lemma cls_eqb_no c1 c2 : N.eqb (cls_bits c1) (cls_bits c2) = N.eqb (class_no c1) (class_no c2).
Proof. destruct c1, c2; reflexivity. Qed.

Lemma key_ltb_single a b : single a = true -> single b = true -> key_ltb (tkey a) (tkey b) = tagset_ltb a b.
Proof.
  destruct a as [|ta [|? ?]]; try discriminate. destruct b as [|tb [|? ?]]; try discriminate. intros _ _.
  cbn [tagset_ltb]. rewrite Bool.andb_false_r, Bool.orb_false_r.
  unfold key_ltb, tkey, tag_ltb. cbn [fst snd]. rewrite cls_ltb_no, cls_eqb_no. reflexivity.
Qed.

Lemma pairwise_ties (parts: list (tagset * bytes)) : pairwise_ord (map fst parts) = true ->
  ties_identical tagset_ltb fst parts.
Proof.
  induction parts as [|p r IH]; intros Hp x y Hx Hy H1 H2; [contradiction|].
  cbn [map pairwise_ord] in Hp. apply andb_true_iff in Hp. destruct Hp as [Hall Hr].
  rewrite forallb_forall in Hall. unfold le_key in H1, H2.
  destruct Hx as [<-|Hx]; destruct Hy as [<-|Hy].
  - reflexivity.
  - specialize (Hall (fst y) (in_map fst _ _ Hy)). rewrite H1, H2 in Hall. discriminate Hall.
  - specialize (Hall (fst x) (in_map fst _ _ Hx)). rewrite H1, H2 in Hall. discriminate Hall.
  - apply (IH Hr x y Hx Hy H1 H2).
Qed.

Theorem set_sort_is_reference (parts: list (tagset * bytes)) :
  forallb single (map fst parts) = true -> pairwise_ord (map fst parts) = true ->
  map snd (sort_with (fun a b => key_ltb (fst a) (fst b)) (map (fun p => (tkey (fst p), snd p)) parts))
  = map snd (sort_by tagset_ltb fst parts).
Proof.
  intros Hs Hp. rewrite sort_with_map. rewrite map_map. cbn [fst snd].
  rewrite (sort_with_ext _ (fun a b : tagset * bytes => tagset_ltb (fst a) (fst b)) parts).
  - rewrite (sort_with_is_sort_by tagset_ltb fst tagset_ltb_irrefl tagset_ltb_trans tagset_ltb_negtrans parts (pairwise_ties parts Hp)).
    apply map_ext. reflexivity.
  - rewrite forallb_forall in Hs. intros x y Hx Hy.
    apply key_ltb_single; apply Hs; apply in_map; assumption.
Qed.

(* ====================================================================== *)
(* 4. tagging and framing when the base type has no tag of its own          *)
(* ====================================================================== *)

(* CHOICE and ANY as written (not under a tag) *)
Definition bare (T: ty) : bool := match T with TChoice _ | TAny => true | _ => false end.

(* no IMPLICIT tag directly on a CHOICE or an ANY: X.680 31.2.7 turns such a tag into an EXPLICIT one,
   and so does the library (TagSet.tagImplicitly on an empty tag set keeps the tag, the encoder wraps);
   the reference re-tags the chosen alternative instead - see the witnesses at the end *)
Fixpoint imp_ok (T: ty) : bool :=
  match T with
  | TImp _ x => negb (bare x) && imp_ok x
  | TExp _ x => imp_ok x
  | _ => true
  end.

Lemma nonbare_tagset x ts : bare x = false -> tagset_of x = Ok ts -> ts <> [].
Proof.
  destruct x; intros Hb Hts; try discriminate Hb; cbn [tagset_of] in Hts;
    try (injection Hts as <-; discriminate).
  - destruct (tagset_of x) as [ts'|]; cbn [bind] in Hts; [|discriminate]. injection Hts as <-. apply tag_implicitly_nonempty.
  - destruct (tagset_of x) as [ts'|]; cbn [bind] in Hts; [|discriminate].
    unfold tag_explicitly in Hts. destruct (tcls t); try discriminate; injection Hts as <-;
      intros H; apply app_eq_nil in H; destruct H as [_ H]; discriminate H.
Qed.

Lemma bare_tagset T : bare T = true -> tagset_of T = Ok [].
Proof. destruct T; try discriminate; reflexivity. Qed.

Theorem canon_wrappers2 : forall T v c tsb, imp_ok T = true ->
  tagset_of (base_of T) = Ok tsb -> canon false (base_of T) v = Some (ref_frame tsb c) ->
  forall ts, tagset_of T = Ok ts -> canon false T v = Some (ref_frame ts c).
Proof.
  induction T as [| | | | | | | | n|fs IH|fs IH|t IH|t IH|alts IH| |tg x IH|tg x IH] using ty_ind';
    intros v c tsb Hi H1 H2 ts Hts;
    try (cbn [base_of] in H1, H2; rewrite H1 in Hts; injection Hts as <-; exact H2).
  - cbn [imp_ok] in Hi. apply andb_true_iff in Hi. destruct Hi as [Hnb Hi]. apply Bool.negb_true_iff in Hnb.
    cbn [tagset_of] in Hts. destruct (tagset_of x) as [ts'|] eqn:Ex; cbn [bind] in Hts; [|discriminate].
    injection Hts as <-.
    pose proof (nonbare_tagset x ts' Hnb Ex) as Hne.
    rewrite canon_imp, (IH v c tsb Hi H1 H2 ts' eq_refl).
    destruct (exists_last Hne) as (ts0 & last & ->).
    rewrite tag_implicitly_spec, !ref_frame_snoc. cbn [opt_bind]. apply retag_tlv_tag.
  - cbn [imp_ok] in Hi.
    cbn [tagset_of] in Hts. destruct (tagset_of x) as [ts'|] eqn:Ex; cbn [bind] in Hts; [|discriminate].
    pose proof (tag_explicitly_spec ts' tg) as Hsp. rewrite Hts in Hsp. destruct Hsp as [Hnu ->].
    rewrite canon_exp, (IH v c tsb Hi H1 H2 ts' eq_refl), ref_frame_snoc. cbn [opt_bind ctlv].
    destruct (tcls tg); [congruence|reflexivity|reflexivity|reflexivity].
Qed.

Lemma tagset_all_cons2 : forall T tsb ts, imp_ok T = true -> tagset_of (base_of T) = Ok tsb ->
  Forall (fun t => tcon t = true) tsb -> tagset_of T = Ok ts -> Forall (fun t => tcon t = true) ts.
Proof.
  induction T as [| | | | | | | | n|fs IH|fs IH|t IH|t IH|alts IH| |tg x IH|tg x IH] using ty_ind';
    intros tsb ts Hi Hb Hc Hts;
    try (cbn [base_of] in Hb; rewrite Hb in Hts; injection Hts as <-; exact Hc).
  - cbn [imp_ok] in Hi. apply andb_true_iff in Hi. destruct Hi as [Hnb Hi]. apply Bool.negb_true_iff in Hnb.
    cbn [tagset_of] in Hts. destruct (tagset_of x) as [ts'|] eqn:Ex; cbn [bind] in Hts; [|discriminate].
    injection Hts as <-. pose proof (IH tsb ts' Hi Hb Hc eq_refl) as Hall.
    destruct (exists_last (nonbare_tagset x ts' Hnb Ex)) as (ts0 & last & E). rewrite E in *.
    rewrite tag_implicitly_spec. apply Forall_app in Hall. destruct Hall as [H0 Hl].
    apply Forall_app. split; [exact H0|]. constructor; [|constructor]. inversion Hl; subst. assumption.
  - cbn [imp_ok] in Hi.
    cbn [tagset_of] in Hts. destruct (tagset_of x) as [ts'|] eqn:Ex; cbn [bind] in Hts; [|discriminate].
    pose proof (tag_explicitly_spec ts' tg) as Hsp. rewrite Hts in Hsp. destruct Hsp as [_ ->].
    apply Forall_app. split; [exact (IH tsb ts' Hi Hb Hc eq_refl)|]. constructor; [reflexivity|constructor].
Qed.

(* an encoding that begins with the identifier octets of the tag, in some form *)
Definition starts_with (t: tag) (b: bytes) : Prop := exists pc rest, b = ident (tcls t) pc (tnum t) ++ rest.

Lemma starts_with_key t b : starts_with t b -> tag_key b = tkey [t].
Proof. intros (pc & rest & ->). unfold tag_key. rewrite split_ident_ident. reflexivity. Qed.

Lemma ref_frame_starts ts0 l c : starts_with l (ref_frame (ts0 ++ [l]) c).
Proof. rewrite ref_frame_snoc. unfold tlv_tag, tlv. eexists. eexists. reflexivity. Qed.

Lemma chosen_outer_tagged T v : bare T = false -> chosen_outer T v = last_tag (tagset_of' T).
Proof. destruct T; intros H; try discriminate H; reflexivity. Qed.

Lemma last_tag_snoc ts0 l : last_tag (ts0 ++ [l]) = [l].
Proof. unfold last_tag. rewrite rev_app_distr. reflexivity. Qed.

(* ifNotEmpty changes nothing unless the item is constructed and empty *)
Lemma frame_ifne_irrelevant ts content ic si : (ic = false \/ content <> []) ->
  frame ts content ic (mkOpts true 0 true) si = frame ts content ic def_opts si.
Proof.
  intros H. destruct ts as [|t0 r]; [reflexivity|]. cbn [frame o_ifne o_def def_opts].
  destruct H as [->|H]; [rewrite !Bool.andb_false_r; reflexivity|].
  destruct content; [congruence|reflexivity].
Qed.

(* ====================================================================== *)
(* 5. the whole universe                                                   *)
(* ====================================================================== *)

(* finding F24, stated with the reference: the component is present and its distinguished encoding has
   empty contents - an empty SEQUENCE / SET / SEQUENCE OF / SET OF (30 00, 31 00) or a CHOICE whose
   alternative encodes to nothing (an empty ANY) *)
Definition f24_case (T: ty) (v: val) : bool :=
  match base_of T with
  | TSeq _ | TSeqOf _ | TSet _ | TSetOf _ => match der (base_of T) v with Some [_; 0] => true | _ => false end
  | TChoice _ => match der (base_of T) v with Some [] => true | _ => false end
  | _ => false
  end.

(* the library's sort keys of the components of a SET that hold a value *)
Fixpoint present_keys (fs: list (presence * ty)) (vs: list (option val)) : list tagset :=
  match fs with
  | [] => []
  | (p, ft) :: fs' => match ohd vs with
                      | Some x => chosen_outer ft x :: present_keys fs' (otl vs)
                      | None => present_keys fs' (otl vs)
                      end
  end.

(* X.680 27.3: the components of a SET carry distinct tags (an ANY has none to order it by) *)
Definition set_keys_ok (fs: list (presence * ty)) (vs: list (option val)) : bool :=
  forallb single (present_keys fs vs) && pairwise_ord (present_keys fs vs).

(* The domain.  Every type; values of the right kind at every level; and
   - no IMPLICIT tag directly on CHOICE / ANY (imp_ok);
   - mandatory components assigned; OPTIONAL components outside F24; DEFAULT components of simple type;
   - SET: distinct tags among the components present;
   - SET OF: an ANY element (reached through untagged CHOICEs) holds one complete TLV (any_tlv);
   - REAL not in decimal form (der_ref_base). *)
Fixpoint der_all (T: ty) (v: val) {struct T} : bool :=
  match T with
  | TImp _ x => negb (bare x) && der_all x v
  | TExp _ x => der_all x v
  | TSeqOf t => match v with VList xs => forallb (der_all t) xs | _ => false end
  | TSetOf t => match v with VList xs => forallb (fun x => der_all t x && any_tlv t x) xs | _ => false end
  | TSeq fs =>
      match v with
      | VRec vs =>
          (fix go (fs: list (presence * ty)) (vs: list (option val)) : bool :=
             match fs with
             | [] => true
             | (p, ft) :: fs' =>
                 (match p, ohd vs with
                  | Req, None => false
                  | _, None => true
                  | Req, Some x => der_all ft x
                  | Opt, Some x => der_all ft x && negb (f24_case ft x)
                  | Def d, Some x => simple_base (base_of ft) && der_all ft x && der_all ft d
                  end) && go fs' (otl vs)
             end) fs vs
      | _ => false
      end
  | TSet fs =>
      match v with
      | VRec vs =>
          set_keys_ok fs vs &&
          (fix go (fs: list (presence * ty)) (vs: list (option val)) : bool :=
             match fs with
             | [] => true
             | (p, ft) :: fs' =>
                 (match p, ohd vs with
                  | Req, None => false
                  | _, None => true
                  | Req, Some x => der_all ft x
                  | Opt, Some x => der_all ft x && negb (f24_case ft x)
                  | Def d, Some x => simple_base (base_of ft) && der_all ft x && der_all ft d
                  end) && go fs' (otl vs)
             end) fs vs
      | _ => false
      end
  | TChoice alts =>
      match v with
      | VChoice i x =>
          (fix go (l: list ty) (k: nat) : bool :=
             match l, k with
             | a :: _, O => der_all a x
             | _ :: r, S k' => go r k'
             | [], _ => false
             end) alts i
      | _ => false
      end
  | TAny => match v with VAny _ => true | _ => false end
  | _ => der_ref_base T v
  end.

Definition all_fields : list (presence * ty) -> list (option val) -> bool :=
  fix go (fs: list (presence * ty)) (vs: list (option val)) : bool :=
    match fs with
    | [] => true
    | (p, ft) :: fs' =>
        (match p, ohd vs with
         | Req, None => false
         | _, None => true
         | Req, Some x => der_all ft x
         | Opt, Some x => der_all ft x && negb (f24_case ft x)
         | Def d, Some x => simple_base (base_of ft) && der_all ft x && der_all ft d
         end) && go fs' (otl vs)
    end.

Lemma der_all_seq fs vs : der_all (TSeq fs) (VRec vs) = all_fields fs vs.
Proof. reflexivity. Qed.
Lemma der_all_set fs vs : der_all (TSet fs) (VRec vs) = set_keys_ok fs vs && all_fields fs vs.
Proof. reflexivity. Qed.
Lemma all_fields_cons p ft fs' vs :
  all_fields ((p, ft) :: fs') vs =
  (match p, ohd vs with
   | Req, None => false
   | _, None => true
   | Req, Some x => der_all ft x
   | Opt, Some x => der_all ft x && negb (f24_case ft x)
   | Def d, Some x => simple_base (base_of ft) && der_all ft x && der_all ft d
   end) && all_fields fs' (otl vs).
Proof. reflexivity. Qed.

Lemma der_all_choice alts i x :
  der_all (TChoice alts) (VChoice i x) = match nth_error alts i with Some a => der_all a x | None => false end.
Proof.
  cbn [der_all]. revert i. induction alts as [|a r IH]; intros [|i]; try reflexivity. cbn [nth_error]. apply IH.
Qed.

Lemma canon_choice cer alts i x :
  canon cer (TChoice alts) (VChoice i x) = match nth_error alts i with Some a => canon cer a x | None => None end.
Proof.
  cbn [canon]. revert i. induction alts as [|a r IH]; intros [|i]; try reflexivity. cbn [nth_error]. apply IH.
Qed.

Lemma der_all_base : forall T v, der_all T v = imp_ok T && der_all (base_of T) v.
Proof.
  induction T as [| | | | | | | | n|fs IH|fs IH|t IH|t IH|alts IH| |tg x IH|tg x IH] using ty_ind'; intros v; try reflexivity.
  - cbn [der_all imp_ok base_of]. rewrite IH, Bool.andb_assoc. reflexivity.
  - cbn [der_all imp_ok base_of]. apply IH.
Qed.

Lemma der_all_simple T v : simple_base (base_of T) = true -> der_all (base_of T) v = der_ref_base (base_of T) v.
Proof. intros Hs. destruct (base_of T); try discriminate Hs; reflexivity. Qed.

Lemma f24_case_base T v : f24_case T v = f24_case (base_of T) v.
Proof. unfold f24_case. rewrite base_of_idem. reflexivity. Qed.

(* ---- the model's and the reference's loops, named ---- *)

Definition fparts (dyn: bool) : list (presence * ty) -> list (option val) -> res (list (tagset * bytes)) :=
  fix go (fs: list (presence * ty)) (vs: list (option val)) : res (list (tagset * bytes)) :=
    match fs with
    | [] => Ok []
    | (p, ft) :: fs' =>
        let ov := match vs with x :: _ => x | [] => None end in
        let vs' := match vs with _ :: r => r | [] => [] end in
        let o' := mkOpts true 0 (match p with Opt => true | _ => false end) in
        let emit (x: val) := do b <- enc DER ft o' x; do rest <- go fs' vs';
                             Ok ((set_sort_key dyn ft x, b) :: rest) in
        match p, ov with
        | Opt, None => go fs' vs'
        | Def d, None => go fs' vs'
        | Def d, Some x => match val_py_eq x d with
                           | Some true => go fs' vs'
                           | Some false => emit x
                           | None => Err EUnmodelled end
        | Req, None => if all_optional_container ft then emit (VRec []) else Err EMalformed
        | _, Some x => emit x
        end
    end.

Lemma enc_content_seq2 fs vs :
  enc_content DER (TSeq fs) EcSeq (mkEncFlags true false true None 0 0) def_opts (VRec vs) =
  (do parts <- fparts false fs vs; Ok (concat (map snd parts), true)).
Proof. reflexivity. Qed.

Lemma enc_content_set2 fs fl vs :
  enc_content DER (TSet fs) EcSetDer fl def_opts (VRec vs) =
  (do parts <- fparts true fs vs; Ok (concat (map snd (sort_by tagset_ltb fst parts)), true)).
Proof. reflexivity. Qed.

Lemma fparts_cons dyn p ft fs' vs :
  fparts dyn ((p, ft) :: fs') vs =
  let emit (x: val) := do b <- enc DER ft (mkOpts true 0 (match p with Opt => true | _ => false end)) x;
                       do rest <- fparts dyn fs' (otl vs);
                       Ok ((set_sort_key dyn ft x, b) :: rest) in
  match p, ohd vs with
  | Opt, None => fparts dyn fs' (otl vs)
  | Def d, None => fparts dyn fs' (otl vs)
  | Def d, Some x => match val_py_eq x d with
                     | Some true => fparts dyn fs' (otl vs)
                     | Some false => emit x
                     | None => Err EUnmodelled end
  | Req, None => if all_optional_container ft then emit (VRec []) else Err EMalformed
  | _, Some x => emit x
  end.
Proof. reflexivity. Qed.

Lemma enc_content_setof2 t fl xs :
  enc_content DER (TSetOf t) EcSetOfCer fl def_opts (VList xs) =
  (do parts <- seqof_parts t def_opts xs; Ok (concat (sort_setof parts), true)).
Proof. reflexivity. Qed.

Lemma canon_setof cer t xs :
  canon cer (TSetOf t) (VList xs) =
  opt_bind (opt_all (map (canon cer t) xs)) (fun es => Some (ctlv cer Univ 17 (concat (sort_with octets_ltb es)))).
Proof.
  cbn [canon].
  match goal with |- opt_bind (opt_all ?a) _ = _ => assert (E: a = map (canon cer t) xs) end.
  { induction xs as [|x r IH]; [reflexivity|]. cbn [map]. rewrite <- IH. reflexivity. }
  rewrite E. reflexivity.
Qed.

(* the SET loop of the reference: (ordering key, encoding) of every component present *)
Definition canon_set_fields (cer: bool) : list (presence * ty) -> list (option val) -> option (list ((N * N) * bytes)) :=
  fix go (fs: list (presence * ty)) (vs: list (option val)) : option (list ((N * N) * bytes)) :=
    match fs with
    | [] => Some []
    | (p, ft) :: fs' =>
        let ov := match vs with x :: _ => x | [] => None end in
        let vs' := match vs with _ :: r => r | [] => [] end in
        let emit (x: val) :=
          opt_bind (canon cer ft x) (fun e =>
          opt_bind (go fs' vs') (fun r =>
            Some (((if cer then min_first_tag ft else tag_key e), e) :: r))) in
        match p, ov with
        | Req, None => None
        | Opt, None | Def _, None => go fs' vs'
        | Def d, Some x => if is_default ft x d then go fs' vs' else emit x
        | _, Some x => emit x
        end
    end.

Lemma canon_set cer fs vs :
  canon cer (TSet fs) (VRec vs) =
  opt_bind (canon_set_fields cer fs vs)
    (fun es => Some (ctlv cer Univ 17 (concat (map snd (sort_with (fun a b => key_ltb (fst a) (fst b)) es))))).
Proof. reflexivity. Qed.

Lemma canon_set_fields_cons cer p ft fs' vs :
  canon_set_fields cer ((p, ft) :: fs') vs =
  let emit (x: val) :=
    opt_bind (canon cer ft x) (fun e =>
    opt_bind (canon_set_fields cer fs' (otl vs)) (fun r =>
      Some (((if cer then min_first_tag ft else tag_key e), e) :: r))) in
  match p, ohd vs with
  | Req, None => None
  | Opt, None | Def _, None => canon_set_fields cer fs' (otl vs)
  | Def d, Some x => if is_default ft x d then canon_set_fields cer fs' (otl vs) else emit x
  | _, Some x => emit x
  end.
Proof. reflexivity. Qed.

(* under DER the SET loop is the SEQUENCE loop with the tag of each encoding read back *)
Lemma canon_set_fields_der : forall fs vs,
  canon_set_fields false fs vs = option_map (map (fun e => (tag_key e, e))) (canon_fields false fs vs).
Proof.
  induction fs as [|[p ft] fs' IH]; intros vs; [reflexivity|].
  rewrite canon_set_fields_cons, canon_fields_cons. cbv zeta.
  assert (Hemit: forall x,
    opt_bind (canon false ft x) (fun e => opt_bind (canon_set_fields false fs' (otl vs)) (fun r => Some ((tag_key e, e) :: r)))
    = option_map (map (fun e => (tag_key e, e)))
        (opt_bind (canon false ft x) (fun e => opt_bind (canon_fields false fs' (otl vs)) (fun r => Some (e :: r))))).
  { intros x. destruct (canon false ft x) as [e|]; [|reflexivity]. cbn [opt_bind]. rewrite IH.
    destruct (canon_fields false fs' (otl vs)); reflexivity. }
  destruct p as [| |d]; destruct (ohd vs) as [x|]; try apply IH; try apply Hemit; try reflexivity.
  destruct (is_default ft x d); [apply IH|apply Hemit].
Qed.

(* ---- soundness ---- *)

(* the encoding begins with the tag the library sorts a SET component by *)
Definition starts_key (T: ty) (v: val) (b: bytes) : Prop := forall t, chosen_outer T v = [t] -> starts_with t b.

Definition Psound (T: ty) : Prop := forall i v b,
  der_all T v = true -> (i = false \/ f24_case T v = false) ->
  enc DER T (mkOpts true 0 i) v = Ok b -> der T v = Some b /\ starts_key T v b.

Definition Qsound (T: ty) : Prop := forall v cd fl content ic,
  der_all (base_of T) v = true -> concrete_encoder DER (base_of T) = Ok (cd, fl) ->
  enc_content DER (base_of T) cd fl def_opts v = Ok (content, ic) ->
  exists tsb, tagset_of (base_of T) = Ok tsb /\ (ic = true -> Forall (fun t => tcon t = true) tsb) /\
     (ic = true -> content = [] -> f24_case (base_of T) v = true) /\
     canon false (base_of T) v = Some (ref_frame tsb content) /\ (tsb = [] -> starts_key (base_of T) v content).

Lemma empty_tagset_bare T : tagset_of T = Ok [] -> bare T = true.
Proof.
  intros H. destruct (bare T) eqn:E; [reflexivity|]. exfalso. exact (nonbare_tagset T [] E H eq_refl).
Qed.

Lemma bare_base T : bare T = true -> base_of T = T.
Proof. destruct T; try discriminate; reflexivity. Qed.

Lemma forms_of_cons ts : Forall (fun t => tcon t = true) ts -> Forall (form_agrees true) ts.
Proof.
  intros H. apply Forall_forall. intros t Ht. rewrite Forall_forall in H. unfold form_agrees. rewrite (H t Ht). reflexivity.
Qed.

Theorem P_of_Q T : Qsound T -> Psound T.
Proof.
  intros HQ i v b Hd Hi He. rewrite der_all_base in Hd. apply andb_true_iff in Hd. destruct Hd as [Himp Hdb].
  rewrite enc_der_unfold in He.
  destruct (concrete_encoder DER T) as [[cd fl]|] eqn:Ece; cbn [bind fst snd] in He; [|discriminate He].
  destruct (tagset_of T) as [ts|] eqn:Ets; cbn [bind] in He; [|discriminate He].
  destruct (enc_content DER T cd fl def_opts v) as [[content ic]|] eqn:Ec; cbn [bind fst snd] in He; [|discriminate He].
  rewrite concrete_encoder_base in Ece. rewrite enc_content_base in Ec.
  destruct (HQ v cd fl content ic Hdb Ece Ec) as (tsb & Htsb & Hcons & Hf24 & Hcan & Hkey).
  pose proof (canon_wrappers2 T v content tsb Himp Htsb Hcan ts Ets) as Hcanon.
  assert (Hb: b = ref_frame ts content).
  { assert (Hfr: frame ts content ic def_opts (ef_indef fl) = Ok b).
    { destruct i; [|exact He]. rewrite frame_ifne_irrelevant in He; [exact He|].
      destruct ic; [right|left; reflexivity]. intros ->.
      destruct Hi as [Hi|Hi]; [discriminate Hi|]. rewrite f24_case_base, (Hf24 eq_refl eq_refl) in Hi. discriminate Hi. }
    apply (frame_is_ref ts content ic def_opts (ef_indef fl) b eq_refl eq_refl); [|exact Hfr].
    destruct ic; [|apply all_form_agrees_prim].
    apply forms_of_cons. apply (tagset_all_cons2 T tsb ts Himp Htsb (Hcons eq_refl) Ets). }
  subst b. split; [exact Hcanon|].
  intros t Hco. destruct ts as [|t1 r1].
  - pose proof (empty_tagset_bare T Ets) as Hbare. rewrite (bare_base T Hbare) in *.
    rewrite Ets in Htsb. injection Htsb as <-. apply (Hkey eq_refl t Hco).
  - destruct (@exists_last _ (t1 :: r1)) as (ts0 & l & E); [discriminate|]. rewrite E in *.
    assert (Hnb: bare T = false).
    { destruct (bare T) eqn:Eb; [|reflexivity]. rewrite (bare_tagset T Eb) in Ets. injection Ets as Ets.
      symmetry in Ets. apply app_eq_nil in Ets. destruct Ets as [_ Ets]. discriminate Ets. }
    rewrite (chosen_outer_tagged T v Hnb) in Hco. unfold tagset_of' in Hco. rewrite Ets, last_tag_snoc in Hco.
    injection Hco as <-. apply ref_frame_starts.
Qed.

Lemma fields_sound dyn : forall fs, Forall (fun f => Psound (snd f)) fs ->
  forall vs parts, all_fields fs vs = true -> fparts dyn fs vs = Ok parts ->
  canon_fields false fs vs = Some (map snd parts) /\
  (dyn = true -> Forall (fun p => forall t, fst p = [t] -> starts_with t (snd p)) parts).
Proof.
  induction fs as [|[p ft] fs' IH]; intros Hall vs parts Hd Hp.
  - cbn in Hp. injection Hp as <-. split; [reflexivity|intros _; constructor].
  - inversion Hall as [|? ? Hft Hall']; subst. cbn [snd] in Hft. specialize (IH Hall').
    rewrite all_fields_cons in Hd. apply andb_true_iff in Hd. destruct Hd as [Hd1 Hd2].
    rewrite fparts_cons in Hp. rewrite canon_fields_cons. cbv zeta in Hp.
    assert (Hemit: forall i x, der_all ft x = true -> (i = false \/ f24_case ft x = false) ->
              (do b <- enc DER ft (mkOpts true 0 i) x; do rest <- fparts dyn fs' (otl vs);
               Ok ((set_sort_key dyn ft x, b) :: rest)) = Ok parts ->
              opt_bind (canon false ft x) (fun e => opt_bind (canon_fields false fs' (otl vs)) (fun r => Some (e :: r)))
              = Some (map snd parts) /\
              (dyn = true -> Forall (fun p => forall t, fst p = [t] -> starts_with t (snd p)) parts)).
    { intros i x Hx Hi H.
      destruct (enc DER ft (mkOpts true 0 i) x) as [b0|] eqn:Eb; cbn [bind] in H; [|discriminate H].
      destruct (fparts dyn fs' (otl vs)) as [rest|] eqn:Er; cbn [bind] in H; [|discriminate H].
      injection H as <-.
      destruct (Hft i x b0 Hx Hi Eb) as [Hc Hk]. unfold der in Hc.
      destruct (IH (otl vs) rest Hd2 Er) as [IH1 IH2].
      split; [rewrite Hc, IH1; reflexivity|].
      intros ->. constructor; [|apply IH2; reflexivity]. cbn [fst snd set_sort_key]. exact Hk. }
    destruct p as [| |d]; destruct (ohd vs) as [x|].
    + apply (Hemit false x Hd1); [left; reflexivity|exact Hp].
    + discriminate Hd1.
    + apply andb_true_iff in Hd1. destruct Hd1 as [Hx Hf]. apply Bool.negb_true_iff in Hf.
      apply (Hemit true x Hx); [right; exact Hf|exact Hp].
    + apply IH; assumption.
    + apply andb_true_iff in Hd1. destruct Hd1 as [Hd1 Hdd]. apply andb_true_iff in Hd1. destruct Hd1 as [Hs Hx].
      assert (Hxr: der_ref_deep ft x = true /\ der_ref_deep ft d = true).
      { rewrite der_all_base in Hx, Hdd. apply andb_true_iff in Hx, Hdd.
        rewrite !(deep_simple ft _ Hs). unfold der_ref_val.
        rewrite <- !(der_all_simple ft _ Hs). tauto. }
      destruct Hxr as [Hxr Hdr].
      destruct (val_py_eq x d) as [[|]|] eqn:Eq; [| |discriminate Hp].
      * rewrite (py_eq_is_default ft x d true Hs Hxr Hdr Eq). apply IH; assumption.
      * rewrite (py_eq_is_default ft x d false Hs Hxr Hdr Eq). apply (Hemit false x Hx); [left; reflexivity|exact Hp].
    + apply IH; assumption.
Qed.

(* the library's keys of the parts written are among the keys of the components present, in order *)
Lemma fparts_keys : forall fs vs parts, all_fields fs vs = true -> fparts true fs vs = Ok parts ->
  (forall Q, forallb Q (present_keys fs vs) = true -> forallb Q (map fst parts) = true) /\
  (pairwise_ord (present_keys fs vs) = true -> pairwise_ord (map fst parts) = true).
Proof.
  induction fs as [|[p ft] fs' IH]; intros vs parts Hd Hp.
  - cbn in Hp. injection Hp as <-. split; [intros Q _; reflexivity|intros _; reflexivity].
  - rewrite all_fields_cons in Hd. apply andb_true_iff in Hd. destruct Hd as [Hd1 Hd2].
    rewrite fparts_cons in Hp. cbv zeta in Hp. cbn [present_keys].
    assert (Hemit: forall i x,
              (do b <- enc DER ft (mkOpts true 0 i) x; do rest <- fparts true fs' (otl vs);
               Ok ((set_sort_key true ft x, b) :: rest)) = Ok parts ->
              (forall Q, forallb Q (chosen_outer ft x :: present_keys fs' (otl vs)) = true -> forallb Q (map fst parts) = true) /\
              (pairwise_ord (chosen_outer ft x :: present_keys fs' (otl vs)) = true -> pairwise_ord (map fst parts) = true)).
    { intros i x H.
      destruct (enc DER ft (mkOpts true 0 i) x) as [b0|]; cbn [bind] in H; [|discriminate H].
      destruct (fparts true fs' (otl vs)) as [rest|] eqn:Er; cbn [bind] in H; [|discriminate H].
      injection H as <-. destruct (IH (otl vs) rest Hd2 Er) as [IH1 IH2].
      cbn [map fst set_sort_key]. split.
      - intros Q HQ. cbn [forallb] in *. apply andb_true_iff in HQ. destruct HQ as [H1 H2]. rewrite H1, (IH1 Q H2). reflexivity.
      - intros HP. cbn [pairwise_ord] in *. apply andb_true_iff in HP. destruct HP as [H1 H2].
        rewrite (IH1 _ H1), (IH2 H2). reflexivity. }
    assert (Hskip: forall k, fparts true fs' (otl vs) = Ok parts ->
              (forall Q, forallb Q (k :: present_keys fs' (otl vs)) = true -> forallb Q (map fst parts) = true) /\
              (pairwise_ord (k :: present_keys fs' (otl vs)) = true -> pairwise_ord (map fst parts) = true)).
    { intros k H. destruct (IH (otl vs) parts Hd2 H) as [IH1 IH2]. split.
      - intros Q HQ. cbn [forallb] in HQ. apply andb_true_iff in HQ. apply IH1. tauto.
      - intros HP. cbn [pairwise_ord] in HP. apply andb_true_iff in HP. apply IH2. tauto. }
    destruct p as [| |d]; destruct (ohd vs) as [x|].
    + apply (Hemit false x Hp).
    + discriminate Hd1.
    + apply (Hemit true x Hp).
    + apply IH; assumption.
    + destruct (val_py_eq x d) as [[|]|]; [apply Hskip; exact Hp|apply (Hemit false x Hp)|discriminate Hp].
    + apply IH; assumption.
Qed.

Lemma elems_sound t : Psound t ->
  forall xs parts, forallb (der_all t) xs = true -> seqof_parts t def_opts xs = Ok parts ->
  opt_all (map (canon false t) xs) = Some parts.
Proof.
  intros Ht. induction xs as [|x r IH]; intros parts Hd Hp.
  - cbn in Hp. injection Hp as <-. reflexivity.
  - cbn [forallb] in Hd. apply andb_true_iff in Hd. destruct Hd as [Hx Hr].
    change (seqof_parts t def_opts (x :: r)) with
      (do p <- enc DER t def_opts x; do ps <- seqof_parts t def_opts r; Ok (p :: ps)) in Hp.
    destruct (enc DER t def_opts x) as [b0|] eqn:Eb; cbn [bind] in Hp; [|discriminate Hp].
    destruct (seqof_parts t def_opts r) as [ps|] eqn:Er; cbn [bind] in Hp; [|discriminate Hp].
    injection Hp as <-.
    destruct (Ht false x b0 Hx (or_introl eq_refl) Eb) as [Hc _]. unfold der in Hc.
    cbn [map opt_all]. rewrite Hc, (IH ps Hr eq_refl). reflexivity.
Qed.

Lemma elems_tlv t : forall xs parts, forallb (any_tlv t) xs = true -> seqof_parts t def_opts xs = Ok parts ->
  Forall (fun p => tlvb p = true) parts.
Proof.
  induction xs as [|x r IH]; intros parts Hd Hp.
  - cbn in Hp. injection Hp as <-. constructor.
  - cbn [forallb] in Hd. apply andb_true_iff in Hd. destruct Hd as [Hx Hr].
    change (seqof_parts t def_opts (x :: r)) with
      (do p <- enc DER t def_opts x; do ps <- seqof_parts t def_opts r; Ok (p :: ps)) in Hp.
    destruct (enc DER t def_opts x) as [b0|] eqn:Eb; cbn [bind] in Hp; [|discriminate Hp].
    destruct (seqof_parts t def_opts r) as [ps|] eqn:Er; cbn [bind] in Hp; [|discriminate Hp].
    injection Hp as <-. constructor; [|apply (IH ps Hr eq_refl)].
    apply (encw_tlv DER der_fix t def_opts x b0 eq_refl eq_refl Hx Eb).
Qed.

Lemma forallb_and {X} (f g: X -> bool) l : forallb (fun x => f x && g x) l = true -> forallb f l = true /\ forallb g l = true.
Proof.
  induction l as [|x l IH]; [split; reflexivity|]. cbn [forallb]. intros H.
  apply andb_true_iff in H. destruct H as [H1 H2]. apply andb_true_iff in H1. destruct (IH H2) as [A B].
  destruct H1 as [F G]. rewrite F, G, A, B. split; reflexivity.
Qed.

Lemma empty_cons16 : ref_frame [utag true 16] [] = [48; 0]. Proof. reflexivity. Qed.
Lemma empty_cons17 : ref_frame [utag true 17] [] = [49; 0]. Proof. reflexivity. Qed.

Theorem Qsound_all : forall T, Qsound T.
Proof.
  induction T as [| | | | | | | | n|fs IH|fs IH|t IH|t IH|alts IH| |tg x IH|tg x IH] using ty_ind'.
  16: { exact IH. }
  16: { exact IH. }
  all: intros v cd fl content ic Hd Hce He; cbn [base_of] in *.
  (* the simple types *)
  all: try (cbn [der_all] in Hd;
            match goal with |- exists tsb, tagset_of ?B = _ /\ _ =>
              destruct (der_contents_sound B v cd fl content ic Hd Hce He) as [-> Hrc];
              destruct (canon_simple B v eq_refl) as [Htb Hcb]; rewrite Hrc in Hcb;
              exists [base_tag B]; split; [exact Htb|split; [discriminate|split; [discriminate|split; [exact Hcb|discriminate]]]]
            end).
  - (* SEQUENCE *)
    destruct v as [bb|z|bs|bo|cs| |arcs|r|vs|xs|i x|ab]; try discriminate Hd.
    rewrite der_all_seq in Hd. encoder_is Hce. rewrite enc_content_seq2 in He.
    destruct (fparts false fs vs) as [parts|] eqn:Ep; cbn [bind] in He; [|discriminate He].
    injection He as <- <-.
    assert (HP: Forall (fun f => Psound (snd f)) fs).
    { apply Forall_forall. intros f Hf. rewrite Forall_forall in IH. apply P_of_Q. apply IH. exact Hf. }
    destruct (fields_sound false fs HP vs parts Hd Ep) as [Hc _].
    assert (Hcan: canon false (TSeq fs) (VRec vs) = Some (ref_frame [utag true 16] (concat (map snd parts)))).
    { rewrite canon_seq, Hc. reflexivity. }
    exists [utag true 16]. split; [reflexivity|split; [intros _; constructor; [reflexivity|constructor]|split; [|split; [exact Hcan|discriminate]]]].
    intros _ E. unfold f24_case, der. cbn [base_of]. rewrite Hcan, E. reflexivity.
  - (* SET *)
    destruct v as [bb|z|bs|bo|cs| |arcs|r|vs|xs|i x|ab]; try discriminate Hd.
    rewrite der_all_set in Hd. apply andb_true_iff in Hd. destruct Hd as [Hk Hd].
    unfold set_keys_ok in Hk. apply andb_true_iff in Hk. destruct Hk as [Hk1 Hk2].
    encoder_is Hce. rewrite enc_content_set2 in He.
    destruct (fparts true fs vs) as [parts|] eqn:Ep; cbn [bind] in He; [|discriminate He].
    injection He as <- <-.
    assert (HP: Forall (fun f => Psound (snd f)) fs).
    { apply Forall_forall. intros f Hf. rewrite Forall_forall in IH. apply P_of_Q. apply IH. exact Hf. }
    destruct (fields_sound true fs HP vs parts Hd Ep) as [Hc Hst]. specialize (Hst eq_refl).
    destruct (fparts_keys fs vs parts Hd Ep) as [Hq1 Hq2].
    pose proof (Hq1 single Hk1) as Hsing. pose proof (Hq2 Hk2) as Hord.
    assert (Hes: canon_set_fields false fs vs = Some (map (fun p => (tkey (fst p), snd p)) parts)).
    { rewrite canon_set_fields_der, Hc. cbn [option_map]. rewrite map_map. f_equal.
      apply map_ext_in. intros p Hin. f_equal.
      rewrite Forall_forall in Hst. rewrite forallb_forall in Hsing.
      pose proof (Hsing (fst p) (in_map fst _ _ Hin)) as Hs1.
      destruct (fst p) as [|tp [|? ?]] eqn:Ef; try discriminate Hs1.
      apply starts_with_key. apply (Hst p Hin tp Ef). }
    assert (Hcan: canon false (TSet fs) (VRec vs)
                  = Some (ref_frame [utag true 17] (concat (map snd (sort_by tagset_ltb fst parts))))).
    { rewrite canon_set, Hes. cbn [opt_bind]. rewrite (set_sort_is_reference parts Hsing Hord). reflexivity. }
    exists [utag true 17]. split; [reflexivity|split; [intros _; constructor; [reflexivity|constructor]|split; [|split; [exact Hcan|discriminate]]]].
    intros _ E. unfold f24_case, der. cbn [base_of]. rewrite Hcan, E. reflexivity.
  - (* SEQUENCE OF *)
    destruct v as [bb|z|bs|bo|cs| |arcs|r|vs|xs|i x|ab]; try discriminate Hd. cbn [der_all] in Hd.
    encoder_is Hce. rewrite enc_content_seqof in He.
    destruct (seqof_parts t def_opts xs) as [parts|] eqn:Ep; cbn [bind] in He; [|discriminate He].
    injection He as <- <-.
    assert (Hcan: canon false (TSeqOf t) (VList xs) = Some (ref_frame [utag true 16] (concat parts))).
    { rewrite canon_seqof, (elems_sound t (P_of_Q t IH) xs parts Hd Ep). reflexivity. }
    exists [utag true 16]. split; [reflexivity|split; [intros _; constructor; [reflexivity|constructor]|split; [|split; [exact Hcan|discriminate]]]].
    intros _ E. unfold f24_case, der. cbn [base_of]. rewrite Hcan, E. reflexivity.
  - (* SET OF *)
    destruct v as [bb|z|bs|bo|cs| |arcs|r|vs|xs|i x|ab]; try discriminate Hd. cbn [der_all] in Hd.
    destruct (forallb_and _ _ _ Hd) as [Hd1 Hd2].
    encoder_is Hce. rewrite enc_content_setof2 in He.
    destruct (seqof_parts t def_opts xs) as [parts|] eqn:Ep; cbn [bind] in He; [|discriminate He].
    injection He as <- <-.
    assert (Hcan: canon false (TSetOf t) (VList xs) = Some (ref_frame [utag true 17] (concat (sort_setof parts)))).
    { rewrite canon_setof, (elems_sound t (P_of_Q t IH) xs parts Hd1 Ep). cbn [opt_bind].
      rewrite (sort_setof_is_reference parts (tlv_pad_distinct parts (elems_tlv t xs parts Hd2 Ep))). reflexivity. }
    exists [utag true 17]. split; [reflexivity|split; [intros _; constructor; [reflexivity|constructor]|split; [|split; [exact Hcan|discriminate]]]].
    intros _ E. unfold f24_case, der. cbn [base_of]. rewrite Hcan, E. reflexivity.
  - (* CHOICE *)
    destruct v as [bb|z|bs|bo|cs| |arcs|r|vs|xs|i x|ab]; try discriminate Hd.
    rewrite der_all_choice in Hd. encoder_is Hce. rewrite enc_content_choice in He.
    destruct (nth_error alts i) as [a|] eqn:Ea; [|discriminate Hd].
    unfold encw in He. change (enc_with DER (enc_content DER) a def_opts x) with (enc DER a def_opts x) in He.
    destruct (enc DER a def_opts x) as [p|] eqn:Ep; cbn [bind] in He; [|discriminate He].
    injection He as <- <-.
    rewrite Forall_forall in IH. pose proof (P_of_Q a (IH a (nth_error_In _ _ Ea))) as Pa.
    destruct (Pa false x p Hd (or_introl eq_refl) Ep) as [Hc Hk]. unfold der in Hc.
    assert (Hcan: canon false (TChoice alts) (VChoice i x) = Some p) by (rewrite canon_choice, Ea; exact Hc).
    exists []. split; [reflexivity|split; [intros _; constructor|split; [|split; [exact Hcan|]]]].
    + intros _ E. unfold f24_case, der. cbn [base_of]. rewrite Hcan, E. reflexivity.
    + intros _ t0 Hco. rewrite chosen_outer_choice, Ea in Hco. apply (Hk t0 Hco).
  - (* ANY *)
    destruct v as [bb|z|bs|bo|cs| |arcs|r|vs|xs|i x|ab]; try discriminate Hd.
    encoder_is Hce. cbn [enc_content octets_of o_def def_opts negb] in He. injection He as <- <-.
    exists []. split; [reflexivity|split; [discriminate|split; [discriminate|split; [reflexivity|]]]].
    intros _ t0 Hco. discriminate Hco.
Qed.

(* Soundness over the whole universe of types *)
Theorem der_is_reference_all : forall T v b,
  der_all T v = true -> encode DER true 0 T v = Ok b -> X690.der T v = Some b.
Proof.
  intros T v b Hd He.
  exact (proj1 (P_of_Q T (Qsound_all T) false v b Hd (or_introl eq_refl) He)).
Qed.

(* ---- completeness ---- *)

(* on top of der_all: the two refusals of the library at the leaves (a REAL exponent of more than 255
   octets; UTCTime / GeneralizedTime text it vets), and DEFAULT comparisons the model can make *)
Fixpoint all_extra (T: ty) (v: val) {struct T} : bool :=
  match T with
  | TImp _ x | TExp _ x => all_extra x v
  | TSeqOf t | TSetOf t => match v with VList xs => forallb (all_extra t) xs | _ => true end
  | TSeq fs | TSet fs =>
      match v with
      | VRec vs =>
          (fix go (fs: list (presence * ty)) (vs: list (option val)) : bool :=
             match fs with
             | [] => true
             | (p, ft) :: fs' =>
                 (match p, ohd vs with
                  | _, None => true
                  | Def d, Some x => all_extra ft x && match val_py_eq x d with Some _ => true | None => false end
                  | _, Some x => all_extra ft x
                  end) && go fs' (otl vs)
             end) fs vs
      | _ => true
      end
  | TChoice alts =>
      match v with
      | VChoice i x =>
          (fix go (l: list ty) (k: nat) : bool :=
             match l, k with
             | a :: _, O => all_extra a x
             | _ :: r, S k' => go r k'
             | [], _ => true
             end) alts i
      | _ => true
      end
  | TAny => true
  | _ => exact_extra T v
  end.

Definition xfields : list (presence * ty) -> list (option val) -> bool :=
  fix go (fs: list (presence * ty)) (vs: list (option val)) : bool :=
    match fs with
    | [] => true
    | (p, ft) :: fs' =>
        (match p, ohd vs with
         | _, None => true
         | Def d, Some x => all_extra ft x && match val_py_eq x d with Some _ => true | None => false end
         | _, Some x => all_extra ft x
         end) && go fs' (otl vs)
    end.

Lemma all_extra_seq fs vs : all_extra (TSeq fs) (VRec vs) = xfields fs vs. Proof. reflexivity. Qed.
Lemma all_extra_set fs vs : all_extra (TSet fs) (VRec vs) = xfields fs vs. Proof. reflexivity. Qed.
Lemma xfields_cons p ft fs' vs :
  xfields ((p, ft) :: fs') vs =
  (match p, ohd vs with
   | _, None => true
   | Def d, Some x => all_extra ft x && match val_py_eq x d with Some _ => true | None => false end
   | _, Some x => all_extra ft x
   end) && xfields fs' (otl vs).
Proof. reflexivity. Qed.

Lemma all_extra_choice alts i x :
  all_extra (TChoice alts) (VChoice i x) = match nth_error alts i with Some a => all_extra a x | None => true end.
Proof.
  cbn [all_extra]. revert i. induction alts as [|a r IH]; intros [|i]; try reflexivity. cbn [nth_error]. apply IH.
Qed.

Lemma all_extra_base : forall T v, all_extra T v = all_extra (base_of T) v.
Proof.
  induction T as [| | | | | | | | n|fs IH|fs IH|t IH|t IH|alts IH| |tg x IH|tg x IH] using ty_ind'; intros v; try reflexivity.
  - cbn [all_extra base_of]. apply IH.
  - cbn [all_extra base_of]. apply IH.
Qed.

Definition der_exact_all (T: ty) (v: val) : bool := der_all T v && all_extra T v.

Definition Pcomp (T: ty) : Prop := forall i v b,
  der_all T v = true -> all_extra T v = true -> (i = false \/ f24_case T v = false) ->
  der T v = Some b -> N.of_nat (length b) < max_len -> enc DER T (mkOpts true 0 i) v = Ok b.

Definition Qcomp (T: ty) : Prop := forall v e,
  der_all (base_of T) v = true -> all_extra (base_of T) v = true -> canon false (base_of T) v = Some e ->
  exists tsb c cd fl ic,
    tagset_of (base_of T) = Ok tsb /\ e = ref_frame tsb c /\ concrete_encoder DER (base_of T) = Ok (cd, fl) /\
    (N.of_nat (length c) < max_len -> enc_content DER (base_of T) cd fl def_opts v = Ok (c, ic)) /\
    (ic = true -> Forall (fun t => tcon t = true) tsb) /\
    (ic = true -> c = [] -> f24_case (base_of T) v = true).

Theorem Pcomp_of_Q T : Qcomp T -> Pcomp T.
Proof.
  intros HQ i v b Hd Hx Hi Hr Hlen. unfold der in Hr.
  rewrite der_all_base in Hd. apply andb_true_iff in Hd. destruct Hd as [Himp Hdb]. rewrite all_extra_base in Hx.
  destruct (tagset_of T) as [ts|e0] eqn:Ets; [|rewrite (canon_tagset_err T v e0 Ets) in Hr; discriminate Hr].
  destruct (canon false (base_of T) v) as [e|] eqn:Eb; [|rewrite (canon_wrappers_none T v Eb) in Hr; discriminate Hr].
  destruct (HQ v e Hdb Hx Eb) as (tsb & c & cd & fl & ic & Htsb & -> & Hce & Henc & Hcons & Hf24).
  rewrite (canon_wrappers2 T v c tsb Himp Htsb Eb ts Ets) in Hr. injection Hr as <-.
  pose proof (ref_frame_length ts c) as Hcl.
  rewrite enc_der_unfold, concrete_encoder_base, Hce. cbn [bind fst snd]. rewrite Ets. cbn [bind].
  rewrite enc_content_base, Henc by lia. cbn [bind fst snd].
  assert (Hfr: frame ts c ic def_opts (ef_indef fl) = Ok (ref_frame ts c)).
  { apply frame_total; [reflexivity|reflexivity| |exact Hlen].
    destruct ic; [|apply all_form_agrees_prim].
    apply forms_of_cons. apply (tagset_all_cons2 T tsb ts Himp Htsb (Hcons eq_refl) Ets). }
  destruct i; [|exact Hfr]. rewrite frame_ifne_irrelevant; [exact Hfr|].
  destruct ic; [right|left; reflexivity]. intros ->.
  destruct Hi as [Hi|Hi]; [discriminate Hi|]. rewrite f24_case_base, (Hf24 eq_refl eq_refl) in Hi. discriminate Hi.
Qed.

Lemma elems_complete t : Pcomp t ->
  forall xs es, forallb (der_all t) xs = true -> forallb (all_extra t) xs = true ->
  opt_all (map (canon false t) xs) = Some es -> N.of_nat (length (concat es)) < max_len ->
  seqof_parts t def_opts xs = Ok es.
Proof.
  intros Ht. induction xs as [|x r IH]; intros es Hd Hx Hc Hlen.
  - cbn in Hc. injection Hc as <-. reflexivity.
  - cbn [forallb] in Hd, Hx. apply andb_true_iff in Hd. destruct Hd as [Hd1 Hd2].
    apply andb_true_iff in Hx. destruct Hx as [Hx1 Hx2].
    cbn [map opt_all] in Hc.
    destruct (canon false t x) as [e0|] eqn:E0; [|discriminate Hc].
    destruct (opt_all (map (canon false t) r)) as [es'|] eqn:Er; cbn [opt_bind] in Hc; [|discriminate Hc].
    injection Hc as <-. destruct (concat_length_head e0 es') as [L1 L2].
    change (seqof_parts t def_opts (x :: r)) with
      (do p <- enc DER t def_opts x; do ps <- seqof_parts t def_opts r; Ok (p :: ps)).
    assert (Ex: enc DER t def_opts x = Ok e0).
    { apply (Ht false x e0 Hd1 Hx1 (or_introl eq_refl) E0). lia. }
    rewrite Ex. cbn [bind].
    rewrite (IH es' Hd2 Hx2 eq_refl) by lia. reflexivity.
Qed.

Lemma fields_complete dyn : forall fs, Forall (fun f => Pcomp (snd f)) fs ->
  forall vs es, all_fields fs vs = true -> xfields fs vs = true ->
  canon_fields false fs vs = Some es -> N.of_nat (length (concat es)) < max_len ->
  exists parts, fparts dyn fs vs = Ok parts /\ map snd parts = es.
Proof.
  induction fs as [|[p ft] fs' IH]; intros Hall vs es Hd Hx Hc Hlen.
  - cbn in Hc. injection Hc as <-. exists []. split; reflexivity.
  - inversion Hall as [|? ? Hft Hall']; subst. cbn [snd] in Hft. specialize (IH Hall').
    rewrite all_fields_cons in Hd. apply andb_true_iff in Hd. destruct Hd as [Hd1 Hd2].
    rewrite xfields_cons in Hx. apply andb_true_iff in Hx. destruct Hx as [Hx1 Hx2].
    rewrite canon_fields_cons in Hc. rewrite fparts_cons. cbv zeta.
    assert (Hemit: forall i x, der_all ft x = true -> all_extra ft x = true -> (i = false \/ f24_case ft x = false) ->
              opt_bind (canon false ft x) (fun e => opt_bind (canon_fields false fs' (otl vs)) (fun r => Some (e :: r))) = Some es ->
              exists parts,
              (do b <- enc DER ft (mkOpts true 0 i) x; do rest <- fparts dyn fs' (otl vs);
               Ok ((set_sort_key dyn ft x, b) :: rest)) = Ok parts /\ map snd parts = es).
    { intros i x Hdx Hxx Hi H.
      destruct (canon false ft x) as [e0|] eqn:E0; cbn [opt_bind] in H; [|discriminate H].
      destruct (canon_fields false fs' (otl vs)) as [es'|] eqn:Er; cbn [opt_bind] in H; [|discriminate H].
      injection H as <-. destruct (concat_length_head e0 es') as [L1 L2].
      rewrite (Hft i x e0 Hdx Hxx Hi E0) by lia. cbn [bind].
      destruct (IH (otl vs) es' Hd2 Hx2 Er) as (rest & Hrest & Hmap); [lia|].
      rewrite Hrest. cbn [bind]. eexists. split; [reflexivity|]. cbn [map snd]. rewrite Hmap. reflexivity. }
    destruct p as [| |d]; destruct (ohd vs) as [x|].
    + apply (Hemit false x Hd1 Hx1); [left; reflexivity|exact Hc].
    + discriminate Hd1.
    + apply andb_true_iff in Hd1. destruct Hd1 as [Hdx Hf]. apply Bool.negb_true_iff in Hf.
      apply (Hemit true x Hdx Hx1); [right; exact Hf|exact Hc].
    + apply IH; assumption.
    + apply andb_true_iff in Hd1. destruct Hd1 as [Hd1 Hdd]. apply andb_true_iff in Hd1. destruct Hd1 as [Hs Hdx].
      apply andb_true_iff in Hx1. destruct Hx1 as [Hxx Hpy].
      assert (Hxr: der_ref_deep ft x = true /\ der_ref_deep ft d = true).
      { pose proof Hdx as A. pose proof Hdd as B. rewrite der_all_base in A, B. apply andb_true_iff in A, B.
        rewrite !(deep_simple ft _ Hs). unfold der_ref_val.
        rewrite <- !(der_all_simple ft _ Hs). tauto. }
      destruct Hxr as [Hxr Hdr].
      destruct (val_py_eq x d) as [q|] eqn:Eq; [|discriminate Hpy].
      rewrite (py_eq_is_default ft x d q Hs Hxr Hdr Eq) in Hc. destruct q.
      * apply IH; assumption.
      * apply (Hemit false x Hdx Hxx); [left; reflexivity|exact Hc].
    + apply IH; assumption.
Qed.

Lemma perm_concat_length (l1 l2: list bytes) : Permutation l1 l2 -> length (concat l1) = length (concat l2).
Proof.
  induction 1 as [|x l l' Hp IH|x y l|l l' l'' H1 IH1 H2 IH2]; cbn [concat]; rewrite ?app_length; try lia.
Qed.

Lemma Psound_all T : Psound T. Proof. apply P_of_Q. apply Qsound_all. Qed.

Theorem Qcomp_all : forall T, Qcomp T.
Proof.
  induction T as [| | | | | | | | n|fs IH|fs IH|t IH|t IH|alts IH| |tg x IH|tg x IH] using ty_ind'.
  16: { exact IH. }
  16: { exact IH. }
  all: intros v e Hd Hx Hc; cbn [base_of] in *.
  (* the simple types *)
  all: try (cbn [der_all all_extra] in Hd, Hx;
            match type of Hc with canon false ?B _ = _ =>
              assert (Hex: der_exact_base B v = true) by (unfold der_exact_base; rewrite Hd, Hx; reflexivity);
              destruct (der_contents_total B v Hex) as (cd & fl & Hce & Htot);
              destruct (canon_simple B v eq_refl) as [Htb Hcb]; rewrite Hc in Hcb;
              destruct Htot as [Hnone|[[content ic] Hcont]]; [rewrite Hnone in Hcb; discriminate Hcb|];
              destruct (der_contents_sound B v cd fl content ic Hd Hce Hcont) as [-> Hrc];
              rewrite Hrc in Hcb; injection Hcb as ->;
              exists [base_tag B], content, cd, fl, false;
              split; [exact Htb|split; [reflexivity|split; [exact Hce|split; [intros _; exact Hcont|split; [discriminate|discriminate]]]]]
            end).
  - (* SEQUENCE *)
    destruct v as [bb|z|bs|bo|cs| |arcs|r|vs|xs|i x|ab]; try discriminate Hd.
    rewrite der_all_seq in Hd. rewrite all_extra_seq in Hx. pose proof Hc as Hcan. rewrite canon_seq in Hc.
    destruct (canon_fields false fs vs) as [es|] eqn:Ef; cbn [opt_bind] in Hc; [|discriminate Hc]. injection Hc as <-.
    assert (HP: Forall (fun f => Pcomp (snd f)) fs).
    { apply Forall_forall. intros f Hf. rewrite Forall_forall in IH. apply Pcomp_of_Q. apply IH. exact Hf. }
    exists [utag true 16], (concat es), EcSeq, (mkEncFlags true false true None 0 0), true.
    split; [reflexivity|split; [reflexivity|split; [vm_compute; reflexivity|split; [|split]]]].
    + intros Hlen. rewrite enc_content_seq2.
      destruct (fields_complete false fs HP vs es Hd Hx Ef Hlen) as (parts & Hp & Hm). rewrite Hp. cbn [bind]. rewrite Hm. reflexivity.
    + intros _. constructor; [reflexivity|constructor].
    + intros _ E. unfold f24_case, der. cbn [base_of]. rewrite Hcan. cbn [ctlv]. rewrite E. reflexivity.
  - (* SET *)
    destruct v as [bb|z|bs|bo|cs| |arcs|r|vs|xs|i x|ab]; try discriminate Hd.
    rewrite der_all_set in Hd. apply andb_true_iff in Hd. destruct Hd as [Hk Hd].
    unfold set_keys_ok in Hk. apply andb_true_iff in Hk. destruct Hk as [Hk1 Hk2].
    rewrite all_extra_set in Hx. pose proof Hc as Hcan. rewrite canon_set, canon_set_fields_der in Hc.
    destruct (canon_fields false fs vs) as [es|] eqn:Ef; cbn [option_map opt_bind] in Hc; [|discriminate Hc]. injection Hc as <-.
    assert (HP: Forall (fun f => Pcomp (snd f)) fs).
    { apply Forall_forall. intros f Hf. rewrite Forall_forall in IH. apply Pcomp_of_Q. apply IH. exact Hf. }
    assert (HS: Forall (fun f => Psound (snd f)) fs).
    { apply Forall_forall. intros f _. apply Psound_all. }
    set (kes := map (fun e => (tag_key e, e)) es) in *.
    set (c := concat (map snd (sort_with (fun a b : N * N * bytes => key_ltb (fst a) (fst b)) kes))).
    assert (Hcl: length c = length (concat es)).
    { assert (Hes: map snd kes = es) by (subst kes; rewrite map_map; cbn [snd]; apply map_id).
      subst c. transitivity (length (concat (map snd kes))); [|rewrite Hes; reflexivity].
      apply perm_concat_length. apply Permutation_map. apply Permutation_sym.
      apply (sort_with_perm key_ltb (fun a : N * N * bytes => fst a)). }
    exists [utag true 17], c, EcSetDer, (mkEncFlags true false false None 0 0), true.
    split; [reflexivity|split; [reflexivity|split; [vm_compute; reflexivity|split; [|split]]]].
    + intros Hlen. rewrite enc_content_set2.
      destruct (fields_complete true fs HP vs es Hd Hx Ef) as (parts & Hp & Hm); [lia|]. rewrite Hp. cbn [bind].
      destruct (fields_sound true fs HS vs parts Hd Hp) as [_ Hst]. specialize (Hst eq_refl).
      destruct (fparts_keys fs vs parts Hd Hp) as [Hq1 Hq2].
      pose proof (Hq1 single Hk1) as Hsing. pose proof (Hq2 Hk2) as Hord.
      assert (Hkes: kes = map (fun p => (tkey (fst p), snd p)) parts).
      { subst kes. rewrite <- Hm, map_map. apply map_ext_in. intros p Hin. f_equal.
        rewrite Forall_forall in Hst. rewrite forallb_forall in Hsing.
        pose proof (Hsing (fst p) (in_map fst _ _ Hin)) as Hs1.
        destruct (fst p) as [|tp [|? ?]] eqn:Ef'; try discriminate Hs1.
        apply starts_with_key. apply (Hst p Hin tp Ef'). }
      subst c. rewrite Hkes, (set_sort_is_reference parts Hsing Hord). reflexivity.
    + intros _. constructor; [reflexivity|constructor].
    + intros _ E. unfold f24_case, der. cbn [base_of]. rewrite Hcan. subst c. unfold tlv at 1. rewrite E. reflexivity.
  - (* SEQUENCE OF *)
    destruct v as [bb|z|bs|bo|cs| |arcs|r|vs|xs|i x|ab]; try discriminate Hd. cbn [der_all all_extra] in Hd, Hx.
    pose proof Hc as Hcan. rewrite canon_seqof in Hc.
    destruct (opt_all (map (canon false t) xs)) as [es|] eqn:Ef; cbn [opt_bind] in Hc; [|discriminate Hc]. injection Hc as <-.
    exists [utag true 16], (concat es), EcSeqOfCer, (mkEncFlags true false false None 0 0), true.
    split; [reflexivity|split; [reflexivity|split; [vm_compute; reflexivity|split; [|split]]]].
    + intros Hlen. rewrite enc_content_seqof. rewrite (elems_complete t (Pcomp_of_Q t IH) xs es Hd Hx Ef Hlen). reflexivity.
    + intros _. constructor; [reflexivity|constructor].
    + intros _ E. unfold f24_case, der. cbn [base_of]. rewrite Hcan. cbn [ctlv]. rewrite E. reflexivity.
  - (* SET OF *)
    destruct v as [bb|z|bs|bo|cs| |arcs|r|vs|xs|i x|ab]; try discriminate Hd. cbn [der_all all_extra] in Hd, Hx.
    destruct (forallb_and _ _ _ Hd) as [Hd1 Hd2].
    pose proof Hc as Hcan. rewrite canon_setof in Hc.
    destruct (opt_all (map (canon false t) xs)) as [es|] eqn:Ef; cbn [opt_bind] in Hc; [|discriminate Hc]. injection Hc as <-.
    assert (Hcl: length (concat (sort_with octets_ltb es)) = length (concat es)).
    { apply perm_concat_length. apply Permutation_sym. apply (sort_with_perm octets_ltb (fun a : bytes => a)). }
    exists [utag true 17], (concat (sort_with octets_ltb es)), EcSetOfCer, (mkEncFlags true false false None 0 0), true.
    split; [reflexivity|split; [reflexivity|split; [vm_compute; reflexivity|split; [|split]]]].
    + intros Hlen. rewrite enc_content_setof2.
      assert (Hp: seqof_parts t def_opts xs = Ok es) by (apply (elems_complete t (Pcomp_of_Q t IH) xs es Hd1 Hx Ef); lia).
      rewrite Hp. cbn [bind].
      rewrite (sort_setof_is_reference es (tlv_pad_distinct es (elems_tlv t xs es Hd2 Hp))). reflexivity.
    + intros _. constructor; [reflexivity|constructor].
    + intros _ E. unfold f24_case, der. cbn [base_of]. rewrite Hcan. cbn [ctlv]. rewrite E. reflexivity.
  - (* CHOICE *)
    destruct v as [bb|z|bs|bo|cs| |arcs|r|vs|xs|i x|ab]; try discriminate Hd.
    rewrite der_all_choice in Hd. rewrite all_extra_choice in Hx. pose proof Hc as Hcan. rewrite canon_choice in Hc.
    destruct (nth_error alts i) as [a|] eqn:Ea; [|discriminate Hd].
    rewrite Forall_forall in IH. pose proof (Pcomp_of_Q a (IH a (nth_error_In _ _ Ea))) as Pa.
    exists [], e, EcChoice, (mkEncFlags true false false None 0 0), true.
    split; [reflexivity|split; [reflexivity|split; [vm_compute; reflexivity|split; [|split]]]].
    + intros Hlen. rewrite enc_content_choice, Ea. unfold encw.
      change (enc_with DER (enc_content DER) a def_opts x) with (enc DER a def_opts x).
      assert (Ex: enc DER a def_opts x = Ok e) by (apply (Pa false x e Hd Hx (or_introl eq_refl) Hc Hlen)).
      rewrite Ex. reflexivity.
    + intros _. constructor.
    + intros _ E. unfold f24_case, der. cbn [base_of]. rewrite Hcan, E. reflexivity.
  - (* ANY *)
    destruct v as [bb|z|bs|bo|cs| |arcs|r|vs|xs|i x|ab]; try discriminate Hd.
    cbn [canon] in Hc. injection Hc as <-.
    exists [], ab, EcAny, (mkEncFlags true false false None 0 0), false.
    split; [reflexivity|split; [reflexivity|split; [vm_compute; reflexivity|split; [|split; discriminate]]]].
    intros _. reflexivity.
Qed.

(* Completeness over the whole universe of types *)
Theorem der_is_reference_all_complete : forall T v b,
  der_exact_all T v = true -> X690.der T v = Some b -> N.of_nat (length b) < max_len ->
  encode DER true 0 T v = Ok b.
Proof.
  intros T v b Hx Hr Hlen. unfold der_exact_all in Hx. apply andb_true_iff in Hx. destruct Hx as [Hd Hx].
  exact (Pcomp_of_Q T (Qcomp_all T) false v b Hd Hx (or_introl eq_refl) Hr Hlen).
Qed.

Corollary der_encoder_is_reference_all : forall T v b,
  der_exact_all T v = true -> N.of_nat (length b) < max_len ->
  (encode DER true 0 T v = Ok b <-> X690.der T v = Some b).
Proof.
  intros T v b Hx Hlen. split.
  - apply der_is_reference_all. unfold der_exact_all in Hx. apply andb_true_iff in Hx. tauto.
  - intros Hr. apply der_is_reference_all_complete; assumption.
Qed.

(* ====================================================================== *)
(* 6. witnesses                                                            *)
(* ====================================================================== *)

(* [APPLICATION 1] EXPLICIT SET { [1] IMPLICIT INTEGER, CHOICE { OCTET STRING, [0] IMPLICIT BOOLEAN,
     [5] EXPLICIT CHOICE { NULL, ANY } }, SET OF CHOICE { INTEGER, UTF8String, ANY } OPTIONAL,
     INTEGER DEFAULT 7, [PRIVATE 2] EXPLICIT ANY OPTIONAL, SEQUENCE { SEQUENCE OF BOOLEAN OPTIONAL, SET OF NULL } }:
   the SET is written in the order of the tags (UNIVERSAL 2, 16, 17, [5], [PRIVATE 2] - not the order
   of declaration), the SET OF in the order of the zero-padded encodings *)
Example der_is_reference_all_witness :
  let T := TExp (mkTag Appl false 1) (TSet [
     (Req, TImp (mkTag Ctx false 1) TInt);
     (Req, TChoice [TOcts; TImp (mkTag Ctx false 0) TBool; TExp (mkTag Ctx false 5) (TChoice [TNull; TAny])]);
     (Opt, TSetOf (TChoice [TInt; TStr 12; TAny]));
     (Def (VInt 7), TInt);
     (Opt, TExp (mkTag Priv false 2) TAny);
     (Req, TSeq [(Opt, TSeqOf TBool); (Req, TSetOf TNull)])]) in
  let v := VRec [Some (VInt 1);
     Some (VChoice 2 (VChoice 1 (VAny [4;1;9])));
     Some (VList [VChoice 1 (VOcts [104;105]); VChoice 0 (VInt 300); VChoice 2 (VAny [1;1;0]); VChoice 0 (VInt 3)]);
     Some (VInt 8); Some (VAny [5;0]);
     Some (VRec [Some (VList [VBool true]); Some (VList [])])] in
  let b := [97; 42; 49; 40; 2; 1; 8; 48; 7; 48; 3; 1; 1; 255; 49; 0; 49; 14;
            1; 1; 0; 2; 1; 3; 2; 2; 1; 44; 12; 2; 104; 105; 129; 1; 1; 165; 3;
            4; 1; 9; 226; 2; 5; 0] in
  der_all T v = true /\ der_exact_all T v = true /\ encode DER true 0 T v = Ok b /\ der T v = Some b.
Proof. vm_compute. repeat split. Qed.

(* SET OF with members of different lengths: both sides compare the encodings padded with zero octets *)
Example der_setof_order_witness :
  let T := TSetOf TOcts in let v := VList [VOcts [1;2]; VOcts [1]; VOcts []; VOcts [0;0;0]] in
  der_exact_all T v = true /\
  encode DER true 0 T v = Ok [49; 14; 4; 0; 4; 1; 1; 4; 2; 1; 2; 4; 3; 0; 0; 0] /\
  der T v = Some [49; 14; 4; 0; 4; 1; 1; 4; 2; 1; 2; 4; 3; 0; 0; 0].
Proof. vm_compute. repeat split. Qed.

(* an OPTIONAL component of constructed type that is present and not empty: inside the domain now *)
Example der_optional_constructed_witness :
  let T := TSeq [(Opt, TSeqOf TInt); (Opt, TExp (mkTag Ctx false 0) (TChoice [TAny; TNull]))] in
  let v := VRec [Some (VList [VInt 1]); Some (VChoice 1 VNull)] in
  der_exact_all T v = true /\ encode DER true 0 T v = Ok [48; 9; 48; 3; 2; 1; 1; 160; 2; 5; 0]
  /\ der T v = Some [48; 9; 48; 3; 2; 1; 1; 160; 2; 5; 0].
Proof. vm_compute. repeat split. Qed.

(* ---- where the model of the library and the reference disagree (each outside der_all) ---- *)

(* IMPLICIT tag on a CHOICE / on an ANY: the library wraps (as X.680 31.2.7 prescribes: the tag becomes
   EXPLICIT; for ANY the wrapper is even primitive), the reference re-tags the inner encoding *)
Example disagree_implicit_on_choice :
  let T := TImp (mkTag Ctx false 1) (TChoice [TInt; TBool]) in let v := VChoice 0 (VInt 5) in
  encode DER true 0 T v = Ok [161; 3; 2; 1; 5] /\ der T v = Some [129; 1; 5] /\ der_all T v = false.
Proof. vm_compute. repeat split. Qed.
Example disagree_implicit_on_any :
  let T := TImp (mkTag Ctx false 1) TAny in let v := VAny [2; 1; 5] in
  encode DER true 0 T v = Ok [129; 3; 2; 1; 5] /\ der T v = Some [129; 1; 5] /\ der_all T v = false.
Proof. vm_compute. repeat split. Qed.

(* SET OF ANY whose members are not TLVs and agree up to trailing zero octets: the library's sort is
   stable, the reference's insertion puts a member after its equals - each keeps a different order *)
Example disagree_setof_ties :
  let T := TSetOf TAny in
  encode DER true 0 T (VList [VAny [5]; VAny [5; 0]]) = Ok [49; 3; 5; 5; 0] /\
  der T (VList [VAny [5]; VAny [5; 0]]) = Some [49; 3; 5; 0; 5] /\
  der_all T (VList [VAny [5]; VAny [5; 0]]) = false.
Proof. vm_compute. repeat split. Qed.

(* SET with an untagged ANY component: the library sorts it by an empty tag set (first), the reference by
   the tag found in the octets *)
Example disagree_set_any_component :
  let T := TSet [(Req, TAny); (Req, TInt)] in let v := VRec [Some (VAny [4; 1; 9]); Some (VInt 1)] in
  encode DER true 0 T v = Ok [49; 6; 4; 1; 9; 2; 1; 1] /\ der T v = Some [49; 6; 2; 1; 1; 4; 1; 9] /\ der_all T v = false.
Proof. vm_compute. repeat split. Qed.

(* SET with two components of the same tag (not ASN.1): stable vs. after-its-equals again *)
Example disagree_set_same_tags :
  let T := TSet [(Req, TInt); (Req, TInt)] in let v := VRec [Some (VInt 1); Some (VInt 2)] in
  encode DER true 0 T v = Ok [49; 6; 2; 1; 1; 2; 1; 2] /\ der T v = Some [49; 6; 2; 1; 2; 2; 1; 1] /\ der_all T v = false.
Proof. vm_compute. repeat split. Qed.

(* a SET component that is an untagged CHOICE is placed by the tag of the chosen alternative on both
   sides under DER (X.690 10.3) *)
Example agree_set_choice_component :
  let T := TSet [(Req, TChoice [TOcts; TBool]); (Req, TInt)] in let v := VRec [Some (VChoice 0 (VOcts [9])); Some (VInt 1)] in
  der_exact_all T v = true /\ encode DER true 0 T v = Ok [49; 6; 2; 1; 1; 4; 1; 9] /\ der T v = Some [49; 6; 2; 1; 1; 4; 1; 9].
Proof. vm_compute. repeat split. Qed.

(* F24 again, for the new kinds of component: an [0] EXPLICIT CHOICE whose alternative is an empty ANY,
   an empty SET; and a DEFAULT of constructed type, which the model does not compare *)
Example disagree_f24_choice_and_set :
  (let T := TSeq [(Opt, TExp (mkTag Ctx false 0) (TChoice [TAny]))] in let v := VRec [Some (VChoice 0 (VAny []))] in
   encode DER true 0 T v = Ok [48; 0] /\ der T v = Some [48; 2; 160; 0] /\ der_all T v = false) /\
  (let T := TSeq [(Opt, TSet [])] in let v := VRec [Some (VRec [])] in
   encode DER true 0 T v = Ok [48; 0] /\ der T v = Some [48; 2; 49; 0] /\ der_all T v = false) /\
  (let T := TSeq [(Def (VList []), TSeqOf TInt)] in let v := VRec [Some (VList [])] in
   encode DER true 0 T v = Err EUnmodelled /\ der T v = Some [48; 0] /\ der_all T v = false).
Proof. vm_compute. repeat split. Qed.

(* ANY given as an OCTET STRING value: the library takes the octets, the reference wants VAny *)
Example disagree_any_as_octets :
  encode DER true 0 TAny (VOcts [1; 2]) = Ok [1; 2] /\ der TAny (VOcts [1; 2]) = None /\ der_all TAny (VOcts [1; 2]) = false.
Proof. vm_compute. repeat split. Qed.

Print Assumptions sort_setof_is_reference.
Print Assumptions set_sort_is_reference.
Print Assumptions canon_wrappers2.
Print Assumptions der_is_reference_all.
Print Assumptions der_is_reference_all_complete.
Print Assumptions der_encoder_is_reference_all.

(* SEQUENCE OF / SET OF refine the Python list: one lemma per operation on dense states,
   then induction over the history. *)
From Coq Require Import Lia.
From PV Require Import Spec.ListSpec Proofs.ContainerBase.
Local Open Scope nat_scope.

(* ---------- reading a dense state ---------- *)

Lemma dense_length l : length (dense l) = length l.
Proof. unfold dense, enumerate. rewrite enumerate_from_length, map_length. auto. Qed.

Lemma sdict_conc a : sdict (conc a) = dense (lst a).
Proof. destruct a; auto. Qed.

Lemma slen_conc a : slen (conc a) = length (lst a).
Proof.
  destruct a as [l|]; [|reflexivity]. unfold conc, dense. simpl option_map. simpl lst.
  rewrite slen_enum, map_length. auto.
Qed.

Lemma sget_conc a k : sget (conc a) k = option_map CVal (nth_error (lst a) k).
Proof.
  unfold sget. rewrite sdict_conc. unfold dense, enumerate. rewrite dget_enum. simpl.
  rewrite Nat.sub_0_r. rewrite nth_error_map. auto.
Qed.

Lemma nth_error_is_some {A} (l: list A) k : k < length l -> exists x, nth_error l k = Some x.
Proof.
  intros H. destruct (nth_error l k) eqn:E; eauto.
  apply nth_error_None in E. lia.
Qed.

Lemma dset_dense_in l k z : k < length l -> dset k (CVal z) (dense l) = dense (set_nth k z l).
Proof.
  intros H. unfold dense, enumerate. rewrite dset_enum_in by (rewrite map_length; lia).
  rewrite Nat.sub_0_r, set_nth_map. auto.
Qed.

Lemma dset_dense_end l z : dset (length l) (CVal z) (dense l) = dense (l ++ [z]).
Proof.
  unfold dense, enumerate.
  replace (length l) with (0 + length (map CVal l)) by (rewrite map_length; auto).
  rewrite dset_enum_end, map_app. auto.
Qed.

(* ---------- setComponentByPosition ---------- *)

Lemma resolve_ok ct cur v z : pv_z v = Some z -> val_ok ct (is_some cur) v = true ->
  sof_resolve ct cur (Some v) = Ok (CVal z).
Proof.
  destruct v; simpl; try discriminate; intros E H; inversion E; subst; auto.
  destruct ct; auto. destruct cur; auto. discriminate.
Qed.

Lemma sof_set_dense ct a i v z k :
  norm_idx i (length (lst a)) = Some k -> k <= length (lst a) -> pv_z v = Some z ->
  val_ok ct (Nat.ltb k (length (lst a))) v = true ->
  sof_set ct (conc a) i (Some v) =
  Ok (conc (Some (if Nat.ltb k (length (lst a)) then set_nth k z (lst a) else lst a ++ [z]))).
Proof.
  intros Hn Hk Hz Hv. unfold sof_set. rewrite slen_conc, Hn, sget_conc, sdict_conc.
  destruct (Nat.ltb_spec k (length (lst a))) as [Hlt|Hge].
  - destruct (nth_error_is_some (lst a) k Hlt) as [x Ex]. rewrite Ex. simpl option_map.
    rewrite (resolve_ok ct (Some (CVal x)) v z Hz Hv). rewrite dset_dense_in by auto. auto.
  - assert (k = length (lst a)) by lia. subst k.
    assert (nth_error (lst a) (length (lst a)) = None) as -> by (apply nth_error_None; lia).
    simpl option_map. rewrite (resolve_ok ct None v z Hz Hv). rewrite dset_dense_end. auto.
Qed.

Lemma pvs_z_length vs zs : pvs_z vs = Some zs -> length zs = length vs.
Proof.
  revert zs; induction vs as [|v r IH]; intros zs; simpl.
  - intros E; inversion E; auto.
  - destruct (pv_z v), (pvs_z r); try discriminate. intros E; inversion E; subst. simpl. f_equal. auto.
Qed.

Lemma val_ok_pv ct e v : val_ok ct e v = true -> exists z, pv_z v = Some z.
Proof. destruct v; simpl; try discriminate; eauto. Qed.

Lemma forall_ok_pvs ct e vs : forallb (val_ok ct e) vs = true -> exists zs, pvs_z vs = Some zs.
Proof.
  induction vs as [|v r IH]; simpl; [eauto|].
  intros H. apply andb_prop in H as [H1 H2]. destruct (val_ok_pv _ _ _ H1) as [z Ez].
  destruct (IH H2) as [zs Ezs]. rewrite Ez, Ezs. eauto.
Qed.

(* appending one by one (extend, and slice assignment into an empty object) *)
Lemma sof_set_many_append ct : forall vs zs l,
  pvs_z vs = Some zs -> forallb (val_ok ct false) vs = true ->
  sof_set_many ct (conc (Some l)) (length l) vs = (conc (Some (l ++ zs)), None).
Proof.
  induction vs as [|v r IH]; intros zs l Hz Hok; cbn [pvs_z forallb sof_set_many] in *.
  - inversion Hz. rewrite app_nil_r. auto.
  - destruct (pv_z v) as [z|] eqn:Ez; [|discriminate]. destruct (pvs_z r) as [zs'|] eqn:Er; [|discriminate].
    inversion Hz; subst. apply andb_prop in Hok as [H1 H2].
    rewrite (sof_set_dense ct (Some l) (Z.of_nat (length l)) v z (length l)); auto.
    + simpl lst. rewrite Nat.ltb_irrefl.
      replace (S (length l)) with (length (l ++ [z])) by (rewrite app_length; simpl; lia).
      rewrite (IH zs' (l ++ [z])) by auto. rewrite <- app_assoc. auto.
    + apply norm_idx_nat.
    + simpl lst. rewrite Nat.ltb_irrefl. auto.
Qed.

Lemma sof_set_none ct i v : sof_set ct None i v = sof_set ct (Some []) i v.
Proof. reflexivity. Qed.

Lemma sof_set_many_none ct vs k : vs <> [] ->
  sof_set_many ct None k vs = sof_set_many ct (Some []) k vs \/
  exists e, sof_set_many ct None k vs = (None, Some e) /\ sof_set_many ct (Some []) k vs = (Some [], Some e).
Proof.
  destruct vs as [|v r]; [congruence|]. intros _. simpl. rewrite sof_set_none.
  destruct (sof_set ct (Some []) (Z.of_nat k) (Some v)); eauto.
Qed.

Lemma sof_set_many_from_none ct vs zs : vs <> [] ->
  pvs_z vs = Some zs -> forallb (val_ok ct false) vs = true ->
  sof_set_many ct None 0 vs = (conc (Some zs), None).
Proof.
  intros Hne Hz Hok. pose proof (sof_set_many_append ct vs zs [] Hz Hok) as E.
  change (conc (Some [])) with (Some (@nil (nat * comp))) in E. cbn [length app] in E.
  destruct (sof_set_many_none ct vs 0 Hne) as [E1|(e & E1 & E2)].
  - rewrite E1. exact E.
  - rewrite E2 in E. discriminate.
Qed.

Lemma splice_step {A} (l: list A) k z m : k < length l ->
  firstn (S k) (firstn k l ++ z :: skipn (S k) l) = firstn k l ++ [z] /\
  skipn (S k + m) (firstn k l ++ z :: skipn (S k) l) = skipn (k + S m) l.
Proof.
  intros Hk. assert (Hl: length (firstn k l) = k) by (rewrite firstn_length; lia).
  split.
  - rewrite firstn_app, Hl. rewrite firstn_all2 by lia.
    replace (S k - k) with 1 by lia. reflexivity.
  - rewrite skipn_app, Hl. rewrite skipn_all2 by lia.
    replace (S k + m - k) with (S m) by lia. cbn [app]. rewrite skipn_cons.
    rewrite skipn_skipn_add. f_equal. lia.
Qed.

(* replacing l[k .. k+|zs|) in place *)
Lemma sof_set_many_replace ct : forall vs zs l k,
  pvs_z vs = Some zs -> forallb (val_ok ct true) vs = true -> k + length vs <= length l ->
  sof_set_many ct (conc (Some l)) k vs =
  (conc (Some (firstn k l ++ zs ++ skipn (k + length vs) l)), None).
Proof.
  induction vs as [|v r IH]; intros zs l k Hz Hok Hlen; cbn [pvs_z forallb sof_set_many length] in *.
  - inversion Hz. cbn [app]. rewrite Nat.add_0_r, firstn_skipn. auto.
  - destruct (pv_z v) as [z|] eqn:Ez; [|discriminate]. destruct (pvs_z r) as [zs'|] eqn:Er; [|discriminate].
    inversion Hz; subst. apply andb_prop in Hok as [H1 H2].
    rewrite (sof_set_dense ct (Some l) (Z.of_nat k) v z k); auto; simpl lst.
    + assert (Hk: k < length l) by lia. destruct (Nat.ltb_spec k (length l)); [|lia].
      rewrite (IH zs' (set_nth k z l) (S k)); auto; [|rewrite set_nth_length; lia].
      rewrite (set_nth_split l k z Hk).
      destruct (splice_step l k z (length r) Hk) as [E1 E2]. rewrite E1, E2.
      rewrite <- app_assoc. reflexivity.
    + apply norm_idx_nat.
    + lia.
    + destruct (Nat.ltb_spec k (length l)); [auto|lia].
Qed.

(* ---------- getComponentByPosition and the loops built on it ---------- *)

Lemma sof_get_dense ct a i inst k :
  norm_idx i (length (lst a)) = Some k -> k < length (lst a) ->
  sof_get ct (conc a) i inst = Ok (conc a, oslot (nth_error (lst a) k)).
Proof.
  intros Hn Hk. unfold sof_get. rewrite slen_conc, Hn, sget_conc.
  destruct (nth_error_is_some (lst a) k Hk) as [x Ex]. rewrite Ex. reflexivity.
Qed.

Lemma sof_get_dense_noinst ct a i k :
  norm_idx i (length (lst a)) = Some k -> length (lst a) <= k ->
  sof_get ct (conc a) i false = Ok (conc a, None).
Proof.
  intros Hn Hk. unfold sof_get. rewrite slen_conc, Hn, sget_conc.
  assert (nth_error (lst a) k = None) as -> by (apply nth_error_None; lia). reflexivity.
Qed.

Lemma skipn_nth_error {A} (l: list A) k x : nth_error l k = Some x -> skipn k l = x :: skipn (S k) l.
Proof.
  revert k; induction l as [|y l IH]; intros [|k] H; cbn [nth_error] in H; try discriminate.
  - inversion H; reflexivity.
  - cbn [skipn]. rewrite (IH k H). reflexivity.
Qed.

Lemma sof_iter_dense ct a : forall n from acc, from + n <= length (lst a) ->
  sof_iter ct (conc a) from n acc =
  (conc a, Ok (rev acc ++ map vslot (firstn n (skipn from (lst a))))).
Proof.
  induction n as [|n IH]; intros from acc H; cbn [sof_iter].
  - cbn [firstn map]. rewrite app_nil_r. reflexivity.
  - rewrite (sof_get_dense ct a (Z.of_nat from) true from (norm_idx_nat _ _)) by lia.
    destruct (nth_error_is_some (lst a) from ltac:(lia)) as [x Ex]. rewrite Ex.
    rewrite IH by lia. rewrite (skipn_nth_error _ _ _ Ex). cbn [firstn map rev oslot option_map].
    rewrite <- app_assoc. reflexivity.
Qed.

Lemma sof_in_dense ct a z : forall n from, from + n = length (lst a) ->
  sof_in ct (conc a) from n z = (conc a, OBool (existsb (fun x => Z.eqb x z) (skipn from (lst a)))).
Proof.
  induction n as [|n IH]; intros from H; cbn [sof_in].
  - rewrite skipn_all2 by lia. reflexivity.
  - rewrite (sof_get_dense ct a (Z.of_nat from) true from (norm_idx_nat _ _)) by lia.
    destruct (nth_error_is_some (lst a) from ltac:(lia)) as [x Ex]. rewrite Ex.
    rewrite (skipn_nth_error _ _ _ Ex). cbn [oslot option_map existsb].
    destruct (Z.eqb x z); [reflexivity|]. rewrite IH by lia. reflexivity.
Qed.

Lemma sof_chunks_dense ct a : forall n from acc, from + n <= length (lst a) ->
  sof_chunks ct (conc a) from n acc =
  (conc a, Ok (rev acc ++ map (int_tlv tag_integer) (firstn n (skipn from (lst a))))).
Proof.
  induction n as [|n IH]; intros from acc H; cbn [sof_chunks].
  - cbn [firstn map]. rewrite app_nil_r. reflexivity.
  - rewrite (sof_get_dense ct a (Z.of_nat from) true from (norm_idx_nat _ _)) by lia.
    destruct (nth_error_is_some (lst a) from ltac:(lia)) as [x Ex]. rewrite Ex.
    cbn [oslot option_map]. rewrite IH by lia. rewrite (skipn_nth_error _ _ _ Ex). cbn [firstn map rev].
    rewrite <- app_assoc. reflexivity.
Qed.

(* ---------- value operations on the whole dict ---------- *)

Lemma dense_vals l : map snd (dense l) = map CVal l.
Proof. unfold dense, enumerate. apply enumerate_from_snd. Qed.

Lemma has_schema_vals l : has_schema (map CVal l) = false.
Proof. induction l; auto. Qed.

Lemma comp_z_vals l : map comp_z (map CVal l) = l.
Proof. induction l; cbn [map comp_z]; [auto|f_equal; auto]. Qed.

Lemma count_z_vals z l : count_z z (map CVal l) = count_of z l.
Proof.
  unfold count_of. induction l as [|x l IH]; auto. cbn [map count_z comp_z filter].
  rewrite IH. destruct (Z.eqb x z); reflexivity.
Qed.

Lemma index_z_dense z : forall l i,
  index_z z (enumerate_from i (map CVal l)) =
  match index_of z l i with Some j => ONat j | None => ORaise EValue end.
Proof.
  induction l as [|x l IH]; intros i; cbn [map enumerate_from index_z index_of]; auto.
  destruct (Z.eqb x z); auto.
Qed.

Lemma list_eqb_length_ne (l l': list Z) : length l <> length l' -> list_eqb Z.eqb l l' = false.
Proof.
  revert l'; induction l as [|x l IH]; intros [|y l'] H; cbn [length list_eqb] in *; try congruence.
  rewrite IH by lia. apply andb_false_r.
Qed.

Lemma eq_elems_vals : forall l l', length l = length l' ->
  eq_elems (map Some (map CVal l)) l' = OBool (list_eqb Z.eqb l l').
Proof.
  induction l as [|x l IH]; intros [|y l'] H; cbn [length] in H; try discriminate; auto.
  cbn [map eq_elems list_eqb]. destruct (Z.eqb x y); [apply IH; lia|reflexivity].
Qed.

Lemma eq_list_vals l l' : eq_list (map Some (map CVal l)) l' = OBool (list_eqb Z.eqb l l').
Proof.
  unfold eq_list. rewrite !map_length. destruct (Nat.eqb_spec (length l) (length l')) as [E|E].
  - apply eq_elems_vals; auto.
  - rewrite list_eqb_length_ne; auto.
Qed.

Lemma clone_fold : forall (r p: list comp),
  fold_left (fun acc kv => dset (fst kv) (snd kv) acc) (enumerate_from (length p) r) (enumerate_from 0 p)
  = enumerate_from 0 (p ++ r).
Proof.
  induction r as [|x r IH]; intros p; cbn [enumerate_from fold_left fst snd].
  - rewrite app_nil_r. reflexivity.
  - change (length p) with (0 + length p). rewrite dset_enum_end.
    replace (S (0 + length p)) with (length (p ++ [x])) by (rewrite app_length; cbn; lia).
    rewrite IH. rewrite <- app_assoc. reflexivity.
Qed.

Lemma isvalue_dense l : sof_isvalue (Some (dense l)) = true.
Proof.
  unfold sof_isvalue. change (Some (dense l)) with (conc (Some l)) at 1. rewrite slen_conc.
  rewrite dense_length. cbn [lst]. rewrite Nat.eqb_refl. cbn [andb].
  unfold dense, enumerate. generalize 0. induction l as [|x l IH]; intros i; auto.
  cbn [map enumerate_from forallb snd is_value]. apply IH.
Qed.

Lemma zsort_short (l: list Z) : length l <= 1 -> zsort l = l /\ rev l = l.
Proof. destruct l as [|x [|y l]]; cbn [length]; intros; try lia; auto. Qed.

(* ---------- one step ---------- *)

Lemma to_index_lib : to_index ELib = EIndex. Proof. reflexivity. Qed.

Theorem sof_sim_step ct isset a o : l_wf ct a o = true ->
  sof_step ct isset (conc a) o = (conc (fst (l_step isset a o)), snd (l_step isset a o)).
Proof.
  intros Hwf.
  assert (set_case: forall i v, l_wf ct a (SSetItem i v) = true ->
            exists z k, pv_z v = Some z /\ norm_idx i (length (lst a)) = Some k /\
            sof_set ct (conc a) i (Some v) =
            Ok (conc (Some (if Nat.ltb k (length (lst a)) then set_nth k z (lst a) else lst a ++ [z])))).
  { intros i v H. cbn [l_wf] in H. destruct (norm_idx i (length (lst a))) as [k|] eqn:En; [|discriminate].
    apply andb_prop in H as [H1 H2]. apply Nat.leb_le in H1.
    destruct (val_ok_pv _ _ _ H2) as [z Ez]. exists z, k. repeat split; auto.
    apply sof_set_dense; auto. }
  destruct o; cbn [l_wf] in Hwf.
  - (* SSetItem *)
    destruct (set_case i v Hwf) as (z & k & Ez & En & Es).
    cbn [sof_step l_step]. rewrite Es, Ez, En. reflexivity.
  - (* SSetPos *)
    destruct v as [v|]; [|discriminate].
    destruct (set_case i v Hwf) as (z & k & Ez & En & Es).
    cbn [sof_step l_step]. rewrite Es, Ez, En. reflexivity.
  - (* SSetSlice *)
    apply andb_prop in Hwf as [Hne Hwf]. cbn [sof_step l_step]. rewrite slen_conc.
    unfold slice_range.
    destruct (Nat.eqb_spec (length (lst a)) 0) as [E0|E0].
    + (* empty object *)
      destruct (forall_ok_pvs _ _ _ Hwf) as [zs Ezs]. rewrite Ezs.
      assert (Hl: lst a = []) by (destruct (lst a); [auto|discriminate]).
      cbn [orb]. rewrite E0. cbn [Nat.min].
      assert (sof_set_many ct (conc a) 0 vs = (conc (Some zs), None)) as ->.
      { destruct a as [l|]; cbn [lst] in Hl.
        - subst l. apply (sof_set_many_append ct vs zs []); auto.
        - apply sof_set_many_from_none; auto. destruct vs; [discriminate|congruence]. }
      rewrite Hl. rewrite firstn_nil, skipn_nil. cbn [app]. rewrite app_nil_r. reflexivity.
    + apply andb_prop in Hwf as [Hwf Hok]. apply andb_prop in Hwf as [Hlt Hsum].
      apply Nat.ltb_lt in Hlt. apply Nat.eqb_eq in Hsum.
      destruct (forall_ok_pvs _ _ _ Hok) as [zs Ezs]. rewrite Ezs.
      cbn [orb]. replace (Nat.min a0 (length (lst a))) with a0 by lia.
      destruct (Nat.eqb_spec (Nat.min b (length (lst a)) - a0) 0); [lia|]. cbn [negb].
      assert (conc a = conc (Some (lst a))) as -> by (destruct a; [reflexivity|cbn in E0; congruence]).
      rewrite (sof_set_many_replace ct vs zs (lst a) a0 Ezs Hok) by lia.
      replace (Nat.max a0 (Nat.min b (length (lst a)))) with (a0 + length vs) by lia. reflexivity.
  - (* SAppend *)
    destruct (val_ok_pv _ _ _ Hwf) as [z Ez]. cbn [sof_step l_step]. unfold sof_append.
    rewrite sdict_conc, dense_length.
    rewrite (sof_set_dense ct a _ v z (length (lst a)) (norm_idx_nat _ _)); auto.
    + rewrite Nat.ltb_irrefl, Ez. reflexivity.
    + rewrite Nat.ltb_irrefl. auto.
  - (* SExtend *)
    destruct (forall_ok_pvs _ _ _ Hwf) as [zs Ezs]. cbn [sof_step l_step]. rewrite Ezs.
    assert (forall vs zs l, pvs_z vs = Some zs -> forallb (val_ok ct false) vs = true ->
              sof_extend ct (conc (Some l)) vs = (conc (Some (l ++ zs)), None)) as Hext.
    { clear. induction vs as [|v r IH]; intros zs l Hz Hok; cbn [pvs_z forallb sof_extend] in *.
      - inversion Hz. rewrite app_nil_r. reflexivity.
      - destruct (pv_z v) as [z|] eqn:Ez; [|discriminate]. destruct (pvs_z r) as [zs'|] eqn:Er; [|discriminate].
        inversion Hz; subst. apply andb_prop in Hok as [H1 H2]. unfold sof_append.
        rewrite sdict_conc, dense_length. cbn [lst].
        rewrite (sof_set_dense ct (Some l) _ v z (length l) (norm_idx_nat _ _)); auto; cbn [lst].
        + rewrite Nat.ltb_irrefl. rewrite (IH zs' (l ++ [z])) by auto. rewrite <- app_assoc. reflexivity.
        + rewrite Nat.ltb_irrefl. auto. }
    destruct a as [l|].
    + rewrite (Hext vs zs l Ezs Hwf). reflexivity.
    + destruct vs as [|v r].
      * cbn in Ezs. inversion Ezs. reflexivity.
      * cbn [conc option_map sof_extend]. unfold sof_append at 1. cbn [sdict length].
        rewrite sof_set_none. change (Some []) with (conc (Some [])).
        pose proof (Hext (v :: r) zs [] Ezs Hwf) as E. cbn [sof_extend] in E. unfold sof_append at 1 in E.
        rewrite sdict_conc, dense_length in E. cbn [lst length] in E.
        destruct (sof_set ct (conc (Some [])) (Z.of_nat 0) (Some v)) as [s'|e]; [|discriminate].
        rewrite E. reflexivity.
  - (* SSort *)
    destruct a as [l|]; [|discriminate]. cbn [sof_step l_step conc option_map lst].
    rewrite dense_vals.
    destruct l as [|x [|y l]]; [destruct reverse; reflexivity..|].
    cbn [map]. change (CVal x :: CVal y :: map CVal l) with (map CVal (x :: y :: l)).
    rewrite has_schema_vals, comp_z_vals. destruct reverse; reflexivity.
  - (* SReverse *)
    destruct a as [l|]; [|discriminate]. cbn [sof_step l_step conc option_map lst].
    unfold dense at 1. rewrite components_enum. rewrite <- map_rev. reflexivity.
  - reflexivity.
  - reflexivity.
  - (* SClone *)
    cbn [sof_step l_step]. destruct cloneValueFlag; [|reflexivity].
    destruct a as [l|]; [|reflexivity]. cbn [conc option_map fst snd]. do 2 f_equal.
    unfold dense, enumerate. apply (clone_fold (map CVal l) []).
  - (* SLen *) cbn [sof_step l_step]. rewrite slen_conc. reflexivity.
  - (* SIter *)
    cbn [sof_step l_step]. rewrite slen_conc. rewrite sof_iter_dense by lia.
    cbn [rev app skipn]. rewrite firstn_all. reflexivity.
  - (* SIn *)
    cbn [sof_step l_step]. rewrite slen_conc. rewrite sof_in_dense by lia. reflexivity.
  - (* SGetItem *)
    destruct (norm_idx i (length (lst a))) as [k|] eqn:En; [|discriminate]. apply Nat.ltb_lt in Hwf.
    cbn [sof_step l_step]. rewrite (sof_get_dense ct a i true k En Hwf), En. reflexivity.
  - (* SGetPos *)
    destruct (norm_idx i (length (lst a))) as [k|] eqn:En; [|discriminate].
    cbn [sof_step l_step]. rewrite En.
    destruct (Nat.ltb_spec k (length (lst a))) as [Hk|Hk].
    + rewrite (sof_get_dense ct a i inst k En Hk). reflexivity.
    + cbn [orb] in Hwf. destruct inst; [discriminate|].
      rewrite (sof_get_dense_noinst ct a i k En Hk).
      assert (nth_error (lst a) k = None) as -> by (apply nth_error_None; lia). reflexivity.
  - (* SGetSlice *)
    cbn [sof_step l_step]. rewrite slen_conc. unfold slice_range.
    rewrite sof_iter_dense by lia. reflexivity.
  - (* SCount *)
    destruct a as [l|]; [|discriminate]. cbn [sof_step l_step conc option_map lst].
    rewrite dense_vals, has_schema_vals, count_z_vals. reflexivity.
  - (* SIndex *)
    destruct a as [l|]; [|discriminate]. cbn [sof_step l_step conc option_map lst fst snd].
    unfold dense, enumerate. rewrite index_z_dense. reflexivity.
  - reflexivity.
  - (* SEq *)
    destruct a as [l0|]; [|discriminate]. cbn [sof_step l_step conc option_map lst fst snd].
    unfold dense at 2. rewrite components_enum, eq_list_vals. reflexivity.
  - (* SIsValue *)
    cbn [sof_step l_step]. destruct a as [l|]; [|reflexivity].
    cbn [conc option_map]. rewrite isvalue_dense. reflexivity.
  - (* SEncode *)
    destruct a as [l|]; [|discriminate]. cbn [sof_step l_step lst].
    rewrite slen_conc. rewrite sof_chunks_dense by (cbn [lst]; lia).
    cbn [rev app skipn lst]. rewrite firstn_all. reflexivity.
Qed.

(* ---------- histories ---------- *)

Theorem sof_refines_from ct isset : forall ops a, l_wf_hist ct isset a ops = true ->
  sof_run ct isset (conc a) ops = (conc (fst (l_run isset a ops)), snd (l_run isset a ops)).
Proof.
  induction ops as [|o r IH]; intros a H; [reflexivity|].
  cbn [l_wf_hist] in H. apply andb_prop in H as [H1 H2].
  cbn [sof_run l_run]. rewrite (sof_sim_step ct isset a o H1).
  destruct (l_step isset a o) as [a' x] eqn:E. cbn [fst snd] in *.
  rewrite (IH a' H2). destruct (l_run isset a' r). reflexivity.
Qed.

Lemma sof_observe_conc ct isset a : sof_observe ct isset (conc a) = l_observe isset a.
Proof.
  unfold sof_observe, l_observe. rewrite slen_conc. f_equal.
  - destruct a as [l|]; [|reflexivity]. cbn [conc option_map]. unfold dense. rewrite components_enum.
    rewrite map_map. reflexivity.
  - destruct a as [l|]; [|reflexivity]. cbn [conc option_map]. apply isvalue_dense.
  - destruct a as [l|].
    + rewrite (sof_sim_step ct isset (Some l) SEncode eq_refl). reflexivity.
    + reflexivity.
Qed.

Theorem sof_refines ct isset ops : l_wf_hist ct isset None ops = true ->
  let '(s, outs) := sof_run ct isset None ops in
  let '(a, outs') := l_run isset None ops in
  s = conc a /\ outs = outs' /\ sof_observe ct isset s = l_observe isset a.
Proof.
  intros H. pose proof (sof_refines_from ct isset ops None H) as E. change (conc None) with (@None dict) in E.
  rewrite E. destruct (l_run isset None ops) as [a outs']. cbn [fst snd].
  repeat split. apply sof_observe_conc.
Qed.

(* ---------- reads ---------- *)

Lemma l_step_reader isset a o : sof_reader o = true -> fst (l_step isset a o) = a.
Proof. destruct o; cbn; try discriminate; reflexivity. Qed.

Lemma sof_get_noct_oob a i k inst : norm_idx i (length (lst a)) = Some k -> length (lst a) <= k ->
  sof_get false (conc a) i inst = if inst then Err ELib else Ok (conc a, None).
Proof.
  intros Hn Hk. unfold sof_get. rewrite slen_conc, Hn, sget_conc.
  assert (nth_error (lst a) k = None) as E by (apply nth_error_None; lia). rewrite E. cbn [option_map].
  destruct inst; [|reflexivity]. unfold sof_set. rewrite slen_conc, norm_idx_nat, sget_conc, E. reflexivity.
Qed.

Lemma sof_get_badidx ct a i inst : norm_idx i (length (lst a)) = None -> sof_get ct (conc a) i inst = Err ELib.
Proof. intros H. unfold sof_get. rewrite slen_conc, H. reflexivity. Qed.

(* a read leaves a dense state as it is, unless it belongs to the class of F18d *)
Theorem sof_reads_inert_partial ct isset a o : sof_reader o = true -> f18d ct a o = false ->
  fst (sof_step ct isset (conc a) o) = conc a.
Proof.
  intros Hr Hx. destruct (l_wf ct a o) eqn:W.
  - rewrite (sof_sim_step ct isset a o W). cbn [fst]. rewrite l_step_reader; auto.
  - destruct o; cbn [sof_reader] in Hr; try discriminate; cbn [l_wf] in W; try discriminate.
    + (* SGetItem *)
      cbn [sof_step f18d] in *. destruct (norm_idx i (length (lst a))) as [k|] eqn:En.
      * apply Nat.ltb_ge in W. destruct ct.
        -- cbn [andb] in Hx. apply Nat.leb_gt in Hx. lia.
        -- rewrite (sof_get_noct_oob a i k true En W). reflexivity.
      * rewrite (sof_get_badidx ct a i true En). reflexivity.
    + (* SGetPos *)
      cbn [sof_step f18d] in *. destruct (norm_idx i (length (lst a))) as [k|] eqn:En.
      * apply orb_false_iff in W as [W1 W2]. apply Nat.ltb_ge in W1. destruct inst; [|discriminate].
        destruct ct.
        -- cbn [andb] in Hx. apply Nat.leb_gt in Hx. lia.
        -- rewrite (sof_get_noct_oob a i k true En W1). reflexivity.
      * rewrite (sof_get_badidx ct a i inst En). reflexivity.
    + destruct a; [discriminate|reflexivity].
    + destruct a; [discriminate|reflexivity].
    + destruct a; [discriminate|reflexivity].
    + destruct a; [discriminate|reflexivity].
Qed.

Theorem sof_reads_inert_refuted :
  exists a o, sof_reader o = true /\ l_wf true a o = false /\
              fst (sof_step true false (conc a) o) <> conc a /\
              o_len (sof_observe true false (fst (sof_step true false (conc a) o))) = 6.
Proof.
  exists (Some [1%Z]), (SGetItem 5). repeat split; try reflexivity. vm_compute. discriminate.
Qed.

(* ---------- ill-formed operations ---------- *)

Lemma resolve_bad ct cur v : val_ok ct (is_some cur) v = false ->
  match v with PBadAsn => ct | _ => true end = true ->
  sof_resolve ct cur (Some v) = Err ELib.
Proof.
  destruct v; cbn; intros H1 H2; try reflexivity; try discriminate.
  - destruct ct; [discriminate|]. destruct cur; [discriminate|reflexivity].
  - rewrite H2. reflexivity.
Qed.

Theorem sof_illformed_inert_partial ct isset a o : l_ill ct a o = true -> f18d ct a o = false ->
  fst (sof_step ct isset (conc a) o) = conc a /\
  exists e, snd (sof_step ct isset (conc a) o) = ORaise e /\ lookup_or_library e = true.
Proof.
  intros Hi Hx.
  assert (set_case: forall i v, l_ill ct a (SSetItem i v) = true -> f18d ct a (SSetItem i v) = false ->
            sof_set ct (conc a) i (Some v) = Err ELib).
  { intros i v H1 H2. cbn [l_ill f18d] in *. unfold sof_set. rewrite slen_conc.
    destruct (norm_idx i (length (lst a))) as [k|]; [|reflexivity]. rewrite H2 in H1. cbn [orb] in H1.
    apply andb_prop in H1 as [H1 H3]. apply negb_true_iff in H1. rewrite sget_conc.
    apply Nat.ltb_ge in H2.
    assert (is_some (option_map CVal (nth_error (lst a) k)) = Nat.ltb k (length (lst a))) as Ecur.
    { destruct (Nat.ltb_spec k (length (lst a))) as [Hk|Hk].
      - destruct (nth_error_is_some (lst a) k Hk) as [x ->]. reflexivity.
      - assert (nth_error (lst a) k = None) as -> by (apply nth_error_None; lia). reflexivity. }
    rewrite resolve_bad; [reflexivity| rewrite Ecur; exact H1 | exact H3]. }
  destruct o; cbn [l_ill] in Hi; try discriminate.
  - (* SSetItem *) cbn [sof_step]. rewrite (set_case i v Hi Hx). split; [reflexivity|]. exists EIndex. split; reflexivity.
  - (* SSetPos *) destruct v as [v|]; [|discriminate]. cbn [sof_step]. rewrite (set_case i v Hi Hx).
    split; [reflexivity|]. exists ELib. split; reflexivity.
  - (* SAppend *)
    cbn [sof_step]. unfold sof_append. rewrite sdict_conc, dense_length.
    rewrite (set_case (Z.of_nat (length (lst a))) v).
    + split; [reflexivity|]. exists EIndex. split; reflexivity.
    + cbn [l_ill]. rewrite norm_idx_nat, Nat.ltb_irrefl. cbn [orb]. exact Hi.
    + cbn [f18d]. rewrite norm_idx_nat. apply Nat.ltb_irrefl.
  - (* SSort *) destruct a; [discriminate|]. cbn. split; [reflexivity|]. exists ELib. split; reflexivity.
  - (* SReverse *) destruct a; [discriminate|]. cbn. split; [reflexivity|]. exists ELib. split; reflexivity.
  - (* SGetItem *)
    cbn [sof_step f18d] in *. destruct (norm_idx i (length (lst a))) as [k|] eqn:En.
    + apply Nat.leb_le in Hi. destruct ct.
      * cbn [andb] in Hx. apply Nat.leb_gt in Hx. lia.
      * rewrite (sof_get_noct_oob a i k true En Hi). split; [reflexivity|]. exists EIndex. split; reflexivity.
    + rewrite (sof_get_badidx ct a i true En). split; [reflexivity|]. exists EIndex. split; reflexivity.
  - (* SGetPos *)
    cbn [sof_step f18d] in *. destruct inst.
    + destruct (norm_idx i (length (lst a))) as [k|] eqn:En.
      * apply Nat.leb_le in Hi. destruct ct.
        -- cbn [andb] in Hx. apply Nat.leb_gt in Hx. lia.
        -- rewrite (sof_get_noct_oob a i k true En Hi). split; [reflexivity|]. exists ELib. split; reflexivity.
      * rewrite (sof_get_badidx ct a i true En). split; [reflexivity|]. exists ELib. split; reflexivity.
    + destruct (norm_idx i (length (lst a))) as [k|] eqn:En; [discriminate|].
      rewrite (sof_get_badidx ct a i false En). split; [reflexivity|]. exists ELib. split; reflexivity.
  - (* SCount *) destruct a; [discriminate|]. cbn. split; [reflexivity|]. exists ELib. split; reflexivity.
  - (* SEq *) destruct a; [discriminate|]. cbn. split; [reflexivity|]. exists ELib. split; reflexivity.
Qed.

(* an assignment beyond the end is accepted and leaves holes (F18d) *)
Theorem sof_illformed_inert_refuted :
  exists a o, l_ill true a o = true /\ snd (sof_step true false (conc a) o) = ORet /\
              fst (sof_step true false (conc a) o) = Some [(0, CVal 1%Z); (7, CVal 9%Z)].
Proof. exists (Some [1%Z]), (SSetItem 7 (PInt 9)). repeat split. Qed.

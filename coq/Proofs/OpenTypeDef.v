(* Open types governed by a DEFAULT / OPTIONAL member (Model/OpenTypeDef.v): the extended second pass
   is the one of Model/OpenType.v wherever that one answers, a governing member left out of the
   encoding because its value equals the declared default resolves exactly like an explicit one, and
   executable witnesses for every codec. *)
From PV Require Import Model.Types Model.Proc Model.Enc Model.Dec Model.Obs Model.OpenType Model.OpenTypeDef.
From Coq Require Import Lia.
Local Open Scope N_scope.

Lemma set_nth_same_id : forall (A: Type) (l: list A) i (x d: A), (i < length l)%nat -> nth i l d = x -> set_nth i x l = l.
Proof.
  induction l as [|y r IH]; intros [|i] x d Hl H; simpl in *; try reflexivity; try (exfalso; lia).
  - now subst.
  - f_equal. apply IH with d; [lia | exact H].
Qed.

Lemma nth_some_lt : forall (A: Type) (l: list (option A)) i x, nth i l None = Some x -> (i < length l)%nat.
Proof.
  induction l as [|y r IH]; intros [|i] x H; simpl in *; try discriminate.
  - lia.
  - apply IH in H. lia.
Qed.

(* conservative: with the governing member decoded nothing changes *)
Theorem second_pass_d_present : forall c allow T fs gi oi dflt override vs g,
  nth gi vs None = Some g ->
  second_pass_d c allow T fs gi oi dflt override vs = second_pass c allow T fs gi oi dflt override vs.
Proof.
  intros c allow T fs gi oi dflt override vs g Hg.
  unfold second_pass_d, second_pass, gov_value.
  destruct (nth_error fs oi) as [[p ft]|]; [|reflexivity].
  destruct (nth oi vs None) as [fv|] eqn:Hfv; [|reflexivity].
  rewrite Hg. cbn [bind].
  rewrite (set_nth_same_id _ vs gi (Some g) None (nth_some_lt _ _ _ _ Hg) Hg).
  rewrite Hfv, Hg. reflexivity.
Qed.

(* a DEFAULT governing member left out of the encoding: the open member is resolved exactly as in the
   record that holds the default explicitly *)
Theorem second_pass_d_defaulted : forall c allow T fs gi oi dflt override vs p ft fv d gT,
  nth_error fs oi = Some (p, ft) -> nth oi vs None = Some fv ->
  nth_error fs gi = Some (Def d, gT) -> nth gi vs None = None ->
  second_pass_d c allow T fs gi oi dflt override vs
  = second_pass c allow T fs gi oi dflt override (set_nth gi (Some d) vs).
Proof.
  intros * Hoi Hfv Hgi Hg. unfold second_pass_d, gov_value. rewrite Hoi, Hfv, Hg, Hgi. reflexivity.
Qed.

(* an OPTIONAL governing member left out: the lookup raises (unless the open member is absent too) *)
Theorem second_pass_d_no_governing_value : forall c allow T fs gi oi dflt override vs p ft fv gT,
  nth_error fs oi = Some (p, ft) -> nth oi vs None = Some fv ->
  nth_error fs gi = Some (Opt, gT) -> nth gi vs None = None ->
  second_pass_d c allow T fs gi oi dflt override vs = Err EMalformed.
Proof.
  intros * Hoi Hfv Hgi Hg. unfold second_pass_d, gov_value. rewrite Hoi, Hfv, Hg, Hgi. reflexivity.
Qed.

(* what the decoder resolves by is the governing value of the specification whenever it answers *)
Theorem gov_value_is_effective : forall fs gi vs pg gT g,
  nth_error fs gi = Some (pg, gT) -> gov_value fs gi vs = Ok g -> effective_gov pg (nth gi vs None) = Some g.
Proof.
  intros * Hgi H. unfold gov_value in H. unfold effective_gov.
  destruct (nth gi vs None) as [g'|].
  - now inversion H.
  - rewrite Hgi in H. destruct pg; try discriminate. now inversion H.
Qed.

Theorem dec_open_d_off : forall c T gi oi dflt b,
  dec_open_d c T gi oi dflt [] false b = decode c (Some T) b.
Proof.
  intros. unfold dec_open_d, dec_open_after_d. destruct (decode c (Some T) b) as [[d r]|e]; reflexivity.
Qed.

(* ---- witnesses: Msg ::= SEQUENCE { kind INTEGER DEFAULT 1, body ANY DEFINED BY kind } ---- *)
Definition Pt := TSeq [(Req, TInt); (Req, TInt)].
Definition TD1 := TSeq [(Def (VInt 1), TInt); (Req, TAny)].
Definition md : omap := [(VInt 1, Pt); (VInt 2, TOcts)].
Definition pt : val := VRec [Some (VInt 3); Some (VInt (-4))].

(* the value equals the default: every codec leaves the governing member out, the open member is
   still resolved by it; with resolution off the complete encoding of the inner value stays *)
Lemma ex_defaulted_ber :
  enc_open BER true 0 TD1 1 (VRec [Some (VInt 1); None]) true [(Pt, pt)] = Ok [48;8;48;6;2;1;3;2;1;252]
  /\ enc_open BER true 0 TD1 1 (VRec [None; None]) true [(Pt, pt)] = Ok [48;8;48;6;2;1;3;2;1;252]
  /\ expected_type (Def (VInt 1)) None md [] true = Some Pt
  /\ dec_open_d BER TD1 0 1 md [] true [48;8;48;6;2;1;3;2;1;252]
     = Ok (DV (TSeq [(Def (VInt 1), TInt); (Req, Pt)]) (VRec [Some (VInt 1); Some pt]), [])
  /\ dec_open_d BER TD1 0 1 md [] false [48;8;48;6;2;1;3;2;1;252]
     = Ok (DV TD1 (VRec [None; Some (VAny [48;6;2;1;3;2;1;252])]), []).
Proof. repeat split; vm_compute; reflexivity. Qed.

Lemma ex_defaulted_indef_cer_der :
  enc_open BER false 0 TD1 1 (VRec [Some (VInt 1); None]) true [(Pt, pt)] = Ok [48;128;48;128;2;1;3;2;1;252;0;0;0;0]
  /\ dec_open_d BER TD1 0 1 md [] true [48;128;48;128;2;1;3;2;1;252;0;0;0;0]
     = Ok (DV (TSeq [(Def (VInt 1), TInt); (Req, Pt)]) (VRec [Some (VInt 1); Some pt]), [])
  /\ enc_open CER true 0 TD1 1 (VRec [Some (VInt 1); None]) true [(Pt, pt)] = Ok [48;128;48;128;2;1;3;2;1;252;0;0;0;0]
  /\ dec_open_d CER TD1 0 1 md [] true [48;128;48;128;2;1;3;2;1;252;0;0;0;0]
     = Ok (DV (TSeq [(Def (VInt 1), TInt); (Req, Pt)]) (VRec [Some (VInt 1); Some pt]), [])
  /\ enc_open DER true 0 TD1 1 (VRec [Some (VInt 1); None]) true [(Pt, pt)] = Ok [48;8;48;6;2;1;3;2;1;252]
  /\ dec_open_d DER TD1 0 1 md [] true [48;8;48;6;2;1;3;2;1;252]
     = Ok (DV (TSeq [(Def (VInt 1), TInt); (Req, Pt)]) (VRec [Some (VInt 1); Some pt]), []).
Proof. repeat split; vm_compute; reflexivity. Qed.

(* a value other than the default is on the wire and wins over the default *)
Lemma ex_default_overridden_by_value :
  enc_open DER true 0 TD1 1 (VRec [Some (VInt 2); None]) true [(TOcts, VOcts [97])] = Ok [48;6;2;1;2;4;1;97]
  /\ dec_open_d DER TD1 0 1 md [] true [48;6;2;1;2;4;1;97]
     = Ok (DV (TSeq [(Def (VInt 1), TInt); (Req, TOcts)]) (VRec [Some (VInt 2); Some (VOcts [97])]), []).
Proof. split; vm_compute; reflexivity. Qed.

(* SET { kind INTEGER DEFAULT 1, body SET OF [3] ANY }: every element is resolved by the default *)
Definition TD2 := TSet [(Def (VInt 1), TInt); (Req, TSetOf (TExp (mkTag Ctx true 3) TAny))].
Lemma ex_defaulted_set_of_der :
  enc_open DER true 0 TD2 1 (VRec [Some (VInt 1); None]) true [(Pt, pt)] = Ok [49;12;49;10;163;8;48;6;2;1;3;2;1;252]
  /\ dec_open_d DER TD2 0 1 md [] true [49;12;49;10;163;8;48;6;2;1;3;2;1;252]
     = Ok (DV (TSet [(Def (VInt 1), TInt); (Req, TSetOf Pt)]) (VRec [Some (VInt 1); Some (VList [pt])]), []).
Proof. split; vm_compute; reflexivity. Qed.

(* OPTIONAL governing member left out: no governing value, so the specification names no type; the
   decoder does not leave the member alone but raises as soon as resolution is on *)
Definition TO1 := TSeq [(Opt, TInt); (Req, TExp (mkTag Ctx true 3) TAny)].
Lemma ex_no_governing_value :
  enc_open BER true 0 TO1 1 (VRec [None; None]) true [(TOcts, VOcts [97;98])] = Ok [48;6;163;4;4;2;97;98]
  /\ expected_type Opt None md [] true = None
  /\ dec_open_d BER TO1 0 1 md [] false [48;6;163;4;4;2;97;98]
     = Ok (DV TO1 (VRec [None; Some (VAny [4;2;97;98])]), [])
  /\ dec_open_d BER TO1 0 1 md [] true [48;6;163;4;4;2;97;98] = Err EMalformed.
Proof. repeat split; vm_compute; reflexivity. Qed.

(* Running a sequenced decoder: the bind laws of [resume]. *)
From PV Require Import Base.Bytes Model.Proc.

Lemma resume_pbind_done {A B} (p: proc A) (f: A -> proc B) : forall s a s1,
  resume p s = inr (Ok a, s1) -> resume (pbind p f) s = resume (f a) s1.
Proof.
  induction p as [a0|e|n k IH|k IH|d k IH|k IH|k IH|k IH|k IH]; intros s a s1 H; cbn [pbind resume] in *.
  - inversion H; subst. reflexivity.
  - discriminate.
  - destruct (attempt s n) as [[c| |] sm]; try discriminate. apply IH; assumption.
  - apply IH; assumption.
  - apply IH; assumption.
  - apply IH; assumption.
  - apply IH; assumption.
  - destruct (Nat.eqb (length (avail s)) 0).
    + destruct (closed s); [apply IH; assumption|discriminate].
    + apply IH; assumption.
  - destruct (Nat.eqb (length (avail s)) 0).
    + destruct (closed s); discriminate.
    + apply IH; assumption.
Qed.

Lemma resume_pbind_err {A B} (p: proc A) (f: A -> proc B) : forall s e s1,
  resume p s = inr (Err e, s1) -> resume (pbind p f) s = inr (Err e, s1).
Proof.
  induction p as [a0|e0|n k IH|k IH|d k IH|k IH|k IH|k IH|k IH]; intros s e s1 H; cbn [pbind resume] in *.
  - discriminate.
  - inversion H; subst. reflexivity.
  - destruct (attempt s n) as [[c| |] sm]; try discriminate; [apply IH; assumption|inversion H; subst; reflexivity].
  - apply IH; assumption.
  - apply IH; assumption.
  - apply IH; assumption.
  - apply IH; assumption.
  - destruct (Nat.eqb (length (avail s)) 0).
    + destruct (closed s); [apply IH; assumption|discriminate].
    + apply IH; assumption.
  - destruct (Nat.eqb (length (avail s)) 0).
    + destruct (closed s); [inversion H; subst; reflexivity|discriminate].
    + apply IH; assumption.
Qed.

(* inversion: a sequenced decoder that finished with a value ran its first part to a value *)
Lemma resume_pbind_inv {A B} (p: proc A) (f: A -> proc B) : forall s b s',
  resume (pbind p f) s = inr (Ok b, s') ->
  exists a s1, resume p s = inr (Ok a, s1) /\ resume (f a) s1 = inr (Ok b, s').
Proof.
  induction p as [a0|e|n k IH|k IH|d k IH|k IH|k IH|k IH|k IH]; intros s b s' H; cbn [pbind resume] in *.
  - eauto.
  - discriminate.
  - destruct (attempt s n) as [[c| |] sm]; try discriminate. apply IH; assumption.
  - apply IH; assumption.
  - apply IH; assumption.
  - apply IH; assumption.
  - apply IH; assumption.
  - destruct (Nat.eqb (length (avail s)) 0).
    + destruct (closed s); [apply IH; assumption|discriminate].
    + apply IH; assumption.
  - destruct (Nat.eqb (length (avail s)) 0).
    + destruct (closed s); discriminate.
    + apply IH; assumption.
Qed.

(* sequencing is associative up to running *)
Lemma resume_pbind_assoc {A B C} (p: proc A) (f: A -> proc B) (g: B -> proc C) : forall s a s1,
  resume p s = inr (Ok a, s1) -> resume (pbind (pbind p f) g) s = resume (pbind (f a) g) s1.
Proof.
  induction p as [a0|e|n k IH|k IH|d k IH|k IH|k IH|k IH|k IH]; intros s a s1 H; cbn [pbind resume] in *.
  - inversion H; subst. reflexivity.
  - discriminate.
  - destruct (attempt s n) as [[c| |] sm]; try discriminate. apply IH; assumption.
  - apply IH; assumption.
  - apply IH; assumption.
  - apply IH; assumption.
  - apply IH; assumption.
  - destruct (Nat.eqb (length (avail s)) 0).
    + destruct (closed s); [apply IH; assumption|discriminate].
    + apply IH; assumption.
  - destruct (Nat.eqb (length (avail s)) 0).
    + destruct (closed s); discriminate.
    + apply IH; assumption.
Qed.

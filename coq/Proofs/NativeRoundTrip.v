(* What the native encoder makes of a value object is read back - by the native decoder and by the
   bare-value branches of the BER-family encoders alike - as the value's canonical form [canon];
   [canon] has the abstract content of the value. *)
From Coq Require Import Lia.
From PV Require Import Model.Native Proofs.NativeText.
Local Open Scope N_scope.

(* ---------- the canonical form: what comes back ---------- *)
(* character strings as their octets, an unassigned DEFAULT member as its default, exact REALs in
   the form Real(float) gives them, ANY as an ANY value *)

Definition canon_real (r: real) : real :=
  match r with RPInf => RPInf | RNInf => RNInf | _ => RDec 0 0 end.

Fixpoint canon (T: ty) (v: val) {struct T} : val :=
  match T with
  | TImp _ x | TExp _ x => canon x v
  | TStr _ => match v with VChars cs => VOcts (concat cs) | _ => v end
  | TReal => match v with VReal r => VReal (canon_real r) | _ => v end
  | TAny => match v with VOcts b => VAny b | _ => v end
  | TSeqOf t | TSetOf t => match v with VList xs => VList (map (canon t) xs) | _ => v end
  | TChoice alts =>
      match v with
      | VChoice i x =>
          VChoice i ((fix go (alts: list ty) (k: nat) : val :=
                        match alts, k with
                        | a :: _, O => canon a x
                        | _ :: r, S k' => go r k'
                        | [], _ => x
                        end) alts i)
      | _ => v
      end
  | TSeq fs | TSet fs =>
      match v with
      | VRec vs =>
          VRec ((fix go (fs: list (presence * ty)) (vs: list (option val)) : list (option val) :=
                   match fs with
                   | [] => []
                   | (p, ft) :: fs' =>
                       let ov := match vs with x :: _ => x | [] => None end in
                       let vs' := match vs with _ :: r => r | [] => [] end in
                       (match ov, p with
                        | Some x, _ => Some (canon ft x)
                        | None, Def d => Some (canon ft d)
                        | None, _ => None
                        end) :: go fs' vs'
                   end) fs vs)
      | _ => v
      end
  | _ => v
  end.

(* ---------- the inner loops, by name ---------- *)

Definition canon_alt (x: val) : list ty -> nat -> val :=
  fix go (alts: list ty) (k: nat) : val :=
    match alts, k with
    | a :: _, O => canon a x
    | _ :: r, S k' => go r k'
    | [], _ => x
    end.

Definition canon_fields : list (presence * ty) -> list (option val) -> list (option val) :=
  fix go (fs: list (presence * ty)) (vs: list (option val)) : list (option val) :=
    match fs with
    | [] => []
    | (p, ft) :: fs' =>
        let ov := match vs with x :: _ => x | [] => None end in
        let vs' := match vs with _ :: r => r | [] => [] end in
        (match ov, p with
         | Some x, _ => Some (canon ft x)
         | None, Def d => Some (canon ft d)
         | None, _ => None
         end) :: go fs' vs'
    end.

Lemma canon_choice : forall alts i x, canon (TChoice alts) (VChoice i x) = VChoice i (canon_alt x alts i).
Proof. reflexivity. Qed.
Lemma canon_seq : forall fs vs, canon (TSeq fs) (VRec vs) = VRec (canon_fields fs vs).
Proof. reflexivity. Qed.
Lemma canon_set : forall fs vs, canon (TSet fs) (VRec vs) = VRec (canon_fields fs vs).
Proof. reflexivity. Qed.

Definition wf_alt (x: val) : list ty -> nat -> bool :=
  fix go (alts: list ty) (k: nat) : bool :=
    match alts, k with
    | a :: _, O => wf_native a x
    | _ :: r, S k' => go r k'
    | [], _ => false
    end.

Definition wf_fields : list (presence * ty) -> list (option val) -> bool :=
  fix go (fs: list (presence * ty)) (vs: list (option val)) : bool :=
    match fs with
    | [] => true
    | (p, ft) :: fs' =>
        let ov := match vs with x :: _ => x | [] => None end in
        let vs' := match vs with _ :: r => r | [] => [] end in
        (match ov, p with
         | Some x, _ => wf_native ft x
         | None, Opt => true
         | None, Def d => wf_native ft d
         | None, Req => false
         end) && go fs' vs'
    end.

Lemma wf_choice : forall alts i x, wf_native (TChoice alts) (VChoice i x) = wf_alt x alts i.
Proof. reflexivity. Qed.
Lemma wf_seq : forall fs vs, wf_native (TSeq fs) (VRec vs) = wf_fields fs vs.
Proof. reflexivity. Qed.
Lemma wf_set : forall fs vs, wf_native (TSet fs) (VRec vs) = wf_fields fs vs.
Proof. reflexivity. Qed.

Definition to_list (t: ty) : list val -> res (list pyval) :=
  fix go (xs: list val) : res (list pyval) :=
    match xs with
    | [] => Ok []
    | x :: r => do p <- to_native t x; do ps <- go r; Ok (p :: ps)
    end.

Definition to_alt (x: val) (i: nat) : list ty -> nat -> res pyval :=
  fix go (alts: list ty) (k: nat) : res pyval :=
    match alts, k with
    | a :: _, O => do p <- to_native a x; Ok (PDict [(i, p)])
    | _ :: r, S k' => go r k'
    | [], _ => Err EUnmodelled
    end.

Definition to_fields : nat -> list (presence * ty) -> list (option val) -> res (list (nat * pyval)) :=
  fix go (i: nat) (fs: list (presence * ty)) (vs: list (option val)) : res (list (nat * pyval)) :=
    match fs with
    | [] => Ok []
    | (p, ft) :: fs' =>
        let ov := match vs with x :: _ => x | [] => None end in
        let vs' := match vs with _ :: r => r | [] => [] end in
        match ov, p with
        | Some x, _ => do q <- to_native ft x; do rest <- go (S i) fs' vs'; Ok ((i, q) :: rest)
        | None, Opt => go (S i) fs' vs'
        | None, Def d => do q <- to_native ft d; do rest <- go (S i) fs' vs'; Ok ((i, q) :: rest)
        | None, Req => Err EUnmodelled
        end
    end.

Lemma to_native_seqof : forall t xs, to_native (TSeqOf t) (VList xs) = do ps <- to_list t xs; Ok (PList ps).
Proof. reflexivity. Qed.
Lemma to_native_setof : forall t xs, to_native (TSetOf t) (VList xs) = do ps <- to_list t xs; Ok (PList ps).
Proof. reflexivity. Qed.
Lemma to_native_choice : forall alts i x, to_native (TChoice alts) (VChoice i x) = to_alt x i alts i.
Proof. reflexivity. Qed.
Lemma to_native_seq : forall fs vs, to_native (TSeq fs) (VRec vs) = do kvs <- to_fields O fs vs; Ok (PDict kvs).
Proof. reflexivity. Qed.
Lemma to_native_set : forall fs vs, to_native (TSet fs) (VRec vs) = do kvs <- to_fields O fs vs; Ok (PDict kvs).
Proof. reflexivity. Qed.

Definition from_list (strict: bool) (t: ty) : list pyval -> res (list val) :=
  fix go (ps: list pyval) : res (list val) :=
    match ps with
    | [] => Ok []
    | q :: r => do x <- from_py strict t q; do xs <- go r; Ok (x :: xs)
    end.

Definition from_fields (strict: bool) (kvs: list (nat * pyval)) : nat -> list (presence * ty) -> res (list (option val)) :=
  fix go (i: nat) (fs: list (presence * ty)) : res (list (option val)) :=
    match fs with
    | [] => Ok []
    | (pr, ft) :: fs' =>
        match lookup_py i kvs with
        | Some q => do x <- from_py strict ft q; do r <- go (S i) fs'; Ok (Some x :: r)
        | None =>
            match pr, strict with
            | Opt, _ | _, false => do r <- go (S i) fs'; Ok (None :: r)
            | _, true => Err EMalformed
            end
        end
    end.

Definition from_collect (strict: bool) (kvs: list (nat * pyval)) : nat -> list ty -> list (nat * res val) :=
  fix go (i: nat) (alts: list ty) : list (nat * res val) :=
    match alts with
    | [] => []
    | a :: r => match lookup_py i kvs with
                | Some q => (i, from_py strict a q) :: go (S i) r
                | None => go (S i) r
                end
    end.

Definition from_alt_at (strict: bool) (q: pyval) : list ty -> nat -> option (res val) :=
  fix go (alts: list ty) (j: nat) : option (res val) :=
    match alts, j with
    | a :: _, O => Some (from_py strict a q)
    | _ :: r, S j' => go r j'
    | [], _ => None
    end.

Definition from_find (strict: bool) (alts: list ty) : list (nat * pyval) -> res val :=
  fix find (kvs: list (nat * pyval)) : res val :=
    match kvs with
    | [] => Err EUnmodelled
    | (k, q) :: rest =>
        match from_alt_at strict q alts k with
        | Some r => do x <- r; Ok (VChoice k x)
        | None => find rest
        end
    end.

Lemma from_py_seqof : forall s t ps, from_py s (TSeqOf t) (PList ps) = do xs <- from_list s t ps; Ok (VList xs).
Proof. reflexivity. Qed.
Lemma from_py_setof : forall s t ps, from_py s (TSetOf t) (PList ps) = do xs <- from_list s t ps; Ok (VList xs).
Proof. reflexivity. Qed.
Lemma from_py_seq : forall s fs kvs, from_py s (TSeq fs) (PDict kvs) = do vs <- from_fields s kvs O fs; Ok (VRec vs).
Proof. reflexivity. Qed.
Lemma from_py_set : forall s fs kvs, from_py s (TSet fs) (PDict kvs) = do vs <- from_fields s kvs O fs; Ok (VRec vs).
Proof. reflexivity. Qed.
Lemma from_py_choice_strict : forall alts kvs,
  from_py true (TChoice alts) (PDict kvs) =
  match from_collect true kvs O alts with
  | [(k, r)] => do x <- r; Ok (VChoice k x)
  | _ => Err EMalformed
  end.
Proof. reflexivity. Qed.
Lemma from_py_choice_lax : forall alts kvs,
  from_py false (TChoice alts) (PDict kvs) = from_find false alts kvs.
Proof. reflexivity. Qed.

(* ---------- the round trip through built-ins ---------- *)

Definition RT (T: ty) : Prop :=
  forall strict v, wf_native T v = true ->
  exists p, to_native T v = Ok p /\ from_py strict T p = Ok (canon T v).

Lemma list_rt : forall t, RT t -> forall strict xs, forallb (wf_native t) xs = true ->
  exists ps, to_list t xs = Ok ps /\ from_list strict t ps = Ok (map (canon t) xs).
Proof.
  intros t IH strict. induction xs as [|x xs IHxs]; intro H.
  - exists []. split; reflexivity.
  - simpl in H. apply andb_prop in H. destruct H as [Hx Hxs].
    destruct (IH strict x Hx) as [p [E1 E2]]. destruct (IHxs Hxs) as [ps [E3 E4]].
    exists (p :: ps). split.
    + cbn [to_list]. fold (to_list t). rewrite E1. cbn [bind]. rewrite E3. reflexivity.
    + cbn [from_list]. fold (from_list strict t). rewrite E2. cbn [bind]. rewrite E4. reflexivity.
Qed.

Lemma lookup_skip : forall i pre l, Forall (fun kv : nat * pyval => (fst kv < i)%nat) pre ->
  lookup_py i (pre ++ l) = lookup_py i l.
Proof.
  intros i pre l H. induction H as [|[k p] pre Hk _ IH]; [reflexivity|].
  simpl in *. destruct (Nat.eqb k i) eqn:E; [apply Nat.eqb_eq in E; lia|exact IH].
Qed.

Lemma lookup_above : forall i l, Forall (fun kv : nat * pyval => (S i <= fst kv)%nat) l ->
  lookup_py i l = None.
Proof.
  intros i l H. induction H as [|[k p] l Hk _ IH]; [reflexivity|].
  simpl in *. destruct (Nat.eqb k i) eqn:E; [apply Nat.eqb_eq in E; lia|exact IH].
Qed.

Lemma fields_rt : forall strict fs, Forall (fun f => RT (snd f)) fs ->
  forall i vs, wf_fields fs vs = true ->
  exists kvs, to_fields i fs vs = Ok kvs
    /\ Forall (fun kv => (i <= fst kv)%nat) kvs
    /\ forall pre, Forall (fun kv => (fst kv < i)%nat) pre ->
         from_fields strict (pre ++ kvs) i fs = Ok (canon_fields fs vs).
Proof.
  intros strict fs HF. induction HF as [|[p ft] fs' Hft _ IHfs]; intros i vs Hwf.
  - exists []. split; [reflexivity|]. split; [constructor|]. intros pre _. reflexivity.
  - simpl in Hft.
    (* the slot's value: assigned, or the default of an unassigned DEFAULT member *)
    assert (Hcase:
      (exists x vs', wf_native ft x = true /\ wf_fields fs' vs' = true
         /\ to_fields i ((p, ft) :: fs') vs
            = (do q <- to_native ft x; do rest <- to_fields (S i) fs' vs'; Ok ((i, q) :: rest))
         /\ canon_fields ((p, ft) :: fs') vs = Some (canon ft x) :: canon_fields fs' vs')
      \/ (exists vs', p = Opt /\ wf_fields fs' vs' = true
         /\ to_fields i ((p, ft) :: fs') vs = to_fields (S i) fs' vs'
         /\ canon_fields ((p, ft) :: fs') vs = None :: canon_fields fs' vs')).
    { destruct vs as [|[x|] vs']; cbn [wf_fields] in Hwf; fold wf_fields in Hwf; cbv zeta in Hwf.
      - destruct p as [| |d]; try discriminate Hwf.
        + right. exists []. repeat split; assumption.
        + apply andb_prop in Hwf. destruct Hwf as [A B].
          left. exists d, []. repeat split; assumption.
      - apply andb_prop in Hwf. destruct Hwf as [A B].
        left. exists x, vs'. repeat split; try assumption; destruct p; reflexivity.
      - destruct p as [| |d]; try discriminate Hwf.
        + right. exists vs'. repeat split; assumption.
        + apply andb_prop in Hwf. destruct Hwf as [A B].
          left. exists d, vs'. repeat split; assumption. }
    destruct Hcase as [[x [vs' [Hx [Hvs' [Eto Ecan]]]]] | [vs' [Hp [Hvs' [Eto Ecan]]]]].
    + destruct (Hft strict x Hx) as [q [E1 E2]].
      destruct (IHfs (S i) vs' Hvs') as [kvs' [E3 [Hkeys Hfrom]]].
      exists ((i, q) :: kvs'). split; [|split].
      * rewrite Eto, E1. cbn [bind]. rewrite E3. reflexivity.
      * constructor; [simpl; lia|]. eapply Forall_impl; [|exact Hkeys]. intros a Ha. simpl in Ha. lia.
      * intros pre Hpre. rewrite Ecan.
        cbn [from_fields]. fold (from_fields strict (pre ++ (i, q) :: kvs')).
        rewrite (lookup_skip i pre _ Hpre). cbn [lookup_py]. rewrite Nat.eqb_refl.
        rewrite E2. cbn [bind].
        replace (pre ++ (i, q) :: kvs') with ((pre ++ [(i, q)]) ++ kvs') by (rewrite <- app_assoc; reflexivity).
        rewrite Hfrom; [reflexivity|].
        apply Forall_app. split.
        -- eapply Forall_impl; [|exact Hpre]. intros a Ha. simpl in Ha. lia.
        -- constructor; [simpl; lia|constructor].
    + subst p.
      destruct (IHfs (S i) vs' Hvs') as [kvs' [E3 [Hkeys Hfrom]]].
      exists kvs'. split; [|split].
      * rewrite Eto. exact E3.
      * eapply Forall_impl; [|exact Hkeys]. intros a Ha. simpl in Ha. lia.
      * intros pre Hpre. rewrite Ecan.
        cbn [from_fields]. fold (from_fields strict (pre ++ kvs')).
        rewrite (lookup_skip i pre _ Hpre), (lookup_above i kvs' Hkeys).
        rewrite Hfrom; [reflexivity|].
        eapply Forall_impl; [|exact Hpre]. intros a Ha. simpl in Ha. lia.
Qed.

Lemma alt_sel : forall x i alts, Forall RT alts -> forall k, wf_alt x alts k = true ->
  exists a, nth_error alts k = Some a /\ RT a /\ wf_native a x = true
    /\ to_alt x i alts k = (do p <- to_native a x; Ok (PDict [(i, p)]))
    /\ canon_alt x alts k = canon a x.
Proof.
  intros x i alts HF. induction HF as [|a r Ha _ IH]; intros k H.
  - destruct k; discriminate H.
  - destruct k as [|k'].
    + exists a. repeat split; assumption.
    + destruct (IH k' H) as [b [E1 [E2 [E3 [E4 E5]]]]]. exists b. repeat split; assumption.
Qed.

Lemma alt_at_nth : forall strict q alts k a, nth_error alts k = Some a ->
  from_alt_at strict q alts k = Some (from_py strict a q).
Proof.
  intros strict q. induction alts as [|b r IH]; intros k a H.
  - destruct k; discriminate H.
  - destruct k as [|k']; [injection H as ->; reflexivity|apply (IH k' a H)].
Qed.

Lemma collect_none : forall strict key p alts j, (key < j)%nat ->
  from_collect strict [(key, p)] j alts = [].
Proof.
  intros strict key p. induction alts as [|a r IH]; intros j H; [reflexivity|].
  cbn [from_collect]. fold (from_collect strict [(key, p)]). cbn [lookup_py].
  destruct (Nat.eqb key j) eqn:E; [apply Nat.eqb_eq in E; lia|]. apply IH. lia.
Qed.

Lemma collect_one : forall strict p alts j k a, nth_error alts k = Some a ->
  from_collect strict [((j + k)%nat, p)] j alts = [((j + k)%nat, from_py strict a p)].
Proof.
  intros strict p. induction alts as [|b r IH]; intros j k a H.
  - destruct k; discriminate H.
  - cbn [from_collect]. fold (from_collect strict [((j + k)%nat, p)]). cbn [lookup_py].
    destruct k as [|k'].
    + injection H as ->. rewrite Nat.add_0_r, Nat.eqb_refl.
      rewrite collect_none by lia. reflexivity.
    + destruct (Nat.eqb (j + S k') j) eqn:E; [apply Nat.eqb_eq in E; lia|].
      replace (j + S k')%nat with (S j + k')%nat by lia. apply (IH (S j) k' a H).
Qed.

Theorem native_builtins_roundtrip : forall T, RT T.
Proof.
  apply ty_ind'; unfold RT.
  - (* BOOLEAN *) intros s v H. destruct v; try discriminate H. eexists; split; reflexivity.
  - (* INTEGER *) intros s v H. destruct v; try discriminate H. eexists; split; reflexivity.
  - (* ENUMERATED *) intros s v H. destruct v; try discriminate H. eexists; split; reflexivity.
  - (* BIT STRING *) intros s v H. destruct v; try discriminate H. eexists; split; [reflexivity|].
    cbn [from_py scalar_of_py]. rewrite parse_bits_text. reflexivity.
  - (* OCTET STRING *) intros s v H. destruct v; try discriminate H. eexists; split; reflexivity.
  - (* NULL *) intros s v H. destruct v; try discriminate H. eexists; split; reflexivity.
  - (* OBJECT IDENTIFIER *) intros s v H. destruct v; try discriminate H. eexists; split; [reflexivity|].
    cbn [from_py scalar_of_py]. rewrite parse_oid_text. reflexivity.
  - (* REAL *) intros s v H. destruct v as [| | | | | | |r| | | |]; try discriminate H.
    destruct r as [| |m e|m e|]; simpl in H; try discriminate H;
      try (eexists; split; reflexivity);
      (eexists; split; [cbn [to_native float_of_real]; rewrite H; reflexivity|reflexivity]).
  - (* character strings *) intros n s v H. destruct v; try discriminate H; eexists; split; reflexivity.
  - (* SEQUENCE *) intros fs HF s v H. destruct v as [| | | | | | | |vs| | |]; try discriminate H.
    rewrite wf_seq in H.
    destruct (fields_rt s fs HF O vs H) as [kvs [E1 [_ E2]]].
    exists (PDict kvs). split.
    + rewrite to_native_seq, E1. reflexivity.
    + rewrite from_py_seq, canon_seq. pose proof (E2 [] (Forall_nil _)) as E3.
      change ([] ++ kvs) with kvs in E3. rewrite E3. reflexivity.
  - (* SET *) intros fs HF s v H. destruct v as [| | | | | | | |vs| | |]; try discriminate H.
    rewrite wf_set in H.
    destruct (fields_rt s fs HF O vs H) as [kvs [E1 [_ E2]]].
    exists (PDict kvs). split.
    + rewrite to_native_set, E1. reflexivity.
    + rewrite from_py_set, canon_set. pose proof (E2 [] (Forall_nil _)) as E3.
      change ([] ++ kvs) with kvs in E3. rewrite E3. reflexivity.
  - (* SEQUENCE OF *) intros t IH s v H. destruct v as [| | | | | | | | |xs| |]; try discriminate H.
    simpl in H. destruct (list_rt t IH s xs H) as [ps [E1 E2]].
    exists (PList ps). split.
    + rewrite to_native_seqof, E1. reflexivity.
    + rewrite from_py_seqof, E2. reflexivity.
  - (* SET OF *) intros t IH s v H. destruct v as [| | | | | | | | |xs| |]; try discriminate H.
    simpl in H. destruct (list_rt t IH s xs H) as [ps [E1 E2]].
    exists (PList ps). split.
    + rewrite to_native_setof, E1. reflexivity.
    + rewrite from_py_setof, E2. reflexivity.
  - (* CHOICE *) intros alts HF s v H. destruct v as [| | | | | | | | | |i x|]; try discriminate H.
    rewrite wf_choice in H.
    destruct (alt_sel x i alts HF i H) as [a [Hn [IHa [Hwa [Eto Ecan]]]]].
    destruct (IHa s x Hwa) as [p [E1 E2]].
    exists (PDict [(i, p)]). split.
    + rewrite to_native_choice, Eto, E1. reflexivity.
    + rewrite canon_choice, Ecan. destruct s.
      * rewrite from_py_choice_strict.
        pose proof (collect_one true p alts O i a Hn) as Hc. simpl in Hc. rewrite Hc.
        rewrite E2. reflexivity.
      * rewrite from_py_choice_lax. cbn [from_find].
        rewrite (alt_at_nth false p alts i a Hn), E2. reflexivity.
  - (* ANY *) intros s v H. destruct v; try discriminate H; eexists; split; reflexivity.
  - (* IMPLICIT *) intros t x IH s v H. exact (IH s v H).
  - (* EXPLICIT *) intros t x IH s v H. exact (IH s v H).
Qed.

(* ---------- the canonical form has the value's abstract content ---------- *)

Definition abs_alt (i: nat) (x: val) : list ty -> nat -> aval :=
  fix go (alts: list ty) (k: nat) : aval :=
    match alts, k with
    | a :: _, O => AChoice i (abs a x)
    | _ :: r, S k' => go r k'
    | [], _ => ABad
    end.

Definition abs_fields : list (presence * ty) -> list (option val) -> list (option aval) :=
  fix go (fs: list (presence * ty)) (vs: list (option val)) : list (option aval) :=
    match fs, vs with
    | (p, ft) :: fs', ov :: vs' =>
        (match ov, p with
         | Some x, _ => Some (abs ft x)
         | None, Def d => Some (abs ft d)
         | None, _ => None
         end) :: go fs' vs'
    | (p, ft) :: fs', [] =>
        (match p with Def d => Some (abs ft d) | _ => None end) :: go fs' []
    | [], _ => []
    end.

Lemma abs_choice : forall alts i x, abs (TChoice alts) (VChoice i x) = abs_alt i x alts i.
Proof. reflexivity. Qed.
Lemma abs_seq : forall fs vs, abs (TSeq fs) (VRec vs) = ARec (abs_fields fs vs).
Proof. reflexivity. Qed.
Lemma abs_set : forall fs vs, abs (TSet fs) (VRec vs) = ARec (abs_fields fs vs).
Proof. reflexivity. Qed.

Definition AbsOk (T: ty) : Prop := forall v, wf_native T v = true -> abs T (canon T v) = abs T v.

Lemma abs_fields_canon : forall fs, Forall (fun f => AbsOk (snd f)) fs ->
  forall vs, wf_fields fs vs = true -> abs_fields fs (canon_fields fs vs) = abs_fields fs vs.
Proof.
  intros fs HF. induction HF as [|[p ft] fs' Hft _ IH]; intros vs H; [reflexivity|].
  simpl in Hft.
  destruct vs as [|[x|] vs']; cbn [wf_fields] in H; fold wf_fields in H; cbv zeta in H;
    cbn [canon_fields]; fold canon_fields; cbv zeta; cbn [abs_fields]; fold abs_fields.
  - destruct p as [| |d]; try discriminate H.
    + rewrite (IH [] H). reflexivity.
    + apply andb_prop in H. destruct H as [A B]. rewrite (Hft d A), (IH [] B). reflexivity.
  - apply andb_prop in H. destruct H as [A B]. rewrite (Hft x A), (IH vs' B). reflexivity.
  - destruct p as [| |d]; try discriminate H.
    + rewrite (IH vs' H). reflexivity.
    + apply andb_prop in H. destruct H as [A B]. rewrite (Hft d A), (IH vs' B). reflexivity.
Qed.

Lemma abs_alt_canon : forall i x alts, Forall AbsOk alts -> forall k, wf_alt x alts k = true ->
  abs_alt i (canon_alt x alts k) alts k = abs_alt i x alts k.
Proof.
  intros i x alts HF. induction HF as [|a r Ha _ IH]; intros k H.
  - destruct k; discriminate H.
  - destruct k as [|k']; cbn [abs_alt canon_alt].
    + rewrite (Ha x H). reflexivity.
    + fold (abs_alt i (canon_alt x r k')). fold (abs_alt i x). apply (IH k' H).
Qed.

Theorem canon_abs : forall T, AbsOk T.
Proof.
  apply ty_ind'; unfold AbsOk.
  - intros v H. reflexivity.
  - intros v H. reflexivity.
  - intros v H. reflexivity.
  - intros v H. reflexivity.
  - intros v H. reflexivity.
  - intros v H. reflexivity.
  - intros v H. reflexivity.
  - (* REAL *) intros v H. destruct v as [| | | | | | |r| | | |]; try discriminate H.
    destruct r as [| |m e|m e|]; simpl in H; try discriminate H; try reflexivity;
      apply Z.eqb_eq in H; subst m; reflexivity.
  - (* character strings *) intros n v H. destruct v; try discriminate H; reflexivity.
  - (* SEQUENCE *) intros fs HF v H. destruct v as [| | | | | | | |vs| | |]; try discriminate H.
    rewrite wf_seq in H. rewrite canon_seq, !abs_seq, (abs_fields_canon fs HF vs H). reflexivity.
  - (* SET *) intros fs HF v H. destruct v as [| | | | | | | |vs| | |]; try discriminate H.
    rewrite wf_set in H. rewrite canon_set, !abs_set, (abs_fields_canon fs HF vs H). reflexivity.
  - (* SEQUENCE OF *) intros t IH v H. destruct v as [| | | | | | | | |xs| |]; try discriminate H.
    simpl in H. simpl. f_equal. rewrite map_map. apply map_ext_in. intros x Hx.
    apply IH. rewrite forallb_forall in H. apply H, Hx.
  - (* SET OF *) intros t IH v H. destruct v as [| | | | | | | | |xs| |]; try discriminate H.
    simpl in H. simpl. f_equal. rewrite map_map. apply map_ext_in. intros x Hx.
    apply IH. rewrite forallb_forall in H. apply H, Hx.
  - (* CHOICE *) intros alts HF v H. destruct v as [| | | | | | | | | |i x|]; try discriminate H.
    rewrite wf_choice in H. rewrite canon_choice, !abs_choice. apply (abs_alt_canon i x alts HF i H).
  - (* ANY *) intros v H. destruct v; try discriminate H; reflexivity.
  - intros t x IH v H. exact (IH v H).
  - intros t x IH v H. exact (IH v H).
Qed.

(* ---------- C17, first half ---------- *)

Theorem native_roundtrip : forall T v, wf_native T v = true ->
  exists p v', to_native T v = Ok p /\ of_native T p = Ok v' /\ abs T v' = abs T v.
Proof.
  intros T v H. destruct (native_builtins_roundtrip T false v H) as [p [E1 E2]].
  exists p, (canon T v). repeat split; [exact E1|exact E2|apply canon_abs, H].
Qed.

(* a REAL that is not exact is what the model declines, not an error of the codec *)
Lemma inexact_real_unmodelled : forall m e, Z.eqb m 0 = false ->
  to_native TReal (VReal (RBin m e)) = Err EUnmodelled.
Proof. intros m e H. simpl. rewrite H. reflexivity. Qed.

(* The identifier octets met when descending through the headers of an encoding are the type's
   tags, outermost first (C13). *)
From Coq Require Import Lia.
From PV Require Import Base.Bytes Model.Tag Model.Types Model.Enc Proofs.TagOctets.
Local Open Scope N_scope.

(* read n nested headers: identifier, then length octets, then go on inside the contents *)
Fixpoint spine (n: nat) (b: bytes) : list tag :=
  match n with
  | O => []
  | S k => match dec_ident b with
           | Some (t, r) => match dec_len r with
                            | Some (_, r') => t :: spine k r'
                            | None => [t]
                            end
           | None => []
           end
  end.

Lemma dec_enc_len_any (n: N) (i: bool) (l r: bytes) :
  enc_len n i = Ok l -> exists x, dec_len (l ++ r) = Some (x, r).
Proof.
  destruct i.
  - unfold enc_len. intros H. inversion H; subst. exists None. reflexivity.
  - intros H. exists (Some n). exact (dec_enc_len n l r H).
Qed.

Definition wire_tag (is_cons: bool) (t: tag) : tag := mkTag (tcls t) (tcon t || is_cons) (tnum t).

Lemma frame_one_spine t c d si sub b k :
  frame_one t c d si sub = Ok b -> spine (S k) b = wire_tag c t :: spine k (sub ++ (if d then [] else [0; 0])).
Proof.
  unfold frame_one. destruct (enc_len (N.of_nat (length sub)) (negb d && si)) as [l|e] eqn:El; cbn [bind]; [|discriminate].
  intros H. inversion H; subst; clear H. cbn [spine].
  rewrite <- ?app_assoc. rewrite dec_enc_tag.
  destruct (dec_enc_len_any _ _ l (sub ++ (if d then [] else [0; 0])) El) as [x Hx].
  rewrite Hx. reflexivity.
Qed.

Lemma frame_outer_spine : forall r c defm si sub b k,
  frame_outer r c defm si sub = Ok b ->
  exists tail, spine (length r + k) b = map (wire_tag c) (rev r) ++ spine k (sub ++ tail).
Proof.
  induction r as [|t r IH]; intros c defm si sub b k H.
  - cbn [frame_outer] in H. inversion H; subst. exists []. rewrite app_nil_r. reflexivity.
  - cbn [frame_outer] in H.
    destruct (frame_one t c defm si sub) as [s'|e] eqn:E1; cbn [bind] in H; [|discriminate].
    destruct (IH c defm si s' b (S k) H) as [tail Ht].
    cbn [length rev]. rewrite map_app. cbn [map].
    replace (S (length r) + k)%nat with (length r + S k)%nat by lia.
    rewrite Ht.
    (* the headers of s' ++ tail start with the header of t *)
    unfold frame_one in E1.
    destruct (enc_len (N.of_nat (length sub)) (negb defm && si)) as [l|e] eqn:El; cbn [bind] in E1; [|discriminate].
    inversion E1; subst; clear E1. cbn [spine].
    rewrite <- ?app_assoc. rewrite dec_enc_tag.
    destruct (dec_enc_len_any _ _ l (sub ++ (if defm then [] else [0; 0]) ++ tail) El) as [x Hx].
    rewrite Hx.
    exists ((if defm then [] else [0; 0]) ++ tail). rewrite <- ?app_assoc. reflexivity.
Qed.

(* AbstractItemEncoder.encode: whatever the mode, the headers of the result, read from the outside
   in, carry the type's tags from outermost to innermost; the constructed bit is that of the tag
   (set for explicit wrappers) or-ed with "the contents are constructed" *)
Theorem frame_spine : forall ts content is_cons o si b,
  frame ts content is_cons o si = Ok b -> b <> [] ->
  spine (length ts) b = map (wire_tag is_cons) (rev ts).
Proof.
  intros ts content is_cons o si b H Hne. destruct ts as [|t0 r]; [reflexivity|].
  cbn [frame] in H.
  destruct ((match content with [] => true | _ => false end) && is_cons && o_ifne o)%bool.
  - inversion H; subst. congruence.
  - destruct (frame_one t0 is_cons (if is_cons then o_def o else true) si content) as [s0|e] eqn:E0; cbn [bind] in H; [|discriminate].
    destruct (frame_outer_spine r is_cons (o_def o) si s0 b 1 H) as [tail Ht].
    cbn [length rev]. rewrite map_app. cbn [map].
    replace (S (length r)) with (length r + 1)%nat by lia. rewrite Ht. f_equal.
    unfold frame_one in E0.
    destruct (enc_len (N.of_nat (length content)) (negb (if is_cons then o_def o else true) && si)) as [l|e] eqn:El; cbn [bind] in E0; [|discriminate].
    inversion E0; subst; clear E0. cbn [spine].
    rewrite <- ?app_assoc. rewrite dec_enc_tag.
    destruct (dec_enc_len_any _ _ l (content ++ (if if is_cons then o_def o else true then [] else [0; 0]) ++ tail) El) as [x Hx].
    rewrite Hx. reflexivity.
Qed.

(* Stage 3 of the round trip (C01/C02), framework and part (a):
   - framing under ANY guiding specification (a type, or the tag map of a run of OPTIONAL components,
     of a SET, of a CHOICE), provided the specification resolves the wire tags to the type;
   - the per-type invariant [val_ok] at the level of the value decoders, generic in the encoder
     codec (BER, DER), the decoder codec (BER, CER, DER) and in the relation between abstract
     contents (equality; or equality up to the order of SET OF elements);
   - SEQUENCE OF / SET OF / SEQUENCE with mandatory components for all these codecs. *)
From Coq Require Import Lia Permutation.
From PV Require Import Base.Bytes Model.Tag Model.TableTypes Model.Types Model.Proc Model.Enc Model.Dec Gen.Tables
     Proofs.ProcBind Proofs.RunLemmas Proofs.TagOctets Proofs.TagAlgebra Proofs.DecHeader Proofs.DecFrame Proofs.DecPrim
     Proofs.TagsetShape Proofs.Schemaless Proofs.RoundTrip1 Proofs.RoundTrip2 Proofs.ContainerCodecSort.
Local Open Scope N_scope.

(* ---------- how a guiding specification treats an accumulated tag set ---------- *)

(* the dispatch takes the "try as explicit tag" branch *)
Definition sp_miss (sp: spec) (ts: tagset) : Prop :=
  match sp with
  | SNone => False
  | STy T => tagset_eqb ts (tagset_of' T) = false /\ tm_contains (tagmap_of T) ts = false
  | SMap m => tm_get m ts = Ok None
  end.

(* the dispatch runs the value decoder of T *)
Definition sp_hit (sp: spec) (ts: tagset) (T: ty) : Prop :=
  match sp with
  | SNone => False
  | STy T' => T' = T /\ (tagset_eqb ts (tagset_of' T) || tm_contains (tagmap_of T) ts)%bool = true
              /\ tm_postponed (tagmap_of T) = false
  | SMap m => tm_get m ts = Ok (Some T)
  end.

Lemma explicit_level_sp : forall c f sp acc0 t si inner b v,
  frame_one t false true si inner = Ok b ->
  tcon t = true -> tcls t <> Univ ->
  sp_miss sp (t :: acc0) ->
  (length (enc_tag t false) <= S f)%nat ->
  consumes (dec_call c f sp (t :: acc0) None false false) inner v ->
  consumes (dec_call c (S f) sp acc0 None false false) b v.
Proof.
  intros c f sp acc0 t si inner b v Hfr Hcon Hcls Hmiss Hlen Hin s tl Hav.
  unfold frame_one in Hfr. cbn [negb andb] in Hfr.
  destruct (enc_len (N.of_nat (length inner)) false) as [l|e] eqn:El; cbn [bind] in Hfr; [|discriminate].
  inversion Hfr; subst b; clear Hfr. rewrite app_nil_r in Hav. rewrite <- !app_assoc in Hav.
  rewrite (dec_call_header c f sp acc0 false t false _ l (inner ++ tl) s El Hav Hlen).
  rewrite wire_false.
  set (s1 := adv (setmark s (pos s)) (length (enc_tag t false) + length l)).
  assert (Hav1: avail s1 = inner ++ tl).
  { subst s1. rewrite avail_adv, avail_setmark, Hav. rewrite app_assoc.
    rewrite <- app_length. apply skipn_app_exact. }
  assert (Hp1: pos s1 = (pos s + (length (enc_tag t false) + length l))%nat) by reflexivity.
  assert (Ha1: arrived s1 = arrived s) by reflexivity.
  assert (Hc1: closed s1 = closed s) by reflexivity.
  clearbody s1.
  assert (Hnu: negb (cls_eqb (tcls t) Univ) = true) by (destruct (tcls t); [congruence|reflexivity|reflexivity|reflexivity]).
  destruct (Hin s1 tl Hav1) as (s2 & Hrun & Hpos & Harr & Hcl).
  assert (Hfail: resume (let! p0 := tell in let! v0 := dec_raw (dec_call c f) f sp (t :: acc0) (Some (N.of_nat (length inner))) false in
                         let! p1 := tell in if N.eqb (N.of_nat (p1 - p0)) (N.of_nat (length inner)) then Ret v0 else Raise EMalformed) s1
                 = inr (Ok v, s2)).
  { rewrite resume_tell. unfold dec_raw.
    rewrite (resume_pbind_done _ _ _ _ _ Hrun). rewrite resume_tell.
    rewrite Hpos. rewrite (Nat.add_comm (pos s1)), Nat.add_sub.
    rewrite N.eqb_refl. reflexivity. }
  exists s2. split.
  - destruct sp as [|T|m]; [contradiction| |].
    + destruct Hmiss as [Hne Hnm]. unfold dispatch. rewrite Hne, Hnm. cbn [orb]. rewrite Hcon, Hnu. cbn [andb]. exact Hfail.
    + cbn [sp_miss] in Hmiss. unfold dispatch. rewrite Hmiss. cbn [lift pbind]. rewrite Hcon, Hnu. cbn [andb]. exact Hfail.
  - rewrite !app_length. cbn [length]. repeat split; [lia|congruence|congruence].
Qed.

Lemma match_level_sp : forall c f sp T acc0 t0 cns si content b v cd fl,
  frame_one t0 cns true si content = Ok b ->
  sp_hit sp (wire t0 cns :: acc0) T ->
  by_type c T = Some (cd, fl) ->
  (length (enc_tag t0 cns) <= S f)%nat ->
  consumes (dec_value (dec_call c f) f cd fl (Some T) (wire t0 cns :: acc0) (Some (N.of_nat (length content))) false) content v ->
  consumes (dec_call c (S f) sp acc0 None false false) b v.
Proof.
  intros c f sp T acc0 t0 cns si content b v cd fl Hfr Hhit Hby Hlen Hin s tl Hav.
  unfold frame_one in Hfr. cbn [negb andb] in Hfr.
  destruct (enc_len (N.of_nat (length content)) false) as [l|e] eqn:El; cbn [bind] in Hfr; [|discriminate].
  inversion Hfr; subst b; clear Hfr. rewrite app_nil_r in Hav. rewrite <- !app_assoc in Hav.
  rewrite (dec_call_header c f sp acc0 false t0 cns _ l (content ++ tl) s El Hav Hlen).
  set (s1 := adv (setmark s (pos s)) (length (enc_tag t0 cns) + length l)).
  assert (Hav1: avail s1 = content ++ tl).
  { subst s1. rewrite avail_adv, avail_setmark, Hav. rewrite app_assoc.
    rewrite <- app_length. apply skipn_app_exact. }
  assert (Hp1: pos s1 = (pos s + (length (enc_tag t0 cns) + length l))%nat) by reflexivity.
  assert (Ha1: arrived s1 = arrived s) by reflexivity.
  assert (Hc1: closed s1 = closed s) by reflexivity.
  clearbody s1.
  destruct (Hin s1 tl Hav1) as (s2 & Hrun & Hpos & Harr & Hcl).
  exists s2. split.
  - destruct sp as [|T'|m]; [contradiction| |].
    + destruct Hhit as (-> & Hc & Hpp). unfold dispatch. rewrite Hc, Hpp, Hby. rewrite resume_tell.
      rewrite (resume_pbind_done _ _ _ _ _ Hrun). rewrite resume_tell.
      rewrite Hpos. rewrite (Nat.add_comm (pos s1)), Nat.add_sub.
      rewrite N.eqb_refl. reflexivity.
    + cbn [sp_hit] in Hhit. unfold dispatch. rewrite Hhit. cbn [lift pbind]. rewrite Hby. rewrite resume_tell.
      rewrite (resume_pbind_done _ _ _ _ _ Hrun). rewrite resume_tell.
      rewrite Hpos. rewrite (Nat.add_comm (pos s1)), Nat.add_sub.
      rewrite N.eqb_refl. reflexivity.
  - rewrite !app_length. cbn [length]. repeat split; [lia|congruence|congruence].
Qed.

(* all the EXPLICIT levels: the specification must miss every non-empty proper suffix *)
Lemma peel_all_sp : forall c sp f si r acc0 sub b v,
  frame_outer r false true si sub = Ok b ->
  Forall explicit_like r ->
  Forall (fun t => (length (enc_tag t false) <= S f)%nat) r ->
  (forall r1 r2, r = r1 ++ r2 -> r2 <> [] -> sp_miss sp (r2 ++ acc0)) ->
  consumes (dec_call c f sp (r ++ acc0) None false false) sub v ->
  consumes (dec_call c (f + length r) sp acc0 None false false) b v.
Proof.
  intros c sp f si r. induction r as [|tn r' IH] using rev_ind; intros acc0 sub b v Hfr Hex Hlen Hmiss Hin.
  - cbn [frame_outer] in Hfr. inversion Hfr; subst. cbn [length app] in *. rewrite Nat.add_0_r. exact Hin.
  - rewrite frame_outer_snoc in Hfr.
    destruct (frame_outer r' false true si sub) as [inner|e] eqn:Ein; cbn [bind] in Hfr; [|discriminate].
    apply Forall_app in Hex. destruct Hex as [Hex' Hexn]. inversion Hexn as [|? ? [Hcon Hcls] _]; subst.
    apply Forall_app in Hlen. destruct Hlen as [Hlen' Hlenn]. inversion Hlenn as [|? ? Hl _]; subst.
    rewrite app_length in *. cbn [length] in *.
    replace (f + (length r' + 1))%nat with (S (f + length r')) by lia.
    apply (explicit_level_sp c (f + length r') sp acc0 tn si inner b v Hfr Hcon Hcls); [|lia|].
    + apply (Hmiss r' [tn] eq_refl). discriminate.
    + apply (IH (tn :: acc0) sub inner v Ein Hex' Hlen').
      * intros r1 r2 Hr Hne. replace (r2 ++ tn :: acc0) with ((r2 ++ [tn]) ++ acc0) by (rewrite <- app_assoc; reflexivity).
        apply (Hmiss r1 (r2 ++ [tn])); [rewrite Hr, app_assoc; reflexivity|]. destruct r2; discriminate.
      * rewrite <- app_assoc in Hin. exact Hin.
Qed.

(* every level of the framing the encoder wrote, under any specification that resolves it *)
Theorem framed_consumes_sp : forall c sp T t0 r si content b f0 dcd dfl v,
  Forall explicit_like r ->
  sp_hit sp (t0 :: r) T ->
  (forall r1 r2, r = r1 ++ r2 -> r2 <> [] -> sp_miss sp r2) ->
  by_type c T = Some (dcd, dfl) ->
  frame (t0 :: r) content (tcon t0) def_opts si = Ok b ->
  (length b <= S f0)%nat ->
  consumes (dec_value (dec_call c f0) f0 dcd dfl (Some T) (t0 :: r) (Some (N.of_nat (length content))) false) content v ->
  consumes (dec_call c (S f0 + length r) sp [] None false false) b v.
Proof.
  intros c sp T t0 r si content b f0 dcd dfl v Hex Hhit Hmiss Hby He Hb Hval.
  cbn [frame] in He. rewrite Bool.andb_false_r in He. cbn [o_def def_opts] in He.
  assert (Hd: (if tcon t0 then true else true) = true) by (destruct (tcon t0); reflexivity). rewrite Hd in He. clear Hd.
  destruct (frame_one t0 (tcon t0) true si content) as [s0|e] eqn:E0; cbn [bind] in He; [|discriminate].
  rewrite (frame_outer_con r (tcon t0) true si s0 Hex) in He.
  pose proof (frame_outer_length _ _ _ _ _ He) as Hlen0.
  pose proof (frame_outer_taglens _ _ _ _ _ (S (S f0)) He ltac:(lia)) as Htl.
  assert (Hw: wire t0 (tcon t0) = t0).
  { destruct t0 as [cl fm n]. unfold wire. cbn [tcls tcon tnum]. rewrite Bool.orb_diag. reflexivity. }
  apply (peel_all_sp c sp (S f0) si r [] s0 b v He Hex Htl).
  - intros r1 r2 Hr Hne. rewrite app_nil_r. exact (Hmiss r1 r2 Hr Hne).
  - rewrite app_nil_r.
    apply (match_level_sp c f0 sp T r t0 (tcon t0) si content s0 v dcd dfl E0).
    + rewrite Hw. exact Hhit.
    + exact Hby.
    + destruct (frame_one_length _ _ _ _ _ E0) as (l & -> & _). rewrite !app_length in Hlen0. lia.
    + rewrite Hw. exact Hval.
Qed.

(* ---------- relations between abstract contents ---------- *)

Inductive opt_rel {A} (R: A -> A -> Prop) : option A -> option A -> Prop :=
| opt_rel_none : opt_rel R None None
| opt_rel_some a b : R a b -> opt_rel R (Some a) (Some b).

(* the tags an encoding of v: T carries on the wire (innermost first): the type's own tag set, or,
   for an untagged CHOICE, those of the alternative chosen *)
Fixpoint wire_tags (T: ty) (v: val) {struct T} : tagset :=
  match T, v with
  | TChoice alts, VChoice i x =>
      (fix go (l: list ty) (k: nat) : tagset :=
         match l, k with
         | a :: _, O => wire_tags a x
         | _ :: r, S k' => go r k'
         | [], _ => []
         end) alts i
  | _, _ => tagset_of' T
  end.

Lemma wire_tags_plain T v : (match T with TChoice _ => False | _ => True end) -> wire_tags T v = tagset_of' T.
Proof. destruct T; intros H; try reflexivity; contradiction. Qed.

(* a specification resolves the encodings of v: T *)
Definition resolves (sp: spec) (T: ty) (v: val) : Prop :=
  sp_hit sp (wire_tags T v) T /\
  forall r1 r2, tl (wire_tags T v) = r1 ++ r2 -> r2 <> [] -> sp_miss sp r2.

Lemma resolves_sty_plain T v : plain_map T -> wire_tags T v = tagset_of' T -> resolves (STy T) T v.
Proof.
  intros Hpm Hw. split.
  - cbn [sp_hit]. split; [reflexivity|]. rewrite Hw, tagset_eqb_refl. split; [reflexivity|]. rewrite Hpm. reflexivity.
  - intros r1 r2 Hr Hne. cbn [sp_miss].
    assert (Hl: tagset_eqb r2 (tagset_of' T) = false).
    { destruct (tagset_eqb r2 (tagset_of' T)) eqn:E; [|reflexivity]. apply tagset_eqb_length in E.
      rewrite <- Hw in E. destruct (wire_tags T v) as [|t0 r]; cbn [tl] in Hr.
      - destruct r1; destruct r2; try discriminate. congruence.
      - cbn [length] in E. rewrite Hr, app_length in E. lia. }
    split; [exact Hl|]. apply plain_map_contains; assumption.
Qed.

Lemma frame_outer_len_r : forall r c si sub b, frame_outer r c true si sub = Ok b ->
  (length sub + 2 * length r <= length b)%nat.
Proof.
  induction r as [|t r IH]; intros c si sub b H; cbn [frame_outer] in H.
  - inversion H; subst. cbn [length]. lia.
  - destruct (frame_one t c true si sub) as [s1|e] eqn:E1; cbn [bind] in H; [|discriminate].
    specialize (IH _ _ _ _ H). destruct (frame_one_length _ _ _ _ _ E1) as (l & -> & Hl).
    pose proof (enc_tag_nonempty t c). rewrite !app_length in IH. cbn [length]. lia.
Qed.

Lemma frame_len_r t0 r content cns si b : frame (t0 :: r) content cns def_opts si = Ok b ->
  (length content + 2 + 2 * length r <= length b)%nat.
Proof.
  cbn [frame]. rewrite Bool.andb_false_r. cbn [o_def def_opts]. intros H.
  assert (Hd: (if cns then true else true) = true) by (destruct cns; reflexivity). rewrite Hd in H. clear Hd.
  destruct (frame_one t0 cns true si content) as [s0|e] eqn:E0; cbn [bind] in H; [|discriminate].
  pose proof (frame_outer_len_r _ _ _ _ _ H) as Hl.
  destruct (frame_one_length _ _ _ _ _ E0) as (l & -> & Hl0). pose proof (enc_tag_nonempty t0 cns).
  rewrite !app_length in Hl. lia.
Qed.

(* what the induction needs of the relation between abstract contents *)
Record rel_ok (R: aval -> aval -> Prop) (srt: bool) : Prop := {
  r_refl : forall a, R a a;
  r_list : forall xs ys, Forall2 R xs ys -> R (AList xs) (AList ys);
  r_bag : forall xs ys, Forall2 R xs ys -> R (ABag xs) (ABag ys);
  r_rec : forall xs ys, Forall2 (opt_rel R) xs ys -> R (ARec xs) (ARec ys);
  r_choice : forall i a b, R a b -> R (AChoice i a) (AChoice i b);
  r_perm : srt = true -> forall xs ys zs, Permutation xs zs -> Forall2 R zs ys -> R (ABag xs) (ABag ys)
}.

Section Stage3.
  Variables ce cd : codec.
  Hypothesis Hce : enc_ok ce.
  Variable R : aval -> aval -> Prop.
  (* whether R identifies SET OF contents that differ in the order of the elements *)
  Variable srt : bool.
  Hypothesis HR : rel_ok R srt.

  Lemma Hdef : fix_opts ce def_opts = def_opts.
  Proof. destruct Hce as [-> | ->]; reflexivity. Qed.

  Definition encw (T: ty) (o: eopts) (v: val) : res bytes := enc_with ce (enc_content ce) T o v.

  (* the invariant established by induction over the type, at the level of the value decoder *)
  Definition val_ok (T: ty) (v: val) : Prop :=
    forall b, encw T def_opts v = Ok b -> N.of_nat (length b) <= index_max ->
    exists t0 r content si v',
      wire_tags T v = t0 :: r /\ Forall explicit_like r /\ (length r < ty_depth T)%nat /\
      frame (t0 :: r) content (tcon t0) def_opts si = Ok b /\
      wire_tags T v' = t0 :: r /\ R (abs T v') (abs T v) /\
      exists dcd dfl, by_type cd T = Some (dcd, dfl) /\
        forall f, (length b + ty_depth T <= S f + length r)%nat ->
          consumes (dec_value (dec_call cd f) f dcd dfl (Some T) (t0 :: r) (Some (N.of_nat (length content))) false)
                   content (DV T v').

  (* one complete item under a specification *)
  Definition item_dec (sp: spec) (T: ty) (b: bytes) (v': val) : Prop :=
    (0 < length b)%nat /\ forall f, fuel_ok T b f -> consumes (dec_call cd f sp [] None false false) b (DV T v').

  Lemma item_of_val T v b : val_ok T v -> encw T def_opts v = Ok b -> N.of_nat (length b) <= index_max ->
    exists v', R (abs T v') (abs T v) /\ wire_tags T v' = wire_tags T v /\ wire_tags T v <> [] /\
      forall sp, resolves sp T v -> item_dec sp T b v'.
  Proof.
    intros Hv He Hmax. destruct (Hv b He Hmax) as (t0 & r & content & si & v' & Hw & Hex & Hrd & Hfr & Hw' & HRv & dcd & dfl & Hby & Hc).
    exists v'. split; [exact HRv|]. split; [congruence|]. split; [congruence|].
    intros sp [Hhit Hmiss]. rewrite Hw in Hhit, Hmiss. cbn [tl] in Hmiss. split.
    - pose proof (frame_nonempty _ _ _ _ _ _ Hfr). lia.
    - intros f Hf. unfold fuel_ok in Hf.
      pose proof (frame_len_r _ _ _ _ _ _ Hfr) as Hlr.
      replace f with (S (f - 1 - length r) + length r)%nat by lia.
      apply (framed_consumes_sp cd sp T t0 r si content b (f - 1 - length r) dcd dfl _ Hex Hhit Hmiss Hby Hfr); [lia|].
      apply Hc. lia.
  Qed.

  (* one complete item guided directly by its type: what the containers need of an element or of a
     mandatory component (the untagged ANY has this, though not [val_ok]) *)
  Definition item_sty (T: ty) (v: val) : Prop :=
    forall p, encw T def_opts v = Ok p -> N.of_nat (length p) <= index_max ->
    exists v', R (abs T v') (abs T v) /\ item_dec (STy T) T p v'.

  Lemma item_sty_of_val T v : val_ok T v -> resolves (STy T) T v -> item_sty T v.
  Proof.
    intros Hv Hres p Ep Hmax. destruct (item_of_val T v p Hv Ep Hmax) as (v' & HRv & _ & _ & Hit).
    exists v'. split; [exact HRv|exact (Hit _ Hres)].
  Qed.

  Lemma enc_with_inv_g T v b : encw T def_opts v = Ok b ->
    exists ec fl ts content cns, concrete_encoder ce T = Ok (ec, fl) /\ tagset_of T = Ok ts
      /\ enc_content ce T ec fl def_opts v = Ok (content, cns) /\ frame ts content cns def_opts (ef_indef fl) = Ok b.
  Proof.
    unfold encw, enc_with. rewrite Hdef. intros H.
    destruct (concrete_encoder ce T) as [[ec fl]|e] eqn:E1; cbn [bind] in H; [|discriminate].
    destruct (tagset_of T) as [ts|e] eqn:E2; cbn [bind] in H; [|discriminate].
    change (mkOpts (o_def def_opts) (o_chunk def_opts) false) with def_opts in H.
    destruct (enc_content ce T ec fl def_opts v) as [[content cns]|e] eqn:E3; cbn [bind] in H; [|discriminate].
    exists ec, fl, ts, content, cns. split; [reflexivity|]. split; [reflexivity|]. split; [exact E3|exact H].
  Qed.

  (* ---------- the simple types ---------- *)

  Lemma prim_val T v : prim_base T = true -> wf_tags T = true -> stage1_val ce cd T v = true -> val_ok T v.
  Proof.
    intros Hp Hw Hs b He Hmax.
    assert (He': encode ce true 0 T v = Ok b) by exact He.
    destruct (stage1_leaf ce cd T v b Hce Hs He') as (content & vdec & Hleaf & Habs).
    assert (Hdc: def_codec ce) by exact Hdef.
    pose proof (content_le_encoding ce cd T v content vdec b Hdc Hp Hw Hleaf He') as Hcl.
    destruct (tagset_prim_shape T Hp Hw) as (t0 & r & Hts & Hc0 & Hex & Hd).
    assert (Hnc: match T with TChoice _ => False | _ => True end).
    { destruct T; try exact I. discriminate Hp. }
    destruct Hleaf as [(ec & fl & Hcenc & Hcont) (dcd & dfl & Hby & Hval)].
    exists t0, r, content, (ef_indef fl), vdec.
    split; [rewrite (wire_tags_plain T v Hnc); apply tagset_of'_ok; exact Hts|].
    split; [exact Hex|]. split; [exact Hd|]. split.
    { destruct (enc_with_inv_g T v b He) as (ec' & fl' & ts & content' & cns & Hce' & Hts' & Hcont' & Hfr).
      rewrite Hcenc in Hce'. inversion Hce'; subst ec' fl'. rewrite Hts in Hts'. inversion Hts'; subst ts.
      rewrite Hcont in Hcont'. inversion Hcont'; subst content' cns. rewrite Hc0. exact Hfr. }
    split; [rewrite (wire_tags_plain T vdec Hnc); apply tagset_of'_ok; exact Hts|].
    split; [rewrite Habs; apply (r_refl _ _ HR)|].
    exists dcd, dfl. split; [exact Hby|]. intros f Hf.
    apply Hval; [unfold tag0_simple; rewrite Hc0; reflexivity|]. split; lia.
  Qed.

  (* ---------- SEQUENCE OF / SET OF ---------- *)

  Definition enc_elems_g (t: ty) (o: eopts) : list val -> res (list bytes) :=
    fix go (xs: list val) : res (list bytes) :=
    match xs with
    | [] => Ok []
    | x :: r => do p <- encw t o x; do ps <- go r; Ok (p :: ps)
    end.

  Lemma enc_content_listof T t ec fl o xs : T = TSeqOf t \/ T = TSetOf t ->
    enc_content ce T ec fl o (VList xs) =
    (do parts <- enc_elems_g t o xs;
     match ec with
     | EcSeqOfBer | EcSeqOfCer => Ok (concat parts, true)
     | EcSetOfCer => Ok (concat (sort_setof parts), true)
     | _ => Err EMalformed
     end).
  Proof. intros [-> | ->]; reflexivity. Qed.

  (* what is known of each element and its encoding, for the decoder entry point [rec] *)
  Definition elem_dec (rec: spec -> tagset -> option (option N) -> bool -> bool -> proc dval) (t: ty) (p: bytes) (x': val) : Prop :=
    consumes (rec (STy t) [] None false false) p (DV t x') /\ (0 < length p)%nat.

  Lemma elem_dec_elem_ok rec t p x' : elem_dec rec t p x' -> elem_ok rec t p x'.
  Proof. exact (fun H => H). Qed.

  Lemma elems_val t xs : Forall (item_sty t) xs ->
    forall parts, enc_elems_g t def_opts xs = Ok parts ->
    N.of_nat (length (concat parts)) <= index_max ->
    exists xs', Forall2 (fun x' x => R (abs t x') (abs t x)) xs' xs /\
      forall f, (length (concat parts) + ty_depth t <= f)%nat -> Forall2 (elem_ok (dec_call cd f) t) parts xs'.
  Proof.
    induction 1 as [|x xs Hix HF IH]; intros parts He Hmax.
    - inversion He; subst. exists []. split; [constructor|]. intros f _. constructor.
    - cbn [enc_elems_g] in He. fold (enc_elems_g t def_opts) in He.
      destruct (encw t def_opts x) as [p|e] eqn:Ep; cbn [bind] in He; [|discriminate].
      destruct (enc_elems_g t def_opts xs) as [ps|e] eqn:Eps; cbn [bind] in He; [|discriminate].
      inversion He; subst parts; clear He.
      cbn [concat] in Hmax. rewrite app_length in Hmax.
      destruct (Hix p Ep ltac:(lia)) as (x' & Hax & Hpl & Hcx).
      destruct (IH ps eq_refl ltac:(lia)) as (xs' & Haxs & Hcxs).
      exists (x' :: xs'). split; [constructor; assumption|].
      intros f Hf. cbn [concat] in Hf. rewrite app_length in Hf. constructor.
      + split; [|exact Hpl]. apply Hcx. unfold fuel_ok. lia.
      + apply Hcxs. lia.
  Qed.

  Lemma Forall2_perm_l {A B} (P: A -> B -> Prop) : forall l1 l1', Permutation l1 l1' ->
    forall l2, Forall2 P l1 l2 -> exists l2', Permutation l2 l2' /\ Forall2 P l1' l2'.
  Proof.
    induction 1 as [|a l1 l1' Hp IH|a b l1|l1 l1' l1'' Hp1 IH1 Hp2 IH2]; intros l2 HF.
    - inversion HF; subst. exists []. split; constructor.
    - inversion HF as [|? y ? l2t Hay HFt]; subst. destruct (IH _ HFt) as (l2' & Hp' & HF').
      exists (y :: l2'). split; [apply perm_skip; exact Hp'|constructor; assumption].
    - inversion HF as [|? y ? l2t Hay HFt]; subst. inversion HFt as [|? z ? l2u Hbz HFu]; subst.
      exists (z :: y :: l2u). split; [apply perm_swap|constructor; [assumption|constructor; assumption]].
    - destruct (IH1 _ HF) as (m & Hpm & HFm). destruct (IH2 _ HFm) as (n & Hpn & HFn).
      exists n. split; [eapply perm_trans; eassumption|exact HFn].
  Qed.

  Lemma sort_setof_perm_self parts : Permutation parts (sort_setof parts).
  Proof.
    unfold sort_setof. destruct parts as [|a [|b r]]; try apply Permutation_refl.
    apply sort_by_perm_self.
  Qed.

  Lemma concat_perm_length {A} (l1 l2: list (list A)) : Permutation l1 l2 -> length (concat l1) = length (concat l2).
  Proof. induction 1; cbn [concat]; rewrite ?app_length in *; lia. Qed.

  Lemma Forall2_map_abs t xs' xs : Forall2 (fun x' x => R (abs t x') (abs t x)) xs' xs ->
    Forall2 R (map (abs t) xs') (map (abs t) xs).
  Proof. induction 1; cbn [map]; constructor; assumption. Qed.

  Lemma Forall2_length' {A B} (P: A -> B -> Prop) l1 l2 : Forall2 P l1 l2 -> length l1 = length l2.
  Proof. induction 1; cbn [length]; congruence. Qed.

  (* the encoder sorts the elements of SET OF: DER *)
  Definition sorts_setof : bool := match ce with BER => false | _ => true end.

  Lemma listof_val T' t : (base_of T' = TSeqOf t \/ base_of T' = TSetOf t) -> wf_tags T' = true ->
    (base_of T' = TSetOf t -> sorts_setof = true -> srt = true) ->
    forall xs, Forall (item_sty t) xs -> val_ok T' (VList xs).
  Proof.
    intros Hb Hw Hsrt xs HFx b He Hmax.
    assert (Htb: tagged_base T' = true) by (unfold tagged_base; destruct Hb as [-> | ->]; reflexivity).
    destruct (tagset_shape T' Htb Hw) as (t0 & r & b0 & Hb0 & Hts & Hc0 & Hex & Hd).
    assert (Hcon: tcon t0 = true).
    { rewrite Hc0. destruct Hb as [Hb|Hb]; rewrite Hb in Hb0; inversion Hb0; reflexivity. }
    assert (Hdep: ty_depth (base_of T') = S (ty_depth t)) by (destruct Hb as [-> | ->]; reflexivity).
    assert (Hnc: match T' with TChoice _ => False | _ => True end).
    { destruct T'; try exact I. destruct Hb; discriminate. }
    destruct (enc_with_inv_g T' _ b He) as (ec & fl & ts & content & cns & Hcenc & Hts' & Hcont & Hfr).
    rewrite Hts in Hts'. inversion Hts'; subst ts; clear Hts'.
    rewrite concrete_encoder_base in Hcenc. rewrite enc_content_base in Hcont.
    rewrite (enc_content_listof (base_of T') t ec fl def_opts xs Hb) in Hcont.
    destruct (enc_elems_g t def_opts xs) as [parts|e] eqn:Eparts; cbn [bind] in Hcont; [|discriminate].
    (* the parts as they stand in the contents *)
    assert (Hwire: exists wparts, content = concat wparts /\ cns = true /\ ef_indef fl = true /\ Permutation parts wparts
                     /\ (wparts = parts \/ (base_of T' = TSetOf t /\ sorts_setof = true))).
    { unfold sorts_setof. destruct Hce as [E|E]; rewrite E in Hcenc |- *; destruct Hb as [Hb|Hb]; rewrite Hb in Hcenc; vm_compute in Hcenc;
        inversion Hcenc; subst ec fl; clear Hcenc; inversion Hcont; subst content cns.
      - exists parts. repeat split; try apply Permutation_refl. left; reflexivity.
      - exists parts. repeat split; try apply Permutation_refl. left; reflexivity.
      - exists parts. repeat split; try apply Permutation_refl. left; reflexivity.
      - exists (sort_setof parts). repeat split; [apply sort_setof_perm_self|]. right. split; [exact Hb|reflexivity]. }
    destruct Hwire as (wparts & -> & -> & Hsi & Hperm & Hwhich). rewrite Hsi in Hfr.
    pose proof (frame_len_r _ _ _ _ _ _ Hfr) as Hlen.
    assert (Hmaxp: N.of_nat (length (concat parts)) <= index_max).
    { rewrite (concat_perm_length _ _ Hperm). lia. }
    destruct (elems_val t xs HFx parts Eparts Hmaxp) as (xs' & Habs & Helems).
    exists t0, r, (concat wparts), true.
    (* the decoded list, in wire order *)
    assert (Hw': exists ws', R (abs T' (VList ws')) (abs T' (VList xs)) /\
                 forall f, (length (concat parts) + ty_depth t <= f)%nat -> Forall2 (elem_ok (dec_call cd f) t) wparts ws').
    { destruct Hwhich as [-> | [Hset Hsorts]].
      - exists xs'. split; [|exact Helems].
        rewrite (abs_wrappers T' (VList xs')), (abs_wrappers T' (VList xs)).
        destruct Hb as [-> | ->]; cbn [abs]; [apply (r_list _ _ HR)|apply (r_bag _ _ HR)]; apply Forall2_map_abs; exact Habs.
      - (* sorted: the decoded elements are a permutation *)
        pose proof (Hsrt Hset Hsorts) as Hs.
        assert (Hex2: exists ws', Permutation xs' ws' /\
                  forall f, (length (concat parts) + ty_depth t <= f)%nat -> Forall2 (elem_ok (dec_call cd f) t) wparts ws').
        { (* the permutation of the decoded list does not depend on the fuel: take a large one *)
          set (f0 := (length (concat parts) + ty_depth t)%nat).
          destruct (Forall2_perm_l _ _ _ Hperm xs' (Helems f0 ltac:(lia))) as (ws' & Hp' & _).
          (* rebuild for every fuel from the element-wise facts *)
          assert (Hall: forall f, (length (concat parts) + ty_depth t <= f)%nat ->
                    exists ws2, Permutation xs' ws2 /\ Forall2 (elem_ok (dec_call cd f) t) wparts ws2).
          { intros f Hf. exact (Forall2_perm_l _ _ _ Hperm xs' (Helems f Hf)). }
          clear ws' Hp'.
          (* a fuel-independent choice: pair each part with its decoded value first *)
          assert (Hpair: exists pairs, map fst pairs = parts /\ map snd pairs = xs' /\
                    forall f, (length (concat parts) + ty_depth t <= f)%nat ->
                      Forall (fun px => elem_ok (dec_call cd f) t (fst px) (snd px)) pairs).
          { clear - Helems. revert xs' Helems. generalize (length (concat parts) + ty_depth t)%nat as bound.
            induction parts as [|p ps IHp]; intros bound xs' Helems.
            - exists []. pose proof (Helems bound (le_n _)) as H0. inversion H0; subst. repeat split. intros; constructor.
            - pose proof (Helems bound (le_n _)) as H0. inversion H0 as [|? x' ? xs1 _ _]; subst.
              destruct (IHp bound xs1) as (pairs & Hf & Hs & Hall).
              { intros f Hf. pose proof (Helems f Hf) as H1. inversion H1; subst. assumption. }
              exists ((p, x') :: pairs). cbn [map fst snd]. rewrite Hf, Hs. repeat split.
              intros f Hf'. constructor; [|apply Hall; exact Hf'].
              pose proof (Helems f Hf') as H1. inversion H1; subst. assumption. }
          destruct Hpair as (pairs & Hpf & Hps & Hpall).
          (* permute the pairs along the permutation of the parts *)
          assert (Hpp: exists pairs', Permutation pairs pairs' /\ map fst pairs' = wparts).
          { clear - Hperm Hpf. revert pairs Hpf. induction Hperm as [|a l1 l1' Hp IH|a b l1|l1 l1' l1'' Hp1 IH1 Hp2 IH2]; intros pairs Hpf.
            - exists pairs. split; [apply Permutation_refl|exact Hpf].
            - destruct pairs as [|q qs]; [discriminate|]. cbn [map] in Hpf. inversion Hpf; subst.
              destruct (IH qs eq_refl) as (qs' & Hq & Hm). exists (q :: qs'). split; [apply perm_skip; exact Hq|cbn [map]; rewrite Hm; reflexivity].
            - destruct pairs as [|q [|q2 qs]]; try discriminate. cbn [map] in Hpf. inversion Hpf; subst.
              exists (q2 :: q :: qs). split; [apply perm_swap|reflexivity].
            - destruct (IH1 pairs Hpf) as (m & Hpm & Hm). destruct (IH2 m Hm) as (n & Hpn & Hn).
              exists n. split; [eapply perm_trans; eassumption|exact Hn]. }
          destruct Hpp as (pairs' & Hpperm & Hpf').
          exists (map snd pairs'). split; [rewrite <- Hps; apply Permutation_map; exact Hpperm|].
          intros f Hf. specialize (Hpall f Hf).
          assert (Hall': Forall (fun px => elem_ok (dec_call cd f) t (fst px) (snd px)) pairs').
          { rewrite Forall_forall in *. intros px Hin. apply Hpall. eapply Permutation_in; [apply Permutation_sym; exact Hpperm|exact Hin]. }
          rewrite <- Hpf'. clear - Hall'. induction pairs' as [|q qs IHq]; cbn [map]; [constructor|].
          inversion Hall'; subst. constructor; [assumption|apply IHq; assumption]. }
        destruct Hex2 as (ws' & Hpw & Hws). exists ws'. split; [|exact Hws].
        rewrite (abs_wrappers T' (VList ws')), (abs_wrappers T' (VList xs)), Hset. cbn [abs].
        apply (r_perm _ _ HR Hs _ _ (map (abs t) xs')); [apply Permutation_map, Permutation_sym; exact Hpw|].
        apply Forall2_map_abs; exact Habs. }
    destruct Hw' as (ws' & HRw & Hwelems).
    exists (VList ws').
    split; [rewrite (wire_tags_plain T' _ Hnc); apply tagset_of'_ok; exact Hts|].
    split; [exact Hex|]. split; [lia|]. split; [rewrite Hcon; exact Hfr|].
    split; [rewrite (wire_tags_plain T' _ Hnc); apply tagset_of'_ok; exact Hts|].
    split; [exact HRw|].
    assert (Hby: exists dcd dfl, by_type cd T' = Some (dcd, dfl) /\ (dcd = DcSeqOf \/ dcd = DcSetOf)).
    { rewrite by_type_base. destruct cd; destruct Hb as [-> | ->]; eexists; eexists; (split; [vm_compute; reflexivity|]);
        solve [left; reflexivity | right; reflexivity]. }
    destruct Hby as (dcd & dfl & Hby & Hdcd).
    exists dcd, dfl. split; [exact Hby|]. intros f Hf.
    assert (Hdv: dec_value (dec_call cd f) f dcd dfl (Some T') (t0 :: r) (Some (N.of_nat (length (concat wparts)))) false
                 = dec_listof (dec_call cd f) f T' t (Some (N.of_nat (length (concat wparts))))).
    { destruct Hdcd as [-> | ->]; cbn [dec_value tag0_cons]; rewrite Hcon; cbn [negb]; destruct Hb as [-> | ->]; reflexivity. }
    rewrite Hdv.
    assert (Hcl: length (concat parts) = length (concat wparts)) by (apply concat_perm_length; exact Hperm).
    assert (HF: Forall2 (elem_ok (dec_call cd f) t) wparts ws') by (apply Hwelems; lia).
    apply dec_listof_consumes; [exact HF|].
    pose proof (Forall2_elem_count _ _ _ _ HF). lia.
  Qed.

End Stage3.

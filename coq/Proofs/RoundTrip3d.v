(* Stage 3 of the round trip, part (d): SET with mandatory, OPTIONAL and DEFAULT components.  The
   decoder finds the position of each component by its tags, whatever the order on the wire (the DER
   encoder sorts the components by tag, the BER encoder keeps the order of the declaration). *)
From Coq Require Import Lia Permutation.
From PV Require Import Base.Bytes Model.Tag Model.TableTypes Model.Types Model.Proc Model.Enc Model.Dec Gen.Tables
     Proofs.ProcBind Proofs.RunLemmas Proofs.TagOctets Proofs.TagAlgebra Proofs.DecHeader Proofs.DecFrame Proofs.DecPrim
     Proofs.TagsetShape Proofs.Schemaless Proofs.RoundTrip1 Proofs.RoundTrip2 Proofs.TagReject Proofs.ContainerCodecSort
     Proofs.RoundTrip3 Proofs.RoundTrip3a Proofs.RoundTrip3b Proofs.RoundTrip3c.
Local Open Scope N_scope.

(* one component on the wire: position in the declaration, encoding, decoded value *)
Definition sitem : Type := (nat * bytes * val)%type.
Definition sidx (it: sitem) : nat := fst (fst it).
Definition sbytes (it: sitem) : bytes := snd (fst it).
Definition sval (it: sitem) : val := snd it.

Definition place (items: list sitem) (vs: list (option val)) : list (option val) :=
  fold_left (fun acc it => set_nth (sidx it) (Some (sval it)) acc) items vs.

Lemma set_nth_comm {X} : forall (l: list X) i j a b, i <> j -> set_nth i a (set_nth j b l) = set_nth j b (set_nth i a l).
Proof.
  induction l as [|y l IH]; intros i j a b Hij; [destruct i, j; reflexivity|].
  destruct i as [|i]; destruct j as [|j]; try reflexivity; [congruence|].
  cbn [set_nth]. f_equal. apply IH. congruence.
Qed.

Lemma set_nth_length {X} : forall (l: list X) i a, length (set_nth i a l) = length l.
Proof. induction l as [|y l IH]; intros [|i] a; try reflexivity. cbn [set_nth length]. rewrite IH. reflexivity. Qed.

Lemma place_perm : forall items items', Permutation items items' -> NoDup (map sidx items) ->
  forall vs, place items vs = place items' vs.
Proof.
  induction 1 as [|it l l' Hp IH|a b l|l l' l'' Hp1 IH1 Hp2 IH2]; intros Hnd vs.
  - reflexivity.
  - cbn [place fold_left]. cbn [map] in Hnd. inversion Hnd; subst. apply IH. assumption.
  - cbn [place fold_left]. cbn [map] in Hnd. inversion Hnd as [|? ? Hnin _]; subst.
    rewrite set_nth_comm; [reflexivity|]. intros E. apply Hnin. left. exact E.
  - rewrite IH1 by exact Hnd. apply IH2. eapply Permutation_NoDup; [apply Permutation_map; exact Hp1|exact Hnd].
Qed.

(* the items of a plan in declaration order *)
Fixpoint mk_items (k: nat) (ds: list (option val)) (ps: list bytes) : list sitem :=
  match ds with
  | [] => []
  | None :: ds' => mk_items (S k) ds' ps
  | Some x' :: ds' => match ps with
                      | pb :: ps' => (k, pb, x') :: mk_items (S k) ds' ps'
                      | [] => []
                      end
  end.

Lemma mk_items_ge : forall ds k ps, Forall (fun it => (k <= sidx it)%nat) (mk_items k ds ps).
Proof.
  induction ds as [|[x'|] ds IH]; intros k ps; cbn [mk_items]; [constructor| |].
  - destruct ps as [|pb ps]; [constructor|]. constructor; [cbn; lia|].
    eapply Forall_impl; [|apply IH]. intros it H. cbn beta in H. lia.
  - eapply Forall_impl; [|apply IH]. intros it H. cbn beta in H. lia.
Qed.

Lemma mk_items_nodup : forall ds k ps, NoDup (map sidx (mk_items k ds ps)).
Proof.
  induction ds as [|[x'|] ds IH]; intros k ps; cbn [mk_items]; [constructor| |apply IH].
  destruct ps as [|pb ps]; [constructor|]. cbn [map]. constructor; [|apply IH].
  intros Hin. apply in_map_iff in Hin. destruct Hin as (it & E & Hin).
  pose proof (mk_items_ge ds (S k) ps) as Hge. rewrite Forall_forall in Hge. specialize (Hge it Hin). cbn in E. unfold sidx in *. lia.
Qed.

Section SetLoop.
  Variable rec : spec -> tagset -> option (option N) -> bool -> bool -> proc dval.
  Variable lf : nat.
  Variable T : ty.
  Variable fs : list (presence * ty).
  Hypothesis Hne : (match fs with [] => true | _ => false end) = false.

  Definition sitem_ok (it: sitem) : Prop :=
    exists ft, consumes (rec (SMap (fields_tagmap true (map snd fs))) [] None false false) (sbytes it) (DV ft (sval it))
      /\ (0 < length (sbytes it))%nat
      /\ position_by_type (map snd fs) (effective_tagset (S lf) ft (sval it)) = Ok (sidx it)
      /\ (sidx it < length fs)%nat.

  Lemma set_loop : forall items, Forall sitem_ok items ->
    forall vs idx n start total s tl,
      (length items < n)%nat ->
      avail s = concat (map sbytes items) ++ tl ->
      (start <= pos s)%nat ->
      (pos s - start + length (concat (map sbytes items)) = total)%nat ->
      required_seen fs (place items vs) = true ->
      exists s', resume (record_loop rec lf T fs true (Some (N.of_nat total)) start n idx vs 0%nat) s
                 = inr (Ok (DV T (VRec (place items vs))), s')
        /\ pos s' = (pos s + length (concat (map sbytes items)))%nat /\ arrived s' = arrived s /\ closed s' = closed s.
  Proof.
    induction 1 as [|it items (ft & Hdec & Hpl & Hposn & Hlt) HF IH]; intros vs idx n start total s tl Hn Hav Hst Htot Hseen.
    - destruct n as [|n']; [cbn [length] in Hn; lia|].
      cbn [record_loop]. cbv zeta. rewrite resume_tell.
      cbn [map concat length] in Htot.
      destruct (N.ltb_spec (N.of_nat (pos s - start)) (N.of_nat total)) as [Hlt|_]; [lia|].
      cbn [negb]. rewrite Hne. cbn [place fold_left] in *. rewrite Hseen. cbn [resume].
      exists s. cbn [map concat length]. repeat split. lia.
    - destruct n as [|n']; [cbn [length] in Hn; lia|].
      cbn [record_loop]. cbv zeta. rewrite resume_tell.
      cbn [map concat] in Htot, Hav. rewrite app_length in Htot.
      destruct (N.ltb_spec (N.of_nat (pos s - start)) (N.of_nat total)) as [_|Hge]; [|lia].
      cbn [negb andb]. rewrite Hne.
      rewrite <- app_assoc in Hav.
      destruct (Hdec s _ Hav) as (s1 & Hrun & Hpos & Harr & Hcl).
      rewrite (resume_pbind_done _ _ _ _ _ Hrun).
      pose proof (consumes_avail (sbytes it) s _ s1 Hav Hpos Harr) as Hav1.
      unfold seq_position. cbn [negb andb]. rewrite Hposn. cbn [lift pbind].
      assert (Hleb: Nat.leb (length fs) (sidx it) = false) by (apply Nat.leb_gt; exact Hlt).
      rewrite Hleb.
      cbn [length] in Hn. cbn [place fold_left] in Hseen.
      destruct (IH (set_nth (sidx it) (Some (sval it)) vs) (S (sidx it)) n' start total s1 tl ltac:(lia) Hav1 ltac:(lia) ltac:(lia) Hseen)
        as (s2 & Hrun2 & Hpos2 & Harr2 & Hcl2).
      exists s2. cbn [place fold_left map concat]. rewrite app_length. split; [exact Hrun2|]. split; [lia|]. split; congruence.
  Qed.
End SetLoop.

(* from the plan of the component loop (declaration order) to the items *)
Lemma fplan_items rec lf fsall : keys_ok (flat_map ckeys (map snd fsall)) = true ->
  forall fs vs ps ds, fplan rec lf fs vs ps ds -> forall done, fsall = done ++ fs ->
    Forall (sitem_ok rec lf fsall) (mk_items (length done) ds ps)
    /\ map sbytes (mk_items (length done) ds ps) = ps
    /\ (forall pre, length pre = length done ->
          place (mk_items (length done) ds ps) (pre ++ map (fun _ => None) fs) = pre ++ ds)
    /\ required_seen fs ds = true.
Proof.
  intros HK fs vs ps ds HP.
  induction HP as [|p ft fs ov vs ps ds Hp HP IH|p ft fs x vs pb x' ps ds Hpl Hreq Hkeys HP IH]; intros done Hall.
  - cbn [mk_items map]. split; [constructor|]. split; [reflexivity|]. split; [|reflexivity]. intros pre _. reflexivity.
  - assert (Hall': fsall = (done ++ [(p, ft)]) ++ fs) by (rewrite <- app_assoc; exact Hall).
    destruct (IH _ Hall') as (I1 & I2 & I3 & I4).
    rewrite app_length in I1, I2, I3. cbn [length] in I1, I2, I3. rewrite Nat.add_1_r in I1, I2, I3.
    cbn [mk_items]. split; [exact I1|]. split; [exact I2|]. split.
    + intros pre Hpre. cbn [map]. specialize (I3 (pre ++ [None])). rewrite <- !app_assoc in I3. cbn [app] in I3.
      apply I3. rewrite app_length. cbn [length]. lia.
    + unfold required_seen in *. cbn [combine forallb fst snd]. rewrite I4. destruct p; [discriminate Hp|reflexivity|reflexivity].
  - assert (Hall': fsall = (done ++ [(p, ft)]) ++ fs) by (rewrite <- app_assoc; exact Hall).
    destruct (IH _ Hall') as (I1 & I2 & I3 & I4).
    rewrite app_length in I1, I2, I3. cbn [length] in I1, I2, I3. rewrite Nat.add_1_r in I1, I2, I3.
    cbn [mk_items]. split; [|split; [|split]].
    + constructor; [|exact I1].
      assert (Hnth: nth_error (map snd fsall) (length done) = Some ft).
      { rewrite Hall, map_app. rewrite nth_error_app2 by (rewrite map_length; lia). rewrite map_length, Nat.sub_diag. reflexivity. }
      destruct (Hkeys (keys_ok_sub ft _ (nth_error_In _ _ Hnth) HK)) as (Hdec & Heff & Hwne).
      exists ft. unfold sbytes, sval, sidx. cbn [fst snd]. split; [|split; [exact Hpl|split]].
      * apply Hdec. exact (resolves_sib true (map snd fsall) (length done) ft x HK Hnth Hwne).
      * rewrite Heff. exact (sib_pos (map snd fsall) HK (length done) ft _ Hnth (tm_mem_in _ _ (wire_in_ckeys ft x Hwne))).
      * rewrite Hall, app_length. cbn [length]. lia.
    + cbn [map]. unfold sbytes at 1. cbn [fst snd]. rewrite I2. reflexivity.
    + intros pre Hpre. cbn [map]. unfold place at 1. cbn [fold_left].
      change (sidx (length done, pb, x')) with (length done). change (sval (length done, pb, x')) with x'.
      rewrite <- Hpre, set_nth_app. rewrite Hpre. fold (place (mk_items (S (length done)) ds ps) (pre ++ Some x' :: map (fun _ => None) fs)).
      specialize (I3 (pre ++ [Some x'])). rewrite <- !app_assoc in I3. cbn [app] in I3.
      apply I3. rewrite app_length. cbn [length]. lia.
    + unfold required_seen in *. cbn [combine forallb fst snd]. rewrite I4. destruct p; reflexivity.
Qed.

(* the items follow the parts into the order of the wire *)
Lemma align_perm {A B} (ga: A -> bytes) (gb: B -> bytes) : forall (wparts parts: list A), Permutation wparts parts ->
  forall items: list B, map gb items = map ga parts ->
  exists witems, Permutation items witems /\ map gb witems = map ga wparts.
Proof.
  induction 1 as [|x l l' Hp IH|x y l|l l' l'' Hp1 IH1 Hp2 IH2]; intros items Hm.
  - exists items. split; [apply Permutation_refl|exact Hm].
  - destruct items as [|i items]; [discriminate Hm|]. cbn [map] in Hm. inversion Hm as [[H0 H1]].
    destruct (IH items H1) as (w & Hw & Hmw). exists (i :: w). split; [apply perm_skip; exact Hw|]. cbn [map]. rewrite H0, Hmw. reflexivity.
  - destruct items as [|i [|j items]]; try discriminate Hm. cbn [map] in Hm. inversion Hm as [[H0 H1 H2]].
    exists (j :: i :: items). split; [apply perm_swap|]. cbn [map]. rewrite H0, H1, H2. reflexivity.
  - destruct (IH2 items Hm) as (m & Hpm & Hmm). destruct (IH1 m Hmm) as (w & Hpw & Hmw).
    exists w. split; [eapply perm_trans; eassumption|exact Hmw].
Qed.

Section Stage3d.
  Variables ce cd : codec.
  Hypothesis Hce : enc_ok ce.
  Variable R : aval -> aval -> Prop.
  Variable srt : bool.
  Hypothesis HR : rel_ok R srt.

  Lemma abs_set fs vs : abs (TSet fs) (VRec vs) = ARec (abs_fields fs vs).
  Proof. reflexivity. Qed.

  (* SET, under any tagging *)
  Lemma set_val (Pv: ty -> val -> Prop) T' fs : base_of T' = TSet fs -> wf_tags T' = true ->
    keys_ok (flat_map ckeys (map snd fs)) = true ->
    Forall (comp_ok ce cd R Pv) fs ->
    forall vs, comp_vals ce Pv fs vs -> val_ok ce cd R T' (VRec vs).
  Proof.
    intros Hb Hw HK Hcomp vs HCV b He Hmax.
    assert (Htb: tagged_base T' = true) by (unfold tagged_base; rewrite Hb; reflexivity).
    destruct (tagset_shape T' Htb Hw) as (t0 & r & b0 & Hb0 & Hts & Hc0 & Hex & Hd).
    assert (Hcon: tcon t0 = true).
    { rewrite Hc0. rewrite Hb in Hb0; inversion Hb0; reflexivity. }
    assert (Hdep: ty_depth (base_of T') = S (max_depth fs)) by (rewrite Hb; reflexivity).
    assert (Hnc: match T' with TChoice _ => False | _ => True end).
    { destruct T'; try exact I. discriminate Hb. }
    destruct (enc_with_inv_g ce Hce T' _ b He) as (ec & fl & ts & content & cns & Hcenc & Hts' & Hcont & Hfr).
    rewrite Hts in Hts'. inversion Hts'; subst ts; clear Hts'.
    rewrite concrete_encoder_base in Hcenc. rewrite enc_content_base in Hcont.
    rewrite (enc_content_rec ce (base_of T') fs ec fl def_opts vs (or_intror Hb)) in Hcont.
    set (omit := match ec with EcSeq => ef_omit_empty fl | EcSetCer | EcSetDer => true | _ => false end) in Hcont.
    assert (Hec: (ec = EcSeq \/ ec = EcSetDer) /\ ef_indef fl = true /\ (omit = true -> omits ce = true)).
    { subst omit. unfold omits. rewrite Hb in Hcenc. destruct Hce as [E|E]; rewrite E in Hcenc |- *; vm_compute in Hcenc;
        inversion Hcenc; subst ec fl; (split; [solve [left; reflexivity|right; reflexivity]|split; [reflexivity|]]);
        cbn; intros H; solve [discriminate H|reflexivity]. }
    destruct Hec as (Hecs & Hsi & Homit).
    destruct (enc_rec_fields_g ce ec omit def_opts fs vs) as [parts|e] eqn:Eparts; cbn [bind] in Hcont; [|discriminate].
    (* the parts in wire order *)
    assert (Hwire: exists wparts, content = concat (map snd wparts) /\ cns = true /\ Permutation wparts parts).
    { destruct Hecs as [-> | ->]; inversion Hcont; subst content cns.
      - exists parts. repeat split. apply Permutation_refl.
      - exists (sort_by tagset_ltb fst parts). repeat split. apply Permutation_sym, sort_by_perm_self. }
    destruct Hwire as (wparts & -> & -> & Hperm). rewrite Hsi in Hfr.
    pose proof (frame_len_r _ _ _ _ _ _ Hfr) as Hlen.
    assert (Hcl: length (concat (map snd parts)) = length (concat (map snd wparts))).
    { apply concat_perm_length. apply Permutation_map, Permutation_sym. exact Hperm. }
    destruct (fields_plan ce cd Hce R srt HR Pv ec omit Homit fs Hcomp vs parts HCV Eparts ltac:(lia)) as (ds & Habs & Hplan).
    set (items := mk_items 0 ds (map snd parts)).
    set (bound := (length (concat (map snd parts)) + max_depth fs)%nat).
    assert (Hitems: forall f, (bound <= f)%nat ->
              Forall (sitem_ok (dec_call cd f) f fs) items /\ map sbytes items = map snd parts
              /\ place items (map (fun _ => None) fs) = ds /\ required_seen fs ds = true).
    { intros f Hf. destruct (fplan_items (dec_call cd f) f fs HK fs vs (map snd parts) ds (Hplan f Hf) [] eq_refl) as (I1 & I2 & I3 & I4).
      split; [exact I1|]. split; [exact I2|]. split; [exact (I3 [] eq_refl)|exact I4]. }
    destruct (Hitems bound (le_n _)) as (_ & Hbytes & Hplace & Hseen).
    destruct (align_perm snd sbytes wparts parts Hperm items Hbytes) as (witems & Hpi & Hwbytes).
    exists t0, r, (concat (map snd wparts)), true, (VRec ds).
    split; [rewrite (wire_tags_plain T' _ Hnc); apply tagset_of'_ok; exact Hts|].
    split; [exact Hex|]. split; [lia|]. split; [rewrite Hcon; exact Hfr|].
    split; [rewrite (wire_tags_plain T' _ Hnc); apply tagset_of'_ok; exact Hts|].
    split.
    { rewrite (abs_wrappers T' (VRec ds)), (abs_wrappers T' (VRec vs)), Hb. rewrite !abs_set.
      apply (r_rec _ _ HR). exact Habs. }
    exists DcSet, (mkDecFlags true (Some KSet)). split.
    { rewrite by_type_base, Hb. destruct cd; vm_compute; reflexivity. }
    intros f Hf. cbn [dec_value tag0_cons]. rewrite Hcon. cbn [negb]. rewrite Hb.
    destruct (Hitems f ltac:(subst bound; lia)) as (Hok & _).
    assert (Hwok: Forall (sitem_ok (dec_call cd f) f fs) witems).
    { rewrite Forall_forall in *. intros it Hin. apply Hok. eapply Permutation_in; [apply Permutation_sym; exact Hpi|exact Hin]. }
    assert (Hpw: place witems (map (fun _ => None) fs) = ds).
    { rewrite <- (place_perm items witems Hpi (mk_items_nodup ds 0 (map snd parts))). exact Hplace. }
    intros s tl Hav. unfold dec_record. rewrite resume_tell.
    assert (Hwb: map sbytes witems = @map (tagset * list N) (list N) (@snd tagset (list N)) wparts) by exact Hwbytes.
    rewrite <- Hwb in Hav |- *.
    destruct fs as [|f0 fs0] eqn:Efs.
    - (* no components: nothing was written *)
      assert (Hw0: witems = []).
      { assert (Hi0: items = []) by (subst items; destruct ds; [reflexivity|pose proof (Hplan bound (le_n _)) as HP; inversion HP]).
        rewrite Hi0 in Hpi. apply Permutation_nil in Hpi. exact Hpi. }
      rewrite Hw0 in *. cbn [map concat length app] in *.
      destruct f as [|n]; [lia|].
      cbn [record_loop]. cbv zeta. rewrite resume_tell. rewrite Nat.sub_diag.
      cbn [N.of_nat N.ltb N.compare negb map resume].
      assert (Hds: ds = []) by (pose proof (Hplan bound (le_n _)) as HP; inversion HP; reflexivity).
      rewrite Hds. exists s. repeat split. lia.
    - rewrite <- Efs in *.
      assert (Hne: (match fs with [] => true | _ => false end) = false) by (rewrite Efs; reflexivity).
      assert (Hcnt: (length witems <= length (concat (map sbytes witems)))%nat).
      { clear - Hwok. induction Hwok as [|it l (ft & _ & Hl & _) _ IH]; [cbn; lia|]. cbn [length map concat]. rewrite app_length. lia. }
      destruct (set_loop (dec_call cd f) f T' fs Hne witems Hwok (map (fun _ => None) fs) 0%nat f (pos s)
                  (length (concat (map sbytes witems))) s tl) as (s' & Hrun & Hpos & Harr & Hcl2).
      + rewrite Hwb in Hcnt. unfold bytes in *. lia.
      + exact Hav.
      + lia.
      + lia.
      + rewrite Hpw. exact Hseen.
      + rewrite Hpw in Hrun. exists s'. split; [exact Hrun|]. repeat split; assumption.
  Qed.
End Stage3d.

(* Round trip, stage 3 (d): as (c), plus SET with mandatory, OPTIONAL and DEFAULT components whose keys
   (complete tag sets, those of the alternatives for an untagged CHOICE component) are such that none is
   a suffix of another *)
Theorem roundtrip_stage3d : forall ce cd T v b tl,
  enc_ok ce -> stage3_ty false ce T = true -> frag true false T = true -> stage3_val ce cd T v = true ->
  encode ce true 0 T v = Ok b -> N.of_nat (length b) <= index_max ->
  exists v', decode cd (Some T) (b ++ tl) = Ok (DV T v', tl) /\ abs T v' = abs T v.
Proof.
  intros ce cd T v b tl Hce Hty Hfr Hv He Hmax.
  apply (stage3_decode ce cd Hce eq false rel_ok_eq true false); try assumption; try (intros E; discriminate E).
  intros _ T' fs. exact (set_val ce cd Hce eq false rel_ok_eq (Pv3 ce cd) T' fs).
Qed.

Print Assumptions roundtrip_stage3d.

(* the hypotheses are met: DER encoder (components sorted by tag: declaration order 4,[2],2,[0],[APPLICATION 1] is
   written as 2,4,[APPLICATION 1],[0],[2]), DER decoder;
   SET { OCTET STRING, [2] EXPLICIT INTEGER OPTIONAL, INTEGER DEFAULT 7, CHOICE { BOOLEAN, [0] IMPLICIT NULL },
         [APPLICATION 1] IMPLICIT SET { INTEGER, BOOLEAN OPTIONAL } OPTIONAL } *)
Definition stage3d_example_ty : ty :=
  TSet [ (Req, TOcts);
         (Opt, TExp (mkTag Ctx false 2) TInt);
         (Def (VInt 7), TInt);
         (Req, TChoice [TBool; TImp (mkTag Ctx false 0) TNull]);
         (Opt, TImp (mkTag Appl false 1) (TSet [(Req, TInt); (Opt, TBool)])) ].
Definition stage3d_example_val : val :=
  VRec [ Some (VOcts [1]); Some (VInt 300); Some (VInt 8); Some (VChoice 1 VNull); Some (VRec [Some (VInt 2); None]) ].

Example roundtrip_stage3d_nonvacuous :
  stage3_ty false DER stage3d_example_ty = true /\ frag true false stage3d_example_ty = true
  /\ stage3_val DER DER stage3d_example_ty stage3d_example_val = true
  /\ encode DER true 0 stage3d_example_ty stage3d_example_val
     = Ok [49; 19; 2; 1; 8; 4; 1; 1; 97; 3; 2; 1; 2; 128; 0; 162; 4; 2; 2; 1; 44]
  /\ encode BER true 0 stage3d_example_ty stage3d_example_val
     = Ok [49; 19; 4; 1; 1; 162; 4; 2; 2; 1; 44; 2; 1; 8; 128; 0; 97; 3; 2; 1; 2]
  /\ N.of_nat 21 <= index_max.
Proof. vm_compute. repeat split; try reflexivity; discriminate. Qed.

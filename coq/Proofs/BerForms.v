(* Choice points the basic encoding rules leave open, accepted by the model of the BER decoder. *)
From Coq Require Import Lia.
From PV Require Import Base.Bytes Model.Tag Model.Types Model.Proc Model.Enc Model.Dec Proofs.Bits Proofs.TagOctets.
Local Open Scope N_scope.

(* superfluous leading zero octets in a long-form length change nothing (X.690 8.1.3.5 note 2) *)
Lemma be_num_zeros : forall k b, be_num 0 (repeat 0 k ++ b) = be_num 0 b.
Proof. induction k as [|k IH]; intros b; [reflexivity|]. cbn [repeat app be_num]. exact (IH b). Qed.

Theorem overlong_length : forall (k: nat) (n: N) (r: bytes),
  n <> 0 -> (k + length (b256 n) <= 126)%nat ->
  dec_len ((128 + N.of_nat (k + length (b256 n))) :: repeat 0 k ++ b256 n ++ r) = Some (Some n, r).
Proof.
  intros k n r Hn Hk. rewrite dec_len_cons.
  set (m := N.of_nat (k + length (b256 n))).
  assert (Hm: m < 128) by (subst m; lia).
  assert (Hm0: m <> 0).
  { subst m. destruct (b256 n) eqn:E; [|cbn; lia].
    exfalso. apply (f_equal (be_num 0)) in E. rewrite be_num_b256 in E. cbn in E. congruence. }
  destruct (N.ltb_spec (128 + m) 128); [lia|].
  destruct (N.eqb_spec (128 + m) 128); [lia|]. cbv zeta.
  replace (N.land (128 + m) 127) with m.
  2:{ rewrite land127. rewrite N.add_mod by lia. rewrite N.mod_same by lia.
      rewrite N.add_0_l, N.mod_mod by lia. rewrite N.mod_small by assumption. reflexivity. }
  subst m. rewrite Nat2N.id.
  rewrite app_assoc.
  assert (Hlen: length (repeat 0 k ++ b256 n) = (k + length (b256 n))%nat) by (rewrite app_length, repeat_length; reflexivity).
  rewrite <- Hlen.
  destruct (Nat.ltb_spec (length ((repeat 0 k ++ b256 n) ++ r)) (length (repeat 0 k ++ b256 n))) as [Hc|_].
  { rewrite app_length in Hc. lia. }
  rewrite firstn_app_exact, skipn_app_exact, be_num_zeros, be_num_b256. reflexivity.
Qed.

(* any non-zero contents octet is TRUE for the BER BOOLEAN decoder (8.2.2) *)
Theorem any_nonzero_is_true : forall (o: N), o < 256 ->
  (negb (Z.eqb (from_bytes_signed [o]) 0)) = negb (N.eqb o 0).
Proof.
  intros o Ho. unfold from_bytes_signed. cbn [be_num length].
  replace (N.lor (N.shiftl 0 8) o) with o by (rewrite N.shiftl_0_l, N.lor_0_l; reflexivity).
  destruct (N.ltb_spec o 128) as [Hs|Hl].
  - destruct (N.eqb_spec o 0) as [->|Hn]; [reflexivity|].
    destruct (Z.eqb_spec (Z.of_N o) 0) as [E|E]; [lia|reflexivity].
  - destruct (N.eqb_spec o 0) as [->|Hn]; [lia|].
    destruct (Z.eqb_spec (Z.of_N o - 2 ^ (8 * Z.of_nat 1)) 0) as [E|E]; [|reflexivity].
    exfalso. change (2 ^ (8 * Z.of_nat 1))%Z with 256%Z in E. lia.
Qed.
